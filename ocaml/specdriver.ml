(* C01 differential falsifier: the extracted Spec816.step (module Spec816 = extraction of
   Spec/Spec816.v with ExtrOcamlBasic only: Z / N / positive / string stay the extracted inductives)
   against what a real Go interpreter did.

     specdriver cases.txt go.txt <comma separated field names in case-file order> <label>

   cases.txt / go.txt are written by `harness cpucases` / `harness speccases` (see harness/cputool.go):
     C id steps seed onwdm R v... M a=v... P a...
     id step OK cycles stopped R v... T R:a:v W:a:v P:a D:v      |   id step PANIC
   For every step whose PRE-state (the Go interpreter's own state before that step) is in the domain
   of C01 -- E = 0, no interrupt pending, flag bytes in {0,1} -- the pre-state is mapped to the
   architectural state through abs, Spec816.step is run on it and on the memory as the interpreter
   left it, and registers / flags / PC / E / stop flag and the memory effect are compared.
   Output: DIFF lines (one per disagreeing step), STAT lines (distribution). *)
type ostr = string   (* OCaml's string: the extraction defines its own type [string] *)
open Spec816

let rec pos_of_int (n : int) : positive =
  if n = 1 then XH else if n land 1 = 1 then XI (pos_of_int (n lsr 1)) else XO (pos_of_int (n lsr 1))
let z_of_int (n : int) : z = if n = 0 then Z0 else if n > 0 then Zpos (pos_of_int n) else Zneg (pos_of_int (- n))
let rec int_of_pos (p : positive) : int = match p with XH -> 1 | XO q -> 2 * int_of_pos q | XI q -> 2 * int_of_pos q + 1
let int_of_z (v : z) : int = match v with Z0 -> 0 | Zpos p -> int_of_pos p | Zneg p -> - (int_of_pos p)

let char_of_ascii (a : ascii) : char =
  match a with Ascii (b0, b1, b2, b3, b4, b5, b6, b7) ->
    let b x k = if x then 1 lsl k else 0 in
    Char.chr (b b0 0 + b b1 1 + b b2 2 + b b3 3 + b b4 4 + b b5 5 + b b6 6 + b b7 7)
let rec ostring (s : string) : ostr =
  match s with EmptyString -> "" | String (c, r) -> String.make 1 (char_of_ascii c) ^ ostring r

let mode_name (m : mode) : ostr = match m with
  | Imp -> "imp" | Acc -> "acc" | ImmM -> "immM" | ImmX -> "immX" | Imm8 -> "imm8" | Imm16 -> "imm16"
  | Dp -> "dp" | DpX -> "dp,x" | DpY -> "dp,y" | DpInd -> "(dp)" | DpIndX -> "(dp,x)" | DpIndY -> "(dp),y"
  | DpIndL -> "[dp]" | DpIndLY -> "[dp],y" | Sr -> "sr,s" | SrIndY -> "(sr,s),y" | Abs -> "abs" | AbsX -> "abs,x"
  | AbsY -> "abs,y" | Long -> "long" | LongX -> "long,x" | AbsInd -> "(abs)" | AbsIndX -> "(abs,x)"
  | AbsIndL -> "[abs]" | Rel8 -> "rel8" | Rel16 -> "rel16" | BlockMove -> "blockmove"

let fill (seed : int) (a : int) : int =
  let x = a * 2654435761 + seed * 97 + (a lsr 8) * 31 in (x lsr 11) land 255

let safe_int (s : ostr) : int = try int_of_string s with _ -> -1   (* AllCycles may exceed 2^62: unused here *)

type gores = GPanic | GOk of int array * (int * int) list   (* post fields (1-based like the case file), writes in order *)

let () =
  let cases_file = Sys.argv.(1) and go_file = Sys.argv.(2) and label = Sys.argv.(4) in
  let names = Array.of_list (String.split_on_char ',' Sys.argv.(3)) in
  let nf = Array.length names in
  let idx n = let r = ref (-1) in Array.iteri (fun i x -> if x = n then r := i) names;
    if !r < 0 then failwith ("field " ^ n ^ " missing") else !r in
  let iRA = idx "RA" and iRAh = idx "RAh" and iRAl = idx "RAl" and iRX = idx "RX" and iRXl = idx "RXl"
  and iRY = idx "RY" and iRYl = idx "RYl" and iSP = idx "SP" and iRD = idx "RD" and iDBR = idx "RDBR"
  and iRK = idx "RK" and iPC = idx "PC" and iN = idx "N" and iV = idx "V" and iM = idx "M" and iX = idx "X"
  and iD = idx "D" and iI = idx "I" and iZ = idx "Z" and iC = idx "C" and iE = idx "E"
  and iInt = idx "Interrupt" and iStp = idx "Stopped" in
  (* ---- Go results: id -> results by step *)
  let gores : (int, gores list) Hashtbl.t = Hashtbl.create 4096 in
  (let ic = open_in go_file in
   try while true do
       let line = input_line ic in
       let toks = Array.of_list (String.split_on_char ' ' line) in
       let id = int_of_string toks.(0) in
       let r =
         if toks.(2) = "PANIC" then GPanic
         else begin
           let regs = Array.make nf 0 in
           let i = ref 6 and k = ref 0 in
           while toks.(!i) <> "T" do regs.(!k) <- safe_int toks.(!i); incr k; incr i done;
           incr i;
           let ws = ref [] in
           while !i < Array.length toks do
             (match String.split_on_char ':' toks.(!i) with
              | ["W"; a; v] -> ws := (int_of_string a, int_of_string v) :: !ws
              | _ -> ());
             incr i
           done;
           GOk (regs, List.rev !ws)
         end in
       Hashtbl.replace gores id (r :: (try Hashtbl.find gores id with Not_found -> []))
     done with End_of_file -> close_in ic);
  let stat : (ostr, int) Hashtbl.t = Hashtbl.create 64 in
  let bump k = Hashtbl.replace stat k (1 + try Hashtbl.find stat k with Not_found -> 0) in
  (* feature vector of the current step: boundary classes it exercises *)
  let feats : ostr list ref = ref [] in
  let vectors : (ostr, unit) Hashtbl.t = Hashtbl.create 4096 in
  let feat k = bump ("class_" ^ k); feats := k :: !feats in
  let abs_of (r : int array) : arch =
    let b i = r.(i) = 1 in
    { rA = z_of_int (if r.(iM) = 1 then r.(iRAh) * 256 + r.(iRAl) else r.(iRA));
      rX = z_of_int (if r.(iX) = 1 then r.(iRXl) else r.(iRX));
      rY = z_of_int (if r.(iX) = 1 then r.(iRYl) else r.(iRY));
      rS = z_of_int r.(iSP); rD = z_of_int r.(iRD); rDBR = z_of_int r.(iDBR); rPBR = z_of_int r.(iRK);
      rPC = z_of_int r.(iPC); fN = b iN; fV = b iV; fM = b iM; fX = b iX; fD = b iD; fI = b iI; fZ = b iZ;
      fC = b iC; rE = b iE; rStp = b iStp } in
  let show (a : arch) : ostr =
    let f b = if b then 1 else 0 in
    Printf.sprintf "A=%04x X=%04x Y=%04x S=%04x D=%04x DBR=%02x PBR=%02x PC=%04x nvmxdizc=%d%d%d%d%d%d%d%d E=%d stp=%d"
      (int_of_z a.rA) (int_of_z a.rX) (int_of_z a.rY) (int_of_z a.rS) (int_of_z a.rD) (int_of_z a.rDBR)
      (int_of_z a.rPBR) (int_of_z a.rPC) (f a.fN) (f a.fV) (f a.fM) (f a.fX) (f a.fD) (f a.fI) (f a.fZ) (f a.fC)
      (f a.rE) (f a.rStp) in
  let ic = open_in cases_file in
  (try while true do
      let line = input_line ic in
      let toks = Array.of_list (String.split_on_char ' ' line) in
      let id = int_of_string toks.(1) and seed = int_of_string toks.(3) in
      let regs = Array.make nf 0 in
      let ov : (int, int) Hashtbl.t = Hashtbl.create 64 in
      let i = ref 6 and k = ref 0 in
      while toks.(!i) <> "M" do regs.(!k) <- safe_int toks.(!i); incr k; incr i done;
      incr i;
      while toks.(!i) <> "P" do
        (match String.split_on_char '=' toks.(!i) with
         | [a; v] -> Hashtbl.replace ov (int_of_string a) (int_of_string v)
         | _ -> failwith "bad mem token");
        incr i
      done;
      let results = List.rev (try Hashtbl.find gores id with Not_found -> []) in
      let cur = ref regs in
      List.iteri (fun stepno r ->
        let pre = !cur in
        let flags01 = List.for_all (fun j -> pre.(j) = 0 || pre.(j) = 1) [iN; iV; iM; iX; iD; iI; iZ; iC; iE] in
        let in_dom = flags01 && pre.(iE) = 0 && pre.(iInt) <> 2 && pre.(iInt) <> 3 in
        let memi a = match Hashtbl.find_opt ov a with Some v -> v | None -> fill seed a in
        (if not in_dom then bump "skipped_outside_domain"
         else begin
           let s = abs_of pre in
           let m : z -> z = fun a -> z_of_int (memi (int_of_z a)) in
           let op = memi (pre.(iRK) * 65536 + pre.(iPC)) in
           let (mn, md) = decode (z_of_int op) in
           let mname = ostring (mnem_name mn) and mdn = mode_name md in
           if not (bcd_defined s m) then bump "skipped_invalid_bcd"
           else begin
             bump "compared";
             feats := [];
             bump (Printf.sprintf "op_%02x" op);
             let dec = decimal_arith s m in
             if dec then feat "decimal_valid_bcd";
             (* boundary classes, from the spec's view of the operand *)
             let o k = memi (pre.(iRK) * 65536 + ((pre.(iPC) + k) land 0xFFFF)) in
             (match oploc md s m (z_of_int (o 1)) (z_of_int (o 2)) (z_of_int (o 3)) with
              | LLin ea -> let e = int_of_z ea in
                 if e = 0xFFFFFF then feat "ea_top_of_space";
                 if e land 0xFFFF = 0xFFFF then feat "ea_bank_end";
                 if e land 0xFF = 0xFF then feat "ea_page_end";
                 (match md with
                  | AbsX | AbsY | DpIndY | SrIndY -> if e lsr 16 <> pre.(iDBR) then feat "index_crosses_bank"
                  | _ -> ())
              | LWrap (b, off) -> let f = int_of_z off in
                 if int_of_z b = 0 && f = 0xFFFF then feat "bank0_wrap_datum";
                 (match md with ImmM | ImmX | Imm8 | Imm16 -> () | _ -> if pre.(iRD) land 0xFF <> 0 then feat "DL_nonzero")
              | LAcc -> ());
             let len = int_of_z (op_length (z_of_int op) s.fM s.fX) in
             if pre.(iPC) + len > 0xFFFF then feat "pc_wraps_in_bank";
             if pre.(iSP) <= 3 || pre.(iSP) >= 0xFFFC then feat "sp_near_wrap";
             if pre.(iM) = 0 then bump "class_m16" else bump "class_m8";
             if pre.(iX) = 0 then bump "class_x16" else bump "class_x8";
             if pre.(iM) = 1 && pre.(iRA) <> pre.(iRAh) * 256 + pre.(iRAl) then feat "stale_RA";
             if pre.(iX) = 1 && (pre.(iRX) <> pre.(iRXl) || pre.(iRY) <> pre.(iRYl)) then feat "stale_RX_RY";
             if !feats <> [] then bump "nontrivial";
             Hashtbl.replace vectors (Printf.sprintf "%02x:%d%d:%s" op pre.(iM) pre.(iX) (String.concat "," (List.sort compare !feats))) ();
             match r with
             | GPanic ->
               bump "diff"; bump ("diff_panic_" ^ mname);
               Printf.printf "DIFF %s case=%d step=%d op=%02x %s %s comps=PANIC pre=[%s]\n" label id stepno op mname mdn (show s)
             | GOk (post, gws) ->
               let (s', ws) = step s m in
               let g' = abs_of post in
               let comps = ref [] in
               let cz n a b = if int_of_z a <> int_of_z b then comps := n :: !comps in
               let cb n (a : bool) (b : bool) = if a <> b then comps := n :: !comps in
               cz "A" s'.rA g'.rA; cz "X" s'.rX g'.rX; cz "Y" s'.rY g'.rY; cz "S" s'.rS g'.rS; cz "D" s'.rD g'.rD;
               cz "DBR" s'.rDBR g'.rDBR; cz "PBR" s'.rPBR g'.rPBR; cz "PC" s'.rPC g'.rPC;
               cb "n" s'.fN g'.fN; if not dec then cb "v" s'.fV g'.fV; cb "m" s'.fM g'.fM; cb "x" s'.fX g'.fX;
               cb "d" s'.fD g'.fD; cb "i" s'.fI g'.fI; cb "z" s'.fZ g'.fZ; cb "c" s'.fC g'.fC;
               cb "E" s'.rE g'.rE; cb "stp" s'.rStp g'.rStp;
               (* a post state outside {0,1} flags would be mapped wrongly by abs: report it as such *)
               List.iter (fun j -> if post.(j) <> 0 && post.(j) <> 1 then comps := "flag-not-01" :: !comps)
                 [iN; iV; iM; iX; iD; iI; iZ; iC; iE];
               (* memory effect: final value of every address written by either side *)
               let fin (l : (int * int) list) =
                 let h = Hashtbl.create 8 in List.iter (fun (a, v) -> Hashtbl.replace h a v) l; h in
               let sw = fin (List.map (fun (a, v) -> (int_of_z a, int_of_z v)) ws) and gw = fin gws in
               let addrs = Hashtbl.create 8 in
               Hashtbl.iter (fun a _ -> Hashtbl.replace addrs a ()) sw;
               Hashtbl.iter (fun a _ -> Hashtbl.replace addrs a ()) gw;
               let memdiff = ref false in
               Hashtbl.iter (fun a () ->
                 let v1 = match Hashtbl.find_opt sw a with Some v -> v | None -> memi a
                 and v2 = match Hashtbl.find_opt gw a with Some v -> v | None -> memi a in
                 if v1 <> v2 then memdiff := true) addrs;
               if !memdiff then comps := "mem" :: !comps;
               if Hashtbl.length addrs > 0 then bump "class_writes_memory";
               if !comps <> [] then begin
                 bump "diff";
                 let cs = String.concat "," (List.rev !comps) in
                 bump (Printf.sprintf "diff_%s_%s" mname mdn);
                 let wl l = String.concat "," (List.map (fun (a, v) -> Printf.sprintf "%06x=%02x" a v) l) in
                 Printf.printf "DIFF %s case=%d step=%d op=%02x %s %s comps=%s bytes=%02x,%02x,%02x,%02x pre=[%s] spec=[%s] go=[%s] wspec=[%s] wgo=[%s]\n"
                   label id stepno op mname mdn cs op (o 1) (o 2) (o 3) (show s) (show s') (show g')
                   (wl (List.map (fun (a, v) -> (int_of_z a, int_of_z v)) ws)) (wl gws)
               end
           end
         end);
        (match r with
         | GOk (post, gws) -> List.iter (fun (a, v) -> Hashtbl.replace ov a v) gws; cur := post
         | GPanic -> ())
      ) results
    done with End_of_file -> close_in ic);
  Hashtbl.replace stat "distinct_feature_vectors" (Hashtbl.length vectors);
  let keys = List.sort compare (Hashtbl.fold (fun k _ acc -> k :: acc) stat []) in
  List.iter (fun k -> Printf.printf "STAT %s %s %d\n" label k (Hashtbl.find stat k)) keys
