(* Driver for the extracted CPU model (module Model = extraction of GenCpu65 or GenCpuAlt with
   ExtrOcamlBasic only: Z / N / positive stay the extracted inductives).  Reads the case file
   written by the Go harness, runs the model step function, prints one line per step in exactly the
   format of the Go side so that the two files can be compared textually. *)
open Model

let rec pos_of_int (n : int) : positive =
  if n = 1 then XH else if n land 1 = 1 then XI (pos_of_int (n lsr 1)) else XO (pos_of_int (n lsr 1))
let z_of_int (n : int) : z = if n = 0 then Z0 else if n > 0 then Zpos (pos_of_int n) else Zneg (pos_of_int (- n))
let rec int_of_pos (p : positive) : int = match p with XH -> 1 | XO q -> 2 * int_of_pos q | XI q -> 2 * int_of_pos q + 1
let int_of_z (v : z) : int = match v with Z0 -> 0 | Zpos p -> int_of_pos p | Zneg p -> - (int_of_pos p)
let int_of_n (v : n) : int = match v with N0 -> 0 | Npos p -> int_of_pos p

(* unsigned 64-bit decimal strings <-> z (AllCycles can exceed OCaml's 63-bit int) *)
let z_of_string (s : string) : z =
  let r = ref Z0 in
  String.iter (fun c -> r := Z.add (Z.mul !r (z_of_int 10)) (z_of_int (Char.code c - 48))) s; !r
let rec string_of_pos_z (v : z) : string =
  match v with
  | Z0 -> ""
  | _ -> let q = Z.div v (z_of_int 10) and m = Z.modulo v (z_of_int 10) in
         string_of_pos_z q ^ string_of_int (int_of_z m)
let string_of_z (v : z) : string = match v with Z0 -> "0" | Zneg _ -> "-" ^ string_of_pos_z (Z.opp v) | _ -> string_of_pos_z v

let fill (seed : int) (a : int) : int =
  let x = a * 2654435761 + seed * 97 + (a lsr 8) * 31 in (x lsr 11) land 255

let nfields = 64

let () =
  let ic = open_in Sys.argv.(1) in
  let buf = Buffer.create (1 lsl 20) in
  (try
    while true do
      let line = input_line ic in
      let toks = Array.of_list (String.split_on_char ' ' line) in
      (* C id steps seed onwdm R v... M a=v... P a... [O history]   history: one letter per entry, S = Step, R = Reset, I = TriggerIRQ *)
      let id = int_of_string toks.(1) and steps = int_of_string toks.(2)
      and seed = int_of_string toks.(3) and onwdm = toks.(4) = "1" in
      let regs = Array.make nfields Z0 in
      let ov : (int, int) Hashtbl.t = Hashtbl.create 64 in
      let onpc : (int, unit) Hashtbl.t = Hashtbl.create 4 in
      let i = ref 6 and nreg = ref 0 in
      while toks.(!i) <> "M" do
        regs.(!nreg + 1) <- z_of_string toks.(!i); incr nreg; incr i
      done;
      incr i;
      while toks.(!i) <> "P" do
        (match String.split_on_char '=' toks.(!i) with
         | [a; v] -> Hashtbl.replace ov (int_of_string a) (int_of_string v)
         | _ -> failwith "bad mem token");
        incr i
      done;
      incr i;
      let ops = ref "" in
      while !i < Array.length toks do
        if toks.(!i) = "O" then (ops := toks.(!i + 1); i := Array.length toks)
        else begin
          if toks.(!i) <> "" then Hashtbl.replace onpc (int_of_string toks.(!i)) ();
          incr i
        end
      done;
      let ops = !ops in
      let op_at k = if k < String.length ops then ops.[k] else 'S' in
      let nreg = !nreg in
      (try
        for step = 0 to steps - 1 do
          let regsnap = Array.copy regs in
          let s0 = { regs = (fun f -> let k = int_of_n f in if k < nfields then regsnap.(k) else Z0);
                     mem = (fun a -> let ai = int_of_z a in
                                     match Hashtbl.find_opt ov ai with Some v -> z_of_int v | None -> z_of_int (fill seed ai));
                     trace = [];
                     onpc = (fun a -> Hashtbl.mem onpc (int_of_z a));
                     onwdm = onwdm } in
          let opc = op_at step in
          let r = match opc with
            | 'R' -> (match reset_fn s0 with Panic -> Panic | Ok (_, s1) -> Ok ((Z0, false), s1))
            | 'I' -> (match irq_fn s0 with Panic -> Panic | Ok (_, s1) -> Ok ((Z0, false), s1))
            | _ -> step_fn s0 in
          match r with
          | Panic -> Buffer.add_string buf (Printf.sprintf "%d %d PANIC\n" id step); raise Exit
          | Ok ((cyc, stopped), s1) ->
            Buffer.add_string buf (Printf.sprintf "%d %d %s %d %d R" id step (if opc = 'S' then "OK" else String.make 1 opc) (int_of_z cyc) (if stopped then 1 else 0));
            for k = 1 to nreg do
              let v = s1.regs (match z_of_int k with Zpos p -> Npos p | _ -> N0) in
              regs.(k) <- v;
              Buffer.add_char buf ' '; Buffer.add_string buf (string_of_z v)
            done;
            Buffer.add_string buf " T";
            List.iter (fun e ->
              match e with
              | EvR (a, v) -> Buffer.add_string buf (Printf.sprintf " R:%d:%d" (int_of_z a) (int_of_z v))
              | EvW (a, v) -> Hashtbl.replace ov (int_of_z a) (int_of_z v);
                              Buffer.add_string buf (Printf.sprintf " W:%d:%d" (int_of_z a) (int_of_z v))
              | EvPC a -> Buffer.add_string buf (Printf.sprintf " P:%d" (int_of_z a))
              | EvWDM v -> Buffer.add_string buf (Printf.sprintf " D:%d" (int_of_z v)))
              (List.rev s1.trace);
            Buffer.add_char buf '\n'
        done
      with Exit -> ());
      if Buffer.length buf > (1 lsl 19) then (print_string (Buffer.contents buf); Buffer.clear buf)
    done
  with End_of_file -> ());
  print_string (Buffer.contents buf)
