Lib/U63Ops.vo Lib/U63Ops.glob Lib/U63Ops.v.beautified Lib/U63Ops.required_vo: Lib/U63Ops.v 
Lib/U63Ops.vio: Lib/U63Ops.v 
Lib/U63Ops.vos Lib/U63Ops.vok Lib/U63Ops.required_vos: Lib/U63Ops.v 
Lib/ZOps.vo Lib/ZOps.glob Lib/ZOps.v.beautified Lib/ZOps.required_vo: Lib/ZOps.v 
Lib/ZOps.vio: Lib/ZOps.v 
Lib/ZOps.vos Lib/ZOps.vok Lib/ZOps.required_vos: Lib/ZOps.v 
Lib/Machine.vo Lib/Machine.glob Lib/Machine.v.beautified Lib/Machine.required_vo: Lib/Machine.v Lib/ZOps.vo
Lib/Machine.vio: Lib/Machine.v Lib/ZOps.vio
Lib/Machine.vos Lib/Machine.vok Lib/Machine.required_vos: Lib/Machine.v Lib/ZOps.vos
Lib/Sweep.vo Lib/Sweep.glob Lib/Sweep.v.beautified Lib/Sweep.required_vo: Lib/Sweep.v 
Lib/Sweep.vio: Lib/Sweep.v 
Lib/Sweep.vos Lib/Sweep.vok Lib/Sweep.required_vos: Lib/Sweep.v 
Lib/Digest.vo Lib/Digest.glob Lib/Digest.v.beautified Lib/Digest.required_vo: Lib/Digest.v Lib/U63Ops.vo
Lib/Digest.vio: Lib/Digest.v Lib/U63Ops.vio
Lib/Digest.vos Lib/Digest.vok Lib/Digest.required_vos: Lib/Digest.v Lib/U63Ops.vos
Lib/ZList.vo Lib/ZList.glob Lib/ZList.v.beautified Lib/ZList.required_vo: Lib/ZList.v 
Lib/ZList.vio: Lib/ZList.v 
Lib/ZList.vos Lib/ZList.vok Lib/ZList.required_vos: Lib/ZList.v 
Props/MapProps.vo Props/MapProps.glob Props/MapProps.v.beautified Props/MapProps.required_vo: Props/MapProps.v Lib/U63Ops.vo Lib/Sweep.vo
Props/MapProps.vio: Props/MapProps.v Lib/U63Ops.vio Lib/Sweep.vio
Props/MapProps.vos Props/MapProps.vok Props/MapProps.required_vos: Props/MapProps.v Lib/U63Ops.vos Lib/Sweep.vos
Props/ColorProps.vo Props/ColorProps.glob Props/ColorProps.v.beautified Props/ColorProps.required_vo: Props/ColorProps.v Lib/U63Ops.vo Lib/Sweep.vo
Props/ColorProps.vio: Props/ColorProps.v Lib/U63Ops.vio Lib/Sweep.vio
Props/ColorProps.vos Props/ColorProps.vok Props/ColorProps.required_vos: Props/ColorProps.v Lib/U63Ops.vos Lib/Sweep.vos
Spec/ISA.vo Spec/ISA.glob Spec/ISA.v.beautified Spec/ISA.required_vo: Spec/ISA.v 
Spec/ISA.vio: Spec/ISA.v 
Spec/ISA.vos Spec/ISA.vok Spec/ISA.required_vos: Spec/ISA.v 
Spec/Spec816.vo Spec/Spec816.glob Spec/Spec816.v.beautified Spec/Spec816.required_vo: Spec/Spec816.v Spec/ISA.vo
Spec/Spec816.vio: Spec/Spec816.v Spec/ISA.vio
Spec/Spec816.vos Spec/Spec816.vok Spec/Spec816.required_vos: Spec/Spec816.v Spec/ISA.vos
Spec/Spec816Examples.vo Spec/Spec816Examples.glob Spec/Spec816Examples.v.beautified Spec/Spec816Examples.required_vo: Spec/Spec816Examples.v Spec/ISA.vo Spec/Spec816.vo
Spec/Spec816Examples.vio: Spec/Spec816Examples.v Spec/ISA.vio Spec/Spec816.vio
Spec/Spec816Examples.vos Spec/Spec816Examples.vok Spec/Spec816Examples.required_vos: Spec/Spec816Examples.v Spec/ISA.vos Spec/Spec816.vos
