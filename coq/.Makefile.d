Lib/U63Ops.vo Lib/U63Ops.glob Lib/U63Ops.v.beautified Lib/U63Ops.required_vo: Lib/U63Ops.v 
Lib/U63Ops.vio: Lib/U63Ops.v 
Lib/U63Ops.vos Lib/U63Ops.vok Lib/U63Ops.required_vos: Lib/U63Ops.v 
Lib/ZOps.vo Lib/ZOps.glob Lib/ZOps.v.beautified Lib/ZOps.required_vo: Lib/ZOps.v 
Lib/ZOps.vio: Lib/ZOps.v 
Lib/ZOps.vos Lib/ZOps.vok Lib/ZOps.required_vos: Lib/ZOps.v 
Lib/Machine.vo Lib/Machine.glob Lib/Machine.v.beautified Lib/Machine.required_vo: Lib/Machine.v Lib/ZOps.vo
Lib/Machine.vio: Lib/Machine.v Lib/ZOps.vio
Lib/Machine.vos Lib/Machine.vok Lib/Machine.required_vos: Lib/Machine.v Lib/ZOps.vos
Lib/Sweep.vo Lib/Sweep.glob Lib/Sweep.v.beautified Lib/Sweep.required_vo: Lib/Sweep.v 
Lib/Sweep.vio: Lib/Sweep.v 
Lib/Sweep.vos Lib/Sweep.vok Lib/Sweep.required_vos: Lib/Sweep.v 
Lib/Digest.vo Lib/Digest.glob Lib/Digest.v.beautified Lib/Digest.required_vo: Lib/Digest.v Lib/U63Ops.vo
Lib/Digest.vio: Lib/Digest.v Lib/U63Ops.vio
Lib/Digest.vos Lib/Digest.vok Lib/Digest.required_vos: Lib/Digest.v Lib/U63Ops.vos
Lib/ZList.vo Lib/ZList.glob Lib/ZList.v.beautified Lib/ZList.required_vo: Lib/ZList.v 
Lib/ZList.vio: Lib/ZList.v 
Lib/ZList.vos Lib/ZList.vok Lib/ZList.required_vos: Lib/ZList.v 
Props/MapProps.vo Props/MapProps.glob Props/MapProps.v.beautified Props/MapProps.required_vo: Props/MapProps.v Lib/U63Ops.vo Lib/Sweep.vo
Props/MapProps.vio: Props/MapProps.v Lib/U63Ops.vio Lib/Sweep.vio
Props/MapProps.vos Props/MapProps.vok Props/MapProps.required_vos: Props/MapProps.v Lib/U63Ops.vos Lib/Sweep.vos
Props/ColorProps.vo Props/ColorProps.glob Props/ColorProps.v.beautified Props/ColorProps.required_vo: Props/ColorProps.v Lib/U63Ops.vo Lib/Sweep.vo
Props/ColorProps.vio: Props/ColorProps.v Lib/U63Ops.vio Lib/Sweep.vio
Props/ColorProps.vos Props/ColorProps.vok Props/ColorProps.required_vos: Props/ColorProps.v Lib/U63Ops.vos Lib/Sweep.vos
Model/Emitter.vo Model/Emitter.glob Model/Emitter.v.beautified Model/Emitter.required_vo: Model/Emitter.v Lib/ZList.vo
Model/Emitter.vio: Model/Emitter.v Lib/ZList.vio
Model/Emitter.vos Model/Emitter.vok Model/Emitter.required_vos: Model/Emitter.v Lib/ZList.vos
Model/EmitterTie.vo Model/EmitterTie.glob Model/EmitterTie.v.beautified Model/EmitterTie.required_vo: Model/EmitterTie.v Lib/ZList.vo Model/Emitter.vo
Model/EmitterTie.vio: Model/EmitterTie.v Lib/ZList.vio Model/Emitter.vio
Model/EmitterTie.vos Model/EmitterTie.vok Model/EmitterTie.required_vos: Model/EmitterTie.v Lib/ZList.vos Model/Emitter.vos
Model/EmitterExt.vo Model/EmitterExt.glob Model/EmitterExt.v.beautified Model/EmitterExt.required_vo: Model/EmitterExt.v Lib/ZList.vo Model/Emitter.vo Model/EmitterTie.vo
Model/EmitterExt.vio: Model/EmitterExt.v Lib/ZList.vio Model/Emitter.vio Model/EmitterTie.vio
Model/EmitterExt.vos Model/EmitterExt.vok Model/EmitterExt.required_vos: Model/EmitterExt.v Lib/ZList.vos Model/Emitter.vos Model/EmitterTie.vos
Model/EmitterTieX.vo Model/EmitterTieX.glob Model/EmitterTieX.v.beautified Model/EmitterTieX.required_vo: Model/EmitterTieX.v Lib/ZList.vo Model/Emitter.vo Model/EmitterTie.vo Model/EmitterExt.vo
Model/EmitterTieX.vio: Model/EmitterTieX.v Lib/ZList.vio Model/Emitter.vio Model/EmitterTie.vio Model/EmitterExt.vio
Model/EmitterTieX.vos Model/EmitterTieX.vok Model/EmitterTieX.required_vos: Model/EmitterTieX.v Lib/ZList.vos Model/Emitter.vos Model/EmitterTie.vos Model/EmitterExt.vos
Props/EmitterProps.vo Props/EmitterProps.glob Props/EmitterProps.v.beautified Props/EmitterProps.required_vo: Props/EmitterProps.v Lib/ZList.vo Model/Emitter.vo Model/EmitterTie.vo Model/EmitterExt.vo
Props/EmitterProps.vio: Props/EmitterProps.v Lib/ZList.vio Model/Emitter.vio Model/EmitterTie.vio Model/EmitterExt.vio
Props/EmitterProps.vos Props/EmitterProps.vok Props/EmitterProps.required_vos: Props/EmitterProps.v Lib/ZList.vos Model/Emitter.vos Model/EmitterTie.vos Model/EmitterExt.vos
Props/FinalizeProps.vo Props/FinalizeProps.glob Props/FinalizeProps.v.beautified Props/FinalizeProps.required_vo: Props/FinalizeProps.v Lib/ZList.vo Model/Emitter.vo Model/EmitterTie.vo Model/EmitterExt.vo
Props/FinalizeProps.vio: Props/FinalizeProps.v Lib/ZList.vio Model/Emitter.vio Model/EmitterTie.vio Model/EmitterExt.vio
Props/FinalizeProps.vos Props/FinalizeProps.vok Props/FinalizeProps.required_vos: Props/FinalizeProps.v Lib/ZList.vos Model/Emitter.vos Model/EmitterTie.vos Model/EmitterExt.vos
Props/ListingProps.vo Props/ListingProps.glob Props/ListingProps.v.beautified Props/ListingProps.required_vo: Props/ListingProps.v Lib/ZList.vo Model/Emitter.vo Model/EmitterTie.vo Model/EmitterExt.vo Props/FinalizeProps.vo
Props/ListingProps.vio: Props/ListingProps.v Lib/ZList.vio Model/Emitter.vio Model/EmitterTie.vio Model/EmitterExt.vio Props/FinalizeProps.vio
Props/ListingProps.vos Props/ListingProps.vok Props/ListingProps.required_vos: Props/ListingProps.v Lib/ZList.vos Model/Emitter.vos Model/EmitterTie.vos Model/EmitterExt.vos Props/FinalizeProps.vos
