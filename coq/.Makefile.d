Lib/U63Ops.vo Lib/U63Ops.glob Lib/U63Ops.v.beautified Lib/U63Ops.required_vo: Lib/U63Ops.v 
Lib/U63Ops.vio: Lib/U63Ops.v 
Lib/U63Ops.vos Lib/U63Ops.vok Lib/U63Ops.required_vos: Lib/U63Ops.v 
Lib/ZOps.vo Lib/ZOps.glob Lib/ZOps.v.beautified Lib/ZOps.required_vo: Lib/ZOps.v 
Lib/ZOps.vio: Lib/ZOps.v 
Lib/ZOps.vos Lib/ZOps.vok Lib/ZOps.required_vos: Lib/ZOps.v 
Lib/Machine.vo Lib/Machine.glob Lib/Machine.v.beautified Lib/Machine.required_vo: Lib/Machine.v Lib/ZOps.vo
Lib/Machine.vio: Lib/Machine.v Lib/ZOps.vio
Lib/Machine.vos Lib/Machine.vok Lib/Machine.required_vos: Lib/Machine.v Lib/ZOps.vos
