Lib/U63Ops.vo Lib/U63Ops.glob Lib/U63Ops.v.beautified Lib/U63Ops.required_vo: Lib/U63Ops.v 
Lib/U63Ops.vio: Lib/U63Ops.v 
Lib/U63Ops.vos Lib/U63Ops.vok Lib/U63Ops.required_vos: Lib/U63Ops.v 
Lib/ZOps.vo Lib/ZOps.glob Lib/ZOps.v.beautified Lib/ZOps.required_vo: Lib/ZOps.v 
Lib/ZOps.vio: Lib/ZOps.v 
Lib/ZOps.vos Lib/ZOps.vok Lib/ZOps.required_vos: Lib/ZOps.v 
Lib/Machine.vo Lib/Machine.glob Lib/Machine.v.beautified Lib/Machine.required_vo: Lib/Machine.v Lib/ZOps.vo
Lib/Machine.vio: Lib/Machine.v Lib/ZOps.vio
Lib/Machine.vos Lib/Machine.vok Lib/Machine.required_vos: Lib/Machine.v Lib/ZOps.vos
Lib/Sweep.vo Lib/Sweep.glob Lib/Sweep.v.beautified Lib/Sweep.required_vo: Lib/Sweep.v 
Lib/Sweep.vio: Lib/Sweep.v 
Lib/Sweep.vos Lib/Sweep.vok Lib/Sweep.required_vos: Lib/Sweep.v 
Lib/Digest.vo Lib/Digest.glob Lib/Digest.v.beautified Lib/Digest.required_vo: Lib/Digest.v Lib/U63Ops.vo
Lib/Digest.vio: Lib/Digest.v Lib/U63Ops.vio
Lib/Digest.vos Lib/Digest.vok Lib/Digest.required_vos: Lib/Digest.v Lib/U63Ops.vos
Lib/ZList.vo Lib/ZList.glob Lib/ZList.v.beautified Lib/ZList.required_vo: Lib/ZList.v 
Lib/ZList.vio: Lib/ZList.v 
Lib/ZList.vos Lib/ZList.vok Lib/ZList.required_vos: Lib/ZList.v 
Props/MapProps.vo Props/MapProps.glob Props/MapProps.v.beautified Props/MapProps.required_vo: Props/MapProps.v Lib/U63Ops.vo Lib/Sweep.vo
Props/MapProps.vio: Props/MapProps.v Lib/U63Ops.vio Lib/Sweep.vio
Props/MapProps.vos Props/MapProps.vok Props/MapProps.required_vos: Props/MapProps.v Lib/U63Ops.vos Lib/Sweep.vos
Props/ColorProps.vo Props/ColorProps.glob Props/ColorProps.v.beautified Props/ColorProps.required_vo: Props/ColorProps.v Lib/U63Ops.vo Lib/Sweep.vo
Props/ColorProps.vio: Props/ColorProps.v Lib/U63Ops.vio Lib/Sweep.vio
Props/ColorProps.vos Props/ColorProps.vok Props/ColorProps.required_vos: Props/ColorProps.v Lib/U63Ops.vos Lib/Sweep.vos
Spec/ISA.vo Spec/ISA.glob Spec/ISA.v.beautified Spec/ISA.required_vo: Spec/ISA.v 
Spec/ISA.vio: Spec/ISA.v 
Spec/ISA.vos Spec/ISA.vok Spec/ISA.required_vos: Spec/ISA.v 
Spec/Spec816.vo Spec/Spec816.glob Spec/Spec816.v.beautified Spec/Spec816.required_vo: Spec/Spec816.v Spec/ISA.vo
Spec/Spec816.vio: Spec/Spec816.v Spec/ISA.vio
Spec/Spec816.vos Spec/Spec816.vok Spec/Spec816.required_vos: Spec/Spec816.v Spec/ISA.vos
Spec/Spec816Examples.vo Spec/Spec816Examples.glob Spec/Spec816Examples.v.beautified Spec/Spec816Examples.required_vo: Spec/Spec816Examples.v Spec/ISA.vo Spec/Spec816.vo
Spec/Spec816Examples.vio: Spec/Spec816Examples.v Spec/ISA.vio Spec/Spec816.vio
Spec/Spec816Examples.vos Spec/Spec816Examples.vok Spec/Spec816Examples.required_vos: Spec/Spec816Examples.v Spec/ISA.vos Spec/Spec816.vos
Snapshot/GenFields.vo Snapshot/GenFields.glob Snapshot/GenFields.v.beautified Snapshot/GenFields.required_vo: Snapshot/GenFields.v 
Snapshot/GenFields.vio: Snapshot/GenFields.v 
Snapshot/GenFields.vos Snapshot/GenFields.vok Snapshot/GenFields.required_vos: Snapshot/GenFields.v 
Snapshot/GenCpu65.vo Snapshot/GenCpu65.glob Snapshot/GenCpu65.v.beautified Snapshot/GenCpu65.required_vo: Snapshot/GenCpu65.v Lib/ZOps.vo Lib/Machine.vo Snapshot/GenFields.vo
Snapshot/GenCpu65.vio: Snapshot/GenCpu65.v Lib/ZOps.vio Lib/Machine.vio Snapshot/GenFields.vio
Snapshot/GenCpu65.vos Snapshot/GenCpu65.vok Snapshot/GenCpu65.required_vos: Snapshot/GenCpu65.v Lib/ZOps.vos Lib/Machine.vos Snapshot/GenFields.vos
Props/C01Base.vo Props/C01Base.glob Props/C01Base.v.beautified Props/C01Base.required_vo: Props/C01Base.v Spec/ISA.vo Spec/Spec816.vo Lib/ZOps.vo Lib/Machine.vo Snapshot/GenFields.vo Snapshot/GenCpu65.vo
Props/C01Base.vio: Props/C01Base.v Spec/ISA.vio Spec/Spec816.vio Lib/ZOps.vio Lib/Machine.vio Snapshot/GenFields.vio Snapshot/GenCpu65.vio
Props/C01Base.vos Props/C01Base.vok Props/C01Base.required_vos: Props/C01Base.v Spec/ISA.vos Spec/Spec816.vos Lib/ZOps.vos Lib/Machine.vos Snapshot/GenFields.vos Snapshot/GenCpu65.vos
Props/C01OpsA.vo Props/C01OpsA.glob Props/C01OpsA.v.beautified Props/C01OpsA.required_vo: Props/C01OpsA.v Spec/ISA.vo Spec/Spec816.vo Lib/ZOps.vo Lib/Machine.vo Snapshot/GenFields.vo Snapshot/GenCpu65.vo Props/C01Base.vo
Props/C01OpsA.vio: Props/C01OpsA.v Spec/ISA.vio Spec/Spec816.vio Lib/ZOps.vio Lib/Machine.vio Snapshot/GenFields.vio Snapshot/GenCpu65.vio Props/C01Base.vio
Props/C01OpsA.vos Props/C01OpsA.vok Props/C01OpsA.required_vos: Props/C01OpsA.v Spec/ISA.vos Spec/Spec816.vos Lib/ZOps.vos Lib/Machine.vos Snapshot/GenFields.vos Snapshot/GenCpu65.vos Props/C01Base.vos
Props/C01OpsB.vo Props/C01OpsB.glob Props/C01OpsB.v.beautified Props/C01OpsB.required_vo: Props/C01OpsB.v Spec/ISA.vo Spec/Spec816.vo Lib/ZOps.vo Lib/Machine.vo Snapshot/GenFields.vo Snapshot/GenCpu65.vo Props/C01Base.vo
Props/C01OpsB.vio: Props/C01OpsB.v Spec/ISA.vio Spec/Spec816.vio Lib/ZOps.vio Lib/Machine.vio Snapshot/GenFields.vio Snapshot/GenCpu65.vio Props/C01Base.vio
Props/C01OpsB.vos Props/C01OpsB.vok Props/C01OpsB.required_vos: Props/C01OpsB.v Spec/ISA.vos Spec/Spec816.vos Lib/ZOps.vos Lib/Machine.vos Snapshot/GenFields.vos Snapshot/GenCpu65.vos Props/C01Base.vos
Props/C01OpsC.vo Props/C01OpsC.glob Props/C01OpsC.v.beautified Props/C01OpsC.required_vo: Props/C01OpsC.v Spec/ISA.vo Spec/Spec816.vo Lib/ZOps.vo Lib/Machine.vo Snapshot/GenFields.vo Snapshot/GenCpu65.vo Props/C01Base.vo
Props/C01OpsC.vio: Props/C01OpsC.v Spec/ISA.vio Spec/Spec816.vio Lib/ZOps.vio Lib/Machine.vio Snapshot/GenFields.vio Snapshot/GenCpu65.vio Props/C01Base.vio
Props/C01OpsC.vos Props/C01OpsC.vok Props/C01OpsC.required_vos: Props/C01OpsC.v Spec/ISA.vos Spec/Spec816.vos Lib/ZOps.vos Lib/Machine.vos Snapshot/GenFields.vos Snapshot/GenCpu65.vos Props/C01Base.vos
Props/C01OpsD.vo Props/C01OpsD.glob Props/C01OpsD.v.beautified Props/C01OpsD.required_vo: Props/C01OpsD.v Spec/ISA.vo Spec/Spec816.vo Lib/ZOps.vo Lib/Machine.vo Snapshot/GenFields.vo Snapshot/GenCpu65.vo Props/C01Base.vo
Props/C01OpsD.vio: Props/C01OpsD.v Spec/ISA.vio Spec/Spec816.vio Lib/ZOps.vio Lib/Machine.vio Snapshot/GenFields.vio Snapshot/GenCpu65.vio Props/C01Base.vio
Props/C01OpsD.vos Props/C01OpsD.vok Props/C01OpsD.required_vos: Props/C01OpsD.v Spec/ISA.vos Spec/Spec816.vos Lib/ZOps.vos Lib/Machine.vos Snapshot/GenFields.vos Snapshot/GenCpu65.vos Props/C01Base.vos
Props/C01OpsE.vo Props/C01OpsE.glob Props/C01OpsE.v.beautified Props/C01OpsE.required_vo: Props/C01OpsE.v Spec/ISA.vo Spec/Spec816.vo Lib/ZOps.vo Lib/Machine.vo Snapshot/GenFields.vo Snapshot/GenCpu65.vo Props/C01Base.vo
Props/C01OpsE.vio: Props/C01OpsE.v Spec/ISA.vio Spec/Spec816.vio Lib/ZOps.vio Lib/Machine.vio Snapshot/GenFields.vio Snapshot/GenCpu65.vio Props/C01Base.vio
Props/C01OpsE.vos Props/C01OpsE.vok Props/C01OpsE.required_vos: Props/C01OpsE.v Spec/ISA.vos Spec/Spec816.vos Lib/ZOps.vos Lib/Machine.vos Snapshot/GenFields.vos Snapshot/GenCpu65.vos Props/C01Base.vos
Props/C01Shift.vo Props/C01Shift.glob Props/C01Shift.v.beautified Props/C01Shift.required_vo: Props/C01Shift.v Spec/ISA.vo Spec/Spec816.vo Lib/ZOps.vo Lib/Machine.vo Snapshot/GenFields.vo Snapshot/GenCpu65.vo Props/C01Base.vo
Props/C01Shift.vio: Props/C01Shift.v Spec/ISA.vio Spec/Spec816.vio Lib/ZOps.vio Lib/Machine.vio Snapshot/GenFields.vio Snapshot/GenCpu65.vio Props/C01Base.vio
Props/C01Shift.vos Props/C01Shift.vok Props/C01Shift.required_vos: Props/C01Shift.v Spec/ISA.vos Spec/Spec816.vos Lib/ZOps.vos Lib/Machine.vos Snapshot/GenFields.vos Snapshot/GenCpu65.vos Props/C01Base.vos
Props/C01OpsF.vo Props/C01OpsF.glob Props/C01OpsF.v.beautified Props/C01OpsF.required_vo: Props/C01OpsF.v Spec/ISA.vo Spec/Spec816.vo Lib/ZOps.vo Lib/Machine.vo Snapshot/GenFields.vo Snapshot/GenCpu65.vo Props/C01Base.vo
Props/C01OpsF.vio: Props/C01OpsF.v Spec/ISA.vio Spec/Spec816.vio Lib/ZOps.vio Lib/Machine.vio Snapshot/GenFields.vio Snapshot/GenCpu65.vio Props/C01Base.vio
Props/C01OpsF.vos Props/C01OpsF.vok Props/C01OpsF.required_vos: Props/C01OpsF.v Spec/ISA.vos Spec/Spec816.vos Lib/ZOps.vos Lib/Machine.vos Snapshot/GenFields.vos Snapshot/GenCpu65.vos Props/C01Base.vos
Props/C01OpsG.vo Props/C01OpsG.glob Props/C01OpsG.v.beautified Props/C01OpsG.required_vo: Props/C01OpsG.v Spec/ISA.vo Spec/Spec816.vo Lib/ZOps.vo Lib/Machine.vo Snapshot/GenFields.vo Snapshot/GenCpu65.vo Props/C01Base.vo Props/C01Shift.vo
Props/C01OpsG.vio: Props/C01OpsG.v Spec/ISA.vio Spec/Spec816.vio Lib/ZOps.vio Lib/Machine.vio Snapshot/GenFields.vio Snapshot/GenCpu65.vio Props/C01Base.vio Props/C01Shift.vio
Props/C01OpsG.vos Props/C01OpsG.vok Props/C01OpsG.required_vos: Props/C01OpsG.v Spec/ISA.vos Spec/Spec816.vos Lib/ZOps.vos Lib/Machine.vos Snapshot/GenFields.vos Snapshot/GenCpu65.vos Props/C01Base.vos Props/C01Shift.vos
Props/C01OpsH.vo Props/C01OpsH.glob Props/C01OpsH.v.beautified Props/C01OpsH.required_vo: Props/C01OpsH.v Spec/ISA.vo Spec/Spec816.vo Lib/ZOps.vo Lib/Machine.vo Snapshot/GenFields.vo Snapshot/GenCpu65.vo Props/C01Base.vo Props/C01Shift.vo
Props/C01OpsH.vio: Props/C01OpsH.v Spec/ISA.vio Spec/Spec816.vio Lib/ZOps.vio Lib/Machine.vio Snapshot/GenFields.vio Snapshot/GenCpu65.vio Props/C01Base.vio Props/C01Shift.vio
Props/C01OpsH.vos Props/C01OpsH.vok Props/C01OpsH.required_vos: Props/C01OpsH.v Spec/ISA.vos Spec/Spec816.vos Lib/ZOps.vos Lib/Machine.vos Snapshot/GenFields.vos Snapshot/GenCpu65.vos Props/C01Base.vos Props/C01Shift.vos
Props/C01Flow.vo Props/C01Flow.glob Props/C01Flow.v.beautified Props/C01Flow.required_vo: Props/C01Flow.v Spec/ISA.vo Spec/Spec816.vo Lib/ZOps.vo Lib/Machine.vo Snapshot/GenFields.vo Snapshot/GenCpu65.vo Props/C01Base.vo
Props/C01Flow.vio: Props/C01Flow.v Spec/ISA.vio Spec/Spec816.vio Lib/ZOps.vio Lib/Machine.vio Snapshot/GenFields.vio Snapshot/GenCpu65.vio Props/C01Base.vio
Props/C01Flow.vos Props/C01Flow.vok Props/C01Flow.required_vos: Props/C01Flow.v Spec/ISA.vos Spec/Spec816.vos Lib/ZOps.vos Lib/Machine.vos Snapshot/GenFields.vos Snapshot/GenCpu65.vos Props/C01Base.vos
Props/C01Imm.vo Props/C01Imm.glob Props/C01Imm.v.beautified Props/C01Imm.required_vo: Props/C01Imm.v Spec/ISA.vo Spec/Spec816.vo Lib/ZOps.vo Lib/Machine.vo Snapshot/GenFields.vo Snapshot/GenCpu65.vo Props/C01Base.vo Props/C01Flow.vo
Props/C01Imm.vio: Props/C01Imm.v Spec/ISA.vio Spec/Spec816.vio Lib/ZOps.vio Lib/Machine.vio Snapshot/GenFields.vio Snapshot/GenCpu65.vio Props/C01Base.vio Props/C01Flow.vio
Props/C01Imm.vos Props/C01Imm.vok Props/C01Imm.required_vos: Props/C01Imm.v Spec/ISA.vos Spec/Spec816.vos Lib/ZOps.vos Lib/Machine.vos Snapshot/GenFields.vos Snapshot/GenCpu65.vos Props/C01Base.vos Props/C01Flow.vos
Props/C01OpsI.vo Props/C01OpsI.glob Props/C01OpsI.v.beautified Props/C01OpsI.required_vo: Props/C01OpsI.v Spec/ISA.vo Spec/Spec816.vo Lib/ZOps.vo Lib/Machine.vo Snapshot/GenFields.vo Snapshot/GenCpu65.vo Props/C01Base.vo Props/C01Flow.vo Props/C01Imm.vo
Props/C01OpsI.vio: Props/C01OpsI.v Spec/ISA.vio Spec/Spec816.vio Lib/ZOps.vio Lib/Machine.vio Snapshot/GenFields.vio Snapshot/GenCpu65.vio Props/C01Base.vio Props/C01Flow.vio Props/C01Imm.vio
Props/C01OpsI.vos Props/C01OpsI.vok Props/C01OpsI.required_vos: Props/C01OpsI.v Spec/ISA.vos Spec/Spec816.vos Lib/ZOps.vos Lib/Machine.vos Snapshot/GenFields.vos Snapshot/GenCpu65.vos Props/C01Base.vos Props/C01Flow.vos Props/C01Imm.vos
Props/C01OpsJ.vo Props/C01OpsJ.glob Props/C01OpsJ.v.beautified Props/C01OpsJ.required_vo: Props/C01OpsJ.v Spec/ISA.vo Spec/Spec816.vo Lib/ZOps.vo Lib/Machine.vo Snapshot/GenFields.vo Snapshot/GenCpu65.vo Props/C01Base.vo Props/C01Flow.vo Props/C01Imm.vo
Props/C01OpsJ.vio: Props/C01OpsJ.v Spec/ISA.vio Spec/Spec816.vio Lib/ZOps.vio Lib/Machine.vio Snapshot/GenFields.vio Snapshot/GenCpu65.vio Props/C01Base.vio Props/C01Flow.vio Props/C01Imm.vio
Props/C01OpsJ.vos Props/C01OpsJ.vok Props/C01OpsJ.required_vos: Props/C01OpsJ.v Spec/ISA.vos Spec/Spec816.vos Lib/ZOps.vos Lib/Machine.vos Snapshot/GenFields.vos Snapshot/GenCpu65.vos Props/C01Base.vos Props/C01Flow.vos Props/C01Imm.vos
Props/C01OpsK.vo Props/C01OpsK.glob Props/C01OpsK.v.beautified Props/C01OpsK.required_vo: Props/C01OpsK.v Spec/ISA.vo Spec/Spec816.vo Lib/ZOps.vo Lib/Machine.vo Snapshot/GenFields.vo Snapshot/GenCpu65.vo Props/C01Base.vo Props/C01Flow.vo Props/C01Imm.vo
Props/C01OpsK.vio: Props/C01OpsK.v Spec/ISA.vio Spec/Spec816.vio Lib/ZOps.vio Lib/Machine.vio Snapshot/GenFields.vio Snapshot/GenCpu65.vio Props/C01Base.vio Props/C01Flow.vio Props/C01Imm.vio
Props/C01OpsK.vos Props/C01OpsK.vok Props/C01OpsK.required_vos: Props/C01OpsK.v Spec/ISA.vos Spec/Spec816.vos Lib/ZOps.vos Lib/Machine.vos Snapshot/GenFields.vos Snapshot/GenCpu65.vos Props/C01Base.vos Props/C01Flow.vos Props/C01Imm.vos
Props/C01Props.vo Props/C01Props.glob Props/C01Props.v.beautified Props/C01Props.required_vo: Props/C01Props.v Spec/ISA.vo Spec/Spec816.vo Lib/ZOps.vo Lib/Machine.vo Snapshot/GenFields.vo Snapshot/GenCpu65.vo Props/C01Base.vo Props/C01Shift.vo Props/C01OpsA.vo Props/C01OpsB.vo Props/C01OpsC.vo Props/C01OpsD.vo Props/C01OpsE.vo Props/C01OpsF.vo Props/C01OpsG.vo Props/C01OpsH.vo Props/C01Flow.vo Props/C01Imm.vo Props/C01OpsI.vo Props/C01OpsJ.vo Props/C01OpsK.vo
Props/C01Props.vio: Props/C01Props.v Spec/ISA.vio Spec/Spec816.vio Lib/ZOps.vio Lib/Machine.vio Snapshot/GenFields.vio Snapshot/GenCpu65.vio Props/C01Base.vio Props/C01Shift.vio Props/C01OpsA.vio Props/C01OpsB.vio Props/C01OpsC.vio Props/C01OpsD.vio Props/C01OpsE.vio Props/C01OpsF.vio Props/C01OpsG.vio Props/C01OpsH.vio Props/C01Flow.vio Props/C01Imm.vio Props/C01OpsI.vio Props/C01OpsJ.vio Props/C01OpsK.vio
Props/C01Props.vos Props/C01Props.vok Props/C01Props.required_vos: Props/C01Props.v Spec/ISA.vos Spec/Spec816.vos Lib/ZOps.vos Lib/Machine.vos Snapshot/GenFields.vos Snapshot/GenCpu65.vos Props/C01Base.vos Props/C01Shift.vos Props/C01OpsA.vos Props/C01OpsB.vos Props/C01OpsC.vos Props/C01OpsD.vos Props/C01OpsE.vos Props/C01OpsF.vos Props/C01OpsG.vos Props/C01OpsH.vos Props/C01Flow.vos Props/C01Imm.vos Props/C01OpsI.vos Props/C01OpsJ.vos Props/C01OpsK.vos
