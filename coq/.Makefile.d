Lib/U63Ops.vo Lib/U63Ops.glob Lib/U63Ops.v.beautified Lib/U63Ops.required_vo: Lib/U63Ops.v 
Lib/U63Ops.vio: Lib/U63Ops.v 
Lib/U63Ops.vos Lib/U63Ops.vok Lib/U63Ops.required_vos: Lib/U63Ops.v 
Lib/ZOps.vo Lib/ZOps.glob Lib/ZOps.v.beautified Lib/ZOps.required_vo: Lib/ZOps.v 
Lib/ZOps.vio: Lib/ZOps.v 
Lib/ZOps.vos Lib/ZOps.vok Lib/ZOps.required_vos: Lib/ZOps.v 
Lib/Machine.vo Lib/Machine.glob Lib/Machine.v.beautified Lib/Machine.required_vo: Lib/Machine.v Lib/ZOps.vo
Lib/Machine.vio: Lib/Machine.v Lib/ZOps.vio
Lib/Machine.vos Lib/Machine.vok Lib/Machine.required_vos: Lib/Machine.v Lib/ZOps.vos
Lib/Sweep.vo Lib/Sweep.glob Lib/Sweep.v.beautified Lib/Sweep.required_vo: Lib/Sweep.v 
Lib/Sweep.vio: Lib/Sweep.v 
Lib/Sweep.vos Lib/Sweep.vok Lib/Sweep.required_vos: Lib/Sweep.v 
Lib/Digest.vo Lib/Digest.glob Lib/Digest.v.beautified Lib/Digest.required_vo: Lib/Digest.v Lib/U63Ops.vo
Lib/Digest.vio: Lib/Digest.v Lib/U63Ops.vio
Lib/Digest.vos Lib/Digest.vok Lib/Digest.required_vos: Lib/Digest.v Lib/U63Ops.vos
Lib/ZList.vo Lib/ZList.glob Lib/ZList.v.beautified Lib/ZList.required_vo: Lib/ZList.v 
Lib/ZList.vio: Lib/ZList.v 
Lib/ZList.vos Lib/ZList.vok Lib/ZList.required_vos: Lib/ZList.v 
Props/MapProps.vo Props/MapProps.glob Props/MapProps.v.beautified Props/MapProps.required_vo: Props/MapProps.v Lib/U63Ops.vo Lib/Sweep.vo
Props/MapProps.vio: Props/MapProps.v Lib/U63Ops.vio Lib/Sweep.vio
Props/MapProps.vos Props/MapProps.vok Props/MapProps.required_vos: Props/MapProps.v Lib/U63Ops.vos Lib/Sweep.vos
Props/ColorProps.vo Props/ColorProps.glob Props/ColorProps.v.beautified Props/ColorProps.required_vo: Props/ColorProps.v Lib/U63Ops.vo Lib/Sweep.vo
Props/ColorProps.vio: Props/ColorProps.v Lib/U63Ops.vio Lib/Sweep.vio
Props/ColorProps.vos Props/ColorProps.vok Props/ColorProps.required_vos: Props/ColorProps.v Lib/U63Ops.vos Lib/Sweep.vos
Spec/HeaderSpec.vo Spec/HeaderSpec.glob Spec/HeaderSpec.v.beautified Spec/HeaderSpec.required_vo: Spec/HeaderSpec.v 
Spec/HeaderSpec.vio: Spec/HeaderSpec.v 
Spec/HeaderSpec.vos Spec/HeaderSpec.vok Spec/HeaderSpec.required_vos: Spec/HeaderSpec.v 
Model/Layout.vo Model/Layout.glob Model/Layout.v.beautified Model/Layout.required_vo: Model/Layout.v Lib/ZList.vo
Model/Layout.vio: Model/Layout.v Lib/ZList.vio
Model/Layout.vos Model/Layout.vok Model/Layout.required_vos: Model/Layout.v Lib/ZList.vos
Model/Header.vo Model/Header.glob Model/Header.v.beautified Model/Header.required_vo: Model/Header.v Lib/ZList.vo Spec/HeaderSpec.vo Model/Layout.vo
Model/Header.vio: Model/Header.v Lib/ZList.vio Spec/HeaderSpec.vio Model/Layout.vio
Model/Header.vos Model/Header.vok Model/Header.required_vos: Model/Header.v Lib/ZList.vos Spec/HeaderSpec.vos Model/Layout.vos
Props/LayoutProps.vo Props/LayoutProps.glob Props/LayoutProps.v.beautified Props/LayoutProps.required_vo: Props/LayoutProps.v Lib/ZList.vo Model/Layout.vo
Props/LayoutProps.vio: Props/LayoutProps.v Lib/ZList.vio Model/Layout.vio
Props/LayoutProps.vos Props/LayoutProps.vok Props/LayoutProps.required_vos: Props/LayoutProps.v Lib/ZList.vos Model/Layout.vos
Props/HeaderProps.vo Props/HeaderProps.glob Props/HeaderProps.v.beautified Props/HeaderProps.required_vo: Props/HeaderProps.v Lib/ZList.vo Spec/HeaderSpec.vo Model/Layout.vo Model/Header.vo Props/LayoutProps.vo
Props/HeaderProps.vio: Props/HeaderProps.v Lib/ZList.vio Spec/HeaderSpec.vio Model/Layout.vio Model/Header.vio Props/LayoutProps.vio
Props/HeaderProps.vos Props/HeaderProps.vok Props/HeaderProps.required_vos: Props/HeaderProps.v Lib/ZList.vos Spec/HeaderSpec.vos Model/Layout.vos Model/Header.vos Props/LayoutProps.vos
