(* C01: immediate addressing (Go modes 6 / 7 = m_Immediate_flagM / _flagX): bus-read lemmas, the Step lemmas with the
   operand location and the width-dependent length, bit-operation ranges, and the tactic extensions. *)
From Coq Require Import ZArith NArith List Bool Lia.
From Spec Require Import ISA Spec816.
From Lib Require Import ZOps Machine.
From Snapshot Require Import GenFields GenCpu65.
From Props Require Import C01Base C01Flow.
Local Open Scope Z_scope.
Arguments Z.modulo : simpl never.
Arguments Z.lor : simpl never.
Arguments Z.land : simpl never.
Arguments Z.shiftl : simpl never.
Arguments Z.shiftr : simpl never.

Lemma nRead16_wrap_ok : forall b a s, 0 <= b < 256 -> 0 <= a < 65536 ->
  nRead16_wrap b a s =
  Ok (w_or (shl16 (mem s (b * 65536 + add16 a 1) mod 256) 8) (mem s (b * 65536 + a) mod 256))
     (log (EvR (b * 65536 + add16 a 1) (mem s (b * 65536 + add16 a 1) mod 256))
        (log (EvR (b * 65536 + a) (mem s (b * 65536 + a) mod 256)) s)).
Proof.
  intros b a s Hb Ha. cbv beta zeta delta [nRead16_wrap].
  assert (Ha1 : 0 <= add16 a 1 < 65536) by (unfold add16; apply Z.mod_pos_bound; lia).
  rewrite !bank_addr by assumption.
  rewrite EaRead_ok by lia. rewrite bind_Ok. cbv beta.
  rewrite EaRead_ok by lia. rewrite bind_Ok. cbv beta.
  rewrite mem_log. reflexivity.
Qed.

Lemma cmdRead_imm_ok : forall s1, get f_StepInfo_Mode s1 = 6 \/ get f_StepInfo_Mode s1 = 7 ->
  0 <= get f_RK s1 < 256 -> 0 <= get f_StepInfo_Addr s1 < 65536 ->
  cmdRead s1 = Ok (mem s1 (get f_RK s1 * 65536 + get f_StepInfo_Addr s1) mod 256)
                  (log (EvR (get f_RK s1 * 65536 + get f_StepInfo_Addr s1)
                            (mem s1 (get f_RK s1 * 65536 + get f_StepInfo_Addr s1) mod 256)) s1).
Proof.
  intros s1 Hm Hk Ha. cbv beta zeta delta [cmdRead].
  destruct Hm as [Hm | Hm]; rewrite Hm;
    repeat match goal with |- context [w_eqb ?m ?k] =>
      let b := eval vm_compute in (w_eqb m k) in change (w_eqb m k) with b end;
    cbv beta iota delta [orb]; rewrite nRead_ok by assumption; rewrite bind_Ok; reflexivity.
Qed.

Lemma cmdRead16_imm_ok : forall s1, get f_StepInfo_Mode s1 = 6 \/ get f_StepInfo_Mode s1 = 7 ->
  0 <= get f_RK s1 < 256 -> 0 <= get f_StepInfo_Addr s1 < 65536 ->
  cmdRead16 s1 =
  Ok (w_or (shl16 (mem s1 (get f_RK s1 * 65536 + add16 (get f_StepInfo_Addr s1) 1) mod 256) 8)
           (mem s1 (get f_RK s1 * 65536 + get f_StepInfo_Addr s1) mod 256))
     (log (EvR (get f_RK s1 * 65536 + add16 (get f_StepInfo_Addr s1) 1)
               (mem s1 (get f_RK s1 * 65536 + add16 (get f_StepInfo_Addr s1) 1) mod 256))
        (log (EvR (get f_RK s1 * 65536 + get f_StepInfo_Addr s1)
                  (mem s1 (get f_RK s1 * 65536 + get f_StepInfo_Addr s1) mod 256)) s1)).
Proof.
  intros s1 Hm Hk Ha. cbv beta zeta delta [cmdRead16].
  destruct Hm as [Hm | Hm]; rewrite Hm;
    repeat match goal with |- context [w_eqb ?m ?k] =>
      let b := eval vm_compute in (w_eqb m k) in change (w_eqb m k) with b end;
    cbv beta iota delta [orb]; rewrite nRead16_wrap_ok by assumption; rewrite bind_Ok; reflexivity.
Qed.

Ltac facts_to_initial2 s :=
  repeat match goal with
         | H : same s ?x, K : get _ _ = ?v |- _ =>
             match v with context [get ?f x] => rewrite (same_get s x f H eq_refl) in K end
         | K1 : get f_stepPC ?x = _, K : get _ _ = ?v |- _ =>
             match v with context [get f_stepPC x] => rewrite K1 in K end
         end.

Lemma Step_imm6 : forall s op (Q : res (word * bool) -> Prop),
  no_int s -> 0 <= get f_RK s < 256 -> 0 <= get f_PC s < 65536 ->
  mem s (get f_RK s * 65536 + get f_PC s) mod 256 = op ->
  tbl_mode op = 6 ->
  (forall s1, same s s1 -> get f_stepPC s1 = sub16 (tbl_size op) (get f_M s) ->
     get f_StepInfo_Mode s1 = 6 -> get f_StepInfo_Addr s1 = add16 (get f_PC s) 1 ->
     Q (bind (tbl_proc op s1) (fun _ s2 => finish s2))) ->
  Q (Step s).
Proof.
  intros s op Q [Hi2 Hi3] Hk Hpc Hop Hmode HQ.
  assert (H2 : w_eqb (get f_Interrupt s) 2 = false) by (unfold w_eqb; apply Z.eqb_neq; assumption).
  assert (H3 : w_eqb (get f_Interrupt s) 3 = false) by (unfold w_eqb; apply Z.eqb_neq; assumption).
  cbv beta delta [Step].
  head_let s. head_let s. rewrite H2, H3.
  head_let s.
  cbv beta delta [cb_pc]. rewrite bind_Ok. cbv beta.
  match goal with |- context [onpc ?a ?b] => destruct (onpc a b) end.
  - match goal with |- context [log ?e ?x] => abs_state s (log e x) end.
    head_let s. head_let s. fetch_op s Hk Hpc Hop.
    head_let s. rewrite Hmode. head_let s.
    match goal with |- context [log ?e ?x] => abs_state s (log e x) end.
    repeat head_let s.
    mode_chain 6.
    repeat first [ head_let s | match goal with |- ?Q' (if ?c then _ else _) => destruct c end ];
    facts_to_initial2 s; apply HQ; assumption.
  - head_let s. head_let s. fetch_op s Hk Hpc Hop.
    head_let s. rewrite Hmode. head_let s.
    match goal with |- context [log ?e ?x] => abs_state s (log e x) end.
    repeat head_let s.
    mode_chain 6.
    repeat first [ head_let s | match goal with |- ?Q' (if ?c then _ else _) => destruct c end ];
    facts_to_initial2 s; apply HQ; assumption.
Qed.

Lemma Step_imm7 : forall s op (Q : res (word * bool) -> Prop),
  no_int s -> 0 <= get f_RK s < 256 -> 0 <= get f_PC s < 65536 ->
  mem s (get f_RK s * 65536 + get f_PC s) mod 256 = op ->
  tbl_mode op = 7 ->
  (forall s1, same s s1 -> get f_stepPC s1 = sub16 (tbl_size op) (get f_X s) ->
     get f_StepInfo_Mode s1 = 7 -> get f_StepInfo_Addr s1 = add16 (get f_PC s) 1 ->
     Q (bind (tbl_proc op s1) (fun _ s2 => finish s2))) ->
  Q (Step s).
Proof.
  intros s op Q [Hi2 Hi3] Hk Hpc Hop Hmode HQ.
  assert (H2 : w_eqb (get f_Interrupt s) 2 = false) by (unfold w_eqb; apply Z.eqb_neq; assumption).
  assert (H3 : w_eqb (get f_Interrupt s) 3 = false) by (unfold w_eqb; apply Z.eqb_neq; assumption).
  cbv beta delta [Step].
  head_let s. head_let s. rewrite H2, H3.
  head_let s.
  cbv beta delta [cb_pc]. rewrite bind_Ok. cbv beta.
  match goal with |- context [onpc ?a ?b] => destruct (onpc a b) end.
  - match goal with |- context [log ?e ?x] => abs_state s (log e x) end.
    head_let s. head_let s. fetch_op s Hk Hpc Hop.
    head_let s. rewrite Hmode. head_let s.
    match goal with |- context [log ?e ?x] => abs_state s (log e x) end.
    repeat head_let s.
    mode_chain 7.
    repeat first [ head_let s | match goal with |- ?Q' (if ?c then _ else _) => destruct c end ];
    facts_to_initial2 s; apply HQ; assumption.
  - head_let s. head_let s. fetch_op s Hk Hpc Hop.
    head_let s. rewrite Hmode. head_let s.
    match goal with |- context [log ?e ?x] => abs_state s (log e x) end.
    repeat head_let s.
    mode_chain 7.
    repeat first [ head_let s | match goal with |- ?Q' (if ?c then _ else _) => destruct c end ];
    facts_to_initial2 s; apply HQ; assumption.
Qed.

Lemma lt_pow2_bits : forall x n, 0 <= n -> 0 <= x -> (forall i, n <= i -> Z.testbit x i = false) -> x < 2 ^ n.
Proof.
  intros x n Hn Hx Hb. destruct (Z.eq_dec x 0) as [-> | Hz]; [apply Z.pow_pos_nonneg; lia |].
  apply Z.log2_lt_pow2; [lia |].
  destruct (Z.lt_ge_cases (Z.log2 x) n) as [Hl | Hg]; [assumption |].
  pose proof (Z.bit_log2 x ltac:(lia)) as Hbit. rewrite (Hb _ Hg) in Hbit. discriminate.
Qed.
Lemma bits_of_lt_pow2 : forall x n i, 0 <= x < 2 ^ n -> n <= i -> Z.testbit x i = false.
Proof.
  intros x n i Hx Hi. destruct (Z.eq_dec x 0) as [-> | Hz]; [apply Z.bits_0 |].
  apply Z.bits_above_log2; [lia |].
  assert (0 <= n) by (destruct (Z.lt_ge_cases n 0); [rewrite Z.pow_neg_r in Hx by lia; lia | lia]).
  assert (Z.log2 x < n) by (apply Z.log2_lt_pow2; lia). lia.
Qed.
Lemma bitop_range : forall n a b, 0 <= n -> 0 <= a < 2 ^ n -> 0 <= b < 2 ^ n ->
  0 <= Z.land a b < 2 ^ n /\ 0 <= Z.lor a b < 2 ^ n /\ 0 <= Z.lxor a b < 2 ^ n.
Proof.
  intros n a b Hn Ha Hb.
  assert (L : 0 <= Z.land a b) by (apply Z.land_nonneg; lia).
  assert (O : 0 <= Z.lor a b) by (apply Z.lor_nonneg; lia).
  assert (X : 0 <= Z.lxor a b) by (apply Z.lxor_nonneg; lia).
  repeat split; try assumption; apply lt_pow2_bits; try assumption; intros i Hi;
    rewrite ?Z.land_spec, ?Z.lor_spec, ?Z.lxor_spec, (bits_of_lt_pow2 a n i Ha Hi), (bits_of_lt_pow2 b n i Hb Hi); reflexivity.
Qed.

Lemma setZ8_ok : forall v s, setZ8 v s = Ok tt (set f_Z (if v =? 0 then 1 else 0) s).
Proof. intros v s. unfold setZ8, w_eqb. destruct (v =? 0); reflexivity. Qed.
Lemma setZ16_ok : forall v s, setZ16 v s = Ok tt (set f_Z (if v =? 0 then 1 else 0) s).
Proof. intros v s. unfold setZ16, w_eqb. destruct (v =? 0); reflexivity. Qed.
Lemma compare8_ok : forall a b s, 0 <= sub8 a b < 256 ->
  compare8 a b s = Ok tt (set f_C (if w_leb b a then 1 else 0)
                           (set f_N (if 128 <=? sub8 a b then 1 else 0) (set f_Z (if sub8 a b =? 0 then 1 else 0) s))).
Proof. intros a b s H. unfold compare8. rewrite setZN8_ok by assumption. rewrite bind_Ok. destruct (w_leb b a); reflexivity. Qed.
Lemma compare16_ok : forall a b s, 0 <= sub16 a b < 65536 ->
  compare16 a b s = Ok tt (set f_C (if w_leb b a then 1 else 0)
                           (set f_N (if 32768 <=? sub16 a b then 1 else 0) (set f_Z (if sub16 a b =? 0 then 1 else 0) s))).
Proof. intros a b s H. unfold compare16. rewrite setZN16_ok by assumption. rewrite bind_Ok. destruct (w_leb b a); reflexivity. Qed.

Ltac start_imm lem md op :=
  let s := fresh "s" in let W := fresh "W" in let HE := fresh "HE" in let Hni := fresh "Hni" in let Hop := fresh "Hop" in
  intros s W HE Hni Hop;
  apply (lem s op); [ exact Hni | apply W | apply W | exact Hop | reflexivity | ];
  let s1 := fresh "s1" in let Hs1 := fresh "Hs1" in let Hsz := fresh "Hsz" in let Hmd := fresh "Hmd" in let Haddr := fresh "Haddr" in
  intros s1 Hs1 Hsz Hmd Haddr;
  let p := eval cbv beta iota delta [tbl_proc] in (tbl_proc op) in change (tbl_proc op) with p;
  let z := eval cbv beta iota delta [tbl_size] in (tbl_size op) in change (tbl_size op) with z in Hsz.

Lemma bitop8 : forall a b, 0 <= a < 256 -> 0 <= b < 256 ->
  0 <= Z.land a b < 256 /\ 0 <= Z.lor a b < 256 /\ 0 <= Z.lxor a b < 256.
Proof. intros a b Ha Hb. exact (bitop_range 8 a b ltac:(lia) Ha Hb). Qed.
Lemma bitop16 : forall a b, 0 <= a < 65536 -> 0 <= b < 65536 ->
  0 <= Z.land a b < 65536 /\ 0 <= Z.lor a b < 65536 /\ 0 <= Z.lxor a b < 65536.
Proof. intros a b Ha Hb. exact (bitop_range 16 a b ltac:(lia) Ha Hb). Qed.

Ltac rng_side := first [ assumption | (apply Z.mod_pos_bound; lia) | lia | (Z.div_mod_to_equations; lia) ].
Ltac rng_bits :=
  unfold w_and, w_or, w_xor;
  match goal with
  | |- 0 <= Z.land ?a ?b < 256 => apply (proj1 (bitop8 a b ltac:(rng_side) ltac:(rng_side)))
  | |- 0 <= Z.lor ?a ?b < 256 => apply (proj1 (proj2 (bitop8 a b ltac:(rng_side) ltac:(rng_side))))
  | |- 0 <= Z.lxor ?a ?b < 256 => apply (proj2 (proj2 (bitop8 a b ltac:(rng_side) ltac:(rng_side))))
  | |- 0 <= Z.land ?a ?b < 65536 => apply (proj1 (bitop16 a b ltac:(rng_side) ltac:(rng_side)))
  | |- 0 <= Z.lor ?a ?b < 65536 => apply (proj1 (proj2 (bitop16 a b ltac:(rng_side) ltac:(rng_side))))
  | |- 0 <= Z.lxor ?a ?b < 65536 => apply (proj2 (proj2 (bitop16 a b ltac:(rng_side) ltac:(rng_side))))
  end.
Ltac rng8 ::= first [ rng | (apply Z.mod_pos_bound; lia) | rng_bits | (unfold add8, sub8, conv8; apply Z.mod_pos_bound; lia) | lia | (Z.div_mod_to_equations; lia) ].
Ltac rng16 ::= first [ rng | (apply Z.mod_pos_bound; lia) | rng_bits | (unfold add16, sub16, conv16; apply Z.mod_pos_bound; lia) | lia | (Z.div_mod_to_equations; lia) ].

Ltac imm_reads s W s1 Hs1 Hmd Haddr :=
  repeat first
  [ rewrite cmdRead_imm_ok by
      first [ (left; exact Hmd) | (right; exact Hmd) | (rewrite (same_get s s1 f_RK Hs1 eq_refl); apply W)
            | (rewrite Haddr; unfold add16; apply Z.mod_pos_bound; lia) ]
  | rewrite cmdRead16_imm_ok by
      first [ (left; exact Hmd) | (right; exact Hmd) | (rewrite (same_get s s1 f_RK Hs1 eq_refl); apply W)
            | (rewrite Haddr; unfold add16; apply Z.mod_pos_bound; lia) ] ];
  rewrite ?bind_Ok; cbv beta; rewrite ?Haddr.

Ltac run_routine2 s s1 Hs1 ::=
  repeat first [ progress gs_norm
               | progress to_initial s s1 Hs1
               | match goal with |- context [w_or (shl16 ?a 8) (w_shr ?a 8)] => rewrite (xba16 a) by (assumption || lia) end
               | match goal with |- context [w_or (shl16 ?h 8) ?l] =>
                   rewrite (join16 h l) by first [ assumption | (apply Z.mod_pos_bound; lia) | lia ] end
               | rewrite setZN8_ok by rng8
               | rewrite setZN16_ok by rng16
               | rewrite compare8_ok by rng8
               | rewrite compare16_ok by rng16
               | rewrite setZ8_ok
               | rewrite setZ16_ok
               | match goal with Hmd : get f_StepInfo_Mode s1 = ?k |- context [get f_StepInfo_Mode s1] =>
                   rewrite Hmd; change (w_eqb k k) with true; cbv beta iota delta [negb] end
               | rewrite bind_Ok; cbv beta ].

Ltac bitop_mods :=
  unfold w_and, w_or, w_xor, w_leb;
  repeat match goal with
         | |- context [Z.land ?c ?d mod ?n] => rewrite (Z.mod_small (Z.land c d) n) by rng_bits
         | |- context [Z.lor ?c ?d mod ?n] => rewrite (Z.mod_small (Z.lor c d) n) by rng_bits
         | |- context [Z.lxor ?c ?d mod ?n] => rewrite (Z.mod_small (Z.lxor c d) n) by rng_bits
         end.
Ltac fg :=
  first [ reflexivity
        | match goal with |- (?c <=? ?a) = (?c <=? ?b) => replace b with a; [reflexivity | fg] end
        | match goal with |- (?a =? ?c) = (?b =? ?c) => replace b with a; [reflexivity | fg] end
        | match goal with |- Z.odd ?a = Z.odd ?b => replace b with a; [reflexivity | fg] end
        | match goal with |- Z.land ?a ?b = Z.land ?c ?d => apply f_equal2; fg end
        | match goal with |- Z.lor ?a ?b = Z.lor ?c ?d => apply f_equal2; fg end
        | match goal with |- Z.lxor ?a ?b = Z.lxor ?c ?d => apply f_equal2; fg end
        | match goal with |- (?a <=? ?b) = (?c <=? ?d) => apply f_equal2; fg end
        | zarith
        | match goal with |- ?a + ?b = ?c + ?d => apply f_equal2; fg end ].
Ltac field_goal ::= bitop_mods; fg.

Ltac spec_eval ::=
  lazy beta iota zeta delta [exec rmw f_inc f_dec f_asl f_lsr f_rol f_ror oploc set_nz with_A with_X with_Y with_S with_D with_DBR with_PBR with_PC
         with_N with_V with_M with_Xf with_Df with_I with_Z with_C with_E with_Stp xr yr xw mw acc with_acc abs Spec816.b2z
         rA rX rY rS rD rDBR rPBR rPC fN fV fM fX fD fI fZ fC rE rStp fst snd wmod wsgn ISA.length negb
         rdw rd8 rd16 loc_byte byte ba w16 do_logic do_cmp
         Spec816.step_state Spec816.step_mem].

Ltac znorm ::=
  rewrite ?shr8;
  repeat match goal with
         | |- context [w_or (shl16 ?a 8) (w_shr ?a 8)] => rewrite (xba16 a) by (assumption || lia)
         | |- context [w_or (shl16 ?h 8) ?l] => rewrite (join16 h l) by first [ assumption | (apply Z.mod_pos_bound; lia) | lia ]
         | |- context [w_and ?x 255] => rewrite (land255 x) by lia
         end;
  unfold rel8_target, operand1, sext8, fetch, byte, ba, w_ltb, w_leb, w_and, w_or, w_xor; arch_proj;
  unfold add8, sub8, conv8, add16, sub16, conv16, w16, w8, wtrunc;
  rewrite ?Z.add_0_r; rewrite ?Zmod_mod;
  repeat match goal with |- context [?a <? 128] => destruct (a <? 128) end.

Ltac reg_op2 s W Hop s1 Hs1 Hsz mn md ::=
  apply refines_finish; unfold advance;
  [ unfold abs at 1; gs_norm; try rewrite Hsz; to_initial s s1 Hs1;
    spec_side s W Hop mn md; spec_eval; rw_hyps; lits; spec_eval; rewrite ?ite_eqb1;
    try reflexivity; f_equal; field_goal
  | intro a; gs_norm; to_initial s s1 Hs1; spec_side s W Hop mn md; spec_eval; cbn [apply_writes]; reflexivity
  | wf_goal' s W s1 Hs1 Hsz; try first [ rng8 | rng16 | zarith ] ].

Ltac imm_op lem md op routine mn :=
  start_imm lem md op; cbv beta zeta delta [routine b2z];
  match goal with W : wf ?s, HE : get f_E ?s = 0, Hop : opcode_at ?s = _, Hs1 : same ?s ?s1, Hsz : get f_stepPC ?s1 = _,
                  Hmd : get f_StepInfo_Mode ?s1 = _, Haddr : get f_StepInfo_Addr ?s1 = _ |- _ =>
    by_flags s W s1 Hs1 HE; pose_ranges s W; imm_reads s W s1 Hs1 Hmd Haddr; run_routine2 s s1 Hs1;
    reg_op2 s W Hop s1 Hs1 Hsz mn md
  end.

