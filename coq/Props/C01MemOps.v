(* C01: instructions with a memory operand, proved once per mnemonic for all fifteen memory addressing modes.

   snapshot_dep: op_lda, op_ldx, op_ldy, setZN8, setZN16, setZ8, setZ16, setN8, setN16, compare8, compare16 *)
From Coq Require Import ZArith NArith List Bool Lia.
From Spec Require Import ISA Spec816.
From Lib Require Import ZOps Machine.
From Snapshot Require Import GenFields GenCpu65.
From Props Require Import C01Base C01Flow C01Imm C01Mem C01MemLoc.
Import ListNotations.
Local Open Scope Z_scope.
Arguments Z.modulo : simpl never.
Arguments Z.lor : simpl never.
Arguments Z.land : simpl never.
Arguments Z.shiftl : simpl never.
Arguments Z.shiftr : simpl never.

(* hypotheses about one opcode, all closed by computation when the opcode is a literal *)
Record memop (op : Z) (mn : mnem) (proc : st -> res unit) : Prop := mkmemop {
  mo_mode : memmode (tbl_mode op) = true;
  mo_proc : tbl_proc op = proc;
  mo_dec : decode op = (mn, gm_md (tbl_mode op));
  mo_len : forall m x, ISA.length (gm_md (tbl_mode op)) m x = tbl_size op }.

Ltac spec_eval_m :=
  lazy beta iota zeta delta [exec set_nz with_A with_X with_Y with_S with_D with_DBR with_PBR with_PC
         with_N with_V with_M with_Xf with_Df with_I with_Z with_C with_E with_Stp xr yr xw mw acc with_acc abs Spec816.b2z
         rA rX rY rS rD rDBR rPBR rPC fN fV fM fX fD fI fZ fC rE rStp fst snd wmod wsgn negb
         rdw wrw do_logic do_cmp f_inc f_dec f_asl f_lsr f_rol f_ror f_tsb f_trb].

Ltac extra_rw := idtac.
Ltac extra_spec := idtac.
Ltac norm_regs s s1 Hs1 :=
  repeat first [ progress gs_norm
               | match goal with H : regs_same _ _ |- _ => rewrite H end
               | progress to_initial s s1 Hs1 ].

Ltac fin_abs s W s1 Hs1 Hsz Hspec :=
  unfold abs at 1; norm_regs s s1 Hs1; rewrite ?Hsz; norm_regs s s1 Hs1; extra_rw;
  unfold step_state; rewrite Hspec; spec_eval_m; rw_hyps; lits; spec_eval_m; extra_spec; rewrite ?ite_eqb1;
  try reflexivity; f_equal; field_goal.
Ltac fin_wf s W s1 Hs1 Hsz :=
  constructor; unfold flag01; norm_regs s s1 Hs1; rewrite ?Hsz; norm_regs s s1 Hs1; rw_hyps; extra_rw;
  first [ apply W | rng8 | rng16 | (left; reflexivity) | (right; reflexivity)
        | match goal with |- (if ?c then 1 else 0) = 0 \/ _ => destruct c; [right | left]; reflexivity end
        | zarith | idtac ].

(* common opening: run Step to the routine, establish the location and the specification's equation *)
Ltac open_mem routine :=
  match goal with |- memop ?op ?mn _ -> refines_op ?op =>
    let Hmm := fresh "Hmm" in let Hproc := fresh "Hproc" in let Hdec := fresh "Hdec" in let Hlen := fresh "Hlen" in
    let s := fresh "s" in let W := fresh "W" in let HE := fresh "HE" in let Hni := fresh "Hni" in let Hop := fresh "Hop" in
    intros [Hmm Hproc Hdec Hlen] s W HE Hni Hop;
    apply (Step_mem (tbl_mode op) Hmm s op); [ exact Hni | exact W | exact Hop | reflexivity | ];
    let s1 := fresh "s1" in let Hs1 := fresh "Hs1" in let Hsz := fresh "Hsz" in let Hmd := fresh "Hmd" in
    let Haddr := fresh "Haddr" in let Hea := fresh "Hea" in
    intros s1 Hs1 Hsz Hmd Haddr Hea; rewrite Hproc;
    pose proof (spec_step_eq s op _ _ W Hop Hdec) as Hspec; rewrite Hlen in Hspec;
    assert (AF : acc_facts (tbl_mode op) s1 (oploc (gm_md (tbl_mode op)) (abs s) (mem s) (fetch (abs s) (mem s) 1)
                                                 (fetch (abs s) (mem s) 2) (fetch (abs s) (mem s) 3)))
      by (constructor;
          [ exact Hmm | exact Hmd | rewrite (same_get s s1 f_RDBR Hs1 eq_refl); apply W
          | rewrite Haddr; apply mi_addr_range | rewrite Hea; apply mi_ea_range
          | exact (loc_agree _ s s1 Hmm W Hs1 Haddr Hea) ]);
    pose proof (go_loc_mem (tbl_mode op) s1) as Hnacc; rewrite (af_loc _ _ _ AF) in Hnacc;
    pose proof (proj2 Hs1) as Hm0;
    pose proof (memmode_not6 _ Hmm) as Hn6; pose proof (memmode_not4 _ Hmm) as Hn4;
    set (l := oploc _ _ _ _ _ _) in *;
    lazy beta iota zeta delta [exec] in Hspec; fold l in Hspec;
    rewrite ?(rmw_mem _ l _ _ _ Hnacc), ?(not_immM _ Hmm) in Hspec;
    clearbody l;
    cbv beta zeta delta [routine b2z];
    rewrite ?Hmd, ?Hn6, ?Hn4; cbv beta iota delta [negb];
    by_flags s W s1 Hs1 HE; pose_ranges s W
  end.

Ltac base_of SC := lazymatch SC with set _ _ ?x => base_of x | _ => SC end.

(* one access at the head of the routine; the current state is a chain of [set]s over a state variable for which
   acc_facts and the memory equation are in the context *)
Ltac acc_rd lem cmd :=
  match goal with |- context [cmd ?SC] =>
    let sb := base_of SC in
    match goal with AFb : acc_facts ?gm sb ?l, Hmb : (forall a, mem sb a = @?M0 a) |- _ =>
      let M := lazymatch M0 with (fun a => ?F a) => F | _ => M0 end in
      let AFc := fresh "AFc" in let Hmc := fresh "Hmc" in
      assert (AFc : acc_facts gm SC l) by (repeat (apply acc_facts_set; [reflexivity |]); exact AFb);
      assert (Hmc : forall a, mem SC a = M a) by (intro; gs_norm; apply Hmb);
      let s2 := fresh "sn" in let Hr := fresh "Hr" in let Hregs := fresh "Hregs" in let Hm2 := fresh "Hmn" in
      destruct (lem gm SC l M AFc Hmc) as (s2 & Hr & Hregs & Hm2);
      rewrite Hr, !bind_Ok; cbv beta;
      pose proof (acc_facts_regs gm SC s2 l AFc Hregs);
      clear AFc Hmc Hr; cbv beta in Hm2
    end
  end.
Ltac acc_wr lem cmd bound rngtac :=
  match goal with |- context [cmd ?V ?SC] =>
    let sb := base_of SC in
    match goal with AFb : acc_facts ?gm sb ?l, Hmb : (forall a, mem sb a = @?M0 a) |- _ =>
      let M := lazymatch M0 with (fun a => ?F a) => F | _ => M0 end in
      let AFc := fresh "AFc" in let Hmc := fresh "Hmc" in let Hvr := fresh "Hvr" in
      assert (AFc : acc_facts gm SC l) by (repeat (apply acc_facts_set; [reflexivity |]); exact AFb);
      assert (Hmc : forall a, mem SC a = M a) by (intro; gs_norm; apply Hmb);
      assert (Hvr : 0 <= V < bound) by rngtac;
      let s2 := fresh "sn" in let Hr := fresh "Hr" in let Hregs := fresh "Hregs" in let Hm2 := fresh "Hmn" in
      destruct (lem gm SC l M V AFc Hmc Hvr) as (s2 & Hr & Hregs & Hm2);
      rewrite Hr, !bind_Ok; cbv beta;
      pose proof (acc_facts_regs gm SC s2 l AFc Hregs);
      clear AFc Hmc Hr; cbv beta in Hm2
    end
  end.

Ltac read8 :=
  acc_rd acc_read8 cmdRead;
  match goal with |- context [rd8 ?M ?l] =>
    let v := fresh "v" in let Hv := fresh "Hv" in
    set (v := rd8 M l) in *; assert (Hv : 0 <= v < 256) by apply rd8_range end.
Ltac read16 :=
  acc_rd acc_read16 cmdRead16;
  match goal with |- context [rd16 ?M ?l] =>
    let v := fresh "v" in let Hv := fresh "Hv" in
    set (v := rd16 M l) in *; assert (Hv : 0 <= v < 65536) by apply rd16_range end.

Ltac run_regs s s1 Hs1 :=
  repeat first [ progress norm_regs s s1 Hs1
               | progress rw_hyps
               | progress extra_rw
               | rewrite setZN8_ok by rng8
               | rewrite setZN16_ok by rng16
               | rewrite compare8_ok by rng8
               | rewrite compare16_ok by rng16
               | rewrite setZ8_ok
               | rewrite setZ16_ok
               | rewrite bind_Ok; cbv beta ].

Ltac write8 := match goal with W : wf ?s, Hs1 : same ?s ?s1 |- _ => run_regs s s1 Hs1 end; acc_wr acc_write8 cmdWrite 256 ltac:(rng8).
Ltac write16 := match goal with W : wf ?s, Hs1 : same ?s ?s1 |- _ => run_regs s s1 Hs1 end; acc_wr acc_write16 cmdWrite16 65536 ltac:(rng16).

(* close an instruction: registers, memory, well-formedness *)
Ltac close_op memtac :=
  match goal with W : wf ?s, Hs1 : same ?s ?s1, Hsz : get f_stepPC ?s1 = _, Hspec : step _ _ = _ |- _ =>
    run_regs s s1 Hs1;
    apply refines_finish; unfold advance;
    [ fin_abs s W s1 Hs1 Hsz Hspec
    | let a := fresh "a" in intro a; gs_norm;
      match goal with Hm : (forall a, mem ?sb a = _) |- mem ?sb _ = _ => rewrite Hm end;
      unfold step_mem; rewrite Hspec; memtac
    | fin_wf s W s1 Hs1 Hsz ]
  end.
Ltac close_read := close_op ltac:(cbn [snd apply_writes]; reflexivity).

Ltac memop_tac := constructor; [ reflexivity | reflexivity | reflexivity | intros [] []; reflexivity ].

Lemma lda_mem : forall op, memop op LDA op_lda -> refines_op op.
Proof. intro op. open_mem op_lda. - read16. close_read. - read8. close_read. Qed.
Lemma ldx_mem : forall op, memop op LDX op_ldx -> refines_op op.
Proof. intro op. open_mem op_ldx. - read16. close_read. - read8. close_read. Qed.
Lemma ldy_mem : forall op, memop op LDY op_ldy -> refines_op op.
Proof. intro op. open_mem op_ldy. - read16. close_read. - read8. close_read. Qed.
