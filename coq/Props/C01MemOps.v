(* C01: instructions with a memory operand, proved once per mnemonic for all fifteen memory addressing modes.

   snapshot_dep: op_lda *)
From Coq Require Import ZArith NArith List Bool Lia.
From Spec Require Import ISA Spec816.
From Lib Require Import ZOps Machine.
From Snapshot Require Import GenFields GenCpu65.
From Props Require Import C01Base C01Flow C01Imm C01Mem C01MemLoc.
Import ListNotations.
Local Open Scope Z_scope.
Arguments Z.modulo : simpl never.
Arguments Z.lor : simpl never.
Arguments Z.land : simpl never.
Arguments Z.shiftl : simpl never.
Arguments Z.shiftr : simpl never.

(* hypotheses about one opcode, all closed by computation when the opcode is a literal *)
Record memop (op : Z) (mn : mnem) (proc : st -> res unit) : Prop := mkmemop {
  mo_mode : memmode (tbl_mode op) = true;
  mo_proc : tbl_proc op = proc;
  mo_dec : decode op = (mn, gm_md (tbl_mode op));
  mo_len : forall m x, ISA.length (gm_md (tbl_mode op)) m x = tbl_size op }.

Ltac spec_eval_m :=
  lazy beta iota zeta delta [exec set_nz with_A with_X with_Y with_S with_D with_DBR with_PBR with_PC
         with_N with_V with_M with_Xf with_Df with_I with_Z with_C with_E with_Stp xr yr xw mw acc with_acc abs Spec816.b2z
         rA rX rY rS rD rDBR rPBR rPC fN fV fM fX fD fI fZ fC rE rStp fst snd wmod wsgn negb
         rdw wrw do_logic do_cmp].

Ltac fin_abs s W s1 Hs1 Hsz Hregs Hspec :=
  unfold abs at 1; gs_norm; repeat rewrite Hregs; rewrite ?Hsz; to_initial s s1 Hs1;
  unfold step_state; rewrite Hspec; spec_eval_m; rw_hyps; lits; spec_eval_m; rewrite ?ite_eqb1;
  try reflexivity; f_equal; field_goal.
Ltac fin_wf s W s1 Hs1 Hsz Hregs :=
  constructor; unfold flag01; gs_norm; repeat rewrite Hregs; rewrite ?Hsz; to_initial s s1 Hs1; rw_hyps;
  first [ apply W | rng8 | rng16 | (left; reflexivity) | (right; reflexivity)
        | match goal with |- (if ?c then 1 else 0) = 0 \/ _ => destruct c; [right | left]; reflexivity end
        | zarith | idtac ].

(* common opening: run Step to the routine, establish the location and the specification's equation *)
Ltac open_mem routine :=
  match goal with |- memop ?op ?mn _ -> refines_op ?op =>
    let Hmm := fresh "Hmm" in let Hproc := fresh "Hproc" in let Hdec := fresh "Hdec" in let Hlen := fresh "Hlen" in
    let s := fresh "s" in let W := fresh "W" in let HE := fresh "HE" in let Hni := fresh "Hni" in let Hop := fresh "Hop" in
    intros [Hmm Hproc Hdec Hlen] s W HE Hni Hop;
    apply (Step_mem (tbl_mode op) Hmm s op); [ exact Hni | exact W | exact Hop | reflexivity | ];
    let s1 := fresh "s1" in let Hs1 := fresh "Hs1" in let Hsz := fresh "Hsz" in let Hmd := fresh "Hmd" in
    let Haddr := fresh "Haddr" in let Hea := fresh "Hea" in
    intros s1 Hs1 Hsz Hmd Haddr Hea; rewrite Hproc;
    pose proof (loc_agree _ s s1 Hmm W Hs1 Haddr Hea) as Hloc;
    assert (Ha : 0 <= get f_StepInfo_Addr s1 < 65536) by (rewrite Haddr; apply mi_addr_range);
    assert (He : 0 <= get f_StepInfo_EA s1 < 16777216) by (rewrite Hea; apply mi_ea_range);
    assert (Hb : 0 <= get f_RDBR s1 < 256) by (rewrite (same_get s s1 f_RDBR Hs1 eq_refl); apply W);
    pose proof (go_loc_mem (tbl_mode op) s1) as Hnacc;
    pose proof (spec_step_eq s op _ _ W Hop Hdec) as Hspec; rewrite Hlen in Hspec;
    set (l := oploc _ _ _ _ _ _) in *;
    lazy beta iota zeta delta [exec] in Hspec; fold l in Hspec; clearbody l;
    cbv beta zeta delta [routine b2z];
    by_flags s W s1 Hs1 HE; pose_ranges s W
  end.

(* one 8-bit / 16-bit operand read at the head of the routine *)
Ltac read8 :=
  match goal with Hmm : memmode _ = true, Hmd : get f_StepInfo_Mode ?s1 = _, Hb : 0 <= get f_RDBR ?s1 < 256,
                  Ha : 0 <= get f_StepInfo_Addr ?s1 < _, He : 0 <= get f_StepInfo_EA ?s1 < _, Hs1 : same ?s ?s1,
                  Hloc : go_loc _ ?s1 = ?l |- _ =>
    let s2 := fresh "s2" in let Hr := fresh "Hr" in let Hregs := fresh "Hregs" in let Hmem := fresh "Hmem" in
    destruct (cmdRead_mem _ s1 Hmm Hmd Hb Ha He) as (s2 & Hr & Hregs & Hmem); rewrite Hr, !bind_Ok; cbv beta;
    rewrite Hloc, (rd8_ext _ _ l (proj2 Hs1));
    let v := fresh "v" in let Hv := fresh "Hv" in
    set (v := rd8 (mem s) l) in *; assert (Hv : 0 <= v < 256) by apply rd8_range
  end.
Ltac read16 :=
  match goal with Hmm : memmode _ = true, Hmd : get f_StepInfo_Mode ?s1 = _, Hb : 0 <= get f_RDBR ?s1 < 256,
                  Ha : 0 <= get f_StepInfo_Addr ?s1 < _, He : 0 <= get f_StepInfo_EA ?s1 < _, Hs1 : same ?s ?s1,
                  Hloc : go_loc _ ?s1 = ?l |- _ =>
    let s2 := fresh "s2" in let Hr := fresh "Hr" in let Hregs := fresh "Hregs" in let Hmem := fresh "Hmem" in
    destruct (cmdRead16_mem _ s1 Hmm Hmd Hb Ha He) as (s2 & Hr & Hregs & Hmem); rewrite Hr, !bind_Ok; cbv beta;
    rewrite Hloc, (rd16_ext _ _ l (proj2 Hs1));
    let v := fresh "v" in let Hv := fresh "Hv" in
    set (v := rd16 (mem s) l) in *; assert (Hv : 0 <= v < 65536) by apply rd16_range
  end.

Ltac run_regs s s1 Hs1 Hregs :=
  repeat first [ progress gs_norm
               | progress (repeat rewrite Hregs)
               | progress to_initial s s1 Hs1
               | rewrite setZN8_ok by rng8
               | rewrite setZN16_ok by rng16
               | rewrite compare8_ok by rng8
               | rewrite compare16_ok by rng16
               | rewrite setZ8_ok
               | rewrite setZ16_ok
               | rewrite bind_Ok; cbv beta ].

(* close a read-only instruction *)
Ltac close_read :=
  match goal with W : wf ?s, Hs1 : same ?s ?s1, Hsz : get f_stepPC ?s1 = _, Hregs : regs_same ?s1 ?s2,
                  Hmem : (forall a, mem ?s2 a = mem ?s1 a), Hspec : step _ _ = _ |- _ =>
    run_regs s s1 Hs1 Hregs;
    apply refines_finish; unfold advance;
    [ fin_abs s W s1 Hs1 Hsz Hregs Hspec
    | intro a; gs_norm; rewrite Hmem, (proj2 Hs1); unfold step_mem; rewrite Hspec; cbn [snd apply_writes]; reflexivity
    | fin_wf s W s1 Hs1 Hsz Hregs ]
  end.

Lemma lda_mem : forall op, memop op LDA op_lda -> refines_op op.
Proof. intro op. open_mem op_lda. - read16. close_read. - read8. close_read. Qed.

Ltac memop_tac := constructor; [ reflexivity | reflexivity | reflexivity | intros [] []; reflexivity ].

Lemma ldx_mem : forall op, memop op LDX op_ldx -> refines_op op.
Proof. intro op. open_mem op_ldx. - read16. close_read. - read8. close_read. Qed.
Lemma ldy_mem : forall op, memop op LDY op_ldy -> refines_op op.
Proof. intro op. open_mem op_ldy. - read16. close_read. - read8. close_read. Qed.
Lemma and_mem : forall op, memop op AND op_and -> refines_op op.
Proof. intro op. open_mem op_and. - read16. close_read. - read8. close_read. Qed.
Lemma ora_mem : forall op, memop op ORA op_ora -> refines_op op.
Proof. intro op. open_mem op_ora. - read16. close_read. - read8. close_read. Qed.
Lemma eor_mem : forall op, memop op EOR op_eor -> refines_op op.
Proof. intro op. open_mem op_eor. - read16. close_read. - read8. close_read. Qed.
Lemma cmp_mem : forall op, memop op CMP op_cmp -> refines_op op.
Proof. intro op. open_mem op_cmp. - read16. close_read. - read8. close_read. Qed.
Lemma cpx_mem : forall op, memop op CPX op_cpx -> refines_op op.
Proof. intro op. open_mem op_cpx. - read16. close_read. - read8. close_read. Qed.
Lemma cpy_mem : forall op, memop op CPY op_cpy -> refines_op op.
Proof. intro op. open_mem op_cpy. - read16. close_read. - read8. close_read. Qed.

Lemma ref_A5 : refines_op 165. Proof. apply lda_mem. memop_tac. Qed.
Lemma ref_B1 : refines_op 177. Proof. apply lda_mem. memop_tac. Qed.
