(* C01 refinement lemmas, block moves: MVN, MVP (one byte per Step; see C01JmpBase.v, C01JmpTac.v).

   snapshot_dep: op_mvn, op_mvp, nRead, nWrite, EaWrite *)
From Coq Require Import ZArith NArith List Bool Lia.
From Spec Require Import ISA Spec816.
From Lib Require Import ZOps Machine.
From Snapshot Require Import GenFields GenCpu65.
From Props Require Import C01Base C01Flow C01Imm C01JmpBase C01JmpTac.
Import ListNotations.
Local Open Scope Z_scope.
Arguments Z.modulo : simpl never.
Arguments Z.lor : simpl never.
Arguments Z.land : simpl never.
Arguments Z.shiftl : simpl never.
Arguments Z.shiftr : simpl never.

Ltac lits ::=
  change (0 =? 1) with false; change (1 =? 1) with true; change (w_eqb 0 1) with false; change (w_eqb 1 1) with true;
  change (w_eqb 0 0) with true; change (w_eqb 1 0) with false;
  cbv iota.

(* run a routine whose body is a chain of lets and binds, one construct at a time from the head, in a
   goal [Q prog]; the current state stays an explicit normalised term *)
Ltac cps_goal :=
  match goal with |- refines_step ?s (bind ?P ?K) =>
    let Q := fresh "Q" in pose (Q := fun r : res unit => refines_step s (bind r K)); change (Q P) end.
Ltac run_side s W s1 Hs1 :=
  jnorm; to_initial s s1 Hs1;
  first [ apply W | assumption | add16_rng | apply byte_range | apply opnd_range | lia ].
Ltac run_head s W s1 Hs1 :=
  repeat first
   [ progress (jnorm; to_initial s s1 Hs1; rw_hyps; lits)
   | match goal with |- ?Q (let x := ?E in @?B x) => change (Q (B E)); cbv beta end
   | match goal with |- ?Q (bind (Ok _ _) _) => rewrite bind_Ok; cbv beta end
   | match goal with |- ?Q (bind (nRead _ _ _) _) => rewrite nRead_b by run_side s W s1 Hs1; hide_events end
   | match goal with |- ?Q (bind (nWrite _ _ _ _) _) => rewrite nWrite_ok by run_side s W s1 Hs1; hide_events end
   | match goal with |- ?Q (if negb true then _ else _) => cbv beta iota delta [negb] end
   | match goal with |- ?Q (if negb false then _ else _) => cbv beta iota delta [negb] end ].

Ltac block_move op routine mn :=
  start_mode Step_blk22 op;
  match goal with W : wf ?s, Hop : opcode_at ?s = _, Hs1 : same ?s ?s1, Hm1 : mem ?s1 = mem ?s |- _ =>
  pose_ranges s W; opnd_ranges s;
  cbv beta delta [routine]; cps_goal;
  let HX := fresh "HX" in let HM := fresh "HM" in let EC := fresh "EC" in
  destruct (wf_X s W) as [HX | HX]; destruct (wf_M s W) as [HM | HM]; run_head s W s1 Hs1;
  rewrite ?Hm1, ?add16_add16; change (1 + 1) with 2;
  change (byte (mem s) (get f_RK s * 65536 + add16 (get f_PC s) 1)) with (opnd s 1);
  change (byte (mem s) (get f_RK s * 65536 + add16 (get f_PC s) 2)) with (opnd s 2);
  rewrite ?(join16 (get f_RAh s) (get f_RAl s)) by assumption;
  match goal with |- context [w_eqb ?c 65535] => destruct (w_eqb c 65535) eqn:EC end;
  unfold w_eqb, sub16 in EC; cbv beta iota delta [negb]; run_head s W s1 Hs1;
  match goal with Q := _ |- _ => subst Q end; cbv beta;
  (apply refines_finish; unfold advance;
   [ jabs s W Hop s1 Hs1 Hm1 mn BlockMove; unfold w16; rewrite ?EC; cbv beta iota; apply mkArch_eq; jfield
   | jmemgoal s W Hop Hm1 mn BlockMove
   | jwf s W s1 Hs1; try jarith ])
  end.

Lemma ref_54 : refines_op 84. Proof. block_move 84 op_mvn MVN. Qed.
Lemma ref_44 : refines_op 68. Proof. block_move 68 op_mvp MVP. Qed.
