(* C01 refinement lemma, RTI in native mode (see C01JmpBase.v, C01JmpTac.v, C01JmpFlags.v).

   snapshot_dep: op_rti, pull, pull16, SetFlags *)
From Coq Require Import ZArith NArith List Bool Lia.
From Spec Require Import ISA Spec816.
From Lib Require Import ZOps Machine.
From Snapshot Require Import GenFields GenCpu65.
From Props Require Import C01Base C01Flow C01Imm C01JmpBase C01JmpTac C01JmpFlags.
Import ListNotations.
Local Open Scope Z_scope.
Arguments Z.modulo : simpl never.
Arguments Z.lor : simpl never.
Arguments Z.land : simpl never.
Arguments Z.shiftl : simpl never.
Arguments Z.shiftr : simpl never.

Ltac jspec_evalP :=
  lazy beta iota zeta delta [exec oploc set_nz with_A with_X with_Y with_S with_D with_DBR with_PBR with_PC
         with_N with_V with_M with_Xf with_Df with_I with_Z with_C with_E with_Stp xr yr xw mw acc with_acc abs Spec816.b2z
         rA rX rY rS rD rDBR rPBR rPC fN fV fM fX fD fI fZ fC rE rStp fst snd wmod wsgn ISA.length negb
         push8 Spec816.push16 pushw pull8 Spec816.pull16 pullw app with_P norm_x
         Spec816.step_state Spec816.step_mem].

Ltac abs_chain :=
  repeat first [ rewrite abs_set_PC | rewrite abs_set_SP | rewrite abs_set_RK | rewrite abs_log
               | rewrite abs_set_na by reflexivity ].

Lemma ref_40 : refines_op 64.
Proof.
  start_mode Step_imp8m 64. pose_ranges s W.
  cbv beta zeta delta [op_rti]. rewrite (same_get s s1 f_E Hs1 eq_refl), HE. lits.
  rewrite pull_ok by jside s W s1 Hs1 HE. rewrite bind_Ok. cbv beta. hide_events.
  assert (W1 : wf s1) by (apply (wf_ext s1 s (proj1 Hs1) W)).
  match goal with |- context [SetFlags ?p ?sK] =>
    assert (WK : wf sK) by (apply wf_log, wf_set_SP; [add16_rng | exact W1]);
    assert (HEK : get f_E sK = 0) by (jnorm; to_initial s s1 Hs1; exact HE);
    destruct (SetFlags_native p sK WK HEK (byte_range _ _)) as (s' & Hrun & W' & Habs' & Hmem' & Hoth')
  end.
  rewrite Hrun, bind_Ok. cbv beta.
  assert (HE' : get f_E s' = 0) by (rewrite (Hoth' f_E eq_refl); jnorm; to_initial s s1 Hs1; exact HE).
  assert (HSP' : get f_SP s' = add16 (get f_SP s) 1)
    by (rewrite (Hoth' f_SP eq_refl); jnorm; to_initial s s1 Hs1; reflexivity).
  rewrite pull16_ok by (assumption || (rewrite HSP'; add16_rng)). rewrite bind_Ok. cbv beta.
  rewrite pull_ok by (jnorm; first [ exact HE' | add16_rng ]). rewrite !bind_Ok. cbv beta. hide_events.
  apply refines_finish; unfold advance.
  - abs_chain. rewrite Habs'. abs_chain. rewrite (abs_ext s1 s (proj1 Hs1)).
    jnorm. rewrite ?Hmem', ?HSP'. jnorm. to_initial s s1 Hs1. rewrite ?Hm1.
    spec_side s W Hop RTI Imp. rewrite !fetch_opnd. jspec_evalP.
    change (w16 (get f_SP s + 1)) with (add16 (get f_SP s) 1).
    set (p := byte (mem s) (add16 (get f_SP s) 1)).
    destruct (bit p 4); jspec_evalP; apply mkArch_eq; jfield.
  - intro a. jmem Hm1. rewrite Hmem'. jmem Hm1.
    spec_side s W Hop RTI Imp. rewrite !fetch_opnd. jspec_evalP. reflexivity.
  - repeat first [ apply wf_log
                 | (apply wf_set_PC; [first [ add16_rng | (read_ranges; lia) ] |])
                 | (apply wf_set_SP; [add16_rng |])
                 | (apply wf_set_RK; [apply byte_range |])
                 | (apply wf_set_na; [reflexivity |]) ].
    exact W'.
Qed.
