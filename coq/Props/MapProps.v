(* C04 / C05: statements about a cartridge mapper's two translation functions, as boolean checks
   (swept over all 2^24 addresses inside the kernel) together with the propositions they decide.
   Static: parameterised over the two functions; instantiated per run with the generated ones. *)
From Coq Require Import Uint63 ZArith Bool Lia.
From Lib Require Import U63Ops Sweep.
Local Open Scope uint63_scope.

Lemma eqb_true (a b : int) : (a =? b) = true -> a = b.
Proof. apply eqb_correct. Qed.

(* memory class of an FX Pak Pro address: 1 ROM, 2 SRAM, 3 WRAM (and its mirrors >= $F70000), 0 unassigned *)
Definition pclass (p : int) : int :=
  if p <? 0xE00000 then 1 else if p <? 0xF00000 then 2 else if p <? 0xF50000 then 0 else 3.

(* p lies in the window of exactly one class: ROM < $E00000, SRAM $E00000-$EFFFFF, WRAM $F50000-$F6FFFF *)
Definition in_window (p : int) : bool :=
  (p <? 0xF00000) || ((0xF50000 <=? p) && (p <? 0xF70000)).

Definition sysbank (bank : int) : bool :=
  (bank <=? 0x3F) || ((0x80 <=? bank) && (bank <=? 0xBF)).

Section Mapper.
Variables b2p p2b : int -> int * gerr.

(* ---- C04 (a): every translated bus address comes back ---- *)
Definition ri_check (n : int) : bool :=
  match b2p n with
  | (p, ENil) =>
      match p2b p with
      | (b, ENil) => match b2p b with (q, ENil) => (q =? p) | _ => false end
      | _ => false
      end
  | _ => true
  end.
Definition ri_prop (n : int) : Prop :=
  forall p, b2p n = (p, ENil) -> exists b, p2b p = (b, ENil) /\ b2p b = (p, ENil).
Lemma ri_ok n : ri_check n = true -> ri_prop n.
Proof.
  unfold ri_check, ri_prop; intros H p E; rewrite E in H.
  destruct (p2b p) as [b [| |]] eqn:E2; try discriminate.
  destruct (b2p b) as [q [| |]] eqn:E3; try discriminate.
  apply eqb_true in H; subst q. exists b; split; [reflexivity|exact E3].
Qed.

(* ---- C04 (b): every accepted pak address lands on a mapped bus address of the same class,
        same offset inside its 8 KiB page ---- *)
Definition pb_check (n : int) : bool :=
  match p2b n with
  | (b, ENil) =>
      (b <? 16777216) &&
      match b2p b with
      | (q, ENil) => (pclass q =? pclass n) && ((q land 8191) =? (n land 8191))
      | _ => false
      end
  | _ => true
  end.
Definition pb_prop (n : int) : Prop :=
  forall b, p2b n = (b, ENil) ->
    (b <? 16777216) = true /\
    exists q, b2p b = (q, ENil) /\ pclass q = pclass n /\ q land 8191 = n land 8191.
Lemma pb_ok n : pb_check n = true -> pb_prop n.
Proof.
  unfold pb_check, pb_prop; intros H b E; rewrite E in H.
  apply andb_prop in H; destruct H as [H1 H2]. split; [exact H1|].
  destruct (b2p b) as [q [| |]] eqn:E3; try discriminate.
  apply andb_prop in H2; destruct H2 as [H2 H3].
  exists q; repeat split; auto using eqb_true.
Qed.

Definition c04_check (n : int) : bool := ri_check n && pb_check n.
Definition c04_prop (n : int) : Prop := ri_prop n /\ pb_prop n.
Lemma c04_ok n : c04_check n = true -> c04_prop n.
Proof. unfold c04_check; intro H; apply andb_prop in H; destruct H; split; auto using ri_ok, pb_ok. Qed.

(* ---- C05 (i): image of b2p ---- *)
Definition img_check (n : int) : bool :=
  match b2p n with
  | (p, ENil) => in_window p
  | (p, EUnmapped) => (p =? 0)
  | _ => false
  end.
Definition img_prop (n : int) : Prop :=
  b2p n = (0, EUnmapped) \/ exists p, b2p n = (p, ENil) /\ in_window p = true.
Lemma img_ok n : img_check n = true -> img_prop n.
Proof.
  unfold img_check, img_prop; destruct (b2p n) as [p [| |]]; intro H; try discriminate.
  - right; exists p; auto.
  - left; apply eqb_true in H; subst; reflexivity.
Qed.

(* ---- C05 (ii): p2b rejects exactly $F00000-$F4FFFF ---- *)
Definition rej_check (n : int) : bool :=
  let r := p2b n in
  if (0xF00000 <=? n) && (n <? 0xF50000) then negb (gerr_is_nil (snd r)) else gerr_is_nil (snd r).
Definition rej_prop (n : int) : Prop :=
  snd (p2b n) <> ENil <-> ((0xF00000 <=? n) && (n <? 0xF50000)) = true.
Lemma rej_ok n : rej_check n = true -> rej_prop n.
Proof.
  unfold rej_check, rej_prop; cbv zeta.
  destruct ((0xF00000 <=? n) && (n <? 0xF50000)); destruct (snd (p2b n)); cbn; intro H;
    try discriminate; split; intro; try congruence; try discriminate.
Qed.

(* ---- C05 (iii): console-owned parts of the map ---- *)
Definition res_eqb (r : int * gerr) (p : int) : bool :=
  match r with (q, ENil) => (q =? p) | _ => false end.
Definition console_check (n : int) : bool :=
  let bank := n >> 16 in
  let off := n land 0xFFFF in
  if (0x7E <=? bank) && (bank <=? 0x7F) then res_eqb (b2p n) (0xF50000 + (n - 0x7E0000))
  else if sysbank bank then
    if off <? 0x2000 then res_eqb (b2p n) (0xF50000 + off)
    else if off <? 0x6000 then negb (gerr_is_nil (snd (b2p n)))
    else true
  else true.
Definition console_prop (n : int) : Prop :=
  let bank := n >> 16 in
  let off := n land 0xFFFF in
  (((0x7E <=? bank) && (bank <=? 0x7F)) = true -> b2p n = (0xF50000 + (n - 0x7E0000), ENil)) /\
  (((0x7E <=? bank) && (bank <=? 0x7F)) = false -> sysbank bank = true -> (off <? 0x2000) = true ->
     b2p n = (0xF50000 + off, ENil)) /\
  (((0x7E <=? bank) && (bank <=? 0x7F)) = false -> sysbank bank = true -> (off <? 0x2000) = false ->
     (off <? 0x6000) = true -> snd (b2p n) <> ENil).
Lemma res_eqb_ok r p : res_eqb r p = true -> r = (p, ENil).
Proof. destruct r as [q [| |]]; cbn; intro H; try discriminate. apply eqb_true in H; subst; reflexivity. Qed.
Lemma console_ok n : console_check n = true -> console_prop n.
Proof.
  unfold console_check, console_prop; cbv zeta.
  destruct ((0x7E <=? n >> 16) && (n >> 16 <=? 0x7F)) eqn:E1.
  - intro H. repeat split; try discriminate. intros _. apply res_eqb_ok; exact H.
  - destruct (sysbank (n >> 16)) eqn:E2; [|repeat split; discriminate].
    destruct (n land 0xFFFF <? 0x2000) eqn:E3.
    + intro H; repeat split; try discriminate. intros _ _ _; apply res_eqb_ok; exact H.
    + destruct (n land 0xFFFF <? 0x6000) eqn:E4; intro H; repeat split; try discriminate.
      intros _ _ _ _ C. rewrite C in H. discriminate.
Qed.

(* ---- C05 (iv): whole 8 KiB pages, byte order preserved inside a page ---- *)
Definition page_check (f : int -> int * gerr) (n : int) : bool :=
  if (n land 8191) =? 8191 then true
  else match f n, f (n + 1) with
       | (p, ENil), (q, ENil) => (q =? p + 1)
       | (_, ENil), _ => false
       | _, (_, ENil) => false
       | _, _ => true
       end.
Definition page_prop (f : int -> int * gerr) (n : int) : Prop :=
  (n land 8191 =? 8191) = false ->
  (snd (f n) = ENil <-> snd (f (n + 1)) = ENil) /\
  (forall p, f n = (p, ENil) -> f (n + 1) = (p + 1, ENil)).
Lemma page_ok f n : page_check f n = true -> page_prop f n.
Proof.
  unfold page_check, page_prop. intros H E; rewrite E in H.
  destruct (f n) as [p [| |]]; destruct (f (n + 1)) as [q [| |]]; cbn in *; try discriminate;
    (split; [split; intro; congruence | intros p' Hp; try discriminate]).
  inversion Hp; subst. apply eqb_true in H; subst; reflexivity.
Qed.

Definition c05_check (n : int) : bool :=
  img_check n && rej_check n && console_check n && page_check b2p n && page_check p2b n.
Definition c05_prop (n : int) : Prop :=
  img_prop n /\ rej_prop n /\ console_prop n /\ page_prop b2p n /\ page_prop p2b n.
Lemma c05_ok n : c05_check n = true -> c05_prop n.
Proof.
  unfold c05_check; intro H. repeat (apply andb_prop in H; destruct H as [H ?]).
  repeat split; auto using img_ok, rej_ok, page_ok; try (apply console_ok; assumption);
  try (apply rej_ok; assumption); try (apply page_ok; assumption).
Qed.

(* lifting *)
Lemma c04_all : all24 c04_check = true -> forall n, (n <? 16777216) = true -> c04_prop n.
Proof. intros H n Hn. apply c04_ok. exact (all24_sound _ H n Hn). Qed.
Lemma c05_all : all24 c05_check = true -> forall n, (n <? 16777216) = true -> c05_prop n.
Proof. intros H n Hn. apply c05_ok. exact (all24_sound _ H n Hn). Qed.

End Mapper.
