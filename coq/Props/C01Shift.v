(* C01: bit-level facts about the generated shift / rotate code, closed by exhaustion inside Coq
   (8 bit: 2^8 or 2^9 cases, 16 bit: 2^16 or 2^17 cases), and the tactic extensions that use them. *)
From Coq Require Import ZArith NArith List Bool Lia.
From Spec Require Import ISA Spec816.
From Lib Require Import ZOps Machine.
From Snapshot Require Import GenFields GenCpu65.
From Props Require Import C01Base.
Local Open Scope Z_scope.
Arguments Z.modulo : simpl never.
Arguments Z.lor : simpl never.
Arguments Z.land : simpl never.
Arguments Z.shiftl : simpl never.
Arguments Z.shiftr : simpl never.

Ltac by_enum n P :=
  let H := fresh "H" in
  assert (H : all_below n 0 P = true) by (vm_compute; reflexivity);
  let K := fresh "K" in
  pose proof (all_below_sound n 0 P H) as K; cbv beta in K; clear H.

Lemma sh8 : forall v, 0 <= v < 256 ->
  w_and (w_shr v 7) 1 = (if 128 <=? v then 1 else 0) /\ shl8 v 1 = (2 * v) mod 256 /\
  w_and v 1 = (if Z.odd v then 1 else 0) /\ w_shr v 1 = v / 2.
Proof.
  intros v Hv.
  by_enum 8%nat (fun v => (w_and (w_shr v 7) 1 =? (if 128 <=? v then 1 else 0)) && (shl8 v 1 =? (2 * v) mod 256) &&
                          (w_and v 1 =? (if Z.odd v then 1 else 0)) && (w_shr v 1 =? v / 2)).
  specialize (K v). change (2 ^ Z.of_nat 8) with 256 in K. specialize (K ltac:(lia)).
  repeat (apply andb_prop in K; destruct K as [K ?]).
  repeat match goal with H : (_ =? _) = true |- _ => apply Z.eqb_eq in H end.
  auto.
Qed.

Lemma sh16 : forall v, 0 <= v < 65536 ->
  w_and (conv8 (w_shr v 15)) 1 = (if 32768 <=? v then 1 else 0) /\ shl16 v 1 = (2 * v) mod 65536 /\
  conv8 (w_and v 1) = (if Z.odd v then 1 else 0) /\ w_shr v 1 = v / 2.
Proof.
  intros v Hv.
  by_enum 16%nat (fun v => (w_and (conv8 (w_shr v 15)) 1 =? (if 32768 <=? v then 1 else 0)) && (shl16 v 1 =? (2 * v) mod 65536) &&
                           (conv8 (w_and v 1) =? (if Z.odd v then 1 else 0)) && (w_shr v 1 =? v / 2)).
  specialize (K v). change (2 ^ Z.of_nat 16) with 65536 in K. specialize (K ltac:(lia)).
  repeat (apply andb_prop in K; destruct K as [K ?]).
  repeat match goal with H : (_ =? _) = true |- _ => apply Z.eqb_eq in H end.
  auto.
Qed.

(* rotates: v and the carry c enumerated together as n = 2 v + c *)
Lemma rot8 : forall v c, 0 <= v < 256 -> 0 <= c < 2 ->
  w_or (shl8 v 1) c = (2 * v + c) mod 256 /\ w_or (w_shr v 1) (shl8 c 7) = v / 2 + c * 128.
Proof.
  intros v c Hv Hc.
  by_enum 9%nat (fun n => let v := n / 2 in let c := n mod 2 in
                          (w_or (shl8 v 1) c =? (2 * v + c) mod 256) && (w_or (w_shr v 1) (shl8 c 7) =? v / 2 + c * 128)).
  specialize (K (2 * v + c)). change (2 ^ Z.of_nat 9) with 512 in K. specialize (K ltac:(lia)).
  replace ((2 * v + c) / 2) with v in K by (Z.div_mod_to_equations; lia).
  replace ((2 * v + c) mod 2) with c in K by (Z.div_mod_to_equations; lia).
  apply andb_prop in K. destruct K as [K1 K2]. apply Z.eqb_eq in K1, K2. auto.
Qed.
Lemma rot16 : forall v c, 0 <= v < 65536 -> 0 <= c < 2 ->
  w_or (shl16 v 1) c = (2 * v + c) mod 65536 /\ w_or (w_shr v 1) (shl16 c 15) = v / 2 + c * 32768.
Proof.
  intros v c Hv Hc.
  by_enum 17%nat (fun n => let v := n / 2 in let c := n mod 2 in
                           (w_or (shl16 v 1) c =? (2 * v + c) mod 65536) && (w_or (w_shr v 1) (shl16 c 15) =? v / 2 + c * 32768)).
  specialize (K (2 * v + c)). change (2 ^ Z.of_nat 17) with 131072 in K. specialize (K ltac:(lia)).
  replace ((2 * v + c) / 2) with v in K by (Z.div_mod_to_equations; lia).
  replace ((2 * v + c) mod 2) with c in K by (Z.div_mod_to_equations; lia).
  apply andb_prop in K. destruct K as [K1 K2]. apply Z.eqb_eq in K1, K2. auto.
Qed.

Ltac shift_rw :=
  match goal with
  | |- context [w_or (shl8 ?v 1) ?c] => rewrite (proj1 (rot8 v c ltac:(assumption || lia) ltac:(lia)))
  | |- context [w_or (w_shr ?v 1) (shl8 ?c 7)] => rewrite (proj2 (rot8 v c ltac:(assumption || lia) ltac:(lia)))
  | |- context [w_or (shl16 ?v 1) ?c] => rewrite (proj1 (rot16 v c ltac:(assumption || lia) ltac:(lia)))
  | |- context [w_or (w_shr ?v 1) (shl16 ?c 15)] => rewrite (proj2 (rot16 v c ltac:(assumption || lia) ltac:(lia)))
  | |- context [w_and (w_shr ?v 7) 1] => rewrite (proj1 (sh8 v ltac:(assumption || lia)))
  | |- context [shl8 ?v 1] => rewrite (proj1 (proj2 (sh8 v ltac:(assumption || lia))))
  | |- context [w_and (conv8 (w_shr ?v 15)) 1] => rewrite (proj1 (sh16 v ltac:(assumption || lia)))
  | |- context [shl16 ?v 1] => rewrite (proj1 (proj2 (sh16 v ltac:(assumption || lia))))
  | |- context [conv8 (w_and ?v 1)] => rewrite (proj1 (proj2 (proj2 (sh16 v ltac:(assumption || lia)))))
  | |- context [w_and ?v 1] => rewrite (proj1 (proj2 (proj2 (sh8 v ltac:(assumption || lia)))))
  | |- context [w_shr ?v 1] => rewrite (proj2 (proj2 (proj2 (sh16 v ltac:(lia)))))
  end.

Ltac run_routine2 s s1 Hs1 ::=
  repeat first [ progress gs_norm
               | progress to_initial s s1 Hs1
               | shift_rw
               | match goal with |- context [w_or (shl16 ?a 8) (w_shr ?a 8)] => rewrite (xba16 a) by (assumption || lia) end
               | match goal with |- context [w_or (shl16 ?h 8) ?l] => rewrite (join16 h l) by (assumption || lia) end
               | rewrite setZN8_ok by rng8
               | rewrite setZN16_ok by rng16
               | rewrite bind_Ok; cbv beta ].

Ltac rng8 ::= first [ rng | (unfold add8, sub8, conv8; apply Z.mod_pos_bound; lia) | lia | (Z.div_mod_to_equations; lia) ].
Ltac rng16 ::= first [ rng | (unfold add16, sub16, conv16; apply Z.mod_pos_bound; lia) | lia | (Z.div_mod_to_equations; lia) ].

Ltac field_goal ::=
  first [ reflexivity
        | match goal with |- (?c <=? ?a) = (?c <=? ?b) => replace b with a; [reflexivity | zarith] end
        | match goal with |- (?a =? ?c) = (?b =? ?c) => replace b with a; [reflexivity | zarith] end
        | match goal with |- Z.odd ?a = Z.odd ?b => replace b with a; [reflexivity | zarith] end
        | zarith ].

(* carry-dependent routines: also split on the C flag *)
Ltac by_flags s W s1 Hs1 HE ::=
  to_initial s s1 Hs1; rewrite ?HE;
  try (lazymatch goal with |- context [get f_X s] =>
         let Hx := fresh "Hx" in destruct (wf_X s W) as [Hx | Hx]; rewrite ?Hx end);
  try (lazymatch goal with |- context [get f_M s] =>
         let Hm := fresh "Hm" in destruct (wf_M s W) as [Hm | Hm]; rewrite ?Hm end);
  try (lazymatch goal with |- context [get f_C s] =>
         let Hc := fresh "Hc" in destruct (wf_C s W) as [Hc | Hc]; rewrite ?Hc end);
  lits.

Ltac spec_eval ::=
  lazy beta iota zeta delta [exec rmw f_inc f_dec f_asl f_lsr f_rol f_ror oploc set_nz with_A with_X with_Y with_S with_D with_DBR with_PBR with_PC
         with_N with_V with_M with_Xf with_Df with_I with_Z with_C with_E with_Stp xr yr xw mw acc with_acc abs Spec816.b2z
         rA rX rY rS rD rDBR rPBR rPC fN fV fM fX fD fI fZ fC rE rStp fst snd wmod wsgn ISA.length
         Spec816.step_state Spec816.step_mem].

Lemma ref_0A : refines_op 10. Proof. reg_only_acc 10 op_asl ASL. Qed.
