(* C05 clause (v): "the class and linear position of every address are those of the mapper's
   documented region table" -- the boolean check swept per run over the regenerated
   BusAddressToPak, the proposition it decides, and the static facts about the tables of
   Spec/MapSpec.v themselves:
     - rows are well-formed, pairwise disjoint rectangles  => the row covering an address is unique,
       [lookup] does not depend on the order of the rows            (table_*_rows, find_region_unique)
     - every documented position lies inside the window of the row's class, all 2^24 addresses
                                                                     (table_*_spec, clause wf)
     - the documented mirrors hold of the table, all 2^24 addresses  (table_*_spec, clause mirror)
     - every row of the passing TestBusAddressToPak table tests is reproduced by the table
                                                                     (tests_*_ok)
   Static; instantiated per run in build/work/Run/C05_region_<mapper>.v (checks/mappers.py). *)
From Coq Require Import Uint63 ZArith Bool Lia List.
From Lib Require Import U63Ops Sweep.
From Spec Require Import MapSpec.
Import ListNotations.
Local Open Scope uint63_scope.

(* equality of two results of a translation function *)
Definition res_same (a b : int * gerr) : bool := (fst a =? fst b) && gerr_eqb (snd a) (snd b).
Lemma res_same_ok a b : res_same a b = true -> a = b.
Proof.
  destruct a as [x e], b as [y e']; unfold res_same; cbn [fst snd]; intro H.
  apply andb_prop in H; destruct H as [H1 H2]. apply eqb_correct in H1; subst y.
  destruct e, e'; try discriminate; reflexivity.
Qed.

(* ---- clause (v) ---- *)
Section Region.
Variable b2p : int -> int * gerr.
Variable t : table.

Definition region_check (n : int) : bool := res_same (b2p n) (lookup t n).
Definition region_prop (n : int) : Prop := b2p n = lookup t n.
Lemma region_ok n : region_check n = true -> region_prop n.
Proof. apply res_same_ok. Qed.
Lemma region_all : all24 region_check = true -> forall n, (n <? 16777216) = true -> region_prop n.
Proof. intros H n Hn. apply region_ok. exact (all24_sound _ H n Hn). Qed.

(* first address at which the function leaves the table (diagnostic; None = clause holds) *)
Definition region_first_bad : option int := find24 region_check.
End Region.

(* [lookup] read as "class and linear position" *)
Lemma lookup_via_class t n :
  lookup t n = match lookup_class t n with
               | Some (c, l) => (class_origin c + l, ENil)
               | None => (0, EUnmapped)
               end.
Proof. unfold lookup, lookup_class, place. destruct (find_region t (n >> 16) (n land 0xFFFF)); reflexivity. Qed.

(* what clause (v) says about one address, spelled out: the documented class, the documented linear
   position inside that class; or the unmapped error with a zero result where no region is documented *)
Definition class_pos_prop (b2p : int -> int * gerr) (t : table) (n : int) : Prop :=
  match lookup_class t n with
  | Some (c, l) => b2p n = (class_origin c + l, ENil) /\ class_of_pak (class_origin c + l) = Some c
  | None => b2p n = (0, EUnmapped)
  end.

(* ---- the tables themselves ---- *)

(* a covered point forces the two rectangles to overlap *)
Lemma covers_overlap a b bank offs :
  covers a bank offs = true -> covers b bank offs = true -> overlap a b = true.
Proof.
  unfold covers, overlap; intros Ha Hb.
  repeat (apply andb_prop in Ha; destruct Ha as [Ha ?]).
  repeat (apply andb_prop in Hb; destruct Hb as [Hb ?]).
  repeat match goal with H : (_ <=? _) = true |- _ => apply leb_spec in H end.
  repeat (apply andb_true_intro; split); apply leb_spec; lia.
Qed.

(* in a pairwise disjoint table ANY row covering the address is the one [find_region] returns:
   the table is a set of rows, not an ordered chain *)
Lemma find_region_unique t : disjointb t = true ->
  forall r bank offs, In r t -> covers r bank offs = true -> find_region t bank offs = Some r.
Proof.
  induction t as [|r0 t IH]; intros Hd r bank offs Hin Hc; [destruct Hin|].
  cbn [disjointb] in Hd. apply andb_prop in Hd; destruct Hd as [Hd1 Hd2].
  cbn [find_region]. destruct Hin as [->|Hin].
  - rewrite Hc; reflexivity.
  - destruct (covers r0 bank offs) eqn:E.
    + rewrite forallb_forall in Hd1. specialize (Hd1 r Hin).
      rewrite (covers_overlap _ _ _ _ E Hc) in Hd1. discriminate.
    + apply IH; assumption.
Qed.

Definition rows_check (t : table) : bool := forallb row_ok t && disjointb t.

Lemma table_lorom_rows : rows_check table_lorom = true.   Proof. vm_compute; reflexivity. Qed.
Lemma table_hirom_rows : rows_check table_hirom = true.   Proof. vm_compute; reflexivity. Qed.
Lemma table_exhirom_rows : rows_check table_exhirom = true. Proof. vm_compute; reflexivity. Qed.
Lemma table_sa1rom_rows : rows_check table_sa1rom = true.  Proof. vm_compute; reflexivity. Qed.

Lemma rows_unique t : rows_check t = true ->
  forall r bank offs, In r t -> covers r bank offs = true -> find_region t bank offs = Some r.
Proof. unfold rows_check; intro H; apply andb_prop in H; destruct H as [_ H]. apply find_region_unique; exact H. Qed.

(* documented position inside the window of the documented class *)
Definition wf_check (t : table) (n : int) : bool :=
  match lookup_class t n with
  | Some (c, l) => match class_of_pak (class_origin c + l) with Some c' => mclass_eqb c c' | None => false end
  | None => true
  end.
Definition wf_prop (t : table) (n : int) : Prop :=
  forall c l, lookup_class t n = Some (c, l) -> class_of_pak (class_origin c + l) = Some c.
Lemma wf_ok t n : wf_check t n = true -> wf_prop t n.
Proof.
  unfold wf_check, wf_prop; intros H c l E; rewrite E in H.
  destruct (class_of_pak (class_origin c + l)) as [c'|]; [|discriminate].
  destruct c, c'; try discriminate; reflexivity.
Qed.

(* documented mirrors *)
Definition mirror_check (f : int -> int * gerr) (ms : list mirror) (n : int) : bool :=
  forallb (fun m => if mcovers m n
                    then (n + m_delta m <? 16777216) && res_same (f (n + m_delta m)) (f n)
                    else true) ms.
Definition mirror_prop (f : int -> int * gerr) (ms : list mirror) (n : int) : Prop :=
  forall m, In m ms -> mcovers m n = true ->
    (n + m_delta m <? 16777216) = true /\ f (n + m_delta m) = f n.
Lemma mirror_ok f ms n : mirror_check f ms n = true -> mirror_prop f ms n.
Proof.
  unfold mirror_check, mirror_prop; intros H m Hin Hc.
  rewrite forallb_forall in H. specialize (H m Hin). cbv beta in H. rewrite Hc in H.
  apply andb_prop in H; destruct H as [H1 H2]. split; [exact H1 | apply res_same_ok; exact H2].
Qed.
(* a function equal to the table on the whole 24-bit space has the table's mirrors *)
Lemma mirror_transfer f g ms :
  (forall n, (n <? 16777216) = true -> f n = g n) ->
  (forall n, (n <? 16777216) = true -> mirror_prop g ms n) ->
  forall n, (n <? 16777216) = true -> mirror_prop f ms n.
Proof.
  intros E G n Hn m Hin Hc. destruct (G n Hn m Hin Hc) as [H1 H2].
  split; [exact H1|]. rewrite (E _ H1), (E _ Hn). exact H2.
Qed.

Definition spec_check (t : table) (ms : list mirror) (n : int) : bool :=
  wf_check t n && mirror_check (lookup t) ms n.
Definition spec_prop (t : table) (ms : list mirror) (n : int) : Prop :=
  wf_prop t n /\ mirror_prop (lookup t) ms n.
Lemma spec_all t ms : all24 (spec_check t ms) = true ->
  forall n, (n <? 16777216) = true -> spec_prop t ms n.
Proof.
  intros H n Hn. pose proof (all24_sound _ H n Hn) as K. unfold spec_check in K.
  apply andb_prop in K; destruct K as [K1 K2]. split; [apply wf_ok | apply mirror_ok]; assumption.
Qed.

(* sweeps of the four tables over all 2^24 addresses (static, once, at setup) *)
Lemma sweep_lorom : all24 (spec_check table_lorom mirrors_lorom) = true.
Proof. vm_cast_no_check (eq_refl true). Qed.
Lemma sweep_hirom : all24 (spec_check table_hirom mirrors_hirom) = true.
Proof. vm_cast_no_check (eq_refl true). Qed.
Lemma sweep_exhirom : all24 (spec_check table_exhirom mirrors_exhirom) = true.
Proof. vm_cast_no_check (eq_refl true). Qed.
Lemma sweep_sa1rom : all24 (spec_check table_sa1rom mirrors_sa1rom) = true.
Proof. vm_cast_no_check (eq_refl true). Qed.

Theorem table_lorom_spec : forall n, (n <? 16777216) = true -> spec_prop table_lorom mirrors_lorom n.
Proof. exact (spec_all _ _ sweep_lorom). Qed.
Theorem table_hirom_spec : forall n, (n <? 16777216) = true -> spec_prop table_hirom mirrors_hirom n.
Proof. exact (spec_all _ _ sweep_hirom). Qed.
Theorem table_exhirom_spec : forall n, (n <? 16777216) = true -> spec_prop table_exhirom mirrors_exhirom n.
Proof. exact (spec_all _ _ sweep_exhirom). Qed.
Theorem table_sa1rom_spec : forall n, (n <? 16777216) = true -> spec_prop table_sa1rom mirrors_sa1rom n.
Proof. exact (spec_all _ _ sweep_sa1rom). Qed.

(* ---- consequences of clause (v) for a function, used per run ---- *)
Section Consequences.
Variable b2p : int -> int * gerr.
Variable t : table.
Variable ms : list mirror.
Hypothesis Hreg : forall n, (n <? 16777216) = true -> region_prop b2p t n.
Hypothesis Hspec : forall n, (n <? 16777216) = true -> spec_prop t ms n.

Lemma class_pos_all : forall n, (n <? 16777216) = true -> class_pos_prop b2p t n.
Proof.
  intros n Hn. unfold class_pos_prop. pose proof (Hreg n Hn) as E. unfold region_prop in E.
  rewrite lookup_via_class in E. destruct (Hspec n Hn) as [W _]. unfold wf_prop in W.
  destruct (lookup_class t n) as [[c l]|]; [split; [exact E | apply W; reflexivity] | exact E].
Qed.
Lemma mirrors_all : forall n, (n <? 16777216) = true -> mirror_prop b2p ms n.
Proof. apply (mirror_transfer b2p (lookup t) ms Hreg). intros n Hn; exact (proj2 (Hspec n Hn)). Qed.
End Consequences.

(* ---- the documented test rows ---- *)
Definition tests_check (t : table) (rows : list (int * int)) : bool :=
  forallb (fun bp => res_same (lookup t (fst bp)) (snd bp, ENil)) rows.
Lemma tests_sound t rows : tests_check t rows = true ->
  forall b p, In (b, p) rows -> lookup t b = (p, ENil).
Proof.
  unfold tests_check; intros H b p Hin. rewrite forallb_forall in H.
  apply res_same_ok. exact (H (b, p) Hin).
Qed.
Lemma tests_lorom_ok : tests_check table_lorom tests_lorom = true.     Proof. vm_compute; reflexivity. Qed.
Lemma tests_hirom_ok : tests_check table_hirom tests_hirom = true.     Proof. vm_compute; reflexivity. Qed.
Lemma tests_exhirom_ok : tests_check table_exhirom tests_exhirom = true. Proof. vm_compute; reflexivity. Qed.
Lemma tests_sa1rom_ok : tests_check table_sa1rom tests_sa1rom = true.   Proof. vm_compute; reflexivity. Qed.

(* ---- non-vacuity: the tables say something at the places the table tests do not probe ---- *)
(* the BW-RAM image of the SA-1 map is the same block in both halves of the map (no test row) *)
Example sa1_image_00 : lookup table_sa1rom 0x006000 = (0xE00000, ENil).  Proof. vm_compute; reflexivity. Qed.
Example sa1_image_80 : lookup table_sa1rom 0x806000 = (0xE00000, ENil).  Proof. vm_compute; reflexivity. Qed.
Example sa1_image_bf : lookup table_sa1rom 0xBF7FFF = (0xE01FFF, ENil).  Proof. vm_compute; reflexivity. Qed.
Example sa1_rom_c0 : lookup table_sa1rom 0xC12345 = (0x012345, ENil).    Proof. vm_compute; reflexivity. Qed.
Example sa1_hole : lookup table_sa1rom 0x500000 = (0, EUnmapped).        Proof. vm_compute; reflexivity. Qed.
Example sa1_iram : lookup table_sa1rom 0x003000 = (0, EUnmapped).        Proof. vm_compute; reflexivity. Qed.
Example hirom_sram_interior : lookup table_hirom 0x326001 = (0xE24001, ENil). Proof. vm_compute; reflexivity. Qed.
Example hirom_sram_edge : lookup table_hirom 0x325FFF = (0, EUnmapped).  Proof. vm_compute; reflexivity. Qed.
Example exhirom_3d : lookup table_exhirom 0x3D8000 = (0x5E8000, ENil).   Proof. vm_compute; reflexivity. Qed.
Example exhirom_3e : lookup table_exhirom 0x3E8000 = (0x5F0000, ENil).   Proof. vm_compute; reflexivity. Qed.
Example exhirom_no_sram_20 : lookup table_exhirom 0x206000 = (0, EUnmapped). Proof. vm_compute; reflexivity. Qed.
Example lorom_c5 : lookup table_lorom 0xC5ABCD = (0x02ABCD, ENil).       Proof. vm_compute; reflexivity. Qed.
Example lorom_class : lookup_class table_lorom 0xF31234 = Some (SRAM, 0x019234). Proof. vm_compute; reflexivity. Qed.
Example lorom_mirror_covered : mcovers (M 0x00 0x7D 0x0000 0xFFFF 0x800000) 0x712345 = true. Proof. vm_compute; reflexivity. Qed.
