(* C14, computational core of the truthfulness proof: for every opcode of the independent matrix
   Spec/ISA.v and every width combination, the length the disassembler computes from a table row that
   agrees with the matrix is the instruction's length, and the operand rendering of the (repaired)
   code is the specified one.  256 x 4 cases by computation; the relative destinations by arithmetic. *)
From Coq Require Import ZArith NArith List Bool String Lia.
From Lib Require Import ZOps Machine.
From Spec Require Import ISA TraceSpec.
From Model Require Import Disasm.
Import ListNotations.
Local Open Scope Z_scope.

(* ------------------------------------------------------------------ arithmetic of the relative destinations *)

Lemma rel8_ok : forall pc w1 w2, 0 <= pc < 65536 -> 0 <= w1 < 256 ->
  go_rel8_dest true pc w1 w2 = spec_rel8_dest pc w1 /\ go_rel8_back true w1 w2 = (128 <=? w1).
Proof.
  intros pc w1 w2 Hp Hw. unfold go_rel8_dest, go_rel8_back, spec_rel8_dest, sext8, w_ltb, add16, sub16.
  rewrite Z.leb_antisym. destruct (w1 <? 128) eqn:E; cbn [negb]; split; try reflexivity.
  - rewrite Zplus_mod_idemp_l. reflexivity.
  - rewrite Zplus_mod_idemp_l, Zminus_mod_idemp_l. f_equal. lia.
Qed.

Lemma lor_shl8 : forall hi lo, 0 <= hi < 256 -> 0 <= lo < 256 -> w_or (shl16 hi 8) lo = lo + 256 * hi.
Proof.
  intros b a Hb Ha. unfold w_or, shl16. rewrite Z.shiftl_mul_pow2 by lia.
  change (2 ^ 8) with 256. rewrite Z.mod_small by lia.
  rewrite <- Z.lxor_lor, <- Z.add_nocarry_lxor; try lia.
  - apply Z.bits_inj'. intros n Hn. rewrite Z.land_spec, Z.bits_0.
    destruct (Z.ltb_spec n 8).
    + replace (b * 256) with (b * 2 ^ 8) by reflexivity. rewrite Z.mul_pow2_bits_low by lia. reflexivity.
    + replace a with (a mod 2 ^ 8) by (apply Z.mod_small; change (2 ^ 8) with 256; lia).
      rewrite Z.mod_pow2_bits_high by lia. apply andb_false_r.
  - apply Z.bits_inj'. intros n Hn. rewrite Z.land_spec, Z.bits_0.
    destruct (Z.ltb_spec n 8).
    + replace (b * 256) with (b * 2 ^ 8) by reflexivity. rewrite Z.mul_pow2_bits_low by lia. reflexivity.
    + replace a with (a mod 2 ^ 8) by (apply Z.mod_small; change (2 ^ 8) with 256; lia).
      rewrite Z.mod_pow2_bits_high by lia. apply andb_false_r.
Qed.

Lemma rel16_ok : forall pc w1 w2, 0 <= pc < 65536 -> 0 <= w1 < 256 -> 0 <= w2 < 256 ->
  go_rel16_dest pc w1 w2 = spec_rel16_dest pc w1 w2.
Proof.
  intros pc w1 w2 Hp H1 H2. unfold go_rel16_dest, spec_rel16_dest, add16. rewrite lor_shl8 by assumption.
  rewrite Zplus_mod_idemp_l. reflexivity.
Qed.

(* a printed group read as a hex number is the little-endian value of the operand bytes *)
Lemma be_val_app : forall a b acc, fold_left (fun acc b => acc * 256 + b) (a ++ [b]) acc =
  fold_left (fun acc b => acc * 256 + b) a acc * 256 + b.
Proof. intros a b acc. rewrite fold_left_app. reflexivity. Qed.
Lemma be_val_rev : forall ops, be_val (rev ops) = le_val ops.
Proof.
  unfold be_val. induction ops as [|b r IH]; [reflexivity|].
  cbn [rev le_val]. rewrite be_val_app, IH. lia.
Qed.

(* ------------------------------------------------------------------ the rendering, opcode by opcode *)

(* what the line must show in the operand column, as a function of the instruction bytes [g i] *)
Definition core_spec (op : Z) (m8 x8 : bool) (pc : Z) (g : Z -> Z) :=
  let mn := mnem_of op in let md := mode_of op in let n := op_length op m8 x8 in
  let ops := map g (map (Z.add 1) (zrange (n - 1))) in
  (spec_syntax mn md, spec_groups mn md ops, spec_dest md pc ops, spec_back md ops).

(* for a table row that agrees with the matrix: the length the code computes is the instruction's
   length, and the operand rendering of the repaired code is the specified one *)
Definition core_goal (op m x pc : Z) (g : Z -> Z) : Prop :=
  let gm := go_mode (mnem_of op) (mode_of op) in let gs := ISA.length (mode_of op) false false in
  let nb := nbytes gs gm m x in
  nb = op_length op (m =? 1) (x =? 1) /\ read_count nb = nb /\
  let ws := map g (zrange nb) in
  fmt true gm m x pc (nth 0 ws 0) (nth 1 ws 0) (nth 2 ws 0) (nth 3 ws 0) = core_spec op (m =? 1) (x =? 1) pc g.

Section Core.
  Variables (pc : Z) (g : Z -> Z).
  Hypothesis Hpc : 0 <= pc < 65536.
  Hypothesis Hg : forall i, 0 <= g i < 256.

  Lemma rel8_dest_g : forall w2, go_rel8_dest true pc (g 1) w2 = spec_rel8_dest pc (g 1).
  Proof. intros. apply rel8_ok; auto. Qed.
  Lemma rel8_back_g : forall w2, go_rel8_back true (g 1) w2 = (128 <=? g 1).
  Proof. intros. apply (rel8_ok pc); auto. Qed.
  Lemma rel16_dest_g : go_rel16_dest pc (g 1) (g 2) = spec_rel16_dest pc (g 1) (g 2).
  Proof. intros. apply rel16_ok; auto. Qed.

  Ltac one_case Hg0 :=
    split; [vm_compute; reflexivity | split; [vm_compute; reflexivity |]];
    cbv -[go_rel8_dest go_rel8_back go_rel16_dest spec_rel8_dest spec_rel16_dest g];
    rewrite ?Hg0;
    cbv -[go_rel8_dest go_rel8_back go_rel16_dest spec_rel8_dest spec_rel16_dest g];
    rewrite ?rel8_dest_g, ?rel8_back_g, ?rel16_dest_g;
    reflexivity.

  (* 256 opcodes x 4 width combinations, each by computation *)
  Definition core_at (op : Z) : Prop :=
    forall m x, (m = 0 \/ m = 1) -> (x = 0 \/ x = 1) -> g 0 = op -> core_goal op m x pc g.

  Lemma core_forall : Forall core_at (zrange 256).
  Proof.
    let l := eval vm_compute in (zrange 256) in change (zrange 256) with l.
    repeat (apply Forall_cons;
            [ intros m x Hm Hx Hg0; unfold core_goal; destruct Hm, Hx; subst m x; one_case Hg0 | ]).
    apply Forall_nil.
  Qed.

  Lemma core_all : forall op, 0 <= op < 256 -> forall m x, (m = 0 \/ m = 1) -> (x = 0 \/ x = 1) ->
    g 0 = op -> core_goal op m x pc g.
  Proof.
    intros op Hop. refine (proj1 (Forall_forall core_at (zrange 256)) core_forall op _).
    unfold zrange. apply in_map_iff. exists (Z.to_nat op). split; [apply Z2Nat.id; lia|].
    apply in_seq. change (Z.to_nat 256) with 256%nat. lia.
  Qed.
End Core.

