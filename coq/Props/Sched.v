(* Props/Sched.v -- C18: threads that own disjoint parts of the heap and share only read-only
   locations cannot influence one another, whatever the schedule.            (stdlib only)

   The model.  A heap maps locations to values.  The locations are split into `own t` (one set per
   thread, pairwise disjoint) and a read-only set `RO`.  A thread is a DETERMINISTIC step function of
   its private state: in every state it proposes exactly one atomic action -- read one location and
   continue with the value, write one location, emit one observable output, or stop.  A schedule is
   any finite list of thread identifiers (any number of threads, any length, any order, repetitions
   and starvation allowed): `run` executes the proposed action of the named thread at each position.
   Atomicity is at the granularity of ONE memory access, i.e. the interleavings are those of a
   sequentially consistent machine.

   The theorem (`schedule_independence`): if every thread, in every state, reads only `own t` or `RO`
   locations and writes only `own t` locations, then FOR EVERY schedule, thread t's state, its output
   sequence and the contents of `own t` after the interleaved run are exactly those of t running
   ALONE for as many steps as it was scheduled; and every location owned by nobody (in particular
   every RO location) still holds its initial value (`unowned_unchanged`, `RO_unchanged`).  Proof:
   induction over the schedule with the invariant "t's view agrees with its solo run on own t + RO".

   `Section Instantiate` specialises the partition to the shape the library has: locations are either
   package-level variables (`LGlobal g`) or cells of an object created by thread t (`LObj t o`); the
   side condition becomes `respects W`: a thread touches only its own objects and writes a global g
   only if g is in the list W of globals that have a may-writer.  With `W = []` -- which is what the
   per-run lemma `no_global_writers` establishes from the regenerated GenGlobals.v by `reflexivity`
   -- the premise of the theorem holds and the conclusion follows (`no_writers_independent`).

   What is NOT in this model, and therefore not claimed:
     * Go memory-model data races themselves: the model only has sequentially consistent
       interleavings of atomic accesses; torn reads, reordering and the "racy programs have no
       semantics" clause of the Go memory model are outside it.  (Under the theorem's premise there
       are no conflicting accesses at all -- every written location is accessed by one thread only
       -- so a program satisfying the premise is data-race free and SC semantics is the right one;
       that step is the standard DRF-SC argument, stated here in prose, not proved in Coq.)
     * The scheduler, goroutine creation, channels, the runtime, the garbage collector.
     * That the Go code satisfies `respects []`: this is the job of the static may-write analysis
       (tools/globals), which is conservative but not verified, and which cannot see writes made
       through reflection, package unsafe, cgo, assembly or go:linkname (none present today; the
       generated file lists importers of unsafe/C and the check requires the list to be empty).
       The runtime tie (race-detector soak with result comparison) exists to falsify this link.
     * That callers really hand distinct objects to distinct goroutines: it is the hypothesis of the
       property ("separately created ... objects").
*)
From Coq Require Import List Arith Lia.
Import ListNotations.

Set Implicit Arguments.

Definition tid := nat.

Section Semantics.
  Variables loc val out st : Type.
  Variable loc_eq_dec : forall a b : loc, {a = b} + {a <> b}.

  Definition heap := loc -> val.

  (* one atomic action proposed by a thread in a given private state *)
  Inductive action :=
  | ARead (l : loc) (k : val -> st)        (* read l, continue in state k v *)
  | AWrite (l : loc) (v : val) (s : st)    (* write v to l, continue in s *)
  | AOut (o : out) (s : st)                (* emit an observable result *)
  | ADone.                                 (* finished: stutters for ever *)

  (* the program of every thread: a deterministic function of the thread's own state *)
  Variable next : tid -> st -> action.

  Definition upd (h : heap) (l : loc) (v : val) : heap :=
    fun l' => if loc_eq_dec l' l then v else h l'.

  (* what one thread sees: its state, its outputs so far, and a heap *)
  Record lcfg := { l_st : st; l_out : list out; l_hp : heap }.

  Definition tstep (t : tid) (x : lcfg) : lcfg :=
    match next t (l_st x) with
    | ARead l k => {| l_st := k (l_hp x l); l_out := l_out x; l_hp := l_hp x |}
    | AWrite l v s => {| l_st := s; l_out := l_out x; l_hp := upd (l_hp x) l v |}
    | AOut o s => {| l_st := s; l_out := l_out x ++ [o]; l_hp := l_hp x |}
    | ADone => x
    end.

  (* the whole system: one state and one output sequence per thread (total maps: unboundedly many
     threads), one shared heap *)
  Record cfg := { sts : tid -> st; outs : tid -> list out; hp : heap }.

  Definition set (A : Type) (f : tid -> A) (t : tid) (a : A) : tid -> A :=
    fun u => if Nat.eq_dec u t then a else f u.

  Definition view (c : cfg) (t : tid) : lcfg := {| l_st := sts c t; l_out := outs c t; l_hp := hp c |}.

  Definition gstep (t : tid) (c : cfg) : cfg :=
    let x := tstep t (view c t) in
    {| sts := set (sts c) t (l_st x); outs := set (outs c) t (l_out x); hp := l_hp x |}.

  (* interleaved execution under a schedule *)
  Fixpoint run (sched : list tid) (c : cfg) : cfg :=
    match sched with
    | [] => c
    | t :: r => run r (gstep t c)
    end.

  (* thread t alone, n steps *)
  Fixpoint solo (t : tid) (n : nat) (x : lcfg) : lcfg :=
    match n with
    | O => x
    | S n' => solo t n' (tstep t x)
    end.

  Definition times (t : tid) (sched : list tid) : nat := count_occ Nat.eq_dec sched t.

  (* ------------------------------------------------------------------------------------------ *)
  Section Independence.
    Variable own : tid -> loc -> Prop.
    Variable RO : loc -> Prop.
    Hypothesis own_disjoint : forall t u l, own t l -> own u l -> t = u.
    Hypothesis own_not_RO : forall t l, own t l -> ~ RO l.

    Definition confined_action (t : tid) (a : action) : Prop :=
      match a with
      | ARead l _ => own t l \/ RO l
      | AWrite l _ _ => own t l
      | AOut _ _ => True
      | ADone => True
      end.

    (* THE premise: every thread, in every state, reads own+RO and writes own only *)
    Hypothesis confined : forall t s, confined_action t (next t s).

    Definition agree (t : tid) (h1 h2 : heap) : Prop := forall l, own t l \/ RO l -> h1 l = h2 l.

    Lemma upd_same : forall h l v, upd h l v l = v.
    Proof. intros h l v. unfold upd. destruct (loc_eq_dec l l) as [_|N]; [reflexivity | congruence]. Qed.

    Lemma upd_other : forall h l v l', l' <> l -> upd h l v l' = h l'.
    Proof. intros h l v l' N. unfold upd. destruct (loc_eq_dec l' l) as [E|_]; [congruence | reflexivity]. Qed.

    (* a step of t only depends on own t + RO *)
    Lemma tstep_local : forall t x y,
      l_st x = l_st y -> l_out x = l_out y -> agree t (l_hp x) (l_hp y) ->
      l_st (tstep t x) = l_st (tstep t y) /\ l_out (tstep t x) = l_out (tstep t y) /\
      agree t (l_hp (tstep t x)) (l_hp (tstep t y)).
    Proof.
      intros t x y Hs Ho Ha. unfold tstep. rewrite <- Hs.
      pose proof (confined t (l_st x)) as Hc.
      destruct (next t (l_st x)) as [l k | l v s | o s | ]; cbn [l_st l_out l_hp confined_action] in *.
      - rewrite (Ha l Hc). auto.
      - repeat split; auto. intros l' Hl'. unfold upd. destruct (loc_eq_dec l' l); auto.
      - rewrite Ho. auto.
      - auto.
    Qed.

    (* a step of t leaves every location outside own t alone *)
    Lemma tstep_frame : forall t x l, ~ own t l -> l_hp (tstep t x) l = l_hp x l.
    Proof.
      intros t x l Hn. unfold tstep.
      pose proof (confined t (l_st x)) as Hc.
      destruct (next t (l_st x)) as [l0 k | l0 v s | o s | ]; cbn [l_st l_out l_hp confined_action] in *; auto.
      apply upd_other. intro E. subst l0. auto.
    Qed.

    Lemma gstep_self : forall t c,
      sts (gstep t c) t = l_st (tstep t (view c t)) /\ outs (gstep t c) t = l_out (tstep t (view c t)) /\
      hp (gstep t c) = l_hp (tstep t (view c t)).
    Proof.
      intros t c. unfold gstep, set. cbn [sts outs hp]. destruct (Nat.eq_dec t t) as [_|N]; [auto | congruence].
    Qed.

    Lemma gstep_other : forall t u c, u <> t ->
      sts (gstep u c) t = sts c t /\ outs (gstep u c) t = outs c t /\ agree t (hp (gstep u c)) (hp c).
    Proof.
      intros t u c N. unfold gstep, set. cbn [sts outs hp].
      destruct (Nat.eq_dec t u) as [E|_]; [congruence|]. repeat split; auto.
      intros l Hl. change (hp c) with (l_hp (view c u)). apply tstep_frame.
      intro Hu. destruct Hl as [Ht | Hr].
      - apply N. eapply own_disjoint; eauto.
      - eapply own_not_RO; eauto.
    Qed.

    Lemma agree_trans : forall t a b c, agree t a b -> agree t b c -> agree t a c.
    Proof. intros t a b c H1 H2 l Hl. rewrite (H1 l Hl). auto. Qed.

    Lemma agree_sym : forall t a b, agree t a b -> agree t b a.
    Proof. intros t a b H l Hl. symmetry. auto. Qed.

    (* the invariant carried along the schedule *)
    Lemma run_simulates_solo : forall t sched c x,
      l_st x = sts c t -> l_out x = outs c t -> agree t (l_hp x) (hp c) ->
      let y := solo t (times t sched) x in
      l_st y = sts (run sched c) t /\ l_out y = outs (run sched c) t /\ agree t (l_hp y) (hp (run sched c)).
    Proof.
      intros t sched. induction sched as [|u r IH]; intros c x Hs Ho Ha.
      - cbn. auto.
      - unfold times in *. cbn [count_occ run]. destruct (Nat.eq_dec u t) as [E|N].
        + subst u. cbn [solo]. apply IH.
          * destruct (gstep_self t c) as (G1 & _ & _). rewrite G1.
            apply (@tstep_local t x (view c t)); auto.
          * destruct (gstep_self t c) as (_ & G2 & _). rewrite G2.
            apply (@tstep_local t x (view c t)); auto.
          * destruct (gstep_self t c) as (_ & _ & G3). rewrite G3.
            apply (@tstep_local t x (view c t)); auto.
        + destruct (gstep_other c N) as (G1 & G2 & G3). apply IH.
          * congruence.
          * congruence.
          * eapply agree_trans; [exact Ha | apply agree_sym; exact G3].
    Qed.

    (* C18, scheduling half.  For every schedule and every thread: state, outputs and owned part of
       the heap after the interleaved run are those of the thread running alone. *)
    Theorem schedule_independence : forall (sched : list tid) (c : cfg) (t : tid),
      let y := solo t (times t sched) (view c t) in
      sts (run sched c) t = l_st y /\
      outs (run sched c) t = l_out y /\
      (forall l, own t l -> hp (run sched c) l = l_hp y l).
    Proof.
      intros sched c t.
      destruct (@run_simulates_solo t sched c (view c t)) as (H1 & H2 & H3); cbn [view l_st l_out l_hp]; auto.
      - intros l _. reflexivity.
      - cbn zeta. repeat split; auto. intros l Hl. symmetry. apply H3. auto.
    Qed.

    (* locations that no thread owns are never modified, by any schedule *)
    Theorem unowned_unchanged : forall (sched : list tid) (c : cfg) (l : loc),
      (forall t, ~ own t l) -> hp (run sched c) l = hp c l.
    Proof.
      induction sched as [|u r IH]; intros c l Hn; cbn [run]; auto.
      rewrite (IH _ _ Hn). destruct (gstep_self u c) as (_ & _ & G3). rewrite G3.
      change (hp c) with (l_hp (view c u)). apply tstep_frame. auto.
    Qed.

    Corollary RO_unchanged : forall (sched : list tid) (c : cfg) (l : loc),
      RO l -> hp (run sched c) l = hp c l.
    Proof. intros sched c l Hr. apply unowned_unchanged. intros t Ht. eapply own_not_RO; eauto. Qed.

    (* two schedules that give a thread the same number of steps are indistinguishable to it *)
    Corollary schedules_equivalent : forall (s1 s2 : list tid) (c : cfg) (t : tid),
      times t s1 = times t s2 ->
      sts (run s1 c) t = sts (run s2 c) t /\ outs (run s1 c) t = outs (run s2 c) t /\
      (forall l, own t l -> hp (run s1 c) l = hp (run s2 c) l).
    Proof.
      intros s1 s2 c t E.
      destruct (schedule_independence s1 c t) as (A1 & A2 & A3).
      destruct (schedule_independence s2 c t) as (B1 & B2 & B3).
      rewrite E in *. repeat split; try congruence. intros l Hl. rewrite A3, B3; auto.
    Qed.
  End Independence.
End Semantics.

Arguments ARead {loc val out st} l k.
Arguments AWrite {loc val out st} l v s.
Arguments AOut {loc val out st} o s.
Arguments ADone {loc val out st}.

(* ---------------------------------------------------------------------------------------------- *)
(* The shape of the library: package-level variables + objects owned by the creating goroutine.    *)
Section Instantiate.
  Variables G O val out st : Type.
  Variable G_eq_dec : forall a b : G, {a = b} + {a <> b}.
  Variable O_eq_dec : forall a b : O, {a = b} + {a <> b}.

  Inductive gloc := LGlobal (g : G) | LObj (owner : tid) (o : O).

  Definition gloc_eq_dec : forall a b : gloc, {a = b} + {a <> b}.
  Proof. decide equality. apply Nat.eq_dec. Defined.

  Definition own_obj (t : tid) (l : gloc) : Prop := match l with LObj u _ => u = t | LGlobal _ => False end.
  Definition is_global (l : gloc) : Prop := match l with LGlobal _ => True | LObj _ _ => False end.

  (* W: the globals for which the static analysis found an instruction that may write them *)
  Variable W : list G.
  Variable next : tid -> st -> action gloc val out st.

  Definition respects (t : tid) (a : action gloc val out st) : Prop :=
    match a with
    | ARead (LObj u _) _ => u = t
    | ARead (LGlobal _) _ => True
    | AWrite (LObj u _) _ _ => u = t
    | AWrite (LGlobal g) _ _ => In g W
    | AOut _ _ => True
    | ADone => True
    end.

  Lemma own_obj_disjoint : forall t u l, own_obj t l -> own_obj u l -> t = u.
  Proof. intros t u [g|w o]; cbn; intros; [contradiction | congruence]. Qed.

  Lemma own_obj_not_global : forall t l, own_obj t l -> ~ is_global l.
  Proof. intros t [g|w o]; cbn; auto. Qed.

  (* C18 instantiated: no global has a may-writer (W = []), every thread touches only its own objects
     -> for every schedule each thread behaves as alone and every global keeps its value. *)
  Theorem no_writers_independent :
    W = [] ->
    (forall t s, respects t (next t s)) ->
    forall (sched : list tid) (c : cfg gloc val out st) (t : tid),
      let y := solo gloc_eq_dec next t (times t sched) (view c t) in
      sts (run gloc_eq_dec next sched c) t = l_st y /\
      outs (run gloc_eq_dec next sched c) t = l_out y /\
      (forall o, hp (run gloc_eq_dec next sched c) (LObj t o) = l_hp y (LObj t o)) /\
      (forall g, hp (run gloc_eq_dec next sched c) (LGlobal g) = hp c (LGlobal g)).
  Proof.
    intros HW Hr sched c t.
    assert (Hc : forall t s, confined_action own_obj is_global t (next t s)).
    { intros u s. pose proof (Hr u s) as H. destruct (next u s) as [[g|w o] k | [g|w o] v s' | o s' | ]; cbn in *; auto.
      rewrite HW in H. contradiction. }
    destruct (schedule_independence gloc_eq_dec next own_obj is_global own_obj_disjoint own_obj_not_global Hc sched c t)
      as (H1 & H2 & H3).
    cbn zeta. repeat split; auto.
    - intros o. apply H3. reflexivity.
    - intros g. apply (RO_unchanged gloc_eq_dec next own_obj is_global own_obj_not_global Hc). exact I.
  Qed.
End Instantiate.

Arguments LGlobal {G O} g.
Arguments LObj {G O} owner o.

(* the form used by the per-run file: `writers` is the generated list (any record type A), `name`
   projects the variable out of a record; an empty list discharges the premise *)
Theorem no_listed_writers_independent :
  forall (A G O val out st : Type)
         (G_eq_dec : forall a b : G, {a = b} + {a <> b}) (O_eq_dec : forall a b : O, {a = b} + {a <> b})
         (writers : list A) (name : A -> G) (next : tid -> st -> action (gloc G O) val out st),
    writers = [] ->
    (forall t s, respects (map name writers) t (next t s)) ->
    forall (sched : list tid) (c : cfg (gloc G O) val out st) (t : tid),
      let dec := gloc_eq_dec G_eq_dec O_eq_dec in
      let y := solo dec next t (times t sched) (view c t) in
      sts (run dec next sched c) t = l_st y /\
      outs (run dec next sched c) t = l_out y /\
      (forall o, hp (run dec next sched c) (LObj t o) = l_hp y (LObj t o)) /\
      (forall g, hp (run dec next sched c) (LGlobal g) = hp c (LGlobal g)).
Proof.
  intros A G O val out st G_eq_dec O_eq_dec writers name next Hw Hr sched c t.
  apply (@no_writers_independent G O val out st G_eq_dec O_eq_dec (map name writers) next); [ | exact Hr].
  rewrite Hw. reflexivity.
Qed.

(* ---------------------------------------------------------------------------------------------- *)
(* Non-vacuity 1: a system satisfying the premise, with a non-trivial interleaving.                *)
Module ExampleOK.
  (* globals and object cells are numbered; values are numbers; a thread's state is (pc, acc).
     Thread t: read global 0 (a shared table entry); store entry + t in its own cell 0; read the cell
     back; output it; stop. *)
  Definition st := (nat * nat)%type.
  Definition next (t : tid) (s : st) : action (gloc nat nat) nat nat st :=
    match fst s with
    | 0 => ARead (LGlobal 0) (fun v => (1, v))
    | 1 => AWrite (LObj t 0) (snd s + t) (2, 0)
    | 2 => ARead (LObj t 0) (fun v => (3, v))
    | 3 => AOut (snd s) (4, snd s)
    | _ => ADone
    end.

  Lemma next_respects : forall t s, respects (@nil nat) t (next t s).
  Proof. intros t [[|[|[|[|pc]]]] a]; cbn; auto. Qed.

  Definition c0 : cfg (gloc nat nat) nat nat st :=
    {| sts := fun _ => (0, 0); outs := fun _ => []; hp := fun l => match l with LGlobal _ => 7 | LObj _ _ => 0 end |}.
  Definition dec := gloc_eq_dec Nat.eq_dec Nat.eq_dec.

  (* three threads, thoroughly interleaved; thread 5 starved after two steps *)
  Definition sched := [1; 2; 1; 5; 2; 2; 1; 1; 5; 2; 1; 2].

  Example interleaved_outputs :
    outs (run dec next sched c0) 1 = [8] /\ outs (run dec next sched c0) 2 = [9] /\ outs (run dec next sched c0) 5 = [] /\
    hp (run dec next sched c0) (LObj 5 0) = 12 /\ hp (run dec next sched c0) (LGlobal 0) = 7.
  Proof. repeat split; reflexivity. Qed.

  (* ... and the theorem applies to it, for every schedule *)
  Example theorem_applies : forall sch t,
    outs (run dec next sch c0) t = l_out (solo dec next t (times t sch) (view c0 t)).
  Proof.
    intros sch t.
    destruct (@no_writers_independent nat nat nat nat st Nat.eq_dec Nat.eq_dec [] next eq_refl next_respects sch c0 t)
      as (_ & H & _).
    exact H.
  Qed.
End ExampleOK.

(* Non-vacuity 2 / the premise is needed: two threads that both update ONE shared location (the
   "cache a value into a package-level table" pattern).  The result a thread computes depends on the
   schedule, so the conclusion of the theorem fails; hence NO partition into own/RO can satisfy the
   premise for this system (contrapositive of schedule_independence). *)
Module ExampleRacy.
  Definition st := (nat * nat)%type.
  (* every thread: read shared cell 0; write back value+1; output what it wrote; stop *)
  Definition next (t : tid) (s : st) : action nat nat nat st :=
    match fst s with
    | 0 => ARead 0 (fun v => (1, v))
    | 1 => AWrite 0 (snd s + 1) (2, snd s + 1)
    | 2 => AOut (snd s) (3, snd s)
    | _ => ADone
    end.
  Definition c0 : cfg nat nat nat st := {| sts := fun _ => (0, 0); outs := fun _ => []; hp := fun _ => 0 |}.

  Definition sched_seq := [0; 0; 0; 1; 1; 1].   (* thread 1 after thread 0 *)
  Definition sched_mix := [1; 0; 0; 0; 1; 1].   (* thread 1 reads, thread 0 runs, thread 1 continues *)

  (* same number of steps for thread 1 in both schedules, different observable result *)
  Example interleaving_changes_result :
    times 1 sched_seq = times 1 sched_mix /\
    outs (run Nat.eq_dec next sched_seq c0) 1 = [2] /\
    outs (run Nat.eq_dec next sched_mix c0) 1 = [1] /\
    l_out (solo Nat.eq_dec next 1 3 (view c0 1)) = [1].
  Proof. repeat split; reflexivity. Qed.

  (* lost update: the shared cell ends at 1 although two increments ran *)
  Example lost_update : hp (run Nat.eq_dec next sched_mix c0) 0 = 1 /\ hp (run Nat.eq_dec next sched_seq c0) 0 = 2.
  Proof. split; reflexivity. Qed.

  Lemma premise_is_needed : forall (own : tid -> nat -> Prop) (RO : nat -> Prop),
    (forall t u l, own t l -> own u l -> t = u) ->
    (forall t l, own t l -> ~ RO l) ->
    ~ (forall t s, confined_action own RO t (next t s)).
  Proof.
    intros own RO Hd Hn Hc.
    destruct (schedule_independence Nat.eq_dec next own RO Hd Hn Hc sched_seq c0 1) as (_ & H & _).
    cbv in H. discriminate H.
  Qed.
End ExampleRacy.

Print Assumptions schedule_independence.
Print Assumptions no_writers_independent.
Print Assumptions no_listed_writers_independent.
Print Assumptions ExampleRacy.premise_is_needed.
