(* C13: bus routing follows Attach; EaDump agrees with byte-wise reads.  Theorems about Model/Bus.v.

   Go types: start, end, a are uint32 ([in_u32]).  Interpretation (DESIGN): addresses below 2^24,
   start <= end, data long enough; an Attach whose loop runs past the table is a panic, not a
   successful Attach.

   Part 1  arithmetic of >>4, &0xf, &0xfffff0 on Z
   Part 2  the Attach loop = its closed form
   Part 3  one Attach: rejected (misaligned) / successful / panics; exactly the blocks of its range
   Part 4  any history of Attach calls: route = the last call covering the address
   Part 5  EaRead / EaWrite hand the unmodified address to that memory, Panic when unattached
   Part 6  EaDump = the byte-wise loop (repaired code: any start; today's code: aligned starts only)
   Part 7  EaDump in terms of values: count, data[i], untouched positions, log
   Part 8  the witness against today's loop (C13_dump_refuted)
   Part 9  EaRead24_wrap: loud failure, three single reads, address arithmetic, after any history
   Part 10 a successful write to a RAM is what the next read returns and changes no other cell *)
From Coq Require Import ZArith List Bool Lia ZifyBool.
From Lib Require Import ZList.
From Model Require Import Bus.
Import ListNotations.
Local Open Scope Z_scope.

Ltac Zify.zify_post_hook ::= Z.div_mod_to_equations.

Definition in_u32 (x : Z) : Prop := 0 <= x < 4294967296.
Definition ABITS : Z := 16777216.   (* 2^24 *)

(* ================================================================== Part 1 *)
Lemma shiftr4 : forall a, Z.shiftr a 4 = a / 16.
Proof. intro a. rewrite Z.shiftr_div_pow2 by lia. reflexivity. Qed.

Lemma land15 : forall a, Z.land a 15 = a mod 16.
Proof. intro a. replace 15 with (Z.ones 4) by reflexivity. rewrite Z.land_ones by lia. reflexivity. Qed.

Lemma seg_mask : forall a, 0 <= a < ABITS -> Z.shiftr (Z.land a 16777200) 4 = a / 16.
Proof.
  intros a Ha. unfold ABITS in Ha. rewrite Z.shiftr_land.
  replace (Z.shiftr 16777200 4) with (Z.ones 20) by reflexivity.
  rewrite Z.land_ones by lia. rewrite shiftr4.
  replace (2 ^ 20) with 1048576 by reflexivity. apply Z.mod_small. lia.
Qed.

Lemma start_aligned_spec : forall s, start_aligned s = (s mod 16 =? 0).
Proof. intro s. unfold start_aligned. now rewrite land15. Qed.

Lemma end_aligned_spec : forall e, end_aligned e = ((e + 1) mod 16 =? 0).
Proof.
  intro e. unfold end_aligned, u32. rewrite land15.
  replace ((e + 1) mod 4294967296 mod 16) with ((e + 1) mod 16); [reflexivity|].
  lia.
Qed.

(* ================================================================== Part 2 *)
Lemma fill_loop_spec : forall fuel rt m x hi,
  hi - x + 1 <= Z.of_nat fuel ->
  (forall k, fst (fill_loop fuel rt m x hi) k = fill_range rt m x hi k) /\
  snd (fill_loop fuel rt m x hi) = fill_panics x hi.
Proof.
  induction fuel as [|f IH]; intros rt m x hi Hf.
  - cbn [fill_loop fst snd]. unfold fill_range, fill_panics. split.
    + intro k. destruct ((x <=? k) && (k <=? hi) && (k <? NSEG)) eqn:E; [lia|reflexivity].
    + lia.
  - cbn [fill_loop]. destruct (x <=? hi) eqn:Exh.
    + destruct (x <? NSEG) eqn:Exn.
      * destruct (IH (set_block rt x m) m (x + 1) hi) as [IH1 IH2]; [lia|]. split.
        -- intro k. rewrite IH1. unfold fill_range, set_block.
           destruct (k =? x) eqn:Ekx.
           ++ assert (k = x) by lia. subst k.
              destruct ((x + 1 <=? x) && (x <=? hi) && (x <? NSEG)) eqn:E1; [lia|].
              destruct ((x <=? x) && (x <=? hi) && (x <? NSEG)) eqn:E2; [reflexivity|lia].
           ++ destruct ((x + 1 <=? k) && (k <=? hi) && (k <? NSEG)) eqn:E1;
              destruct ((x <=? k) && (k <=? hi) && (k <? NSEG)) eqn:E2; try reflexivity; lia.
        -- rewrite IH2. unfold fill_panics. unfold NSEG in *. lia.
      * cbn [fst snd]. unfold fill_range, fill_panics. split.
        -- intro k. destruct ((x <=? k) && (k <=? hi) && (k <? NSEG)) eqn:E; [lia|reflexivity].
        -- lia.
    + cbn [fst snd]. unfold fill_range, fill_panics. split.
      * intro k. destruct ((x <=? k) && (k <=? hi) && (k <? NSEG)) eqn:E; [lia|reflexivity].
      * lia.
Qed.

Definition attach_res_equiv (r1 r2 : attach_res) : Prop :=
  match r1, r2 with
  | AOk a, AOk b => forall k, a k = b k
  | AErr, AErr => True
  | APanic a, APanic b => forall k, a k = b k
  | _, _ => False
  end.

(* the loop, run literally, stores exactly what the closed form says and dies exactly when it says *)
Theorem attach_loop_equiv : forall rt m s e, attach_res_equiv (attach_loop rt m s e) (attach rt m s e).
Proof.
  intros rt m s e. unfold attach_loop, attach.
  destruct (start_aligned s); cbn [negb]; [|exact I].
  destruct (end_aligned e); cbn [negb]; [|exact I].
  destruct (fill_loop_spec (Z.to_nat (Z.shiftr e 4 - Z.shiftr s 4 + 1)) rt m (Z.shiftr s 4) (Z.shiftr e 4)) as [H1 H2]; [lia|].
  destruct (fill_loop _ rt m (Z.shiftr s 4) (Z.shiftr e 4)) as [rt' p]. cbn [fst snd] in H1, H2. subst p.
  destruct (fill_panics (Z.shiftr s 4) (Z.shiftr e 4)); exact H1.
Qed.

(* ================================================================== Part 3 *)
Record call := mkCall { c_mem : Z; c_start : Z; c_end : Z }.
Definition call_wf (c : call) : Prop := in_u32 (c_start c) /\ in_u32 (c_end c).

Definition alignedb (c : call) : bool := (c_start c mod 16 =? 0) && ((c_end c + 1) mod 16 =? 0).
(* the address is inside the range of an aligned call *)
Definition covers (c : call) (a : Z) : bool := alignedb c && (c_start c <=? a) && (a <=? c_end c).
(* the loop of the call runs past the table *)
Definition call_panics (c : call) : bool :=
  alignedb c && (c_start c / 16 <=? c_end c / 16) && (NSEG <=? c_end c / 16).

Definition do_attach (rt : routing) (c : call) : attach_res := attach rt (c_mem c) (c_start c) (c_end c).
Definition apply_call (rt : routing) (c : call) : routing := attach_rt rt (c_mem c) (c_start c) (c_end c).
Definition run_calls (rt : routing) (h : list call) : routing := fold_left apply_call h rt.

(* misaligned: error, and the table after the call is the table before it *)
Theorem attach_misaligned : forall rt c,
  alignedb c = false -> do_attach rt c = AErr /\ apply_call rt c = rt.
Proof.
  intros rt c Hal. unfold apply_call, attach_rt, do_attach, attach, alignedb in *.
  rewrite start_aligned_spec, end_aligned_spec.
  destruct (c_start c mod 16 =? 0); cbn [negb andb] in *; [|split; reflexivity].
  rewrite Hal. split; reflexivity.
Qed.

Theorem attach_rejected_iff : forall rt c, do_attach rt c = AErr <-> alignedb c = false.
Proof.
  intros rt c. split; [|intro H; apply attach_misaligned; exact H].
  unfold do_attach, attach, alignedb. rewrite start_aligned_spec, end_aligned_spec.
  destruct (c_start c mod 16 =? 0); cbn [negb andb]; [|reflexivity].
  destruct ((c_end c + 1) mod 16 =? 0); cbn [negb]; [|reflexivity].
  destruct (fill_panics _ _); discriminate.
Qed.

Theorem attach_panics_iff : forall rt c, (exists rt', do_attach rt c = APanic rt') <-> call_panics c = true.
Proof.
  intros rt c. unfold do_attach, attach, call_panics, alignedb, fill_panics.
  rewrite start_aligned_spec, end_aligned_spec, !shiftr4.
  destruct (c_start c mod 16 =? 0); cbn [negb andb].
  2:{ split; [intros [r H]; discriminate|discriminate]. }
  destruct ((c_end c + 1) mod 16 =? 0); cbn [negb andb].
  2:{ split; [intros [r H]; discriminate|discriminate]. }
  destruct ((c_start c / 16 <=? c_end c / 16) && (NSEG <=? c_end c / 16)).
  - split; [reflexivity|eauto].
  - split; [intros [r H]; discriminate|discriminate].
Qed.

(* with the end below 2^24 (the interpretation) no Attach panics: every aligned Attach is successful *)
Lemma no_panic_below_2_24 : forall c, c_end c < ABITS -> call_panics c = false.
Proof. intros c H. unfold call_panics, NSEG, ABITS in *. lia. Qed.

Theorem attach_aligned_succeeds : forall rt c,
  alignedb c = true -> c_end c < ABITS -> exists rt', do_attach rt c = AOk rt' /\ apply_call rt c = rt'.
Proof.
  intros rt c Hal He.
  pose proof (no_panic_below_2_24 c He) as Hnp.
  unfold apply_call, attach_rt, do_attach, attach, call_panics, alignedb, fill_panics in *.
  rewrite start_aligned_spec, end_aligned_spec, !shiftr4.
  destruct (c_start c mod 16 =? 0); cbn [negb andb] in *; [|discriminate].
  rewrite Hal in *. cbn [negb andb] in *. rewrite Hnp. eauto.
Qed.

(* block level: an aligned Attach updates exactly the blocks of its range (inside the table) *)
Theorem apply_call_blocks : forall rt c k,
  apply_call rt c k =
  if alignedb c && (c_start c / 16 <=? k) && (k <=? c_end c / 16) && (k <? NSEG) then Some (c_mem c) else rt k.
Proof.
  intros rt c k. unfold apply_call, attach_rt, attach, alignedb.
  rewrite start_aligned_spec, end_aligned_spec, !shiftr4.
  destruct (c_start c mod 16 =? 0); cbn [negb andb]; [|reflexivity].
  destruct ((c_end c + 1) mod 16 =? 0); cbn [negb andb]; [|reflexivity].
  destruct (fill_panics _ _); unfold fill_range; reflexivity.
Qed.

(* address level: what EaRead/EaWrite will find for an address below 2^24 *)
Theorem apply_call_seg : forall rt c a,
  call_wf c -> 0 <= a < ABITS ->
  seg_at (apply_call rt c) a = if covers c a then Some (c_mem c) else seg_at rt a.
Proof.
  intros rt c a [Hs He] Ha. unfold seg_at. rewrite apply_call_blocks, shiftr4.
  unfold covers, alignedb, in_u32, ABITS, NSEG in *.
  destruct (a / 16 <? 1048576) eqn:Ek; [|lia].
  destruct (c_start c mod 16 =? 0) eqn:E1; cbn [andb]; [|reflexivity].
  destruct ((c_end c + 1) mod 16 =? 0) eqn:E2; cbn [andb]; [|reflexivity].
  rewrite andb_true_r.
  assert (H : ((c_start c / 16 <=? a / 16) && (a / 16 <=? c_end c / 16)) = ((c_start c <=? a) && (a <=? c_end c))) by lia.
  rewrite H. reflexivity.
Qed.

(* addresses outside the range of a call are unaffected by it (whatever its outcome) *)
Theorem apply_call_outside : forall rt c a,
  call_wf c -> 0 <= a < ABITS -> ~ (c_start c <= a <= c_end c) -> seg_at (apply_call rt c) a = seg_at rt a.
Proof.
  intros rt c a Hwf Ha Hout. rewrite apply_call_seg by assumption.
  unfold covers. destruct (alignedb c); cbn [andb]; [|reflexivity].
  destruct ((c_start c <=? a) && (a <=? c_end c)) eqn:E; [lia|reflexivity].
Qed.

(* ================================================================== Part 4 *)
(* the memory of the last call (chronological list) whose range covers the address *)
Fixpoint last_cover (h : list call) (a : Z) : option Z :=
  match h with
  | [] => None
  | c :: r =>
      match last_cover r a with
      | Some m => Some m
      | None => if covers c a then Some (c_mem c) else None
      end
  end.

Lemma route_history_gen : forall h rt a,
  Forall call_wf h -> 0 <= a < ABITS ->
  seg_at (run_calls rt h) a = match last_cover h a with Some m => Some m | None => seg_at rt a end.
Proof.
  induction h as [|c r IH]; intros rt a Hwf Ha.
  - reflexivity.
  - inversion Hwf as [|? ? Hc Hr]; subst. cbn [run_calls fold_left last_cover].
    change (fold_left apply_call r (apply_call rt c)) with (run_calls (apply_call rt c) r).
    rewrite IH by assumption.
    destruct (last_cover r a); [reflexivity|].
    rewrite apply_call_seg by assumption. destruct (covers c a); reflexivity.
Qed.

(* after ANY history of Attach calls (aligned or not, overlapping, repeated) on a fresh bus, the memory
   found for an address is the one of the last aligned call covering it; None if there is none *)
Theorem route_history : forall h a,
  Forall call_wf h -> 0 <= a < ABITS -> seg_at (run_calls empty_rt h) a = last_cover h a.
Proof.
  intros h a Hwf Ha. rewrite route_history_gen by assumption.
  destruct (last_cover h a); [reflexivity|]. unfold seg_at, empty_rt. destruct (_ <? _); reflexivity.
Qed.

(* in the words of the property: if every call ends below 2^24, the calls counted by [last_cover] are
   precisely the successful ones (aligned -> AOk, misaligned -> AErr, none panics) *)
Theorem history_outcomes : forall h,
  Forall (fun c => c_end c < ABITS) h ->
  Forall (fun c => forall rt, if alignedb c then exists rt', do_attach rt c = AOk rt' else do_attach rt c = AErr) h.
Proof.
  intros h H. induction H as [|c r Hc Hr IH]; constructor; [|exact IH].
  intro rt. destruct (alignedb c) eqn:E.
  - destruct (attach_aligned_succeeds rt c E Hc) as [rt' [H1 _]]. eauto.
  - apply attach_misaligned. exact E.
Qed.

(* ================================================================== Part 5 *)
Theorem mem_read_receives : forall W m a st,
  log (res_state (mem_read W m a st)) = (m, 0, a, 0) :: log st /\ stores (res_state (mem_read W m a st)) = stores st.
Proof. intros. unfold mem_read. destruct (peek W m a st); split; reflexivity. Qed.

Theorem mem_write_receives : forall W m a v st,
  log (res_state (mem_write W m a v st)) = (m, 1, a, v) :: log st.
Proof.
  intros. unfold mem_write. destruct (W m); try reflexivity.
  destruct (_ <? _); reflexivity.
Qed.

(* EaRead after any history: the last covering memory receives exactly the address a; unattached: Panic *)
Theorem ea_read_after_history : forall W h a st,
  Forall call_wf h -> 0 <= a < ABITS ->
  ea_read W (run_calls empty_rt h) a st =
  match last_cover h a with Some m => mem_read W m a st | None => Panic st end.
Proof. intros W h a st Hwf Ha. unfold ea_read. rewrite route_history by assumption. reflexivity. Qed.

Theorem ea_write_after_history : forall W h a v st,
  Forall call_wf h -> 0 <= a < ABITS ->
  ea_write W (run_calls empty_rt h) a v st =
  match last_cover h a with Some m => mem_write W m a v st | None => Panic st end.
Proof. intros W h a v st Hwf Ha. unfold ea_write. rewrite route_history by assumption. reflexivity. Qed.

(* beyond the table (a >= 2^24 as a uint32): index out of range *)
Theorem ea_read_beyond_table : forall W rt a st, ABITS <= a -> ea_read W rt a st = Panic st.
Proof.
  intros W rt a st Ha. unfold ea_read, seg_at. rewrite shiftr4. unfold ABITS, NSEG in *.
  destruct (a / 16 <? 1048576) eqn:E; [lia|reflexivity].
Qed.

(* ================================================================== Part 6 *)
(* the byte-wise loop: for each address in turn, EaRead it if attached and store the byte *)
Fixpoint dump_bytes (cnt : nat) (W : world) (rt : routing) (a i : Z) (data : list Z) (st : state) : res (list Z) :=
  match cnt with
  | O => Ok data st
  | S c =>
      match seg_at rt a with
      | None => dump_bytes c W rt (a + 1) (i + 1) data st
      | Some _ =>
          match ea_read W rt a st with
          | Panic st' => Panic st'
          | Ok b st' => if i <? zlen data then dump_bytes c W rt (a + 1) (i + 1) (upd data i b) st' else Panic st'
          end
      end
  end.

Definition with_count {A B} (f : A -> B) (r : res A) : res B :=
  match r with Ok d st => Ok (f d) st | Panic st => Panic st end.

Lemma dump_bytes_split : forall c1 c2 W rt a i data st,
  dump_bytes (c1 + c2) W rt a i data st =
  match dump_bytes c1 W rt a i data st with
  | Ok d st' => dump_bytes c2 W rt (a + Z.of_nat c1) (i + Z.of_nat c1) d st'
  | Panic st' => Panic st'
  end.
Proof.
  induction c1 as [|c1 IH]; intros c2 W rt a i data st.
  - cbn [plus dump_bytes Z.of_nat]. now rewrite !Z.add_0_r.
  - cbn [plus dump_bytes]. rewrite Nat2Z.inj_succ.
    replace (a + Z.succ (Z.of_nat c1)) with (a + 1 + Z.of_nat c1) by lia.
    replace (i + Z.succ (Z.of_nat c1)) with (i + 1 + Z.of_nat c1) by lia.
    destruct (seg_at rt a).
    + destruct (ea_read W rt a st) as [b st'|st']; [|reflexivity].
      destruct (i <? zlen data); [apply IH|reflexivity].
    + apply IH.
Qed.

(* one segment: the inner loop started at n with all its addresses in one block = the byte-wise loop *)
Lemma dump_inner_bytes : forall cnt fuel W rt sopt n a i e data st,
  (cnt <= fuel)%nat ->
  Z.of_nat cnt = Z.max 0 (Z.min (16 - n) (e - a + 1)) ->
  0 <= a -> a + Z.of_nat cnt <= 4294967295 ->
  (forall j, 0 <= j < Z.of_nat cnt -> seg_at rt (a + j) = sopt) ->
  dump_inner fuel W sopt n a i e data st =
  with_count (fun d => (a + Z.of_nat cnt, i + Z.of_nat cnt, d)) (dump_bytes cnt W rt a i data st).
Proof.
  induction cnt as [|c IH]; intros fuel W rt sopt n a i e data st Hfuel Hcnt Ha Hmax Hseg.
  - cbn [dump_bytes with_count Z.of_nat]. rewrite !Z.add_0_r.
    destruct fuel as [|f]; cbn [dump_inner]; [reflexivity|].
    destruct ((a <=? e) && (n <? 16)) eqn:E; [|reflexivity]. cbn [Z.of_nat] in Hcnt. lia.
  - destruct fuel as [|f]; [lia|]. cbn [dump_inner dump_bytes].
    rewrite Nat2Z.inj_succ in *.
    destruct ((a <=? e) && (n <? 16)) eqn:E; [|lia].
    assert (Hs0 : seg_at rt a = sopt) by (rewrite <- (Hseg 0) by lia; f_equal; lia).
    assert (Hu : u32 (a + 1) = a + 1) by (unfold u32; apply Z.mod_small; lia).
    rewrite Hu.
    replace (a + Z.succ (Z.of_nat c)) with (a + 1 + Z.of_nat c) by lia.
    replace (i + Z.succ (Z.of_nat c)) with (i + 1 + Z.of_nat c) by lia.
    assert (Hseg' : forall j, 0 <= j < Z.of_nat c -> seg_at rt (a + 1 + j) = sopt).
    { intros j Hj. replace (a + 1 + j) with (a + (j + 1)) by lia. apply Hseg. lia. }
    rewrite Hs0. destruct sopt as [m|].
    + unfold ea_read. rewrite Hs0.
      destruct (mem_read W m a st) as [b st'|st']; [|reflexivity].
      destruct (i <? zlen data); [|reflexivity].
      apply IH; try assumption; lia.
    + apply IH; try assumption; lia.
Qed.

(* all segments.  Invariant at the head of the k-loop: a <= end, k is a's block, and the inner counter
   starts at a's position inside the block (always so in the repaired code; in today's code only when a
   is aligned -- which it is from the second segment on) *)
Lemma dump_outer_bytes : forall fuel v W rt k a i e data st,
  0 <= a <= e -> e < ABITS -> k = a / 16 ->
  dump_n0 v a = a mod 16 ->
  e / 16 - k + 1 <= Z.of_nat fuel ->
  dump_outer fuel v W rt k (e / 16) a i e data st =
  with_count (fun d => (i + (e - a + 1), d)) (dump_bytes (Z.to_nat (e - a + 1)) W rt a i data st).
Proof.
  induction fuel as [|f IH]; intros v W rt k a i e data st Hae He Hk Hn0 Hfuel.
  - unfold ABITS in *. cbn [Z.of_nat] in Hfuel. lia.
  - unfold ABITS in *. cbn [dump_outer].
    destruct (k <=? e / 16) eqn:Ek; [|lia].
    set (cz := Z.min (16 - a mod 16) (e - a + 1)).
    assert (Hcz : 1 <= cz <= 16) by (unfold cz; lia).
    rewrite (dump_inner_bytes (Z.to_nat cz) 16 W rt (rt k) (dump_n0 v a) a i e data st).
    2:{ lia. }
    2:{ rewrite Hn0. fold cz. lia. }
    2:{ lia. }
    2:{ lia. }
    2:{ intros j Hj. unfold seg_at. rewrite shiftr4.
        assert (Hb : (a + j) / 16 = k) by (unfold cz in *; lia).
        rewrite Hb. unfold NSEG. destruct (k <? 1048576) eqn:E; [reflexivity|lia]. }
    replace (Z.to_nat (e - a + 1)) with (Z.to_nat cz + Z.to_nat (e - a + 1 - cz))%nat by (unfold cz in *; lia).
    rewrite dump_bytes_split. rewrite !Z2Nat.id by lia.
    destruct (dump_bytes (Z.to_nat cz) W rt a i data st) as [d st'|st']; cbn [with_count]; [|reflexivity].
    destruct (Z_le_gt_dec (a + cz) e) as [Hmore|Hdone].
    + (* the segment was copied to its end; a + cz is the first address of block k+1 *)
      assert (Hcz2 : cz = 16 - a mod 16) by (unfold cz; lia).
      rewrite (IH v W rt (k + 1) (a + cz) (i + cz) e d st').
      * replace (e - (a + cz) + 1) with (e - a + 1 - cz) by lia.
        destruct (dump_bytes _ W rt (a + cz) (i + cz) d st'); cbn [with_count]; [|reflexivity].
        f_equal. f_equal. lia.
      * lia.
      * unfold ABITS. lia.
      * lia.
      * replace ((a + cz) mod 16) with 0 by lia. destruct v; cbn [dump_n0]; [reflexivity|].
        rewrite land15. lia.
      * lia.
    + (* end reached inside this segment: it was the last one *)
      assert (Hz : e - a + 1 - cz = 0) by (unfold cz in *; lia).
      rewrite Hz. cbn [Z.to_nat dump_bytes with_count].
      assert (Hlast : k = e / 16) by (unfold cz in *; lia).
      destruct f as [|f']; cbn [dump_outer].
      * f_equal. f_equal. lia.
      * destruct (k + 1 <=? e / 16) eqn:E2; [lia|]. f_equal. f_equal. lia.
Qed.

(* EaDump = the byte-wise loop: for the repaired code whatever the alignment of start, for today's code
   when start is 16-byte aligned *)
Theorem ea_dump_bytewise : forall v W rt s e data st,
  0 <= s <= e -> e < ABITS ->
  (v = DumpRepaired \/ s mod 16 = 0) ->
  ea_dump v W rt s e data st =
  with_count (fun d => (e - s + 1, d)) (dump_bytes (Z.to_nat (e - s + 1)) W rt s 0 data st).
Proof.
  intros v W rt s e data st Hse He Hv. unfold ea_dump.
  rewrite !seg_mask by (unfold ABITS in *; lia).
  rewrite (dump_outer_bytes _ v W rt (s / 16) s 0 e data st); try assumption; try reflexivity.
  - destruct Hv as [Hv|Hv]; [subst v; cbn [dump_n0]; apply land15|].
    destruct v; cbn [dump_n0]; [lia|apply land15].
  - lia.
Qed.

Corollary ea_dump_repaired_bytewise : forall W rt s e data st,
  0 <= s <= e -> e < ABITS ->
  ea_dump DumpRepaired W rt s e data st =
  with_count (fun d => (e - s + 1, d)) (dump_bytes (Z.to_nat (e - s + 1)) W rt s 0 data st).
Proof. intros. apply ea_dump_bytewise; auto. Qed.

(* ================================================================== Part 7 *)
Lemma zlen_upd : forall l i b, 0 <= i < zlen l -> zlen (upd l i b) = zlen l.
Proof. intros. unfold upd. apply zlen_splice; [lia|]. change (zlen [b]) with 1. lia. Qed.
Lemma znth_upd_same : forall l i b, 0 <= i < zlen l -> znth (upd l i b) i = b.
Proof.
  intros. unfold upd. rewrite znth_splice_in; [|lia|lia|change (zlen [b]) with 1; lia].
  replace (i - i) with 0 by lia. reflexivity.
Qed.
Lemma znth_upd_other : forall l i b x, 0 <= i < zlen l -> x <> i -> znth (upd l i b) x = znth l x.
Proof. intros. unfold upd. apply znth_splice_out; [lia| |]; change (zlen [b]) with 1; lia. Qed.

Lemma peek_stores : forall W m a st1 st2, stores st1 = stores st2 -> peek W m a st1 = peek W m a st2.
Proof. intros W m a st1 st2 H. unfold peek, get_store. rewrite H. reflexivity. Qed.

(* a single EaRead of an attached address whose memory can serve it *)
Lemma ea_read_ok : forall W rt a st m b,
  seg_at rt a = Some m -> peek W m a st = Some b -> ea_read W rt a st = Ok b (log_ev st (m, 0, a, 0)).
Proof. intros W rt a st m b Hs Hp. unfold ea_read, mem_read. rewrite Hs, Hp. reflexivity. Qed.

(* the reads a dump of cnt addresses from a performs, in order *)
Fixpoint dump_events (rt : routing) (a : Z) (cnt : nat) : list event :=
  match cnt with
  | O => []
  | S c =>
      match seg_at rt a with
      | Some m => (m, 0, a, 0) :: dump_events rt (a + 1) c
      | None => dump_events rt (a + 1) c
      end
  end.

Definition read_value (W : world) (st : state) (m a : Z) : Z :=
  match peek W m a st with Some b => b | None => 0 end.

Lemma dump_bytes_values : forall cnt W rt a i data st,
  0 <= i -> i + Z.of_nat cnt <= zlen data ->
  (forall j m, 0 <= j < Z.of_nat cnt -> seg_at rt (a + j) = Some m -> peek W m (a + j) st <> None) ->
  exists d st',
    dump_bytes cnt W rt a i data st = Ok d st' /\
    zlen d = zlen data /\ stores st' = stores st /\
    log st' = rev (dump_events rt a cnt) ++ log st /\
    (forall j, 0 <= j < Z.of_nat cnt ->
       znth d (i + j) = match seg_at rt (a + j) with Some m => read_value W st m (a + j) | None => znth data (i + j) end) /\
    (forall x, x < i \/ i + Z.of_nat cnt <= x -> znth d x = znth data x).
Proof.
  induction cnt as [|c IH]; intros W rt a i data st Hi Hlen Hpk.
  - exists data, st. cbn [dump_bytes dump_events rev app Z.of_nat]. repeat split; try reflexivity. intros j Hj. lia.
  - rewrite Nat2Z.inj_succ in *. cbn [dump_bytes dump_events].
    assert (Ha0 : a + 0 = a) by lia.
    destruct (seg_at rt a) as [m|] eqn:Es.
    + assert (Hp : peek W m a st <> None) by (rewrite <- Ha0 at 1; apply Hpk; [lia|rewrite Ha0; exact Es]).
      destruct (peek W m a st) as [b|] eqn:Ep; [|congruence].
      rewrite (ea_read_ok W rt a st m b Es Ep).
      destruct (i <? zlen data) eqn:Ei; [|lia].
      set (st1 := log_ev st (m, 0, a, 0)).
      assert (Hst1 : stores st1 = stores st) by reflexivity.
      destruct (IH W rt (a + 1) (i + 1) (upd data i b) st1) as [d [st' [H1 [H2 [H3 [H4 [H5 H6]]]]]]].
      * lia.
      * rewrite zlen_upd by lia. lia.
      * intros j m' Hj Hsj. rewrite (peek_stores W m' _ st1 st Hst1).
        replace (a + 1 + j) with (a + (j + 1)) in * by lia. apply Hpk; [lia|exact Hsj].
      * exists d, st'. rewrite zlen_upd in H2 by lia.
        split; [exact H1|]. split; [exact H2|]. split; [rewrite H3; exact Hst1|].
        split. { rewrite H4. cbn [rev]. rewrite <- app_assoc. reflexivity. }
        split.
        -- intros j Hj. destruct (Z.eq_dec j 0) as [Hj0|Hj0].
           ++ subst j. rewrite !Z.add_0_r. rewrite Es. rewrite H6 by lia.
              rewrite znth_upd_same by lia. unfold read_value. rewrite Ep. reflexivity.
           ++ replace (i + j) with (i + 1 + (j - 1)) by lia. rewrite H5 by lia.
              replace (a + 1 + (j - 1)) with (a + j) by lia.
              destruct (seg_at rt (a + j)) as [m'|].
              ** unfold read_value. rewrite (peek_stores W m' _ st1 st Hst1). reflexivity.
              ** apply znth_upd_other; lia.
        -- intros x Hx. rewrite H6 by lia. apply znth_upd_other; lia.
    + destruct (IH W rt (a + 1) (i + 1) data st) as [d [st' [H1 [H2 [H3 [H4 [H5 H6]]]]]]].
      * lia.
      * lia.
      * intros j m' Hj Hsj. replace (a + 1 + j) with (a + (j + 1)) in * by lia. apply Hpk; [lia|exact Hsj].
      * exists d, st'. split; [exact H1|]. split; [exact H2|]. split; [exact H3|]. split; [exact H4|]. split.
        -- intros j Hj. destruct (Z.eq_dec j 0) as [Hj0|Hj0].
           ++ subst j. rewrite !Z.add_0_r. rewrite Es. apply H6. lia.
           ++ replace (i + j) with (i + 1 + (j - 1)) by lia. rewrite H5 by lia.
              replace (a + 1 + (j - 1)) with (a + j) by lia. reflexivity.
        -- intros x Hx. apply H6. lia.
Qed.

(* EaDump in terms of values.  Hypotheses: the interpretation (start <= end < 2^24, data long enough) and
   "every attached address in the range can be read" (its memory does not panic on it).
   Conclusion: returns end-start+1; position i holds exactly the byte a single EaRead(start+i) returns
   when start+i is attached and is untouched otherwise; nothing beyond the range is touched; the memories
   receive exactly the attached addresses of the range, each once, in ascending order, unmodified. *)
Theorem ea_dump_values : forall v W rt s e data st,
  0 <= s <= e -> e < ABITS ->
  (v = DumpRepaired \/ s mod 16 = 0) ->
  e - s + 1 <= zlen data ->
  (forall a m, s <= a <= e -> seg_at rt a = Some m -> peek W m a st <> None) ->
  exists d st',
    ea_dump v W rt s e data st = Ok (e - s + 1, d) st' /\
    zlen d = zlen data /\
    (forall i, 0 <= i < e - s + 1 ->
       match seg_at rt (s + i) with
       | Some m => ea_read W rt (s + i) st = Ok (znth d i) (log_ev st (m, 0, s + i, 0))
       | None => znth d i = znth data i
       end) /\
    (forall i, e - s + 1 <= i -> znth d i = znth data i) /\
    stores st' = stores st /\
    log st' = rev (dump_events rt s (Z.to_nat (e - s + 1))) ++ log st.
Proof.
  intros v W rt s e data st Hse He Hv Hlen Hpk.
  rewrite ea_dump_bytewise by assumption.
  destruct (dump_bytes_values (Z.to_nat (e - s + 1)) W rt s 0 data st) as [d [st' [H1 [H2 [H3 [H4 [H5 H6]]]]]]].
  - lia.
  - rewrite Z2Nat.id by lia. lia.
  - intros j m Hj Hs. rewrite Z2Nat.id in Hj by lia. apply Hpk; [lia|exact Hs].
  - rewrite Z2Nat.id in * by lia. exists d, st'. rewrite H1. cbn [with_count].
    split; [reflexivity|]. split; [exact H2|]. split.
    { intros i Hi. specialize (H5 i Hi). rewrite Z.add_0_l in H5.
      destruct (seg_at rt (s + i)) as [m|] eqn:Es; [|exact H5].
      assert (Hp : peek W m (s + i) st <> None) by (apply Hpk; [lia|exact Es]).
      unfold read_value in H5. destruct (peek W m (s + i) st) as [b|] eqn:Ep; [|congruence].
      rewrite H5. apply ea_read_ok; assumption. }
    split; [intros i Hi; apply H6; lia|]. split; [exact H3|exact H4].
Qed.

(* the whole of C13's EaDump clause for the repaired loop, after any history of Attach calls:
   [last_cover h] decides which memory serves which position *)
Theorem C13_dump_after_history : forall W h s e data st,
  Forall call_wf h ->
  0 <= s <= e -> e < ABITS -> e - s + 1 <= zlen data ->
  (forall a m, s <= a <= e -> last_cover h a = Some m -> peek W m a st <> None) ->
  exists d st',
    ea_dump DumpRepaired W (run_calls empty_rt h) s e data st = Ok (e - s + 1, d) st' /\
    zlen d = zlen data /\
    (forall i, 0 <= i < e - s + 1 ->
       match last_cover h (s + i) with
       | Some m => mem_read W m (s + i) st = Ok (znth d i) (log_ev st (m, 0, s + i, 0))
       | None => znth d i = znth data i
       end) /\
    (forall i, e - s + 1 <= i -> znth d i = znth data i) /\
    stores st' = stores st.
Proof.
  intros W h s e data st Hwf Hse He Hlen Hpk.
  destruct (ea_dump_values DumpRepaired W (run_calls empty_rt h) s e data st) as [d [st' [H1 [H2 [H3 [H4 [H5 _]]]]]]];
    try assumption; [left; reflexivity| |].
  - intros a m Ha Hs. rewrite route_history in Hs by (try assumption; unfold ABITS in *; lia). apply Hpk; assumption.
  - exists d, st'. split; [exact H1|]. split; [exact H2|]. split; [|split; assumption].
    intros i Hi. specialize (H3 i Hi).
    assert (Hr : 0 <= s + i < ABITS) by (unfold ABITS in *; lia).
    rewrite route_history in H3 by assumption.
    destruct (last_cover h (s + i)) as [m|] eqn:El; [|exact H3].
    rewrite ea_read_after_history in H3 by assumption. rewrite El in H3. exact H3.
Qed.

(* ================================================================== Part 8 *)
(* two 16-byte RAMs, memory 1 at $00-$0F holding 100.., memory 2 at $10-$1F holding 200.. *)
Definition w2_world : world := world_of [(1, KRam 0); (2, KRam 16)].
Definition w2_state : state := mkState [] [(1, ziota 100 16); (2, ziota 200 16)].
Definition w2_hist : list call := [mkCall 1 0 15; mkCall 2 16 31].
Definition w2_rt : routing := run_calls empty_rt w2_hist.
Definition sentinel (n : nat) : list Z := repeat 170 n.

(* today's loop, EaDump(8, 23): memory 1 is handed the addresses 16.. that belong to memory 2, and the
   call dies in memory 1's slice index -- although every single EaRead of 8..23 succeeds *)
Theorem C13_dump_refuted :
  (forall a, 8 <= a <= 23 -> exists b st1, ea_read w2_world w2_rt a w2_state = Ok b st1) /\
  exists st', ea_dump DumpCurrent w2_world w2_rt 8 23 (sentinel 16) w2_state = Panic st' /\
              hd (0, 0, 0, 0) (log st') = (1, 0, 16, 0) /\ last_cover w2_hist 16 = Some 2.
Proof.
  split.
  - intros a Ha.
    assert (H : a = 8 \/ a = 9 \/ a = 10 \/ a = 11 \/ a = 12 \/ a = 13 \/ a = 14 \/ a = 15 \/ a = 16 \/ a = 17 \/
                a = 18 \/ a = 19 \/ a = 20 \/ a = 21 \/ a = 22 \/ a = 23) by lia.
    repeat (destruct H as [H|H]; [subst a; vm_compute; eauto|]). subst a; vm_compute; eauto.
  - eexists. split; [vm_compute; reflexivity|]. split; vm_compute; reflexivity.
Qed.

(* the same call with the repaired loop *)
Example C13_dump_repaired_witness :
  exists st', ea_dump DumpRepaired w2_world w2_rt 8 23 (sentinel 16) w2_state =
              Ok (16, [108; 109; 110; 111; 112; 113; 114; 115; 200; 201; 202; 203; 204; 205; 206; 207]) st'.
Proof. eexists. vm_compute. reflexivity. Qed.

(* silent form of the same defect (memories that answer any address): the count is right, but positions
   8..15 were read through memory 1 although the addresses 16..23 belong to memory 2 *)
Example C13_dump_refuted_silent :
  let rt := w2_rt in let W := world_of [] in
  exists d st', ea_dump DumpCurrent W rt 8 23 (sentinel 16) (mkState [] []) = Ok (16, d) st' /\
                znth d 8 = rec_val 1 16 /\ rec_val 1 16 <> rec_val 2 16 /\
                exists st1, ea_read W rt 16 (mkState [] []) = Ok (rec_val 2 16) st1.
Proof. do 2 eexists. split; [vm_compute; reflexivity|]. split; [reflexivity|]. split; [vm_compute; discriminate|]. eexists. vm_compute. reflexivity. Qed.

(* non-vacuity: a history with an overlap, a re-attach, a misaligned call and a hole *)
Definition ex_hist : list call :=
  [mkCall 1 0 63; mkCall 2 16 31; mkCall 3 17 47; mkCall 4 32 46; mkCall 1 16 31; mkCall 5 96 127].
Example ex_hist_wf : Forall call_wf ex_hist.
Proof. repeat constructor; unfold in_u32; cbn; lia. Qed.
Example ex_hist_routes :
  map (last_cover ex_hist) [0; 15; 16; 31; 32; 47; 63; 64; 95; 96; 127; 128] =
  [Some 1; Some 1; Some 1; Some 1; Some 1; Some 1; Some 1; None; None; Some 5; Some 5; None] /\
  map (seg_at (run_calls empty_rt ex_hist)) [0; 15; 16; 31; 32; 47; 63; 64; 95; 96; 127; 128] =
  map (last_cover ex_hist) [0; 15; 16; 31; 32; 47; 63; 64; 95; 96; 127; 128] /\
  map alignedb ex_hist = [true; true; false; false; true; true] /\
  last_cover [mkCall 1 0 63; mkCall 2 16 31] 20 = Some 2.
Proof. vm_compute. repeat split; reflexivity. Qed.
(* the hypotheses of C13_dump_after_history are satisfiable across a boundary and a hole *)
Example ex_dump_hyps :
  let h := [mkCall 1 0 15; mkCall 2 32 47] in
  let W := world_of [(1, KRam 0); (2, KRam 32)] in
  let st := mkState [] [(1, ziota 100 16); (2, ziota 200 16)] in
  forallb (fun a => match last_cover h a with
                    | Some m => match peek W m a st with Some _ => true | None => false end
                    | None => true
                    end) (ziota 5 36) = true /\
  exists st', ea_dump DumpRepaired W (run_calls empty_rt h) 5 40 (sentinel 36) st =
    Ok (36, ziota 105 11 ++ sentinel 16 ++ ziota 200 9) st'.
Proof. cbv zeta. split; [vm_compute; reflexivity|]. eexists. vm_compute. reflexivity. Qed.
(* an Attach that runs past the table panics; one that ends at the table's end does not *)
Example ex_attach_panics :
  call_panics (mkCall 1 16777200 16777231) = true /\ call_panics (mkCall 1 16777200 16777215) = false /\
  alignedb (mkCall 1 0 4294967295) = true /\ call_panics (mkCall 1 32 15) = false.
Proof. vm_compute. repeat split; reflexivity. Qed.

(* ================================================================== Part 9 *)
(* EaRead24_wrap (the third read path of the bus: 24-bit pointers and operands of the primary CPU).
   [r24_addr a k] is the address of byte k: same bank byte, offset + k in 16 bits. *)

(* fails loudly, and BEFORE any memory is touched (the state is the one it was given), as soon as one of
   its three addresses was never attached *)
Theorem read24_unattached_loud : forall W rt a st,
  seg_at rt (r24_addr a 0) = None \/ seg_at rt (r24_addr a 1) = None \/ seg_at rt (r24_addr a 2) = None ->
  ea_read24_wrap W rt a st = Panic st.
Proof.
  intros W rt a st H. unfold ea_read24_wrap. cbv zeta.
  destruct (seg_at rt (r24_addr a 0)) as [m0|]; [|reflexivity].
  destruct (seg_at rt (r24_addr a 1)) as [m1|]; [|reflexivity].
  destruct (seg_at rt (r24_addr a 2)) as [m2|]; [|reflexivity].
  destruct H as [H|[H|H]]; discriminate H.
Qed.

(* otherwise it is exactly three single EaReads, in the order low, middle, high, little-endian *)
Theorem read24_three_reads : forall W rt a st ll mm hh s0 s1 s2,
  ea_read W rt (r24_addr a 0) st = Ok ll s0 ->
  ea_read W rt (r24_addr a 1) s0 = Ok mm s1 ->
  ea_read W rt (r24_addr a 2) s1 = Ok hh s2 ->
  ea_read24_wrap W rt a st = Ok (Z.lor (Z.lor (Z.shiftl hh 16) (Z.shiftl mm 8)) ll) s2.
Proof.
  intros W rt a st ll mm hh s0 s1 s2 H0 H1 H2. unfold ea_read24_wrap, ea_read in *. cbv zeta.
  destruct (seg_at rt (r24_addr a 0)) as [m0|]; [|discriminate H0].
  destruct (seg_at rt (r24_addr a 1)) as [m1|]; [|discriminate H1].
  destruct (seg_at rt (r24_addr a 2)) as [m2|]; [|discriminate H2].
  rewrite H0; cbv beta iota. rewrite H1; cbv beta iota. rewrite H2; cbv beta iota. reflexivity.
Qed.

(* conversely a successful 24-bit read decomposes into three successful single reads *)
Theorem read24_ok_inv : forall W rt a st v s2,
  ea_read24_wrap W rt a st = Ok v s2 ->
  exists ll mm hh s0 s1,
    ea_read W rt (r24_addr a 0) st = Ok ll s0 /\
    ea_read W rt (r24_addr a 1) s0 = Ok mm s1 /\
    ea_read W rt (r24_addr a 2) s1 = Ok hh s2 /\
    v = Z.lor (Z.lor (Z.shiftl hh 16) (Z.shiftl mm 8)) ll.
Proof.
  intros W rt a st v s2 H. unfold ea_read24_wrap, ea_read in *. cbv zeta in H.
  destruct (seg_at rt (r24_addr a 0)) as [m0|]; [|discriminate H].
  destruct (seg_at rt (r24_addr a 1)) as [m1|]; [|discriminate H].
  destruct (seg_at rt (r24_addr a 2)) as [m2|]; [|discriminate H].
  destruct (mem_read W m0 (r24_addr a 0) st) as [ll s0|s0] eqn:E0; [|discriminate H].
  destruct (mem_read W m1 (r24_addr a 1) s0) as [mm s1|s1] eqn:E1; [|discriminate H].
  destruct (mem_read W m2 (r24_addr a 2) s1) as [hh s2'|s2'] eqn:E2; [|discriminate H].
  inversion H; subst. exists ll, mm, hh, s0, s1. repeat split; (reflexivity || assumption).
Qed.

(* the offset wraps inside the bank: the byte after $7E:FFFF is $7E:0000, not $7F:0000 *)
Example read24_wraps_in_bank :
  map (r24_addr 8454143) [0; 1; 2] = [8454143; 8388608; 8388609] /\
  map (r24_addr 16777214) [0; 1; 2] = [16777214; 16777215; 16711680].
Proof. vm_compute. split; reflexivity. Qed.
(* non-vacuity: a read straddling two memories and the bank end; a read into a hole fails with nothing logged *)
Example read24_example :
  let W := world_of [] in
  let rt := run_calls empty_rt [mkCall 1 8454128 8454143; mkCall 2 8388608 8388623] in
  (exists st', ea_read24_wrap W rt 8454143 (mkState [] []) =
     Ok (Z.lor (Z.lor (Z.shiftl (rec_val 2 8388609) 16) (Z.shiftl (rec_val 2 8388608) 8)) (rec_val 1 8454143)) st' /\
     rev (log st') = [(1, 0, 8454143, 0); (2, 0, 8388608, 0); (2, 0, 8388609, 0)]) /\
  ea_read24_wrap W rt 8388622 (mkState [] []) = Panic (mkState [] []).
Proof. cbv zeta. split; [eexists; split; vm_compute; reflexivity|vm_compute; reflexivity]. Qed.

(* arithmetic of the three addresses: same bank, offset + k modulo 2^16; they stay below 2^24 *)
Lemma lor_hi_lo : forall h l, 0 <= l < 65536 -> Z.lor (Z.shiftl h 16) l = h * 65536 + l.
Proof.
  intros h l Hl. rewrite Z.shiftl_mul_pow2 by lia. change (2 ^ 16) with 65536.
  assert (Hz : Z.land (h * 65536) l = 0); [|rewrite <- (Z.lxor_lor _ _ Hz); symmetry; apply Z.add_nocarry_lxor; exact Hz].
  apply Z.bits_inj'. intros n Hn. rewrite Z.land_spec, Z.bits_0.
  destruct (Z.ltb_spec n 16) as [Hlt|Hge].
  - change 65536 with (2 ^ 16). rewrite Z.mul_pow2_bits_low by lia. reflexivity.
  - replace l with (l mod 2 ^ 16) by (change (2 ^ 16) with 65536; apply Z.mod_small; lia).
    rewrite Z.mod_pow2_bits_high by lia. apply andb_false_r.
Qed.

Theorem r24_addr_arith : forall a k, 0 <= a < ABITS ->
  r24_addr a k = (a / 65536) * 65536 + (a mod 65536 + k) mod 65536.
Proof.
  intros a k Ha. unfold ABITS in Ha. unfold r24_addr.
  rewrite lor_hi_lo by (apply Z.mod_pos_bound; lia).
  rewrite Z.shiftr_div_pow2 by lia. change (2 ^ 16) with 65536.
  replace 255 with (Z.ones 8) by reflexivity. rewrite Z.land_ones by lia. change (2 ^ 8) with 256.
  replace 65535 with (Z.ones 16) by reflexivity. rewrite Z.land_ones by lia. change (2 ^ 16) with 65536.
  rewrite (Z.mod_small (a / 65536) 256) by lia. reflexivity.
Qed.

Theorem r24_addr_range : forall a k, 0 <= a < ABITS -> 0 <= r24_addr a k < ABITS.
Proof. intros a k Ha. rewrite r24_addr_arith by assumption. unfold ABITS in *. lia. Qed.

Theorem r24_addr_same_bank : forall a k, 0 <= a < ABITS -> r24_addr a k / 65536 = a / 65536.
Proof. intros a k Ha. rewrite r24_addr_arith by assumption. unfold ABITS in *. lia. Qed.

Theorem r24_addr_0 : forall a, 0 <= a < ABITS -> r24_addr a 0 = a.
Proof. intros a Ha. rewrite r24_addr_arith by assumption. unfold ABITS in *. lia. Qed.

(* after any history of Attach calls: the three bytes come from the memories last attached over the three
   in-bank addresses, each receiving its full address; any of them never attached: loud failure, nothing touched *)
Theorem read24_after_history : forall W h a st,
  Forall call_wf h -> 0 <= a < ABITS ->
  ea_read24_wrap W (run_calls empty_rt h) a st =
  match last_cover h (r24_addr a 0), last_cover h (r24_addr a 1), last_cover h (r24_addr a 2) with
  | Some m0, Some m1, Some m2 =>
      match mem_read W m0 (r24_addr a 0) st with
      | Panic s0 => Panic s0
      | Ok ll s0 =>
          match mem_read W m1 (r24_addr a 1) s0 with
          | Panic s1 => Panic s1
          | Ok mm s1 =>
              match mem_read W m2 (r24_addr a 2) s1 with
              | Panic s2 => Panic s2
              | Ok hh s2 => Ok (Z.lor (Z.lor (Z.shiftl hh 16) (Z.shiftl mm 8)) ll) s2
              end
          end
      end
  | _, _, _ => Panic st
  end.
Proof.
  intros W h a st Hwf Ha. unfold ea_read24_wrap. cbv zeta.
  rewrite !route_history by (try assumption; apply r24_addr_range; assumption). reflexivity.
Qed.

(* ================================================================== Part 10 *)
(* a write changes exactly one byte of exactly one RAM slice: "a write at an address goes to the memory most
   recently attached over that address" seen through later reads *)
Lemma get_set_assoc_same : forall l id d, get_assoc (set_assoc l id d) id = d.
Proof.
  induction l as [|[i d0] r IH]; intros id d; cbn [set_assoc get_assoc].
  - rewrite Z.eqb_refl. reflexivity.
  - destruct (id =? i) eqn:E; cbn [get_assoc]; rewrite E; [reflexivity|apply IH].
Qed.
Lemma get_set_assoc_other : forall l id id' d, id' <> id -> get_assoc (set_assoc l id d) id' = get_assoc l id'.
Proof.
  induction l as [|[i d0] r IH]; intros id id' d Hne; cbn [set_assoc get_assoc].
  - destruct (id' =? id) eqn:E; [apply Z.eqb_eq in E; contradiction|reflexivity].
  - destruct (id =? i) eqn:E; cbn [get_assoc].
    + apply Z.eqb_eq in E. subst i. destruct (id' =? id) eqn:E'; [apply Z.eqb_eq in E'; contradiction|reflexivity].
    + destruct (id' =? i); [reflexivity|apply IH; assumption].
Qed.

(* a successful EaWrite to a RAM, then EaRead of the same address: the byte written *)
Theorem ea_write_then_read : forall W rt a v st st' m off,
  seg_at rt a = Some m -> W m = KRam off ->
  ea_write W rt a v st = Ok tt st' ->
  exists st'', ea_read W rt a st' = Ok v st''.
Proof.
  intros W rt a v st st' m off Hs HW Hw. unfold ea_write, ea_read in *. rewrite Hs in *.
  unfold mem_write in Hw. rewrite HW in Hw.
  destruct (u32 (a - off) <? zlen (get_store st m)) eqn:Eix; [|discriminate Hw].
  inversion Hw; subst st'; clear Hw.
  unfold mem_read, peek. rewrite HW. unfold get_store, set_store, log_ev. cbn [stores log].
  rewrite get_set_assoc_same.
  assert (Hix : 0 <= u32 (a - off) < zlen (get_assoc (stores st) m)).
  { unfold get_store in Eix. split; [unfold u32; apply Z.mod_pos_bound; lia|apply Z.ltb_lt; exact Eix]. }
  rewrite zlen_upd by exact Hix.
  destruct (u32 (a - off) <? zlen (get_assoc (stores st) m)) eqn:E2; [|apply Z.ltb_ge in E2; lia].
  rewrite znth_upd_same by exact Hix. eexists. reflexivity.
Qed.

(* ... and what any memory would answer at any OTHER cell is what it answered before the write *)
Theorem ea_write_frame : forall W rt a v st st' m off m' a',
  seg_at rt a = Some m -> W m = KRam off ->
  ea_write W rt a v st = Ok tt st' ->
  (m' <> m \/ forall off', W m' = KRam off' \/ W m' = KRom off' -> u32 (a' - off') <> u32 (a - off)) ->
  peek W m' a' st' = peek W m' a' st.
Proof.
  intros W rt a v st st' m off m' a' Hs HW Hw Hne. unfold ea_write in Hw. rewrite Hs in Hw.
  unfold mem_write in Hw. rewrite HW in Hw.
  destruct (u32 (a - off) <? zlen (get_store st m)) eqn:Eix; [|discriminate Hw].
  inversion Hw; subst st'; clear Hw.
  assert (Hix : 0 <= u32 (a - off) < zlen (get_assoc (stores st) m)).
  { unfold get_store in Eix. split; [unfold u32; apply Z.mod_pos_bound; lia|apply Z.ltb_lt; exact Eix]. }
  unfold peek. destruct (W m') as [|off'|off'] eqn:HW'; [reflexivity| |];
    unfold get_store, set_store, log_ev; cbn [stores log];
    (destruct (Z.eq_dec m' m) as [Heq|Hneq];
     [subst m'; rewrite get_set_assoc_same; rewrite zlen_upd by exact Hix;
      destruct (u32 (a' - off') <? zlen (get_assoc (stores st) m)) eqn:E3; [|reflexivity];
      rewrite znth_upd_other; [reflexivity|exact Hix|];
      destruct Hne as [Hc|Hc]; [contradiction|apply (Hc off'); auto]
     |rewrite get_set_assoc_other by exact Hneq; reflexivity]).
Qed.
