(* C01: the generated model of the primary interpreter refines Spec816.step through abs.

   Proof target: coq/Snapshot/GenCpu65.v, a committed copy of the model that /verif/gen produces from
   emulator/cpu65c816/cpu.go + emulator/bus/bus.go.  On every run the check (a) compares the
   regenerated file with the snapshot function by function and (b) replays these very proof files
   against the regenerated model (From Gen instead of From Snapshot).

   snapshot_dep: Step, cmdRead, cmdRead16, nRead16_wrap, compare8, compare16, op_and, op_bit, op_cmp, op_cpx, op_cpy, op_eor, op_lda, op_ldx, op_ldy, op_ora, addBranchCycles, pagesDiffer, op_bpl, op_bmi, op_bvc, op_bvs, op_bra, op_bcc, op_bcs, op_bne, op_beq, nRead, EaRead, op_inc, op_dec, op_asl, op_lsr, op_rol, op_ror, tbl_mode, tbl_size, tbl_proc, setZN8, setZ8, setN8, setZN16, setZ16, setN16, op_clc, op_cld, op_cli, op_clv, op_dex, op_dey, op_inx, op_iny, op_nop, op_sec, op_sed, op_sei, op_stp, op_tax, op_tay, op_tcd, op_tcs, op_tdc, op_tsc, op_tsx, op_txa, op_txs, op_txy, op_tya, op_tyx, op_wai, op_xba

   Full statement (the goal of the build; kept visible):

     Theorem C01_step : forall s, wf s -> get f_E s = 0 -> no_int s ->
                        Spec816.bcd_defined (abs s) (mem s) = true ->
                        refines_step s (Step s).      (* abs equality up to V after decimal ADC/SBC *)
     Theorem C01_run  : the same along n steps while E stays 0 (induction on n, using the wf conclusion).

   Proved here: C01_step_partial = the statement of C01_step for the opcodes of [proved_opcodes]
   (register-only implied-mode and accumulator-mode instructions the nine rel8 branches and ten immediate-operand instructions so far), grown family by family.  What is missing: every
   opcode not in the list (all addressing modes that touch memory, stack, flow, block moves, width
   switches): they are covered by the differential run of checks/cpuspec.py only. *)
From Coq Require Import ZArith NArith List Bool Lia.
From Spec Require Import ISA Spec816.
From Lib Require Import ZOps Machine.
From Snapshot Require Import GenFields GenCpu65.
From Props Require Import C01Base C01Shift C01OpsA C01OpsB C01OpsC C01OpsD C01OpsE C01OpsF C01OpsG C01OpsH C01Flow C01Imm C01OpsI C01OpsJ C01OpsK.
Import ListNotations.
Local Open Scope Z_scope.

Definition proved_opcodes : list Z := [24; 56; 88; 120; 184; 216; 248; 234; 203; 219; 232; 200; 202; 136; 155; 187; 186; 154; 170; 168; 138; 152; 27; 59; 91; 123; 235; 26; 58; 10; 74; 42; 106; 16; 48; 80; 112; 128; 144; 176; 208; 240; 169; 162; 160; 137; 41; 9; 73; 201; 224; 192].

Definition C01_step_partial_statement : Prop :=
  forall op, In op proved_opcodes ->
  forall s, wf s -> get f_E s = 0 -> no_int s -> opcode_at s = op -> refines_step s (Step s).

Theorem C01_step_partial : C01_step_partial_statement.
Proof.
  intros op Hin. cbv [proved_opcodes In] in Hin.
  repeat (destruct Hin as [<- | Hin]; [
      first [
      exact ref_18 |
      exact ref_38 |
      exact ref_58 |
      exact ref_78 |
      exact ref_B8 |
      exact ref_D8 |
      exact ref_F8 |
      exact ref_EA |
      exact ref_CB |
      exact ref_DB |
      exact ref_E8 |
      exact ref_C8 |
      exact ref_CA |
      exact ref_88 |
      exact ref_9B |
      exact ref_BB |
      exact ref_BA |
      exact ref_9A |
      exact ref_AA |
      exact ref_A8 |
      exact ref_8A |
      exact ref_98 |
      exact ref_1B |
      exact ref_3B |
      exact ref_5B |
      exact ref_7B |
      exact ref_EB |
      exact ref_1A |
      exact ref_3A |
      exact ref_0A |
      exact ref_4A |
      exact ref_2A |
      exact ref_6A |
      exact ref_10 |
      exact ref_30 |
      exact ref_50 |
      exact ref_70 |
      exact ref_80 |
      exact ref_90 |
      exact ref_B0 |
      exact ref_D0 |
      exact ref_F0 |
      exact ref_A9 |
      exact ref_A2 |
      exact ref_A0 |
      exact ref_89 |
      exact ref_29 |
      exact ref_09 |
      exact ref_49 |
      exact ref_C9 |
      exact ref_E0 |
      exact ref_C0 ] | ]).
  contradiction.
Qed.

(* non-vacuity: a non-trivial native-mode state satisfying the hypotheses for CLC ($18) *)
Definition ex_state : st :=
  mkst (fun f => if N.eqb f f_PC then 32768 else if N.eqb f f_SP then 511 else if N.eqb f f_M then 1
                 else if N.eqb f f_X then 1 else if N.eqb f f_Interrupt then 1 else if N.eqb f f_C then 1
                 else if N.eqb f f_RA then 4660 else 0)
       (fun a => if a =? 32768 then 24 else 0) [] (fun _ => false) false.
Example C01_hypotheses_satisfiable :
  wf ex_state /\ get f_E ex_state = 0 /\ no_int ex_state /\ In (opcode_at ex_state) proved_opcodes.
Proof.
  split; [| split; [| split]].
  - constructor; unfold flag01; cbv;
      first [ (split; [ discriminate | reflexivity ]) | (left; reflexivity) | (right; reflexivity) ].
  - reflexivity.
  - split; vm_compute; discriminate.
  - vm_compute. left. reflexivity.
Qed.
Example C01_example_effect : (* CLC on that state clears C and advances PC *)
  match Step ex_state with Ok _ s' => (get f_C s', get f_PC s') = (0, 32769) | Panic => False end.
Proof. vm_compute. reflexivity. Qed.
