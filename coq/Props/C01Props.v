(* C01: the generated model of the primary interpreter refines Spec816.step through abs.

   Proof target: coq/Snapshot/GenCpu65.v, a committed copy of the model that /verif/gen produces from
   emulator/cpu65c816/cpu.go + emulator/bus/bus.go.  On every run the check (a) compares the
   regenerated file with the snapshot function by function and (b) replays these very proof files
   against the regenerated model (From Gen instead of From Snapshot).

   snapshot_dep: Step, cmdRead, cmdRead16, nRead16_wrap, compare8, compare16, op_and, op_bit, op_cmp, op_cpx, op_cpy, op_eor, op_lda, op_ldx, op_ldy, op_ora, addBranchCycles, pagesDiffer, op_bpl, op_bmi, op_bvc, op_bvs, op_bra, op_bcc, op_bcs, op_bne, op_beq, nRead, EaRead, op_inc, op_dec, op_asl, op_lsr, op_rol, op_ror, tbl_mode, tbl_size, tbl_proc, setZN8, setZ8, setN8, setZN16, setZ16, setN16, op_clc, op_cld, op_cli, op_clv, op_dex, op_dey, op_inx, op_iny, op_nop, op_sec, op_sed, op_sei, op_stp, op_tax, op_tay, op_tcd, op_tcs, op_tdc, op_tsc, op_tsx, op_txa, op_txs, op_txy, op_tya, op_tyx, op_wai, op_xba

   Full statement (the goal of the build; kept visible):

     Theorem C01_step : forall s, wf s -> get f_E s = 0 -> no_int s ->
                        Spec816.bcd_defined (abs s) (mem s) = true ->
                        refines_step s (Step s).      (* abs equality up to V after decimal ADC/SBC *)
     Theorem C01_run  : the same along n steps while E stays 0 (induction on n, using the wf conclusion).

   Proved here: C01_step_partial = the statement of C01_step for the opcodes of [proved_opcodes]
   (register-only implied-mode and accumulator-mode instructions the nine rel8 branches and ten immediate-operand instructions so far), grown family by family.  What is missing: every
   opcode not in the list (all addressing modes that touch memory, stack, flow, block moves, width
   switches): they are covered by the differential run of checks/cpuspec.py only. *)
From Coq Require Import ZArith NArith List Bool Lia.
From Spec Require Import ISA Spec816.
From Lib Require Import ZOps Machine.
From Snapshot Require Import GenFields GenCpu65.
From Props Require Import C01Base C01Flow C01MemRefs C01OpsA C01OpsB C01OpsC C01OpsD C01OpsE C01OpsF C01OpsG C01OpsH C01OpsI C01OpsJ C01OpsK C01Shift C01StkFlags C01StkPull C01StkPush.
Import ListNotations.
Local Open Scope Z_scope.

Definition proved_opcodes : list Z := [1; 3; 4; 5; 6; 7; 8; 9; 10; 11; 12; 13; 14; 15; 16; 17; 18; 19; 20; 21; 22; 23; 24; 25; 26; 27; 28; 29; 30; 31; 33; 35; 36; 37; 38; 39; 40; 41; 42; 43; 44; 45; 46; 47; 48; 49; 50; 51; 52; 53; 54; 55; 56; 57; 58; 59; 60; 61; 62; 63; 65; 67; 69; 70; 71; 72; 73; 74; 75; 77; 78; 79; 80; 81; 82; 83; 85; 86; 87; 88; 89; 90; 91; 93; 94; 95; 98; 100; 102; 104; 106; 110; 112; 116; 118; 120; 122; 123; 126; 128; 129; 131; 132; 133; 134; 135; 136; 137; 138; 139; 140; 141; 142; 143; 144; 145; 146; 147; 148; 149; 150; 151; 152; 153; 154; 155; 156; 157; 158; 159; 160; 161; 162; 163; 164; 165; 166; 167; 168; 169; 170; 171; 172; 173; 174; 175; 176; 177; 178; 179; 180; 181; 182; 183; 184; 185; 186; 187; 188; 189; 190; 191; 192; 193; 194; 195; 196; 197; 198; 199; 200; 201; 202; 203; 204; 205; 206; 207; 208; 209; 210; 211; 212; 213; 214; 215; 216; 217; 218; 219; 221; 222; 223; 224; 226; 228; 230; 232; 234; 235; 236; 238; 240; 244; 246; 248; 250; 251; 254].

Definition C01_step_partial_statement : Prop :=
  forall op, In op proved_opcodes ->
  forall s, wf s -> get f_E s = 0 -> no_int s -> opcode_at s = op -> refines_step s (Step s).

Theorem C01_step_partial : C01_step_partial_statement.
Proof.
  intros op Hin. cbv [proved_opcodes In] in Hin.
  repeat (destruct Hin as [<- | Hin]; [
      first [
      exact ref_01 |
      exact ref_03 |
      exact ref_04 |
      exact ref_05 |
      exact ref_06 |
      exact ref_07 |
      exact ref_08 |
      exact ref_09 |
      exact ref_0A |
      exact ref_0B |
      exact ref_0C |
      exact ref_0D |
      exact ref_0E |
      exact ref_0F |
      exact ref_10 |
      exact ref_11 |
      exact ref_12 |
      exact ref_13 |
      exact ref_14 |
      exact ref_15 |
      exact ref_16 |
      exact ref_17 |
      exact ref_18 |
      exact ref_19 |
      exact ref_1A |
      exact ref_1B |
      exact ref_1C |
      exact ref_1D |
      exact ref_1E |
      exact ref_1F |
      exact ref_21 |
      exact ref_23 |
      exact ref_24 |
      exact ref_25 |
      exact ref_26 |
      exact ref_27 |
      exact ref_28 |
      exact ref_29 |
      exact ref_2A |
      exact ref_2B |
      exact ref_2C |
      exact ref_2D |
      exact ref_2E |
      exact ref_2F |
      exact ref_30 |
      exact ref_31 |
      exact ref_32 |
      exact ref_33 |
      exact ref_34 |
      exact ref_35 |
      exact ref_36 |
      exact ref_37 |
      exact ref_38 |
      exact ref_39 |
      exact ref_3A |
      exact ref_3B |
      exact ref_3C |
      exact ref_3D |
      exact ref_3E |
      exact ref_3F |
      exact ref_41 |
      exact ref_43 |
      exact ref_45 |
      exact ref_46 |
      exact ref_47 |
      exact ref_48 |
      exact ref_49 |
      exact ref_4A |
      exact ref_4B |
      exact ref_4D |
      exact ref_4E |
      exact ref_4F |
      exact ref_50 |
      exact ref_51 |
      exact ref_52 |
      exact ref_53 |
      exact ref_55 |
      exact ref_56 |
      exact ref_57 |
      exact ref_58 |
      exact ref_59 |
      exact ref_5A |
      exact ref_5B |
      exact ref_5D |
      exact ref_5E |
      exact ref_5F |
      exact ref_62 |
      exact ref_64 |
      exact ref_66 |
      exact ref_68 |
      exact ref_6A |
      exact ref_6E |
      exact ref_70 |
      exact ref_74 |
      exact ref_76 |
      exact ref_78 |
      exact ref_7A |
      exact ref_7B |
      exact ref_7E |
      exact ref_80 |
      exact ref_81 |
      exact ref_83 |
      exact ref_84 |
      exact ref_85 |
      exact ref_86 |
      exact ref_87 |
      exact ref_88 |
      exact ref_89 |
      exact ref_8A |
      exact ref_8B |
      exact ref_8C |
      exact ref_8D |
      exact ref_8E |
      exact ref_8F |
      exact ref_90 |
      exact ref_91 |
      exact ref_92 |
      exact ref_93 |
      exact ref_94 |
      exact ref_95 |
      exact ref_96 |
      exact ref_97 |
      exact ref_98 |
      exact ref_99 |
      exact ref_9A |
      exact ref_9B |
      exact ref_9C |
      exact ref_9D |
      exact ref_9E |
      exact ref_9F |
      exact ref_A0 |
      exact ref_A1 |
      exact ref_A2 |
      exact ref_A3 |
      exact ref_A4 |
      exact ref_A5 |
      exact ref_A6 |
      exact ref_A7 |
      exact ref_A8 |
      exact ref_A9 |
      exact ref_AA |
      exact ref_AB |
      exact ref_AC |
      exact ref_AD |
      exact ref_AE |
      exact ref_AF |
      exact ref_B0 |
      exact ref_B1 |
      exact ref_B2 |
      exact ref_B3 |
      exact ref_B4 |
      exact ref_B5 |
      exact ref_B6 |
      exact ref_B7 |
      exact ref_B8 |
      exact ref_B9 |
      exact ref_BA |
      exact ref_BB |
      exact ref_BC |
      exact ref_BD |
      exact ref_BE |
      exact ref_BF |
      exact ref_C0 |
      exact ref_C1 |
      exact ref_C2 |
      exact ref_C3 |
      exact ref_C4 |
      exact ref_C5 |
      exact ref_C6 |
      exact ref_C7 |
      exact ref_C8 |
      exact ref_C9 |
      exact ref_CA |
      exact ref_CB |
      exact ref_CC |
      exact ref_CD |
      exact ref_CE |
      exact ref_CF |
      exact ref_D0 |
      exact ref_D1 |
      exact ref_D2 |
      exact ref_D3 |
      exact ref_D4 |
      exact ref_D5 |
      exact ref_D6 |
      exact ref_D7 |
      exact ref_D8 |
      exact ref_D9 |
      exact ref_DA |
      exact ref_DB |
      exact ref_DD |
      exact ref_DE |
      exact ref_DF |
      exact ref_E0 |
      exact ref_E2 |
      exact ref_E4 |
      exact ref_E6 |
      exact ref_E8 |
      exact ref_EA |
      exact ref_EB |
      exact ref_EC |
      exact ref_EE |
      exact ref_F0 |
      exact ref_F4 |
      exact ref_F6 |
      exact ref_F8 |
      exact ref_FA |
      exact ref_FB |
      exact ref_FE ] | ]).
  contradiction.
Qed.

(* non-vacuity: a non-trivial native-mode state satisfying the hypotheses for CLC ($18) *)
Definition ex_state : st :=
  mkst (fun f => if N.eqb f f_PC then 32768 else if N.eqb f f_SP then 511 else if N.eqb f f_M then 1
                 else if N.eqb f f_X then 1 else if N.eqb f f_Interrupt then 1 else if N.eqb f f_C then 1
                 else if N.eqb f f_RA then 4660 else 0)
       (fun a => if a =? 32768 then 24 else 0) [] (fun _ => false) false.
Example C01_hypotheses_satisfiable :
  wf ex_state /\ get f_E ex_state = 0 /\ no_int ex_state /\ In (opcode_at ex_state) proved_opcodes.
Proof.
  split; [| split; [| split]].
  - constructor; unfold flag01; cbv;
      first [ (split; [ discriminate | reflexivity ]) | (left; reflexivity) | (right; reflexivity) ].
  - reflexivity.
  - split; vm_compute; discriminate.
  - vm_compute. repeat (first [ left; reflexivity | right ]).
Qed.
Example C01_example_effect : (* CLC on that state clears C and advances PC *)
  match Step ex_state with Ok _ s' => (get f_C s', get f_PC s') = (0, 32769) | Panic => False end.
Proof. vm_compute. reflexivity. Qed.
