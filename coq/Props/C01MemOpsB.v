(* C01: instructions with a memory operand, once per mnemonic for all memory addressing modes (logic).
   snapshot_dep: op_and, op_ora, op_eor *)
From Coq Require Import ZArith NArith List Bool Lia.
From Spec Require Import ISA Spec816.
From Lib Require Import ZOps Machine.
From Snapshot Require Import GenFields GenCpu65.
From Props Require Import C01Base C01Shift C01Flow C01Imm C01Mem C01MemLoc C01MemOps C01MemOpsD.
Import ListNotations.
Local Open Scope Z_scope.
Arguments Z.modulo : simpl never.
Arguments Z.lor : simpl never.
Arguments Z.land : simpl never.
Arguments Z.shiftl : simpl never.
Arguments Z.shiftr : simpl never.

Lemma and_mem : forall op, memop op AND op_and -> refines_op op.
Proof. intro op. open_mem op_and. - read16. close_read. - read8. close_read. Qed.
Lemma ora_mem : forall op, memop op ORA op_ora -> refines_op op.
Proof. intro op. open_mem op_ora. - read16. close_read. - read8. close_read. Qed.
Lemma eor_mem : forall op, memop op EOR op_eor -> refines_op op.
Proof. intro op. open_mem op_eor. - read16. close_read. - read8. close_read. Qed.
