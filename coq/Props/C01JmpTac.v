(* C01, control-flow and block-move family: the tactics shared by the C01Jmp*.v files (running a routine
   over explicit states, comparison of the final state with the specification).

   snapshot_dep: tbl_proc, tbl_size *)
From Coq Require Import ZArith NArith List Bool Lia.
From Spec Require Import ISA Spec816.
From Lib Require Import ZOps Machine.
From Snapshot Require Import GenFields GenCpu65.
From Props Require Import C01Base C01Flow C01Imm C01JmpBase.
Import ListNotations.
Local Open Scope Z_scope.
Arguments Z.modulo : simpl never.
Arguments Z.lor : simpl never.
Arguments Z.land : simpl never.
Arguments Z.shiftl : simpl never.
Arguments Z.shiftr : simpl never.

(* ---------------------------------------------------------------- per-opcode tactics *)
Lemma mkArch_eq : forall a1 a2 a3 a4 a5 a6 a7 a8 a9 a10 a11 a12 a13 a14 a15 a16 a17 a18
                         b1 b2 b3 b4 b5 b6 b7 b8 b9 b10 b11 b12 b13 b14 b15 b16 b17 b18,
  a1 = b1 -> a2 = b2 -> a3 = b3 -> a4 = b4 -> a5 = b5 -> a6 = b6 -> a7 = b7 -> a8 = b8 -> a9 = b9 ->
  a10 = b10 -> a11 = b11 -> a12 = b12 -> a13 = b13 -> a14 = b14 -> a15 = b15 -> a16 = b16 -> a17 = b17 -> a18 = b18 ->
  mkArch a1 a2 a3 a4 a5 a6 a7 a8 a9 a10 a11 a12 a13 a14 a15 a16 a17 a18 =
  mkArch b1 b2 b3 b4 b5 b6 b7 b8 b9 b10 b11 b12 b13 b14 b15 b16 b17 b18.
Proof. intros. subst. reflexivity. Qed.

Ltac start_mode lem op :=
  let s := fresh "s" in let W := fresh "W" in let HE := fresh "HE" in let Hni := fresh "Hni" in let Hop := fresh "Hop" in
  intros s W HE Hni Hop;
  apply (lem s op); [ exact Hni | apply W | apply W | exact Hop | reflexivity | ];
  let s1 := fresh "s1" in let Hs1 := fresh "Hs1" in let Hm1 := fresh "Hm1" in let Hsz := fresh "Hsz" in
  let Hmd := fresh "Hmd" in let Hfa := fresh "Hfa" in
  intros s1 Hs1 Hm1 Hsz Hmd Hfa;
  let p := eval cbv beta iota delta [tbl_proc] in (tbl_proc op) in change (tbl_proc op) with p;
  let z := eval cbv beta iota delta [tbl_size] in (tbl_size op) in change (tbl_size op) with z in Hsz.

Ltac jspec_eval :=
  lazy beta iota zeta delta [exec oploc set_nz with_A with_X with_Y with_S with_D with_DBR with_PBR with_PC
         with_N with_V with_M with_Xf with_Df with_I with_Z with_C with_E with_Stp xr yr xw mw acc with_acc abs Spec816.b2z
         rA rX rY rS rD rDBR rPBR rPC fN fV fM fX fD fI fZ fC rE rStp fst snd wmod wsgn ISA.length negb
         push8 Spec816.push16 pushw pull8 Spec816.pull16 pullw app P_of
         Spec816.step_state Spec816.step_mem].

(* [get f st] for an explicit state term [st], computed along the structure of [st] *)
Ltac getv f st :=
  lazymatch st with
  | set ?g ?v ?s' =>
      let b := eval vm_compute in (N.eqb f g) in
      lazymatch b with true => v | false => getv f s' end
  | log _ ?s' => getv f s'
  | upd _ _ ?s' => getv f s'
  | _ => constr:(get f st)
  end.
Ltac jfast :=
  repeat match goal with
         | |- context [get ?f ?st] =>
             lazymatch st with set _ _ _ => idtac | log _ _ => idtac | upd _ _ _ => idtac end;
             let r := getv f st in change (get f st) with r
         end.
Ltac jnorm :=
  try jfast;
  repeat first [ rewrite get_set_this | rewrite get_set_other by reflexivity | rewrite get_log | rewrite get_upd
               | rewrite mem_set_f | rewrite mem_log_f ].
Ltac jmem Hm1 :=
  repeat first [ rewrite mem_set_f | rewrite mem_log_f | rewrite mem_upd_aw | rewrite aw_aw ];
  cbn [app]; rewrite ?Hm1.

Ltac opnd_ranges s :=
  pose proof (opnd_range s 1); pose proof (opnd_range s 2); pose proof (opnd_range s 3).
Ltac junfold :=
  unfold add8, sub8, conv8, add16, sub16, conv16, w16, w8, w24, wtrunc, ba in *.
Lemma shr16 : forall x, w_shr x 16 = x / 65536.
Proof. intros x. unfold w_shr. rewrite Z.shiftr_div_pow2 by lia. reflexivity. Qed.
Ltac jland :=
  repeat match goal with
         | |- context [w_and ?x 255] =>
             rewrite (land255 x) by first [ lia | (unfold add16, sub16, conv16; apply Z.mod_pos_bound; lia) ]
         end.
Ltac jarith := rewrite ?shr8, ?shr16; jland; junfold; rewrite ?Z.add_0_r in *; first [ reflexivity | (Z.div_mod_to_equations; lia) ].

(* ranges of the read atoms occurring in the goal *)
Ltac read_ranges :=
  repeat match goal with
         | |- context [rd16 ?m ?l] =>
             lazymatch goal with H : 0 <= rd16 m l < 65536 |- _ => fail | _ => pose proof (rd16_range m l) end
         | |- context [rd24 ?m ?l] =>
             lazymatch goal with H : 0 <= rd24 m l < 16777216 |- _ => fail | _ => pose proof (rd24_range m l) end
         | |- context [byte ?m ?a] =>
             lazymatch goal with H : 0 <= byte m a < 256 |- _ => fail | _ => pose proof (byte_range m a) end
         end.

(* congruence on the read atoms: equal heads, arguments by arithmetic *)
Ltac jcong :=
  first [ reflexivity
        | match goal with
          | |- rd16 _ _ = rd16 _ _ => apply f_equal2; jcong
          | |- rd24 _ _ = rd24 _ _ => apply f_equal2; jcong
          | |- byte _ _ = byte _ _ => apply f_equal2; jcong
          | |- LWrap _ _ = LWrap _ _ => apply f_equal2; jcong
          | |- apply_writes ?l ?m ?a = apply_writes ?l' ?m ?a => apply (f_equal (fun w => apply_writes w m a)); jcong
          | |- apply_writes _ _ = apply_writes _ _ => apply f_equal2; jcong
          | |- cons _ _ = cons _ _ => apply f_equal2; jcong
          | |- pair _ _ = pair _ _ => apply f_equal2; jcong
          end
        | jarith ].

(* make the read atoms of the two sides syntactically equal *)
Ltac unify_reads :=
  repeat match goal with
         | |- ?L = ?R =>
             match L with context [rd16 ?m ?l] =>
               match R with context [rd16 ?m' ?l'] =>
                 first [ constr_eq l l'; constr_eq m m'; fail 1 | idtac ];
                 let H := fresh in assert (H : rd16 m' l' = rd16 m l) by (symmetry; jcong); rewrite H; clear H
               end end
         | |- ?L = ?R =>
             match L with context [rd24 ?m ?l] =>
               match R with context [rd24 ?m' ?l'] =>
                 first [ constr_eq l l'; constr_eq m m'; fail 1 | idtac ];
                 let H := fresh in assert (H : rd24 m' l' = rd24 m l) by (symmetry; jcong); rewrite H; clear H
               end end
         | |- ?L = ?R =>
             match L with context [byte ?m ?l] =>
               match R with context [byte ?m' ?l'] =>
                 first [ constr_eq l l'; constr_eq m m'; fail 1 | idtac ];
                 let H := fresh in assert (H : byte m' l' = byte m l) by (symmetry; jcong); rewrite H; clear H
               end end
         end.

Ltac jfield :=
  first [ reflexivity
        | (unify_reads; read_ranges; jarith)
        | (unfold rd16, rd24, loc_byte; unify_reads; read_ranges; jarith) ].

Lemma ite_flag : forall v, (v = 0 \/ v = 1) -> (if v =? 1 then 1 else 0) = v.
Proof. intros v [-> | ->]; reflexivity. Qed.
Lemma flag_rng : forall v, (v = 0 \/ v = 1) -> 0 <= v <= 1.
Proof. intros v [-> | ->]; lia. Qed.
(* the status byte pushed by the specification, in terms of the flag fields *)
Ltac flag_ites s W :=
  repeat match goal with |- context [if get ?f s =? 1 then 1 else 0] => rewrite (ite_flag (get f s)) by apply W end.
Ltac flag_ranges s W :=
  pose proof (flag_rng _ (wf_C s W)); pose proof (flag_rng _ (wf_Z s W)); pose proof (flag_rng _ (wf_I s W));
  pose proof (flag_rng _ (wf_D s W)); pose proof (flag_rng _ (wf_X s W)); pose proof (flag_rng _ (wf_M s W));
  pose proof (flag_rng _ (wf_V s W)); pose proof (flag_rng _ (wf_N s W)).

Ltac hide_events :=
  repeat match goal with
         | |- context [log ?e _] =>
             tryif is_var e then fail else (let ev := fresh "ev" in set (ev := e); clearbody ev)
         end.
Ltac jabs s W Hop s1 Hs1 Hm1 mn md :=
  hide_events; unfold abs at 1; jnorm; rw_hyps; to_initial s s1 Hs1; jmem Hm1;
  spec_side s W Hop mn md; rewrite !fetch_opnd; jspec_eval; rw_hyps; lits; cbv beta iota; flag_ites s W.

Ltac jwf s W s1 Hs1 :=
  hide_events; constructor; unfold flag01; jnorm; rw_hyps; to_initial s s1 Hs1;
  first [ apply W | add16_rng | (left; reflexivity) | (right; reflexivity) | idtac ].

Lemma conv16_bank : forall b a, 0 <= a < 65536 -> conv16 (b * 65536 + a) = a.
Proof. intros b a Ha. unfold conv16. rewrite Z.add_comm, Z_mod_plus_full. apply Z.mod_small. assumption. Qed.

Ltac mode_tests Hmd m := rewrite ?Hmd; mode_chain m; cbv beta iota delta [orb].
Ltac split_X s W :=
  unfold xreg in *;
  let Hx := fresh "Hx" in destruct (wf_X s W) as [Hx | Hx]; rewrite Hx in *; lits.


Ltac jside s W s1 Hs1 HE :=
  jnorm; to_initial s s1 Hs1;
  first [ exact HE | apply W | assumption | add16_rng | lia | jarith ].

Ltac jmemgoal s W Hop Hm1 mn md :=
  hide_events; intro a; jmem Hm1;
  match goal with Hs1 : same s ?s1 |- _ => to_initial s s1 Hs1 end;
  spec_side s W Hop mn md; rewrite !fetch_opnd; jspec_eval; rw_hyps; lits; cbv beta iota; flag_ites s W;
  first [ reflexivity | jcong ].

Ltac jfin s W Hop s1 Hs1 Hm1 mn md :=
  apply refines_finish; unfold advance;
  [ jabs s W Hop s1 Hs1 Hm1 mn md; apply mkArch_eq; jfield
  | jmemgoal s W Hop Hm1 mn md
  | jwf s W s1 Hs1; try jarith ].

(* run a routine whose body is a chain of lets and binds, one construct at a time from the head, in a
   goal [Q prog]; the current state stays an explicit normalised term *)
Ltac cps_goal :=
  match goal with |- refines_step ?s (bind ?P ?K) =>
    let Q := fresh "Q" in pose (Q := fun r : res unit => refines_step s (bind r K)); change (Q P) end.
Ltac run_side s W s1 Hs1 :=
  jnorm; to_initial s s1 Hs1;
  first [ apply W | assumption | add16_rng | apply byte_range | apply opnd_range | lia ].
Ltac run_head s W s1 Hs1 :=
  repeat first
   [ progress (jnorm; to_initial s s1 Hs1; rw_hyps; lits)
   | match goal with |- ?Q (let x := ?E in @?B x) => change (Q (B E)); cbv beta end
   | match goal with |- ?Q (bind (Ok _ _) _) => rewrite bind_Ok; cbv beta end
   | match goal with |- ?Q (bind (nRead _ _ _) _) => rewrite nRead_b by run_side s W s1 Hs1; hide_events end
   | match goal with |- ?Q (bind (nWrite _ _ _ _) _) => rewrite nWrite_ok by run_side s W s1 Hs1; hide_events end
   | match goal with |- ?Q (if negb true then _ else _) => cbv beta iota delta [negb] end
   | match goal with |- ?Q (if negb false then _ else _) => cbv beta iota delta [negb] end ].

Ltac block_move op routine mn :=
  start_mode Step_blk22 op;
  match goal with W : wf ?s, Hop : opcode_at ?s = _, Hs1 : same ?s ?s1, Hm1 : mem ?s1 = mem ?s |- _ =>
  pose_ranges s W; opnd_ranges s;
  cbv beta delta [routine]; cps_goal;
  let HX := fresh "HX" in let HM := fresh "HM" in let EC := fresh "EC" in
  destruct (wf_X s W) as [HX | HX]; destruct (wf_M s W) as [HM | HM]; run_head s W s1 Hs1;
  rewrite ?Hm1, ?add16_add16; change (1 + 1) with 2;
  change (byte (mem s) (get f_RK s * 65536 + add16 (get f_PC s) 1)) with (opnd s 1);
  change (byte (mem s) (get f_RK s * 65536 + add16 (get f_PC s) 2)) with (opnd s 2);
  rewrite ?(join16 (get f_RAh s) (get f_RAl s)) by assumption;
  match goal with |- context [w_eqb ?c 65535] => destruct (w_eqb c 65535) eqn:EC end;
  unfold w_eqb, sub16 in EC; cbv beta iota delta [negb]; run_head s W s1 Hs1;
  match goal with Q := _ |- _ => subst Q end; cbv beta;
  (apply refines_finish; unfold advance;
   [ jabs s W Hop s1 Hs1 Hm1 mn BlockMove; unfold w16; rewrite ?EC; cbv beta iota; apply mkArch_eq; jfield
   | jmemgoal s W Hop Hm1 mn BlockMove
   | jwf s W s1 Hs1; try jarith ])
  end.

