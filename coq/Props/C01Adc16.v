(* C01, ADC / SBC: the 16-bit cores of C01AdcCore.v equal the arithmetic of Spec816.do_adc / do_sbc.
   Binary mode: algebra (signed-overflow characterisation of the xor test).

   snapshot_dep: (none) *)
From Coq Require Import ZArith NArith List Bool Lia.
From Spec Require Import ISA Spec816.
From Lib Require Import ZOps Machine.
From Snapshot Require Import GenFields GenCpu65.
From Props Require Import C01Base C01AdcCore.
Local Open Scope Z_scope.
Arguments Z.modulo : simpl never.
Arguments Z.lor : simpl never.
Arguments Z.land : simpl never.
Arguments Z.shiftl : simpl never.
Arguments Z.shiftr : simpl never.

(* ---------------------------------------------------------------- 16 bits, binary: algebra *)
Lemma not16_sub : forall b, 0 <= b < 65536 -> not16 b = 65535 - b.
Proof.
  intros b Hb.
  assert (H : all_below 16 0 (fun b => not16 b =? 65535 - b) = true) by (vm_compute; reflexivity).
  apply Z.eqb_eq. apply (all_below_sound 16 0 _ H). cbn. lia.
Qed.

Lemma land_pow2 : forall z n, 0 <= n -> Z.land z (2 ^ n) = if Z.testbit z n then 2 ^ n else 0.
Proof.
  intros z n Hn. apply Z.bits_inj'. intros i Hi. rewrite Z.land_spec, Z.pow2_bits_eqb by lia.
  destruct (Z.eqb_spec n i) as [-> | Hne].
  - destruct (Z.testbit z i) eqn:E; [rewrite Z.pow2_bits_true by lia | rewrite Z.bits_0]; reflexivity.
  - rewrite andb_false_r. destruct (Z.testbit z n); [rewrite Z.pow2_bits_false by lia | rewrite Z.bits_0]; reflexivity.
Qed.

(* bit 15 of x xor y is clear iff x and y agree on (x / 32768) mod 2 *)
Lemma xor_bit15 : forall x y, 0 <= x -> 0 <= y ->
  w_eqb (w_and (w_xor x y) 32768) 0 = ((x / 32768) mod 2 =? (y / 32768) mod 2).
Proof.
  intros x y Hx Hy. unfold w_eqb, w_and, w_xor. change 32768 with (2 ^ 15).
  rewrite land_pow2 by lia. rewrite Z.lxor_spec, !Z.testbit_odd, !Z.shiftr_div_pow2 by lia.
  rewrite (Zmod_odd (x / 2 ^ 15)), (Zmod_odd (y / 2 ^ 15)).
  destruct (Z.odd (x / 2 ^ 15)), (Z.odd (y / 2 ^ 15)); reflexivity.
Qed.

Ltac bool_lia :=
  repeat match goal with
         | |- context [?x =? ?y] => destruct (Z.eqb_spec x y)
         | |- context [?x <? ?y] => destruct (Z.ltb_spec x y)
         | |- context [?x <=? ?y] => destruct (Z.leb_spec x y)
         end;
  cbn [andb orb negb]; try reflexivity; exfalso; Z.div_mod_to_equations; lia.

Lemma flagV16_signed : forall a d c, 0 <= a < 65536 -> 0 <= d < 65536 -> 0 <= c <= 1 ->
  flagV16 a d (a + d + c) = oflow W16 (signed W16 a + signed W16 d + c).
Proof.
  intros a d c Ha Hd Hc. unfold flagV16. rewrite !xor_bit15 by lia.
  unfold oflow, signed. cbn [wsgn wmod].
  destruct (Z.ltb_spec a 32768), (Z.ltb_spec d 32768); bool_lia.
Qed.

Theorem adc16_bin : forall a b c, 0 <= a < 65536 -> 0 <= b < 65536 -> 0 <= c <= 1 ->
  adc16_res a b c false = (a + b + c) mod 65536 /\
  adc16_C a b c false = (65536 <=? a + b + c) /\
  adc16_V a b c false = oflow W16 (signed W16 a + signed W16 b + c).
Proof.
  intros a b c Ha Hb Hc.
  assert (E : adc16_sum a b c false = a + b + c).
  { unfold adc16_sum, add32. rewrite (Z.mod_small (a + b)) by lia. apply Z.mod_small. lia. }
  unfold adc16_res, adc16_C, adc16_V. rewrite E. repeat split.
  - unfold flagC16, w_ltb. destruct (Z.ltb_spec 65535 (a + b + c)), (Z.leb_spec 65536 (a + b + c)); (reflexivity || lia).
  - apply flagV16_signed; assumption.
Qed.

Theorem sbc16_bin : forall a b c, 0 <= a < 65536 -> 0 <= b < 65536 -> 0 <= c <= 1 ->
  sbc16_res a b c false = (a - b - (1 - c)) mod 65536 /\
  sbc16_C a b c false = (0 <=? a - b - (1 - c)) /\
  sbc16_V a b c false = oflow W16 (signed W16 a - signed W16 b - (1 - c)).
Proof.
  intros a b c Ha Hb Hc.
  assert (E : sbc16_sum a (not16 b) c false = a + (65535 - b) + c).
  { rewrite not16_sub by assumption. unfold sbc16_sum, add32. rewrite (Z.mod_small (a + (65535 - b))) by lia.
    apply Z.mod_small. lia. }
  unfold sbc16_res, sbc16_C, sbc16_V. rewrite E. repeat split.
  - unfold conv16. Z.div_mod_to_equations; lia.
  - unfold flagC16, w_ltb.
    destruct (Z.ltb_spec 65535 (a + (65535 - b) + c)), (Z.leb_spec 0 (a - b - (1 - c))); (reflexivity || lia).
  - rewrite not16_sub by assumption. rewrite flagV16_signed by lia. f_equal.
    unfold signed. cbn [wsgn wmod]. destruct (Z.ltb_spec b 32768), (Z.ltb_spec (65535 - b) 32768); lia.
Qed.
