(* C09: theorems about the header model (Model/Header.v), for EVERY tagged layout T that passes the
   boolean check [layout_ok] (re-evaluated by vm_compute on every run against the layout regenerated
   from header.go), every byte string and every ROM image.  L = untag T throughout.

     parse_total            an 80-byte string always parses; values are in range
     version_spec           version 3 <-> byte $FFDA = $33, else 2 <-> byte $FFD4 = 0, else 1
                            with every field that starts below $FFC0 reported as 0
     fields_at_offsets      reported field j = little-endian value of bytes [offset j, +size j)
     tagged_field_address   a rom:"FFxx" tag equals $FFB0 + the field's offset
     documented_field_address  the same for the documented SNES header map (Spec/HeaderSpec.v)
     serialise_parse        write_header (parse bs) is 80 bytes and parses to the same header
     rom_roundtrip          read then write leaves every image with off + 80 <= length unchanged
     new_rom_roundtrip      the same through NewROM, for every image of length >= $8000
     write_frame            WriteHeader touches nothing outside the 80 (v<=1: 64) header bytes
     write_read             for version >= 2, what is written is what is read back
     header_locality        single-byte change: stated on the reported fields, all version cases *)
From Coq Require Import ZArith String List Bool Lia.
From Lib Require Import ZList.
From Spec Require Import HeaderSpec.
From Model Require Import Layout Header.
From Props Require Import LayoutProps.
Import ListNotations.
Local Open Scope Z_scope.

(* ---- zero_first / aligned ---- *)
Lemma aligned_nonneg : forall L c, aligned L c = true -> 0 <= c.
Proof.
  destruct L as [|f L]; intros c H; simpl in H.
  - apply Z.eqb_eq in H. lia.
  - destruct (c <=? 0) eqn:E; [apply Z.eqb_eq in H; lia|apply Z.leb_gt in E; lia].
Qed.
Lemma aligned_tail : forall f L c, aligned (f :: L) c = true -> 0 < c -> aligned L (c - fsz f) = true.
Proof.
  intros f L c H Hc. simpl in H. destruct (c <=? 0) eqn:E; [apply Z.leb_le in E; lia|exact H].
Qed.

Lemma zero_first_length : forall L c vs, length (zero_first L c vs) = length vs.
Proof.
  induction L as [|f L IH]; intros c [|v vs]; simpl; try reflexivity.
  destruct (0 <? c); simpl; [now rewrite IH|reflexivity].
Qed.

Lemma zero_first_nth : forall L c vs j, aligned L c = true -> length vs = length L ->
  nth j (zero_first L c vs) 0 = if offset L j <? c then 0 else nth j vs 0.
Proof.
  induction L as [|f L IH]; intros c vs j Ha Hl.
  - destruct vs; [|discriminate]. simpl. destruct j; simpl; destruct (0 <? c); reflexivity.
  - destruct vs as [|v vs]; [discriminate|]. simpl in Hl. pose proof (aligned_nonneg _ _ Ha) as Hc.
    pose proof (fsz_nonneg f) as Hk. cbn [zero_first]. destruct (0 <? c) eqn:E.
    + apply Z.ltb_lt in E. pose proof (aligned_tail _ _ _ Ha E) as Ha'. destruct j as [|j]; cbn [nth offset].
      * destruct (0 <? c) eqn:E'; [reflexivity|apply Z.ltb_ge in E'; lia].
      * rewrite (IH (c - fsz f) vs j Ha') by lia.
        destruct (offset L j <? c - fsz f) eqn:E1; destruct (fsz f + offset L j <? c) eqn:E2; try reflexivity;
          [apply Z.ltb_lt in E1; apply Z.ltb_ge in E2; lia|apply Z.ltb_ge in E1; apply Z.ltb_lt in E2; lia].
    + apply Z.ltb_ge in E. assert (c = 0) by lia. subst c. pose proof (offset_nonneg (f :: L) j).
      destruct (offset (f :: L) j <? 0) eqn:E1; [apply Z.ltb_lt in E1; lia|reflexivity].
Qed.

Lemma zero_first_idem : forall L c vs, zero_first L c (zero_first L c vs) = zero_first L c vs.
Proof.
  induction L as [|f L IH]; intros c [|v vs]; try reflexivity.
  cbn [zero_first]. destruct (0 <? c) eqn:E; cbn [zero_first]; rewrite ?E; [now rewrite IH|reflexivity].
Qed.

Lemma zero_first_in_range : forall L c vs, in_range L vs = true -> in_range L (zero_first L c vs) = true.
Proof.
  induction L as [|f L IH]; intros c [|v vs] H; simpl in *; try discriminate; [reflexivity|].
  apply andb_true_iff in H. destruct H as [Hv H]. destruct (0 <? c); cbn [in_range].
  - rewrite (IH _ _ H), andb_true_r. pose proof (pow256_pos (fsz f) (fsz_nonneg f)).
    apply andb_true_iff. split; [apply Z.leb_le|apply Z.ltb_lt]; lia.
  - now rewrite Hv, H.
Qed.

Lemma zlen_repeat : forall A (x : A) n, zlen (repeat x n) = Z.of_nat n.
Proof. intros. unfold zlen. now rewrite repeat_length. Qed.

(* serialising a parse whose first c bytes' fields were zeroed: c zero bytes, then the old bytes *)
Lemma encode_zero_first : forall L c bs vs, aligned L c = true -> bytes_ok bs -> zlen bs = size L ->
  decode L bs = Some vs -> encode L (zero_first L c vs) = repeat 0 (Z.to_nat c) ++ zdrop c bs.
Proof.
  induction L as [|f L IH]; intros c bs vs Ha Hb Hl H.
  - simpl in Ha. apply Z.eqb_eq in Ha. subst c. cbn [decode] in H. inversion H; subst.
    unfold size in Hl. simpl in Hl. apply zlen_0_nil in Hl. subst. reflexivity.
  - pose proof (aligned_nonneg _ _ Ha) as Hc. pose proof (fsz_nonneg f) as Hk. pose proof (size_nonneg L) as HL.
    pose proof H as Hfull. cbn [decode] in H. rewrite size_cons in Hl.
    destruct (zlen bs <? fsz f) eqn:E; [discriminate|]. apply Z.ltb_ge in E.
    destruct (decode L (zdrop (fsz f) bs)) as [vs0|] eqn:E2; [|discriminate].
    inversion H; subst. cbn [zero_first]. destruct (0 <? c) eqn:Ec.
    + apply Z.ltb_lt in Ec. pose proof (aligned_tail _ _ _ Ha Ec) as Ha'.
      pose proof (aligned_nonneg _ _ Ha') as Hc'. cbn [encode].
      rewrite (IH (c - fsz f) (zdrop (fsz f) bs) vs0 Ha' (bytes_ok_zdrop bs (fsz f) Hb)); [| rewrite zlen_zdrop by lia; lia | exact E2].
      rewrite le_enc_zero, app_assoc, <- repeat_app. rewrite zdrop_zdrop by lia.
      f_equal; [f_equal; lia|f_equal; lia].
    + apply Z.ltb_ge in Ec. assert (c = 0) by lia. subst c. simpl (repeat _ _).
      rewrite zdrop_nonpos by lia. simpl app.
      change (le_dec (ztake (fsz f) bs) :: vs0) with (le_dec (ztake (fsz f) bs) :: vs0).
      apply (encode_decode (f :: L) bs); [assumption|rewrite size_cons; lia|exact Hfull].
Qed.

(* a field never straddles an aligned cut *)
Lemma aligned_no_straddle : forall L c i j, aligned L c = true -> field_of L i = Some j -> c <= i -> c <= offset L j.
Proof.
  induction L as [|f L IH]; intros c i j Ha Hf Hi; [discriminate|].
  pose proof (aligned_nonneg _ _ Ha) as Hc. pose proof (fsz_nonneg f) as Hk. cbn [field_of] in Hf.
  destruct (Z.eq_dec c 0) as [->|Hne]; [apply offset_nonneg|].
  assert (Hc0 : 0 < c) by lia. pose proof (aligned_tail _ _ _ Ha Hc0) as Ha'. pose proof (aligned_nonneg _ _ Ha') as Hc'.
  destruct (i <? fsz f) eqn:E.
  - apply Z.ltb_lt in E. lia.
  - destruct (field_of L (i - fsz f)) as [j0|] eqn:E2; [|discriminate]. inversion Hf; subst.
    cbn [offset]. assert (Hi' : c - fsz f <= i - fsz f) by lia. specialize (IH (c - fsz f) (i - fsz f) j0 Ha' E2 Hi'). lia.
Qed.

(* ---- tags and the documented map ---- *)
Lemma untag_nth : forall T j n k a, nth_error T j = Some (n, k, a) -> nth_error (untag T) j = Some (n, k).
Proof. intros T j n k a H. unfold untag. rewrite nth_error_map, H. reflexivity. Qed.

Lemma tags_ok_nth : forall T base j n k a, tags_ok T base = true -> nth_error T j = Some (n, k, Some a) ->
  a = base + offset (untag T) j.
Proof.
  induction T as [|[[n0 k0] t0] T IH]; intros base j n k a H Hn; [destruct j; discriminate|].
  cbn [tags_ok] in H. apply andb_true_iff in H. destruct H as [H0 H]. destruct j as [|j]; simpl in Hn.
  - inversion Hn; subst. apply Z.eqb_eq in H0. simpl. lia.
  - specialize (IH _ _ _ _ _ H Hn). cbn [untag map offset]. unfold fsz at 1. simpl snd.
    change (map (fun t => (fst (fst t), snd (fst t))) T) with (untag T). lia.
Qed.

Lemma find_field_offset : forall L name o0 o k, find_field L name o0 = Some (o, k) ->
  exists j f, nth_error L j = Some f /\ fname f = name /\ o = o0 + offset L j /\ k = fsz f.
Proof.
  induction L as [|f L IH]; intros name o0 o k H; simpl in H; [discriminate|].
  destruct (String.eqb (fname f) name) eqn:E.
  - inversion H; subst. apply String.eqb_eq in E. exists O, f. simpl. repeat split; auto; lia.
  - destruct (IH _ _ _ _ H) as (j & g & Hn & Hname & Ho & Hk). exists (S j), g. simpl. repeat split; auto; lia.
Qed.

Section Header.
  Variable T : tlayout.
  Let L := untag T.
  Hypothesis Hok : layout_ok T = true.

  Lemma ok_parts : sizes_pos L = true /\ size L = 80 /\ tags_ok T hdr_base = true /\ spec_ok L = true /\
    aligned L 16 = true /\ byte_field_at L 36 = true /\ byte_field_at L 42 = true.
  Proof.
    pose proof Hok as H. unfold layout_ok in H. fold L in H.
    repeat (apply andb_true_iff in H; destruct H as [H ?]).
    repeat split; try assumption. now apply Z.eqb_eq.
  Qed.

  Lemma size_L : size L = 80.
  Proof. apply ok_parts. Qed.
  Lemma aligned_L : aligned L 16 = true.
  Proof. apply ok_parts. Qed.

  (* the one-byte fields the version logic looks at *)
  Lemma byte_field_value : forall i bs vs, byte_field_at L i = true -> 0 <= i -> size L <= zlen bs ->
    decode L bs = Some vs ->
    exists j, field_of L i = Some j /\ offset L j = i /\ (j < length L)%nat /\ field_at L vs i = znth bs i.
  Proof.
    intros i bs vs Hb Hi Hl Hd. unfold byte_field_at in Hb. unfold field_at.
    destruct (field_of L i) as [j|] eqn:Ef; [|discriminate].
    apply andb_true_iff in Hb. destruct Hb as [Ho Hs]. apply Z.eqb_eq in Ho. apply Z.eqb_eq in Hs.
    destruct (field_of_spec _ _ _ Hi Ef) as [Hj Hc]. exists j. repeat split; try assumption.
    rewrite (decode_nth _ _ _ _ Hd Hj), Ho, Hs.
    pose proof (offset_le_size L j). rewrite slice_one by lia. simpl. lia.
  Qed.

  Definition reported (v : Z) (vs : list Z) : list Z := if v =? 1 then zero_first L ext_size vs else vs.

  (* read_header, unfolded: the version is a function of bytes $2A and $24, the values are [reported] *)
  Lemma read_header_shape : forall bs, size L <= zlen bs ->
    exists vs, decode L bs = Some vs /\ length vs = length L /\
      let v := if znth bs 42 =? 51 then 3 else if znth bs 36 =? 0 then 2 else 1 in
      read_header L bs = Some (v, reported v vs).
  Proof.
    intros bs Hl. destruct (decode_some L bs Hl) as [vs Hd]. exists vs.
    split; [assumption|]. split; [eapply decode_length; eauto|].
    destruct ok_parts as (_ & _ & _ & _ & _ & H36 & H42).
    destruct (byte_field_value 42 bs vs H42 ltac:(lia) Hl Hd) as (_ & _ & _ & _ & E42).
    destruct (byte_field_value 36 bs vs H36 ltac:(lia) Hl Hd) as (_ & _ & _ & _ & E36).
    unfold read_header. rewrite Hd. unfold off_old_maker, off_title_last. rewrite E42, E36.
    cbv zeta. destruct (znth bs 42 =? 51); [reflexivity|]. destruct (znth bs 36 =? 0); reflexivity.
  Qed.

  Theorem parse_total : forall bs, bytes_ok bs -> zlen bs = 80 ->
    exists h, read_header L bs = Some h /\ length (hvals h) = length L /\ in_range L (hvals h) = true /\
              (hver h = 1 \/ hver h = 2 \/ hver h = 3).
  Proof.
    intros bs Hb Hl. destruct (read_header_shape bs) as (vs & Hd & Hlen & Hr); [rewrite size_L; lia|].
    cbv zeta in Hr. eexists. split; [exact Hr|]. pose proof (decode_in_range _ _ _ Hb Hd) as Hin.
    unfold hvals, hver, reported. simpl fst. simpl snd.
    destruct (znth bs 42 =? 51); [simpl; repeat split; auto|].
    destruct (znth bs 36 =? 0); simpl; repeat split; auto.
    - rewrite zero_first_length. assumption.
    - now apply zero_first_in_range.
  Qed.

  Theorem version_spec : forall bs h, zlen bs = 80 -> read_header L bs = Some h ->
    (hver h = 3 <-> znth bs 42 = 51) /\
    (hver h = 2 <-> znth bs 42 <> 51 /\ znth bs 36 = 0) /\
    (hver h = 1 <-> znth bs 42 <> 51 /\ znth bs 36 <> 0) /\
    (hver h = 1 -> forall j, offset L j < 16 -> nth j (hvals h) 0 = 0).
  Proof.
    intros bs h Hl Hr. destruct (read_header_shape bs) as (vs & Hd & Hlen & Hr'); [rewrite size_L; lia|].
    cbv zeta in Hr'. rewrite Hr in Hr'. inversion Hr'; subst h. clear Hr Hr'. unfold hver, hvals. simpl fst. simpl snd.
    destruct (znth bs 42 =? 51) eqn:E42; [apply Z.eqb_eq in E42|apply Z.eqb_neq in E42].
    - repeat split; intros; try lia.
    - destruct (znth bs 36 =? 0) eqn:E36; [apply Z.eqb_eq in E36|apply Z.eqb_neq in E36].
      + repeat split; intros; try lia.
      + repeat split; intros; try lia. unfold reported. simpl.
        rewrite zero_first_nth by (auto using aligned_L). unfold ext_size.
        destruct (offset L j <? 16) eqn:E; [reflexivity|apply Z.ltb_ge in E; lia].
  Qed.

  (* every reported field is the little-endian value of its own slice of the 80 bytes *)
  Theorem fields_at_offsets : forall bs h j, zlen bs = 80 -> read_header L bs = Some h -> (j < length L)%nat ->
    2 <= hver h \/ 16 <= offset L j ->
    nth j (hvals h) 0 = le_dec (slice bs (offset L j) (offset L j + nth_size L j)).
  Proof.
    intros bs h j Hl Hr Hj Hv. destruct (read_header_shape bs) as (vs & Hd & Hlen & Hr'); [rewrite size_L; lia|].
    cbv zeta in Hr'. rewrite Hr in Hr'. inversion Hr'; subst h. clear Hr Hr'. unfold hver, hvals in *. simpl fst in *. simpl snd.
    rewrite <- (decode_nth L bs vs j Hd Hj). unfold reported.
    destruct ((if znth bs 42 =? 51 then 3 else if znth bs 36 =? 0 then 2 else 1) =? 1) eqn:E; [|reflexivity].
    apply Z.eqb_eq in E. rewrite zero_first_nth by (auto using aligned_L). unfold ext_size.
    destruct (offset L j <? 16) eqn:E1; [apply Z.ltb_lt in E1; lia|reflexivity].
  Qed.

  Theorem tagged_field_address : forall j n k a, nth_error T j = Some (n, k, Some a) ->
    a = hdr_base + offset L j /\ nth_size L j = k /\ 0 < k.
  Proof.
    intros j n k a Hn. destruct ok_parts as (Hpos & _ & Htags & _). split; [eapply tags_ok_nth; eauto|].
    pose proof (untag_nth _ _ _ _ _ Hn) as Hu. fold L in Hu. unfold nth_size. rewrite Hu.
    unfold sizes_pos in Hpos. rewrite forallb_forall in Hpos. specialize (Hpos _ (nth_error_In _ _ Hu)).
    simpl in Hpos. apply Z.ltb_lt in Hpos. unfold fsz. simpl. lia.
  Qed.

  Theorem documented_field_address : forall name addr k o k', In (name, addr, k) documented ->
    find_field L name 0 = Some (o, k') ->
    exists j f, nth_error L j = Some f /\ fname f = name /\ addr = hdr_base + offset L j /\ nth_size L j = k.
  Proof.
    intros name addr k o k' Hin Hf. destruct ok_parts as (_ & _ & _ & Hspec & _).
    unfold spec_ok in Hspec. rewrite forallb_forall in Hspec. specialize (Hspec _ Hin). cbv beta iota in Hspec.
    rewrite Hf in Hspec. apply andb_true_iff in Hspec. destruct Hspec as [Ha Hk].
    apply Z.eqb_eq in Ha. apply Z.eqb_eq in Hk.
    destruct (find_field_offset _ _ _ _ _ Hf) as (j & f & Hn & Hname & Ho & Hk').
    exists j, f. unfold nth_size. rewrite Hn. repeat split; auto; lia.
  Qed.

  (* a tagged field is decoded little-endian from the cartridge address on its tag *)
  Corollary tagged_field_value : forall bs h j n k a, zlen bs = 80 -> read_header L bs = Some h ->
    nth_error T j = Some (n, k, Some a) -> 2 <= hver h \/ hdr_base + 16 <= a ->
    nth j (hvals h) 0 = le_dec (slice bs (a - hdr_base) (a - hdr_base + k)).
  Proof.
    intros bs h j n k a Hl Hr Hn Hv. destruct (tagged_field_address _ _ _ _ Hn) as (Ha & Hk & _).
    assert (Hj : (j < length L)%nat).
    { apply nth_error_Some. unfold L. rewrite (untag_nth _ _ _ _ _ Hn). discriminate. }
    rewrite (fields_at_offsets bs h j Hl Hr Hj) by lia. rewrite Hk. do 2 f_equal; lia.
  Qed.

  (* serialise (parse bs) is 80 bytes and parses back to the same header *)
  Theorem serialise_parse : forall bs h, bytes_ok bs -> zlen bs = 80 -> read_header L bs = Some h ->
    zlen (write_header L h) = 80 /\ bytes_ok (write_header L h) /\ read_header L (write_header L h) = Some h /\
    (2 <= hver h -> write_header L h = bs) /\
    (hver h = 1 -> write_header L h = repeat 0 16 ++ zdrop 16 bs).
  Proof.
    intros bs h Hb Hl Hr. destruct (read_header_shape bs) as (vs & Hd & Hlen & Hr'); [rewrite size_L; lia|].
    cbv zeta in Hr'. rewrite Hr in Hr'. inversion Hr'; subst h. clear Hr'.
    unfold write_header, hver, hvals. simpl fst. simpl snd.
    assert (HszL : zlen bs = size L) by (rewrite size_L; lia).
    set (v := if znth bs 42 =? 51 then 3 else if znth bs 36 =? 0 then 2 else 1) in *.
    assert (Hv : v = 1 \/ 2 <= v) by (unfold v; destruct (znth bs 42 =? 51); [lia|destruct (znth bs 36 =? 0); lia]).
    destruct Hv as [Hv|Hv].
    - (* version 1 *)
      assert (Erep : reported v vs = zero_first L 16 vs) by (unfold reported; rewrite Hv; reflexivity).
      rewrite Erep in *. pose proof (encode_zero_first L 16 bs vs aligned_L Hb HszL Hd) as Eenc.
      change (Z.to_nat 16) with 16%nat in Eenc.
      assert (Hz : zlen (repeat 0 16 ++ zdrop 16 bs) = 80).
      { rewrite zlen_app, zlen_repeat, zlen_zdrop by lia. lia. }
      split; [rewrite Eenc; exact Hz|]. split; [apply encode_bytes|].
      split; [|split; [lia|intros _; exact Eenc]].
      (* parse the serialisation *)
      destruct (read_header_shape (encode L (zero_first L 16 vs))) as (ws & Hd2 & _ & Hr2).
      { rewrite Eenc, Hz, size_L. lia. }
      rewrite decode_encode in Hd2 by (apply zero_first_in_range; eapply decode_in_range; eauto).
      inversion Hd2; subst ws. cbv zeta in Hr2. rewrite Hr2. rewrite Eenc.
      assert (Hn : forall k, 16 <= k -> znth (repeat 0 16 ++ zdrop 16 bs) k = znth bs k).
      { intros k Hk. rewrite znth_app_r by (rewrite zlen_repeat; lia). rewrite zlen_repeat.
        rewrite znth_zdrop by lia. f_equal. lia. }
      rewrite !Hn by lia. fold v. rewrite Hv. unfold reported. simpl (1 =? 1).
      unfold ext_size. now rewrite zero_first_idem.
    - assert (Erep : reported v vs = vs).
      { unfold reported. destruct (v =? 1) eqn:E; [apply Z.eqb_eq in E; lia|reflexivity]. }
      rewrite Erep in *. rewrite (encode_decode L bs vs Hb HszL Hd).
      repeat split; try assumption; try lia.
  Qed.

  (* ---- ROM images ---- *)
  Lemma window_ok_true : forall img a e, 0 <= a -> a <= e -> e <= zlen img -> window_ok img a e = true.
  Proof.
    intros. unfold window_ok. apply andb_true_iff. split; [apply andb_true_iff; split|]; apply Z.leb_le; lia.
  Qed.

  Theorem rom_roundtrip : forall img off, bytes_ok img -> 0 <= off -> off + 80 <= zlen img ->
    exists h, rom_read_header L img off = HOk (Some h) /\ rom_write_header L img off h = HOk img.
  Proof.
    intros img off Hb Hoff Hlen. set (bs := slice img off (off + 80)).
    assert (Hbs : bytes_ok bs) by (apply bytes_ok_slice; assumption).
    assert (Hl : zlen bs = 80) by (unfold bs; rewrite zlen_slice by lia; lia).
    destruct (parse_total bs Hbs Hl) as (h & Hr & _ & _ & Hv). exists h.
    unfold rom_read_header, rom_write_header, hdr_size, ext_size. rewrite window_ok_true by lia. fold bs. rewrite Hr.
    split; [reflexivity|].
    destruct (serialise_parse bs h Hbs Hl Hr) as (Hz & _ & _ & H2 & H1).
    destruct (hver h <=? 1) eqn:E.
    - apply Z.leb_le in E. assert (Hv1 : hver h = 1) by lia. specialize (H1 Hv1).
      rewrite window_ok_true by lia. rewrite Hz. replace (16 <=? 80) with true by reflexivity. simpl andb. cbv iota. f_equal.
      rewrite H1. pose proof (zdrop_app_exact _ (repeat 0 16) (zdrop 16 bs)) as Hd16.
      rewrite zlen_repeat in Hd16. change (Z.of_nat 16) with 16 in Hd16. rewrite Hd16.
      unfold copy_at, bs. rewrite zdrop_slice by lia.
      rewrite ztake_all by (rewrite zlen_slice by lia; lia). apply splice_self; lia.
    - apply Z.leb_gt in E. rewrite H2 by lia. rewrite ?window_ok_true by lia. f_equal.
      unfold copy_at. rewrite ztake_all by lia. unfold bs. apply splice_self; lia.
  Qed.

  Theorem new_rom_roundtrip : forall img, bytes_ok img -> 32768 <= zlen img ->
    exists h, new_rom L img = Some (HOk (Some h)) /\ rom_write_header L img rom_header_offset h = HOk img.
  Proof.
    intros img Hb Hl. unfold new_rom. destruct (zlen img <? 32768) eqn:E; [apply Z.ltb_lt in E; lia|].
    destruct (rom_roundtrip img rom_header_offset Hb) as (h & Hr & Hw); unfold rom_header_offset; try lia.
    exists h. unfold rom_header_offset in *. now rewrite Hr.
  Qed.

  (* for version >= 2, the header that is written is the header that is read back *)
  Theorem write_read : forall img off h, 0 <= off -> off + 80 <= zlen img -> 2 <= hver h ->
    in_range L (hvals h) = true ->
    exists img', rom_write_header L img off h = HOk img' /\
      rom_read_header L img' off = HOk (read_header L (write_header L h)).
  Proof.
    intros img off h Hoff Hlen Hv Hin. unfold rom_write_header, rom_read_header, hdr_size.
    destruct (hver h <=? 1) eqn:E; [apply Z.leb_le in E; lia|]. rewrite window_ok_true by lia.
    eexists. split; [reflexivity|].
    assert (Hz : zlen (write_header L h) = 80).
    { unfold write_header. rewrite zlen_encode, size_L; [reflexivity|now apply in_range_length]. }
    unfold copy_at. replace (off + 80 - off) with 80 by lia. rewrite ztake_all by lia.
    rewrite window_ok_true; try lia.
    - f_equal. f_equal. rewrite <- Hz. apply slice_splice_same; lia.
    - rewrite zlen_splice; lia.
  Qed.
End Header.

(* WriteHeader never touches a byte outside the header window (any layout, any header value) *)
Theorem write_frame : forall L img off h img', rom_write_header L img off h = HOk img' ->
  zlen img' = zlen img /\
  (forall k, k < off \/ off + 80 <= k -> znth img' k = znth img k) /\
  (hver h <= 1 -> forall k, k < off + 16 -> znth img' k = znth img k).
Proof.
  assert (Hcopy : forall img a e src, window_ok img a e = true ->
            zlen (copy_at img a e src) = zlen img /\ forall k, k < a \/ e <= k -> znth (copy_at img a e src) k = znth img k).
  { intros img a e src Hw. unfold window_ok in Hw. apply andb_true_iff in Hw. destruct Hw as [Hw H3].
    apply andb_true_iff in Hw. destruct Hw as [H1 H2]. apply Z.leb_le in H1, H2, H3.
    pose proof (zlen_nonneg _ src). unfold copy_at.
    assert (Hp : zlen (ztake (e - a) src) <= e - a) by (rewrite zlen_ztake by lia; lia).
    split; [apply zlen_splice; lia|]. intros k Hk. apply znth_splice_out; lia. }
  intros L img off h img' H. unfold rom_write_header, hdr_size, ext_size in H.
  destruct (hver h <=? 1) eqn:E.
  - destruct (window_ok img (off + 16) (off + 80)) eqn:W; [|discriminate].
    destruct (16 <=? zlen (write_header L h)); [|discriminate]. simpl in H. inversion H; subst.
    destruct (Hcopy img (off + 16) (off + 80) (zdrop 16 (write_header L h)) W) as [A B].
    split; [assumption|]. split; intros; apply B; lia.
  - destruct (window_ok img off (off + 80)) eqn:W; [|discriminate]. inversion H; subst.
    destruct (Hcopy img off (off + 80) (write_header L h) W) as [A B]. apply Z.leb_gt in E.
    split; [assumption|]. split; intros; [apply B|]; lia.
Qed.

(* ---- single-byte-change locality on the reported fields ---- *)
Section Locality.
  Variable T : tlayout.
  Let L := untag T.
  Hypothesis Hok : layout_ok T = true.

  Theorem header_locality : forall bs i b h h', zlen bs = 80 -> 0 <= i < 80 -> b <> znth bs i ->
    read_header L bs = Some h -> read_header L (upd bs i b) = Some h' ->
    exists j, field_of L i = Some j /\
      (* the version can only change through bytes $FFD4 and $FFDA *)
      (i <> 36 -> i <> 42 -> hver h' = hver h) /\
      (* both parses at version 2 or 3: exactly the field covering the byte changes *)
      (2 <= hver h -> 2 <= hver h' -> diff_exactly j (hvals h) (hvals h')) /\
      (* both parses at version 1: bytes $FFB0-$FFBF are not reported at all, any other byte changes exactly its field *)
      (hver h = 1 -> hver h' = 1 ->
         if i <? 16 then hvals h = hvals h' else diff_exactly j (hvals h) (hvals h')) /\
      (* version 1 on one side only (possible only for $FFD4/$FFDA): the covering field changes and no
         field at or above $FFC0 other than it; the extension fields go between 0 and their byte values *)
      (hver h <> hver h' -> (hver h = 1 \/ hver h' = 1) ->
         nth j (hvals h) 0 <> nth j (hvals h') 0 /\
         forall j', j' <> j -> 16 <= offset L j' -> nth j' (hvals h) 0 = nth j' (hvals h') 0).
  Proof.
    intros bs i b h h' Hl Hi Hb Hr Hr'.
    pose proof (size_L T Hok) as Hsz. fold L in Hsz. pose proof (aligned_L T Hok) as Hal. fold L in Hal.
    assert (Hl' : zlen (upd bs i b) = 80) by (rewrite zlen_upd; lia).
    destruct (read_header_shape T Hok bs) as (vs & Hd & Hlen & S1); [fold L; lia|].
    destruct (read_header_shape T Hok (upd bs i b)) as (vs' & Hd' & Hlen' & S2); [fold L; lia|].
    fold L in Hd, Hd', S1, S2, Hlen, Hlen'. cbv zeta in S1, S2. rewrite Hr in S1. rewrite Hr' in S2.
    inversion S1; subst h. inversion S2; subst h'. clear S1 S2.
    destruct (field_of_some L i) as [j Hj]; [lia|]. exists j. split; [exact Hj|].
    pose proof (decode_locality_upd L bs i b vs vs' ltac:(lia) Hb Hd Hd') as Hloc. rewrite Hj in Hloc.
    destruct (field_of_spec L i j ltac:(lia) Hj) as [Hjl Hcov].
    unfold hver, hvals. simpl fst. simpl snd.
    set (v := if znth bs 42 =? 51 then 3 else if znth bs 36 =? 0 then 2 else 1).
    set (v' := if znth (upd bs i b) 42 =? 51 then 3 else if znth (upd bs i b) 36 =? 0 then 2 else 1).
    assert (Hrep : forall w ws k, length ws = length L ->
              nth k (reported T w ws) 0 = if (w =? 1) && (offset L k <? 16) then 0 else nth k ws 0).
    { intros w ws k Hw. unfold reported. fold L. destruct (w =? 1); [|reflexivity].
      rewrite zero_first_nth by assumption. reflexivity. }
    assert (Hreplen : forall w ws, length (reported T w ws) = length ws).
    { intros w ws. unfold reported. destruct (w =? 1); [apply zero_first_length|reflexivity]. }
    destruct Hloc as (Hll & Hjv & Hdj & Hoth).
    split; [|split; [|split]].
    - intros H36 H42. unfold v, v'. rewrite !znth_upd_other by lia. reflexivity.
    - intros H2 H2'. unfold reported. fold L.
      destruct (v =? 1) eqn:E1; [apply Z.eqb_eq in E1; lia|]. destruct (v' =? 1) eqn:E2; [apply Z.eqb_eq in E2; lia|].
      repeat split; assumption.
    - intros H1 H1'. destruct (i <? 16) eqn:Ei.
      + apply Z.ltb_lt in Ei. apply (nth_ext _ _ 0 0); [rewrite !Hreplen; assumption|].
        intros k _. rewrite !Hrep by assumption. rewrite H1, H1'. simpl (1 =? 1). simpl andb.
        destruct (offset L k <? 16) eqn:Ek; [reflexivity|]. apply Z.ltb_ge in Ek.
        apply Hoth. intro; subst k. lia.
      + apply Z.ltb_ge in Ei. pose proof (aligned_no_straddle L 16 i j Hal Hj Ei) as Hoj.
        repeat split.
        * rewrite !Hreplen. assumption.
        * rewrite Hreplen. assumption.
        * rewrite !Hrep by assumption. destruct (offset L j <? 16) eqn:Ek; [apply Z.ltb_lt in Ek; lia|].
          rewrite !andb_false_r. assumption.
        * intros k Hk. rewrite !Hrep by assumption. rewrite H1, H1'. simpl (1 =? 1). simpl andb.
          destruct (offset L k <? 16); [reflexivity|]. now apply Hoth.
    - intros Hne H1.
      assert (Hi2 : i = 36 \/ i = 42).
      { destruct (Z.eq_dec i 36); [lia|]. destruct (Z.eq_dec i 42); [lia|]. exfalso. apply Hne.
        unfold v, v'. rewrite !znth_upd_other by lia. reflexivity. }
      assert (Hoj : 16 <= offset L j) by (apply (aligned_no_straddle L 16 i j Hal Hj); lia).
      split.
      + rewrite !Hrep by assumption. destruct (offset L j <? 16) eqn:Ek; [apply Z.ltb_lt in Ek; lia|].
        rewrite !andb_false_r. assumption.
      + intros k Hk Hok'. rewrite !Hrep by assumption.
        destruct (offset L k <? 16) eqn:Ek; [apply Z.ltb_lt in Ek; lia|]. rewrite !andb_false_r. now apply Hoth.
  Qed.
End Locality.

(* ---- non-vacuity on the layout of the tree the proofs were developed against ---- *)
Local Open Scope string_scope.
Definition sample_layout : tlayout :=
  ([("MakerCode", 2, Some 65456); ("GameCode", 4, Some 65458)] ++
  map (fun i => ("Fixed1", 1, None)) (seq 0 6) ++
  [("FlashSize", 1, Some 65468); ("ExpansionRAMSize", 1, Some 65469); ("SpecialVersion", 1, Some 65470);
   ("CoCPUType", 1, Some 65471)] ++
  map (fun i => ("Title", 1, Some (65472 + Z.of_nat i))) (seq 0 21) ++
  [("MapMode", 1, Some 65493); ("CartridgeType", 1, Some 65494); ("ROMSize", 1, Some 65495);
   ("RAMSize", 1, Some 65496); ("DestinationCode", 1, Some 65497); ("OldMakerCode", 1, Some 65498);
   ("MaskROMVersion", 1, Some 65499); ("ComplementCheckSum", 2, Some 65500); ("CheckSum", 2, Some 65502)] ++
  map (fun i => ("NativeVectors.Unused1", 1, None)) (seq 0 4) ++
  [("NativeVectors.COP", 2, Some 65508); ("NativeVectors.BRK", 2, Some 65510); ("NativeVectors.ABORT", 2, Some 65512);
   ("NativeVectors.NMI", 2, Some 65514); ("NativeVectors.Unused2", 2, None); ("NativeVectors.IRQ", 2, Some 65518)] ++
  map (fun i => ("EmulatedVectors.Unused1", 1, None)) (seq 0 4) ++
  [("EmulatedVectors.COP", 2, Some 65524); ("EmulatedVectors.Unused2", 2, None); ("EmulatedVectors.ABORT", 2, Some 65528);
   ("EmulatedVectors.NMI", 2, Some 65530); ("EmulatedVectors.RESET", 2, Some 65532); ("EmulatedVectors.IRQBRK", 2, Some 65534)])%list.
Local Close Scope string_scope.

Example sample_layout_ok : layout_ok sample_layout = true.
Proof. vm_compute. reflexivity. Qed.

(* 80 bytes 1..80: byte $2A is 43 <> $33 and byte $24 is 37 <> 0, so version 1 and the first seven
   (16 bytes of) fields are reported as 0 although the bytes are 1..16 *)
Definition sample_bytes : list Z := ziota 1 80.
Definition view (r : option header) := option_map (fun h => (hver h, firstn 3 (hvals h), nth 38 (hvals h) 0, nth 41 (hvals h) 0)) r.
Example sample_v1 : view (read_header (untag sample_layout) sample_bytes) = Some (1, [0; 0; 0], 43, 47 + 256 * 48).
Proof. vm_compute. reflexivity. Qed.
(* changing byte $FFDA of that header to $33 changes the version to 3 AND un-zeroes the extension fields:
   the explicit "may change the version" case of the locality clause *)
Example sample_version_change :
  view (read_header (untag sample_layout) (upd sample_bytes 42 51)) = Some (3, [1 + 256 * 2; 3 + 256 * (4 + 256 * (5 + 256 * 6)); 7], 51, 47 + 256 * 48).
Proof. vm_compute. reflexivity. Qed.
(* changing byte $FFB3 of the version-1 header changes no reported field *)
Example sample_v1_ext_byte :
  read_header (untag sample_layout) (upd sample_bytes 3 200) = read_header (untag sample_layout) sample_bytes.
Proof. vm_compute. reflexivity. Qed.
Example sample_image_roundtrip :
  let img := ziota 0 32768 in
  match new_rom (untag sample_layout) (map (fun x => x mod 256) img) with
  | Some (HOk (Some h)) => hver h = 1
  | _ => False
  end.
Proof. vm_compute. reflexivity. Qed.
