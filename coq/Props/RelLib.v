(* Two-run reasoning over the regenerated interpreter models: a routine run from two states that agree on
   registers, memory and callbacks (they may differ in the recorded bus trace) gives the same result, the same panic
   status, and states that agree again.  This is "the interpreters never look at the recorded trace", the fact that
   Props/DisasmProps.v (C14: tracing does not perturb execution) needs about the regenerated Step.
   The per-run file build/work/Run/C14_rel_<model>.v states one lemma per translated routine and proves it with
   [rel_run] below. *)
From Coq Require Import ZArith List Bool NArith.
From Lib Require Import ZOps Machine.
Import ListNotations.
Local Open Scope Z_scope.

Definition same (s1 s2 : st) : Prop :=
  regs s1 = regs s2 /\ mem s1 = mem s2 /\ onpc s1 = onpc s2 /\ onwdm s1 = onwdm s2.

Definition rsame {A} (r1 r2 : res A) : Prop :=
  match r1, r2 with
  | Ok a s1, Ok b s2 => a = b /\ same s1 s2
  | Panic, Panic => True
  | _, _ => False
  end.

Lemma same_refl s : same s s.
Proof. repeat split. Qed.

Lemma same_get f s1 s2 : same s1 s2 -> get f s1 = get f s2.
Proof. intros (H & _). unfold get. rewrite H. reflexivity. Qed.

Lemma same_set f v s1 s2 : same s1 s2 -> same (set f v s1) (set f v s2).
Proof. intros (H1 & H2 & H3 & H4). unfold same, set; simpl. rewrite H1. repeat split; assumption. Qed.

Lemma same_log e1 e2 s1 s2 : same s1 s2 -> same (log e1 s1) (log e2 s2).
Proof. intros (H1 & H2 & H3 & H4). unfold same, log; simpl. repeat split; assumption. Qed.

Lemma same_upd a v s1 s2 : same s1 s2 -> same (upd a v s1) (upd a v s2).
Proof. intros (H1 & H2 & H3 & H4). unfold same, upd; simpl. rewrite H2. repeat split; assumption. Qed.

Lemma rsame_bind {A B} (m1 m2 : res A) (k1 k2 : A -> st -> res B) :
  rsame m1 m2 -> (forall a s1 s2, same s1 s2 -> rsame (k1 a s1) (k2 a s2)) -> rsame (bind m1 k1) (bind m2 k2).
Proof.
  destruct m1 as [a s1|], m2 as [b s2|]; simpl; intros H Hk; try contradiction; [|exact I].
  destruct H as [E Hs]. subst b. apply Hk. exact Hs.
Qed.

(* machine primitives *)
Lemma rel_seg_get i s1 s2 : same s1 s2 -> rsame (seg_get i s1) (seg_get i s2).
Proof. intro H. unfold seg_get. destruct (seg_ok i); simpl; auto. Qed.
Lemma rel_mem_read h a s1 s2 : same s1 s2 -> rsame (mem_read h a s1) (mem_read h a s2).
Proof.
  intro H. unfold mem_read. destruct (addr_ok a); simpl; [|exact I].
  destruct H as (H1 & H2 & H3 & H4). rewrite H2. split; [reflexivity|]. apply same_log. repeat split; assumption.
Qed.
Lemma rel_mem_write h a v s1 s2 : same s1 s2 -> rsame (mem_write h a v s1) (mem_write h a v s2).
Proof. intro H. unfold mem_write. destruct (addr_ok a); simpl; [|exact I]. split; [reflexivity|]. apply same_log. apply same_upd. exact H. Qed.
Lemma rel_bus_read i a s1 s2 : same s1 s2 -> rsame (bus_read i a s1) (bus_read i a s2).
Proof. intro H. unfold bus_read. destruct (seg_ok i); [apply rel_mem_read; exact H | exact I]. Qed.
Lemma rel_bus_write i a v s1 s2 : same s1 s2 -> rsame (bus_write i a v s1) (bus_write i a v s2).
Proof. intro H. unfold bus_write. destruct (seg_ok i); [apply rel_mem_write; exact H | exact I]. Qed.
Lemma rel_cb_pc a s1 s2 : same s1 s2 -> rsame (cb_pc a s1) (cb_pc a s2).
Proof.
  intro H. unfold cb_pc; simpl. split; [reflexivity|]. destruct H as (H1 & H2 & H3 & H4). rewrite H3.
  destruct (onpc s2 a); [apply same_log|]; repeat split; assumption.
Qed.
Lemma rel_cb_call_OnWDM v s1 s2 : same s1 s2 -> rsame (cb_call_OnWDM v s1) (cb_call_OnWDM v s2).
Proof. intro H. unfold cb_call_OnWDM; simpl. split; [reflexivity|]. apply same_log. exact H. Qed.
Lemma same_cb_absent s1 s2 : same s1 s2 -> cb_absent_OnWDM s1 = cb_absent_OnWDM s2.
Proof. intros (_ & _ & _ & H). unfold cb_absent_OnWDM. rewrite H. reflexivity. Qed.
Lemma same_seg_nil h s1 s2 : seg_nil h s1 = seg_nil h s2.
Proof. reflexivity. Qed.

Ltac head_of2 t :=
  lazymatch t with
  | ?f _ _ _ _ _ _ _ => head_of2 f
  | ?f _ _ _ _ => head_of2 f
  | ?f _ _ => head_of2 f
  | ?f _ => head_of2 f
  | _ => t
  end.

(* make the left run read its registers from the right state: afterwards pure expressions coincide *)
Ltac to_right s1 s2 H :=
  repeat match goal with
         | |- context [get ?f s1] => rewrite (same_get f s1 s2 H)
         | |- context [cb_absent_OnWDM s1] => rewrite (same_cb_absent s1 s2 H)
         end.

Ltac rel_prim :=
  first [ eapply rel_mem_read | eapply rel_mem_write | eapply rel_bus_read | eapply rel_bus_write
        | eapply rel_seg_get | eapply rel_cb_pc | eapply rel_cb_call_OnWDM ].

(* goal: rsame (P s1) (P s2) with Hs : same s1 s2 in the context (the most recent [same] hypothesis is the live one) *)
Ltac rel_step call :=
  lazymatch goal with
  | |- rsame (bind _ _) (bind _ _) =>
      eapply rsame_bind;
      [ first [ rel_prim | call tt ]; eassumption
      | let a := fresh "a" in let s1 := fresh "sl" in let s2 := fresh "sr" in let Hs := fresh "Hs" in
        intros a s1 s2 Hs; cbv beta; to_right s1 s2 Hs ]
  | |- rsame (let x := set ?f ?v ?s1 in @?b1 x) (let y := set ?f ?v ?s2 in @?b2 y) =>
      match goal with
      | H : same s1 s2 |- _ =>
          let Hn := fresh "Hs" in
          pose proof (same_set f v s1 s2 H) as Hn;
          change (rsame (b1 (set f v s1)) (b2 (set f v s2))); cbv beta;
          let t1 := fresh "sl" in let t2 := fresh "sr" in
          generalize dependent (set f v s1); intro t1; generalize dependent (set f v s2); intros t2 Hn;
          to_right t1 t2 Hn
      end
  | |- rsame (let x := ?e in @?b1 x) (let y := ?e in @?b2 y) =>
      let x' := fresh "x" in
      pose (x' := e); change (rsame (b1 x') (b2 x')); cbv beta;
      lazymatch type of e with
      | st -> res _ =>
          let Hk := fresh "Hk" in
          assert (Hk : forall s1 s2, same s1 s2 -> rsame (x' s1) (x' s2));
          [ let s1 := fresh "sl" in let s2 := fresh "sr" in let Hs := fresh "Hs" in
            intros s1 s2 Hs; cbv beta delta [x']; clear x'; to_right s1 s2 Hs | clearbody x' ]
      | _ -> st -> res _ =>
          let Hk := fresh "Hk" in
          assert (Hk : forall a1 s1 s2, same s1 s2 -> rsame (x' a1 s1) (x' a1 s2));
          [ let a1 := fresh "a" in let s1 := fresh "sl" in let s2 := fresh "sr" in let Hs := fresh "Hs" in
            intros a1 s1 s2 Hs; cbv beta delta [x']; clear x'; to_right s1 s2 Hs | clearbody x' ]
      | _ -> _ -> _ -> _ -> _ -> st -> res _ =>
          let Hk := fresh "Hk" in
          assert (Hk : forall a1 a2 a3 a4 a5 s1 s2, same s1 s2 -> rsame (x' a1 a2 a3 a4 a5 s1) (x' a1 a2 a3 a4 a5 s2));
          [ let s1 := fresh "sl" in let s2 := fresh "sr" in let Hs := fresh "Hs" in
            intros ? ? ? ? ? s1 s2 Hs; cbv beta delta [x']; clear x'; to_right s1 s2 Hs | clearbody x' ]
      | _ => idtac
      end
  | |- rsame (if ?c then _ else _) (if ?c then _ else _) => case c
  | |- rsame (Ok _ _) (Ok _ _) => split; [ reflexivity | eassumption ]
  | |- rsame Panic Panic => exact I
  | |- rsame ?t1 ?t2 =>
      let h := head_of2 t1 in
      first [ is_var h; match goal with Hk : context [h] |- _ => eapply Hk; eassumption end
            | call tt; eassumption ]
  end.

Ltac rel_run call := cbv beta iota delta [seg_nil orb]; repeat (rel_step call).
