(* C01 refinement lemmas, calls and returns: JSR abs / (abs,X), JSL, RTS, RTL (see C01JmpBase.v, C01JmpTac.v).

   snapshot_dep: op_jsr, op_jsl, op_rts, op_rtl, cmdRead16, push, push16, pull, pull16, nRead16_wrap *)
From Coq Require Import ZArith NArith List Bool Lia.
From Spec Require Import ISA Spec816.
From Lib Require Import ZOps Machine.
From Snapshot Require Import GenFields GenCpu65.
From Props Require Import C01Base C01Flow C01Imm C01JmpBase C01JmpTac.
Import ListNotations.
Local Open Scope Z_scope.
Arguments Z.modulo : simpl never.
Arguments Z.lor : simpl never.
Arguments Z.land : simpl never.
Arguments Z.shiftl : simpl never.
Arguments Z.shiftr : simpl never.

Lemma ref_60 : refines_op 96.
Proof.
  start_mode Step_imp8m 96. pose_ranges s W.
  cbv beta zeta delta [op_rts]. rewrite pull16_ok by jside s W s1 Hs1 HE. rewrite !bind_Ok. cbv beta.
  jfin s W Hop s1 Hs1 Hm1 RTS Imp.
Qed.

Lemma ref_6B : refines_op 107.
Proof.
  start_mode Step_imp8m 107. pose_ranges s W.
  cbv beta zeta delta [op_rtl]. rewrite pull16_ok by jside s W s1 Hs1 HE. rewrite !bind_Ok. cbv beta.
  rewrite pull_ok by jside s W s1 Hs1 HE. rewrite !bind_Ok. cbv beta.
  jfin s W Hop s1 Hs1 Hm1 RTL Imp.
Qed.

Lemma ref_20 : refines_op 32.
Proof.
  start_mode Step_abs1 32. pose_ranges s W. opnd_ranges s.
  cbv beta zeta delta [op_jsr]. rewrite push16_ok by jside s W s1 Hs1 HE. rewrite !bind_Ok. cbv beta zeta.
  jnorm. mode_tests Hmd 1. rewrite ?bind_Ok.
  jfin s W Hop s1 Hs1 Hm1 JSR Abs.
Qed.

Lemma ref_22 : refines_op 34.
Proof.
  start_mode Step_long20 34. pose_ranges s W. opnd_ranges s.
  cbv beta zeta delta [op_jsl]. rewrite (same_get s s1 f_RK Hs1 eq_refl).
  rewrite push_ok by jside s W s1 Hs1 HE. rewrite !bind_Ok. cbv beta. jnorm.
  rewrite push16_ok by jside s W s1 Hs1 HE. rewrite !bind_Ok. cbv beta.
  jfin s W Hop s1 Hs1 Hm1 JSL Long.
Qed.

Lemma ref_FC : refines_op 252.
Proof.
  start_mode Step_indx17 252. pose_ranges s W. opnd_ranges s.
  cbv beta zeta delta [op_jsr]. rewrite push16_ok by jside s W s1 Hs1 HE. rewrite !bind_Ok. cbv beta zeta.
  jnorm. cbv beta zeta delta [cmdRead16]. jnorm. mode_tests Hmd 17. rewrite Hfa.
  rewrite conv16_bank by add16_rng. rewrite (same_get s s1 f_RK Hs1 eq_refl).
  rewrite nRead16_wrap_rd by (assumption || add16_rng). rewrite !bind_Ok. cbv beta.
  split_X s W; jfin s W Hop s1 Hs1 Hm1 JSR AbsIndX.
Qed.
