(* C12 (iii): System.RunUntil always stops within its budget.
   The loop is Model.Disasm.run_until (mirrors emulator/system.go: func RunUntil; fuel is explicit so that the
   function is total; OutOfFuel is the error value).  The theorems are stated over an abstract [step] that satisfies
   the contract proved per run for the regenerated interpreters (C08: no panic on good states; C12 (i): every Step
   reports between 1 and 255 cycles): the fuel only appears in the statement (any fuel > maxCycles will do), it is
   never computed. *)
From Coq Require Import ZArith NArith List Bool Lia.
From Lib Require Import ZOps Machine.
From Model Require Import Disasm.
Import ListNotations.
Local Open Scope Z_scope.

Section Run.
  Variable f : fields.
  Variable step : st -> res (Z * bool).
  Variable good : st -> Prop.
  Hypothesis step_ok : forall s, good s ->
    match step s with
    | Ok (n, _) s' => 1 <= n <= 255 /\ good s'
    | Panic => False
    end.

  (* the same loop without a logger, recording the (consumed cycles, state) at which each Step was executed *)
  Fixpoint run_tr (fuel : nat) (target maxc cycles : Z) (s : st) : option (list (Z * st) * (bool * Z * st)) :=
    match fuel with
    | O => None
    | S k =>
        if w_ltb cycles maxc then
          if w_eqb (get_pc f s) target then Some ([], (true, cycles, s))
          else match step s with
               | Panic => None
               | Ok (n, _) s' =>
                   match run_tr k target maxc (add64 cycles (conv64 n)) s' with
                   | None => None
                   | Some (l, r) => Some ((cycles, s) :: l, r)
                   end
               end
        else Some ([], (w_eqb (get_pc f s) target, cycles, s))
    end.

  Lemma run_until_run_tr : forall fuel target maxc cycles s acc,
    match run_tr fuel target maxc cycles s with
    | Some (_, (b, c, s')) => run_until f step None fuel target maxc cycles s acc = Done b c s' acc
    | None => True
    end.
  Proof.
    induction fuel as [|k IH]; intros target maxc cycles s acc; simpl; [exact I|].
    destruct (w_ltb cycles maxc); [|reflexivity].
    destruct (w_eqb (get_pc f s) target); [reflexivity|].
    destruct (step s) as [[n b] s'|]; [|exact I].
    specialize (IH target maxc (add64 cycles (conv64 n)) s' acc).
    destruct (run_tr k target maxc (add64 cycles (conv64 n)) s') as [[l [[b' c'] s'']]|]; [exact IH|exact I].
  Qed.

  Definition step_pre (target maxc : Z) (p : Z * st) : Prop :=
    fst p < maxc /\ get_pc f (snd p) <> target /\ good (snd p).

  (* RunUntil always returns: for every budget below 2^64 - 255 and every fuel above the budget *)
  Theorem run_tr_total : forall fuel target maxc cycles s,
    good s -> 0 <= cycles -> maxc + 255 < 2 ^ 64 -> cycles < maxc + 255 ->
    (Z.to_nat (maxc - cycles) < fuel)%nat ->
    exists l b c s',
      run_tr fuel target maxc cycles s = Some (l, (b, c, s')) /\
      Forall (step_pre target maxc) l /\                      (* every executed Step started under the budget, away from the target *)
      (get_pc f s = target -> l = [] /\ s' = s) /\              (* already there: nothing is executed *)
      (b = true <-> get_pc f s' = target) /\                    (* the answer is truthful on exit *)
      good s' /\ cycles <= c /\ c < maxc + 255 /\
      (b = false -> maxc <= c).                                 (* it gives up only when the budget is used up *)
  Proof.
    induction fuel as [|k IH]; intros target maxc cycles s Hg Hc Hm Hcm Hf; [lia|].
    simpl. unfold w_ltb, w_eqb.
    destruct (cycles <? maxc) eqn:E1.
    - apply Z.ltb_lt in E1.
      destruct (get_pc f s =? target) eqn:E2.
      + apply Z.eqb_eq in E2. exists [], true, cycles, s. repeat split; auto; try lia; try discriminate.
      + apply Z.eqb_neq in E2.
        pose proof (step_ok s Hg) as Hs. destruct (step s) as [[n b0] s1|]; [|contradiction].
        destruct Hs as [Hn Hg1].
        assert (Hadd : add64 cycles (conv64 n) = cycles + n).
        { unfold add64, conv64. change 18446744073709551616 with (2 ^ 64).
          rewrite (Z.mod_small n) by lia. apply Z.mod_small. lia. }
        rewrite Hadd.
        destruct (IH target maxc (cycles + n) s1 Hg1 ltac:(lia) Hm ltac:(lia) ltac:(lia))
          as (l & b & c & s' & Hr & Hl & H0 & Hb & Hg' & Hc1 & Hc2 & Hc3).
        rewrite Hr. exists ((cycles, s) :: l), b, c, s'.
        split; [reflexivity|]. split; [constructor; [unfold step_pre; simpl; auto | exact Hl]|].
        split; [intro; contradiction|]. split; [exact Hb|]. repeat split; auto; lia.
    - apply Z.ltb_ge in E1. exists [], (get_pc f s =? target), cycles, s.
      split; [reflexivity|]. split; [constructor|]. split; [auto|]. split; [apply Z.eqb_eq|].
      repeat split; auto; lia.
  Qed.

  (* the statement for RunUntil itself (no logger): it returns, truthfully, and never runs out of fuel or crashes *)
  Theorem C12_run_until : forall fuel target maxc s acc,
    good s -> 0 <= maxc -> maxc + 255 < 2 ^ 64 -> (Z.to_nat maxc < fuel)%nat ->
    exists b c s',
      run_until f step None fuel target maxc 0 s acc = Done b c s' acc /\
      (b = true <-> get_pc f s' = target) /\
      (get_pc f s = target -> s' = s) /\
      (b = false -> maxc <= c) /\ c < maxc + 255 /\ good s'.
  Proof.
    intros fuel target maxc s acc Hg Hm0 Hm Hf.
    destruct (run_tr_total fuel target maxc 0 s Hg ltac:(lia) Hm ltac:(lia) ltac:(rewrite Z.sub_0_r; exact Hf))
      as (l & b & c & s' & Hr & Hl & H0 & Hb & Hg' & Hc1 & Hc2 & Hc3).
    pose proof (run_until_run_tr fuel target maxc 0 s acc) as H. rewrite Hr in H.
    exists b, c, s'. split; [exact H|]. split; [exact Hb|]. split; [intro E; apply (H0 E)|].
    repeat split; auto; lia.
  Qed.
End Run.

(* non-vacuity: a toy step that always reports 3 cycles and increments PC satisfies the contract *)
Example toy_contract :
  let step := fun s : st => Ok (3, false) (set 1%N ((get 1%N s + 1) mod 65536) s) in
  forall s, True -> match step s with Ok (n, _) s' => 1 <= n <= 255 /\ True | Panic => False end.
Proof. intros step s _. simpl. lia. Qed.
