(* Theorems about the generic little-endian layout codec (Model/Layout.v), for EVERY layout:
     encode_decode      length bs = size L -> encode L (decode L bs) = bs
     decode_encode      in-range values    -> decode L (encode L vs) = vs, |encode L vs| = size L
     decode_total       decode L bs = None <-> |bs| < size L
     decode_nth         field j is the little-endian value of bytes [offset j, offset j + size j)
     decode_locality    changing one byte changes exactly the field whose slice covers it
                        (little-endian injectivity), no field if the byte lies beyond the layout *)
From Coq Require Import ZArith String List Bool Lia.
From Lib Require Import ZList.
From Model Require Import Layout.
Import ListNotations.
Local Open Scope Z_scope.

(* ---- small list facts ---- *)
Lemma ztake_cons : forall A (x : A) l n, 0 < n -> ztake n (x :: l) = x :: ztake (n - 1) l.
Proof.
  intros A x l n Hn. unfold ztake. replace (Z.to_nat n) with (S (Z.to_nat (n - 1))) by lia. reflexivity.
Qed.
Lemma zdrop_cons : forall A (x : A) l n, 0 < n -> zdrop n (x :: l) = zdrop (n - 1) l.
Proof.
  intros A x l n Hn. unfold zdrop. replace (Z.to_nat n) with (S (Z.to_nat (n - 1))) by lia. reflexivity.
Qed.
Lemma ztake_app_in : forall A (pre post : list A) x n, zlen pre < n ->
  ztake n (pre ++ x :: post) = pre ++ x :: ztake (n - zlen pre - 1) post.
Proof.
  intros A pre post x n Hn. rewrite ztake_app. rewrite ztake_all by lia.
  rewrite ztake_cons by lia. repeat f_equal; lia.
Qed.
Lemma zdrop_app_in : forall A (pre post : list A) x n, zlen pre < n ->
  zdrop n (pre ++ x :: post) = zdrop (n - zlen pre - 1) post.
Proof.
  intros A pre post x n Hn. rewrite zdrop_app. rewrite zdrop_all by lia.
  rewrite zdrop_cons by lia. simpl. f_equal; lia.
Qed.
Lemma ztake_app_out : forall A (pre post : list A) n, n <= zlen pre -> ztake n (pre ++ post) = ztake n pre.
Proof. intros. rewrite ztake_app. rewrite (ztake_nonpos _ post) by lia. apply app_nil_r. Qed.
Lemma zdrop_app_out : forall A (pre post : list A) n, n <= zlen pre -> zdrop n (pre ++ post) = zdrop n pre ++ post.
Proof. intros. rewrite zdrop_app. rewrite (zdrop_nonpos _ post) by lia. reflexivity. Qed.

Lemma fsz_nonneg : forall f, 0 <= fsz f.
Proof. intro f. unfold fsz. lia. Qed.
Lemma size_nonneg : forall L, 0 <= size L.
Proof.
  induction L as [|f L IH]; unfold size in *; simpl; [lia|]. pose proof (fsz_nonneg f). lia.
Qed.
Lemma size_cons : forall f L, size (f :: L) = fsz f + size L.
Proof. reflexivity. Qed.

(* ---- little-endian numbers ---- *)
Lemma le_enc_length : forall n v, length (le_enc n v) = n.
Proof. induction n as [|n IH]; intro v; simpl; [reflexivity|]. now rewrite IH. Qed.
Lemma zlen_le_enc : forall n v, zlen (le_enc n v) = Z.of_nat n.
Proof. intros. unfold zlen. now rewrite le_enc_length. Qed.
Lemma le_enc_bytes : forall n v, bytes_ok (le_enc n v).
Proof.
  induction n as [|n IH]; intro v; simpl; constructor; [|apply IH].
  unfold is_byte. apply Z.mod_pos_bound. lia.
Qed.
Lemma pow256_pos : forall n, 0 <= n -> 0 < 256 ^ n.
Proof. intros. apply Z.pow_pos_nonneg; lia. Qed.
Lemma le_dec_range : forall bs, bytes_ok bs -> 0 <= le_dec bs < 256 ^ zlen bs.
Proof.
  induction bs as [|b bs IH]; intro H.
  - unfold zlen. simpl. lia.
  - inversion H as [|? ? Hb Hr]; subst. specialize (IH Hr). unfold is_byte in Hb.
    rewrite zlen_cons. rewrite Z.pow_add_r by (pose proof (zlen_nonneg _ bs); lia).
    cbn [le_dec]. change (256 ^ 1) with 256. nia.
Qed.
Lemma le_dec_enc : forall n v, 0 <= v < 256 ^ Z.of_nat n -> le_dec (le_enc n v) = v.
Proof.
  induction n as [|n IH]; intros v Hv.
  - simpl in *. lia.
  - cbn [le_enc le_dec]. rewrite IH.
    + pose proof (Z.div_mod v 256). lia.
    + rewrite Nat2Z.inj_succ, Z.pow_succ_r in Hv by lia.
      split; [apply Z.div_pos; lia|apply Z.div_lt_upper_bound; lia].
Qed.
Lemma le_enc_dec : forall bs, bytes_ok bs -> le_enc (length bs) (le_dec bs) = bs.
Proof.
  induction bs as [|b bs IH]; intro H; [reflexivity|].
  inversion H as [|? ? Hb Hr]; subst. unfold is_byte in Hb. cbn [length le_enc le_dec].
  assert (E1 : (b + 256 * le_dec bs) mod 256 = b).
  { pose proof (le_dec_range bs Hr). clear IH. Z.div_mod_to_equations. lia. }
  assert (E2 : (b + 256 * le_dec bs) / 256 = le_dec bs).
  { pose proof (le_dec_range bs Hr). clear IH. Z.div_mod_to_equations. lia. }
  rewrite E1, E2, IH by assumption. reflexivity.
Qed.
Lemma le_dec_app : forall a b, le_dec (a ++ b) = le_dec a + 256 ^ zlen a * le_dec b.
Proof.
  induction a as [|x a IH]; intro b.
  - unfold zlen. simpl. destruct (le_dec b); reflexivity.
  - cbn [app le_dec]. rewrite IH, zlen_cons.
    rewrite Z.pow_add_r by (pose proof (zlen_nonneg _ a); lia). change (256 ^ 1) with 256. ring.
Qed.
(* little-endian injectivity, in the form locality needs: one byte differs -> the value differs *)
Lemma le_dec_one_byte : forall pre x y post, x <> y -> le_dec (pre ++ x :: post) <> le_dec (pre ++ y :: post).
Proof.
  intros pre x y post Hxy E. rewrite !le_dec_app in E. cbn [le_dec] in E.
  pose proof (pow256_pos (zlen pre) (zlen_nonneg _ pre)). nia.
Qed.
Lemma le_dec_inj : forall a b, bytes_ok a -> bytes_ok b -> length a = length b -> le_dec a = le_dec b -> a = b.
Proof.
  intros a b Ha Hb Hl E. rewrite <- (le_enc_dec a Ha), <- (le_enc_dec b Hb). now rewrite Hl, E.
Qed.
Lemma le_enc_zero : forall n, le_enc n 0 = repeat 0 n.
Proof. induction n as [|n IH]; [reflexivity|]. cbn [le_enc repeat]. change (0 mod 256) with 0. change (0 / 256) with 0. now rewrite IH. Qed.

(* ---- decode ---- *)
Lemma decode_length : forall L bs vs, decode L bs = Some vs -> length vs = length L.
Proof.
  induction L as [|f L IH]; intros bs vs H; simpl in H.
  - now inversion H.
  - destruct (zlen bs <? fsz f); [discriminate|].
    destruct (decode L (zdrop (fsz f) bs)) as [vs0|] eqn:E; [|discriminate].
    inversion H; subst. simpl. f_equal. eapply IH; eauto.
Qed.

Theorem decode_total : forall L bs, decode L bs = None <-> zlen bs < size L.
Proof.
  induction L as [|f L IH]; intro bs.
  - simpl. unfold size. simpl. pose proof (zlen_nonneg _ bs). split; [discriminate|lia].
  - rewrite size_cons. cbn [decode]. pose proof (fsz_nonneg f) as Hk.
    destruct (zlen bs <? fsz f) eqn:E.
    + apply Z.ltb_lt in E. pose proof (size_nonneg L). split; [lia|reflexivity].
    + apply Z.ltb_ge in E. specialize (IH (zdrop (fsz f) bs)). rewrite zlen_zdrop in IH by lia.
      destruct (decode L (zdrop (fsz f) bs)) as [vs|].
      * split; [discriminate|]. intro Hl. assert (X : @None (list Z) = None) by reflexivity.
        destruct IH as [_ IH2]. assert (Hc : Z.max 0 (zlen bs - fsz f) < size L) by lia.
        specialize (IH2 Hc). discriminate.
      * split; [|reflexivity]. intros _. destruct IH as [IH1 _]. specialize (IH1 eq_refl). lia.
Qed.

Corollary decode_some : forall L bs, size L <= zlen bs -> exists vs, decode L bs = Some vs.
Proof.
  intros L bs H. destruct (decode L bs) as [vs|] eqn:E; [eauto|]. apply decode_total in E. lia.
Qed.

Lemma in_range_length : forall L vs, in_range L vs = true -> length vs = length L.
Proof.
  induction L as [|f L IH]; intros [|v vs] H; simpl in H; try discriminate; [reflexivity|].
  apply andb_true_iff in H. destruct H as [_ H]. simpl. f_equal. now apply IH.
Qed.

Lemma decode_in_range : forall L bs vs, bytes_ok bs -> decode L bs = Some vs -> in_range L vs = true.
Proof.
  induction L as [|f L IH]; intros bs vs Hb H; cbn [decode] in H.
  - now inversion H.
  - destruct (zlen bs <? fsz f) eqn:E; [discriminate|]. apply Z.ltb_ge in E.
    destruct (decode L (zdrop (fsz f) bs)) as [vs0|] eqn:E2; [|discriminate].
    inversion H; subst. cbn [in_range]. pose proof (fsz_nonneg f) as Hk.
    rewrite (IH _ _ (bytes_ok_zdrop _ _ Hb) E2), andb_true_r.
    pose proof (le_dec_range _ (bytes_ok_ztake bs (fsz f) Hb)) as R.
    rewrite zlen_ztake in R by lia. rewrite Z.min_l in R by lia.
    apply andb_true_iff. split; [apply Z.leb_le|apply Z.ltb_lt]; lia.
Qed.

(* serialising what was parsed gives back the bytes *)
Theorem encode_decode : forall L bs vs, bytes_ok bs -> zlen bs = size L -> decode L bs = Some vs -> encode L vs = bs.
Proof.
  induction L as [|f L IH]; intros bs vs Hb Hl H; cbn [decode] in H.
  - inversion H; subst. unfold size in Hl. simpl in Hl. simpl. symmetry. now apply zlen_0_nil.
  - rewrite size_cons in Hl. pose proof (fsz_nonneg f) as Hk. pose proof (size_nonneg L) as HL.
    destruct (zlen bs <? fsz f) eqn:E; [discriminate|]. apply Z.ltb_ge in E.
    destruct (decode L (zdrop (fsz f) bs)) as [vs0|] eqn:E2; [|discriminate].
    inversion H; subst. cbn [encode].
    rewrite (IH (zdrop (fsz f) bs) vs0 (bytes_ok_zdrop bs (fsz f) Hb)); [| rewrite zlen_zdrop by lia; lia | exact E2].
    assert (Hn : Z.to_nat (fsz f) = length (ztake (fsz f) bs)).
    { unfold ztake. rewrite firstn_length. unfold zlen in *. lia. }
    rewrite Hn, le_enc_dec by (now apply bytes_ok_ztake). apply ztake_zdrop_id.
Qed.

(* parsing what was serialised gives back the values; the serialisation has the layout's size *)
Lemma zlen_encode : forall L vs, length vs = length L -> zlen (encode L vs) = size L.
Proof.
  induction L as [|f L IH]; intros [|v vs] Hl; simpl in Hl; try discriminate; [reflexivity|].
  cbn [encode]. rewrite zlen_app, zlen_le_enc, size_cons, IH by lia. pose proof (fsz_nonneg f). lia.
Qed.
Lemma encode_bytes : forall L vs, bytes_ok (encode L vs).
Proof.
  induction L as [|f L IH]; intros [|v vs]; cbn [encode]; try constructor.
  apply bytes_ok_app. split; [apply le_enc_bytes|apply IH].
Qed.
Theorem decode_encode : forall L vs, in_range L vs = true -> decode L (encode L vs) = Some vs.
Proof.
  induction L as [|f L IH]; intros [|v vs] H; simpl in H; try discriminate; [reflexivity|].
  apply andb_true_iff in H. destruct H as [Hv H]. apply andb_true_iff in Hv. destruct Hv as [Hv1 Hv2].
  apply Z.leb_le in Hv1. apply Z.ltb_lt in Hv2. pose proof (fsz_nonneg f) as Hk.
  cbn [encode decode].
  assert (Hz : zlen (le_enc (Z.to_nat (fsz f)) v) = fsz f) by (rewrite zlen_le_enc; lia).
  rewrite zlen_app, Hz. pose proof (zlen_nonneg _ (encode L vs)).
  destruct (fsz f + zlen (encode L vs) <? fsz f) eqn:E; [apply Z.ltb_lt in E; lia|].
  rewrite <- Hz at 1. rewrite zdrop_app_exact. rewrite (IH _ H).
  rewrite <- Hz at 1. rewrite ztake_app_exact. rewrite le_dec_enc by (rewrite Z2Nat.id by lia; lia).
  reflexivity.
Qed.

(* ---- offsets ---- *)
Lemma offset_nonneg : forall L j, 0 <= offset L j.
Proof.
  induction L as [|f L IH]; intros [|j]; simpl; try lia. pose proof (fsz_nonneg f). specialize (IH j). lia.
Qed.
Lemma offset_le_size : forall L j, offset L j + nth_size L j <= size L.
Proof.
  induction L as [|f L IH]; intros [|j]; unfold nth_size; simpl.
  - unfold size; simpl; lia.
  - unfold size; simpl; lia.
  - rewrite size_cons. pose proof (size_nonneg L). lia.
  - rewrite size_cons. specialize (IH j). unfold nth_size in IH. lia.
Qed.
Lemma field_of_spec : forall L i j, 0 <= i -> field_of L i = Some j ->
  (j < length L)%nat /\ offset L j <= i < offset L j + nth_size L j.
Proof.
  induction L as [|f L IH]; intros i j Hi H; simpl in H; [discriminate|].
  pose proof (fsz_nonneg f) as Hk.
  destruct (i <? fsz f) eqn:E.
  - inversion H; subst. apply Z.ltb_lt in E. unfold nth_size. simpl. split; lia.
  - apply Z.ltb_ge in E. destruct (field_of L (i - fsz f)) as [j0|] eqn:E2; [|discriminate].
    inversion H; subst. assert (Hi' : 0 <= i - fsz f) by lia. destruct (IH (i - fsz f) j0 Hi' E2) as [A B]. unfold nth_size in *. simpl. split; lia.
Qed.
Lemma field_of_some : forall L i, 0 <= i < size L -> exists j, field_of L i = Some j.
Proof.
  induction L as [|f L IH]; intros i Hi.
  - unfold size in Hi; simpl in Hi; lia.
  - rewrite size_cons in Hi. simpl. destruct (i <? fsz f) eqn:E; [eauto|]. apply Z.ltb_ge in E.
    assert (Hi' : 0 <= i - fsz f < size L) by lia. destruct (IH (i - fsz f) Hi') as [j Hj]. rewrite Hj. simpl. eauto.
Qed.
Lemma field_of_none : forall L i, size L <= i -> field_of L i = None.
Proof.
  induction L as [|f L IH]; intros i Hi; [reflexivity|]. rewrite size_cons in Hi. simpl.
  pose proof (size_nonneg L). destruct (i <? fsz f) eqn:E; [apply Z.ltb_lt in E; lia|].
  rewrite IH by lia. reflexivity.
Qed.
(* covering is a function of the byte: two fields never cover the same byte *)
Lemma field_of_unique : forall L i j, 0 <= i -> (j < length L)%nat ->
  offset L j <= i < offset L j + nth_size L j -> field_of L i = Some j.
Proof.
  induction L as [|f L IH]; intros i j Hi Hj Hc; [simpl in Hj; lia|].
  pose proof (fsz_nonneg f) as Hk. simpl. destruct j as [|j].
  - unfold nth_size in Hc. simpl in Hc. destruct (i <? fsz f) eqn:E; [reflexivity|apply Z.ltb_ge in E; lia].
  - unfold nth_size in Hc. simpl in Hc. simpl in Hj. pose proof (offset_nonneg L j).
    destruct (i <? fsz f) eqn:E; [apply Z.ltb_lt in E; lia|]. apply Z.ltb_ge in E.
    rewrite (IH (i - fsz f) j); [reflexivity|lia|lia|unfold nth_size; lia].
Qed.

(* every field is decoded little-endian from its own slice *)
Theorem decode_nth : forall L bs vs j, decode L bs = Some vs -> (j < length L)%nat ->
  nth j vs 0 = le_dec (slice bs (offset L j) (offset L j + nth_size L j)).
Proof.
  induction L as [|f L IH]; intros bs vs j H Hj; [simpl in Hj; lia|]. cbn [decode] in H.
  pose proof (fsz_nonneg f) as Hk.
  destruct (zlen bs <? fsz f) eqn:E; [discriminate|]. apply Z.ltb_ge in E.
  destruct (decode L (zdrop (fsz f) bs)) as [vs0|] eqn:E2; [|discriminate].
  inversion H; subst. destruct j as [|j]; unfold nth_size; simpl.
  - unfold slice. rewrite zdrop_nonpos by lia. do 2 f_equal. lia.
  - simpl in Hj. rewrite (IH _ _ j E2) by lia. pose proof (offset_nonneg L j).
    rewrite slice_zdrop by lia. unfold nth_size. do 2 f_equal. lia.
Qed.

(* ---- locality ---- *)
Lemma diff_exactly_cons_same : forall v j vs vs', diff_exactly j vs vs' -> diff_exactly (S j) (v :: vs) (v :: vs').
Proof.
  intros v j vs vs' (Hl & Hj & Hd & Ho). repeat split; simpl; try lia; try assumption.
  intros [|j'] Hne; [reflexivity|]. apply Ho. lia.
Qed.

Theorem decode_locality : forall L pre x y post vs vs', x <> y ->
  decode L (pre ++ x :: post) = Some vs -> decode L (pre ++ y :: post) = Some vs' ->
  match field_of L (zlen pre) with
  | Some j => diff_exactly j vs vs'
  | None => vs = vs'
  end.
Proof.
  induction L as [|f L IH]; intros pre x y post vs vs' Hxy H H'; cbn [decode] in H, H'.
  - simpl. congruence.
  - pose proof (fsz_nonneg f) as Hk. pose proof (zlen_nonneg _ pre) as Hp.
    assert (Hlen : zlen (pre ++ y :: post) = zlen (pre ++ x :: post)) by (rewrite !zlen_app, !zlen_cons; lia).
    rewrite Hlen in H'.
    destruct (zlen (pre ++ x :: post) <? fsz f) eqn:E; [discriminate|].
    cbn [field_of]. destruct (zlen pre <? fsz f) eqn:Ein.
    + apply Z.ltb_lt in Ein. rewrite zdrop_app_in in H, H' by lia.
      rewrite ztake_app_in in H, H' by lia.
      destruct (decode L (zdrop (fsz f - zlen pre - 1) post)) as [vs0|] eqn:E2; [|discriminate].
      inversion H; inversion H'; subst. repeat split; simpl; try lia.
      * now apply le_dec_one_byte.
      * intros [|j'] Hne; [lia|reflexivity].
    + apply Z.ltb_ge in Ein. rewrite zdrop_app_out in H, H' by lia.
      rewrite ztake_app_out in H, H' by lia.
      destruct (decode L (zdrop (fsz f) pre ++ x :: post)) as [vs0|] eqn:E2; [|discriminate].
      destruct (decode L (zdrop (fsz f) pre ++ y :: post)) as [vs0'|] eqn:E2'; [|discriminate].
      inversion H; inversion H'; subst.
      specialize (IH _ _ _ _ _ _ Hxy E2 E2'). rewrite zlen_zdrop in IH by lia.
      rewrite Z.max_r in IH by lia.
      destruct (field_of L (zlen pre - fsz f)) as [j|]; simpl.
      * now apply diff_exactly_cons_same.
      * now f_equal.
Qed.

(* the same, stated with [upd]: bs with byte i replaced by b *)
Lemma upd_split : forall bs i b, 0 <= i < zlen bs ->
  bs = ztake i bs ++ znth bs i :: zdrop (i + 1) bs /\ upd bs i b = ztake i bs ++ b :: zdrop (i + 1) bs.
Proof.
  intros bs i b Hi. split.
  - rewrite <- (ztake_zdrop_id _ bs i) at 1. f_equal.
    replace (zdrop i bs) with (slice bs i (i + 1) ++ zdrop (i + 1) bs).
    + rewrite slice_one by lia. reflexivity.
    + unfold slice. replace (i + 1 - i) with 1 by lia.
      rewrite <- (zdrop_zdrop _ bs 1 i) by lia. apply ztake_zdrop_id.
  - unfold upd, splice. rewrite zlen_cons, zlen_nil. reflexivity.
Qed.

Corollary decode_locality_upd : forall L bs i b vs vs', 0 <= i < zlen bs -> b <> znth bs i ->
  decode L bs = Some vs -> decode L (upd bs i b) = Some vs' ->
  match field_of L i with
  | Some j => diff_exactly j vs vs'
  | None => vs = vs'
  end.
Proof.
  intros L bs i b vs vs' Hi Hb H H'. destruct (upd_split bs i b Hi) as [E1 E2].
  rewrite E1 in H. rewrite E2 in H'.
  assert (Hz : zlen (ztake i bs) = i) by (rewrite zlen_ztake by lia; lia).
  pose proof (decode_locality L (ztake i bs) (znth bs i) b (zdrop (i + 1) bs) vs vs' (not_eq_sym Hb) H H') as X.
  now rewrite Hz in X.
Qed.

Lemma zlen_upd : forall bs i b, 0 <= i < zlen bs -> zlen (upd bs i b) = zlen bs.
Proof. intros. unfold upd. apply zlen_splice; [lia|]. rewrite zlen_cons, zlen_nil. lia. Qed.
Lemma bytes_ok_upd : forall bs i b, bytes_ok bs -> is_byte b -> bytes_ok (upd bs i b).
Proof. intros. unfold upd. apply bytes_ok_splice; [assumption|]. constructor; [assumption|constructor]. Qed.
Lemma znth_upd_same : forall bs i b, 0 <= i < zlen bs -> znth (upd bs i b) i = b.
Proof.
  intros. unfold upd. rewrite znth_splice_in; try lia.
  - replace (i - i) with 0 by lia. reflexivity.
  - rewrite zlen_cons, zlen_nil. lia.
Qed.
Lemma znth_upd_other : forall bs i b k, 0 <= i < zlen bs -> k <> i -> znth (upd bs i b) k = znth bs k.
Proof.
  intros. unfold upd. apply znth_splice_out; try lia; rewrite zlen_cons, zlen_nil; lia.
Qed.

(* non-vacuity: a three-field layout, a byte change inside the 2-byte field changes it alone *)
Example locality_example :
  let L := [("a"%string, 1); ("w"%string, 2); ("b"%string, 1)] in
  decode L [1; 2; 3; 4] = Some [1; 770; 4] /\ decode L (upd [1; 2; 3; 4] 2 9) = Some [1; 2306; 4] /\
  field_of L 2 = Some 1%nat /\ encode L [1; 770; 4] = [1; 2; 3; 4].
Proof. repeat split. Qed.
