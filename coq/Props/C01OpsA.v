(* C01 refinement lemmas, family A (see C01Base.v) *)
From Coq Require Import ZArith NArith List Bool Lia.
From Spec Require Import ISA Spec816.
From Lib Require Import ZOps Machine.
From Snapshot Require Import GenFields GenCpu65.
From Props Require Import C01Base.
Local Open Scope Z_scope.
Arguments Z.modulo : simpl never.
Arguments Z.lor : simpl never.
Arguments Z.land : simpl never.
Arguments Z.shiftl : simpl never.
Arguments Z.shiftr : simpl never.

Lemma ref_18 : refines_op 24. Proof. reg_only 24 op_clc CLC Imp. Qed.
Lemma ref_38 : refines_op 56. Proof. reg_only 56 op_sec SEC Imp. Qed.
Lemma ref_58 : refines_op 88. Proof. reg_only 88 op_cli CLI Imp. Qed.
Lemma ref_78 : refines_op 120. Proof. reg_only 120 op_sei SEI Imp. Qed.
Lemma ref_B8 : refines_op 184. Proof. reg_only 184 op_clv CLV Imp. Qed.
Lemma ref_D8 : refines_op 216. Proof. reg_only 216 op_cld CLD Imp. Qed.
Lemma ref_F8 : refines_op 248. Proof. reg_only 248 op_sed SED Imp. Qed.
Lemma ref_EA : refines_op 234. Proof. reg_only 234 op_nop NOP Imp. Qed.
Lemma ref_CB : refines_op 203. Proof. reg_only 203 op_wai WAI Imp. Qed.
Lemma ref_DB : refines_op 219. Proof. reg_only 219 op_stp STP Imp. Qed.
