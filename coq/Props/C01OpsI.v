(* C01 refinement lemmas, family I (immediate operands; see C01Imm.v) *)
From Coq Require Import ZArith NArith List Bool Lia.
From Spec Require Import ISA Spec816.
From Lib Require Import ZOps Machine.
From Snapshot Require Import GenFields GenCpu65.
From Props Require Import C01Base C01Flow C01Imm.
Local Open Scope Z_scope.
Arguments Z.modulo : simpl never.
Arguments Z.lor : simpl never.
Arguments Z.land : simpl never.
Arguments Z.shiftl : simpl never.
Arguments Z.shiftr : simpl never.

Lemma ref_A9 : refines_op 169. Proof. imm_op Step_imm6 ImmM 169 op_lda LDA. Qed.
Lemma ref_A2 : refines_op 162. Proof. imm_op Step_imm7 ImmX 162 op_ldx LDX. Qed.
Lemma ref_A0 : refines_op 160. Proof. imm_op Step_imm7 ImmX 160 op_ldy LDY. Qed.
Lemma ref_89 : refines_op 137. Proof. imm_op Step_imm6 ImmM 137 op_bit BIT. Qed.
