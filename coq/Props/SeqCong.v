(* Structured congruence for "snapshot routine = regenerated routine" when conversion fails (checks/snapeq.py, second
   closing tactic): walks both terms in parallel, goes under bind continuations by extensionality ([bind_cong]), proves
   local continuations (the [let k_n := fun ... in] join points of the translator) equal ONCE and then abstracts them
   ([let_cong]), and splits on the condition of an [if] that only one side has - the shape a behaviour-preserving
   rewrite leaves behind when it extracts a helper returning the selected value (cpu.indexX()), replaces a two-armed
   [if] by an expression, or returns [cpu.Stopped] instead of branching on it.  Sound by construction (every step is a
   lemma application or a case split); uses functional extensionality (stdlib axiom) like the pointwise fallback. *)
From Coq Require Import ZArith List Bool FunctionalExtensionality.
From Lib Require Import ZOps Machine.
Local Open Scope Z_scope.

Lemma bind_cong {A B} (m1 m2 : res A) (k1 k2 : A -> st -> res B) :
  m1 = m2 -> (forall a s, k1 a s = k2 a s) -> bind m1 k1 = bind m2 k2.
Proof. intros E H. subst m2. destruct m1; simpl; auto. Qed.
Lemma bind_ok {A B} a s (k : A -> st -> res B) : bind (Ok a s) k = k a s.
Proof. reflexivity. Qed.
Lemma bind_if {A B} (c : bool) (m1 m2 : res A) (k : A -> st -> res B) :
  bind (if c then m1 else m2) k = if c then bind m1 k else bind m2 k.
Proof. destruct c; reflexivity. Qed.
Lemma let_cong {A B} (e1 e2 : A) (b1 b2 : A -> B) : e1 = e2 -> (forall k, b1 k = b2 k) -> (let x := e1 in b1 x) = (let x := e2 in b2 x).
Proof. intros E H. subst e2. apply H. Qed.

Lemma sc_get_set_same f v s : get f (set f v s) = v.
Proof. unfold get, set; simpl. rewrite N.eqb_refl. reflexivity. Qed.
Lemma sc_get_set_other f g v s : N.eqb f g = false -> get f (set g v s) = get f s.
Proof. intro E. unfold get, set; simpl. rewrite E. reflexivity. Qed.
Lemma sc_set_sort f g a b s : N.ltb g f = true -> set f a (set g b s) = set g b (set f a s).
Proof.
  intro H. apply N.ltb_lt in H. unfold set; simpl. f_equal. apply functional_extensionality. intro h.
  destruct (N.eqb h f) eqn:E1; destruct (N.eqb h g) eqn:E2; try reflexivity.
  apply N.eqb_eq in E1. apply N.eqb_eq in E2. subst. exfalso. revert H. apply N.lt_irrefl.
Qed.
Lemma sc_set_set f a b s : set f a (set f b s) = set f a s.
Proof.
  unfold set; simpl. f_equal. apply functional_extensionality. intro h. destruct (N.eqb h f); reflexivity.
Qed.
(* canonical form of register reads and of chains of assignments (fields in increasing order, last write wins) *)
Ltac sc_gs :=
  repeat first
    [ rewrite sc_get_set_same
    | rewrite sc_set_set
    | match goal with
      | |- context [get ?f (set ?g ?v ?s)] =>
          let c := eval vm_compute in (N.eqb f g) in
          match c with false => rewrite (sc_get_set_other f g v s) by reflexivity end
      end
    | match goal with
      | |- context [set ?f ?a (set ?g ?b ?s)] =>
          let c := eval vm_compute in (N.ltb g f) in
          match c with true => rewrite (sc_set_sort f g a b s) by reflexivity end
      end ].

Ltac is_fun_ty t := lazymatch t with (_ -> _) => idtac | (forall _, _) => idtac end.

(* [unf] unfolds the new helper routines (and nothing else) *)
Ltac sc_norm unf :=
  repeat first
    [ progress unf
    | match goal with E : ?c = _ |- context [if ?c then _ else _] => rewrite E; cbv beta iota end
    | rewrite bind_ok
    | rewrite bind_if ];
  cbv beta.

Ltac sc_leaf unf :=
  first [ reflexivity
        | sc_norm unf; reflexivity
        | sc_norm unf; cbv zeta; sc_gs; reflexivity
        | sc_norm unf; cbv zeta; sc_gs; repeat f_equal; sc_gs; reflexivity ].

Ltac sc unf :=
  cbv beta;
  lazymatch goal with
  | |- ?L = ?R =>
    first
    [ constr_eq L R; reflexivity
    | sc_body unf L R
    | fail 1000 "structured congruence: stuck" ]
  end
with sc_body unf L R :=
      lazymatch L with
      | (let x := ?e1 in @?b1 x) =>
          lazymatch R with
          | (let y := ?e2 in @?b2 y) =>
              let T := type of e1 in
              let T2 := type of e2 in
              tryif (is_fun_ty T; unify T T2)
              then (refine (let_cong e1 e2 b1 b2 _ _);
                    [ repeat (apply functional_extensionality; intro); sc unf
                    | let k := fresh "k" in intro k; sc unf ])
              else (change (b1 e1 = b2 e2); sc unf)
          | _ => change (b1 e1 = R); sc unf
          end
      | bind ?m1 ?k1 =>
          lazymatch R with
          | bind ?m2 ?k2 =>
              tryif (assert (m1 = m2) by sc_leaf unf)
              then (apply bind_cong;
                    [ sc_leaf unf
                    | let a := fresh "a" in let s := fresh "s" in intros a s; sc unf ])
              else (progress (sc_norm unf); sc unf)
          | (let y := ?e2 in @?b2 y) => change (L = b2 e2); sc unf
          | (if ?c then _ else _) => let E := fresh "E" in destruct c eqn:E; cbv beta iota delta [negb andb orb]; sc unf
          | _ => sc_leaf unf
          end
      | (if ?c then _ else _) =>
          first
            [ progress sc_gs; sc unf      (* conditions in canonical form first: get f (set g ..) simplified *)
            | let E := fresh "E" in
              (* make the condition visible on the other side first *)
              try (progress unf; cbv beta);
              destruct c eqn:E; cbv beta iota delta [negb andb orb]; rewrite ?bind_ok; sc unf ]
      | _ =>
          lazymatch R with
          | (let y := ?e2 in @?b2 y) => change (L = b2 e2); sc unf
          | (if ?c then _ else _) => first [ progress sc_gs; sc unf | let E := fresh "E" in destruct c eqn:E; cbv beta iota delta [negb andb orb]; sc unf ]
          | bind (Ok _ _) _ => rewrite bind_ok; sc unf
          | _ => sc_leaf unf
          end
      end.
