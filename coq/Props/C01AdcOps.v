(* C01, ADC / SBC: the generated routines op_adc / op_sbc compute the cores of C01AdcCore.v.

   ROUTINE-LEVEL LEMMAS (independent of the addressing mode: the operand read is abstract).

     op_adc_M1 : get f_M s1 = 1 -> cmdRead   s1 = Ok v sr -> op_adc s1 = Ok tt (adc8_final  (get f_RAl s1) v sr)
     op_adc_M0 : get f_M s1 = 0 -> cmdRead16 s1 = Ok v sr -> op_adc s1 = Ok tt (adc16_final (get f_RA  s1) v sr)
     op_sbc_M1 : get f_M s1 = 1 -> cmdRead   s1 = Ok v sr -> op_sbc s1 = Ok tt (sbc8_final  (get f_RAl s1) v sr)
     op_sbc_M0 : get f_M s1 = 0 -> cmdRead16 s1 = Ok v sr -> op_sbc s1 = Ok tt (sbc16_final (get f_RA  s1) v sr)

   s1 is the state the routine starts in, sr the state the operand read returns (for every addressing mode it is
   s1 plus trace events; the lemmas need no such hypothesis, they only say where each input is read: the accumulator
   in s1 BEFORE the read, C and D in sr AFTER it).  The final state is explicit:

     adc8_final a v sr = set f_N [N] (set f_Z [Z] (set f_RAl r (set f_V [V] (set f_C [C] sr))))
        with c = get f_C sr, dec = (get f_D sr =? 1), r = adc8_res a v c dec, C = adc8_C a v c dec, V = adc8_V a v c dec,
        N = nz_N8 r, Z = nz_Z r       ([b] = if b then 1 else 0; 16 bits: f_RA, adc16_res ..., nz_N16; SBC: sbc8_res ..., sbc16_res ...)

   No range hypothesis is needed.  C01AdcRef.v turns these into refinement statements (adc_close_M1 ...).

   Method: the routines are written by the translator in continuation-passing style (every `if` of the Go source
   ends in a call of the join-point continuation).  [adc8_cps] ... are the same terms with the final continuation
   abstracted (so op_adc_shape / op_sbc_shape hold by conversion), and [adc8_cps_eq] ... push
   the continuation out: adc8_cps a d c dec k = k (adc8_sum a d c dec).

   snapshot_dep: op_adc, op_sbc, setZN8, setZN16

   (the line above is machine-read: names, then a blank line) *)
From Coq Require Import ZArith NArith List Bool Lia.
From Spec Require Import ISA Spec816.
From Lib Require Import ZOps Machine.
From Snapshot Require Import GenFields GenCpu65.
From Props Require Import C01Base C01AdcCore.
Local Open Scope Z_scope.
Arguments Z.modulo : simpl never.
Arguments Z.lor : simpl never.
Arguments Z.land : simpl never.
Arguments Z.shiftl : simpl never.
Arguments Z.shiftr : simpl never.

(* ---------------------------------------------------------------- the sum, continuation-passing *)
Definition adc8_cps {B : Type} (v_a v_d v_c : Z) (dec : bool) (k_2 : Z -> B) : B :=
  let v_sum := (add16 (add16 v_a v_d) v_c) in
  (if dec then
  let v_sum := (add16 (add16 (w_and v_a 15) (w_and v_d 15)) v_c) in
  let k_6 := fun (v_sum : zw16) =>
  let k_7 := fun (v_sum : zw16) =>
  let v_sum := (add16 v_sum (add16 (w_and v_a 240) (w_and v_d 240))) in
  (if (w_ltb 159 v_sum) then
  let v_sum := (add16 v_sum 96) in
  k_2 v_sum
  else
  k_2 v_sum) in
  (if (w_ltb 15 v_sum) then
  let v_sum := (add16 (w_and v_sum 15) 16) in
  k_7 v_sum
  else
  k_7 v_sum) in
  (if (w_ltb 9 v_sum) then
  let v_sum := (add16 v_sum 6) in
  k_6 v_sum
  else
  k_6 v_sum)
  else
  k_2 v_sum).

Definition sbc8_cps {B : Type} (v_a v_d v_c : Z) (dec : bool) (k_2 : Z -> B) : B :=
  let v_sum := (add16 (add16 v_a v_d) v_c) in
  (if dec then
  let v_sum := (add16 (add16 (w_and v_a 15) (w_and v_d 15)) v_c) in
  let k_6 := fun (v_sum : zw16) =>
  let v_sum := (add16 v_sum (add16 (w_and v_a 240) (w_and v_d 240))) in
  (if (w_leb v_sum 255) then
  let v_sum := (w_and (add16 v_sum 160) 255) in
  k_2 v_sum
  else
  k_2 v_sum) in
  (if (w_leb v_sum 15) then
  let v_sum := (w_and (add16 v_sum 10) 15) in
  k_6 v_sum
  else
  k_6 v_sum)
  else
  k_2 v_sum).

Definition adc16_cps {B : Type} (v_a_1 v_d_1 v_c_1 : Z) (dec : bool) (k_9 : Z -> B) : B :=
  let v_sum_1 := (add32 (add32 v_a_1 v_d_1) v_c_1) in
  (if dec then
  let v_sum_1 := (add32 (add32 (w_and v_a_1 15) (w_and v_d_1 15)) v_c_1) in
  let k_13 := fun (v_sum_1 : zw32) =>
  let k_14 := fun (v_sum_1 : zw32) =>
  let v_sum_1 := (add32 v_sum_1 (add32 (w_and v_a_1 240) (w_and v_d_1 240))) in
  let k_15 := fun (v_sum_1 : zw32) =>
  let k_16 := fun (v_sum_1 : zw32) =>
  let v_sum_1 := (add32 v_sum_1 (add32 (w_and v_a_1 3840) (w_and v_d_1 3840))) in
  let k_17 := fun (v_sum_1 : zw32) =>
  let k_18 := fun (v_sum_1 : zw32) =>
  let v_sum_1 := (add32 v_sum_1 (add32 (w_and v_a_1 61440) (w_and v_d_1 61440))) in
  (if (w_ltb 40959 v_sum_1) then
  let v_sum_1 := (add32 v_sum_1 24576) in
  k_9 v_sum_1
  else
  k_9 v_sum_1) in
  (if (w_ltb 4095 v_sum_1) then
  let v_sum_1 := (add32 (w_and v_sum_1 4095) 4096) in
  k_18 v_sum_1
  else
  k_18 v_sum_1) in
  (if (w_ltb 2559 v_sum_1) then
  let v_sum_1 := (add32 v_sum_1 1536) in
  k_17 v_sum_1
  else
  k_17 v_sum_1) in
  (if (w_ltb 255 v_sum_1) then
  let v_sum_1 := (add32 (w_and v_sum_1 255) 256) in
  k_16 v_sum_1
  else
  k_16 v_sum_1) in
  (if (w_ltb 159 v_sum_1) then
  let v_sum_1 := (add32 v_sum_1 96) in
  k_15 v_sum_1
  else
  k_15 v_sum_1) in
  (if (w_ltb 15 v_sum_1) then
  let v_sum_1 := (add32 (w_and v_sum_1 15) 16) in
  k_14 v_sum_1
  else
  k_14 v_sum_1) in
  (if (w_ltb 9 v_sum_1) then
  let v_sum_1 := (add32 v_sum_1 6) in
  k_13 v_sum_1
  else
  k_13 v_sum_1)
  else
  k_9 v_sum_1).

Definition sbc16_cps {B : Type} (v_a_1 v_d_1 v_c_1 : Z) (dec : bool) (k_8 : Z -> B) : B :=
  let v_sum_1 := (add32 (add32 v_a_1 v_d_1) v_c_1) in
  (if dec then
  let v_sum_1 := (add32 (add32 (w_and v_a_1 15) (w_and v_d_1 15)) v_c_1) in
  let k_12 := fun (v_sum_1 : zw32) =>
  let v_sum_1 := (add32 v_sum_1 (add32 (w_and v_a_1 240) (w_and v_d_1 240))) in
  let k_13 := fun (v_sum_1 : zw32) =>
  let v_sum_1 := (add32 v_sum_1 (add32 (w_and v_a_1 3840) (w_and v_d_1 3840))) in
  let k_14 := fun (v_sum_1 : zw32) =>
  let v_sum_1 := (add32 v_sum_1 (add32 (w_and v_a_1 61440) (w_and v_d_1 61440))) in
  (if (w_leb v_sum_1 65535) then
  let v_sum_1 := (w_and (add32 v_sum_1 40960) 65535) in
  k_8 v_sum_1
  else
  k_8 v_sum_1) in
  (if (w_leb v_sum_1 4095) then
  let v_sum_1 := (w_and (add32 v_sum_1 2560) 4095) in
  k_14 v_sum_1
  else
  k_14 v_sum_1) in
  (if (w_leb v_sum_1 255) then
  let v_sum_1 := (w_and (add32 v_sum_1 160) 255) in
  k_13 v_sum_1
  else
  k_13 v_sum_1) in
  (if (w_leb v_sum_1 15) then
  let v_sum_1 := (w_and (add32 v_sum_1 10) 15) in
  k_12 v_sum_1
  else
  k_12 v_sum_1)
  else
  k_8 v_sum_1).

(* split the conditions innermost first (a condition that itself contains an [if] is left for later) *)
Ltac split_ifs :=
  repeat (match goal with
          | |- context [if ?c then _ else _] =>
              lazymatch c with
              | context [if _ then _ else _] => fail
              | _ => destruct c
              end
          end; cbv iota).

Lemma adc8_cps_eq : forall (B : Type) a d c dec (k : Z -> B), adc8_cps a d c dec k = k (adc8_sum a d c dec).
Proof. intros B a d c dec k. unfold adc8_cps, adc8_sum. destruct dec; cbv beta zeta iota; [split_ifs |]; reflexivity. Qed.
Lemma sbc8_cps_eq : forall (B : Type) a d c dec (k : Z -> B), sbc8_cps a d c dec k = k (sbc8_sum a d c dec).
Proof. intros B a d c dec k. unfold sbc8_cps, sbc8_sum. destruct dec; cbv beta zeta iota; [split_ifs |]; reflexivity. Qed.
Lemma adc16_cps_eq : forall (B : Type) a d c dec (k : Z -> B), adc16_cps a d c dec k = k (adc16_sum a d c dec).
Proof.
  intros B a d c dec k. unfold adc16_cps, adc16_sum, adc_d3, adc_d2, adc_d1, adc_d0.
  destruct dec; cbv beta zeta iota; [split_ifs |]; reflexivity.
Qed.
Lemma sbc16_cps_eq : forall (B : Type) a d c dec (k : Z -> B), sbc16_cps a d c dec k = k (sbc16_sum a d c dec).
Proof.
  intros B a d c dec k. unfold sbc16_cps, sbc16_sum, sbc_d3, sbc_d2, sbc_d1, sbc_d0.
  destruct dec; cbv beta zeta iota; [split_ifs |]; reflexivity.
Qed.

(* ---------------------------------------------------------------- the flag tail shared by both routines *)
Definition fin8 (v_a v_d : Z) (v_sum : zw16) (s : st) : res unit :=
  let k_3 := fun (s : st) =>
  let k_4 := fun (s : st) =>
  let s := set f_RAl (conv8 v_sum) s in
  bind (setZN8 (get f_RAl s) s) (fun t_5 s =>
  Ok tt s) in
  (if (andb (w_eqb (w_and (w_xor v_a v_d) 128) 0) (negb (w_eqb (w_and (w_xor v_a v_sum) 128) 0))) then
  let s := set f_V 1 s in
  k_4 s
  else
  let s := set f_V 0 s in
  k_4 s) in
  (if (w_ltb 255 v_sum) then
  let s := set f_C 1 s in
  k_3 s
  else
  let s := set f_C 0 s in
  k_3 s).

Definition fin16 (v_a_1 v_d_1 : Z) (v_sum_1 : zw32) (s : st) : res unit :=
  let k_10 := fun (s : st) =>
  let k_11 := fun (s : st) =>
  let s := set f_RA (conv16 v_sum_1) s in
  bind (setZN16 (get f_RA s) s) (fun t_12 s =>
  Ok tt s) in
  (if (andb (w_eqb (w_and (w_xor v_a_1 v_d_1) 32768) 0) (negb (w_eqb (w_and (w_xor v_a_1 v_sum_1) 32768) 0))) then
  let s := set f_V 1 s in
  k_11 s
  else
  let s := set f_V 0 s in
  k_11 s) in
  (if (w_ltb 65535 v_sum_1) then
  let s := set f_C 1 s in
  k_10 s
  else
  let s := set f_C 0 s in
  k_10 s).

Definition final8 (r : Z) (cf vf : bool) (sr : st) : st :=
  set f_N (b2z (nz_N8 r)) (set f_Z (b2z (nz_Z r)) (set f_RAl r (set f_V (b2z vf) (set f_C (b2z cf) sr)))).
Definition final16 (r : Z) (cf vf : bool) (sr : st) : st :=
  set f_N (b2z (nz_N16 r)) (set f_Z (b2z (nz_Z r)) (set f_RA r (set f_V (b2z vf) (set f_C (b2z cf) sr)))).

Lemma fin8_ok : forall a d sum s, fin8 a d sum s = Ok tt (final8 (conv8 sum) (flagC8 sum) (flagV8 a d sum) s).
Proof.
  intros a d sum s. unfold fin8, final8, flagC8, flagV8, nz_N8, nz_Z, b2z.
  assert (R : 0 <= conv8 sum < 256) by (unfold conv8; apply Z.mod_pos_bound; lia).
  cbv beta zeta.
  destruct (w_ltb 255 sum);
    destruct (w_eqb (w_and (w_xor a d) 128) 0 && negb (w_eqb (w_and (w_xor a sum) 128) 0));
    rewrite get_set_this, (setZN8_ok _ _ R), bind_Ok; reflexivity.
Qed.
Lemma fin16_ok : forall a d sum s, fin16 a d sum s = Ok tt (final16 (conv16 sum) (flagC16 sum) (flagV16 a d sum) s).
Proof.
  intros a d sum s. unfold fin16, final16, flagC16, flagV16, nz_N16, nz_Z, b2z.
  assert (R : 0 <= conv16 sum < 65536) by (unfold conv16; apply Z.mod_pos_bound; lia).
  cbv beta zeta.
  destruct (w_ltb 65535 sum);
    destruct (w_eqb (w_and (w_xor a d) 32768) 0 && negb (w_eqb (w_and (w_xor a sum) 32768) 0));
    rewrite get_set_this, (setZN16_ok _ _ R), bind_Ok; reflexivity.
Qed.

(* ---------------------------------------------------------------- the routines *)
Definition dflag (sr : st) : bool := w_eqb (get f_D sr) 1.

Definition adc8_final (a v : Z) (sr : st) : st :=
  final8 (adc8_res a v (get f_C sr) (dflag sr)) (adc8_C a v (get f_C sr) (dflag sr)) (adc8_V a v (get f_C sr) (dflag sr)) sr.
Definition sbc8_final (a v : Z) (sr : st) : st :=
  final8 (sbc8_res a v (get f_C sr) (dflag sr)) (sbc8_C a v (get f_C sr) (dflag sr)) (sbc8_V a v (get f_C sr) (dflag sr)) sr.
Definition adc16_final (a v : Z) (sr : st) : st :=
  final16 (adc16_res a v (get f_C sr) (dflag sr)) (adc16_C a v (get f_C sr) (dflag sr)) (adc16_V a v (get f_C sr) (dflag sr)) sr.
Definition sbc16_final (a v : Z) (sr : st) : st :=
  final16 (sbc16_res a v (get f_C sr) (dflag sr)) (sbc16_C a v (get f_C sr) (dflag sr)) (sbc16_V a v (get f_C sr) (dflag sr)) sr.

(* the routines are the cps sums followed by the flag tail (by conversion; cbv first, the unifier is slow here) *)
Lemma op_adc_shape : forall s1,
  op_adc s1 =
  if w_eqb (get f_M s1) 1 then
    bind (cmdRead s1) (fun v sr =>
      adc8_cps (get f_RAl s1) v (get f_C sr) (dflag sr) (fun sum => fin8 (get f_RAl s1) v sum sr))
  else
    bind (cmdRead16 s1) (fun v sr =>
      adc16_cps (get f_RA s1) v (get f_C sr) (dflag sr) (fun sum => fin16 (get f_RA s1) v sum sr)).
Proof.
  intros s1. cbv beta iota zeta delta [op_adc adc8_cps adc16_cps fin8 fin16 dflag]. reflexivity.
Qed.
Lemma op_sbc_shape : forall s1,
  op_sbc s1 =
  if w_eqb (get f_M s1) 1 then
    bind (cmdRead s1) (fun v sr =>
      sbc8_cps (get f_RAl s1) (not8 v) (get f_C sr) (dflag sr) (fun sum => fin8 (get f_RAl s1) (not8 v) sum sr))
  else
    bind (cmdRead16 s1) (fun v sr =>
      sbc16_cps (get f_RA s1) (not16 v) (get f_C sr) (dflag sr) (fun sum => fin16 (get f_RA s1) (not16 v) sum sr)).
Proof.
  intros s1. cbv beta iota zeta delta [op_sbc sbc8_cps sbc16_cps fin8 fin16 dflag]. reflexivity.
Qed.

Lemma op_adc_M1 : forall s1 v sr, get f_M s1 = 1 -> cmdRead s1 = Ok v sr ->
  op_adc s1 = Ok tt (adc8_final (get f_RAl s1) v sr).
Proof.
  intros s1 v sr HM Hr. rewrite op_adc_shape, HM. change (w_eqb 1 1) with true. cbv iota.
  rewrite Hr, bind_Ok, adc8_cps_eq, fin8_ok. reflexivity.
Qed.
Lemma op_adc_M0 : forall s1 v sr, get f_M s1 = 0 -> cmdRead16 s1 = Ok v sr ->
  op_adc s1 = Ok tt (adc16_final (get f_RA s1) v sr).
Proof.
  intros s1 v sr HM Hr. rewrite op_adc_shape, HM. change (w_eqb 0 1) with false. cbv iota.
  rewrite Hr, bind_Ok, adc16_cps_eq, fin16_ok. reflexivity.
Qed.
Lemma op_sbc_M1 : forall s1 v sr, get f_M s1 = 1 -> cmdRead s1 = Ok v sr ->
  op_sbc s1 = Ok tt (sbc8_final (get f_RAl s1) v sr).
Proof.
  intros s1 v sr HM Hr. rewrite op_sbc_shape, HM. change (w_eqb 1 1) with true. cbv iota.
  rewrite Hr, bind_Ok, sbc8_cps_eq, fin8_ok. reflexivity.
Qed.
Lemma op_sbc_M0 : forall s1 v sr, get f_M s1 = 0 -> cmdRead16 s1 = Ok v sr ->
  op_sbc s1 = Ok tt (sbc16_final (get f_RA s1) v sr).
Proof.
  intros s1 v sr HM Hr. rewrite op_sbc_shape, HM. change (w_eqb 0 1) with false. cbv iota.
  rewrite Hr, bind_Ok, sbc16_cps_eq, fin16_ok. reflexivity.
Qed.
