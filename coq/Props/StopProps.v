(* C12 (ii), at the level of HISTORIES: "Step reports the stop condition from the moment a STP instruction has executed
   until the CPU is reset, and never before".

   A history is any list of calls of the exported entry points of an interpreter: Step, Reset, TriggerIRQ (and the
   unexported triggerNMI).  The theorems are stated over abstract entry points satisfying the one-call contracts that
   are proved per run for BOTH regenerated interpreter models (build/work/Run/C12_<model>.v: C12_step_<model>,
   C12_reset_<model>, C12_irq_<model>, C12_nmi_<model>); they are instantiated in build/work/Run/C12_run.v.

   The observation of a history is the list of what a caller can see: for each Step the reported flag.  The
   specification is a two-state monitor [latch] driven by that observation alone:

       Reset  -> latch := false           Step reporting b -> latch := b           TriggerIRQ / NMI -> unchanged

   Theorem [stop_latched]: whenever the monitor says "stopped" (a Step has reported the stop condition and no Reset
   was issued since), the next Step reports it again -- the condition lasts exactly until Reset -- and the flag a Step
   reports is the interpreter's Stopped field after it.  Theorem [stop_rises_only_by_step]: the field is clear after
   Reset and rises only inside a Step (never in TriggerIRQ / NMI); which Step may raise it is the business of the
   one-step theorems (C12_step: only the routine of opcode $DB assigns the field; C01_step: architecturally, STP). *)
From Coq Require Import List Bool.
Import ListNotations.

Section Stop.
  Variable S : Type.
  Variable step : S -> option (bool * S).          (* None = the call panicked *)
  Variables reset irq nmi : S -> option S.
  Variable stopped : S -> bool.                    (* the Stopped field *)
  Variable good : S -> Prop.                       (* fields within their Go types *)

  Hypothesis step_c : forall s, good s ->
    exists b s', step s = Some (b, s') /\ good s' /\ b = stopped s' /\ (stopped s' = stopped s \/ stopped s' = true).
  Hypothesis reset_c : forall s, good s -> exists s', reset s = Some s' /\ good s' /\ stopped s' = false.
  Hypothesis irq_c : forall s, good s -> exists s', irq s = Some s' /\ good s' /\ stopped s' = stopped s.
  Hypothesis nmi_c : forall s, good s -> exists s', nmi s = Some s' /\ good s' /\ stopped s' = stopped s.

  Inductive call := CStep | CReset | CIrq | CNmi.
  Inductive obs := OStep (b : bool) | OReset | OIrq | ONmi.

  (* run a history; the observations are returned oldest first *)
  Fixpoint hrun (h : list call) (s : S) : option (list obs * S) :=
    match h with
    | [] => Some ([], s)
    | c :: h' =>
        match c with
        | CStep => match step s with
                   | None => None
                   | Some (b, s') => match hrun h' s' with None => None | Some (l, sf) => Some (OStep b :: l, sf) end
                   end
        | CReset => match reset s with
                    | None => None
                    | Some s' => match hrun h' s' with None => None | Some (l, sf) => Some (OReset :: l, sf) end
                    end
        | CIrq => match irq s with
                  | None => None
                  | Some s' => match hrun h' s' with None => None | Some (l, sf) => Some (OIrq :: l, sf) end
                  end
        | CNmi => match nmi s with
                  | None => None
                  | Some s' => match hrun h' s' with None => None | Some (l, sf) => Some (ONmi :: l, sf) end
                  end
        end
    end.

  (* the monitor: what a caller who only sees the observations believes about the stop condition *)
  Definition latch1 (l : bool) (o : obs) : bool :=
    match o with OStep b => b | OReset => false | OIrq | ONmi => l end.
  Definition latch (l0 : bool) (os : list obs) : bool := fold_left latch1 os l0.

  (* [ok_from l os]: every Step observed while the monitor says "stopped" reports the stop condition *)
  Fixpoint ok_from (l : bool) (os : list obs) : Prop :=
    match os with
    | [] => True
    | o :: os' => (match o with OStep b => l = true -> b = true | _ => True end) /\ ok_from (latch1 l o) os'
    end.

  (* every history runs to its end without a panic; the monitor tracks the Stopped field exactly; a Step issued
     while the condition holds reports it *)
  Theorem stop_latched : forall h s, good s ->
    exists os sf, hrun h s = Some (os, sf) /\ good sf /\
                  stopped sf = latch (stopped s) os /\ ok_from (stopped s) os.
  Proof.
    induction h as [|c h IH]; intros s Hg.
    - exists [], s. simpl. auto.
    - destruct c; simpl.
      + destruct (step_c s Hg) as (b & s' & E & Hg' & Hb & Hs). rewrite E.
        destruct (IH s' Hg') as (os & sf & E2 & Hgf & Hl & Hok). rewrite E2.
        exists (OStep b :: os), sf. split; [reflexivity|]. split; [exact Hgf|].
        unfold latch in *. simpl. rewrite <- Hb in *. split; [exact Hl|]. split; [|exact Hok].
        intro Ht. destruct Hs as [Hs|Hs]; [rewrite Hs; exact Ht | exact Hs].
      + destruct (reset_c s Hg) as (s' & E & Hg' & Hs). rewrite E.
        destruct (IH s' Hg') as (os & sf & E2 & Hgf & Hl & Hok). rewrite E2.
        exists (OReset :: os), sf. split; [reflexivity|]. split; [exact Hgf|].
        unfold latch in *. simpl. rewrite Hs in *. split; [exact Hl|]. split; [exact I|exact Hok].
      + destruct (irq_c s Hg) as (s' & E & Hg' & Hs). rewrite E.
        destruct (IH s' Hg') as (os & sf & E2 & Hgf & Hl & Hok). rewrite E2.
        exists (OIrq :: os), sf. split; [reflexivity|]. split; [exact Hgf|].
        unfold latch in *. simpl. rewrite Hs in *. split; [exact Hl|]. split; [exact I|exact Hok].
      + destruct (nmi_c s Hg) as (s' & E & Hg' & Hs). rewrite E.
        destruct (IH s' Hg') as (os & sf & E2 & Hgf & Hl & Hok). rewrite E2.
        exists (ONmi :: os), sf. split; [reflexivity|]. split; [exact Hgf|].
        unfold latch in *. simpl. rewrite Hs in *. split; [exact Hl|]. split; [exact I|exact Hok].
  Qed.

  (* split form, as the property words it: a Step that reported the stop condition, any calls other than Reset,
     another Step: that Step reports it too *)
  Definition no_reset (h : list call) : Prop := Forall (fun c => c <> CReset) h.

  Lemma hrun_app : forall h1 h2 s,
    hrun (h1 ++ h2) s =
    match hrun h1 s with
    | None => None
    | Some (o1, s1) => match hrun h2 s1 with None => None | Some (o2, s2) => Some (o1 ++ o2, s2) end
    end.
  Proof.
    induction h1 as [|c h1 IH]; intros h2 s; simpl.
    - destruct (hrun h2 s) as [[o2 s2]|]; reflexivity.
    - destruct c.
      + destruct (step s) as [[b s']|]; [|reflexivity]. rewrite IH.
        destruct (hrun h1 s') as [[o1 s1]|]; [|reflexivity]. destruct (hrun h2 s1) as [[o2 s2]|]; reflexivity.
      + destruct (reset s) as [s'|]; [|reflexivity]. rewrite IH.
        destruct (hrun h1 s') as [[o1 s1]|]; [|reflexivity]. destruct (hrun h2 s1) as [[o2 s2]|]; reflexivity.
      + destruct (irq s) as [s'|]; [|reflexivity]. rewrite IH.
        destruct (hrun h1 s') as [[o1 s1]|]; [|reflexivity]. destruct (hrun h2 s1) as [[o2 s2]|]; reflexivity.
      + destruct (nmi s) as [s'|]; [|reflexivity]. rewrite IH.
        destruct (hrun h1 s') as [[o1 s1]|]; [|reflexivity]. destruct (hrun h2 s1) as [[o2 s2]|]; reflexivity.
  Qed.

  (* without a Reset the Stopped field never falls *)
  Lemma no_reset_keeps : forall h s, good s -> no_reset h -> stopped s = true ->
    exists os sf, hrun h s = Some (os, sf) /\ good sf /\ stopped sf = true /\
                  Forall (fun o => match o with OStep b => b = true | _ => True end) os.
  Proof.
    induction h as [|c h IH]; intros s Hg Hn Hs.
    - exists [], s. simpl. auto.
    - inversion Hn as [|c' h' Hc Hn']; subst. destruct c; simpl; [| contradiction Hc; reflexivity | |].
      + destruct (step_c s Hg) as (b & s' & E & Hg' & Hb & Hs'). rewrite E.
        assert (Ht : stopped s' = true) by (destruct Hs' as [Hs'|Hs']; [rewrite Hs'; exact Hs | exact Hs']).
        destruct (IH s' Hg' Hn' Ht) as (os & sf & E2 & Hgf & Hsf & Hall). rewrite E2.
        exists (OStep b :: os), sf. repeat split; auto. constructor; [rewrite Hb; exact Ht | exact Hall].
      + destruct (irq_c s Hg) as (s' & E & Hg' & Hs'). rewrite E.
        assert (Ht : stopped s' = true) by (rewrite Hs'; exact Hs).
        destruct (IH s' Hg' Hn' Ht) as (os & sf & E2 & Hgf & Hsf & Hall). rewrite E2.
        exists (OIrq :: os), sf. repeat split; auto.
      + destruct (nmi_c s Hg) as (s' & E & Hg' & Hs'). rewrite E.
        assert (Ht : stopped s' = true) by (rewrite Hs'; exact Hs).
        destruct (IH s' Hg' Hn' Ht) as (os & sf & E2 & Hgf & Hsf & Hall). rewrite E2.
        exists (ONmi :: os), sf. repeat split; auto.
  Qed.

  (* "from the moment ... until the CPU is reset": in any history  h1 ; Step ; h2 ; Step  where the first of the two
     Steps reported the stop condition and h2 contains no Reset, the second Step (and every Step inside h2) reports it *)
  Theorem stop_until_reset : forall h1 h2 s o1 s1 b s2, good s ->
    hrun h1 s = Some (o1, s1) -> step s1 = Some (b, s2) -> b = true -> no_reset h2 ->
    exists o2 s3 b' s4, hrun h2 s2 = Some (o2, s3) /\ step s3 = Some (b', s4) /\ b' = true /\
                        Forall (fun o => match o with OStep b => b = true | _ => True end) o2.
  Proof.
    intros h1 h2 s o1 s1 b s2 Hg E1 E2 Hb Hn.
    assert (Hg1 : good s1).
    { destruct (stop_latched h1 s Hg) as (os & sf & E & Hgf & _). rewrite E in E1. inversion E1; subst. exact Hgf. }
    destruct (step_c s1 Hg1) as (b0 & s2' & E & Hg2 & Hb0 & _). rewrite E in E2. injection E2 as Eb Es. subst b0 s2'.
    assert (Hs2 : stopped s2 = true) by (rewrite <- Hb0; exact Hb).
    destruct (no_reset_keeps h2 s2 Hg2 Hn Hs2) as (o2 & s3 & E3 & Hg3 & Hs3 & Hall).
    destruct (step_c s3 Hg3) as (b' & s4 & E4 & Hg4 & Hb' & Hs4).
    exists o2, s3, b', s4. repeat split; auto.
    rewrite Hb'. destruct Hs4 as [Hs4|Hs4]; [rewrite Hs4; exact Hs3 | exact Hs4].
  Qed.

  (* "and never before" at the level of histories: after a Reset the field is clear, TriggerIRQ / NMI never raise
     it, so it can only rise inside a Step (which Step: C12_step's dispatch lemma / C01_step) *)
  Theorem stop_rises_only_by_step : forall h s, good s -> Forall (fun c => c <> CStep) h ->
    exists os sf, hrun h s = Some (os, sf) /\ good sf /\ (stopped sf = true -> stopped s = true /\ no_reset h).
  Proof.
    induction h as [|c h IH]; intros s Hg Hn.
    - exists [], s. simpl. repeat split; auto. constructor.
    - inversion Hn as [|c' h' Hc Hn']; subst. destruct c; simpl; [contradiction Hc; reflexivity | | |].
      + destruct (reset_c s Hg) as (s' & E & Hg' & Hs'). rewrite E.
        destruct (IH s' Hg' Hn') as (os & sf & E2 & Hgf & Himp). rewrite E2.
        exists (OReset :: os), sf. split; [reflexivity|]. split; [exact Hgf|]. intro Ht. destruct (Himp Ht) as [Hx _]. rewrite Hs' in Hx. discriminate.
      + destruct (irq_c s Hg) as (s' & E & Hg' & Hs'). rewrite E.
        destruct (IH s' Hg' Hn') as (os & sf & E2 & Hgf & Himp). rewrite E2.
        exists (OIrq :: os), sf. split; [reflexivity|]. split; [exact Hgf|]. intro Ht. destruct (Himp Ht) as [Hx Hy].
        split; [rewrite <- Hs'; exact Hx | constructor; [discriminate | exact Hy]].
      + destruct (nmi_c s Hg) as (s' & E & Hg' & Hs'). rewrite E.
        destruct (IH s' Hg' Hn') as (os & sf & E2 & Hgf & Himp). rewrite E2.
        exists (ONmi :: os), sf. split; [reflexivity|]. split; [exact Hgf|]. intro Ht. destruct (Himp Ht) as [Hx Hy].
        split; [rewrite <- Hs'; exact Hx | constructor; [discriminate | exact Hy]].
  Qed.
  (* ---- "and never before", tied to the instruction: a Step changes the Stopped field only if it fetched opcode $DB.
     [stp_fetched s]: the Step issued at state s fetches (after interrupt entry) the opcode $DB; proved per run for both
     regenerated models from the trace characterisation of the callbacks clause (build/work/Run/C12_stop.v). ---- *)
  Variable stp_fetched : S -> Prop.
  Hypothesis stp_c : forall s b s', good s -> step s = Some (b, s') -> stopped s' <> stopped s -> stp_fetched s.

  (* [no_stp h s]: no Step of the history h, run from s, fetches STP *)
  Fixpoint no_stp (h : list call) (s : S) : Prop :=
    match h with
    | [] => True
    | CStep :: h' => ~ stp_fetched s /\ match step s with Some (_, s') => no_stp h' s' | None => True end
    | CReset :: h' => match reset s with Some s' => no_stp h' s' | None => True end
    | CIrq :: h' => match irq s with Some s' => no_stp h' s' | None => True end
    | CNmi :: h' => match nmi s with Some s' => no_stp h' s' | None => True end
    end.

  Definition all_false (os : list obs) : Prop := Forall (fun o => match o with OStep b => b = false | _ => True end) os.

  (* from a state where the CPU is not stopped, as long as no Step fetches STP every Step reports "not stopped" (and
     the field stays clear), whatever Resets and interrupt requests are interleaved *)
  Theorem stop_never_before : forall h s, good s -> stopped s = false -> no_stp h s ->
    exists os sf, hrun h s = Some (os, sf) /\ good sf /\ stopped sf = false /\ all_false os.
  Proof.
    induction h as [|c h IH]; intros s Hg Hs Hn.
    - exists [], s. simpl. repeat split; auto. constructor.
    - destruct c; simpl in *.
      + destruct (step_c s Hg) as (b & s' & E & Hg' & Hb & _). rewrite E in *. destruct Hn as [Hnf Hn].
        assert (Hs' : stopped s' = false).
        { destruct (stopped s') eqn:Et; [|reflexivity]. exfalso. apply Hnf. apply (stp_c s b s' Hg E). rewrite Et, Hs. discriminate. }
        destruct (IH s' Hg' Hs' Hn) as (os & sf & E2 & Hgf & Hsf & Hall). rewrite E2.
        exists (OStep b :: os), sf. repeat split; auto. constructor; [rewrite Hb; exact Hs' | exact Hall].
      + destruct (reset_c s Hg) as (s' & E & Hg' & Hs'). rewrite E in *.
        destruct (IH s' Hg' Hs' Hn) as (os & sf & E2 & Hgf & Hsf & Hall). rewrite E2.
        exists (OReset :: os), sf. repeat split; auto. constructor; [exact I | exact Hall].
      + destruct (irq_c s Hg) as (s' & E & Hg' & Hs'). rewrite E in *.
        assert (Hs2 : stopped s' = false) by (rewrite Hs'; exact Hs).
        destruct (IH s' Hg' Hs2 Hn) as (os & sf & E2 & Hgf & Hsf & Hall). rewrite E2.
        exists (OIrq :: os), sf. repeat split; auto. constructor; [exact I | exact Hall].
      + destruct (nmi_c s Hg) as (s' & E & Hg' & Hs'). rewrite E in *.
        assert (Hs2 : stopped s' = false) by (rewrite Hs'; exact Hs).
        destruct (IH s' Hg' Hs2 Hn) as (os & sf & E2 & Hgf & Hsf & Hall). rewrite E2.
        exists (ONmi :: os), sf. repeat split; auto. constructor; [exact I | exact Hall].
  Qed.

  (* "since the last Reset": whatever happened before (h1, from ANY good state, stopped or not), after a Reset every
     Step reports false as long as no Step issued after that Reset fetches STP *)
  Theorem stop_never_before_since_reset : forall h1 h2 s, good s ->
    exists o1 s1, hrun (h1 ++ [CReset]) s = Some (o1, s1) /\ good s1 /\
      (no_stp h2 s1 -> exists o2 sf, hrun h2 s1 = Some (o2, sf) /\ good sf /\ stopped sf = false /\ all_false o2).
  Proof.
    intros h1 h2 s Hg. destruct (stop_latched h1 s Hg) as (o1 & s1 & E1 & Hg1 & _).
    destruct (reset_c s1 Hg1) as (s2 & E2 & Hg2 & Hs2).
    exists (o1 ++ [OReset]), s2. split.
    - rewrite hrun_app, E1. simpl. rewrite E2. reflexivity.
    - split; [exact Hg2|]. intro Hn. exact (stop_never_before h2 s2 Hg2 Hs2 Hn).
  Qed.

  (* the contrapositive, as one reads it off a run: a Step that reports the stop condition although the previous
     state was not stopped has fetched STP *)
  Lemma stop_first_report : forall s b s', good s -> stopped s = false -> step s = Some (b, s') -> b = true -> stp_fetched s.
  Proof.
    intros s b s' Hg Hs E Hb. destruct (step_c s Hg) as (b0 & s0 & E0 & _ & Hb0 & _). rewrite E in E0. injection E0 as Eb Es.
    rewrite <- Es, <- Eb in Hb0. apply (stp_c s b s' Hg E). rewrite <- Hb0, Hb, Hs. discriminate.
  Qed.
End Stop.

(* non-vacuity: a toy interpreter (state = (stopped, program counter); the instruction at 3 is STP) meets the four
   contracts, and the history Step x5, Reset, Step is observed as  f f f T T | R | f *)
Definition toy_step (s : bool * nat) : option (bool * (bool * nat)) :=
  let st := if Nat.eqb (snd s) 3 then true else fst s in Some (st, (st, S (snd s))).
Definition toy_reset (s : bool * nat) : option (bool * nat) := Some (false, 10).
Definition toy_int (s : bool * nat) : option (bool * nat) := Some s.

Example toy_history :
  hrun (bool * nat) toy_step toy_reset toy_int toy_int [CStep; CStep; CStep; CStep; CStep; CIrq; CStep; CReset; CStep] (false, 0)
  = Some ([OStep false; OStep false; OStep false; OStep true; OStep true; OIrq; OStep true; OReset; OStep false], (false, 11)).
Proof. reflexivity. Qed.

Example toy_contracts_hold :
  (forall s, True -> exists b s', toy_step s = Some (b, s') /\ True /\ b = fst s' /\ (fst s' = fst s \/ fst s' = true)) /\
  (forall s, True -> exists s', toy_reset s = Some s' /\ True /\ fst s' = false).
Proof.
  split.
  - intros [st pc] _. unfold toy_step; simpl. destruct (Nat.eqb pc 3); eexists; eexists; repeat split; auto.
  - intros s _. eexists; repeat split.
Qed.

(* non-vacuity of [stop_never_before]: in the toy interpreter "fetches STP" = the program counter is 3; the history
   Step Step Step from pc 0 has no such Step and reports f f f; the fourth Step (pc = 3) is excluded by [no_stp] *)
Example toy_never_before :
  no_stp (bool * nat) toy_step toy_reset toy_int toy_int (fun s => snd s = 3) [CStep; CStep; CStep] (false, 0) /\
  ~ no_stp (bool * nat) toy_step toy_reset toy_int toy_int (fun s => snd s = 3) [CStep; CStep; CStep; CStep] (false, 0).
Proof.
  split.
  - simpl. repeat split; discriminate.
  - simpl. intros (_ & _ & _ & H & _). apply H. reflexivity.
Qed.
Example toy_stp_contract : forall s b s', True -> toy_step s = Some (b, s') -> fst s' <> fst s -> snd s = 3.
Proof.
  intros [st pc] b s' _ E Hne. unfold toy_step in E. simpl in E. destruct (Nat.eqb pc 3) eqn:E3.
  - apply PeanoNat.Nat.eqb_eq in E3. exact E3.
  - inversion E; subst. simpl in Hne. contradiction Hne. reflexivity.
Qed.
