(* C01 refinement lemmas, family E (see C01Base.v) *)
From Coq Require Import ZArith NArith List Bool Lia.
From Spec Require Import ISA Spec816.
From Lib Require Import ZOps Machine.
From Snapshot Require Import GenFields GenCpu65.
From Props Require Import C01Base.
Local Open Scope Z_scope.
Arguments Z.modulo : simpl never.
Arguments Z.lor : simpl never.
Arguments Z.land : simpl never.
Arguments Z.shiftl : simpl never.
Arguments Z.shiftr : simpl never.

Lemma ref_9B : refines_op 155. Proof. reg_only 155 op_txy TXY Imp. Qed.
Lemma ref_BB : refines_op 187. Proof. reg_only 187 op_tyx TYX Imp. Qed.
Lemma ref_BA : refines_op 186. Proof. reg_only 186 op_tsx TSX Imp. Qed.
Lemma ref_9A : refines_op 154. Proof. reg_only 154 op_txs TXS Imp. Qed.
