(* C01 refinement lemmas, control flow without stack: JMP abs / (abs) / (abs,X), JML long / [abs], BRL, WDM
   (see C01JmpBase.v).

   snapshot_dep: op_jmp, op_brl, op_wdm, cmdRead, cmdRead16, nRead, nRead16_wrap *)
From Coq Require Import ZArith NArith List Bool Lia.
From Spec Require Import ISA Spec816.
From Lib Require Import ZOps Machine.
From Snapshot Require Import GenFields GenCpu65.
From Props Require Import C01Base C01Flow C01Imm C01JmpBase C01JmpTac.
Import ListNotations.
Local Open Scope Z_scope.
Arguments Z.modulo : simpl never.
Arguments Z.lor : simpl never.
Arguments Z.land : simpl never.
Arguments Z.shiftl : simpl never.
Arguments Z.shiftr : simpl never.

Lemma ref_4C : refines_op 76.
Proof.
  start_mode Step_abs1 76.
  cbv beta zeta delta [op_jmp]. rewrite Hmd. mode_chain 1.
  rewrite bind_Ok. apply refines_finish; unfold advance.
  - jabs s W Hop s1 Hs1 Hm1 JMP Abs. opnd_ranges s. (apply mkArch_eq; jfield).
  - intro a. jmem Hm1. spec_side s W Hop JMP Abs. rewrite !fetch_opnd. jspec_eval. reflexivity.
  - opnd_ranges s. jwf s W s1 Hs1.
Qed.


Lemma ref_6C : refines_op 108.
Proof.
  start_mode Step_ind18 108.
  cbv beta zeta delta [op_jmp]. mode_tests Hmd 18. rewrite Hfa. opnd_ranges s.
  rewrite nRead16_wrap_rd by lia. rewrite bind_Ok. cbv beta.
  rewrite bind_Ok. apply refines_finish; unfold advance.
  - jabs s W Hop s1 Hs1 Hm1 JMP AbsInd. (apply mkArch_eq; jfield).
  - jmemgoal s W Hop Hm1 JMP AbsInd.
  - jwf s W s1 Hs1.
Qed.

Lemma ref_7C : refines_op 124.
Proof.
  start_mode Step_indx17 124. pose_ranges s W. opnd_ranges s.
  cbv beta zeta delta [op_jmp cmdRead16]. mode_tests Hmd 17. rewrite Hfa.
  rewrite conv16_bank by add16_rng. rewrite (same_get s s1 f_RK Hs1 eq_refl).
  rewrite nRead16_wrap_rd by (assumption || add16_rng). rewrite !bind_Ok. cbv beta.
  split_X s W; (apply refines_finish; unfold advance;
  [ jabs s W Hop s1 Hs1 Hm1 JMP AbsIndX; apply mkArch_eq; jfield
  | jmemgoal s W Hop Hm1 JMP AbsIndX
  | jwf s W s1 Hs1 ]).
Qed.

Lemma ref_5C : refines_op 92.
Proof.
  start_mode Step_long20 92. pose_ranges s W. opnd_ranges s.
  cbv beta zeta delta [op_jmp]. mode_tests Hmd 20.
  rewrite bind_Ok. apply refines_finish; unfold advance.
  - jabs s W Hop s1 Hs1 Hm1 JML Long. (apply mkArch_eq; jfield).
  - jmemgoal s W Hop Hm1 JML Long.
  - jwf s W s1 Hs1; jarith.
Qed.

Lemma ref_DC : refines_op 220.
Proof.
  start_mode Step_ind19 220. pose_ranges s W. opnd_ranges s.
  cbv beta zeta delta [op_jmp]. mode_tests Hmd 19. rewrite Hfa.
  rewrite nRead16_wrap_rd by lia. rewrite bind_Ok. cbv beta. jnorm. rewrite Hfa.
  rewrite nRead_b by (lia || add16_rng). rewrite !bind_Ok. cbv beta.
  apply refines_finish; unfold advance.
  - jabs s W Hop s1 Hs1 Hm1 JML AbsIndL. (apply mkArch_eq; jfield).
  - jmemgoal s W Hop Hm1 JML AbsIndL.
  - jwf s W s1 Hs1; jarith.
Qed.

Lemma ref_82 : refines_op 130.
Proof.
  start_mode Step_rel24 130. pose_ranges s W. opnd_ranges s.
  cbv beta zeta delta [op_brl].
  rewrite bind_Ok. apply refines_finish; unfold advance.
  - jabs s W Hop s1 Hs1 Hm1 BRL Rel16. (apply mkArch_eq; jfield).
  - jmemgoal s W Hop Hm1 BRL Rel16.
  - jwf s W s1 Hs1.
Qed.

Lemma ref_42 : refines_op 66.
Proof.
  start_mode Step_imm5 66. pose_ranges s W. opnd_ranges s.
  cbv beta zeta delta [op_wdm cmdRead]. mode_tests Hmd 5. rewrite Hfa.
  rewrite (same_get s s1 f_RK Hs1 eq_refl).
  rewrite nRead_b by (assumption || add16_rng). rewrite !bind_Ok. cbv beta.
  unfold cb_absent_OnWDM, cb_call_OnWDM.
  match goal with |- context [onwdm ?x] => destruct (onwdm x) end; cbv beta iota delta [negb];
  rewrite ?bind_Ok; (apply refines_finish; unfold advance;
  [ jabs s W Hop s1 Hs1 Hm1 WDM Imm8; apply mkArch_eq; jfield
  | jmemgoal s W Hop Hm1 WDM Imm8
  | jwf s W s1 Hs1 ]).
Qed.

