(* C01: instructions with a memory operand, once per mnemonic for all memory addressing modes (TSB TRB BIT).
   snapshot_dep: op_tsb, op_trb, op_bit *)
From Coq Require Import ZArith NArith List Bool Lia.
From Spec Require Import ISA Spec816.
From Lib Require Import ZOps Machine.
From Snapshot Require Import GenFields GenCpu65.
From Props Require Import C01Base C01Shift C01Flow C01Imm C01Mem C01MemLoc C01MemOps C01MemOpsD.
Import ListNotations.
Local Open Scope Z_scope.
Arguments Z.modulo : simpl never.
Arguments Z.lor : simpl never.
Arguments Z.land : simpl never.
Arguments Z.shiftl : simpl never.
Arguments Z.shiftr : simpl never.
Ltac extra_rw ::= repeat shift_rw.

Lemma land_not_ones : forall n v a, 0 <= n -> 0 <= v < 2 ^ n -> 0 <= a ->
  Z.land v (Z.lxor a (Z.ones n)) = v - Z.land v a.
Proof.
  intros n v a Hn Hv Ha.
  assert (E : Z.land v (Z.lxor a (Z.ones n)) = Z.ldiff v a).
  { apply Z.bits_inj'. intros i Hi. rewrite Z.land_spec, Z.lxor_spec, Z.ldiff_spec.
    destruct (Z.lt_ge_cases i n) as [Hlt | Hge].
    - rewrite Z.ones_spec_low by lia. destruct (Z.testbit a i); reflexivity.
    - rewrite (bits_of_lt_pow2 v n i Hv Hge). reflexivity. }
  rewrite E. symmetry.
  rewrite Z.sub_nocarry_ldiff.
  - apply Z.bits_inj'. intros i Hi. rewrite !Z.ldiff_spec, Z.land_spec.
    destruct (Z.testbit v i), (Z.testbit a i); reflexivity.
  - apply Z.bits_inj'. intros i Hi. rewrite Z.ldiff_spec, Z.land_spec, Z.bits_0.
    destruct (Z.testbit v i), (Z.testbit a i); reflexivity.
Qed.
Lemma trb8 : forall v a, 0 <= v < 256 -> 0 <= a < 256 -> w_and v (not8 a) = v - Z.land v a.
Proof. intros v a Hv Ha. unfold w_and, not8. change 255 with (Z.ones 8). apply land_not_ones; lia. Qed.
Lemma trb16 : forall v a, 0 <= v < 65536 -> 0 <= a < 65536 -> w_and v (not16 a) = v - Z.land v a.
Proof. intros v a Hv Ha. unfold w_and, not16. change 65535 with (Z.ones 16). apply land_not_ones; lia. Qed.
Lemma land_le : forall v a, 0 <= v -> 0 <= a -> 0 <= Z.land v a <= v.
Proof.
  intros v a Hv Ha. split. apply Z.land_nonneg; lia.
  assert (Z.ldiff v a = v - Z.land v a).
  { symmetry. rewrite Z.sub_nocarry_ldiff.
    - apply Z.bits_inj'. intros i Hi. rewrite !Z.ldiff_spec, Z.land_spec. destruct (Z.testbit v i), (Z.testbit a i); reflexivity.
    - apply Z.bits_inj'. intros i Hi. rewrite Z.ldiff_spec, Z.land_spec, Z.bits_0. destruct (Z.testbit v i), (Z.testbit a i); reflexivity. }
  assert (0 <= Z.ldiff v a) by (apply Z.ldiff_nonneg; lia). lia.
Qed.
Ltac extra_rw ::=
  repeat match goal with
         | |- context [w_and ?v (not8 ?a)] => rewrite (trb8 v a) by (assumption || lia)
         | |- context [w_and ?v (not16 ?a)] => rewrite (trb16 v a) by (assumption || lia)
         end.
Ltac rng8 ::= first [ rng | (apply Z.mod_pos_bound; lia) | rng_bits | (unfold add8, sub8, conv8; apply Z.mod_pos_bound; lia) | lia | (Z.div_mod_to_equations; lia)
   | match goal with |- 0 <= ?v - Z.land ?v ?a < _ => pose proof (land_le v a ltac:(lia) ltac:(lia)); lia end ].
Ltac rng16 ::= first [ rng | (apply Z.mod_pos_bound; lia) | rng_bits | (unfold add16, sub16, conv16; apply Z.mod_pos_bound; lia) | lia | (Z.div_mod_to_equations; lia)
   | match goal with |- 0 <= ?v - Z.land ?v ?a < _ => pose proof (land_le v a ltac:(lia) ltac:(lia)); lia end ].

Lemma tsb_mem : forall op, memop op TSB op_tsb -> refines_op op.
Proof. intro op. open_mem op_tsb. - read16. write16. close_op mem_writes. - read8. write8. close_op mem_writes. Qed.
Lemma trb_mem : forall op, memop op TRB op_trb -> refines_op op.
Proof. intro op. open_mem op_trb. - read16. write16. close_op mem_writes. - read8. write8. close_op mem_writes. Qed.

Lemma setN8_ok : forall v s, 0 <= v < 256 -> setN8 v s = Ok tt (set f_N (if 128 <=? v then 1 else 0) s).
Proof. intros v s Hv. unfold setN8. rewrite (sign8 v Hv). destruct (128 <=? v); reflexivity. Qed.
Lemma setN16_ok : forall v s, 0 <= v < 65536 -> setN16 v s = Ok tt (set f_N (if 32768 <=? v then 1 else 0) s).
Proof. intros v s Hv. unfold setN16. rewrite (sign16 v Hv). destruct (32768 <=? v); reflexivity. Qed.
Lemma bit6 : forall v, 0 <= v < 256 -> negb (w_eqb (w_and v 64) 0) = Z.odd (v / 64).
Proof.
  intros v Hv.
  assert (H : all_below 8 0 (fun v => Bool.eqb (negb (w_eqb (w_and v 64) 0)) (Z.odd (v / 64))) = true) by (vm_compute; reflexivity).
  apply Bool.eqb_prop. apply (all_below_sound 8 0 _ H). cbn. lia.
Qed.
Lemma bit14 : forall v, 0 <= v < 65536 -> negb (w_eqb (w_and v 16384) 0) = Z.odd (v / 16384).
Proof.
  intros v Hv.
  assert (H : all_below 16 0 (fun v => Bool.eqb (negb (w_eqb (w_and v 16384) 0)) (Z.odd (v / 16384))) = true) by (vm_compute; reflexivity).
  apply Bool.eqb_prop. apply (all_below_sound 16 0 _ H). cbn. lia.
Qed.

Ltac extra_spec ::=
  change (32768 / 2) with 16384; change (128 / 2) with 64;
  repeat match goal with E : Z.odd _ = _ |- _ => rewrite E end.

Lemma bit_mem : forall op, memop op BIT op_bit -> refines_op op.
Proof.
  intro op. open_mem op_bit.
  - read16. run_regs s s1 Hs1. rewrite ?Hmd, ?Hn6. cbv beta iota delta [negb].
    rewrite setN16_ok by assumption. rewrite bind_Ok. cbv beta.
    change (if w_eqb (w_and v 16384) 0 then false else true) with (negb (w_eqb (w_and v 16384) 0)).
    rewrite (bit14 v Hv). change (32768 / 2) with 16384 in Hspec.
    destruct (Z.odd (v / 16384)) eqn:Eo; unfold v in Eo; close_read.
  - read8. run_regs s s1 Hs1. rewrite ?Hmd, ?Hn6. cbv beta iota delta [negb].
    rewrite setN8_ok by assumption. rewrite bind_Ok. cbv beta.
    change (if w_eqb (w_and v 64) 0 then false else true) with (negb (w_eqb (w_and v 64) 0)).
    rewrite (bit6 v Hv). change (128 / 2) with 64 in Hspec.
    destruct (Z.odd (v / 64)) eqn:Eo; unfold v in Eo; close_read.
Qed.
