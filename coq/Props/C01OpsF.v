(* C01 refinement lemmas, family F (accumulator mode) (see C01Base.v) *)
From Coq Require Import ZArith NArith List Bool Lia.
From Spec Require Import ISA Spec816.
From Lib Require Import ZOps Machine.
From Snapshot Require Import GenFields GenCpu65.
From Props Require Import C01Base.
Local Open Scope Z_scope.
Arguments Z.modulo : simpl never.
Arguments Z.lor : simpl never.
Arguments Z.land : simpl never.
Arguments Z.shiftl : simpl never.
Arguments Z.shiftr : simpl never.

Lemma ref_1A : refines_op 26. Proof. reg_only_acc 26 op_inc INC. Qed.
Lemma ref_3A : refines_op 58. Proof. reg_only_acc 58 op_dec DEC. Qed.
