(* C01: read-modify-write instructions on memory, once per mnemonic for all memory addressing modes.
   snapshot_dep: op_inc, op_dec *)
From Coq Require Import ZArith NArith List Bool Lia.
From Spec Require Import ISA Spec816.
From Lib Require Import ZOps Machine.
From Snapshot Require Import GenFields GenCpu65.
From Props Require Import C01Base C01Flow C01Imm C01Mem C01MemLoc C01MemOps C01MemOpsD.
Import ListNotations.
Local Open Scope Z_scope.
Arguments Z.modulo : simpl never.
Arguments Z.lor : simpl never.
Arguments Z.land : simpl never.
Arguments Z.shiftl : simpl never.
Arguments Z.shiftr : simpl never.

Lemma inc_mem : forall op, memop op INC op_inc -> refines_op op.
Proof. intro op. open_mem op_inc. - read16. write16. close_op mem_writes. - read8. write8. close_op mem_writes. Qed.
