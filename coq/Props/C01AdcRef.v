(* C01, ADC / SBC: refinement statements.

   The specification is silent on V after a decimal ADC / SBC and on invalid BCD operands, so the statement is
   [refines_op_d] (= refines_op under [bcd_defined], with abs equality up to V when [decimal_arith]); the bridge
   [refines_op_bridge : refines_op op -> refines_op_d op] embeds every opcode already proved.

   FOR THE INTEGRATOR - closing any of the 30 ADC / SBC opcodes, whatever the addressing mode:

     adc_close_M1 / sbc_close_M1 : forall s s1 sr v md,
       wf s -> same s s1 -> same s sr -> get f_M s = 1 ->
       decode (opcode_at s) = (ADC, md) ->                              (SBC for the sbc_close lemmas)
       cmdRead s1 = Ok v sr ->                                          (cmdRead16 for the _M0 lemmas, with get f_M s = 0)
       v = rdw W8 (mem s) (operand_loc s md) ->                         (W16 for _M0)
       get f_stepPC sr = ISA.length md true (get f_X s =? 1) ->         (false for _M0)
       bcd_defined (abs s) (mem s) = true ->
       refines_step_d s (bind (op_adc s1) (fun _ s2 => finish s2)).

   i.e. after the Step lemma of the addressing mode has produced s1 (same s s1, stepPC, StepInfo facts), all that is
   left to prove per mode is that cmdRead / cmdRead16 return the operand the specification reads (the same fact LDA,
   AND, CMP ... need) in a state sr that differs from s by trace events and scratch fields only.  [operand_loc s md]
   is oploc md (abs s) (mem s) (fetch .. 1) (fetch .. 2) (fetch .. 3).  refd_69 / refd_E9 below are the instances
   for the immediate mode.

   Arch-level facts used (reusable on their own): do_adc8_bin, do_adc8_dec, do_adc16_bin, do_adc16_dec, do_sbc8_bin,
   do_sbc8_dec, do_sbc16_bin, do_sbc16_dec rewrite Spec816.do_adc / do_sbc into with_C (core C) (with_V (core V)
   (set_nz w r (with_acc w r s))) with r = core result.

   snapshot_dep: op_adc, op_sbc, cmdRead, cmdRead16

   (the line above is machine-read: names, then a blank line) *)
From Coq Require Import ZArith NArith List Bool Lia.
From Spec Require Import ISA Spec816.
From Lib Require Import ZOps Machine.
From Snapshot Require Import GenFields GenCpu65.
From Props Require Import C01Base C01Flow C01Imm C01AdcCore C01Adc8 C01Adc16 C01AdcDec C01AdcOps.
Import ListNotations.
Local Open Scope Z_scope.
Arguments Z.modulo : simpl never.
Arguments Z.lor : simpl never.
Arguments Z.land : simpl never.
Arguments Z.shiftl : simpl never.
Arguments Z.shiftr : simpl never.

(* ---------------------------------------------------------------- the statement *)
Definition abs_eq_modV (x y : arch) : Prop := with_V false x = with_V false y.
Definition refines_step_d (s : st) (r : res (word * bool)) : Prop :=
  match r with
  | Panic => False
  | Ok _ s' =>
      (if decimal_arith (abs s) (mem s) then abs_eq_modV (abs s') (Spec816.step_state (abs s) (mem s))
       else abs s' = Spec816.step_state (abs s) (mem s)) /\
      (forall a, mem s' a = Spec816.step_mem (abs s) (mem s) a) /\ wf s'
  end.
Definition refines_op_d (op : Z) : Prop :=
  forall s, wf s -> get f_E s = 0 -> no_int s -> opcode_at s = op ->
            bcd_defined (abs s) (mem s) = true -> refines_step_d s (Step s).

Lemma refines_step_bridge : forall s r, refines_step s r -> refines_step_d s r.
Proof.
  intros s [p s' |]; [| exact (fun H => H)]. cbn [refines_step refines_step_d]. intros (Ha & Hm & Hw).
  split; [| split; assumption].
  destruct (decimal_arith (abs s) (mem s)); [unfold abs_eq_modV; rewrite Ha; reflexivity | exact Ha].
Qed.
Lemma refines_op_bridge : forall op, refines_op op -> refines_op_d op.
Proof. intros op H s W HE Hni Hop _. apply refines_step_bridge. exact (H s W HE Hni Hop). Qed.

Lemma refines_finish_d : forall s sR,
  (if decimal_arith (abs s) (mem s) then abs_eq_modV (abs (advance sR)) (Spec816.step_state (abs s) (mem s))
   else abs (advance sR) = Spec816.step_state (abs s) (mem s)) ->
  (forall a, mem sR a = Spec816.step_mem (abs s) (mem s) a) ->
  wf (advance sR) ->
  refines_step_d s (finish sR).
Proof.
  intros s sR Ha Hm Hw. unfold finish.
  set (s12 := set f_AllCycles (add64 (get f_AllCycles sR) (get f_Cycles sR)) sR).
  set (s13 := set f_PC (add16 (get f_PC s12) (get f_stepPC s12)) s12).
  assert (E : forall f, archf f = true -> get f s13 = get f (advance sR)).
  { intros f Hf. unfold s13, s12, advance.
    rewrite (get_set_other f_PC f_AllCycles), (get_set_other f_stepPC f_AllCycles) by reflexivity.
    destruct (N.eqb f f_PC) eqn:Ef.
    - apply N.eqb_eq in Ef. subst f. rewrite !get_set_this. reflexivity.
    - rewrite !(get_set_other f f_PC) by exact Ef.
      assert (N.eqb f f_AllCycles = false) as Ec.
      { destruct (N.eqb f f_AllCycles) eqn:E2; [| reflexivity]. apply N.eqb_eq in E2. subst f. discriminate Hf. }
      rewrite (get_set_other f f_AllCycles) by exact Ec. reflexivity. }
  assert (R : refines_step_d s (Ok (get f_Cycles s13, true) s13) /\ refines_step_d s (Ok (get f_Cycles s13, false) s13)).
  { cbn [refines_step_d]. rewrite (abs_ext _ _ E).
    assert (M : forall a, mem s13 a = Spec816.step_mem (abs s) (mem s) a)
      by (intro a; unfold s13, s12; rewrite !mem_set; apply Hm).
    pose proof (wf_ext _ _ E Hw) as W13. split; (split; [exact Ha | split; [exact M | exact W13]]). }
  destruct (z2b (get f_Stopped s13)); [exact (proj1 R) | exact (proj2 R)].
Qed.

(* ---------------------------------------------------------------- Spec816.do_adc / do_sbc through the cores *)
Section ArchLevel.
Variables (s0 : arch) (a b c : Z).
Hypothesis Hc : Spec816.b2z (fC s0) = c.
Hypothesis Rc : 0 <= c <= 1.

Lemma do_adc8_bin : fD s0 = false -> acc W8 s0 = a -> 0 <= a < 256 -> 0 <= b < 256 ->
  do_adc W8 b s0 = with_C (adc8_C a b c false) (with_V (adc8_V a b c false)
                     (set_nz W8 (adc8_res a b c false) (with_acc W8 (adc8_res a b c false) s0))).
Proof.
  intros HD Ha Ra Rb. destruct (adc8_bin a b c Ra Rb Rc) as (E1 & E2 & E3). rewrite E1, E2, E3.
  unfold do_adc. rewrite HD, Ha, Hc. reflexivity.
Qed.
Lemma do_sbc8_bin : fD s0 = false -> acc W8 s0 = a -> 0 <= a < 256 -> 0 <= b < 256 ->
  do_sbc W8 b s0 = with_C (sbc8_C a b c false) (with_V (sbc8_V a b c false)
                     (set_nz W8 (sbc8_res a b c false) (with_acc W8 (sbc8_res a b c false) s0))).
Proof.
  intros HD Ha Ra Rb. destruct (sbc8_bin a b c Ra Rb Rc) as (E1 & E2 & E3). rewrite E1, E2, E3.
  unfold do_sbc. rewrite HD, Ha, Hc. reflexivity.
Qed.
Lemma do_adc16_bin : fD s0 = false -> acc W16 s0 = a -> 0 <= a < 65536 -> 0 <= b < 65536 ->
  do_adc W16 b s0 = with_C (adc16_C a b c false) (with_V (adc16_V a b c false)
                      (set_nz W16 (adc16_res a b c false) (with_acc W16 (adc16_res a b c false) s0))).
Proof.
  intros HD Ha Ra Rb. destruct (adc16_bin a b c Ra Rb Rc) as (E1 & E2 & E3). rewrite E1, E2, E3.
  unfold do_adc. rewrite HD, Ha, Hc. reflexivity.
Qed.
Lemma do_sbc16_bin : fD s0 = false -> acc W16 s0 = a -> 0 <= a < 65536 -> 0 <= b < 65536 ->
  do_sbc W16 b s0 = with_C (sbc16_C a b c false) (with_V (sbc16_V a b c false)
                      (set_nz W16 (sbc16_res a b c false) (with_acc W16 (sbc16_res a b c false) s0))).
Proof.
  intros HD Ha Ra Rb. destruct (sbc16_bin a b c Ra Rb Rc) as (E1 & E2 & E3). rewrite E1, E2, E3.
  unfold do_sbc. rewrite HD, Ha, Hc. reflexivity.
Qed.

Lemma do_adc8_dec : fD s0 = true -> acc W8 s0 = a -> 0 <= a < 256 -> 0 <= b < 256 ->
  bcd_valid W8 a = true -> bcd_valid W8 b = true ->
  do_adc W8 b s0 = with_C (adc8_C a b c true) (set_nz W8 (adc8_res a b c true) (with_acc W8 (adc8_res a b c true) s0)).
Proof.
  intros HD Ha Ra Rb Va Vb. destruct (adc8_dec a b c Ra Rb Rc Va Vb) as (E1 & E2). rewrite E1, E2.
  unfold do_adc. rewrite HD, Ha, Hc. reflexivity.
Qed.
Lemma do_sbc8_dec : fD s0 = true -> acc W8 s0 = a -> 0 <= a < 256 -> 0 <= b < 256 ->
  bcd_valid W8 a = true -> bcd_valid W8 b = true ->
  do_sbc W8 b s0 = with_C (sbc8_C a b c true) (set_nz W8 (sbc8_res a b c true) (with_acc W8 (sbc8_res a b c true) s0)).
Proof.
  intros HD Ha Ra Rb Va Vb. destruct (sbc8_dec a b c Ra Rb Rc Va Vb) as (E1 & E2). rewrite E1, E2.
  unfold do_sbc. rewrite HD, Ha, Hc. reflexivity.
Qed.
Lemma do_adc16_dec : fD s0 = true -> acc W16 s0 = a -> 0 <= a < 65536 -> 0 <= b < 65536 ->
  bcd_valid W16 a = true -> bcd_valid W16 b = true ->
  do_adc W16 b s0 = with_C (adc16_C a b c true) (set_nz W16 (adc16_res a b c true) (with_acc W16 (adc16_res a b c true) s0)).
Proof.
  intros HD Ha Ra Rb Va Vb. destruct (adc16_dec a b c Ra Rb Rc Va Vb) as (E1 & E2). rewrite E1, E2.
  unfold do_adc. rewrite HD, Ha, Hc. reflexivity.
Qed.
Lemma do_sbc16_dec : fD s0 = true -> acc W16 s0 = a -> 0 <= a < 65536 -> 0 <= b < 65536 ->
  bcd_valid W16 a = true -> bcd_valid W16 b = true ->
  do_sbc W16 b s0 = with_C (sbc16_C a b c true) (set_nz W16 (sbc16_res a b c true) (with_acc W16 (sbc16_res a b c true) s0)).
Proof.
  intros HD Ha Ra Rb Va Vb. destruct (sbc16_dec a b c Ra Rb Rc Va Vb) as (E1 & E2). rewrite E1, E2.
  unfold do_sbc. rewrite HD, Ha, Hc. reflexivity.
Qed.
End ArchLevel.

(* ---------------------------------------------------------------- the specification's step on an ADC / SBC opcode *)
Definition operand_loc (s : st) (md : mode) : loc :=
  oploc md (abs s) (mem s) (fetch (abs s) (mem s) 1) (fetch (abs s) (mem s) 2) (fetch (abs s) (mem s) 3).
Definition next_arch (s : st) (md : mode) : arch :=
  with_PC (w16 (rPC (abs s) + ISA.length md (fM (abs s)) (fX (abs s)))) (abs s).

Lemma spec_step_adc : forall s md, wf s -> decode (opcode_at s) = (ADC, md) ->
  Spec816.step (abs s) (mem s)
  = (do_adc (mw (abs s)) (rdw (mw (abs s)) (mem s) (operand_loc s md)) (next_arch s md), []).
Proof.
  intros s md W Hdec. unfold Spec816.step. rewrite (spec_fetch0 s (wf_RK s W) (wf_PC s W)), Hdec. reflexivity.
Qed.
Lemma spec_step_sbc : forall s md, wf s -> decode (opcode_at s) = (SBC, md) ->
  Spec816.step (abs s) (mem s)
  = (do_sbc (mw (abs s)) (rdw (mw (abs s)) (mem s) (operand_loc s md)) (next_arch s md), []).
Proof.
  intros s md W Hdec. unfold Spec816.step. rewrite (spec_fetch0 s (wf_RK s W) (wf_PC s W)), Hdec. reflexivity.
Qed.

Lemma decimal_arith_adc_sbc : forall s mn md, wf s -> decode (opcode_at s) = (mn, md) -> mn = ADC \/ mn = SBC ->
  decimal_arith (abs s) (mem s) = (get f_D s =? 1).
Proof.
  intros s mn md W Hdec Hmn. unfold decimal_arith, mnem_of.
  rewrite (spec_fetch0 s (wf_RK s W) (wf_PC s W)), Hdec. cbn [fst].
  destruct Hmn; subst mn; unfold abs; cbn [fD]; apply andb_true_r.
Qed.

Lemma bcd_defined_args : forall s mn md, wf s -> decode (opcode_at s) = (mn, md) -> mn = ADC \/ mn = SBC ->
  get f_D s = 1 -> bcd_defined (abs s) (mem s) = true ->
  bcd_valid (mw (abs s)) (acc (mw (abs s)) (abs s)) = true /\
  bcd_valid (mw (abs s)) (rdw (mw (abs s)) (mem s) (operand_loc s md)) = true.
Proof.
  intros s mn md W Hdec Hmn HD Hb. unfold bcd_defined in Hb.
  rewrite (decimal_arith_adc_sbc s mn md W Hdec Hmn), HD in Hb. cbn [negb orb Z.eqb Pos.eqb] in Hb.
  unfold mode_of in Hb. rewrite (spec_fetch0 s (wf_RK s W) (wf_PC s W)), Hdec in Hb. cbn [snd] in Hb.
  apply andb_prop in Hb. exact Hb.
Qed.

(* ---------------------------------------------------------------- abs / wf of the routines' final states *)
Lemma b2z_eqb1 : forall b : bool, (b2z b =? 1) = b.
Proof. destruct b; reflexivity. Qed.

Lemma abs_final8 : forall s sr r cf vf len, same s sr -> get f_M s = 1 -> get f_stepPC sr = len ->
  abs (advance (final8 r cf vf sr)) =
  with_PC (add16 (get f_PC s) len)
    (with_C cf (with_V vf (with_N (nz_N8 r) (with_Z (nz_Z r) (with_A (get f_RAh s * 256 + r) (abs s)))))).
Proof.
  intros s sr r cf vf len Hsr HM Hsz. unfold advance, final8. unfold abs at 1. gs_norm. rewrite Hsz.
  to_initial s sr Hsr. rewrite HM, !b2z_eqb1. unfold abs. rewrite HM. reflexivity.
Qed.
Lemma abs_final16 : forall s sr r cf vf len, same s sr -> get f_M s = 0 -> get f_stepPC sr = len ->
  abs (advance (final16 r cf vf sr)) =
  with_PC (add16 (get f_PC s) len)
    (with_C cf (with_V vf (with_N (nz_N16 r) (with_Z (nz_Z r) (with_A r (abs s)))))).
Proof.
  intros s sr r cf vf len Hsr HM Hsz. unfold advance, final16. unfold abs at 1. gs_norm. rewrite Hsz.
  to_initial s sr Hsr. rewrite HM, !b2z_eqb1. unfold abs. rewrite HM. reflexivity.
Qed.

Lemma b2z_01 : forall b : bool, b2z b = 0 \/ b2z b = 1.
Proof. destruct b; [right | left]; reflexivity. Qed.

Lemma wf_final8 : forall s sr r cf vf, wf s -> same s sr -> 0 <= r < 256 -> wf (advance (final8 r cf vf sr)).
Proof.
  intros s sr r cf vf W Hsr Hr. unfold advance, final8.
  constructor; unfold flag01; gs_norm; to_initial s sr Hsr;
    first [ apply W | exact Hr | apply b2z_01 | (unfold add16; apply Z.mod_pos_bound; lia) ].
Qed.
Lemma wf_final16 : forall s sr r cf vf, wf s -> same s sr -> 0 <= r < 65536 -> wf (advance (final16 r cf vf sr)).
Proof.
  intros s sr r cf vf W Hsr Hr. unfold advance, final16.
  constructor; unfold flag01; gs_norm; to_initial s sr Hsr;
    first [ apply W | exact Hr | apply b2z_01 | (unfold add16; apply Z.mod_pos_bound; lia) ].
Qed.

(* pure record algebra: the final abs against the shape the do_adc / do_sbc lemmas produce *)
Ltac record_eval :=
  cbv beta iota delta [with_PC with_C with_V with_N with_Z with_A set_nz with_acc nz_N8 nz_N16 nz_Z wsgn wmod
                       rA rX rY rS rD rDBR rPBR rPC fN fV fM fX fD fI fZ fC rE rStp].
Lemma chain8 : forall A pc cf vf r, 0 <= r < 256 ->
  with_PC pc (with_C cf (with_V vf (with_N (nz_N8 r) (with_Z (nz_Z r) (with_A ((rA A / 256) mod 256 * 256 + r) A)))))
  = with_C cf (with_V vf (set_nz W8 r (with_acc W8 r (with_PC pc A)))).
Proof.
  intros A pc cf vf r Hr. destruct A. record_eval. rewrite (Z.mod_small r 256) by exact Hr. reflexivity.
Qed.
Lemma chain8d : forall A pc cf vf r, 0 <= r < 256 ->
  with_V false (with_PC pc (with_C cf (with_V vf (with_N (nz_N8 r) (with_Z (nz_Z r) (with_A ((rA A / 256) mod 256 * 256 + r) A))))))
  = with_V false (with_C cf (set_nz W8 r (with_acc W8 r (with_PC pc A)))).
Proof.
  intros A pc cf vf r Hr. destruct A. record_eval. rewrite (Z.mod_small r 256) by exact Hr. reflexivity.
Qed.
Lemma chain16 : forall A pc cf vf r, 0 <= r < 65536 ->
  with_PC pc (with_C cf (with_V vf (with_N (nz_N16 r) (with_Z (nz_Z r) (with_A r A)))))
  = with_C cf (with_V vf (set_nz W16 r (with_acc W16 r (with_PC pc A)))).
Proof.
  intros A pc cf vf r Hr. destruct A. record_eval. rewrite (Z.mod_small r 65536) by exact Hr. reflexivity.
Qed.
Lemma chain16d : forall A pc cf vf r, 0 <= r < 65536 ->
  with_V false (with_PC pc (with_C cf (with_V vf (with_N (nz_N16 r) (with_Z (nz_Z r) (with_A r A))))))
  = with_V false (with_C cf (set_nz W16 r (with_acc W16 r (with_PC pc A)))).
Proof.
  intros A pc cf vf r Hr. destruct A. record_eval. rewrite (Z.mod_small r 65536) by exact Hr. reflexivity.
Qed.

(* the architectural facts of a well-formed state, per accumulator width *)
Lemma arch_M1 : forall s md, wf s -> get f_M s = 1 ->
  mw (abs s) = W8 /\
  next_arch s md = with_PC (add16 (get f_PC s) (ISA.length md true (get f_X s =? 1))) (abs s) /\
  (rA (abs s) / 256) mod 256 = get f_RAh s /\
  acc W8 (abs s) = get f_RAl s.
Proof.
  intros s md W HM. pose proof (wf_RAl s W). pose proof (wf_RAh s W).
  unfold mw, next_arch, acc, abs. cbn [fM fX rA rPC wmod]. rewrite HM. change (1 =? 1) with true. cbv iota.
  repeat split; Z.div_mod_to_equations; lia.
Qed.
Lemma arch_M0 : forall s md, wf s -> get f_M s = 0 ->
  mw (abs s) = W16 /\
  next_arch s md = with_PC (add16 (get f_PC s) (ISA.length md false (get f_X s =? 1))) (abs s) /\
  acc W16 (abs s) = get f_RA s.
Proof.
  intros s md W HM. pose proof (wf_RA s W).
  unfold mw, next_arch, acc, abs. cbn [fM fX rA rPC wmod]. rewrite HM. change (0 =? 1) with false. cbv iota.
  repeat split. apply Z.mod_small. assumption.
Qed.
Lemma carry_of : forall s A, wf s -> fC A = (get f_C s =? 1) -> Spec816.b2z (fC A) = get f_C s /\ 0 <= get f_C s <= 1.
Proof. intros s A W E. rewrite E. destruct (wf_C s W) as [H | H]; rewrite H; split; (reflexivity || lia). Qed.

(* ---------------------------------------------------------------- closing lemmas *)
Lemma rdw8_range : forall m l, 0 <= rdw W8 m l < 256.
Proof. intros m l. cbn [rdw]. unfold rd8, byte. apply Z.mod_pos_bound. lia. Qed.
Lemma rdw16_range : forall m l, 0 <= rdw W16 m l < 65536.
Proof.
  intros m l. cbn [rdw]. unfold rd16, byte.
  pose proof (Z.mod_pos_bound (m (loc_byte l 0)) 256 ltac:(lia)). pose proof (Z.mod_pos_bound (m (loc_byte l 1)) 256 ltac:(lia)). lia.
Qed.

Lemma adc_close_M1 : forall s s1 sr v md,
  wf s -> same s s1 -> same s sr -> get f_M s = 1 ->
  decode (opcode_at s) = (ADC, md) ->
  cmdRead s1 = Ok v sr ->
  v = rdw W8 (mem s) (operand_loc s md) ->
  get f_stepPC sr = ISA.length md true (get f_X s =? 1) ->
  bcd_defined (abs s) (mem s) = true ->
  refines_step_d s (bind (op_adc s1) (fun _ s2 => finish s2)).
Proof.
  intros s s1 sr v md W Hs1 Hsr HM Hdec Hr Hv Hsz Hbcd.
  assert (HM1 : get f_M s1 = 1) by (rewrite (same_get s s1 f_M Hs1 eq_refl); exact HM).
  rewrite (op_adc_M1 s1 v sr HM1 Hr), bind_Ok. unfold adc8_final, dflag, w_eqb.
  rewrite (same_get s s1 f_RAl Hs1 eq_refl), (same_get s sr f_C Hsr eq_refl), (same_get s sr f_D Hsr eq_refl).
  assert (Rv : 0 <= v < 256) by (rewrite Hv; apply rdw8_range).
  pose proof (wf_RAl s W) as Ra.
  destruct (arch_M1 s md W HM) as (Hmw & Hnext & Hhi & Hacc).
  destruct (carry_of s (abs s) W eq_refl) as (HC & Rc).
  apply refines_finish_d.
  - rewrite (decimal_arith_adc_sbc s ADC md W Hdec (or_introl eq_refl)).
    unfold Spec816.step_state. rewrite (spec_step_adc s md W Hdec). cbn [fst]. rewrite Hmw, <- Hv, Hnext.
    rewrite (abs_final8 s sr _ _ _ _ Hsr HM Hsz), <- Hhi.
    destruct (wf_D s W) as [HD | HD]; rewrite HD.
    + change (0 =? 1) with false. cbv iota.
      match goal with |- context [do_adc W8 v ?A] => rewrite (do_adc8_bin A (get f_RAl s) v (get f_C s) HC Rc) end; try assumption.
      * apply chain8. unfold adc8_res, conv8. apply Z.mod_pos_bound. lia.
      * unfold abs. cbn [fD with_PC]. rewrite HD. reflexivity.
    + change (1 =? 1) with true. cbv iota.
      destruct (bcd_defined_args s ADC md W Hdec (or_introl eq_refl) HD Hbcd) as (Va & Vb).
      rewrite Hmw, Hacc in Va. rewrite Hmw, <- Hv in Vb.
      match goal with |- context [do_adc W8 v ?A] => rewrite (do_adc8_dec A (get f_RAl s) v (get f_C s) HC Rc) end; try assumption.
      * apply chain8d. unfold adc8_res, conv8. apply Z.mod_pos_bound. lia.
      * unfold abs. cbn [fD with_PC]. rewrite HD. reflexivity.
  - intro a. unfold final8. gs_norm. rewrite (proj2 Hsr). unfold Spec816.step_mem. rewrite (spec_step_adc s md W Hdec). reflexivity.
  - apply (wf_final8 s sr _ _ _ W Hsr). unfold adc8_res, conv8. apply Z.mod_pos_bound. lia.
Qed.

Lemma adc_close_M0 : forall s s1 sr v md,
  wf s -> same s s1 -> same s sr -> get f_M s = 0 ->
  decode (opcode_at s) = (ADC, md) ->
  cmdRead16 s1 = Ok v sr ->
  v = rdw W16 (mem s) (operand_loc s md) ->
  get f_stepPC sr = ISA.length md false (get f_X s =? 1) ->
  bcd_defined (abs s) (mem s) = true ->
  refines_step_d s (bind (op_adc s1) (fun _ s2 => finish s2)).
Proof.
  intros s s1 sr v md W Hs1 Hsr HM Hdec Hr Hv Hsz Hbcd.
  assert (HM1 : get f_M s1 = 0) by (rewrite (same_get s s1 f_M Hs1 eq_refl); exact HM).
  rewrite (op_adc_M0 s1 v sr HM1 Hr), bind_Ok. unfold adc16_final, dflag, w_eqb.
  rewrite (same_get s s1 f_RA Hs1 eq_refl), (same_get s sr f_C Hsr eq_refl), (same_get s sr f_D Hsr eq_refl).
  assert (Rv : 0 <= v < 65536) by (rewrite Hv; apply rdw16_range).
  pose proof (wf_RA s W) as Ra.
  destruct (arch_M0 s md W HM) as (Hmw & Hnext & Hacc).
  destruct (carry_of s (abs s) W eq_refl) as (HC & Rc).
  apply refines_finish_d.
  - rewrite (decimal_arith_adc_sbc s ADC md W Hdec (or_introl eq_refl)).
    unfold Spec816.step_state. rewrite (spec_step_adc s md W Hdec). cbn [fst]. rewrite Hmw, <- Hv, Hnext.
    rewrite (abs_final16 s sr _ _ _ _ Hsr HM Hsz).
    destruct (wf_D s W) as [HD | HD]; rewrite HD.
    + change (0 =? 1) with false. cbv iota.
      match goal with |- context [do_adc W16 v ?A] => rewrite (do_adc16_bin A (get f_RA s) v (get f_C s) HC Rc) end; try assumption.
      * apply chain16. unfold adc16_res, conv16. apply Z.mod_pos_bound. lia.
      * unfold abs. cbn [fD with_PC]. rewrite HD. reflexivity.
    + change (1 =? 1) with true. cbv iota.
      destruct (bcd_defined_args s ADC md W Hdec (or_introl eq_refl) HD Hbcd) as (Va & Vb).
      rewrite Hmw, Hacc in Va. rewrite Hmw, <- Hv in Vb.
      match goal with |- context [do_adc W16 v ?A] => rewrite (do_adc16_dec A (get f_RA s) v (get f_C s) HC Rc) end; try assumption.
      * apply chain16d. unfold adc16_res, conv16. apply Z.mod_pos_bound. lia.
      * unfold abs. cbn [fD with_PC]. rewrite HD. reflexivity.
  - intro a. unfold final16. gs_norm. rewrite (proj2 Hsr). unfold Spec816.step_mem. rewrite (spec_step_adc s md W Hdec). reflexivity.
  - apply (wf_final16 s sr _ _ _ W Hsr). unfold adc16_res, conv16. apply Z.mod_pos_bound. lia.
Qed.

Lemma sbc_close_M1 : forall s s1 sr v md,
  wf s -> same s s1 -> same s sr -> get f_M s = 1 ->
  decode (opcode_at s) = (SBC, md) ->
  cmdRead s1 = Ok v sr ->
  v = rdw W8 (mem s) (operand_loc s md) ->
  get f_stepPC sr = ISA.length md true (get f_X s =? 1) ->
  bcd_defined (abs s) (mem s) = true ->
  refines_step_d s (bind (op_sbc s1) (fun _ s2 => finish s2)).
Proof.
  intros s s1 sr v md W Hs1 Hsr HM Hdec Hr Hv Hsz Hbcd.
  assert (HM1 : get f_M s1 = 1) by (rewrite (same_get s s1 f_M Hs1 eq_refl); exact HM).
  rewrite (op_sbc_M1 s1 v sr HM1 Hr), bind_Ok. unfold sbc8_final, dflag, w_eqb.
  rewrite (same_get s s1 f_RAl Hs1 eq_refl), (same_get s sr f_C Hsr eq_refl), (same_get s sr f_D Hsr eq_refl).
  assert (Rv : 0 <= v < 256) by (rewrite Hv; apply rdw8_range).
  pose proof (wf_RAl s W) as Ra.
  destruct (arch_M1 s md W HM) as (Hmw & Hnext & Hhi & Hacc).
  destruct (carry_of s (abs s) W eq_refl) as (HC & Rc).
  apply refines_finish_d.
  - rewrite (decimal_arith_adc_sbc s SBC md W Hdec (or_intror eq_refl)).
    unfold Spec816.step_state. rewrite (spec_step_sbc s md W Hdec). cbn [fst]. rewrite Hmw, <- Hv, Hnext.
    rewrite (abs_final8 s sr _ _ _ _ Hsr HM Hsz), <- Hhi.
    destruct (wf_D s W) as [HD | HD]; rewrite HD.
    + change (0 =? 1) with false. cbv iota.
      match goal with |- context [do_sbc W8 v ?A] => rewrite (do_sbc8_bin A (get f_RAl s) v (get f_C s) HC Rc) end; try assumption.
      * apply chain8. unfold sbc8_res, conv8. apply Z.mod_pos_bound. lia.
      * unfold abs. cbn [fD with_PC]. rewrite HD. reflexivity.
    + change (1 =? 1) with true. cbv iota.
      destruct (bcd_defined_args s SBC md W Hdec (or_intror eq_refl) HD Hbcd) as (Va & Vb).
      rewrite Hmw, Hacc in Va. rewrite Hmw, <- Hv in Vb.
      match goal with |- context [do_sbc W8 v ?A] => rewrite (do_sbc8_dec A (get f_RAl s) v (get f_C s) HC Rc) end; try assumption.
      * apply chain8d. unfold sbc8_res, conv8. apply Z.mod_pos_bound. lia.
      * unfold abs. cbn [fD with_PC]. rewrite HD. reflexivity.
  - intro a. unfold final8. gs_norm. rewrite (proj2 Hsr). unfold Spec816.step_mem. rewrite (spec_step_sbc s md W Hdec). reflexivity.
  - apply (wf_final8 s sr _ _ _ W Hsr). unfold sbc8_res, conv8. apply Z.mod_pos_bound. lia.
Qed.

Lemma sbc_close_M0 : forall s s1 sr v md,
  wf s -> same s s1 -> same s sr -> get f_M s = 0 ->
  decode (opcode_at s) = (SBC, md) ->
  cmdRead16 s1 = Ok v sr ->
  v = rdw W16 (mem s) (operand_loc s md) ->
  get f_stepPC sr = ISA.length md false (get f_X s =? 1) ->
  bcd_defined (abs s) (mem s) = true ->
  refines_step_d s (bind (op_sbc s1) (fun _ s2 => finish s2)).
Proof.
  intros s s1 sr v md W Hs1 Hsr HM Hdec Hr Hv Hsz Hbcd.
  assert (HM1 : get f_M s1 = 0) by (rewrite (same_get s s1 f_M Hs1 eq_refl); exact HM).
  rewrite (op_sbc_M0 s1 v sr HM1 Hr), bind_Ok. unfold sbc16_final, dflag, w_eqb.
  rewrite (same_get s s1 f_RA Hs1 eq_refl), (same_get s sr f_C Hsr eq_refl), (same_get s sr f_D Hsr eq_refl).
  assert (Rv : 0 <= v < 65536) by (rewrite Hv; apply rdw16_range).
  pose proof (wf_RA s W) as Ra.
  destruct (arch_M0 s md W HM) as (Hmw & Hnext & Hacc).
  destruct (carry_of s (abs s) W eq_refl) as (HC & Rc).
  apply refines_finish_d.
  - rewrite (decimal_arith_adc_sbc s SBC md W Hdec (or_intror eq_refl)).
    unfold Spec816.step_state. rewrite (spec_step_sbc s md W Hdec). cbn [fst]. rewrite Hmw, <- Hv, Hnext.
    rewrite (abs_final16 s sr _ _ _ _ Hsr HM Hsz).
    destruct (wf_D s W) as [HD | HD]; rewrite HD.
    + change (0 =? 1) with false. cbv iota.
      match goal with |- context [do_sbc W16 v ?A] => rewrite (do_sbc16_bin A (get f_RA s) v (get f_C s) HC Rc) end; try assumption.
      * apply chain16. unfold sbc16_res, conv16. apply Z.mod_pos_bound. lia.
      * unfold abs. cbn [fD with_PC]. rewrite HD. reflexivity.
    + change (1 =? 1) with true. cbv iota.
      destruct (bcd_defined_args s SBC md W Hdec (or_intror eq_refl) HD Hbcd) as (Va & Vb).
      rewrite Hmw, Hacc in Va. rewrite Hmw, <- Hv in Vb.
      match goal with |- context [do_sbc W16 v ?A] => rewrite (do_sbc16_dec A (get f_RA s) v (get f_C s) HC Rc) end; try assumption.
      * apply chain16d. unfold sbc16_res, conv16. apply Z.mod_pos_bound. lia.
      * unfold abs. cbn [fD with_PC]. rewrite HD. reflexivity.
  - intro a. unfold final16. gs_norm. rewrite (proj2 Hsr). unfold Spec816.step_mem. rewrite (spec_step_sbc s md W Hdec). reflexivity.
  - apply (wf_final16 s sr _ _ _ W Hsr). unfold sbc16_res, conv16. apply Z.mod_pos_bound. lia.
Qed.
