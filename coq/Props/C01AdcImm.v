(* C01, ADC #imm ($69) and SBC #imm ($E9): instances of the closing lemmas of C01AdcRef.v for the immediate mode
   (Step_imm6, cmdRead_imm_ok, cmdRead16_imm_ok of C01Imm.v).

   snapshot_dep: Step, tbl_mode, tbl_size, tbl_proc, op_adc, op_sbc, cmdRead, cmdRead16

   (the line above is machine-read: names, then a blank line) *)
From Coq Require Import ZArith NArith List Bool Lia.
From Spec Require Import ISA Spec816.
From Lib Require Import ZOps Machine.
From Snapshot Require Import GenFields GenCpu65.
From Props Require Import C01Base C01Flow C01Imm C01AdcCore C01AdcOps C01AdcRef.
Local Open Scope Z_scope.
Arguments Z.modulo : simpl never.
Arguments Z.lor : simpl never.
Arguments Z.land : simpl never.
Arguments Z.shiftl : simpl never.
Arguments Z.shiftr : simpl never.

(* the immediate operand as the specification reads it *)
Lemma imm_operand8 : forall s s1, wf s -> same s s1 -> get f_StepInfo_Addr s1 = add16 (get f_PC s) 1 ->
  mem s1 (get f_RK s1 * 65536 + get f_StepInfo_Addr s1) mod 256 = rdw W8 (mem s) (operand_loc s ImmM).
Proof.
  intros s s1 W Hs1 Haddr. rewrite Haddr, (same_get s s1 f_RK Hs1 eq_refl), (proj2 Hs1).
  unfold operand_loc, oploc, rdw, rd8, byte, loc_byte, ba, w16, abs, add16. arch_proj.
  rewrite Z.add_0_r, Zmod_mod. reflexivity.
Qed.
Lemma imm_operand16 : forall s s1, wf s -> same s s1 -> get f_StepInfo_Addr s1 = add16 (get f_PC s) 1 ->
  w_or (shl16 (mem s1 (get f_RK s1 * 65536 + add16 (get f_StepInfo_Addr s1) 1) mod 256) 8)
       (mem s1 (get f_RK s1 * 65536 + get f_StepInfo_Addr s1) mod 256)
  = rdw W16 (mem s) (operand_loc s ImmM).
Proof.
  intros s s1 W Hs1 Haddr. rewrite Haddr, (same_get s s1 f_RK Hs1 eq_refl), !(proj2 Hs1).
  rewrite join16 by (apply Z.mod_pos_bound; lia).
  unfold operand_loc, oploc, rdw, rd16, byte, loc_byte, ba, w16, abs, add16. arch_proj.
  rewrite Z.add_0_r, Zmod_mod. lia.
Qed.

Lemma refd_69 : refines_op_d 105.
Proof.
  intros s W HE Hni Hop Hbcd.
  apply (Step_imm6 s 105); [ exact Hni | apply W | apply W | exact Hop | reflexivity | ].
  intros s1 Hs1 Hsz Hmd Haddr.
  change (tbl_proc 105) with op_adc. change (tbl_size 105) with 3 in Hsz.
  assert (Hdec : decode (opcode_at s) = (ADC, ImmM)) by (rewrite Hop; reflexivity).
  assert (Rk1 : 0 <= get f_RK s1 < 256) by (rewrite (same_get s s1 f_RK Hs1 eq_refl); apply W).
  assert (Ra1 : 0 <= get f_StepInfo_Addr s1 < 65536) by (rewrite Haddr; unfold add16; apply Z.mod_pos_bound; lia).
  destruct (wf_M s W) as [HM | HM]; rewrite HM in Hsz.
  - refine (adc_close_M0 s s1 _ _ ImmM W Hs1 _ HM Hdec (cmdRead16_imm_ok s1 (or_introl Hmd) Rk1 Ra1) _ _ Hbcd).
    + same_solver.
    + apply imm_operand16; assumption.
    + rewrite !get_log, Hsz. reflexivity.
  - refine (adc_close_M1 s s1 _ _ ImmM W Hs1 _ HM Hdec (cmdRead_imm_ok s1 (or_introl Hmd) Rk1 Ra1) _ _ Hbcd).
    + same_solver.
    + apply imm_operand8; assumption.
    + rewrite !get_log, Hsz. reflexivity.
Qed.

Lemma refd_E9 : refines_op_d 233.
Proof.
  intros s W HE Hni Hop Hbcd.
  apply (Step_imm6 s 233); [ exact Hni | apply W | apply W | exact Hop | reflexivity | ].
  intros s1 Hs1 Hsz Hmd Haddr.
  change (tbl_proc 233) with op_sbc. change (tbl_size 233) with 3 in Hsz.
  assert (Hdec : decode (opcode_at s) = (SBC, ImmM)) by (rewrite Hop; reflexivity).
  assert (Rk1 : 0 <= get f_RK s1 < 256) by (rewrite (same_get s s1 f_RK Hs1 eq_refl); apply W).
  assert (Ra1 : 0 <= get f_StepInfo_Addr s1 < 65536) by (rewrite Haddr; unfold add16; apply Z.mod_pos_bound; lia).
  destruct (wf_M s W) as [HM | HM]; rewrite HM in Hsz.
  - refine (sbc_close_M0 s s1 _ _ ImmM W Hs1 _ HM Hdec (cmdRead16_imm_ok s1 (or_introl Hmd) Rk1 Ra1) _ _ Hbcd).
    + same_solver.
    + apply imm_operand16; assumption.
    + rewrite !get_log, Hsz. reflexivity.
  - refine (sbc_close_M1 s s1 _ _ ImmM W Hs1 _ HM Hdec (cmdRead_imm_ok s1 (or_introl Hmd) Rk1 Ra1) _ _ Hbcd).
    + same_solver.
    + apply imm_operand8; assumption.
    + rewrite !get_log, Hsz. reflexivity.
Qed.
