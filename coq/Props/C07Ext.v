(* C07, supplement for the opcodes the straight-line contract of CoupleProps.v leaves out: consequences of C01_step.

   A conditional branch whose condition is false, and a block move, are not "taken control transfers", yet the per-opcode
   contract of C07 (len_contract) is stated by opcode only and therefore excludes them.  Here, from the full refinement
   theorem C01_step: a conditional branch that is not taken advances PC by exactly its length 2 inside the program bank
   and changes nothing else (registers, flags - in particular M and X - and memory); MVN / MVP keep PBR, M, X, leave PC on
   the instruction while the count is running and advance it by exactly 3 when it ends; WAI, and STP, advance by 1.  So
   the CPU's next opcode fetch is again at an instruction start the assembler reported.  (Stated for the model of the
   primary interpreter; C01_step_alternative transports C01_step, hence these, to the other one.) *)
From Coq Require Import ZArith NArith List Bool Lia.
From Spec Require Import ISA Spec816.
From Lib Require Import ZOps Machine.
From Snapshot Require Import GenFields GenCpu65.
From Props Require Import C01Base C01AdcRef C01Props.
From Props Require CoupleProps.
Import ListNotations.
Local Open Scope Z_scope.

Definition branch_cond (op : Z) (a : arch) : bool :=
  match op with
  | 16 => negb (fN a) | 48 => fN a | 80 => negb (fV a) | 112 => fV a
  | 144 => negb (fC a) | 176 => fC a | 208 => negb (fZ a) | 240 => fZ a
  | _ => true
  end.
Definition cond_branches : list Z := [16; 48; 80; 112; 144; 176; 208; 240].

(* the branch condition used by C07's program-level theorem (Props/CoupleProps.br_taken, over the flags as 0 / 1) is the
   condition of the architectural specification: [branch_cond], which C07_branch_not_taken below ties to Spec816.step *)
Lemma br_taken_spec816 : forall op a, In op cond_branches ->
  CoupleProps.br_taken op (if fN a then 1 else 0) (if fV a then 1 else 0) (if fC a then 1 else 0) (if fZ a then 1 else 0) = branch_cond op a.
Proof.
  intros op a Hin. cbv [cond_branches In] in Hin.
  repeat (destruct Hin as [<- | Hin]; [ cbn [CoupleProps.br_taken branch_cond]; destruct (fN a), (fV a), (fC a), (fZ a); reflexivity | ]).
  contradiction.
Qed.
Lemma cond_branches_same : cond_branches = CoupleProps.cond_ops.
Proof. reflexivity. Qed.

Lemma not_arith_defined : forall s, wf s ->
  match mnem_of (opcode_at s) with ADC | SBC => False | _ => True end ->
  Spec816.decimal_arith (abs s) (Machine.mem s) = false /\ Spec816.bcd_defined (abs s) (Machine.mem s) = true.
Proof.
  intros s W H. unfold bcd_defined, decimal_arith.
  rewrite (spec_fetch0 s (wf_RK s W) (wf_PC s W)).
  destruct (mnem_of (opcode_at s)); try contradiction; rewrite andb_false_r; split; reflexivity.
Qed.

Theorem C07_branch_not_taken : forall s op, wf s -> get f_E s = 0 -> no_int s -> opcode_at s = op -> In op cond_branches ->
  branch_cond op (abs s) = false ->
  match Step s with
  | Ok _ s' => abs s' = with_PC (w16 (rPC (abs s) + 2)) (abs s) /\ (forall a, Machine.mem s' a = Machine.mem s a)
  | Panic => False
  end.
Proof.
  intros s op W HE Hni Hop Hin Hc.
  assert (Hm : match mnem_of (opcode_at s) with ADC | SBC => False | _ => True end).
  { rewrite Hop. cbv [cond_branches In] in Hin.
    repeat (destruct Hin as [<- | Hin]; [ exact I | ]). contradiction. }
  destruct (not_arith_defined s W Hm) as [Hd Hb].
  pose proof (C01_step s W HE Hni Hb) as R.
  destruct (Step s) as [r s' |]; [| exact R].
  cbv beta iota delta [refines_step_d] in R. rewrite Hd in R. destruct R as (Ra & Rm & _).
  split.
  - rewrite Ra. unfold step_state, step.
    rewrite (spec_fetch0 s (wf_RK s W) (wf_PC s W)), Hop.
    cbv [cond_branches In] in Hin.
    repeat (destruct Hin as [<- | Hin];
            [ cbn [branch_cond] in Hc; cbv beta iota zeta delta [decode nth Z.to_nat Pos.to_nat Pos.iter_op Nat.add matrix exec fst ISA.length];
              cbn [fN fV fC fZ rPC with_PC] in *; rewrite ?Hc; try (apply negb_false_iff in Hc; rewrite Hc); reflexivity | ]).
    contradiction.
  - intro a. rewrite Rm. unfold step_mem, step.
    rewrite (spec_fetch0 s (wf_RK s W) (wf_PC s W)), Hop.
    cbv [cond_branches In] in Hin.
    repeat (destruct Hin as [<- | Hin];
            [ cbv beta iota zeta delta [decode nth Z.to_nat Pos.to_nat Pos.iter_op Nat.add matrix exec snd];
              destruct (_ : bool); reflexivity | ]).
    contradiction.
Qed.

(* block moves: one byte per Step; the instruction is re-executed (PC stays) until the count wraps, then PC advances by its
   length 3; the program bank and the register widths never change *)
Theorem C07_block_move : forall s op, wf s -> get f_E s = 0 -> no_int s -> opcode_at s = op -> In op [84; 68] ->
  match Step s with
  | Ok _ s' => rPBR (abs s') = rPBR (abs s) /\ fM (abs s') = fM (abs s) /\ fX (abs s') = fX (abs s) /\ rE (abs s') = rE (abs s) /\
               (rPC (abs s') = rPC (abs s) \/ rPC (abs s') = w16 (rPC (abs s) + 3))
  | Panic => False
  end.
Proof.
  intros s op W HE Hni Hop Hin.
  assert (Hm : match mnem_of (opcode_at s) with ADC | SBC => False | _ => True end).
  { rewrite Hop. cbv [In] in Hin. repeat (destruct Hin as [<- | Hin]; [ exact I | ]). contradiction. }
  destruct (not_arith_defined s W Hm) as [Hd Hb].
  pose proof (C01_step s W HE Hni Hb) as R.
  destruct (Step s) as [r s' |]; [| exact R].
  cbv beta iota delta [refines_step_d] in R. rewrite Hd in R. destruct R as (Ra & _ & _).
  rewrite Ra. unfold step_state, step.
  rewrite (spec_fetch0 s (wf_RK s W) (wf_PC s W)), Hop.
  cbv [In] in Hin.
  repeat (destruct Hin as [<- | Hin];
          [ cbv beta iota zeta delta [decode nth Z.to_nat Pos.to_nat Pos.iter_op Nat.add matrix exec fst ISA.length];
            match goal with |- context [if ?c then _ else _] => destruct c end;
            cbn [rPBR fM fX rE rPC with_PC with_DBR with_A with_Y with_X]; repeat split; auto | ]).
  contradiction.
Qed.

(* WAI (with no interrupt source) and STP: one byte, nothing else but the stop flag *)
Theorem C07_wai_stp : forall s op, wf s -> get f_E s = 0 -> no_int s -> opcode_at s = op -> In op [203; 219] ->
  match Step s with
  | Ok _ s' => with_Stp false (abs s') = with_Stp false (with_PC (w16 (rPC (abs s) + 1)) (abs s)) /\
               (forall a, Machine.mem s' a = Machine.mem s a)
  | Panic => False
  end.
Proof.
  intros s op W HE Hni Hop Hin.
  assert (Hm : match mnem_of (opcode_at s) with ADC | SBC => False | _ => True end).
  { rewrite Hop. cbv [In] in Hin. repeat (destruct Hin as [<- | Hin]; [ exact I | ]). contradiction. }
  destruct (not_arith_defined s W Hm) as [Hd Hb].
  pose proof (C01_step s W HE Hni Hb) as R.
  destruct (Step s) as [r s' |]; [| exact R].
  cbv beta iota delta [refines_step_d] in R. rewrite Hd in R. destruct R as (Ra & Rm & _).
  split.
  - rewrite Ra. unfold step_state, step. rewrite (spec_fetch0 s (wf_RK s W) (wf_PC s W)), Hop.
    cbv [In] in Hin.
    repeat (destruct Hin as [<- | Hin];
            [ cbv beta iota zeta delta [decode nth Z.to_nat Pos.to_nat Pos.iter_op Nat.add matrix exec fst ISA.length]; reflexivity | ]).
    contradiction.
  - intro a. rewrite Rm. unfold step_mem, step. rewrite (spec_fetch0 s (wf_RK s W) (wf_PC s W)), Hop.
    cbv [In] in Hin.
    repeat (destruct Hin as [<- | Hin];
            [ cbv beta iota zeta delta [decode nth Z.to_nat Pos.to_nat Pos.iter_op Nat.add matrix exec snd]; reflexivity | ]).
    contradiction.
Qed.

(* non-vacuity: BNE with Z set (not taken) *)
Example C07_ext_premises :
  let s := mkst (fun f => if N.eqb f f_PC then 32768 else if N.eqb f f_Z then 1 else if N.eqb f f_Interrupt then 1 else 0)
                (fun a => if a =? 32768 then 208 else 0) [] (fun _ => false) false in
  opcode_at s = 208 /\ branch_cond 208 (abs s) = false /\ match Step s with Ok _ s' => get f_PC s' = 32770 | Panic => False end.
Proof. vm_compute. repeat split; reflexivity. Qed.
Print Assumptions br_taken_spec816.
Print Assumptions C07_branch_not_taken.
Print Assumptions C07_block_move.
Print Assumptions C07_wai_stp.
