(* C14: tracing is truthful and does not perturb execution -- theorems about Model/Disasm.v.

   (a) NON-PERTURBATION.  The disassembler model changes nothing but the bus-access trace of the
       machine (the reads it performs are recorded there): registers, memory and callback tables
       are left as they were ([disassemble_to_same]).  Hence RunUntil with a logger and RunUntil
       without one end with equal registers (AllCycles included), equal memory, the same
       reached/not-reached answer and the same cycle total ([run_until_logger_irrelevant], by
       induction on the run).
   (b) TRUTHFULNESS against the independent opcode matrix Spec/ISA.v ([disassemble_truthful]) for the
       repaired variant of the rel8 rendering, under the per-run boolean fact
       [ISA.table_agrees tbl = true]; [C14_refuted_rel8] / [C14_refuted_brk] are witnesses that the
       variant found in the code today / a table that gives BRK size 1 violate it. *)
From Coq Require Import ZArith NArith List Bool String Lia.
From Lib Require Import ZOps Machine.
From Spec Require Import ISA TraceSpec.
From Model Require Import Disasm.
From Props Require Import DisasmCore.
Import ListNotations.
Local Open Scope Z_scope.

(* ================================================================== (a) non-perturbation *)

(* equal in everything execution can depend on; only the recorded bus trace may differ *)
Definition same (s1 s2 : st) : Prop :=
  regs s1 = regs s2 /\ mem s1 = mem s2 /\ onpc s1 = onpc s2 /\ onwdm s1 = onwdm s2.

Lemma same_refl : forall s, same s s.
Proof. intros s. repeat split. Qed.
Lemma same_sym : forall a b, same a b -> same b a.
Proof. intros a b (H1 & H2 & H3 & H4). repeat split; congruence. Qed.
Lemma same_trans : forall a b c, same a b -> same b c -> same a c.
Proof. intros a b c (H1 & H2 & H3 & H4) (K1 & K2 & K3 & K4). repeat split; congruence. Qed.
Lemma same_log : forall e s, same s (log e s).
Proof. intros e s. repeat split. Qed.
Lemma same_get : forall f a b, same a b -> get f a = get f b.
Proof. intros f a b (H1 & _). unfold get. rewrite H1. reflexivity. Qed.

(* what is assumed of the bus read the disassembler calls; both are proved per run for the
   regenerated GenCpu65.nRead / GenCpuAlt.nRead *)
Definition nread_pure (rd : Z -> Z -> st -> res Z) : Prop :=
  forall b a s v s', rd b a s = Ok v s' -> same s s'.
Definition nread_ok (rd : Z -> Z -> st -> res Z) : Prop :=
  forall b a s, 0 <= b < 256 -> 0 <= a < 65536 ->
    exists s', rd b a s = Ok (mem s (b * 65536 + a) mod 256) s' /\ same s s'.

Lemma nread_ok_pure_at : forall rd, nread_ok rd -> forall b a s, 0 <= b < 256 -> 0 <= a < 65536 ->
  forall v s', rd b a s = Ok v s' -> same s s'.
Proof.
  intros rd H b a s Hb Ha v s' E. destruct (H b a s Hb Ha) as (s'' & E' & Hs). rewrite E in E'.
  inversion E'; subst. exact Hs.
Qed.

(* the hand-written flat-memory read both generated nRead functions are equal to (per-run lemma) *)
Definition std_nread (b a : Z) (s : st) : res Z :=
  let ea := w_or (shl32 b 16) a in
  if seg_ok (w_shr ea 4) then (if addr_ok ea then let v := mem s ea mod 256 in Ok v (log (EvR ea v) s) else Panic) else Panic.

Lemma std_nread_pure : nread_pure std_nread.
Proof.
  intros b a s v s'. unfold std_nread. cbv zeta.
  destruct (seg_ok _); [|discriminate]. destruct (addr_ok _); [|discriminate].
  intros E. inversion E; subst. apply same_log.
Qed.

Lemma lor_shl16 : forall b a, 0 <= b < 256 -> 0 <= a < 65536 -> w_or (shl32 b 16) a = b * 65536 + a.
Proof.
  intros b a Hb Ha. unfold w_or, shl32. rewrite Z.shiftl_mul_pow2 by lia.
  change (2 ^ 16) with 65536. rewrite Z.mod_small by lia.
  rewrite <- Z.lxor_lor, <- Z.add_nocarry_lxor; try reflexivity.
  - apply Z.bits_inj'. intros n Hn. rewrite Z.land_spec, Z.bits_0.
    destruct (Z.ltb_spec n 16).
    + replace (b * 65536) with (b * 2 ^ 16) by reflexivity. rewrite Z.mul_pow2_bits_low by lia. reflexivity.
    + replace a with (a mod 2 ^ 16) by (apply Z.mod_small; change (2 ^ 16) with 65536; lia).
      rewrite Z.mod_pow2_bits_high by lia. apply andb_false_r.
  - apply Z.bits_inj'. intros n Hn. rewrite Z.land_spec, Z.bits_0.
    destruct (Z.ltb_spec n 16).
    + replace (b * 65536) with (b * 2 ^ 16) by reflexivity. rewrite Z.mul_pow2_bits_low by lia. reflexivity.
    + replace a with (a mod 2 ^ 16) by (apply Z.mod_small; change (2 ^ 16) with 65536; lia).
      rewrite Z.mod_pow2_bits_high by lia. apply andb_false_r.
Qed.

Lemma std_nread_ok : nread_ok std_nread.
Proof.
  intros b a s Hb Ha. unfold std_nread. cbv zeta. rewrite lor_shl16 by assumption.
  assert (Hr : 0 <= b * 65536 + a < 16777216) by lia.
  assert (H1 : seg_ok (w_shr (b * 65536 + a) 4) = true).
  { unfold seg_ok, w_shr. rewrite Z.shiftr_div_pow2 by lia. change (2 ^ 4) with 16.
    apply andb_true_intro. split; [apply Z.leb_le | apply Z.ltb_lt].
    - apply Z.div_pos; lia.
    - apply Z.div_lt_upper_bound; lia. }
  assert (H2 : addr_ok (b * 65536 + a) = true).
  { unfold addr_ok. apply andb_true_intro. split; [apply Z.leb_le | apply Z.ltb_lt]; lia. }
  rewrite H1, H2. eexists. split; [reflexivity | apply same_log].
Qed.

Section Purity.
  Variable c : dcfg.

  Lemma read_list_same : nread_pure (nread c) ->
    forall bank mypc idx s ws s', read_list c bank mypc idx s = Ok ws s' -> same s s'.
  Proof.
    intros Hp bank mypc idx. induction idx as [|i r IH]; intros s ws s' E; cbn [read_list] in E.
    - inversion E; subst. apply same_refl.
    - unfold bind in E. destruct (nread c bank (add16 mypc i) s) as [w s1|] eqn:E1; [|discriminate].
      destruct (read_list c bank mypc r s1) as [ws1 s2|] eqn:E2; [|discriminate].
      inversion E; subst. eapply same_trans; [eapply Hp; exact E1 | eapply IH; exact E2].
  Qed.

  (* the disassembler leaves registers, memory and callbacks unchanged *)
  Theorem disassemble_to_same : nread_pure (nread c) ->
    forall mypc s l s', disassemble_to c mypc s = Ok l s' -> same s s'.
  Proof.
    intros Hp mypc s l s' E. unfold disassemble_to, bind in E.
    destruct (nread c (get (fRK (fl c)) s) mypc s) as [op s1|] eqn:E1; [|discriminate].
    destruct (row c op) as [[[[[o nm] md] sz] cy] pr].
    destruct (read_list c _ mypc _ s1) as [ws s2|] eqn:E2; [|discriminate].
    inversion E; subst. eapply same_trans; [eapply Hp; exact E1 | eapply read_list_same; eassumption].
  Qed.

  Corollary disassemble_same : nread_pure (nread c) ->
    forall s l s', disassemble c s = Ok l s' -> same s s'.
  Proof. intros Hp s l s'. apply disassemble_to_same. exact Hp. Qed.
End Purity.

(* ------------------------------------------------------------------ RunUntil with and without a logger *)

Definition res_same {A} (r1 r2 : res A) : Prop :=
  match r1, r2 with
  | Ok a s1, Ok b s2 => a = b /\ same s1 s2
  | Panic, Panic => True
  | _, _ => False
  end.

(* final registers (AllCycles is one of them), memory, answer and cycle total agree *)
Definition outcome_same (o1 o2 : outcome) : Prop :=
  match o1, o2 with
  | Done r1 c1 s1 _, Done r2 c2 s2 _ => r1 = r2 /\ c1 = c2 /\ same s1 s2
  | Crash, Crash => True
  | OutOfFuel, OutOfFuel => True
  | _, _ => False
  end.

Section RunUntil.
  Variable f : fields.
  Variable step : st -> res (Z * bool).
  Variable dis : st -> res line.
  (* a state invariant under which the disassembler cannot crash (for the models: PBR and PC are in
     range, so that the reads stay below 2^24) *)
  Variable inv : st -> Prop.

  (* Step does not look at the recorded bus trace.  (For the regenerated Step functions this is a
     property of the Machine primitives they are built from; it is an explicit hypothesis here and is
     to be discharged where this model is connected to the generated Step.) *)
  Hypothesis step_same : forall s1 s2, same s1 s2 -> res_same (step s1) (step s2).
  Hypothesis step_inv : forall s r s', inv s -> step s = Ok r s' -> inv s'.
  Hypothesis inv_same : forall s1 s2, same s1 s2 -> inv s1 -> inv s2.
  (* the logger's line producer: total on [inv] and pure *)
  Hypothesis dis_ok : forall s, inv s -> exists l s', dis s = Ok l s' /\ same s s'.

  Lemma get_pc_same : forall a b, same a b -> get_pc f a = get_pc f b.
  Proof. intros a b H. unfold get_pc. rewrite !(same_get _ a b H). reflexivity. Qed.

  Theorem run_until_logger_irrelevant :
    forall fuel target maxc cycles s1 s2 acc,
      same s1 s2 -> inv s1 ->
      outcome_same (run_until f step (Some dis) fuel target maxc cycles s1 acc)
                   (run_until f step None fuel target maxc cycles s2 []).
  Proof.
    induction fuel as [|fuel IH]; intros target maxc cycles s1 s2 acc Hs Hi; cbn [run_until].
    - exact I.
    - destruct (w_ltb cycles maxc).
      + destruct (dis_ok s1 Hi) as (l & s1' & El & Hl). rewrite El.
        assert (Hs' : same s1' s2) by (eapply same_trans; [apply same_sym; exact Hl | exact Hs]).
        assert (Hi' : inv s1') by (eapply inv_same; eassumption).
        rewrite (get_pc_same s1' s2 Hs').
        destruct (w_eqb (get_pc f s2) target).
        * cbn. auto.
        * pose proof (step_same s1' s2 Hs') as Hst. unfold res_same in Hst.
          destruct (step s1') as [[n1 b1] t1|] eqn:E1; destruct (step s2) as [[n2 b2] t2|] eqn:E2; try contradiction.
          -- destruct Hst as (Hr & Ht). inversion Hr; subst. apply IH; [exact Ht | eapply step_inv; eassumption].
          -- exact I.
      + cbn. rewrite (get_pc_same s1 s2 Hs). auto.
  Qed.

  (* the logged run produces one line per loop iteration and nothing else changes; in particular a
     run that completes, completes with the same answer *)
  Corollary run_until_same_answer :
    forall fuel target maxc s acc r1 c1 t1 ls,
      inv s ->
      run_until f step (Some dis) fuel target maxc 0 s acc = Done r1 c1 t1 ls ->
      exists t2, run_until f step None fuel target maxc 0 s [] = Done r1 c1 t2 [] /\ same t1 t2.
  Proof.
    intros fuel target maxc s acc r1 c1 t1 ls Hi E.
    pose proof (run_until_logger_irrelevant fuel target maxc 0 s s acc (same_refl s) Hi) as H.
    rewrite E in H. destruct (run_until f step None fuel target maxc 0 s []) as [r2 c2 t2 l2| |] eqn:E2; try contradiction.
    destruct H as (Hr & Hc & Ht). subst.
    assert (l2 = []).
    { clear - E2. revert E2. generalize 0 at 1. generalize s. induction fuel as [|fuel IH]; intros s0 cy E2; cbn [run_until] in E2.
      - discriminate.
      - destruct (w_ltb cy maxc).
        + destruct (w_eqb (get_pc f s0) target); [inversion E2; reflexivity|].
          destruct (step s0) as [[n b] s'|]; [|discriminate]. eapply IH; exact E2.
        + inversion E2; reflexivity. }
    subst. eexists; split; [reflexivity | exact Ht].
  Qed.
End RunUntil.

(* ================================================================== (b) truthfulness *)

(* ------------------------------------------------------------------ what [table_agrees] gives for one opcode *)

Lemma filter_negb_nil : forall (A : Type) (p : A -> bool) (l : list A),
  filter (fun r => negb (p r)) l = [] -> forall r, In r l -> p r = true.
Proof.
  intros A p l. induction l as [|a l IH]; intros H r Hin; [contradiction|].
  cbn [filter] in H. destruct (p a) eqn:E; cbn [negb] in H; [|discriminate].
  destruct Hin as [->|Hin]; [exact E | apply IH; assumption].
Qed.

Lemma table_row : forall t, table_agrees t = true -> forall op, 0 <= op < 256 ->
  exists nm cy pr,
    nth (Z.to_nat op) t no_row = (op, nm, go_mode (mnem_of op) (mode_of op), ISA.length (mode_of op) false false, cy, pr) /\
    name_ok (mnem_of op) nm = true.
Proof.
  intros t H op Hop. unfold table_agrees, table_agrees_exec, table_agrees_disasm in H.
  apply andb_prop in H. destruct H as (He & Hd).
  apply andb_prop in He. destruct He as (Hc & He). apply andb_prop in Hd. destruct Hd as (_ & Hd).
  unfold rows_complete in Hc. apply andb_prop in Hc. destruct Hc as (Hlen & Hidx).
  apply Z.eqb_eq in Hlen.
  assert (Hl : List.length t = 256%nat) by lia.
  set (n := Z.to_nat op). assert (Hn : (n < 256)%nat) by (unfold n; lia).
  assert (Hin : In (nth n t no_row) t) by (apply nth_In; lia).
  (* the opcode column *)
  assert (Hop' : let '(o, _, _, _, _, _) := nth n t no_row in o = op).
  { rewrite forallb_forall in Hidx.
    specialize (Hidx (nth n (combine (map Z.of_nat (seq 0 256)) t) (0, no_row))).
    rewrite combine_nth in Hidx by (rewrite map_length, seq_length; lia).
    assert (Hnth : nth n (map Z.of_nat (seq 0 256)) 0 = op).
    { change 0 with (Z.of_nat 0) at 1. rewrite map_nth, seq_nth by lia. unfold n. cbn [Nat.add]. apply Z2Nat.id; lia. }
    rewrite Hnth in Hidx.
    assert (Hmem : In (op, nth n t no_row) (combine (map Z.of_nat (seq 0 256)) t)).
    { rewrite <- Hnth at 1. rewrite <- combine_nth by (rewrite map_length, seq_length; lia).
      apply nth_In. rewrite combine_length, map_length, seq_length. lia. }
    specialize (Hidx Hmem). destruct (nth n t no_row) as [[[[[o nm] gm] gs] cy] pr].
    apply Z.eqb_eq in Hidx. exact Hidx. }
  (* execution part: the mode; disassembler part: name and nominal size *)
  assert (Hex : row_exec_ok (nth n t no_row) = true).
  { apply (filter_negb_nil _ row_exec_ok t); [|exact Hin].
    unfold exec_disagreements in He. destruct (map _ (filter _ t)) eqn:E; [|discriminate].
    apply map_eq_nil in E. exact E. }
  assert (Hdi : row_disasm_ok (nth n t no_row) = true).
  { apply (filter_negb_nil _ row_disasm_ok t); [|exact Hin].
    unfold disasm_disagreements in Hd. destruct (map _ (filter _ t)) eqn:E; [|discriminate].
    apply map_eq_nil in E. exact E. }
  destruct (nth n t no_row) as [[[[[o nm] gm] gs] cy] pr]. subst o.
  unfold row_exec_ok in Hex. unfold row_disasm_ok in Hdi. unfold mnem_of, mode_of.
  destruct (decode op) as [mn md]. cbn [fst snd].
  apply andb_prop in Hex. destruct Hex as (Hm & _). apply andb_prop in Hdi. destruct Hdi as (Hnm & Hsz).
  apply Z.eqb_eq in Hm. apply Z.eqb_eq in Hsz. subst gm gs.
  exists nm, cy, pr. split; [reflexivity | exact Hnm].
Qed.

(* ------------------------------------------------------------------ the theorem *)

(* field values of the kind the interpreters maintain: bank and PC in range, m and x flags 0 or 1,
   the other flag bytes not negative *)
Definition wf (f : fields) (s : st) : Prop :=
  0 <= get (fRK f) s < 256 /\ 0 <= get (fPC f) s < 65536 /\
  (get (fM f) s = 0 \/ get (fM f) s = 1) /\ (get (fX f) s = 0 \/ get (fX f) s = 1) /\
  Forall (fun g => 0 <= get g s) [fN f; fV f; fD f; fI f; fZ f; fC f].

(* the architectural view of a machine state: what the next instruction sees *)
Definition view_of (f : fields) (s : st) : view :=
  mkview (get (fRK f) s) (get (fPC f) s) (get (fM f) s =? 1) (get (fX f) s =? 1)
    (get (fRA f) s) (get (fRAl f) s) (get (fRX f) s) (get (fRXl f) s) (get (fRY f) s) (get (fRYl f) s)
    (map (fun g => negb (get g s =? 0)) [fN f; fV f; fM f; fX f; fD f; fI f; fZ f; fC f])
    (mem s).

Lemma read_list_ok : forall c, nread_ok (nread c) -> forall bank mypc, 0 <= bank < 256 ->
  forall idx s, exists s',
    read_list c bank mypc idx s = Ok (map (fun i => mem s (bank * 65536 + (mypc + i) mod 65536) mod 256) idx) s' /\ same s s'.
Proof.
  intros c Hn bank mypc Hb idx. induction idx as [|i r IH]; intros s; cbn [read_list map].
  - eexists. split; [reflexivity | apply same_refl].
  - destruct (Hn bank (add16 mypc i) s Hb) as (s1 & E1 & S1).
    { unfold add16. apply Z.mod_pos_bound. lia. }
    rewrite E1. unfold bind at 1. destruct (IH s1) as (s2 & E2 & S2). rewrite E2. unfold bind.
    eexists. split; [|eapply same_trans; eassumption].
    destruct S1 as (_ & Hm & _). rewrite <- Hm. reflexivity.
Qed.

Theorem disassemble_truthful : forall c,
  nread_ok (nread c) -> table_agrees (tbl c) = true -> rel8_fixed c = true ->
  forall s, wf (fl c) s ->
  exists l s', disassemble c s = Ok l s' /\ same s s' /\ truthful (view_of (fl c) s) l.
Proof.
  intros c Hn Ht Hfix s (HK & HP & HM & HX & HF).
  unfold disassemble, disassemble_to.
  set (f := fl c) in *. set (K := get (fRK f) s) in *. set (P := get (fPC f) s) in *.
  destruct (Hn K P s HK HP) as (s1 & E1 & S1). rewrite E1. unfold bind at 1.
  set (v := view_of f s).
  assert (Hg : forall i, 0 <= fetch v i < 256) by (intros i; unfold fetch; apply Z.mod_pos_bound; lia).
  assert (Hg0 : fetch v 0 = mem s (K * 65536 + P) mod 256).
  { unfold fetch, v, view_of. cbn [v_mem v_pbr v_pc]. fold K P. rewrite Z.add_0_r, (Z.mod_small P 65536) by lia. reflexivity. }
  rewrite <- Hg0. set (op := fetch v 0) in *.
  destruct (table_row (tbl c) Ht op (Hg 0)) as (nm & cy & pr & Hrow & Hname).
  unfold row. rewrite Hrow.
  rewrite <- !(same_get _ s s1 S1). fold K.
  set (m := get (fM f) s) in *. set (x := get (fX f) s) in *.
  destruct (core_all P (fetch v) HP Hg op (Hg 0) m x HM HX eq_refl) as (Hlen & Hcnt & Hfmt).
  rewrite Hcnt.
  destruct (read_list_ok c Hn K P HK (zrange (nbytes (ISA.length (mode_of op) false false) (go_mode (mnem_of op) (mode_of op)) m x)) s1)
    as (s2 & E2 & S2).
  rewrite E2. unfold bind.
  assert (S12 : same s s2) by (eapply same_trans; eassumption).
  eexists. eexists. split; [reflexivity|]. split; [exact S12|].
  (* the line *)
  assert (Hws : map (fun i => mem s1 (K * 65536 + (P + i) mod 65536) mod 256)
                    (zrange (nbytes (ISA.length (mode_of op) false false) (go_mode (mnem_of op) (mode_of op)) m x)) =
                map (fetch v) (zrange (nbytes (ISA.length (mode_of op) false false) (go_mode (mnem_of op) (mode_of op)) m x))).
  { apply map_ext. intros i. unfold fetch, v, view_of. cbn [v_mem v_pbr v_pc]. fold K P.
    destruct S1 as (_ & Hm & _). rewrite Hm. reflexivity. }
  rewrite Hws. unfold assemble. fold f. rewrite Hfix.
  rewrite <- !(same_get _ s s2 S12). fold K P m x.
  cbv zeta in Hfmt. rewrite Hfmt. unfold core_spec. cbv zeta.
  unfold truthful. cbv zeta. fold op.
  replace (v_m8 v) with (m =? 1) by reflexivity. replace (v_x8 v) with (x =? 1) by reflexivity.
  replace (v_pc v) with P by reflexivity. replace (v_pbr v) with K by reflexivity.
  cbn [l_pbr l_pc l_bytes l_name l_syn l_groups l_dest l_back l_a l_x l_y l_flags].
  rewrite Hlen.
  repeat split; try reflexivity; try assumption.
  - destruct HM as [->| ->]; reflexivity.
  - destruct HX as [->| ->]; reflexivity.
  - destruct HX as [->| ->]; reflexivity.
  - unfold v, view_of. cbn [v_flags]. fold m x.
    pose proof (Forall_inv HF) as HN. pose proof (Forall_inv_tail HF) as HF1.
    pose proof (Forall_inv HF1) as HV. pose proof (Forall_inv_tail HF1) as HF2.
    pose proof (Forall_inv HF2) as HD. pose proof (Forall_inv_tail HF2) as HF3.
    pose proof (Forall_inv HF3) as HI. pose proof (Forall_inv_tail HF3) as HF4.
    pose proof (Forall_inv HF4) as HZ. pose proof (Forall_inv_tail HF4) as HF5.
    pose proof (Forall_inv HF5) as HC. cbv beta in HN, HV, HD, HI, HZ, HC.
    assert (Hfl : forall z, 0 <= z -> flag_shown z = negb (z =? 0)).
    { intros z Hz. unfold flag_shown, w_ltb. destruct (Z.eqb_spec z 0) as [->|Hne]; [reflexivity|].
      cbn [negb]. apply Z.ltb_lt. lia. }
    cbn [map]. rewrite <- !(same_get _ s s2 S12). fold m x.
    rewrite !Hfl; try assumption; try reflexivity.
    + destruct HX as [E|E]; lia.
    + destruct HM as [E|E]; lia.
Qed.

(* ------------------------------------------------------------------ totality; the two parts together *)

Definition pc_ok (f : fields) (s : st) : Prop :=
  0 <= get (fRK f) s < 256 /\ 0 <= get (fPC f) s < 65536.

Lemma wf_pc_ok : forall f s, wf f s -> pc_ok f s.
Proof. intros f s (HK & HP & _). split; assumption. Qed.

Lemma pc_ok_same : forall f a b, same a b -> pc_ok f a -> pc_ok f b.
Proof. intros f a b H (H1 & H2). unfold pc_ok. rewrite <- !(same_get _ a b H). split; assumption. Qed.

(* with bank and PC in range the disassembler does not crash (every read is below 2^24) *)
Theorem disassemble_total : forall c, nread_ok (nread c) -> forall s, pc_ok (fl c) s ->
  exists l s', disassemble c s = Ok l s' /\ same s s'.
Proof.
  intros c Hn s (HK & HP). unfold disassemble, disassemble_to.
  destruct (Hn _ _ s HK HP) as (s1 & E1 & S1). rewrite E1. unfold bind at 1.
  destruct (row c _) as [[[[[o nm] md] sz] cy] pr].
  rewrite <- !(same_get _ s s1 S1).
  destruct (read_list_ok c Hn _ (get (fPC (fl c)) s) HK (zrange (read_count (nbytes sz md (get (fM (fl c)) s) (get (fX (fl c)) s)))) s1)
    as (s2 & E2 & S2).
  rewrite E2. unfold bind. eexists. eexists. split; [reflexivity | eapply same_trans; eassumption].
Qed.

(* C14, first half: a logger whose lines come from the disassembler model changes neither the final
   registers (AllCycles included) nor memory nor the answer nor the cycle total of RunUntil, for every
   step function that does not look at the recorded bus trace and keeps bank and PC in range *)
Theorem C14_no_perturbation : forall c (step : st -> res (Z * bool)) (inv : st -> Prop),
  nread_ok (nread c) ->
  (forall s1 s2, same s1 s2 -> res_same (step s1) (step s2)) ->
  (forall s r s', inv s -> step s = Ok r s' -> inv s') ->
  (forall s1 s2, same s1 s2 -> inv s1 -> inv s2) ->
  (forall s, inv s -> pc_ok (fl c) s) ->
  forall fuel target maxc s, inv s ->
    outcome_same (run_until (fl c) step (Some (disassemble c)) fuel target maxc 0 s [])
                 (run_until (fl c) step None fuel target maxc 0 s []).
Proof.
  intros c step inv Hn H1 H2 H3 H4 fuel target maxc s Hi.
  apply (run_until_logger_irrelevant (fl c) step (disassemble c) inv H1 H2 H3); [|apply same_refl|exact Hi].
  intros s0 Hs0. apply disassemble_total; [exact Hn | apply H4; exact Hs0].
Qed.

(* ================================================================== non-vacuity and refutations *)

(* a Go-style table derived from the matrix itself: what both packages' tables should say *)
Definition isa_row (op : Z) : go_row :=
  (op, lower (mnem_name (mnem_of op)), go_mode (mnem_of op) (mode_of op), ISA.length (mode_of op) false false, 0, EmptyString).
Definition isa_table : list go_row := map isa_row (zrange 256).

Example isa_table_agrees : table_agrees isa_table = true.
Proof. vm_compute. reflexivity. Qed.

(* the same table with BRK declared one byte long, as both Go tables do today *)
Definition brk1_table : list go_row :=
  (0, "brk"%string, 8, 1, 0, EmptyString) :: tl isa_table.

Example brk1_table_disagrees : table_agrees_disasm brk1_table = false /\ disasm_disagreements brk1_table = [0] /\
  table_agrees_exec brk1_table = true.
Proof. vm_compute. repeat split; reflexivity. Qed.

Definition ex_fields : fields := mkfields 1 2 3 4 5 6 7 8 9 10 11 12 13 14 15 16.

(* field number -> value lists written with Z keys *)
Definition rl (l : list (Z * Z)) : list (N * Z) := map (fun p => (Z.to_N (fst p), snd p)) l.

Definition ex_cfg (t : list go_row) (fixed : bool) : dcfg := mkcfg ex_fields std_nread t fixed.

(* PBR:PC = 00:8000, 16-bit widths, A = $1234, X = $0056, Y = $789A, flags N and C set, and the
   given bytes at 00:8000.. *)
Definition ex_state (code : list Z) : st :=
  mkst (fun f => nassoc f (rl [(1, 0); (2, 32768); (3, 0); (4, 0); (5, 4660); (6, 52); (7, 86); (8, 86); (9, 30874); (10, 154);
                                (11, 1); (16, 1)]))
       (fun a => nth (Z.to_nat (a - 32768)) code 0) [] (fun _ => false) false.

Example ex_state_wf : forall code, wf ex_fields (ex_state code).
Proof.
  intros code. unfold wf, ex_fields, ex_state, get. cbn.
  repeat split; try lia; auto.
  repeat (apply Forall_cons; [cbn; lia|]). apply Forall_nil.
Qed.

(* the line of a result, dropping the state (whose closures need not be normalised by the examples) *)
Definition line_of (r : res line) : option line := match r with Ok l _ => Some l | Panic => None end.
Lemma line_of_some : forall r l, line_of r = Some l -> exists s', r = Ok l s'.
Proof. intros [l0 s0|] l H; inversion H; subst. eexists; reflexivity. Qed.

(* BNE $FC at $8000 (branch back to $7FFE) *)
Definition bne_fc : st := ex_state [208; 252].

(* the repaired rendering shows $7FFE with the backward sign ... *)
Example bne_fc_repaired :
  line_of (disassemble (ex_cfg isa_table true) bne_fc) =
  Some (mkline 0 32768 [208; 252] "bne" SyRel8 [[252]] (Some 32766) true (true, 4660) (true, 86) (true, 30874)
               [true; false; false; false; false; false; false; true]).
Proof. vm_compute. reflexivity. Qed.

(* ... as the theorem says it must *)
Example bne_fc_truthful :
  exists l s', disassemble (ex_cfg isa_table true) bne_fc = Ok l s' /\ truthful (view_of ex_fields bne_fc) l.
Proof.
  destruct (disassemble_truthful (ex_cfg isa_table true) std_nread_ok isa_table_agrees eq_refl bne_fc (ex_state_wf _))
    as (l & s' & E & _ & T).
  exists l, s'. split; assumption.
Qed.

(* C14 refuted for the rendering found in the code today (sign test on the byte after the offset):
   the line for BNE $FC at $8000 says the branch leads to $80FE, forward; the instruction leads to $7FFE *)
Theorem C14_refuted_rel8 :
  exists s l, wf ex_fields s /\
    line_of (disassemble (ex_cfg isa_table false) s) = Some l /\
    l_dest l = Some 33022 /\ l_back l = false /\
    spec_dest (mode_of (fetch (view_of ex_fields s) 0)) (v_pc (view_of ex_fields s)) [fetch (view_of ex_fields s) 1] = Some 32766 /\
    ~ truthful (view_of ex_fields s) l.
Proof.
  exists bne_fc. eexists. split; [apply ex_state_wf|].
  split; [vm_compute; reflexivity|].
  split; [reflexivity|]. split; [reflexivity|]. split; [vm_compute; reflexivity|].
  intros (_ & _ & _ & _ & _ & _ & Hd & _). vm_compute in Hd. discriminate Hd.
Qed.

(* C14 refuted for a table that declares BRK with size 1: the line shows one byte of a two-byte instruction *)
Theorem C14_refuted_brk :
  exists s l, wf ex_fields s /\
    line_of (disassemble (ex_cfg brk1_table true) s) = Some l /\
    l_bytes l = [0] /\ op_length (fetch (view_of ex_fields s) 0) false false = 2 /\
    ~ truthful (view_of ex_fields s) l.
Proof.
  exists (ex_state [0; 171]). eexists. split; [apply ex_state_wf|].
  split; [vm_compute; reflexivity|].
  split; [reflexivity|]. split; [vm_compute; reflexivity|].
  intros (_ & _ & Hb & _). vm_compute in Hb. discriminate Hb.
Qed.

(* with the repaired table the same state gives both bytes *)
Example brk_repaired :
  option_map (fun l => (l_bytes l, l_groups l)) (line_of (disassemble (ex_cfg isa_table true) (ex_state [0; 171]))) =
  Some ([0; 171], []).
Proof. vm_compute. reflexivity. Qed.

(* operand bytes wrap inside the bank: LDA $1234,X assembled at 00:FFFF shows the bytes at 00:0000.. *)
Example bank_wrap :
  let s := mkst (fun f => nassoc f (rl [(1, 0); (2, 65535); (3, 1); (4, 1)]))
                (fun a => zassoc a [(65535, 189); (0, 52); (1, 18); (65536, 255); (65537, 255)]) [] (fun _ => false) false in
  option_map (fun l => (l_bytes l, l_syn l, l_groups l)) (line_of (disassemble (ex_cfg isa_table true) s)) =
  Some ([189; 52; 18], SyAbsX, [[18; 52]]).
Proof. vm_compute. reflexivity. Qed.

(* a step function satisfying the hypotheses of the run theorem: a two-instruction machine
   (opcode $E8 = INX, anything else = a 2-byte store of A to the direct page), 3 cycles each *)
Definition toy_step (s : st) : res (Z * bool) :=
  let pc := get 2%N s in
  let op := mem s pc mod 256 in
  if op =? 232 then Ok (3, false) (set 2%N (add16 pc 1) (set 7%N (add16 (get 7%N s) 1) s))
  else Ok (3, false) (set 2%N (add16 pc 2) (upd (mem s (pc + 1) mod 256) (get 5%N s mod 256) s)).

Definition toy_inv (s : st) : Prop := get 1%N s = 0 /\ 0 <= get 2%N s < 65536.

Lemma toy_step_same : forall s1 s2, same s1 s2 -> res_same (toy_step s1) (toy_step s2).
Proof.
  intros s1 s2 H. pose proof H as (Hr & Hm & Ho & Hw). unfold toy_step. rewrite !(same_get _ s1 s2 H). rewrite Hm.
  destruct (_ =? 232); cbn; (split; [reflexivity|]); unfold same, set, upd; cbn; rewrite Hr, Hm, Ho, Hw; repeat split.
Qed.

Example toy_run_unperturbed : forall fuel target maxc s, toy_inv s ->
  outcome_same (run_until ex_fields toy_step (Some (disassemble (ex_cfg isa_table true))) fuel target maxc 0 s [])
               (run_until ex_fields toy_step None fuel target maxc 0 s []).
Proof.
  intros fuel target maxc s Hi.
  apply (C14_no_perturbation (ex_cfg isa_table true) toy_step toy_inv std_nread_ok toy_step_same); try exact Hi.
  - intros s0 r s' (HK & HP) E. unfold toy_step in E. unfold toy_inv.
    destruct (_ =? 232); inversion E; subst; unfold get, set, upd; cbn; (split; [exact HK|]);
      unfold add16; apply Z.mod_pos_bound; lia.
  - intros s1 s2 H (HK & HP). unfold toy_inv. rewrite <- !(same_get _ s1 s2 H). split; assumption.
  - intros s0 (HK & HP). unfold pc_ok, ex_cfg, ex_fields. cbn [fl fRK fPC]. rewrite HK. split; [lia | exact HP].
Qed.

(* and a concrete logged run of it: INX; INX; STA $10 from 00:8000 to the target 00:8004, 3 lines *)
Example toy_run_lines :
  match run_until ex_fields toy_step (Some (disassemble (ex_cfg isa_table true))) 10 32772 100 0 (ex_state [232; 232; 133; 16]) [] with
  | Done true 9 s ls => map l_pc ls = [32768; 32769; 32770; 32772] /\ get 7%N s = 88 /\ mem s 16 = 52
  | _ => False
  end.
Proof. vm_compute. repeat split; reflexivity. Qed.
