(* Hoare-style reasoning over the regenerated interpreter models (Gen/GenCpu65.v, Gen/GenCpuAlt.v):
   [safe Q r] = the computation did not panic and its result satisfies Q; [Inv B s] = every register field of
   s satisfies the per-field predicate B (by default: the value is in the range of the field's Go type).
   The per-run files build/work/Run/C08_*.v state one lemma per translated routine and prove it with the
   tactic [safe_tac] below (symbolic execution that forgets everything about a state except [Inv]). *)
From Coq Require Import ZArith List Bool Lia NArith.
From Lib Require Import ZOps Machine.
Import ListNotations.
Local Open Scope Z_scope.

Definition rng (w v : Z) : Prop := 0 <= v < 2 ^ w.

Definition safe {A} (Q : A -> st -> Prop) (r : res A) : Prop :=
  match r with Ok a s => Q a s | Panic => False end.

Lemma safe_bind {A B} (P : A -> st -> Prop) (Q : B -> st -> Prop) (m : res A) (k : A -> st -> res B) :
  safe P m -> (forall a s, P a s -> safe Q (k a s)) -> safe Q (bind m k).
Proof. destruct m as [a s|]; simpl; auto. Qed.

Lemma safe_weaken {A} (P Q : A -> st -> Prop) (r : res A) :
  safe P r -> (forall a s, P a s -> Q a s) -> safe Q r.
Proof. destruct r; simpl; auto. Qed.

(* ---- invariants: one predicate per field, and every bus access recorded so far is inside the 24-bit space ---- *)
Definition ev_ok (e : ev) : Prop :=
  match e with
  | EvR a _ | EvW a _ => 0 <= a < 16777216
  | _ => True
  end.
Definition Inv (B : N -> Z -> Prop) (s : st) : Prop := (forall f, B f (get f s)) /\ Forall ev_ok (trace s).

(* default predicate: the value lies in the range of the field's Go type (width 0 = no such field) *)
Definition Bty (fw : N -> Z) (f : N) (v : Z) : Prop := if fw f =? 0 then True else rng (fw f) v.
(* additional constraint P on field g *)
Definition ovr (g : N) (P : Z -> Prop) (B : N -> Z -> Prop) (f : N) (v : Z) : Prop :=
  B f v /\ (if N.eqb f g then P v else True).

Lemma inv_set (B : N -> Z -> Prop) f v s : Inv B s -> B f v -> Inv B (set f v s).
Proof.
  intros [H Ht] Hv. split; [|exact Ht]. intro g. unfold get, set; simpl. destruct (N.eqb g f) eqn:E.
  - apply N.eqb_eq in E. subst g. exact Hv.
  - apply H.
Qed.

(* replacing the constraint on field g when g itself is assigned *)
Lemma inv_reset_ovr (B : N -> Z -> Prop) g (P P' : Z -> Prop) v s : Inv (ovr g P B) s -> B g v -> P' v -> Inv (ovr g P' B) (set g v s).
Proof.
  intros [H Ht] Hv HP. split; [|exact Ht]. intro f. unfold ovr, get, set; simpl. destruct (N.eqb f g) eqn:E.
  - apply N.eqb_eq in E. subst f. split; assumption.
  - split; [apply (H f) | exact I].
Qed.

Lemma inv_ovr_base (B : N -> Z -> Prop) g (P : Z -> Prop) s : Inv (ovr g P B) s -> Inv B s.
Proof. intros [H Ht]. split; [|exact Ht]. intro f. apply (H f). Qed.

Lemma inv_ovr_true (B : N -> Z -> Prop) g s : Inv B s -> Inv (ovr g (fun _ => True) B) s.
Proof. intros [H Ht]. split; [|exact Ht]. intro f. split; [apply H|]. destruct (N.eqb f g); exact I. Qed.

Lemma inv_ovr_get (B : N -> Z -> Prop) g (P : Z -> Prop) s : Inv (ovr g P B) s -> P (get g s).
Proof. intros [H _]. destruct (H g) as [_ H2]. rewrite N.eqb_refl in H2. exact H2. Qed.

Lemma inv_ovr_weaken (B : N -> Z -> Prop) g (P P' : Z -> Prop) s : (forall v, P v -> P' v) -> Inv (ovr g P B) s -> Inv (ovr g P' B) s.
Proof.
  intros HPP [H Ht]. split; [|exact Ht]. intro f. destruct (H f) as [H1 H2]. split; [exact H1|].
  destruct (N.eqb f g); [apply HPP; exact H2 | exact I].
Qed.

Lemma inv_ovr_intro (B : N -> Z -> Prop) g (P : Z -> Prop) s : Inv B s -> P (get g s) -> Inv (ovr g P B) s.
Proof.
  intros [H Ht] HP. split; [|exact Ht]. intro f. split; [apply H|]. destruct (N.eqb f g) eqn:E; [|exact I].
  apply N.eqb_eq in E. subst f. exact HP.
Qed.

(* changing the predicate map below an outer constraint *)
Lemma inv_ovr_map (B B' : N -> Z -> Prop) g (P : Z -> Prop) s : (Inv B s -> Inv B' s) -> Inv (ovr g P B) s -> Inv (ovr g P B') s.
Proof. intros HB H. apply inv_ovr_intro; [apply HB; eapply inv_ovr_base; exact H | eapply inv_ovr_get; exact H]. Qed.

(* intervals of the byte-sized cycle counter: no wrap-around when the bounds stay inside [0, 255] *)
Definition cyc (lo hi : Z) (c : Z) : Prop := lo <= c <= hi.
Lemma cyc_add8 lo hi c e el eh : cyc lo hi c -> el <= e <= eh -> 0 <= lo + el -> hi + eh <= 255 -> cyc (lo + el) (hi + eh) (add8 c e).
Proof. unfold cyc, add8. intros. rewrite Z.mod_small by lia. lia. Qed.
Lemma cyc_sub8 lo hi c e el eh : cyc lo hi c -> el <= e <= eh -> 0 <= lo - eh -> hi - el <= 255 -> cyc (lo - eh) (hi - el) (sub8 c e).
Proof. unfold cyc, sub8. intros. rewrite Z.mod_small by lia. lia. Qed.
Lemma cyc_weaken lo hi lo' hi' c : cyc lo hi c -> lo' <= lo -> hi <= hi' -> cyc lo' hi' c.
Proof. unfold cyc. lia. Qed.

Lemma get_set_same f v s : get f (set f v s) = v.
Proof. unfold get, set; simpl. rewrite N.eqb_refl. reflexivity. Qed.
Lemma get_set_other f g v s : N.eqb f g = false -> get f (set g v s) = get f s.
Proof. intro E. unfold get, set; simpl. rewrite E. reflexivity. Qed.

Lemma inv_log (B : N -> Z -> Prop) e s : ev_ok e -> Inv B s -> Inv B (log e s).
Proof. intros He [H Ht]. split; [intro f; apply H | simpl; constructor; assumption]. Qed.
Lemma inv_upd (B : N -> Z -> Prop) a v s : Inv B s -> Inv B (upd a v s).
Proof. intros [H Ht]. split; [intro f; apply H | exact Ht]. Qed.

Lemma inv_bty_get fw f s w : Inv (Bty fw) s -> fw f = w -> w <> 0 -> rng w (get f s).
Proof. intros [H _] E Hw. specialize (H f). unfold Bty in H. rewrite E in H. destruct (w =? 0) eqn:E0; [apply Z.eqb_eq in E0; contradiction | exact H]. Qed.

(* ---- ranges of the width-indexed operators ---- *)
Lemma pow2_pos w : 0 <= w -> 0 < 2 ^ w.
Proof. intros. apply Z.pow_pos_nonneg; lia. Qed.

Lemma rng_weaken w W v : rng w v -> w <= W -> rng W v.
Proof.
  unfold rng. intros [H0 H1] Hw. split; [exact H0|].
  destruct (Z_lt_le_dec w 0) as [Hn|Hn].
  - rewrite Z.pow_neg_r in H1 by exact Hn. lia.
  - eapply Z.lt_le_trans; [exact H1|]. apply Z.pow_le_mono_r; lia.
Qed.

Lemma rng_mod n W e : 0 <= n -> n <= W -> rng W (e mod 2 ^ n).
Proof.
  intros Hn HW. apply (rng_weaken n); [|exact HW]. unfold rng. apply Z.mod_pos_bound. apply pow2_pos; exact Hn.
Qed.

Lemma rng_conv8 W x : 8 <= W -> rng W (conv8 x).   Proof. intro. apply (rng_mod 8); lia. Qed.
Lemma rng_conv16 W x : 16 <= W -> rng W (conv16 x). Proof. intro. apply (rng_mod 16); lia. Qed.
Lemma rng_conv32 W x : 32 <= W -> rng W (conv32 x). Proof. intro. apply (rng_mod 32); lia. Qed.
Lemma rng_conv64 W x : 64 <= W -> rng W (conv64 x). Proof. intro. apply (rng_mod 64); lia. Qed.
Lemma rng_add8 W x y : 8 <= W -> rng W (add8 x y).   Proof. intro. apply (rng_mod 8); lia. Qed.
Lemma rng_add16 W x y : 16 <= W -> rng W (add16 x y). Proof. intro. apply (rng_mod 16); lia. Qed.
Lemma rng_add32 W x y : 32 <= W -> rng W (add32 x y). Proof. intro. apply (rng_mod 32); lia. Qed.
Lemma rng_add64 W x y : 64 <= W -> rng W (add64 x y). Proof. intro. apply (rng_mod 64); lia. Qed.
Lemma rng_sub8 W x y : 8 <= W -> rng W (sub8 x y).   Proof. intro. apply (rng_mod 8); lia. Qed.
Lemma rng_sub16 W x y : 16 <= W -> rng W (sub16 x y). Proof. intro. apply (rng_mod 16); lia. Qed.
Lemma rng_sub32 W x y : 32 <= W -> rng W (sub32 x y). Proof. intro. apply (rng_mod 32); lia. Qed.
Lemma rng_sub64 W x y : 64 <= W -> rng W (sub64 x y). Proof. intro. apply (rng_mod 64); lia. Qed.
Lemma rng_mul8 W x y : 8 <= W -> rng W (mul8 x y).   Proof. intro. apply (rng_mod 8); lia. Qed.
Lemma rng_mul16 W x y : 16 <= W -> rng W (mul16 x y). Proof. intro. apply (rng_mod 16); lia. Qed.
Lemma rng_mul32 W x y : 32 <= W -> rng W (mul32 x y). Proof. intro. apply (rng_mod 32); lia. Qed.
Lemma rng_shl8 W x k : 8 <= W -> rng W (shl8 x k).   Proof. intro. apply (rng_mod 8); lia. Qed.
Lemma rng_shl16 W x k : 16 <= W -> rng W (shl16 x k). Proof. intro. apply (rng_mod 16); lia. Qed.
Lemma rng_shl32 W x k : 32 <= W -> rng W (shl32 x k). Proof. intro. apply (rng_mod 32); lia. Qed.
Lemma rng_shl64 W x k : 64 <= W -> rng W (shl64 x k). Proof. intro. apply (rng_mod 64); lia. Qed.
Lemma rng_neg8 W x : 8 <= W -> rng W (neg8 x).   Proof. intro. apply (rng_mod 8); lia. Qed.
Lemma rng_neg16 W x : 16 <= W -> rng W (neg16 x). Proof. intro. apply (rng_mod 16); lia. Qed.
Lemma rng_neg32 W x : 32 <= W -> rng W (neg32 x). Proof. intro. apply (rng_mod 32); lia. Qed.

(* a left shift that stays below the wrap: (x << k) with x < 2^(W-k) *)
Lemma rng_shl_small n W x k : 0 <= k -> k <= W -> W <= n -> rng (W - k) x -> rng W ((Z.shiftl x k) mod 2 ^ n).
Proof.
  intros Hk HkW HWn [H0 H1]. rewrite Z.shiftl_mul_pow2 by exact Hk.
  assert (Hp : 0 < 2 ^ k) by (apply pow2_pos; exact Hk).
  assert (Hx : x * 2 ^ k < 2 ^ W).
  { replace W with ((W - k) + k) by lia. rewrite Z.pow_add_r by lia. apply Z.mul_lt_mono_pos_r; assumption. }
  assert (HW : 2 ^ W <= 2 ^ n) by (apply Z.pow_le_mono_r; lia).
  rewrite Z.mod_small by nia. unfold rng. nia.
Qed.
Lemma rng_shl16_small W x k : 0 <= k -> k <= W -> W <= 16 -> rng (W - k) x -> rng W (shl16 x k).
Proof. intros. apply (rng_shl_small 16); assumption. Qed.
Lemma rng_shl32_small W x k : 0 <= k -> k <= W -> W <= 32 -> rng (W - k) x -> rng W (shl32 x k).
Proof. intros. apply (rng_shl_small 32); assumption. Qed.
Lemma rng_shl64_small W x k : 0 <= k -> k <= W -> W <= 64 -> rng (W - k) x -> rng W (shl64 x k).
Proof. intros. apply (rng_shl_small 64); assumption. Qed.

Lemma land_ones_id W m : 0 <= W -> rng W m -> Z.land m (Z.ones W) = m.
Proof. intros HW [H0 H1]. rewrite Z.land_ones by exact HW. apply Z.mod_small. lia. Qed.

Lemma rng_of_land_ones W v : 0 <= W -> Z.land v (Z.ones W) = v -> rng W v.
Proof. intros HW E. rewrite <- E. rewrite Z.land_ones by exact HW. apply Z.mod_pos_bound. apply pow2_pos; exact HW. Qed.

Lemma rng_nonneg_w W v : rng W v -> 0 <= W.
Proof.
  intros [H0 H1]. destruct (Z_lt_le_dec W 0) as [Hn|Hn]; [|exact Hn]. rewrite Z.pow_neg_r in H1 by exact Hn. lia.
Qed.

Lemma rng_and_r W x m : rng W m -> rng W (w_and x m).
Proof.
  intros Hm. pose proof (rng_nonneg_w _ _ Hm) as HW. apply rng_of_land_ones; [exact HW|]. unfold w_and.
  rewrite <- Z.land_assoc. rewrite (land_ones_id W m HW Hm). reflexivity.
Qed.
Lemma rng_and_l W x m : rng W m -> rng W (w_and m x).
Proof. intros Hm. unfold w_and. rewrite Z.land_comm. apply rng_and_r. exact Hm. Qed.

Lemma rng_or W a b : rng W a -> rng W b -> rng W (w_or a b).
Proof.
  intros Ha Hb. pose proof (rng_nonneg_w _ _ Ha) as HW. apply rng_of_land_ones; [exact HW|]. unfold w_or.
  rewrite Z.land_lor_distr_l. rewrite (land_ones_id W a HW Ha), (land_ones_id W b HW Hb). reflexivity.
Qed.

Lemma rng_xor W a b : rng W a -> rng W b -> rng W (w_xor a b).
Proof.
  intros Ha Hb. pose proof (rng_nonneg_w _ _ Ha) as HW. apply rng_of_land_ones; [exact HW|]. unfold w_xor.
  apply Z.bits_inj'. intros n Hn. rewrite Z.land_spec, Z.lxor_spec.
  destruct (Z_lt_le_dec n W) as [Hlt|Hge].
  - rewrite Z.ones_spec_low by lia. apply andb_true_r.
  - rewrite Z.ones_spec_high by lia. rewrite andb_false_r.
    assert (Ea : Z.testbit a n = false).
    { rewrite <- (Z.mod_small a (2 ^ W)) by (unfold rng in Ha; lia). apply Z.mod_pow2_bits_high. lia. }
    assert (Eb : Z.testbit b n = false).
    { rewrite <- (Z.mod_small b (2 ^ W)) by (unfold rng in Hb; lia). apply Z.mod_pow2_bits_high. lia. }
    rewrite Ea, Eb. reflexivity.
Qed.

Lemma rng_shr W a k : 0 <= k -> 0 <= W -> rng (W + k) a -> rng W (w_shr a k).
Proof.
  intros Hk HW [H0 H1]. unfold w_shr. rewrite Z.shiftr_div_pow2 by exact Hk. unfold rng.
  assert (Hp : 0 < 2 ^ k) by (apply pow2_pos; exact Hk).
  rewrite Z.pow_add_r in H1 by lia. split.
  - apply Z.div_pos; lia.
  - apply Z.div_lt_upper_bound; lia.
Qed.

Lemma rng_not8 W x : 8 <= W -> rng 8 x -> rng W (not8 x).
Proof. intros HW Hx. apply (rng_weaken 8); [|exact HW]. unfold not8. apply (rng_xor 8 x 255 Hx). unfold rng; lia. Qed.
Lemma rng_not16 W x : 16 <= W -> rng 16 x -> rng W (not16 x).
Proof. intros HW Hx. apply (rng_weaken 16); [|exact HW]. unfold not16. apply (rng_xor 16 x 65535 Hx). unfold rng; lia. Qed.
Lemma rng_not32 W x : 32 <= W -> rng 32 x -> rng W (not32 x).
Proof. intros HW Hx. apply (rng_weaken 32); [|exact HW]. unfold not32. apply (rng_xor 32 x 4294967295 Hx). unfold rng; lia. Qed.

Lemma rng_b2z W b : 1 <= W -> rng W (b2z b).
Proof. intro HW. apply (rng_weaken 1); [|exact HW]. unfold rng. destruct b; simpl; lia. Qed.

Lemma rng_div W a b : rng W a -> 0 <= b -> rng W (w_div a b).
Proof.
  intros [H0 H1] Hb. unfold w_div, rng. destruct (Z.eq_dec b 0) as [E|E].
  - subst b. rewrite Zdiv_0_r. lia.
  - split; [apply Z.div_pos; lia|]. eapply Z.le_lt_trans; [|exact H1]. apply Z.div_le_upper_bound; nia.
Qed.
Lemma rng_modop W a b : rng W a -> 0 <= b -> rng W (w_mod a b).
Proof.
  intros [H0 H1] Hb. unfold w_mod, rng. destruct (Z.eq_dec b 0) as [E|E].
  - subst b. rewrite Zmod_0_r. lia.
  - pose proof (Z.mod_pos_bound a b ltac:(lia)). pose proof (Z.mod_le a b H0 ltac:(lia)). lia.
Qed.

(* x % 2^k as a mask: the result is below the modulus whatever x is *)
Lemma rng_mod_small W a b : (0 <? b) = true -> (b <=? 2 ^ W) = true -> rng W (w_mod a b).
Proof.
  intros Hb Hw. apply Z.ltb_lt in Hb. apply Z.leb_le in Hw. unfold w_mod, rng.
  pose proof (Z.mod_pos_bound a b Hb). lia.
Qed.

(* tables *)
Definition in_rngb (w v : Z) : bool := (0 <=? v) && (v <? 2 ^ w).
Lemma in_rngb_ok w v : in_rngb w v = true -> rng w v.
Proof. unfold in_rngb, rng. intro H. apply andb_true_iff in H. destruct H as [H1 H2]. apply Z.leb_le in H1. apply Z.ltb_lt in H2. lia. Qed.

Lemma rng_nth W i l : forallb (in_rngb W) l = true -> 0 <= W -> rng W (w_nth i l).
Proof.
  intros H HW. unfold w_nth. destruct (nth_in_or_default (Z.to_nat i) l 0) as [Hin|Hd].
  - rewrite forallb_forall in H. apply in_rngb_ok. apply H. exact Hin.
  - rewrite Hd. unfold rng. pose proof (pow2_pos W HW). lia.
Qed.

(* every opcode: a statement about all v with 0 <= v < 256 from a computed boolean over the 256 values *)
Fixpoint upto (n : nat) : list Z := match n with O => [] | S k => upto k ++ [Z.of_nat k] end.
Lemma in_upto n v : 0 <= v < Z.of_nat n -> In v (upto n).
Proof.
  induction n as [|n IH]; intro H; [lia|]. simpl. apply in_or_app.
  destruct (Z.eq_dec v (Z.of_nat n)) as [E|E]; [right; left; symmetry; exact E | left; apply IH; lia].
Qed.
Lemma all_bytes (P : Z -> Prop) : Forall P (upto 256) -> forall v, rng 8 v -> P v.
Proof. intros H v Hv. rewrite Forall_forall in H. apply H. apply in_upto. unfold rng in Hv. simpl in *. lia. Qed.
Lemma all_bytes_b (p : Z -> bool) : forallb p (upto 256) = true -> forall v, rng 8 v -> p v = true.
Proof. intros H v Hv. rewrite forallb_forall in H. apply H. apply in_upto. unfold rng in Hv. simpl in *. lia. Qed.

(* ---- machine primitives ---- *)
Lemma safe_seg_get (B : N -> Z -> Prop) i s : rng 20 i -> Inv B s -> safe (fun r s' => True /\ Inv B s') (seg_get i s).
Proof.
  intros [H0 H1] H. unfold seg_get, seg_ok. change (2 ^ 20) with 1048576 in H1.
  destruct (0 <=? i) eqn:E1; [|apply Z.leb_gt in E1; lia]. destruct (i <? 1048576) eqn:E2; [|apply Z.ltb_ge in E2; lia].
  simpl. auto.
Qed.

Lemma addr_ok_rng a : rng 24 a -> addr_ok a = true.
Proof.
  intros [H0 H1]. unfold addr_ok. change (2 ^ 24) with 16777216 in H1.
  apply andb_true_iff. split; [apply Z.leb_le | apply Z.ltb_lt]; lia.
Qed.
Lemma seg_ok_rng i : rng 20 i -> seg_ok i = true.
Proof.
  intros [H0 H1]. unfold seg_ok. change (2 ^ 20) with 1048576 in H1.
  apply andb_true_iff. split; [apply Z.leb_le | apply Z.ltb_lt]; lia.
Qed.

Lemma rng24_ok a : rng 24 a -> 0 <= a < 16777216.
Proof. unfold rng. change (2 ^ 24) with 16777216. auto. Qed.
Lemma safe_mem_read (B : N -> Z -> Prop) h a s : rng 24 a -> Inv B s -> safe (fun r s' => rng 8 r /\ Inv B s') (mem_read h a s).
Proof.
  intros Ha H. pose proof (rng24_ok a Ha) as Ha'. unfold mem_read. rewrite (addr_ok_rng a Ha). simpl. split.
  - unfold rng. change (2 ^ 8) with 256. apply Z.mod_pos_bound. lia.
  - apply inv_log; [exact Ha' | exact H].
Qed.
Lemma safe_mem_write (B : N -> Z -> Prop) h a v s : rng 24 a -> Inv B s -> safe (fun r s' => True /\ Inv B s') (mem_write h a v s).
Proof.
  intros Ha H. pose proof (rng24_ok a Ha) as Ha'. unfold mem_write. rewrite (addr_ok_rng a Ha). simpl. split; [exact I|]. apply inv_log; [exact Ha'|]. apply inv_upd. exact H.
Qed.
Lemma safe_bus_read (B : N -> Z -> Prop) i a s : rng 20 i -> rng 24 a -> Inv B s -> safe (fun r s' => rng 8 r /\ Inv B s') (bus_read i a s).
Proof. intros Hi Ha H. unfold bus_read. rewrite (seg_ok_rng i Hi). apply safe_mem_read; assumption. Qed.
Lemma safe_bus_write (B : N -> Z -> Prop) i a v s : rng 20 i -> rng 24 a -> Inv B s -> safe (fun r s' => True /\ Inv B s') (bus_write i a v s).
Proof. intros Hi Ha H. unfold bus_write. rewrite (seg_ok_rng i Hi). apply safe_mem_write; assumption. Qed.
Lemma safe_cb_pc (B : N -> Z -> Prop) a s : Inv B s -> safe (fun r s' => True /\ Inv B s') (cb_pc a s).
Proof. intros H. unfold cb_pc. simpl. split; [exact I|]. destruct (onpc s a); [apply inv_log; [exact I|]|]; exact H. Qed.
Lemma safe_cb_call_OnWDM (B : N -> Z -> Prop) v s : Inv B s -> safe (fun r s' => True /\ Inv B s') (cb_call_OnWDM v s).
Proof. intros H. unfold cb_call_OnWDM. simpl. split; [exact I|]. apply inv_log; [exact I|]. exact H. Qed.

(* ---- tactics ---- *)
Ltac rng_const := unfold rng; split; [ apply Z.leb_le | apply Z.ltb_lt ]; vm_compute; reflexivity.
Ltac side_le := vm_compute; first [ discriminate | reflexivity | (let H := fresh in intro H; discriminate H) ].

Ltac head_of t :=
  lazymatch t with
  | ?f _ _ _ _ _ _ _ => head_of f
  | ?f _ _ _ _ => head_of f
  | ?f _ _ => head_of f
  | ?f _ => head_of f
  | _ => t
  end.

(* [get_rng_pf H f s] : from H : Inv B s, a proof of [rng w (get f s)] for the tightest w recorded in B *)
Ltac get_rng_pf H f s :=
  lazymatch type of H with
  | Inv (ovr ?g (rng ?w) ?B') s =>
      let b := eval cbv in (N.eqb f g) in
      lazymatch b with
      | true => constr:(inv_ovr_get B' g (rng w) s H)
      | false => get_rng_pf constr:(inv_ovr_base B' g (rng w) s H) f s
      end
  | Inv (ovr ?g ?P ?B') s => get_rng_pf constr:(inv_ovr_base B' g P s H) f s
  | Inv (Bty ?fw) s =>
      let w := eval cbv in (fw f) in
      constr:(inv_bty_get fw f s w H (eq_refl w) ltac:(discriminate))
  end.

Ltac solve_rng :=
  lazymatch goal with
  | |- rng ?W (conv8 _) => apply rng_conv8; side_le
  | |- rng ?W (conv16 _) => apply rng_conv16; side_le
  | |- rng ?W (conv32 _) => apply rng_conv32; side_le
  | |- rng ?W (conv64 _) => apply rng_conv64; side_le
  | |- rng ?W (add8 _ _) => apply rng_add8; side_le
  | |- rng ?W (add16 _ _) => apply rng_add16; side_le
  | |- rng ?W (add32 _ _) => apply rng_add32; side_le
  | |- rng ?W (add64 _ _) => apply rng_add64; side_le
  | |- rng ?W (sub8 _ _) => apply rng_sub8; side_le
  | |- rng ?W (sub16 _ _) => apply rng_sub16; side_le
  | |- rng ?W (sub32 _ _) => apply rng_sub32; side_le
  | |- rng ?W (sub64 _ _) => apply rng_sub64; side_le
  | |- rng ?W (mul8 _ _) => apply rng_mul8; side_le
  | |- rng ?W (mul16 _ _) => apply rng_mul16; side_le
  | |- rng ?W (mul32 _ _) => apply rng_mul32; side_le
  | |- rng ?W (neg8 _) => apply rng_neg8; side_le
  | |- rng ?W (neg16 _) => apply rng_neg16; side_le
  | |- rng ?W (neg32 _) => apply rng_neg32; side_le
  | |- rng ?W (shl8 _ _) => apply rng_shl8; side_le
  | |- rng ?W (shl16 ?x ?k) => first [ apply rng_shl16; side_le | apply rng_shl16_small; [side_le | side_le | side_le | norm_w; solve_rng] ]
  | |- rng ?W (shl32 ?x ?k) => first [ apply rng_shl32; side_le | apply rng_shl32_small; [side_le | side_le | side_le | norm_w; solve_rng] ]
  | |- rng ?W (shl64 ?x ?k) => first [ apply rng_shl64; side_le | apply rng_shl64_small; [side_le | side_le | side_le | norm_w; solve_rng] ]
  | |- rng ?W (not8 _) => apply rng_not8; [side_le | solve_rng]
  | |- rng ?W (not16 _) => apply rng_not16; [side_le | solve_rng]
  | |- rng ?W (not32 _) => apply rng_not32; [side_le | solve_rng]
  | |- rng ?W (w_and ?a ?b) => first [ apply rng_and_r; solve_rng | apply rng_and_l; solve_rng ]
  | |- rng ?W (w_or ?a ?b) => apply rng_or; solve_rng
  | |- rng ?W (w_xor ?a ?b) => apply rng_xor; solve_rng
  | |- rng ?W (w_shr ?a ?k) => apply rng_shr; [side_le | side_le | norm_w; solve_rng]
  | |- rng ?W (w_div ?a ?b) => apply rng_div; [solve_rng | side_le]
  | |- rng ?W (w_mod ?a ?b) => first [ apply rng_mod_small; [ vm_compute; reflexivity | vm_compute; reflexivity ] | apply rng_modop; [solve_rng | side_le] ]
  | |- rng ?W (b2z _) => apply rng_b2z; side_le
  | |- rng ?W (w_nth ?i ?l) => apply rng_nth; [vm_compute; reflexivity | side_le]
  | |- rng ?W (if ?c then _ else _) => case c; solve_rng
  | |- rng ?W (get ?f (set ?g ?v ?s)) =>
      let b := eval cbv in (N.eqb f g) in
      lazymatch b with
      | true => change (rng W v); solve_rng
      | false => change (rng W (get f s)); solve_rng
      end
  | |- rng ?W (get ?f (log _ ?s)) => change (rng W (get f s)); solve_rng
  | |- rng ?W (get ?f (upd _ _ ?s)) => change (rng W (get f s)); solve_rng
  | |- rng ?W (get ?f ?s) =>
      match goal with
      | H : Inv _ s |- _ =>
          let pf := get_rng_pf H f s in
          lazymatch type of pf with
          | rng ?w _ => apply (rng_weaken w W _ pf); side_le
          end
      end
  | |- rng ?W ?v =>
      first [ is_var v;
              first [ match goal with H : rng ?w v |- _ => apply (rng_weaken w W v H); side_le end
                    | let b := eval cbv delta [v] in v in change (rng W b); solve_rng ]
            | lazymatch v with Z0 => idtac | Zpos _ => idtac | Zneg _ => idtac end; rng_const
            | rng_hook
            | let h := head_of v in unfold h; cbv beta; solve_rng ]
  end
with norm_w :=
  lazymatch goal with
  | |- rng ?W ?v => let W' := eval cbv in W in change (rng W' v)
  end
with rng_hook := fail.

(* goal: [B f v] for a concrete predicate map B *)
Ltac prove_B :=
  lazymatch goal with
  | |- ovr ?g ?P ?B ?f ?v =>
      split; [ prove_B
             | let b := eval cbv in (N.eqb f g) in
               lazymatch b with
               | true => change (P v); cbv beta; first [ solve_rng | ovr_hook ]
               | false => exact I
               end ]
  | |- Bty ?fw ?f ?v =>
      let w := eval cbv in (fw f) in
      lazymatch w with
      | 0 => exact I
      | _ => change (rng w v); solve_rng
      end
  end
with ovr_hook := fail.

(* goal: [P v] for the constraint P recorded on an assigned field *)
Ltac pred_goal :=
  cbv beta;
  lazymatch goal with
  | |- True => exact I
  | |- rng _ _ => solve_rng
  | |- ?a = ?a => reflexivity
  | |- _ => pred_hook
  end
with pred_hook := ovr_hook.

(* goal: [Inv B' (set f v s0)] from H : Inv B s0, where B' is B except possibly for the constraint on f *)
Ltac upd_inv H :=
  lazymatch goal with
  | |- Inv (ovr ?g ?P' ?B') (set ?f ?v ?s0) =>
      apply inv_ovr_intro;
      [ upd_inv constr:(inv_ovr_base _ _ _ _ H)
      | let b := eval cbv in (N.eqb g f) in
        lazymatch b with
        | true => change (P' v); pred_goal
        | false => change (P' (get g s0)); exact (inv_ovr_get _ _ _ _ H)
        end ]
  | |- Inv (Bty ?fw) (set ?f ?v ?s0) => apply inv_set; [ exact H | prove_B ]
  end.

Ltac solve_side :=
  lazymatch goal with
  | |- rng _ _ => solve_rng
  | |- Inv _ _ => eassumption
  | |- True => exact I
  | |- (_ <= _)%Z => side_hook
  | |- (_ < _)%Z => side_hook
  | |- _ => idtac
  end
with side_hook := idtac.

Ltac call_prim :=
  first [ eapply safe_mem_read | eapply safe_mem_write | eapply safe_bus_read | eapply safe_bus_write
        | eapply safe_seg_get | eapply safe_cb_pc | eapply safe_cb_call_OnWDM ].

Ltac res_goal :=
  lazymatch goal with
  | |- True => exact I
  | |- rng _ _ => solve_rng
  | |- _ => idtac
  end.

(* one step of symbolic execution; [call] applies the lemma of a translated callee *)
Ltac safe_step call :=
  lazymatch goal with
  | |- safe _ (bind _ _) =>
      eapply safe_bind;
      [ first [ call_prim | call tt ]; solve_side
      | cbv beta; let r := fresh "r" in let s := fresh "s" in let Hr := fresh "Hr" in let Hi := fresh "Hi" in
        intros r s [Hr Hi] ]
  | |- safe ?Q (let x := set ?f ?v ?s0 in @?b x) =>
      match goal with
      | H : Inv ?B s0 |- _ =>
          let Hn := fresh "Hi" in
          first [ set_hook Q f v s0 b H
                | assert (Hn : Inv B (set f v s0)) by (upd_inv H);
                  change (safe Q (b (set f v s0))); cbv beta;
                  let s1 := fresh "s" in generalize (set f v s0) Hn; clear Hn; intros s1 Hn ]
      end
  | |- safe ?Q (let x := ?e in @?b x) =>
      let x' := fresh "x" in
      pose (x' := e); change (safe Q (b x')); cbv beta;
      (* a local continuation (join point): prove its specification once, under the invariant in force *)
      lazymatch type of e with
      | st -> res _ =>
          lazymatch goal with
          | H : Inv ?B _ |- _ =>
              let Hk := fresh "Hk" in
              assert (Hk : forall s1, Inv B s1 -> safe Q (x' s1));
              [ let s1 := fresh "s" in let Hi := fresh "Hi" in intros s1 Hi; cbv beta delta [x']; clear x' | cont_done x' ]
          end
      | ?T -> st -> res _ =>
          let n := lazymatch T with zw8 => constr:(8) | zw16 => constr:(16) | zw32 => constr:(32) | zw64 => constr:(64) end in
          lazymatch goal with
          | H : Inv ?B _ |- _ =>
              let Hk := fresh "Hk" in
              assert (Hk : forall a1 s1, rng n a1 -> Inv B s1 -> safe Q (x' a1 s1));
              [ let a1 := fresh "a" in let s1 := fresh "s" in let Ha := fresh "Ha" in let Hi := fresh "Hi" in
                intros a1 s1 Ha Hi; cbv beta delta [x']; clear x' | cont_done x' ]
          end
      | bool -> zw8 -> zw16 -> zw16 -> zw32 -> st -> res _ =>
          (* the join point after the addressing-mode switch of Step: (pageCrossed, arg8, arg16, addr, ea) *)
          lazymatch goal with
          | H : Inv ?B _ |- _ =>
              let Hk := fresh "Hk" in
              assert (Hk : forall a1 a2 a3 a4 a5 s1, rng 8 a2 -> rng 16 a3 -> rng 16 a4 -> rng 24 a5 -> Inv B s1 -> safe Q (x' a1 a2 a3 a4 a5 s1));
              [ let a1 := fresh "a" in let a2 := fresh "a" in let a3 := fresh "a" in let a4 := fresh "a" in let a5 := fresh "a" in
                let s1 := fresh "s" in let Hi := fresh "Hi" in
                intros a1 a2 a3 a4 a5 s1 ? ? ? ? Hi; cbv beta delta [x']; clear x' | cont_done x' ]
          end
      | _ => idtac
      end
  | |- safe _ (if ?c then _ else _) => case c
  | |- safe _ (Ok _ _) => cbv beta; split; [ res_goal | first [ eassumption | ok_hook ] ]
  | |- safe _ Panic => fail 1 "symbolic execution reached Panic"
  | |- safe _ ?t =>
      let h := head_of t in
      first [ is_var h;
              first [ match goal with Hk : context [h] |- _ => eapply Hk; solve_side end
                    | cbv beta delta [h] ]
            | call tt; solve_side ]
  end
with set_hook Q f v s0 b H := fail
with cont_done x := clearbody x
with ok_hook := fail.

(* [get_pred_pf H g] : from H : Inv B s, the proof of [P (get g s)] for the constraint P recorded on field g *)
Ltac get_pred_pf H g :=
  lazymatch type of H with
  | Inv (ovr ?g1 ?P ?B1) ?s =>
      let b := eval cbv in (N.eqb g g1) in
      lazymatch b with
      | true => constr:(inv_ovr_get B1 g1 P s H)
      | false => get_pred_pf constr:(inv_ovr_base B1 g1 P s H) g
      end
  end.

(* the predicate map B with the constraint on field f replaced by Pn *)
Ltac subst_pred B f Pn :=
  lazymatch B with
  | ovr ?g ?P ?B1 =>
      let b := eval cbv in (N.eqb g f) in
      lazymatch b with
      | true => constr:(ovr g Pn B1)
      | false => let B1' := subst_pred B1 f Pn in constr:(ovr g P B1')
      end
  | _ => B
  end.

(* the assignment [set f v s0] establishes the NEW constraint Pn on f (everything else is carried over) *)
Ltac set_with_pred Q f v s0 b H Pn :=
  lazymatch type of H with
  | Inv ?B _ =>
      let B' := subst_pred B f Pn in
      let Hn := fresh "Hi" in
      assert (Hn : Inv B' (set f v s0)) by (upd_inv H);
      change (safe Q (b (set f v s0))); cbv beta;
      let s1 := fresh "s" in generalize (set f v s0) Hn; clear Hn; intros s1 Hn
  end.

Ltac safe_run call := cbv beta iota delta [seg_nil orb]; repeat (safe_step call).
