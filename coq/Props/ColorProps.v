(* C17: 15-bit colour packing and MulDiv.  Static part: boolean checks (swept exhaustively inside
   the kernel over the regenerated functions) and the theorems they yield, parameterised over the
   four functions of color15 and a channel-scaling function [ch] through which MulDiv factors. *)
From Coq Require Import Uint63 ZArith Bool Lia.
From Lib Require Import U63Ops Sweep.
Local Open Scope uint63_scope.

Lemma eqb_true (a b : int) : (a =? b) = true -> a = b.
Proof. apply eqb_correct. Qed.

Definition sat (v : int) : int := if 31 <? v then 31 else v.

Definition triple_eqb (t u : int * int * int) : bool :=
  let '(a, b, c) := t in let '(x, y, z) := u in (a =? x) && (b =? y) && (c =? z).
Lemma triple_eqb_ok t u : triple_eqb t u = true -> t = u.
Proof.
  destruct t as [[a b] c], u as [[x y] z]; cbn; intro H.
  apply andb_prop in H; destruct H as [H H3]. apply andb_prop in H; destruct H as [H1 H2].
  apply eqb_true in H1, H2, H3; subst; reflexivity.
Qed.

Section Color.
Variable unpack : int -> int * int * int.
Variable pack : int -> int -> int -> int.
Variable lum : int -> int.
Variable muldiv : int -> int -> int -> int.
Variable ch : int -> int -> int -> int.

(* (1) unpack is the three 5-bit fields; pack . unpack clears bit 15 *)
Definition unpack_check (c : int) : bool :=
  triple_eqb (unpack c) (c land 31, (c >> 5) land 31, (c >> 10) land 31) &&
  (let '(r, g, b) := unpack c in (r <? 32) && (g <? 32) && (b <? 32)) &&
  (let '(r, g, b) := unpack c in pack r g b =? c land 32767).
Definition unpack_prop (c : int) : Prop :=
  unpack c = (c land 31, (c >> 5) land 31, (c >> 10) land 31) /\
  (let '(r, g, b) := unpack c in (r <? 32) = true /\ (g <? 32) = true /\ (b <? 32) = true) /\
  (let '(r, g, b) := unpack c in pack r g b = c land 32767).
Lemma unpack_ok c : unpack_check c = true -> unpack_prop c.
Proof.
  unfold unpack_check, unpack_prop; intro H; apply andb_prop in H; destruct H as [H H2].
  apply andb_prop in H; destruct H as [H1 H3].
  split; [apply triple_eqb_ok; exact H1|]. destruct (unpack c) as [[r g] b].
  apply andb_prop in H3; destruct H3 as [H3 H5]. apply andb_prop in H3; destruct H3 as [H3 H4].
  split; [auto|]. apply eqb_true; exact H2.
Qed.

(* (2) unpack . pack = channels mod 32, bit 15 clear *)
Definition pack_check (r g b : int) : bool :=
  triple_eqb (unpack (pack r g b)) (r land 31, g land 31, b land 31) && (pack r g b <? 32768).
Definition pack_prop (r g b : int) : Prop :=
  unpack (pack r g b) = (r land 31, g land 31, b land 31) /\ (pack r g b <? 32768) = true.
Definition pack_sweep : bool := all8 (fun r => all8 (fun g => all8 (fun b => pack_check r g b))).

(* (3) luminosity *)
Definition lum_check (c : int) : bool :=
  let '(r, g, b) := unpack c in lum c =? (r + g + b) / 3.
Definition lum_prop (c : int) : Prop :=
  let '(r, g, b) := unpack c in lum c = (r + g + b) / 3.
Lemma lum_ok c : lum_check c = true -> lum_prop c.
Proof. unfold lum_check, lum_prop; destruct (unpack c) as [[r g] b]; apply eqb_true. Qed.

(* (4) channel scaling, for every 5-bit channel value, multiplicand and non-zero divisor *)
Definition ch_check (x m d : int) : bool :=
  if d =? 0 then true else ch x m d =? sat (x * m / d).
Definition ch_prop (x m d : int) : Prop := ch x m d = sat (x * m / d).
Definition ch_sweep : bool := all_pow 5 0 32 (fun x => all8 (fun m => all8 (fun d => ch_check x m d))).

Hypothesis H_unpack : all16 unpack_check = true.
Hypothesis H_pack : pack_sweep = true.
Hypothesis H_lum : all16 lum_check = true.
Hypothesis H_ch : ch_sweep = true.
Hypothesis H_fact : forall c m d, muldiv c m d =
  let '(r, g, b) := unpack c in pack (ch r m d) (ch g m d) (ch b m d).

Theorem unpack_all : forall c, (c <? 65536) = true -> unpack_prop c.
Proof. intros c Hc; apply unpack_ok; exact (all16_sound _ H_unpack c Hc). Qed.

Theorem lum_all : forall c, (c <? 65536) = true -> lum_prop c.
Proof. intros c Hc; apply lum_ok; exact (all16_sound _ H_lum c Hc). Qed.

Theorem pack_all : forall r g b, (r <? 256) = true -> (g <? 256) = true -> (b <? 256) = true -> pack_prop r g b.
Proof.
  intros r g b Hr Hg Hb.
  pose proof (all8_sound _ (all8_sound _ (all8_sound _ H_pack r Hr) g Hg) b Hb) as H.
  unfold pack_check in H. apply andb_prop in H; destruct H as [H1 H2].
  split; [apply triple_eqb_ok; exact H1 | exact H2].
Qed.

Lemma all5_sound (P : int -> bool) :
  all_pow 5 0 32 P = true -> forall i : int, (i <? 32) = true -> P i = true.
Proof. apply (pow_sound_top P 5 32); vm_compute; [reflexivity | discriminate]. Qed.

Theorem ch_all : forall x m d, (x <? 32) = true -> (m <? 256) = true -> (d <? 256) = true -> (d =? 0) = false ->
  ch_prop x m d.
Proof.
  intros x m d Hx Hm Hd Hd0.
  pose proof (all8_sound _ (all8_sound _ (all5_sound _ H_ch x Hx) m Hm) d Hd) as H.
  unfold ch_check in H. rewrite Hd0 in H. apply eqb_true; exact H.
Qed.

Lemma sat_lt32 v : (sat v <? 32) = true.
Proof.
  unfold sat. destruct (31 <? v) eqn:E; [reflexivity|].
  apply ltb_spec. apply Bool.not_true_iff_false in E. rewrite ltb_spec in E.
  change (to_Z 31) with 31%Z in E. change (to_Z 32) with 32%Z. lia.
Qed.
Lemma lt32_lt256 v : (v <? 32) = true -> (v <? 256) = true.
Proof. rewrite !ltb_spec. change (to_Z 32) with 32%Z. change (to_Z 256) with 256%Z. lia. Qed.
Lemma land31_id : forall v, (v <? 32) = true -> v land 31 = v.
Proof.
  intros v Hv. apply eqb_true.
  refine (all5_sound (fun v => v land 31 =? v) _ v Hv). vm_compute. reflexivity.
Qed.

(* the MulDiv theorem: per channel, independently, the saturated floor quotient; bit 15 clear *)
Theorem muldiv_all : forall c m d,
  (c <? 65536) = true -> (m <? 256) = true -> (d <? 256) = true -> (d =? 0) = false ->
  let '(r, g, b) := unpack c in
  unpack (muldiv c m d) = (sat (r * m / d), sat (g * m / d), sat (b * m / d)) /\
  (muldiv c m d <? 32768) = true.
Proof.
  intros c m d Hc Hm Hd Hd0. rewrite H_fact.
  destruct (unpack_all c Hc) as [_ [Hb _]].
  destruct (unpack c) as [[r g] b]. destruct Hb as [Hr [Hg Hb]].
  rewrite (ch_all r m d Hr Hm Hd Hd0), (ch_all g m d Hg Hm Hd Hd0), (ch_all b m d Hb Hm Hd Hd0).
  destruct (pack_all (sat (r * m / d)) (sat (g * m / d)) (sat (b * m / d))) as [E1 E2];
    try (apply lt32_lt256; apply sat_lt32).
  rewrite E1, !land31_id by apply sat_lt32. split; [reflexivity | exact E2].
Qed.

End Color.

(* ---- the same quotient on Z, and its order properties (what "scales with saturation" means) ---- *)
Local Open Scope Z_scope.

Definition zscale (x m d : Z) : Z := Z.min 31 (x * m / d).

Lemma sat_spec (x m d : int) :
  (x <? 32)%uint63 = true -> (m <? 256)%uint63 = true -> (d <? 256)%uint63 = true -> (d =? 0)%uint63 = false ->
  to_Z (sat (x * m / d)%uint63) = zscale (to_Z x) (to_Z m) (to_Z d).
Proof.
  intros Hx Hm Hd Hd0. apply ltb_spec in Hx, Hm, Hd.
  change (to_Z 32) with 32 in Hx. change (to_Z 256) with 256 in Hm, Hd.
  pose proof (to_Z_bounded x) as Bx. pose proof (to_Z_bounded m) as Bm. pose proof (to_Z_bounded d) as Bd.
  assert (D0 : to_Z d <> 0).
  { intro E. assert (d = 0%uint63) by (apply to_Z_inj; rewrite E; reflexivity). subst d. discriminate. }
  assert (Eq : to_Z (x * m / d)%uint63 = to_Z x * to_Z m / to_Z d).
  { rewrite div_spec, mul_spec. rewrite Z.mod_small; [reflexivity|].
    unfold wB, size. change (2 ^ Z.of_nat 63) with 9223372036854775808. nia. }
  unfold sat, zscale. destruct (31 <? x * m / d)%uint63 eqn:E.
  - apply ltb_spec in E. change (to_Z 31) with 31 in *. rewrite Eq in E. lia.
  - apply Bool.not_true_iff_false in E. rewrite ltb_spec in E. change (to_Z 31) with 31 in E. rewrite Eq in E. lia.
Qed.

Lemma zscale_le31 x m d : zscale x m d <= 31.
Proof. unfold zscale; lia. Qed.

Lemma zscale_identity x d : 0 <= x <= 31 -> 0 < d -> zscale x d d = x.
Proof. intros Hx Hd. unfold zscale. rewrite Z.div_mul by lia. lia. Qed.

(* a larger ratio never darkens a channel *)
Lemma zscale_monotone x m1 d1 m2 d2 :
  0 <= x -> 0 <= m1 -> 0 <= m2 -> 0 < d1 -> 0 < d2 -> m2 * d1 <= m1 * d2 ->
  zscale x m2 d2 <= zscale x m1 d1.
Proof.
  intros Hx Hm1 Hm2 Hd1 Hd2 H. unfold zscale.
  apply Z.min_le_compat_l.
  apply Z.div_le_lower_bound; [lia|].
  assert (Hq : d2 * (x * m2 / d2) <= x * m2) by (apply Z.mul_div_le; lia).
  assert (0 <= x * m2 / d2) by (apply Z.div_pos; nia).
  nia.
Qed.
