(* C01: instructions with a memory operand, once per mnemonic for all memory addressing modes (compares).
   snapshot_dep: op_cmp, op_cpx, op_cpy, compare8, compare16 *)
From Coq Require Import ZArith NArith List Bool Lia.
From Spec Require Import ISA Spec816.
From Lib Require Import ZOps Machine.
From Snapshot Require Import GenFields GenCpu65.
From Props Require Import C01Base C01Shift C01Flow C01Imm C01Mem C01MemLoc C01MemOps C01MemOpsD.
Import ListNotations.
Local Open Scope Z_scope.
Arguments Z.modulo : simpl never.
Arguments Z.lor : simpl never.
Arguments Z.land : simpl never.
Arguments Z.shiftl : simpl never.
Arguments Z.shiftr : simpl never.

Lemma cmp_mem : forall op, memop op CMP op_cmp -> refines_op op.
Proof. intro op. open_mem op_cmp. - read16. close_read. - read8. close_read. Qed.
Lemma cpx_mem : forall op, memop op CPX op_cpx -> refines_op op.
Proof. intro op. open_mem op_cpx. - read16. close_read. - read8. close_read. Qed.
Lemma cpy_mem : forall op, memop op CPY op_cpy -> refines_op op.
Proof. intro op. open_mem op_cpy. - read16. close_read. - read8. close_read. Qed.
