(* C01, infrastructure: the generated model of the primary interpreter refines Spec816.step through abs.

   Proof target: coq/Snapshot/GenCpu65.v, a committed copy of the model that /verif/gen produces from
   emulator/cpu65c816/cpu.go + emulator/bus/bus.go.  The check compares the regenerated file with
   the snapshot function by function on every run, and additionally replays this very file against
   the regenerated model (From Gen instead of From Snapshot).

   snapshot_dep: Step, finish, nRead, EaRead, tbl_mode, tbl_size, tbl_proc

   Full statement (the goal of the build):
     C01_step : forall s, wf s -> get f_E s = 0 -> no_int s -> bcd_defined (abs s) (mem s) ->
                refines_step s (Step s)                    (abs equality up to V after decimal ADC/SBC)
   Proved here: C01_step_partial, the same statement for the opcodes of [proved_opcodes], grown family
   by family.  Opcodes outside the list are covered by the differential run only. *)
From Coq Require Import ZArith NArith List Bool Lia.
From Spec Require Import ISA Spec816.
From Lib Require Import ZOps Machine.
From Snapshot Require Import GenFields GenCpu65.
Import ListNotations.
Local Open Scope Z_scope.
Arguments Z.modulo : simpl never.
Arguments Z.lor : simpl never.
Arguments Z.land : simpl never.
Arguments Z.shiftl : simpl never.
Arguments Z.shiftr : simpl never.

(* ---------------------------------------------------------------- bits, bus reads *)
Lemma lor_disjoint : forall b a k, 0 <= k -> 0 <= a < 2 ^ k -> 0 <= b -> Z.lor (b * 2 ^ k) a = b * 2 ^ k + a.
Proof.
  intros b a k Hk Ha Hb.
  rewrite <- Z.lxor_lor.
  - symmetry. apply Z.add_nocarry_lxor.
    apply Z.bits_inj'. intros n Hn. rewrite Z.land_spec, Z.bits_0.
    destruct (Z.lt_ge_cases n k) as [Hlt | Hge].
    + rewrite Z.mul_pow2_bits_low by lia. reflexivity.
    + destruct (Z.eq_dec a 0) as [-> | Hz]. { rewrite Z.bits_0. apply andb_false_r. }
      rewrite (Z.bits_above_log2 a n). apply andb_false_r. lia.
      assert (2 ^ k <= 2 ^ n) by (apply Z.pow_le_mono_r; lia). apply Z.log2_lt_pow2; lia.
  - apply Z.bits_inj'. intros n Hn. rewrite Z.land_spec, Z.bits_0.
    destruct (Z.lt_ge_cases n k) as [Hlt | Hge].
    + rewrite Z.mul_pow2_bits_low by lia. reflexivity.
    + destruct (Z.eq_dec a 0) as [-> | Hz]. { rewrite Z.bits_0. apply andb_false_r. }
      rewrite (Z.bits_above_log2 a n). apply andb_false_r. lia.
      assert (2 ^ k <= 2 ^ n) by (apply Z.pow_le_mono_r; lia). apply Z.log2_lt_pow2; lia.
Qed.

Lemma bank_addr : forall b a, 0 <= b < 256 -> 0 <= a < 65536 -> w_or (shl32 b 16) a = b * 65536 + a.
Proof.
  intros b a Hb Ha. unfold w_or, shl32. rewrite Z.shiftl_mul_pow2 by lia.
  change (2 ^ 16) with 65536. rewrite Z.mod_small by lia.
  change 65536 with (2 ^ 16). apply lor_disjoint; lia.
Qed.

Lemma EaRead_ok : forall a s, 0 <= a < 16777216 ->
  EaRead a s = Ok (mem s a mod 256) (log (EvR a (mem s a mod 256)) s).
Proof.
  intros a s Ha. unfold EaRead, seg_get, seg_nil, mem_read, seg_ok, addr_ok, w_shr.
  rewrite Z.shiftr_div_pow2 by lia. change (2 ^ 4) with 16.
  assert (H1 : (0 <=? a / 16) && (a / 16 <? 1048576) = true).
  { apply andb_true_intro; split; [apply Z.leb_le | apply Z.ltb_lt].
    apply Z.div_pos; lia. apply Z.div_lt_upper_bound; lia. }
  rewrite H1. cbn [bind].
  assert (H2 : (0 <=? a) && (a <? 16777216) = true).
  { apply andb_true_intro; split; [apply Z.leb_le | apply Z.ltb_lt]; lia. }
  rewrite H2. cbn [bind]. reflexivity.
Qed.

Lemma nRead_ok : forall b a s, 0 <= b < 256 -> 0 <= a < 65536 ->
  nRead b a s = Ok (mem s (b * 65536 + a) mod 256) (log (EvR (b * 65536 + a) (mem s (b * 65536 + a) mod 256)) s).
Proof.
  intros b a s Hb Ha. unfold nRead. rewrite bank_addr by assumption. rewrite EaRead_ok by lia. reflexivity.
Qed.

(* ---------------------------------------------------------------- symbolic execution of Step *)
Definition finish (s : st) : res (word * bool) :=
  let s := set f_AllCycles (add64 (get f_AllCycles s) (get f_Cycles s)) s in
  let s := set f_PC (add16 (get f_PC s) (get f_stepPC s)) s in
  if z2b (get f_Stopped s) then Ok (get f_Cycles s, true) s else Ok (get f_Cycles s, false) s.

(* fields the architectural state is read from *)
Definition archf (f : N) : bool :=
  existsb (N.eqb f) [f_RA; f_RAh; f_RAl; f_RX; f_RXl; f_RY; f_RYl; f_SP; f_RD; f_RDBR; f_RK; f_PC;
                     f_N; f_V; f_M; f_X; f_D; f_I; f_Z; f_C; f_E; f_Stopped; f_B].
Definition same (s s1 : st) : Prop :=
  (forall f, archf f = true -> get f s1 = get f s) /\ (forall a, mem s1 a = mem s a).

Lemma same_refl : forall s, same s s.
Proof. split; reflexivity. Qed.
Lemma same_set : forall s sp f v, archf f = false -> same s sp -> same s (set f v sp).
Proof.
  intros s sp f v Hf [Hr Hm]. split.
  - intros g Hg. unfold get, set. cbn [regs]. destruct (N.eqb g f) eqn:E.
    + apply N.eqb_eq in E. subst g. congruence.
    + apply Hr, Hg.
  - intros a. unfold set. cbn [mem]. apply Hm.
Qed.
Lemma same_log : forall s sp e, same s sp -> same s (log e sp).
Proof. intros s sp e [Hr Hm]. split; [intros g Hg; apply (Hr g Hg) | intros a; apply Hm]. Qed.
Lemma same_get : forall s sp f, same s sp -> archf f = true -> get f sp = get f s.
Proof. intros s sp f [Hr _] Hf. apply Hr, Hf. Qed.

Lemma bind_Ok : forall A B (a : A) (s : st) (k : A -> st -> res B), bind (Ok a s) k = k a s.
Proof. reflexivity. Qed.

Ltac abs_state s E :=
  let s' := fresh "sp" in let H := fresh "Hs" in
  pose (s' := E); assert (H : same s s') by (subst s'; repeat first [ assumption | apply same_refl | apply same_log | (apply same_set; [reflexivity |]) ]);
  change E with s'; clearbody s'.

Definition no_int (s : st) : Prop := get f_Interrupt s <> 2 /\ get f_Interrupt s <> 3.

Lemma get_set_other : forall f g v s, N.eqb f g = false -> get f (set g v s) = get f s.
Proof. intros f g v s H. unfold get, set. cbn [regs]. rewrite H. reflexivity. Qed.
Lemma get_set_this : forall f v s, get f (set f v s) = v.
Proof. intros f v s. unfold get, set. cbn [regs]. rewrite N.eqb_refl. reflexivity. Qed.
Lemma get_log : forall f e s, get f (log e s) = get f s.
Proof. reflexivity. Qed.

(* --- symbolic execution of the generated code, one construct at a time, in goals of the form
       [Q program] (Q a variable).  The current state is always a variable carrying [same s _];
       lets that bind states are abstracted, other lets (values, continuations) are substituted. *)
Ltac same_solver :=
  repeat first [ assumption | apply same_refl | apply same_log | (apply same_set; [reflexivity |]) ].

(* facts [get fld _ = v] about scratch fields (stepPC, StepInfo.Mode) are carried along the abstracted states *)
Ltac note_fact fld s' E :=
  first
  [ lazymatch E with set fld ?v _ => assert (get fld s' = v) by (subst s'; apply get_set_this) end
  | match goal with
    | H : get fld ?x = ?v |- _ =>
        lazymatch E with context [x] =>
          assert (get fld s' = v)
            by (subst s'; repeat first [ rewrite get_log | rewrite get_set_other by reflexivity ]; exact H)
        end
    end
  | idtac ].
Ltac note_facts s' E := note_fact f_stepPC s' E; note_fact f_StepInfo_Mode s' E.

Ltac head_let s :=
  lazymatch goal with
  | |- ?Q (let x := ?E in @?B x) =>
      lazymatch type of E with
      | st => let s' := fresh "sp" in let H := fresh "Hs" in
              pose (s' := E); assert (H : same s s') by (subst s'; same_solver);
              note_facts s' E;
              change (Q (B s')); cbv beta; clearbody s'
      | _ => change (Q (B E)); cbv beta
      end
  end.

Ltac fetch_op s Hk Hpc Hop :=
  match goal with |- context [nRead (get f_RK ?x) (get f_PC ?x) ?x] =>
    match goal with H : same s x |- _ =>
      rewrite (same_get s x f_RK H eq_refl), (same_get s x f_PC H eq_refl);
      rewrite nRead_ok by assumption; rewrite bind_Ok; cbv beta;
      rewrite (proj2 H), Hop
    end end.

Ltac mode_chain m :=
  repeat match goal with |- context [w_eqb m ?k] =>
    let b := eval vm_compute in (w_eqb m k) in change (w_eqb m k) with b end;
  cbv iota.

Lemma Step_imp8 : forall s op (Q : res (word * bool) -> Prop),
  no_int s -> 0 <= get f_RK s < 256 -> 0 <= get f_PC s < 65536 ->
  mem s (get f_RK s * 65536 + get f_PC s) mod 256 = op ->
  tbl_mode op = 8 ->
  (forall s1, same s s1 -> get f_stepPC s1 = tbl_size op ->
     Q (bind (tbl_proc op s1) (fun _ s2 => finish s2))) ->
  Q (Step s).
Proof.
  intros s op Q [Hi2 Hi3] Hk Hpc Hop Hmode HQ.
  assert (H2 : w_eqb (get f_Interrupt s) 2 = false) by (unfold w_eqb; apply Z.eqb_neq; assumption).
  assert (H3 : w_eqb (get f_Interrupt s) 3 = false) by (unfold w_eqb; apply Z.eqb_neq; assumption).
  cbv beta delta [Step].
  head_let s. head_let s. rewrite H2, H3.
  head_let s.
  cbv beta delta [cb_pc]. rewrite bind_Ok. cbv beta.
  match goal with |- context [onpc ?a ?b] => destruct (onpc a b) end.
  - match goal with |- context [log ?e ?x] => abs_state s (log e x) end.
    head_let s. head_let s. fetch_op s Hk Hpc Hop.
    head_let s. rewrite Hmode. head_let s. 
    match goal with |- context [log ?e ?x] => abs_state s (log e x) end.
    repeat head_let s.
    mode_chain 8.
    repeat first [ head_let s | match goal with |- ?Q' (if ?c then _ else _) => destruct c end ];
    apply HQ; assumption.
  - head_let s. head_let s. fetch_op s Hk Hpc Hop.
    head_let s. rewrite Hmode. head_let s. 
    match goal with |- context [log ?e ?x] => abs_state s (log e x) end.
    repeat head_let s.
    mode_chain 8.
    repeat first [ head_let s | match goal with |- ?Q' (if ?c then _ else _) => destruct c end ];
    apply HQ; assumption.
Qed.

Lemma Step_acc4 : forall s op (Q : res (word * bool) -> Prop),
  no_int s -> 0 <= get f_RK s < 256 -> 0 <= get f_PC s < 65536 ->
  mem s (get f_RK s * 65536 + get f_PC s) mod 256 = op ->
  tbl_mode op = 4 ->
  (forall s1, same s s1 -> get f_stepPC s1 = tbl_size op -> get f_StepInfo_Mode s1 = 4 ->
     Q (bind (tbl_proc op s1) (fun _ s2 => finish s2))) ->
  Q (Step s).
Proof.
  intros s op Q [Hi2 Hi3] Hk Hpc Hop Hmode HQ.
  assert (H2 : w_eqb (get f_Interrupt s) 2 = false) by (unfold w_eqb; apply Z.eqb_neq; assumption).
  assert (H3 : w_eqb (get f_Interrupt s) 3 = false) by (unfold w_eqb; apply Z.eqb_neq; assumption).
  cbv beta delta [Step].
  head_let s. head_let s. rewrite H2, H3.
  head_let s.
  cbv beta delta [cb_pc]. rewrite bind_Ok. cbv beta.
  match goal with |- context [onpc ?a ?b] => destruct (onpc a b) end.
  - match goal with |- context [log ?e ?x] => abs_state s (log e x) end.
    head_let s. head_let s. fetch_op s Hk Hpc Hop.
    head_let s. rewrite Hmode. head_let s.
    match goal with |- context [log ?e ?x] => abs_state s (log e x) end.
    repeat head_let s.
    mode_chain 4.
    repeat first [ head_let s | match goal with |- ?Q' (if ?c then _ else _) => destruct c end ];
    apply HQ; assumption.
  - head_let s. head_let s. fetch_op s Hk Hpc Hop.
    head_let s. rewrite Hmode. head_let s.
    match goal with |- context [log ?e ?x] => abs_state s (log e x) end.
    repeat head_let s.
    mode_chain 4.
    repeat first [ head_let s | match goal with |- ?Q' (if ?c then _ else _) => destruct c end ];
    apply HQ; assumption.
Qed.

(* ---------------------------------------------------------------- abstraction, statement, per-opcode lemmas *)
Definition abs (s : st) : arch := mkArch
  (if get f_M s =? 1 then get f_RAh s * 256 + get f_RAl s else get f_RA s)
  (if get f_X s =? 1 then get f_RXl s else get f_RX s)
  (if get f_X s =? 1 then get f_RYl s else get f_RY s)
  (get f_SP s) (get f_RD s) (get f_RDBR s) (get f_RK s) (get f_PC s)
  (get f_N s =? 1) (get f_V s =? 1) (get f_M s =? 1) (get f_X s =? 1) (get f_D s =? 1) (get f_I s =? 1)
  (get f_Z s =? 1) (get f_C s =? 1) (get f_E s =? 1) (z2b (get f_Stopped s)).

Definition flag01 (s : st) (f : N) : Prop := get f s = 0 \/ get f s = 1.
Record wf (s : st) : Prop := mkwf {
  wf_RA : 0 <= get f_RA s < 65536; wf_RAh : 0 <= get f_RAh s < 256; wf_RAl : 0 <= get f_RAl s < 256;
  wf_RX : 0 <= get f_RX s < 65536; wf_RXl : 0 <= get f_RXl s < 256;
  wf_RY : 0 <= get f_RY s < 65536; wf_RYl : 0 <= get f_RYl s < 256;
  wf_SP : 0 <= get f_SP s < 65536; wf_RD : 0 <= get f_RD s < 65536; wf_PC : 0 <= get f_PC s < 65536;
  wf_RDBR : 0 <= get f_RDBR s < 256; wf_RK : 0 <= get f_RK s < 256;
  wf_N : flag01 s f_N; wf_V : flag01 s f_V; wf_M : flag01 s f_M; wf_X : flag01 s f_X; wf_D : flag01 s f_D;
  wf_I : flag01 s f_I; wf_Z : flag01 s f_Z; wf_C : flag01 s f_C; wf_E : flag01 s f_E }.

Definition opcode_at (s : st) : Z := mem s (get f_RK s * 65536 + get f_PC s) mod 256.

Definition refines_step (s : st) (r : res (word * bool)) : Prop :=
  match r with
  | Panic => False
  | Ok _ s' => abs s' = Spec816.step_state (abs s) (mem s) /\
               (forall a, mem s' a = Spec816.step_mem (abs s) (mem s) a) /\ wf s'
  end.

Lemma spec_fetch0 : forall s, 0 <= get f_RK s < 256 -> 0 <= get f_PC s < 65536 ->
  fetch (abs s) (mem s) 0 = opcode_at s.
Proof.
  intros s Hk Hpc. unfold fetch, byte, ba, w16, opcode_at, abs. cbn [rPBR rPC].
  rewrite Z.add_0_r, (Z.mod_small (get f_PC s)) by lia. reflexivity.
Qed.

Lemma mem_set : forall f v s a, mem (set f v s) a = mem s a.
Proof. reflexivity. Qed.
Lemma mem_log : forall e s a, mem (log e s) a = mem s a.
Proof. reflexivity. Qed.

Ltac gs_norm :=
  repeat first [ rewrite get_set_this | rewrite get_set_other by reflexivity | rewrite get_log
               | rewrite mem_set | rewrite mem_log ].
Ltac to_initial s s1 Hs1 :=
  repeat match goal with |- context [get ?f s1] => rewrite (same_get s s1 f Hs1 eq_refl) end;
  repeat rewrite (proj2 Hs1).

Ltac spec_side s W Hop mn md :=
  unfold Spec816.step_state, Spec816.step_mem, Spec816.step;
  rewrite (spec_fetch0 s (wf_RK s W) (wf_PC s W)), Hop;
  match goal with |- context [decode ?o] => change (decode o) with (mn, md) end;
  cbv beta iota.

Ltac arch_proj := cbn [rA rX rY rS rD rDBR rPBR rPC fN fV fM fX fD fI fZ fC rE rStp ISA.length fst snd].

Ltac abs_goal s W Hop s1 Hs1 Hsz mn md :=
  unfold abs at 1; gs_norm; try rewrite Hsz; to_initial s s1 Hs1;
  spec_side s W Hop mn md; cbv beta iota zeta delta [exec]; arch_proj.
Ltac mem_goal s W Hop s1 Hs1 mn md :=
  intro a; gs_norm; to_initial s s1 Hs1; spec_side s W Hop mn md;
  cbv beta iota zeta delta [exec]; arch_proj.
Ltac wf_goal s W s1 Hs1 Hsz :=
  constructor; unfold flag01; gs_norm; try rewrite Hsz; to_initial s s1 Hs1;
  first [ apply W | (unfold add16; apply Z.mod_pos_bound; lia) | (left; reflexivity) | (right; reflexivity) | idtac ].

Definition refines_op (op : Z) : Prop :=
  forall s, wf s -> get f_E s = 0 -> no_int s -> opcode_at s = op -> refines_step s (Step s).

Ltac start_imp op :=
  let s := fresh "s" in let W := fresh "W" in let HE := fresh "HE" in let Hni := fresh "Hni" in let Hop := fresh "Hop" in
  intros s W HE Hni Hop;
  apply (Step_imp8 s op); [ exact Hni | apply W | apply W | exact Hop | reflexivity | ];
  let s1 := fresh "s1" in let Hs1 := fresh "Hs1" in let Hsz := fresh "Hsz" in
  intros s1 Hs1 Hsz;
  let p := eval cbv beta iota delta [tbl_proc] in (tbl_proc op) in change (tbl_proc op) with p;
  let z := eval cbv beta iota delta [tbl_size] in (tbl_size op) in change (tbl_size op) with z in Hsz.

(* exhaustive check of a boolean predicate on [base, base + 2^n) *)
Fixpoint all_below (n : nat) (base : Z) (P : Z -> bool) : bool :=
  match n with
  | O => P base
  | S k => all_below k base P && all_below k (base + 2 ^ Z.of_nat k) P
  end.
Lemma all_below_sound : forall n base P, all_below n base P = true ->
  forall v, base <= v < base + 2 ^ Z.of_nat n -> P v = true.
Proof.
  induction n as [| k IH]; intros base P H v Hv.
  - cbn in Hv. cbn in H. replace v with base by lia. exact H.
  - cbn [all_below] in H. apply andb_prop in H. destruct H as [H1 H2].
    rewrite Nat2Z.inj_succ, Z.pow_succ_r in Hv by lia.
    destruct (Z.lt_ge_cases v (base + 2 ^ Z.of_nat k)).
    + apply (IH base P H1). lia.
    + apply (IH _ P H2). lia.
Qed.

Lemma sign8 : forall v, 0 <= v < 256 -> negb (w_eqb (w_and v 128) 0) = (128 <=? v).
Proof.
  intros v Hv.
  assert (H : all_below 8 0 (fun v => Bool.eqb (negb (w_eqb (w_and v 128) 0)) (128 <=? v)) = true) by (vm_compute; reflexivity).
  apply Bool.eqb_prop. apply (all_below_sound 8 0 _ H). cbn. lia.
Qed.
Lemma sign16 : forall v, 0 <= v < 65536 -> negb (w_eqb (w_and v 32768) 0) = (32768 <=? v).
Proof.
  intros v Hv.
  assert (H : all_below 16 0 (fun v => Bool.eqb (negb (w_eqb (w_and v 32768) 0)) (32768 <=? v)) = true) by (vm_compute; reflexivity).
  apply Bool.eqb_prop. apply (all_below_sound 16 0 _ H). cbn. lia.
Qed.

Lemma setZN8_ok : forall v s, 0 <= v < 256 ->
  setZN8 v s = Ok tt (set f_N (if 128 <=? v then 1 else 0) (set f_Z (if v =? 0 then 1 else 0) s)).
Proof.
  intros v s Hv. unfold setZN8, setZ8, setN8. unfold w_eqb at 1.
  destruct (v =? 0); cbn [bind]; rewrite (sign8 v Hv); destruct (128 <=? v); reflexivity.
Qed.
Lemma setZN16_ok : forall v s, 0 <= v < 65536 ->
  setZN16 v s = Ok tt (set f_N (if 32768 <=? v then 1 else 0) (set f_Z (if v =? 0 then 1 else 0) s)).
Proof.
  intros v s Hv. unfold setZN16, setZ16, setN16. unfold w_eqb at 1.
  destruct (v =? 0); cbn [bind]; rewrite (sign16 v Hv); destruct (32768 <=? v); reflexivity.
Qed.

Lemma ite_eqb1 : forall b : bool, ((if b then 1 else 0) =? 1) = b.
Proof. destruct b; reflexivity. Qed.

Ltac spec_unfold :=
  unfold xw, mw, xr, yr, acc, with_acc, set_nz, with_A, with_X, with_Y, with_S, with_D, with_DBR, with_PBR, with_PC,
         with_N, with_V, with_M, with_Xf, with_Df, with_I, with_Z, with_C, with_E, with_Stp, abs;
  arch_proj.
Ltac lits :=
  change (0 =? 1) with false; change (1 =? 1) with true; change (w_eqb 0 1) with false; change (w_eqb 1 1) with true;
  cbv iota.

Lemma abs_ext : forall a b, (forall f, archf f = true -> get f a = get f b) -> abs a = abs b.
Proof.
  intros a b H. unfold abs.
  rewrite (H f_RA eq_refl), (H f_RAh eq_refl), (H f_RAl eq_refl), (H f_RX eq_refl), (H f_RXl eq_refl),
          (H f_RY eq_refl), (H f_RYl eq_refl), (H f_SP eq_refl), (H f_RD eq_refl), (H f_RDBR eq_refl),
          (H f_RK eq_refl), (H f_PC eq_refl), (H f_N eq_refl), (H f_V eq_refl), (H f_M eq_refl),
          (H f_X eq_refl), (H f_D eq_refl), (H f_I eq_refl), (H f_Z eq_refl), (H f_C eq_refl),
          (H f_E eq_refl), (H f_Stopped eq_refl).
  reflexivity.
Qed.
Lemma wf_ext : forall a b, (forall f, archf f = true -> get f a = get f b) -> wf b -> wf a.
Proof.
  intros a b H Wb. constructor; unfold flag01;
    match goal with |- context [get ?f a] => rewrite (H f eq_refl) end; apply Wb.
Qed.

Definition advance (sR : st) : st := set f_PC (add16 (get f_PC sR) (get f_stepPC sR)) sR.

Lemma refines_finish : forall s sR,
  abs (advance sR) = Spec816.step_state (abs s) (mem s) ->
  (forall a, mem sR a = Spec816.step_mem (abs s) (mem s) a) ->
  wf (advance sR) ->
  refines_step s (finish sR).
Proof.
  intros s sR Ha Hm Hw. unfold finish.
  set (s12 := set f_AllCycles (add64 (get f_AllCycles sR) (get f_Cycles sR)) sR).
  set (s13 := set f_PC (add16 (get f_PC s12) (get f_stepPC s12)) s12).
  assert (E : forall f, archf f = true -> get f s13 = get f (advance sR)).
  { intros f Hf. unfold s13, s12, advance.
    rewrite (get_set_other f_PC f_AllCycles), (get_set_other f_stepPC f_AllCycles) by reflexivity.
    destruct (N.eqb f f_PC) eqn:Ef.
    - apply N.eqb_eq in Ef. subst f. rewrite !get_set_this. reflexivity.
    - rewrite !(get_set_other f f_PC) by exact Ef.
      assert (N.eqb f f_AllCycles = false) as Ec.
      { destruct (N.eqb f f_AllCycles) eqn:E2; [| reflexivity]. apply N.eqb_eq in E2. subst f. discriminate Hf. }
      rewrite (get_set_other f f_AllCycles) by exact Ec. reflexivity. }
  assert (R : abs s13 = Spec816.step_state (abs s) (mem s) /\
              (forall a, mem s13 a = Spec816.step_mem (abs s) (mem s) a) /\ wf s13).
  { split; [| split].
    - rewrite (abs_ext _ _ E). exact Ha.
    - intro a. unfold s13, s12. rewrite !mem_set. apply Hm.
    - apply (wf_ext _ _ E Hw). }
  destruct (z2b (get f_Stopped s13)); exact R.
Qed.

Ltac finish_split :=
  cbv beta zeta delta [finish];
  match goal with |- refines_step ?s (if ?c then _ else _) => destruct c end;
  cbv beta iota delta [refines_step]; (split; [| split]).

Ltac rng :=
  first [ apply wf_RA | apply wf_RAh | apply wf_RAl | apply wf_RX | apply wf_RXl | apply wf_RY | apply wf_RYl
        | apply wf_SP | apply wf_RD | apply wf_PC | apply wf_RDBR | apply wf_RK ];
  assumption.
Ltac rng8 := first [ rng | (unfold add8, sub8, conv8; apply Z.mod_pos_bound; lia) | lia ].
Ltac rng16 := first [ rng | (unfold add16, sub16, conv16; apply Z.mod_pos_bound; lia) | lia ].

Ltac rw_hyps :=
  repeat match goal with H : get _ _ = _ |- _ => progress rewrite !H end.

(* run a register-only routine down to [Ok tt sR] *)
Ltac run_routine :=
  repeat first [ progress gs_norm
               | rewrite setZN8_ok by rng8
               | rewrite setZN16_ok by rng16
               | rewrite bind_Ok; cbv beta ].

Ltac wf_goal' s W s1 Hs1 Hsz :=
  constructor; unfold flag01; gs_norm; try rewrite Hsz; to_initial s s1 Hs1; rw_hyps;
  first [ apply W | rng8 | rng16 | (left; reflexivity) | (right; reflexivity)
        | match goal with |- (if ?c then 1 else 0) = 0 \/ _ => destruct c; [right | left]; reflexivity end
        | idtac ].

Ltac arith :=
  unfold add8, sub8, conv8, add16, sub16, conv16, w16, w8, wtrunc;
  repeat match goal with
         | W : wf ?s |- context [get ?f ?s mod 65536] => rewrite (Z.mod_small (get f s) 65536) by rng
         | W : wf ?s |- context [get ?f ?s mod 256] => rewrite (Z.mod_small (get f s) 256) by rng
         end.

Ltac reg_op s W Hop s1 Hs1 Hsz mn md :=
  apply refines_finish; unfold advance;
  [ abs_goal s W Hop s1 Hs1 Hsz mn md; spec_unfold; rw_hyps; lits; spec_unfold; unfold wmod, wsgn;
    rewrite ?ite_eqb1; arith; try reflexivity
  | mem_goal s W Hop s1 Hs1 mn md; cbn [apply_writes]; reflexivity
  | wf_goal' s W s1 Hs1 Hsz ].

Ltac by_x s W s1 Hs1 :=
  to_initial s s1 Hs1;
  let Hx := fresh "Hx" in destruct (wf_X s W) as [Hx | Hx]; rewrite ?Hx; lits.

Ltac spec_eval :=
  lazy beta iota zeta delta [exec rmw f_inc f_dec f_asl f_lsr f_rol f_ror oploc set_nz with_A with_X with_Y with_S with_D with_DBR with_PBR with_PC
         with_N with_V with_M with_Xf with_Df with_I with_Z with_C with_E with_Stp xr yr xw mw acc with_acc abs
         rA rX rY rS rD rDBR rPBR rPC fN fV fM fX fD fI fZ fC rE rStp fst snd wmod wsgn ISA.length
         Spec816.step_state Spec816.step_mem].

Lemma join16 : forall h l, 0 <= h < 256 -> 0 <= l < 256 -> w_or (shl16 h 8) l = h * 256 + l.
Proof.
  intros h l Hh Hl. unfold w_or, shl16. rewrite Z.shiftl_mul_pow2 by lia. change (2 ^ 8) with 256.
  rewrite Z.mod_small by lia. change 256 with (2 ^ 8). apply lor_disjoint; lia.
Qed.
Lemma land255 : forall x, 0 <= x -> w_and x 255 = x mod 256.
Proof. intros x Hx. unfold w_and. change 255 with (Z.ones 8). rewrite Z.land_ones by lia. reflexivity. Qed.
Lemma shr8 : forall x, w_shr x 8 = x / 256.
Proof. intros x. unfold w_shr. rewrite Z.shiftr_div_pow2 by lia. reflexivity. Qed.

Lemma xba16 : forall a, 0 <= a < 65536 -> w_or (shl16 a 8) (w_shr a 8) = (a mod 256) * 256 + a / 256.
Proof.
  intros a Ha. rewrite shr8. unfold w_or, shl16. rewrite Z.shiftl_mul_pow2 by lia. change (2 ^ 8) with 256.
  replace ((a * 256) mod 65536) with ((a mod 256) * 256) by (Z.div_mod_to_equations; lia).
  change 256 with (2 ^ 8) at 2. apply lor_disjoint; try lia.
  - change (2 ^ 8) with 256. Z.div_mod_to_equations; lia.
  - Z.div_mod_to_equations; lia.
Qed.

Ltac pose_ranges s W :=
  pose proof (wf_RA s W); pose proof (wf_RAh s W); pose proof (wf_RAl s W); pose proof (wf_RX s W);
  pose proof (wf_RXl s W); pose proof (wf_RY s W); pose proof (wf_RYl s W); pose proof (wf_SP s W);
  pose proof (wf_RD s W); pose proof (wf_PC s W); pose proof (wf_RDBR s W); pose proof (wf_RK s W).

Ltac znorm :=
  rewrite ?shr8;
  repeat match goal with
         | |- context [w_or (shl16 ?a 8) (w_shr ?a 8)] => rewrite (xba16 a) by (assumption || lia)
         | |- context [w_or (shl16 ?h 8) ?l] => rewrite (join16 h l) by (assumption || lia)
         | |- context [w_and ?x 255] => rewrite (land255 x) by lia
         end;
  unfold add8, sub8, conv8, add16, sub16, conv16, w16, w8, wtrunc.
Ltac zarith := znorm; Z.div_mod_to_equations; lia.
Ltac field_goal :=
  first [ reflexivity
        | match goal with |- (?c <=? ?a) = (?c <=? ?b) => replace b with a; [reflexivity | zarith] end
        | match goal with |- (?a =? ?c) = (?b =? ?c) => replace b with a; [reflexivity | zarith] end
        | zarith ].

Ltac run_routine2 s s1 Hs1 :=
  repeat first [ progress gs_norm
               | progress to_initial s s1 Hs1
               | match goal with |- context [w_or (shl16 ?a 8) (w_shr ?a 8)] => rewrite (xba16 a) by (assumption || lia) end
               | match goal with |- context [w_or (shl16 ?h 8) ?l] => rewrite (join16 h l) by (assumption || lia) end
               | rewrite setZN8_ok by rng8
               | rewrite setZN16_ok by rng16
               | rewrite bind_Ok; cbv beta ].

Ltac reg_op2 s W Hop s1 Hs1 Hsz mn md :=
  apply refines_finish; unfold advance;
  [ unfold abs at 1; gs_norm; try rewrite Hsz; to_initial s s1 Hs1;
    spec_side s W Hop mn md; spec_eval; rw_hyps; lits; spec_eval; rewrite ?ite_eqb1;
    try reflexivity; f_equal; field_goal
  | intro a; gs_norm; to_initial s s1 Hs1; spec_side s W Hop mn md; spec_eval; cbn [apply_writes]; reflexivity
  | wf_goal' s W s1 Hs1 Hsz; try zarith ].

Ltac by_flags s W s1 Hs1 HE :=
  to_initial s s1 Hs1; rewrite ?HE;
  (* split only on the width flags the routine actually tests *)
  try (lazymatch goal with |- context [get f_X s] =>
         let Hx := fresh "Hx" in destruct (wf_X s W) as [Hx | Hx]; rewrite ?Hx end);
  try (lazymatch goal with |- context [get f_M s] =>
         let Hm := fresh "Hm" in destruct (wf_M s W) as [Hm | Hm]; rewrite ?Hm end);
  lits.

Ltac reg_only op routine mn md :=
  start_imp op; cbv beta zeta delta [routine b2z];
  match goal with W : wf ?s, HE : get f_E ?s = 0, Hop : opcode_at ?s = _, Hs1 : same ?s ?s1, Hsz : get f_stepPC ?s1 = _ |- _ =>
    by_flags s W s1 Hs1 HE; pose_ranges s W; run_routine2 s s1 Hs1; reg_op2 s W Hop s1 Hs1 Hsz mn md
  end.


(* accumulator-mode instructions (Go mode 4): the routine first tests StepInfo.Mode *)
Ltac start_acc op :=
  let s := fresh "s" in let W := fresh "W" in let HE := fresh "HE" in let Hni := fresh "Hni" in let Hop := fresh "Hop" in
  intros s W HE Hni Hop;
  apply (Step_acc4 s op); [ exact Hni | apply W | apply W | exact Hop | reflexivity | ];
  let s1 := fresh "s1" in let Hs1 := fresh "Hs1" in let Hsz := fresh "Hsz" in let Hmd := fresh "Hmd" in
  intros s1 Hs1 Hsz Hmd;
  let p := eval cbv beta iota delta [tbl_proc] in (tbl_proc op) in change (tbl_proc op) with p;
  let z := eval cbv beta iota delta [tbl_size] in (tbl_size op) in change (tbl_size op) with z in Hsz.

Ltac reg_only_acc op routine mn :=
  start_acc op; cbv beta zeta delta [routine b2z];
  match goal with W : wf ?s, HE : get f_E ?s = 0, Hop : opcode_at ?s = _, Hs1 : same ?s ?s1, Hsz : get f_stepPC ?s1 = _,
                  Hmd : get f_StepInfo_Mode ?s1 = 4 |- _ =>
    rewrite Hmd; change (w_eqb 4 4) with true; cbv iota;
    by_flags s W s1 Hs1 HE; pose_ranges s W; run_routine2 s s1 Hs1; reg_op2 s W Hop s1 Hs1 Hsz mn Acc
  end.
