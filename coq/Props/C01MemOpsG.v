(* C01: instructions with a memory operand, once per mnemonic for all memory addressing modes (LSR ROL ROR).
   snapshot_dep: op_lsr, op_rol, op_ror *)
From Coq Require Import ZArith NArith List Bool Lia.
From Spec Require Import ISA Spec816.
From Lib Require Import ZOps Machine.
From Snapshot Require Import GenFields GenCpu65.
From Props Require Import C01Base C01Shift C01Flow C01Imm C01Mem C01MemLoc C01MemOps C01MemOpsD.
Import ListNotations.
Local Open Scope Z_scope.
Arguments Z.modulo : simpl never.
Arguments Z.lor : simpl never.
Arguments Z.land : simpl never.
Arguments Z.shiftl : simpl never.
Arguments Z.shiftr : simpl never.
Ltac extra_rw ::= repeat shift_rw.

Lemma lsr_mem : forall op, memop op LSR op_lsr -> refines_op op.
Proof. intro op. open_mem op_lsr. - read16. write16. close_op mem_writes. - read8. write8. close_op mem_writes. Qed.
Lemma rol_mem : forall op, memop op ROL op_rol -> refines_op op.
Proof. intro op. open_mem op_rol; first [ (read16; write16) | (read8; write8) ]; close_op mem_writes. Qed.
Lemma ror_mem : forall op, memop op ROR op_ror -> refines_op op.
Proof. intro op. open_mem op_ror; first [ (read16; write16) | (read8; write8) ]; close_op mem_writes. Qed.
