(* C01: relative branches (Go mode 23 = m_PC_Relative): the Step lemma with the operand read and the
   branch target, and the nine rel8 branch instructions. *)
From Coq Require Import ZArith NArith List Bool Lia.
From Spec Require Import ISA Spec816.
From Lib Require Import ZOps Machine.
From Snapshot Require Import GenFields GenCpu65.
From Props Require Import C01Base.
Local Open Scope Z_scope.
Arguments Z.modulo : simpl never.
Arguments Z.lor : simpl never.
Arguments Z.land : simpl never.
Arguments Z.shiftl : simpl never.
Arguments Z.shiftr : simpl never.

Ltac note_facts s' E ::= note_fact f_stepPC s' E; note_fact f_StepInfo_Mode s' E; note_fact f_StepInfo_Addr s' E.

(* operand byte k of the instruction at PBR:PC, as the generated code addresses it *)
Definition operand1 (s : st) : Z := mem s (get f_RK s * 65536 + add16 (get f_PC s) 1) mod 256.
Definition rel8_target (pc o : Z) : Z :=
  if w_ltb o 128 then add16 (add16 pc 2) o else sub16 (add16 (add16 pc 2) o) 256.

Ltac fetch_o1 s :=
  match goal with |- context [nRead (get f_RK ?x) (add16 (get f_PC ?x) 1) ?x] =>
    match goal with H : same s x |- _ =>
      rewrite (same_get s x f_RK H eq_refl), (same_get s x f_PC H eq_refl);
      rewrite nRead_ok by (assumption || (unfold add16; apply Z.mod_pos_bound; lia));
      rewrite bind_Ok; cbv beta; rewrite (proj2 H)
    end end.

Ltac abs_state2 s E :=
  let s' := fresh "sp" in let H := fresh "Hs" in
  pose (s' := E); assert (H : same s s') by (subst s'; same_solver);
  note_facts s' E;
  change E with s'; clearbody s'.

Ltac facts_to_initial s :=
  repeat match goal with
         | H : same s ?x, K : get _ _ = ?v |- _ =>
             lazymatch v with context [get f_PC x] => rewrite (same_get s x f_PC H eq_refl) in K end
         end.

Lemma Step_rel8 : forall s op (Q : res (word * bool) -> Prop),
  no_int s -> 0 <= get f_RK s < 256 -> 0 <= get f_PC s < 65536 ->
  mem s (get f_RK s * 65536 + get f_PC s) mod 256 = op ->
  tbl_mode op = 23 ->
  (forall s1, same s s1 -> get f_stepPC s1 = tbl_size op ->
     get f_StepInfo_Addr s1 = rel8_target (get f_PC s) (operand1 s) ->
     Q (bind (tbl_proc op s1) (fun _ s2 => finish s2))) ->
  Q (Step s).
Proof.
  intros s op Q [Hi2 Hi3] Hk Hpc Hop Hmode HQ.
  assert (H2 : w_eqb (get f_Interrupt s) 2 = false) by (unfold w_eqb; apply Z.eqb_neq; assumption).
  assert (H3 : w_eqb (get f_Interrupt s) 3 = false) by (unfold w_eqb; apply Z.eqb_neq; assumption).
  cbv beta delta [Step].
  head_let s. head_let s. rewrite H2, H3.
  head_let s.
  cbv beta delta [cb_pc]. rewrite bind_Ok. cbv beta.
  match goal with |- context [onpc ?a ?b] => destruct (onpc a b) end.
  - match goal with |- context [log ?e ?x] => abs_state s (log e x) end.
    head_let s. head_let s. fetch_op s Hk Hpc Hop.
    head_let s. rewrite Hmode. head_let s.
    match goal with |- context [log ?e ?x] => abs_state s (log e x) end.
    repeat head_let s.
    mode_chain 23.
    fetch_o1 s. fold (operand1 s).
    match goal with |- context [log ?e ?x] => abs_state2 s (log e x) end.
    head_let s.
    unfold rel8_target in HQ.
    destruct (w_ltb (operand1 s) 128);
    repeat first [ head_let s | match goal with |- ?Q' (if ?c then _ else _) => destruct c end ];
    facts_to_initial s; apply HQ; assumption.
  - head_let s. head_let s. fetch_op s Hk Hpc Hop.
    head_let s. rewrite Hmode. head_let s.
    match goal with |- context [log ?e ?x] => abs_state s (log e x) end.
    repeat head_let s.
    mode_chain 23.
    fetch_o1 s. fold (operand1 s).
    match goal with |- context [log ?e ?x] => abs_state2 s (log e x) end.
    head_let s.
    unfold rel8_target in HQ.
    destruct (w_ltb (operand1 s) 128);
    repeat first [ head_let s | match goal with |- ?Q' (if ?c then _ else _) => destruct c end ];
    facts_to_initial s; apply HQ; assumption.
Qed.

Ltac start_rel op :=
  let s := fresh "s" in let W := fresh "W" in let HE := fresh "HE" in let Hni := fresh "Hni" in let Hop := fresh "Hop" in
  intros s W HE Hni Hop;
  apply (Step_rel8 s op); [ exact Hni | apply W | apply W | exact Hop | reflexivity | ];
  let s1 := fresh "s1" in let Hs1 := fresh "Hs1" in let Hsz := fresh "Hsz" in let Haddr := fresh "Haddr" in
  intros s1 Hs1 Hsz Haddr;
  let p := eval cbv beta iota delta [tbl_proc] in (tbl_proc op) in change (tbl_proc op) with p;
  let z := eval cbv beta iota delta [tbl_size] in (tbl_size op) in change (tbl_size op) with z in Hsz.

Ltac lits ::=
  change (0 =? 1) with false; change (1 =? 1) with true; change (w_eqb 0 1) with false; change (w_eqb 1 1) with true;
  change (w_eqb 0 0) with true; change (w_eqb 1 0) with false;
  cbv iota.

Ltac split_N s W := try (lazymatch goal with |- context [get f_N s] => let H := fresh "Hf" in destruct (wf_N s W) as [H | H]; rewrite ?H end).
Ltac split_V s W := try (lazymatch goal with |- context [get f_V s] => let H := fresh "Hf" in destruct (wf_V s W) as [H | H]; rewrite ?H end).
Ltac split_Z s W := try (lazymatch goal with |- context [get f_Z s] => let H := fresh "Hf" in destruct (wf_Z s W) as [H | H]; rewrite ?H end).
Ltac split_C s W := try (lazymatch goal with |- context [get f_C s] => let H := fresh "Hf" in destruct (wf_C s W) as [H | H]; rewrite ?H end).

Ltac spec_eval ::=
  lazy beta iota zeta delta [exec rmw f_inc f_dec f_asl f_lsr f_rol f_ror oploc set_nz with_A with_X with_Y with_S with_D with_DBR with_PBR with_PC
         with_N with_V with_M with_Xf with_Df with_I with_Z with_C with_E with_Stp xr yr xw mw acc with_acc abs Spec816.b2z
         rA rX rY rS rD rDBR rPBR rPC fN fV fM fX fD fI fZ fC rE rStp fst snd wmod wsgn ISA.length negb
         Spec816.step_state Spec816.step_mem].

Ltac znorm ::=
  rewrite ?shr8;
  repeat match goal with
         | |- context [w_or (shl16 ?a 8) (w_shr ?a 8)] => rewrite (xba16 a) by (assumption || lia)
         | |- context [w_or (shl16 ?h 8) ?l] => rewrite (join16 h l) by (assumption || lia)
         | |- context [w_and ?x 255] => rewrite (land255 x) by lia
         end;
  unfold rel8_target, operand1, sext8, fetch, byte, ba, w_ltb; arch_proj;
  unfold add8, sub8, conv8, add16, sub16, conv16, w16, w8, wtrunc;
  repeat match goal with |- context [?a <? 128] => destruct (a <? 128) end.

(* a routine of the model called at the head of a bind for which nothing is known here (e.g. a private helper a maintainer
   extracted from the branch routines): unfold it, delta only, and re-normalise *)
Ltac helper_norm :=
  repeat match goal with |- context [bind (?h ?x) _] => is_const h; cbv delta [h]; cbv beta zeta end.

Ltac branch_op op routine mn :=
  start_rel op; cbv beta zeta delta [routine addBranchCycles b2z]; helper_norm;
  match goal with W : wf ?s, HE : get f_E ?s = 0, Hop : opcode_at ?s = _, Hs1 : same ?s ?s1, Hsz : get f_stepPC ?s1 = _ |- _ =>
    to_initial s s1 Hs1; split_N s W; split_V s W; split_Z s W; split_C s W; lits;
    repeat match goal with |- context [if pagesDiffer ?a ?b then _ else _] => destruct (pagesDiffer a b) end;
    pose_ranges s W; run_routine2 s s1 Hs1; reg_op2 s W Hop s1 Hs1 Hsz mn Rel8
  end.

Lemma ref_10 : refines_op 16. Proof. branch_op 16 op_bpl BPL. Qed.
Lemma ref_30 : refines_op 48. Proof. branch_op 48 op_bmi BMI. Qed.
Lemma ref_50 : refines_op 80. Proof. branch_op 80 op_bvc BVC. Qed.
Lemma ref_70 : refines_op 112. Proof. branch_op 112 op_bvs BVS. Qed.
Lemma ref_80 : refines_op 128. Proof. branch_op 128 op_bra BRA. Qed.
Lemma ref_90 : refines_op 144. Proof. branch_op 144 op_bcc BCC. Qed.
Lemma ref_B0 : refines_op 176. Proof. branch_op 176 op_bcs BCS. Qed.
Lemma ref_D0 : refines_op 208. Proof. branch_op 208 op_bne BNE. Qed.
Lemma ref_F0 : refines_op 240. Proof. branch_op 240 op_beq BEQ. Qed.
