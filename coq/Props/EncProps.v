(* EncProps: property C03 -- every instruction method of *asm.Emitter appends the canonical 65816
   encoding of the instruction it is named after.

   The theorems are generic in the descriptor: they hold for ANY descriptor d that passes the boolean
   check [desc_ok] (computed per run, by vm_compute, on the descriptors regenerated from the Go source),
   for ALL argument values in the range of the Go parameter types and ALL tracked flag bytes.  Operand
   packing (imm16 / imm24, byte(x >> k)) is proved with div/mod arithmetic, nothing is enumerated. *)
From Coq Require Import ZArith List String Bool Lia.
Import ListNotations.
From Spec Require Import EmitSpec.
From Model Require Import EmitDesc.
Local Open Scope string_scope.
Local Open Scope Z_scope.

(* ------------------------------------------------------------------ the per-descriptor check *)
Definition bexp_eqb (a b : bexp) : bool :=
  match a, b with
  | BConst x, BConst y => x =? y
  | BPar i k, BPar j l => Nat.eqb i j && (k =? l)
  | _, _ => false
  end.

Fixpoint bexps_eqb (a b : list bexp) : bool :=
  match a, b with
  | [], [] => true
  | x :: a', y :: b' => bexp_eqb x y && bexps_eqb a' b'
  | _, _ => false
  end.

Definition guard_eqb (a b : guard) : bool :=
  match a, b with
  | GNone, GNone | GPanicIfM16, GPanicIfM16 | GPanicIfM8, GPanicIfM8
  | GPanicIfX16, GPanicIfX16 | GPanicIfX8, GPanicIfX8 => true
  | _, _ => false
  end.

Definition effect_eqb (a b : effect) : bool :=
  match a, b with
  | ENone, ENone => true
  | ERep i, ERep j | ESep i, ESep j => Nat.eqb i j
  | _, _ => false
  end.

(* an immediate method must refuse exactly the wrong width *)
Definition expected_guard (w : wreq) : guard :=
  match w with
  | WAny => GNone | WM8 => GPanicIfM16 | WM16 => GPanicIfM8 | WX8 => GPanicIfX16 | WX16 => GPanicIfX8
  end.

(* REP / SEP keep the tracker in step with the instruction they assemble *)
Definition expected_effect (mn : string) : effect :=
  if String.eqb mn "REP" then ERep 0 else if String.eqb mn "SEP" then ESep 0 else ENone.

Definition bools4 : list (bool * bool) := [(true, true); (true, false); (false, true); (false, false)].

(* the operand bytes, low byte first, as expressions over the parameters *)
Definition operand_exprs (lay : layout) : list bexp :=
  match lay with
  | LNone => []
  | LVal n => firstn n [BPar 0 0; BPar 0 8; BPar 0 16]
  | LSplit n => firstn n [BPar 0 0; BPar 1 0; BPar 2 0]
  | LBlock di si => [BPar di 0; BPar si 0]
  | LLabel _ => []
  end.

Definition lay_size (lay : layout) : Z :=
  match lay with
  | LNone => 0
  | LVal n | LSplit n | LLabel n => Z.of_nat n
  | LBlock _ _ => 2
  end.

Definition lay_params_ok (lay : layout) (ps : list pty) : bool :=
  match lay, ps with
  | LNone, [] => true
  | LVal 1, [TU8] | LVal 1, [TI8] | LVal 1, [TFlags] => true
  | LVal 2, [TU16] => true
  | LVal 3, [TU32] => true
  | LSplit 2, [TU8; TU8] => true
  | LSplit 3, [TU8; TU8; TU8] => true
  | LBlock 0 1, [TU8; TU8] | LBlock 1 0, [TU8; TU8] => true
  | LLabel 1, [TLabel] | LLabel 2, [TLabel] => true
  | _, _ => false
  end.

Fixpoint const_bytes (l : list bexp) : option (list Z) :=
  match l with
  | [] => Some []
  | BConst v :: r =>
      if (0 <=? v) && (v <? 256)
      then match const_bytes r with Some cs => Some (v :: cs) | None => None end
      else None
  | _ => None
  end.

Definition label_code (lay : layout) : Z :=
  match lay with LLabel 1 => 1 | LLabel 2 => 2 | _ => 0 end.

(* the operand value the canonical encoding is taken of *)
Definition operand_of (lay : layout) (d : desc) (args : list Z) : Z :=
  match lay with
  | LNone => 0
  | LVal n => arg args 0 mod 2 ^ (8 * Z.of_nat n)       (* a 24-bit address ignores bits 24..31 of the uint32 *)
  | LSplit n => le_value (firstn n [arg args 0; arg args 1; arg args 2])
  | LBlock di si => arg args di + 256 * arg args si      (* destination bank is the FIRST operand byte *)
  | LLabel _ => match const_bytes (tl (d_bytes d)) with Some cs => le_value cs | None => 0 end
  end.

Definition kind_ok (ks : list ekind) (d : desc) (total label : Z) : bool :=
  match find_kind ks (d_kind d) with
  | Some k => (k_arr k =? total) && (k_written k =? total) && (k_adv k =? total) && (k_label k =? label)
  | None => false
  end.

Definition effect_lay_ok (mn : string) (lay : layout) : bool :=
  match expected_effect mn with
  | ENone => true
  | _ => match lay with LVal 1 => true | _ => false end
  end.

(* a method whose name follows the convention *)
Definition conv_ok (ks : list ekind) (d : desc) (mg : meaning) : bool :=
  match opcode_of (mg_mn mg) (mg_mode mg) with
  | None => false
  | Some opc =>
      let n := lay_size (mg_lay mg) in
      lay_params_ok (mg_lay mg) (d_ptys d)
      && (match mg_lay mg with
          | LLabel _ =>
              match d_bytes d with
              | BConst o :: r => (o =? opc) && match const_bytes r with Some cs => zlength cs =? n | None => false end
              | _ => false
              end
          | _ => bexps_eqb (d_bytes d) (BConst opc :: operand_exprs (mg_lay mg))
          end)
      && guard_eqb (d_guard d) (expected_guard (mg_w mg))
      && effect_eqb (d_effect d) (expected_effect (mg_mn mg))
      && effect_lay_ok (mg_mn mg) (mg_lay mg)
      && forallb (fun mx => wrong_width_b (mg_w mg) (fst mx) (snd mx)
                            || (n =? opsize (mg_mode mg) (fst mx) (snd mx))) bools4
      && kind_ok ks d (1 + n) (label_code (mg_lay mg))
  end.

(* a method whose suffix is not in the convention: mnemonic, length, decode round trip only *)
Definition weak_ok (ks : list ekind) (d : desc) : bool :=
  match d_bytes d with
  | BConst opc :: ops =>
      match isa_entry opc with
      | Some (mn, mode) =>
          mn_eqb (mnemonic_of (d_name d)) mn
          && forallb (fun mx => panics_b (d_guard d) (fst mx) (snd mx)
                                || (zlength ops =? opsize mode (fst mx) (snd mx))) bools4
          && kind_ok ks d (1 + zlength ops) (match find_kind ks (d_kind d) with Some k => k_label k | None => 0 end)
      | None => false
      end
  | _ => false
  end.

Definition desc_ok (ks : list ekind) (d : desc) : bool :=
  match meaning_of (d_name d) (d_pnames d) (d_ptys d) with
  | Some mg => conv_ok ks d mg
  | None => weak_ok ks d
  end.

Definition conventional (d : desc) : bool :=
  match meaning_of (d_name d) (d_pnames d) (d_ptys d) with Some _ => true | None => false end.

Definition tracker_ok (tk : tracker) : bool := (tk_m tk =? flag_m) && (tk_x tk =? flag_x).

(* arguments within the range of the Go parameter types *)
Definition args_ok (d : desc) (args : list Z) : Prop :=
  Forall2 (fun t a => pty_lo t <= a < pty_hi t) (d_ptys d) args.

(* ------------------------------------------------------------------ boolean reflection *)
Lemma bexp_eqb_eq : forall a b, bexp_eqb a b = true -> a = b.
Proof.
  intros [x|i k] [y|j l] H; simpl in H; try discriminate.
  - apply Z.eqb_eq in H. congruence.
  - apply andb_true_iff in H. destruct H as [H1 H2].
    apply Nat.eqb_eq in H1. apply Z.eqb_eq in H2. congruence.
Qed.

Lemma bexps_eqb_eq : forall a b, bexps_eqb a b = true -> a = b.
Proof.
  induction a as [|x a IH]; intros [|y b] H; simpl in H; try discriminate; [reflexivity|].
  apply andb_true_iff in H. destruct H as [H1 H2].
  apply bexp_eqb_eq in H1. apply IH in H2. congruence.
Qed.

Lemma guard_eqb_eq : forall a b, guard_eqb a b = true -> a = b.
Proof. intros [] [] H; simpl in H; try discriminate; reflexivity. Qed.

Lemma effect_eqb_eq : forall a b, effect_eqb a b = true -> a = b.
Proof.
  intros [|i|i] [|j|j] H; simpl in H; try discriminate; try reflexivity;
    apply Nat.eqb_eq in H; congruence.
Qed.

Lemma amode_eqb_eq : forall a b, amode_eqb a b = true -> a = b.
Proof. intros [] [] H; simpl in H; try discriminate; reflexivity. Qed.

Lemma bools4_all : forall (f : bool * bool -> bool), forallb f bools4 = true -> forall m x, f (m, x) = true.
Proof.
  intros f H m x. simpl in H.
  repeat (apply andb_true_iff in H; destruct H as [? H]).
  destruct m, x; assumption.
Qed.

(* ------------------------------------------------------------------ the opcode matrix *)
Lemma zlength_cons : forall A (x : A) l, zlength (x :: l) = 1 + zlength l.
Proof. intros. unfold zlength. cbn [List.length]. lia. Qed.
Lemma zlength_nonneg : forall A (l : list A), 0 <= zlength l.
Proof. intros. unfold zlength. lia. Qed.

Lemma find_op_sound : forall l base mn m op,
  find_op l base mn m = Some op ->
  exists mn', nth_error l (Z.to_nat (op - base)) = Some (mn', m) /\ mn_eqb mn mn' = true
              /\ base <= op < base + zlength l.
Proof.
  induction l as [|[mn0 m0] l IH]; intros base mn m op H; cbn [find_op] in H; [discriminate|].
  rewrite zlength_cons. pose proof (zlength_nonneg _ l) as Hnn.
  destruct (mn_eqb mn mn0 && amode_eqb m m0) eqn:E.
  - inversion H; subst op. apply andb_true_iff in E. destruct E as [E1 E2].
    apply amode_eqb_eq in E2. subst m0.
    exists mn0. replace (base - base) with 0 by lia. cbn [Z.to_nat nth_error].
    split; [reflexivity|]. split; [exact E1|]. lia.
  - apply IH in H. destruct H as [mn' [H1 [H2 H3]]].
    exists mn'. split; [|split; [exact H2 | lia]].
    replace (Z.to_nat (op - base)) with (S (Z.to_nat (op - (base + 1)))) by lia. exact H1.
Qed.

Lemma isa_length : zlength isa = 256.
Proof. reflexivity. Qed.

Lemma opcode_of_sound : forall mn m opc,
  opcode_of mn m = Some opc ->
  exists mn', isa_entry opc = Some (mn', m) /\ mn_eqb mn mn' = true /\ 0 <= opc < 256.
Proof.
  intros mn m opc H. unfold opcode_of in H. apply find_op_sound in H.
  destruct H as [mn' [H1 [H2 H3]]]. rewrite isa_length in H3.
  exists mn'. repeat split; try assumption; try lia.
  unfold isa_entry.
  replace ((opc <? 0) || (255 <? opc)) with false.
  - replace (opc - 0) with opc in H1 by lia. exact H1.
  - symmetry. apply orb_false_iff. split; [apply Z.ltb_ge | apply Z.ltb_ge]; lia.
Qed.

(* ------------------------------------------------------------------ little-endian packing *)
Lemma le_bytes_length : forall n v, List.length (le_bytes n v) = n.
Proof. induction n as [|n IH]; intro v; simpl; [reflexivity | now rewrite IH]. Qed.

Lemma pow8_S : forall n, 2 ^ (8 * Z.of_nat (S n)) = 256 * 2 ^ (8 * Z.of_nat n).
Proof.
  intro n. replace (8 * Z.of_nat (S n)) with (8 + 8 * Z.of_nat n) by lia.
  rewrite Z.pow_add_r by lia. reflexivity.
Qed.

(* decoding the little-endian bytes of v gives v back, for every v that fits in n bytes *)
Lemma le_value_le_bytes : forall n v, 0 <= v < 2 ^ (8 * Z.of_nat n) -> le_value (le_bytes n v) = v.
Proof.
  induction n as [|n IH]; intros v Hv.
  - simpl in *. lia.
  - rewrite pow8_S in Hv. cbn [le_bytes le_value].
    rewrite IH.
    + pose proof (Z.div_mod v 256). lia.
    + split.
      * apply Z.div_pos; lia.
      * apply Z.div_lt_upper_bound; lia.
Qed.

Lemma firstn_app_exact : forall A (l r : list A) n, List.length l = n -> firstn n (l ++ r) = l.
Proof.
  intros A l r n H. subst n. induction l as [|x l IH]; simpl; [destruct r; reflexivity|].
  now rewrite IH.
Qed.

(* the independent decoder inverts the canonical encoding *)
Lemma decode_encode : forall m16 x16 opc mn m n v rest,
  isa_entry opc = Some (mn, m) ->
  opsize m m16 x16 = Z.of_nat n ->
  0 <= v < 2 ^ (8 * Z.of_nat n) ->
  decode m16 x16 (encode opc (Z.of_nat n) v ++ rest) = Some (mn, m, v, 1 + Z.of_nat n).
Proof.
  intros m16 x16 opc mn m n v rest Hi Hs Hv.
  unfold encode. rewrite Nat2Z.id. cbn [app decode]. rewrite Hi, Hs.
  replace (zlength (le_bytes n v ++ rest) <? Z.of_nat n) with false.
  - rewrite Nat2Z.id, firstn_app_exact by apply le_bytes_length.
    now rewrite le_value_le_bytes.
  - symmetry. apply Z.ltb_ge. unfold zlength. rewrite app_length, le_bytes_length. lia.
Qed.

(* byte(x), byte(x >> 8), byte(x >> 16) are the little-endian bytes of x mod 2^(8n) *)
Lemma pack1 : forall a, [(a / 2 ^ 0) mod 256] = le_bytes 1 (a mod 2 ^ (8 * Z.of_nat 1)).
Proof.
  intro a. change (2 ^ 0) with 1. change (2 ^ (8 * Z.of_nat 1)) with 256. cbn [le_bytes].
  f_equal. rewrite Z.div_1_r. now rewrite Z.mod_mod.
Qed.

Local Ltac Zify.zify_post_hook ::= Z.div_mod_to_equations.

Lemma pack2 : forall a, [(a / 2 ^ 0) mod 256; (a / 2 ^ 8) mod 256] = le_bytes 2 (a mod 2 ^ (8 * Z.of_nat 2)).
Proof.
  intro a. change (2 ^ 0) with 1. change (2 ^ 8) with 256. change (2 ^ (8 * Z.of_nat 2)) with 65536.
  cbn [le_bytes]. repeat (apply (f_equal2 (@cons Z)); [lia|]); reflexivity.
Qed.

Lemma pack3 : forall a,
  [(a / 2 ^ 0) mod 256; (a / 2 ^ 8) mod 256; (a / 2 ^ 16) mod 256] = le_bytes 3 (a mod 2 ^ (8 * Z.of_nat 3)).
Proof.
  intro a. change (2 ^ 0) with 1. change (2 ^ 8) with 256. change (2 ^ 16) with 65536.
  change (2 ^ (8 * Z.of_nat 3)) with 16777216.
  cbn [le_bytes]. repeat (apply (f_equal2 (@cons Z)); [lia|]); reflexivity.
Qed.

Lemma split2 : forall a b, 0 <= a < 256 -> 0 <= b < 256 ->
  [(a / 2 ^ 0) mod 256; (b / 2 ^ 0) mod 256] = le_bytes 2 (a + 256 * (b + 256 * 0)).
Proof.
  intros a b Ha Hb. change (2 ^ 0) with 1. cbn [le_bytes]. repeat (apply (f_equal2 (@cons Z)); [lia|]); reflexivity.
Qed.

Lemma split3 : forall a b c, 0 <= a < 256 -> 0 <= b < 256 -> 0 <= c < 256 ->
  [(a / 2 ^ 0) mod 256; (b / 2 ^ 0) mod 256; (c / 2 ^ 0) mod 256]
  = le_bytes 3 (a + 256 * (b + 256 * (c + 256 * 0))).
Proof.
  intros a b c Ha Hb Hc. change (2 ^ 0) with 1. cbn [le_bytes]. repeat (apply (f_equal2 (@cons Z)); [lia|]); reflexivity.
Qed.

Lemma const_bytes_sound : forall l cs, const_bytes l = Some cs ->
  l = map BConst cs /\ Forall (fun v => 0 <= v < 256) cs.
Proof.
  induction l as [|[v|i k] l IH]; intros cs H; simpl in H; try discriminate.
  - inversion H. split; [reflexivity | constructor].
  - destruct ((0 <=? v) && (v <? 256)) eqn:E; [|discriminate].
    destruct (const_bytes l) as [cs'|] eqn:E'; [|discriminate].
    inversion H; subst cs. destruct (IH cs' eq_refl) as [IH1 IH2].
    apply andb_true_iff in E. destruct E as [E1 E2]. apply Z.leb_le in E1. apply Z.ltb_lt in E2.
    split; [simpl; congruence | constructor; [lia | assumption]].
Qed.

Lemma le_bytes_le_value : forall cs, Forall (fun v => 0 <= v < 256) cs ->
  le_bytes (List.length cs) (le_value cs) = cs /\ 0 <= le_value cs < 2 ^ (8 * Z.of_nat (List.length cs)).
Proof.
  induction 1 as [|v cs Hv _ IH].
  - simpl. split; [reflexivity | lia].
  - destruct IH as [IH1 IH2]. cbn [List.length]. rewrite pow8_S. cbn [le_bytes le_value]. split.
    + f_equal.
      * lia.
      * replace ((v + 256 * le_value cs) / 256) with (le_value cs) by lia. exact IH1.
    + lia.
Qed.

(* ------------------------------------------------------------------ C03, conventional names *)
(* what is claimed about one call that is not refused *)
Definition canonical_call (tk : tracker) (ks : list ekind) (d : desc) (mg : meaning) (args : list Z) (fl : Z) : Prop :=
  exists opc,
    opcode_of (mg_mn mg) (mg_mode mg) = Some opc /\
    let m16 := is_m16 fl in
    let x16 := is_x16 fl in
    let n := opsize (mg_mode mg) m16 x16 in
    let len := ilen (mg_mode mg) m16 x16 in
    let v := operand_of (mg_lay mg) d args in
    (* exactly the canonical bytes: opcode, operand little-endian *)
    emit_bytes d args = encode opc n v /\
    0 <= v < 2 ^ (8 * n) /\
    (* architectural length; Len() and PC() advance by it; the tracker follows REP/SEP *)
    zlength (emit_bytes d args) = len /\
    run tk ks d args fl = OOk (emit_bytes d args) len len (spec_flags_after (mg_mn mg) v fl) /\
    (* the independent decoder gives mnemonic, mode, operand and length back *)
    forall rest, exists mn',
      decode m16 x16 (emit_bytes d args ++ rest) = Some (mn', mg_mode mg, v, len) /\
      mn_eqb (mg_mn mg) mn' = true.

Lemma args1 : forall t (args : list Z) (P : pty -> Z -> Prop), Forall2 P [t] args -> exists a, args = [a] /\ P t a.
Proof.
  intros t args P H. inversion H as [|? a ? l' Ha Hl]; subst. inversion Hl; subst. eauto.
Qed.

Lemma args2 : forall t u (args : list Z) (P : pty -> Z -> Prop), Forall2 P [t; u] args ->
  exists a b, args = [a; b] /\ P t a /\ P u b.
Proof.
  intros t u args P H. inversion H as [|? a ? l' Ha Hl]; subst.
  apply args1 in Hl. destruct Hl as [b [-> Hb]]. eauto.
Qed.

Lemma args3 : forall t u w (args : list Z) (P : pty -> Z -> Prop), Forall2 P [t; u; w] args ->
  exists a b c, args = [a; b; c] /\ P t a /\ P u b /\ P w c.
Proof.
  intros t u w args P H. inversion H as [|? a ? l' Ha Hl]; subst.
  apply args2 in Hl. destruct Hl as [b [c [-> [Hb Hc]]]]. exists a, b, c. repeat split; assumption.
Qed.

Ltac ptys_cases d Hp :=
  destruct (d_ptys d) as [|?t [|?u [|?w [|? ?]]]]; simpl in Hp; try discriminate;
  repeat match goal with t : pty |- _ => destruct t; simpl in Hp; try discriminate end.

(* the bytes and the operand range, layout by layout *)
Lemma layout_bytes : forall d lay opc args sz,
  sz = lay_size lay ->
  lay_params_ok lay (d_ptys d) = true ->
  (match lay with
   | LLabel _ =>
       match d_bytes d with
       | BConst o :: r => (o =? opc) && match const_bytes r with Some cs => zlength cs =? sz | None => false end
       | _ => false
       end
   | _ => bexps_eqb (d_bytes d) (BConst opc :: operand_exprs lay)
   end) = true ->
  args_ok d args ->
  exists n, lay_size lay = Z.of_nat n /\
    emit_bytes d args = opc :: le_bytes n (operand_of lay d args) /\
    0 <= operand_of lay d args < 2 ^ (8 * Z.of_nat n).
Proof.
  intros d lay opc args sz Hsz Hp Hb Ha. subst sz. unfold args_ok in Ha. unfold emit_bytes.
  destruct lay as [|n|n|di si|n].
  - (* no operand *)
    apply bexps_eqb_eq in Hb. rewrite Hb. exists 0%nat. simpl. repeat split; lia.
  - (* one parameter, n low bytes *)
    apply bexps_eqb_eq in Hb. rewrite Hb.
    destruct n as [|[|[|[|n]]]]; try discriminate.
    + ptys_cases d Hp;
        (apply args1 in Ha; destruct Ha as [a [-> Hr]];
         exists 1%nat; cbn [lay_size operand_exprs firstn map eval_b arg nth operand_of];
         split; [reflexivity|]; split;
         [ f_equal; apply pack1
         | change (2 ^ (8 * Z.of_nat 1)) with 256; apply Z.mod_pos_bound; lia ]).
    + ptys_cases d Hp;
        (apply args1 in Ha; destruct Ha as [a [-> Hr]];
         exists 2%nat; cbn [lay_size operand_exprs firstn map eval_b arg nth operand_of];
         split; [reflexivity|]; split;
         [ f_equal; apply pack2
         | change (2 ^ (8 * Z.of_nat 2)) with 65536; apply Z.mod_pos_bound; lia ]).
    + ptys_cases d Hp;
        (apply args1 in Ha; destruct Ha as [a [-> Hr]];
         exists 3%nat; cbn [lay_size operand_exprs firstn map eval_b arg nth operand_of];
         split; [reflexivity|]; split;
         [ f_equal; apply pack3
         | change (2 ^ (8 * Z.of_nat 3)) with 16777216; apply Z.mod_pos_bound; lia ]).
  - (* n byte parameters *)
    apply bexps_eqb_eq in Hb. rewrite Hb.
    destruct n as [|[|[|[|n]]]]; try discriminate.
    + ptys_cases d Hp.
      apply args2 in Ha. destruct Ha as [a [b [-> [Hra Hrb]]]]. simpl in Hra, Hrb.
      exists 2%nat. cbn [lay_size operand_exprs firstn map eval_b arg nth operand_of le_value].
      split; [reflexivity|]. split.
      * f_equal. apply split2; lia.
      * change (2 ^ (8 * Z.of_nat 2)) with 65536. lia.
    + ptys_cases d Hp.
      apply args3 in Ha. destruct Ha as [a [b [c [-> [Hra [Hrb Hrc]]]]]]. simpl in Hra, Hrb, Hrc.
      exists 3%nat. cbn [lay_size operand_exprs firstn map eval_b arg nth operand_of le_value].
      split; [reflexivity|]. split.
      * f_equal. apply split3; lia.
      * change (2 ^ (8 * Z.of_nat 3)) with 16777216. lia.
  - (* block move *)
    apply bexps_eqb_eq in Hb. rewrite Hb.
    assert (Hps : d_ptys d = [TU8; TU8] /\ ((di = 0%nat /\ si = 1%nat) \/ (di = 1%nat /\ si = 0%nat))).
    { simpl in Hp.
      destruct di as [|[|di]]; destruct si as [|[|si]]; try discriminate;
        destruct (d_ptys d) as [|t [|u [|? ?]]]; try discriminate;
        destruct t; try discriminate; destruct u; try discriminate; split; auto. }
    destruct Hps as [Et Hds]. rewrite Et in Ha.
    apply args2 in Ha. destruct Ha as [a [b [-> [Hra Hrb]]]]. simpl in Hra, Hrb.
    exists 2%nat. split; [reflexivity|].
    destruct Hds as [[-> ->] | [-> ->]];
      cbn [operand_exprs map eval_b arg nth operand_of]; change (2 ^ 0) with 1;
      change (2 ^ (8 * Z.of_nat 2)) with 65536; cbn [le_bytes]; (split; [f_equal; repeat (apply (f_equal2 (@cons Z)); [lia|]); reflexivity | lia]).
  - (* label: placeholder bytes *)
    destruct (d_bytes d) as [|[o|? ?] r] eqn:Eb; try discriminate.
    apply andb_true_iff in Hb. destruct Hb as [Ho Hc]. apply Z.eqb_eq in Ho. subst o.
    destruct (const_bytes r) as [cs|] eqn:Ec; [|discriminate].
    apply Z.eqb_eq in Hc. simpl in Hc.
    destruct (const_bytes_sound _ _ Ec) as [Hr Hall]. subst r.
    destruct (le_bytes_le_value cs Hall) as [H1 H2].
    exists (List.length cs). unfold zlength in Hc.
    split; [simpl; lia|].
    cbn [operand_of]. rewrite Eb. cbn [tl]. rewrite Ec. cbn [map eval_b]. split.
    + f_equal. rewrite map_map. cbn [eval_b]. rewrite map_id. symmetry. exact H1.
    + exact H2.
Qed.

Lemma tracker_ok_is16 : forall tk fl, tracker_ok tk = true ->
  is16 (tk_m tk) fl = is_m16 fl /\ is16 (tk_x tk) fl = is_x16 fl.
Proof.
  intros tk fl H. unfold tracker_ok in H. apply andb_true_iff in H. destruct H as [H1 H2].
  apply Z.eqb_eq in H1. apply Z.eqb_eq in H2. unfold is16, is_m16, is_x16. now rewrite H1, H2.
Qed.

Lemma expected_guard_panics : forall w m16 x16, panics_b (expected_guard w) m16 x16 = wrong_width_b w m16 x16.
Proof. intros [] m16 x16; reflexivity. Qed.

Theorem emit_canonical : forall tk ks d mg,
  tracker_ok tk = true ->
  conv_ok ks d mg = true ->
  forall args fl, args_ok d args ->
    (* refused exactly under the wrong tracked width *)
    panics tk d fl = wrong_width (mg_w mg) fl /\
    (panics tk d fl = false -> canonical_call tk ks d mg args fl).
Proof.
  intros tk ks d mg Htk Hok args fl Hargs.
  unfold conv_ok in Hok.
  destruct (opcode_of (mg_mn mg) (mg_mode mg)) as [opc|] eqn:Eop; [|discriminate].
  repeat (apply andb_true_iff in Hok; destruct Hok as [Hok ?]).
  rename Hok into Hlay, H into Hkind, H0 into Hsize, H1 into Hel, H2 into Heff, H3 into Hguard, H4 into Hbytes.
  apply guard_eqb_eq in Hguard. apply effect_eqb_eq in Heff.
  destruct (tracker_ok_is16 tk fl Htk) as [Hm Hx].
  assert (Hpan : panics tk d fl = wrong_width (mg_w mg) fl).
  { unfold panics, wrong_width. rewrite Hguard, Hm, Hx. apply expected_guard_panics. }
  split; [exact Hpan|]. intro Hnp.
  destruct (layout_bytes d (mg_lay mg) opc args (lay_size (mg_lay mg)) eq_refl Hlay Hbytes Hargs) as [n [Hn [Hemit Hrange]]].
  pose proof (bools4_all _ Hsize (is_m16 fl) (is_x16 fl)) as Hsz. cbn [fst snd] in Hsz.
  rewrite Hnp in Hpan. unfold wrong_width in Hpan. rewrite <- Hpan in Hsz. cbn [orb] in Hsz.
  apply Z.eqb_eq in Hsz. rewrite Hn in Hsz.
  destruct (opcode_of_sound _ _ _ Eop) as [mn' [Hisa [Hmn Hopc]]].
  exists opc. split; [exact Eop|]. cbv zeta.
  unfold ilen. rewrite <- Hsz.
  assert (Henc : emit_bytes d args = encode opc (Z.of_nat n) (operand_of (mg_lay mg) d args)).
  { unfold encode. rewrite Nat2Z.id. exact Hemit. }
  split; [exact Henc|]. split; [exact Hrange|]. split.
  { rewrite Hemit. unfold zlength. cbn [List.length]. rewrite le_bytes_length. lia. }
  split.
  { unfold run. rewrite Hnp. unfold kind_ok in Hkind.
    destruct (find_kind ks (d_kind d)) as [k|]; [|discriminate].
    repeat (apply andb_true_iff in Hkind; destruct Hkind as [Hkind ?]).
    apply Z.eqb_eq in Hkind. apply Z.eqb_eq in H0. apply Z.eqb_eq in H1.
    rewrite H0, H1, Hn. f_equal.
    (* tracked flags *)
    unfold flags_after, spec_flags_after. rewrite Heff. unfold effect_lay_ok in Hel.
    unfold expected_effect in *.
    destruct (String.eqb (mg_mn mg) "REP").
    - destruct (mg_lay mg) as [|[|[|?]]| | |]; try discriminate.
      cbn [operand_of]. unfold rep_flags. change (2 ^ (8 * Z.of_nat 1)) with 256. now rewrite Z.mod_mod.
    - destruct (String.eqb (mg_mn mg) "SEP"); [|reflexivity].
      destruct (mg_lay mg) as [|[|[|?]]| | |]; try discriminate.
      cbn [operand_of]. unfold sep_flags. change (2 ^ (8 * Z.of_nat 1)) with 256. now rewrite Z.mod_mod. }
  intro rest. exists mn'. split; [|exact Hmn].
  rewrite Henc. apply decode_encode; [exact Hisa | symmetry; exact Hsz | exact Hrange].
Qed.

(* ------------------------------------------------------------------ C03, names outside the convention *)
Definition weak_call (tk : tracker) (ks : list ekind) (d : desc) (args : list Z) (fl : Z) : Prop :=
  exists opc mn mode,
    hd_error (emit_bytes d args) = Some opc /\
    isa_entry opc = Some (mn, mode) /\
    mn_eqb (mnemonic_of (d_name d)) mn = true /\
    let len := ilen mode (is_m16 fl) (is_x16 fl) in
    zlength (emit_bytes d args) = len /\
    run tk ks d args fl = OOk (emit_bytes d args) len len (flags_after d args fl) /\
    forall rest, decode (is_m16 fl) (is_x16 fl) (emit_bytes d args ++ rest)
                 = Some (mn, mode, le_value (tl (emit_bytes d args)), len).

Theorem emit_weak : forall tk ks d,
  tracker_ok tk = true ->
  weak_ok ks d = true ->
  forall args fl, panics tk d fl = false -> weak_call tk ks d args fl.
Proof.
  intros tk ks d Htk Hok args fl Hnp. unfold weak_ok in Hok.
  destruct (d_bytes d) as [|[opc|? ?] ops] eqn:Eb; try discriminate.
  destruct (isa_entry opc) as [[mn mode]|] eqn:Ei; [|discriminate].
  repeat (apply andb_true_iff in Hok; destruct Hok as [Hok ?]).
  rename Hok into Hmn, H into Hkind, H0 into Hsize.
  destruct (tracker_ok_is16 tk fl Htk) as [Hm Hx].
  pose proof (bools4_all _ Hsize (is_m16 fl) (is_x16 fl)) as Hsz. cbn [fst snd] in Hsz.
  unfold panics in Hnp. rewrite Hm, Hx in Hnp. rewrite Hnp in Hsz. cbn [orb] in Hsz.
  apply Z.eqb_eq in Hsz.
  assert (Hlen : zlength (map (eval_b args) ops) = zlength ops).
  { unfold zlength. now rewrite map_length. }
  exists opc, mn, mode. unfold emit_bytes. rewrite Eb. cbn [map eval_b hd_error tl].
  split; [reflexivity|]. split; [exact Ei|]. split; [exact Hmn|]. cbv zeta.
  assert (Hl : zlength (opc :: map (eval_b args) ops) = ilen mode (is_m16 fl) (is_x16 fl)).
  { unfold ilen. rewrite <- Hsz, <- Hlen. unfold zlength. cbn [List.length]. lia. }
  split; [exact Hl|]. split.
  { unfold run, panics. rewrite Hm, Hx, Hnp. unfold kind_ok in Hkind.
    destruct (find_kind ks (d_kind d)) as [k|]; [|discriminate].
    repeat (apply andb_true_iff in Hkind; destruct Hkind as [Hkind ?]).
    apply Z.eqb_eq in Hkind. apply Z.eqb_eq in H0. apply Z.eqb_eq in H1.
    unfold emit_bytes. rewrite Eb. cbn [map eval_b].
    rewrite H0, H1. unfold ilen. rewrite <- Hsz. reflexivity. }
  intro rest. cbn [app decode]. rewrite Ei.
  assert (Hopn : exists n, opsize mode (is_m16 fl) (is_x16 fl) = Z.of_nat n /\ List.length (map (eval_b args) ops) = n).
  { exists (List.length (map (eval_b args) ops)). split; [|reflexivity]. rewrite <- Hsz, <- Hlen. reflexivity. }
  destruct Hopn as [n [Hn Hln]]. rewrite Hn.
  replace (zlength (map (eval_b args) ops ++ rest) <? Z.of_nat n) with false.
  - rewrite Nat2Z.id, firstn_app_exact by exact Hln. unfold ilen. rewrite Hn. reflexivity.
  - symmetry. apply Z.ltb_ge. unfold zlength. rewrite app_length. lia.
Qed.

(* ------------------------------------------------------------------ C03 as one statement over a method list *)
Definition C03_statement (tk : tracker) (ks : list ekind) (methods : list desc) : Prop :=
  forall d, In d methods ->
  forall args fl, args_ok d args ->
    match meaning_of (d_name d) (d_pnames d) (d_ptys d) with
    | Some mg => panics tk d fl = wrong_width (mg_w mg) fl /\
                 (panics tk d fl = false -> canonical_call tk ks d mg args fl)
    | None => panics tk d fl = false -> weak_call tk ks d args fl
    end.

Theorem C03_generic : forall tk ks methods,
  tracker_ok tk = true ->
  forallb (desc_ok ks) methods = true ->
  C03_statement tk ks methods.
Proof.
  intros tk ks methods Htk Hall d Hin args fl Hargs.
  rewrite forallb_forall in Hall. specialize (Hall d Hin). unfold desc_ok in Hall.
  destruct (meaning_of (d_name d) (d_pnames d) (d_ptys d)) as [mg|].
  - apply emit_canonical; assumption.
  - intro Hnp. apply emit_weak; assumption.
Qed.

(* ------------------------------------------------------------------ the library's own opcode tables *)
Definition tbl_entry := (Z * string * Z * Z * Z * string)%type.

Fixpoint mode_name (modes : list (string * Z)) (v : Z) : option string :=
  match modes with
  | [] => None
  | (n, x) :: r => if x =? v then Some n else mode_name r v
  end.

Definition tbl_lookup (tbl : list tbl_entry) (op : Z) : option tbl_entry :=
  if (op <? 0) || (255 <? op) then None else nth_error tbl (Z.to_nat op).

(* the length rule of the library's decoder (DisassembleTo / Step): table size minus one when the
   immediate follows an 8-bit M resp. X *)
Definition tbl_len (gm : string) (size : Z) (m16 x16 : bool) : Z :=
  size - (if String.eqb gm "m_Immediate_flagM" then (if m16 then 0 else 1) else 0)
       - (if String.eqb gm "m_Immediate_flagX" then (if x16 then 0 else 1) else 0).

Definition tbl_decode (tbl : list tbl_entry) (modes : list (string * Z)) (m16 x16 : bool) (bs : list Z)
  : option (string * string * Z * Z) :=
  match bs with
  | [] => None
  | op :: rest =>
      match tbl_lookup tbl op with
      | Some (_, name, mv, size, _, _) =>
          match mode_name modes mv with
          | Some gm =>
              let n := tbl_len gm size m16 x16 - 1 in
              if zlength rest <? n then None
              else Some (name, gm, le_value (firstn (Z.to_nat n) rest), 1 + n)
          | None => None
          end
      | None => None
      end
  end.

(* table entry of the descriptor's opcode: same mnemonic (case-insensitive, JMP/JML and JSR/JSL being
   aliases), compatible mode, and the same length under every width combination *)
Definition cpu_ok (tbl : list tbl_entry) (modes : list (string * Z)) (d : desc) : bool :=
  match d_bytes d with
  | BConst opc :: _ =>
      match isa_entry opc, tbl_lookup tbl opc with
      | Some (mn, mode), Some (o, name, mv, size, _, _) =>
          (o =? opc) && mn_eqb mn (upper name)
          && match mode_name modes mv with
             | Some gm => go_mode_compat gm mode
                          && forallb (fun mx => tbl_len gm size (fst mx) (snd mx) =? ilen mode (fst mx) (snd mx)) bools4
             | None => false
             end
      | _, _ => false
      end
  | _ => false
  end.

Theorem cpu_table_decodes : forall tbl modes d,
  cpu_ok tbl modes d = true ->
  forall args m16 x16 rest mn mode v len,
    decode m16 x16 (emit_bytes d args ++ rest) = Some (mn, mode, v, len) ->
    exists name gm,
      tbl_decode tbl modes m16 x16 (emit_bytes d args ++ rest) = Some (name, gm, v, len) /\
      mn_eqb mn (upper name) = true /\ go_mode_compat gm mode = true.
Proof.
  intros tbl modes d Hok args m16 x16 rest mn mode v len Hdec.
  unfold cpu_ok in Hok.
  destruct (d_bytes d) as [|[opc|? ?] ops] eqn:Eb; try discriminate.
  destruct (isa_entry opc) as [[mn0 mode0]|] eqn:Ei; [|discriminate].
  destruct (tbl_lookup tbl opc) as [[[[[[o name] mv] size] cyc] proc]|] eqn:Et; [|discriminate].
  destruct (mode_name modes mv) as [gm|] eqn:Em;
    [| repeat (apply andb_true_iff in Hok; destruct Hok as [Hok ?]); discriminate].
  apply andb_true_iff in Hok. destruct Hok as [Hok Hcs].
  apply andb_true_iff in Hok. destruct Hok as [Ho Hname].
  apply andb_true_iff in Hcs. destruct Hcs as [Hcompat Hsz].
  pose proof (bools4_all _ Hsz m16 x16) as Hl. cbn [fst snd] in Hl. apply Z.eqb_eq in Hl.
  unfold emit_bytes in *. rewrite Eb in *. cbn [map eval_b app] in *.
  cbn [decode] in Hdec. rewrite Ei in Hdec.
  cbn [tbl_decode]. rewrite Et, Em, Hl. unfold ilen.
  replace (1 + opsize mode0 m16 x16 - 1) with (opsize mode0 m16 x16) by lia.
  destruct (zlength (map (eval_b args) ops ++ rest) <? opsize mode0 m16 x16); [discriminate|].
  inversion Hdec; subst. exists name, gm. repeat split; assumption.
Qed.

Definition C03_cpu_statement (tbl : list tbl_entry) (modes : list (string * Z)) (methods : list desc) : Prop :=
  forall d, In d methods ->
  forall args m16 x16 rest mn mode v len,
    decode m16 x16 (emit_bytes d args ++ rest) = Some (mn, mode, v, len) ->
    exists name gm,
      tbl_decode tbl modes m16 x16 (emit_bytes d args ++ rest) = Some (name, gm, v, len) /\
      mn_eqb mn (upper name) = true /\ go_mode_compat gm mode = true.

Theorem C03_cpu_generic : forall tbl modes methods,
  forallb (cpu_ok tbl modes) methods = true -> C03_cpu_statement tbl modes methods.
Proof.
  intros tbl modes methods H d Hin. rewrite forallb_forall in H.
  apply cpu_table_decodes. exact (H d Hin).
Qed.

(* ------------------------------------------------------------------ the tie's shortcut is sound *)
Lemma state_indep_run : forall tk ks d args fl h,
  state_indep d = true ->
  mix_outcome fl (run tk ks d args fl) h = mix_outcome 0 (run tk ks d args 0) h.
Proof.
  intros tk ks d args fl h H. unfold state_indep in H.
  destruct (d_guard d) eqn:Eg; try discriminate. destruct (d_effect d) eqn:Ee; try discriminate.
  unfold run, panics, flags_after. rewrite Eg, Ee. cbn [panics_b].
  destruct (find_kind ks (d_kind d)); [|reflexivity].
  cbn [mix_outcome]. now rewrite !Z.lxor_nilpotent.
Qed.

Lemma fold_prog_ext : forall k base step f g h,
  (forall n h', f n h' = g n h') -> fold_prog k base step f h = fold_prog k base step g h.
Proof.
  induction k as [|k IH]; intros base step f g h E; simpl; [apply E|].
  rewrite (IH base step f g h E). apply IH. exact E.
Qed.

(* the shift/mask evaluation used by the digests is the div/mod model *)
Lemma eval_b_f_eq : forall args b,
  (match b with BPar _ k => 0 <=? k | BConst _ => true end) = true -> eval_b_f args b = eval_b args b.
Proof.
  intros args [v|i k] H; [reflexivity|]. apply Z.leb_le in H. cbn [eval_b_f eval_b].
  rewrite Z.shiftr_div_pow2 by exact H. change 255 with (Z.ones 8).
  rewrite Z.land_ones by lia. reflexivity.
Qed.

Lemma run_f_run : forall tk ks d args fl, wf_desc d = true -> run_f tk ks d args fl = run tk ks d args fl.
Proof.
  intros tk ks d args fl H. unfold run_f, run_core, run, emit_bytes, flags_after, flags_after_e.
  destruct (panics tk d fl); [reflexivity|]. destruct (find_kind ks (d_kind d)); [|reflexivity].
  f_equal. apply map_ext_in. intros b Hb. apply eval_b_f_eq.
  unfold wf_desc in H. rewrite forallb_forall in H. exact (H b Hb).
Qed.

Lemma pty_bits_nonneg : forall t, 0 <= pty_bits t.
Proof. intros []; simpl; lia. Qed.

Lemma total_bits_nonneg : forall ps, 0 <= total_bits ps.
Proof. induction ps as [|t r IH]; simpl; [lia|]. pose proof (pty_bits_nonneg t). lia. Qed.

Lemma args_of_f_eq : forall ps n, args_of_f ps n = args_of ps n.
Proof.
  unfold args_of_f. induction ps as [|t r IH]; intro n; [reflexivity|].
  cbn [args_plan map args_of_p args_of]. fold (args_plan r).
  pose proof (pty_bits_nonneg t) as Hb.
  rewrite Z.land_ones by exact Hb.
  destruct r as [|u r'].
  - reflexivity.
  - cbn [args_plan map]. fold (args_plan r'). f_equal.
    rewrite Z.shiftr_div_pow2 by exact Hb. apply (IH (n / 2 ^ pty_bits t)).
Qed.

Lemma prog_digest_f_eq : forall tk ks d fl p, wf_desc d = true -> prog_digest_f tk ks d fl p = prog_digest tk ks d fl p.
Proof.
  intros tk ks d fl [[start step] k] H. unfold prog_digest_f, prog_digest.
  apply fold_prog_ext. intros n h.
  fold (args_of_f (d_ptys d) (Z.land n (Z.ones (total_bits (d_ptys d))))).
  rewrite args_of_f_eq, Z.land_ones by apply total_bits_nonneg.
  change (run_core (panics tk d fl) (find_kind ks (d_kind d)) (d_bytes d) (d_effect d)
            (args_of (d_ptys d) (n mod 2 ^ total_bits (d_ptys d))) fl)
    with (run_f tk ks d (args_of (d_ptys d) (n mod 2 ^ total_bits (d_ptys d))) fl).
  now rewrite run_f_run.
Qed.

(* what the per-run tie lemma compares with the digests of the compiled code *)
Theorem method_digests_spec : forall tk ks d states ps, wf_desc d = true ->
  method_digests tk ks d states ps = map (fun fl => map (prog_digest tk ks d fl) ps) states.
Proof.
  intros tk ks d states ps Hwf. unfold method_digests.
  destruct (state_indep d) eqn:E.
  - apply map_ext. intro fl. apply map_ext. intro p. rewrite prog_digest_f_eq by exact Hwf.
    destruct p as [[start step] k]. unfold prog_digest.
    apply fold_prog_ext. intros n h. symmetry. apply state_indep_run. exact E.
  - apply map_ext. intro fl. apply map_ext. intro p. now apply prog_digest_f_eq.
Qed.

(* ------------------------------------------------------------------ non-vacuity *)
Definition ex_kinds : list ekind :=
  [ {| k_name := "emit3"; k_arr := 3; k_written := 3; k_adv := 3; k_label := 0 |};
    {| k_name := "emit4"; k_arr := 4; k_written := 4; k_adv := 4; k_label := 0 |} ].
Definition ex_tk : tracker := {| tk_m := 32; tk_x := 16 |}.

Definition ex_lda_w : desc :=
  {| d_name := "LDA_imm16_w"; d_pnames := ["m"]; d_ptys := [TU16]; d_bytes := [BConst 169; BPar 0 0; BPar 0 8];
     d_guard := GPanicIfM8; d_effect := ENone; d_kind := "emit3"; d_ins := "lda.w"; d_fmt := "" |}.

(* same method with the two operand bytes swapped: rejected *)
Definition ex_lda_w_swapped : desc :=
  {| d_name := "LDA_imm16_w"; d_pnames := ["m"]; d_ptys := [TU16]; d_bytes := [BConst 169; BPar 0 8; BPar 0 0];
     d_guard := GPanicIfM8; d_effect := ENone; d_kind := "emit3"; d_ins := "lda.w"; d_fmt := "" |}.

(* the 24-bit address with its bank byte dropped: rejected *)
Definition ex_sta_long_nobank : desc :=
  {| d_name := "STA_long"; d_pnames := ["addr"]; d_ptys := [TU32]; d_bytes := [BConst 143; BPar 0 0; BPar 0 8; BConst 0];
     d_guard := GNone; d_effect := ENone; d_kind := "emit4"; d_ins := "sta.l"; d_fmt := "" |}.

Example ex_ok : desc_ok ex_kinds ex_lda_w = true. Proof. reflexivity. Qed.
Example ex_swapped_rejected : desc_ok ex_kinds ex_lda_w_swapped = false. Proof. reflexivity. Qed.
Example ex_nobank_rejected : desc_ok ex_kinds ex_sta_long_nobank = false. Proof. reflexivity. Qed.

(* the hypotheses of the theorem are satisfiable and its conclusion is the expected bytes: LDA #$1234 *)
Example ex_lda_w_call :
  args_ok ex_lda_w [4660] /\ panics ex_tk ex_lda_w 0 = false /\ panics ex_tk ex_lda_w 32 = true
  /\ emit_bytes ex_lda_w [4660] = [169; 52; 18]
  /\ decode true true (emit_bytes ex_lda_w [4660] ++ [234]) = Some ("LDA", ImmM, 4660, 3).
Proof.
  repeat split; try reflexivity.
  constructor; [simpl; lia | constructor].
Qed.
