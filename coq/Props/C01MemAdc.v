(* C01: ADC / SBC with a memory operand, once per mnemonic for all memory addressing modes (binary and decimal),
   through the closing lemmas of C01AdcRef.v; statement refines_op_d (V unconstrained after decimal arithmetic,
   operands valid BCD when d = 1).
   snapshot_dep: op_adc, op_sbc *)
From Coq Require Import ZArith NArith List Bool Lia.
From Spec Require Import ISA Spec816.
From Lib Require Import ZOps Machine.
From Snapshot Require Import GenFields GenCpu65.
From Props Require Import C01Base C01Flow C01Imm C01Mem C01MemLoc C01MemOps C01AdcRef.
Import ListNotations.
Local Open Scope Z_scope.
Arguments Z.modulo : simpl never.
Arguments Z.lor : simpl never.
Arguments Z.land : simpl never.
Arguments Z.shiftl : simpl never.
Arguments Z.shiftr : simpl never.

Lemma same_regs : forall s s1 s2, same s s1 -> regs_same s1 s2 -> (forall a, mem s2 a = mem s a) -> same s s2.
Proof.
  intros s s1 s2 [Hr Hm] R M. split.
  - intros f Hf. rewrite R. apply Hr, Hf.
  - exact M.
Qed.

Ltac open_arith mn :=
  match goal with |- memop ?op mn _ -> refines_op_d ?op =>
    let Hmm := fresh "Hmm" in let Hproc := fresh "Hproc" in let Hdec := fresh "Hdec" in let Hlen := fresh "Hlen" in
    let s := fresh "s" in let W := fresh "W" in let HE := fresh "HE" in let Hni := fresh "Hni" in let Hop := fresh "Hop" in
    let Hbcd := fresh "Hbcd" in
    intros [Hmm Hproc Hdec Hlen] s W HE Hni Hop Hbcd;
    apply (Step_mem (tbl_mode op) Hmm s op); [ exact Hni | exact W | exact Hop | reflexivity | ];
    let s1 := fresh "s1" in let Hs1 := fresh "Hs1" in let Hsz := fresh "Hsz" in let Hmd := fresh "Hmd" in
    let Haddr := fresh "Haddr" in let Hea := fresh "Hea" in
    intros s1 Hs1 Hsz Hmd Haddr Hea; rewrite Hproc;
    assert (AF : acc_facts (tbl_mode op) s1 (operand_loc s (gm_md (tbl_mode op))))
      by (constructor;
          [ exact Hmm | exact Hmd | rewrite (same_get s s1 f_RDBR Hs1 eq_refl); apply W
          | rewrite Haddr; apply mi_addr_range | rewrite Hea; apply mi_ea_range
          | exact (loc_agree _ s s1 Hmm W Hs1 Haddr Hea) ]);
    pose proof (proj2 Hs1) as Hm0;
    assert (Hdec' : decode (opcode_at s) = (mn, gm_md (tbl_mode op))) by (rewrite Hop; exact Hdec)
  end.

Lemma adc_mem : forall op, memop op ADC op_adc -> refines_op_d op.
Proof.
  intro op. open_arith ADC.
  destruct (wf_M s W) as [HM | HM].
  - destruct (acc_read16 _ s1 _ (mem s) AF Hm0) as (sn & Hr & Hregs & Hmn).
    refine (adc_close_M0 s s1 sn _ _ W Hs1 (same_regs s s1 sn Hs1 Hregs Hmn) HM Hdec' Hr eq_refl _ Hbcd).
    rewrite Hregs, Hsz. symmetry. apply Hlen.
  - destruct (acc_read8 _ s1 _ (mem s) AF Hm0) as (sn & Hr & Hregs & Hmn).
    refine (adc_close_M1 s s1 sn _ _ W Hs1 (same_regs s s1 sn Hs1 Hregs Hmn) HM Hdec' Hr eq_refl _ Hbcd).
    rewrite Hregs, Hsz. symmetry. apply Hlen.
Qed.

Lemma sbc_mem : forall op, memop op SBC op_sbc -> refines_op_d op.
Proof.
  intro op. open_arith SBC.
  destruct (wf_M s W) as [HM | HM].
  - destruct (acc_read16 _ s1 _ (mem s) AF Hm0) as (sn & Hr & Hregs & Hmn).
    refine (sbc_close_M0 s s1 sn _ _ W Hs1 (same_regs s s1 sn Hs1 Hregs Hmn) HM Hdec' Hr eq_refl _ Hbcd).
    rewrite Hregs, Hsz. symmetry. apply Hlen.
  - destruct (acc_read8 _ s1 _ (mem s) AF Hm0) as (sn & Hr & Hregs & Hmn).
    refine (sbc_close_M1 s s1 sn _ _ W Hs1 (same_regs s s1 sn Hs1 Hregs Hmn) HM Hdec' Hr eq_refl _ Hbcd).
    rewrite Hregs, Hsz. symmetry. apply Hlen.
Qed.
