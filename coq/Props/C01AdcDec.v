(* C01, ADC / SBC: the 16-bit DECIMAL cores of C01AdcCore.v equal the arithmetic of Spec816.do_adc / do_sbc on
   valid packed-BCD operands.  2^33 cases cannot be enumerated: the code is a chain of four digit stages
   (adc_d0..adc_d3, sbc_d0..sbc_d3), each is characterised by linear arithmetic on one digit of each operand plus
   the carry (lia), and the four are composed against of_bcd / to_bcd:

       digit i:  x_i + y_i + c_i       = r_i + 10 * c_(i+1)              (ADC)
                 x_i - y_i - (1 - c_i) = r_i - 10 * (1 - c_(i+1))        (SBC; c = 1 means no borrow)
       the stage maps   L + 16^i * c_i   to   L + 16^i * r_i + 16^(i+1) * c_(i+1)      (L < 16^i: the finished digits)

   snapshot_dep: (none) *)
From Coq Require Import ZArith NArith List Bool Lia.
From Spec Require Import ISA Spec816.
From Lib Require Import ZOps Machine.
From Snapshot Require Import GenFields GenCpu65.
From Props Require Import C01Base C01AdcCore C01Adc16.
Local Open Scope Z_scope.
Arguments Z.modulo : simpl never.
Arguments Z.lor : simpl never.
Arguments Z.land : simpl never.
Arguments Z.shiftl : simpl never.
Arguments Z.shiftr : simpl never.

(* ---------------------------------------------------------------- nibbles and masks *)
Definition masks_chk (a : Z) : bool :=
  (w_and a 15 =? nib a 0) && (w_and a 240 =? 16 * nib a 1) && (w_and a 3840 =? 256 * nib a 2) &&
  (w_and a 61440 =? 4096 * nib a 3) && (a =? nib a 0 + 16 * nib a 1 + 256 * nib a 2 + 4096 * nib a 3) &&
  (nib (65535 - a) 0 =? 15 - nib a 0) && (nib (65535 - a) 1 =? 15 - nib a 1) &&
  (nib (65535 - a) 2 =? 15 - nib a 2) && (nib (65535 - a) 3 =? 15 - nib a 3).
Lemma masks_all : all_below 16 0 masks_chk = true. Proof. vm_cast_no_check (eq_refl true). Qed.

Lemma masks : forall a, 0 <= a < 65536 ->
  w_and a 15 = nib a 0 /\ w_and a 240 = 16 * nib a 1 /\ w_and a 3840 = 256 * nib a 2 /\
  w_and a 61440 = 4096 * nib a 3 /\ a = nib a 0 + 16 * nib a 1 + 256 * nib a 2 + 4096 * nib a 3 /\
  nib (65535 - a) 0 = 15 - nib a 0 /\ nib (65535 - a) 1 = 15 - nib a 1 /\
  nib (65535 - a) 2 = 15 - nib a 2 /\ nib (65535 - a) 3 = 15 - nib a 3.
Proof.
  intros a Ha. pose proof (all_below_sound 16 0 _ masks_all a ltac:(cbn; lia)) as K.
  unfold masks_chk in K.
  repeat (apply andb_prop in K; let K1 := fresh "K" in destruct K as [K K1]; apply Z.eqb_eq in K1).
  apply Z.eqb_eq in K. repeat split; assumption.
Qed.

Lemma nib_range : forall v k, 0 <= nib v k < 16.
Proof. intros v k. unfold nib. apply Z.mod_pos_bound. lia. Qed.

Lemma bcd_valid16 : forall v, bcd_valid W16 v = true ->
  nib v 0 <= 9 /\ nib v 1 <= 9 /\ nib v 2 <= 9 /\ nib v 3 <= 9.
Proof.
  intros v H. unfold bcd_valid in H.
  repeat match goal with K : (_ && _) = true |- _ => apply andb_prop in K; destruct K end.
  repeat match goal with K : (_ <=? _) = true |- _ => apply Z.leb_le in K end.
  repeat split; assumption.
Qed.

Lemma and15 : forall s, w_and s 15 = s mod 16.
Proof. intros s. unfold w_and. change 15 with (Z.ones 4). rewrite Z.land_ones by lia. reflexivity. Qed.
Lemma and255 : forall s, w_and s 255 = s mod 256.
Proof. intros s. unfold w_and. change 255 with (Z.ones 8). rewrite Z.land_ones by lia. reflexivity. Qed.
Lemma and4095 : forall s, w_and s 4095 = s mod 4096.
Proof. intros s. unfold w_and. change 4095 with (Z.ones 12). rewrite Z.land_ones by lia. reflexivity. Qed.
Lemma and65535 : forall s, w_and s 65535 = s mod 65536.
Proof. intros s. unfold w_and. change 65535 with (Z.ones 16). rewrite Z.land_ones by lia. reflexivity. Qed.

Lemma add32_small : forall x y, 0 <= x + y < 4294967296 -> add32 x y = x + y.
Proof. intros x y H. unfold add32. apply Z.mod_small. exact H. Qed.

(* one stage, after the masks have been replaced by digits: split the comparisons, drop the 32-bit wrap, lia *)
Ltac stage :=
  cbv zeta; unfold w_ltb, w_leb; rewrite ?and15, ?and255, ?and4095, ?and65535;
  repeat match goal with |- context [add32 ?x ?y] => rewrite (add32_small x y) by lia end;
  repeat match goal with
         | |- context [?x <? ?y] => destruct (Z.ltb_spec x y)
         | |- context [?x <=? ?y] => destruct (Z.leb_spec x y)
         end;
  repeat match goal with |- context [add32 ?x ?y] => rewrite (add32_small x y) by (Z.div_mod_to_equations; lia) end;
  Z.div_mod_to_equations; lia.

(* ---------------------------------------------------------------- ADC stages *)
Lemma adc_s0 : forall x y c, 0 <= x <= 9 -> 0 <= y <= 9 -> 0 <= c <= 1 ->
  (let s := add32 (add32 x y) c in
   let s := if w_ltb 9 s then add32 s 6 else s in
   if w_ltb 15 s then add32 (w_and s 15) 16 else s) = (x + y + c) mod 10 + 16 * ((x + y + c) / 10).
Proof. intros x y c Hx Hy Hc. stage. Qed.
Lemma adc_s1 : forall L x y c, 0 <= L < 16 -> 0 <= x <= 9 -> 0 <= y <= 9 -> 0 <= c <= 1 ->
  (let s := add32 (L + 16 * c) (add32 (16 * x) (16 * y)) in
   let s := if w_ltb 159 s then add32 s 96 else s in
   if w_ltb 255 s then add32 (w_and s 255) 256 else s) = L + 16 * ((x + y + c) mod 10) + 256 * ((x + y + c) / 10).
Proof. intros L x y c HL Hx Hy Hc. stage. Qed.
Lemma adc_s2 : forall L x y c, 0 <= L < 256 -> 0 <= x <= 9 -> 0 <= y <= 9 -> 0 <= c <= 1 ->
  (let s := add32 (L + 256 * c) (add32 (256 * x) (256 * y)) in
   let s := if w_ltb 2559 s then add32 s 1536 else s in
   if w_ltb 4095 s then add32 (w_and s 4095) 4096 else s) = L + 256 * ((x + y + c) mod 10) + 4096 * ((x + y + c) / 10).
Proof. intros L x y c HL Hx Hy Hc. stage. Qed.
Lemma adc_s3 : forall L x y c, 0 <= L < 4096 -> 0 <= x <= 9 -> 0 <= y <= 9 -> 0 <= c <= 1 ->
  (let s := add32 (L + 4096 * c) (add32 (4096 * x) (4096 * y)) in
   if w_ltb 40959 s then add32 s 24576 else s) = L + 4096 * ((x + y + c) mod 10) + 65536 * ((x + y + c) / 10).
Proof. intros L x y c HL Hx Hy Hc. stage. Qed.

(* the stages of the core, on operands with valid digits *)
Section AdcStages.
Variables a b : Z.
Hypothesis Ha : 0 <= a < 65536.
Hypothesis Hb : 0 <= b < 65536.
Lemma adc_d0_ok : forall c, nib a 0 <= 9 -> nib b 0 <= 9 -> 0 <= c <= 1 ->
  adc_d0 a b c = (nib a 0 + nib b 0 + c) mod 10 + 16 * ((nib a 0 + nib b 0 + c) / 10).
Proof.
  intros c Xa Xb Hc. destruct (masks a Ha) as (Ma & _). destruct (masks b Hb) as (Mb & _).
  pose proof (nib_range a 0). pose proof (nib_range b 0).
  unfold adc_d0. rewrite Ma, Mb. apply adc_s0; lia.
Qed.
Lemma adc_d1_ok : forall L c, nib a 1 <= 9 -> nib b 1 <= 9 -> 0 <= L < 16 -> 0 <= c <= 1 ->
  adc_d1 a b (L + 16 * c) = L + 16 * ((nib a 1 + nib b 1 + c) mod 10) + 256 * ((nib a 1 + nib b 1 + c) / 10).
Proof.
  intros L c Xa Xb HL Hc. destruct (masks a Ha) as (_ & Ma & _). destruct (masks b Hb) as (_ & Mb & _).
  pose proof (nib_range a 1). pose proof (nib_range b 1).
  unfold adc_d1. rewrite Ma, Mb. apply adc_s1; lia.
Qed.
Lemma adc_d2_ok : forall L c, nib a 2 <= 9 -> nib b 2 <= 9 -> 0 <= L < 256 -> 0 <= c <= 1 ->
  adc_d2 a b (L + 256 * c) = L + 256 * ((nib a 2 + nib b 2 + c) mod 10) + 4096 * ((nib a 2 + nib b 2 + c) / 10).
Proof.
  intros L c Xa Xb HL Hc. destruct (masks a Ha) as (_ & _ & Ma & _). destruct (masks b Hb) as (_ & _ & Mb & _).
  pose proof (nib_range a 2). pose proof (nib_range b 2).
  unfold adc_d2. rewrite Ma, Mb. apply adc_s2; lia.
Qed.
Lemma adc_d3_ok : forall L c, nib a 3 <= 9 -> nib b 3 <= 9 -> 0 <= L < 4096 -> 0 <= c <= 1 ->
  adc_d3 a b (L + 4096 * c) = L + 4096 * ((nib a 3 + nib b 3 + c) mod 10) + 65536 * ((nib a 3 + nib b 3 + c) / 10).
Proof.
  intros L c Xa Xb HL Hc. destruct (masks a Ha) as (_ & _ & _ & Ma & _). destruct (masks b Hb) as (_ & _ & _ & Mb & _).
  pose proof (nib_range a 3). pose proof (nib_range b 3).
  unfold adc_d3. rewrite Ma, Mb. apply adc_s3; lia.
Qed.
End AdcStages.

(* ---------------------------------------------------------------- SBC stages (y = digit of the uncomplemented operand) *)
Lemma sbc_s0 : forall x y c, 0 <= x <= 9 -> 0 <= y <= 9 -> 0 <= c <= 1 ->
  (let s := add32 (add32 x (15 - y)) c in
   if w_leb s 15 then w_and (add32 s 10) 15 else s) = (x - y - (1 - c)) mod 10 + 16 * (1 + (x - y - (1 - c)) / 10).
Proof. intros x y c Hx Hy Hc. stage. Qed.
Lemma sbc_s1 : forall L x y c, 0 <= L < 16 -> 0 <= x <= 9 -> 0 <= y <= 9 -> 0 <= c <= 1 ->
  (let s := add32 (L + 16 * c) (add32 (16 * x) (16 * (15 - y))) in
   if w_leb s 255 then w_and (add32 s 160) 255 else s)
  = L + 16 * ((x - y - (1 - c)) mod 10) + 256 * (1 + (x - y - (1 - c)) / 10).
Proof. intros L x y c HL Hx Hy Hc. stage. Qed.
Lemma sbc_s2 : forall L x y c, 0 <= L < 256 -> 0 <= x <= 9 -> 0 <= y <= 9 -> 0 <= c <= 1 ->
  (let s := add32 (L + 256 * c) (add32 (256 * x) (256 * (15 - y))) in
   if w_leb s 4095 then w_and (add32 s 2560) 4095 else s)
  = L + 256 * ((x - y - (1 - c)) mod 10) + 4096 * (1 + (x - y - (1 - c)) / 10).
Proof. intros L x y c HL Hx Hy Hc. stage. Qed.
Lemma sbc_s3 : forall L x y c, 0 <= L < 4096 -> 0 <= x <= 9 -> 0 <= y <= 9 -> 0 <= c <= 1 ->
  (let s := add32 (L + 4096 * c) (add32 (4096 * x) (4096 * (15 - y))) in
   if w_leb s 65535 then w_and (add32 s 40960) 65535 else s)
  = L + 4096 * ((x - y - (1 - c)) mod 10) + 65536 * (1 + (x - y - (1 - c)) / 10).
Proof. intros L x y c HL Hx Hy Hc. stage. Qed.

Section SbcStages.
Variables a b : Z.
Hypothesis Ha : 0 <= a < 65536.
Hypothesis Hb : 0 <= b < 65536.
Let Hd : 0 <= 65535 - b < 65536. Proof. lia. Qed.
Lemma sbc_d0_ok : forall c, nib a 0 <= 9 -> nib b 0 <= 9 -> 0 <= c <= 1 ->
  sbc_d0 a (65535 - b) c
  = (nib a 0 - nib b 0 - (1 - c)) mod 10 + 16 * (1 + (nib a 0 - nib b 0 - (1 - c)) / 10).
Proof.
  intros c Xa Xb Hc. destruct (masks a Ha) as (Ma & _). destruct (masks (65535 - b) Hd) as (Md & _).
  destruct (masks b Hb) as (_ & _ & _ & _ & _ & N & _).
  pose proof (nib_range a 0). pose proof (nib_range b 0).
  unfold sbc_d0. rewrite Ma, Md, N. apply sbc_s0; lia.
Qed.
Lemma sbc_d1_ok : forall L c, nib a 1 <= 9 -> nib b 1 <= 9 -> 0 <= L < 16 -> 0 <= c <= 1 ->
  sbc_d1 a (65535 - b) (L + 16 * c)
  = L + 16 * ((nib a 1 - nib b 1 - (1 - c)) mod 10) + 256 * (1 + (nib a 1 - nib b 1 - (1 - c)) / 10).
Proof.
  intros L c Xa Xb HL Hc. destruct (masks a Ha) as (_ & Ma & _). destruct (masks (65535 - b) Hd) as (_ & Md & _).
  destruct (masks b Hb) as (_ & _ & _ & _ & _ & _ & N & _).
  pose proof (nib_range a 1). pose proof (nib_range b 1).
  unfold sbc_d1. rewrite Ma, Md, N. apply sbc_s1; lia.
Qed.
Lemma sbc_d2_ok : forall L c, nib a 2 <= 9 -> nib b 2 <= 9 -> 0 <= L < 256 -> 0 <= c <= 1 ->
  sbc_d2 a (65535 - b) (L + 256 * c)
  = L + 256 * ((nib a 2 - nib b 2 - (1 - c)) mod 10) + 4096 * (1 + (nib a 2 - nib b 2 - (1 - c)) / 10).
Proof.
  intros L c Xa Xb HL Hc. destruct (masks a Ha) as (_ & _ & Ma & _). destruct (masks (65535 - b) Hd) as (_ & _ & Md & _).
  destruct (masks b Hb) as (_ & _ & _ & _ & _ & _ & _ & N & _).
  pose proof (nib_range a 2). pose proof (nib_range b 2).
  unfold sbc_d2. rewrite Ma, Md, N. apply sbc_s2; lia.
Qed.
Lemma sbc_d3_ok : forall L c, nib a 3 <= 9 -> nib b 3 <= 9 -> 0 <= L < 4096 -> 0 <= c <= 1 ->
  sbc_d3 a (65535 - b) (L + 4096 * c)
  = L + 4096 * ((nib a 3 - nib b 3 - (1 - c)) mod 10) + 65536 * (1 + (nib a 3 - nib b 3 - (1 - c)) / 10).
Proof.
  intros L c Xa Xb HL Hc. destruct (masks a Ha) as (_ & _ & _ & Ma & _). destruct (masks (65535 - b) Hd) as (_ & _ & _ & Md & _).
  destruct (masks b Hb) as (_ & _ & _ & _ & _ & _ & _ & _ & N).
  pose proof (nib_range a 3). pose proof (nib_range b 3).
  unfold sbc_d3. rewrite Ma, Md, N. apply sbc_s3; lia.
Qed.
End SbcStages.

(* ---------------------------------------------------------------- digits of the specification *)
Lemma to_bcd_digits : forall r0 r1 r2 r3, 0 <= r0 <= 9 -> 0 <= r1 <= 9 -> 0 <= r2 <= 9 -> 0 <= r3 <= 9 ->
  to_bcd (r0 + 10 * r1 + 100 * r2 + 1000 * r3) = r0 + 16 * r1 + 256 * r2 + 4096 * r3.
Proof.
  intros r0 r1 r2 r3 H0 H1 H2 H3. unfold to_bcd.
  replace ((r0 + 10 * r1 + 100 * r2 + 1000 * r3) mod 10) with r0 by (Z.div_mod_to_equations; lia).
  replace ((r0 + 10 * r1 + 100 * r2 + 1000 * r3) / 10 mod 10) with r1 by (Z.div_mod_to_equations; lia).
  replace ((r0 + 10 * r1 + 100 * r2 + 1000 * r3) / 100 mod 10) with r2 by (Z.div_mod_to_equations; lia).
  replace ((r0 + 10 * r1 + 100 * r2 + 1000 * r3) / 1000 mod 10) with r3 by (Z.div_mod_to_equations; lia).
  reflexivity.
Qed.

(* a digit sum / difference with carry, split into digit and carry-out *)
Lemma digit_split : forall t, 0 <= t <= 19 -> 0 <= t mod 10 <= 9 /\ 0 <= t / 10 <= 1 /\ t = t mod 10 + 10 * (t / 10).
Proof. intros t Ht. Z.div_mod_to_equations; lia. Qed.
Lemma digit_split_sub : forall u, -10 <= u <= 9 ->
  0 <= u mod 10 <= 9 /\ 0 <= 1 + u / 10 <= 1 /\ u = u mod 10 - 10 * (1 - (1 + u / 10)).
Proof. intros u Hu. Z.div_mod_to_equations; lia. Qed.

(* ---------------------------------------------------------------- ADC, 16 bits, decimal *)
Theorem adc16_dec : forall a b c, 0 <= a < 65536 -> 0 <= b < 65536 -> 0 <= c <= 1 ->
  bcd_valid W16 a = true -> bcd_valid W16 b = true ->
  adc16_res a b c true = to_bcd ((of_bcd a + of_bcd b + c) mod 10000) /\
  adc16_C a b c true = (10000 <=? of_bcd a + of_bcd b + c).
Proof.
  intros a b c Ha Hb Hc Va Vb.
  destruct (bcd_valid16 a Va) as (Xa0 & Xa1 & Xa2 & Xa3).
  destruct (bcd_valid16 b Vb) as (Xb0 & Xb1 & Xb2 & Xb3).
  pose proof (nib_range a 0). pose proof (nib_range a 1). pose proof (nib_range a 2). pose proof (nib_range a 3).
  pose proof (nib_range b 0). pose proof (nib_range b 1). pose proof (nib_range b 2). pose proof (nib_range b 3).
  unfold adc16_res, adc16_C, adc16_sum, of_bcd.
  rewrite (adc_d0_ok a b Ha Hb) by lia.
  destruct (digit_split (nib a 0 + nib b 0 + c) ltac:(lia)) as (R0 & C1 & E0).
  set (r0 := (nib a 0 + nib b 0 + c) mod 10) in *. set (c1 := (nib a 0 + nib b 0 + c) / 10) in *. clearbody r0 c1.
  rewrite (adc_d1_ok a b Ha Hb r0 c1) by lia.
  destruct (digit_split (nib a 1 + nib b 1 + c1) ltac:(lia)) as (R1 & C2 & E1).
  set (r1 := (nib a 1 + nib b 1 + c1) mod 10) in *. set (c2 := (nib a 1 + nib b 1 + c1) / 10) in *. clearbody r1 c2.
  rewrite (adc_d2_ok a b Ha Hb (r0 + 16 * r1) c2) by lia.
  destruct (digit_split (nib a 2 + nib b 2 + c2) ltac:(lia)) as (R2 & C3 & E2).
  set (r2 := (nib a 2 + nib b 2 + c2) mod 10) in *. set (c3 := (nib a 2 + nib b 2 + c2) / 10) in *. clearbody r2 c3.
  rewrite (adc_d3_ok a b Ha Hb (r0 + 16 * r1 + 256 * r2) c3) by lia.
  destruct (digit_split (nib a 3 + nib b 3 + c3) ltac:(lia)) as (R3 & C4 & E3).
  set (r3 := (nib a 3 + nib b 3 + c3) mod 10) in *. set (c4 := (nib a 3 + nib b 3 + c3) / 10) in *. clearbody r3 c4.
  replace (nib a 0 + 10 * nib a 1 + 100 * nib a 2 + 1000 * nib a 3
           + (nib b 0 + 10 * nib b 1 + 100 * nib b 2 + 1000 * nib b 3) + c)
    with (r0 + 10 * r1 + 100 * r2 + 1000 * r3 + 10000 * c4) by lia.
  replace ((r0 + 10 * r1 + 100 * r2 + 1000 * r3 + 10000 * c4) mod 10000) with (r0 + 10 * r1 + 100 * r2 + 1000 * r3)
    by (Z.div_mod_to_equations; lia).
  rewrite to_bcd_digits by lia. split.
  - unfold conv16. Z.div_mod_to_equations; lia.
  - unfold flagC16, w_ltb.
    destruct (Z.ltb_spec 65535 (r0 + 16 * r1 + 256 * r2 + 4096 * r3 + 65536 * c4)),
             (Z.leb_spec 10000 (r0 + 10 * r1 + 100 * r2 + 1000 * r3 + 10000 * c4)); (reflexivity || lia).
Qed.

(* ---------------------------------------------------------------- SBC, 16 bits, decimal *)
Theorem sbc16_dec : forall a b c, 0 <= a < 65536 -> 0 <= b < 65536 -> 0 <= c <= 1 ->
  bcd_valid W16 a = true -> bcd_valid W16 b = true ->
  sbc16_res a b c true = to_bcd ((of_bcd a - of_bcd b - (1 - c)) mod 10000) /\
  sbc16_C a b c true = (0 <=? of_bcd a - of_bcd b - (1 - c)).
Proof.
  intros a b c Ha Hb Hc Va Vb.
  destruct (bcd_valid16 a Va) as (Xa0 & Xa1 & Xa2 & Xa3).
  destruct (bcd_valid16 b Vb) as (Xb0 & Xb1 & Xb2 & Xb3).
  pose proof (nib_range a 0). pose proof (nib_range a 1). pose proof (nib_range a 2). pose proof (nib_range a 3).
  pose proof (nib_range b 0). pose proof (nib_range b 1). pose proof (nib_range b 2). pose proof (nib_range b 3).
  unfold sbc16_res, sbc16_C, sbc16_sum, of_bcd. rewrite (not16_sub b Hb).
  rewrite (sbc_d0_ok a b Ha Hb) by lia.
  destruct (digit_split_sub (nib a 0 - nib b 0 - (1 - c)) ltac:(lia)) as (R0 & C1 & E0).
  set (r0 := (nib a 0 - nib b 0 - (1 - c)) mod 10) in *. set (c1 := 1 + (nib a 0 - nib b 0 - (1 - c)) / 10) in *.
  clearbody r0 c1.
  rewrite (sbc_d1_ok a b Ha Hb r0 c1) by lia.
  destruct (digit_split_sub (nib a 1 - nib b 1 - (1 - c1)) ltac:(lia)) as (R1 & C2 & E1).
  set (r1 := (nib a 1 - nib b 1 - (1 - c1)) mod 10) in *. set (c2 := 1 + (nib a 1 - nib b 1 - (1 - c1)) / 10) in *.
  clearbody r1 c2.
  rewrite (sbc_d2_ok a b Ha Hb (r0 + 16 * r1) c2) by lia.
  destruct (digit_split_sub (nib a 2 - nib b 2 - (1 - c2)) ltac:(lia)) as (R2 & C3 & E2).
  set (r2 := (nib a 2 - nib b 2 - (1 - c2)) mod 10) in *. set (c3 := 1 + (nib a 2 - nib b 2 - (1 - c2)) / 10) in *.
  clearbody r2 c3.
  rewrite (sbc_d3_ok a b Ha Hb (r0 + 16 * r1 + 256 * r2) c3) by lia.
  destruct (digit_split_sub (nib a 3 - nib b 3 - (1 - c3)) ltac:(lia)) as (R3 & C4 & E3).
  set (r3 := (nib a 3 - nib b 3 - (1 - c3)) mod 10) in *. set (c4 := 1 + (nib a 3 - nib b 3 - (1 - c3)) / 10) in *.
  clearbody r3 c4.
  replace (nib a 0 + 10 * nib a 1 + 100 * nib a 2 + 1000 * nib a 3
           - (nib b 0 + 10 * nib b 1 + 100 * nib b 2 + 1000 * nib b 3) - (1 - c))
    with (r0 + 10 * r1 + 100 * r2 + 1000 * r3 - 10000 * (1 - c4)) by lia.
  replace ((r0 + 10 * r1 + 100 * r2 + 1000 * r3 - 10000 * (1 - c4)) mod 10000) with (r0 + 10 * r1 + 100 * r2 + 1000 * r3)
    by (Z.div_mod_to_equations; lia).
  rewrite to_bcd_digits by lia. split.
  - unfold conv16. Z.div_mod_to_equations; lia.
  - unfold flagC16, w_ltb.
    destruct (Z.ltb_spec 65535 (r0 + 16 * r1 + 256 * r2 + 4096 * r3 + 65536 * c4)),
             (Z.leb_spec 0 (r0 + 10 * r1 + 100 * r2 + 1000 * r3 - 10000 * (1 - c4))); (reflexivity || lia).
Qed.
