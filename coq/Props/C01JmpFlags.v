(* C01, control-flow family: SetFlags in native mode as the specification's with_P (the sixteen
   combinations of old/new m and x flags), and the abstraction of a state after writes to PC, SP, PBR.

   snapshot_dep: SetFlags, ChangeRegisterSizes_M, ChangeRegisterSizes_X *)
From Coq Require Import ZArith NArith List Bool Lia.
From Spec Require Import ISA Spec816.
From Lib Require Import ZOps Machine.
From Snapshot Require Import GenFields GenCpu65.
From Props Require Import C01Base C01Flow C01Imm C01JmpBase C01JmpTac.
Import ListNotations.
Local Open Scope Z_scope.
Arguments Z.modulo : simpl never.
Arguments Z.lor : simpl never.
Arguments Z.land : simpl never.
Arguments Z.shiftl : simpl never.
Arguments Z.shiftr : simpl never.

Definition bitz (p k : Z) : Z := if bit p k then 1 else 0.
Lemma bitz_and : forall p k, 0 <= k -> w_and (w_shr p k) 1 = bitz p k.
Proof.
  intros p k Hk. unfold w_and, w_shr, bitz, bit. rewrite Z.shiftr_div_pow2 by assumption.
  change 1 with (Z.ones 1) at 1. rewrite Z.land_ones by lia. change (2 ^ 1) with 2.
  rewrite Zmod_odd. reflexivity.
Qed.
Lemma bitz_eqb1 : forall p k, (bitz p k =? 1) = bit p k.
Proof. intros p k. unfold bitz. destruct (bit p k); reflexivity. Qed.
Lemma bitz_01 : forall p k, bitz p k = 0 \/ bitz p k = 1.
Proof. intros p k. unfold bitz. destruct (bit p k); [right | left]; reflexivity. Qed.

(* ---------------------------------------------------------------- abstraction and writes to single registers *)
Lemma abs_set_na : forall f v s, archf f = false -> abs (set f v s) = abs s.
Proof.
  intros f v s Hf. apply abs_ext. intros g Hg. apply get_set_other.
  destruct (N.eqb g f) eqn:E; [| reflexivity]. apply N.eqb_eq in E. subst g. congruence.
Qed.
Lemma abs_log : forall e s, abs (log e s) = abs s.
Proof. reflexivity. Qed.
Lemma abs_upd : forall a v s, abs (upd a v s) = abs s.
Proof. reflexivity. Qed.
Lemma abs_set_PC : forall v s, abs (set f_PC v s) = with_PC v (abs s).
Proof. intros v s. unfold abs, with_PC. rewrite get_set_this, !get_set_other by reflexivity. reflexivity. Qed.
Lemma abs_set_SP : forall v s, abs (set f_SP v s) = with_S v (abs s).
Proof. intros v s. unfold abs, with_S. rewrite get_set_this, !get_set_other by reflexivity. reflexivity. Qed.
Lemma abs_set_RK : forall v s, abs (set f_RK v s) = with_PBR v (abs s).
Proof. intros v s. unfold abs, with_PBR. rewrite get_set_this, !get_set_other by reflexivity. reflexivity. Qed.

Lemma wf_set_na : forall f v s, archf f = false -> wf s -> wf (set f v s).
Proof.
  intros f v s Hf W. apply (wf_ext _ s); [| exact W]. intros g Hg. apply get_set_other.
  destruct (N.eqb g f) eqn:E; [| reflexivity]. apply N.eqb_eq in E. subst g. congruence.
Qed.
Lemma wf_log : forall e s, wf s -> wf (log e s).
Proof. intros e s W. apply (wf_ext _ s); [| exact W]. reflexivity. Qed.
Lemma wf_set_PC : forall v s, 0 <= v < 65536 -> wf s -> wf (set f_PC v s).
Proof.
  intros v s Hv W. constructor; unfold flag01; rewrite ?get_set_this, ?get_set_other by reflexivity;
    first [ exact Hv | apply W ].
Qed.
Lemma wf_set_SP : forall v s, 0 <= v < 65536 -> wf s -> wf (set f_SP v s).
Proof.
  intros v s Hv W. constructor; unfold flag01; rewrite ?get_set_this, ?get_set_other by reflexivity;
    first [ exact Hv | apply W ].
Qed.
Lemma wf_set_RK : forall v s, 0 <= v < 256 -> wf s -> wf (set f_RK v s).
Proof.
  intros v s Hv W. constructor; unfold flag01; rewrite ?get_set_this, ?get_set_other by reflexivity;
    first [ exact Hv | apply W ].
Qed.

(* ---------------------------------------------------------------- SetFlags *)
(* the fields SetFlags may write *)
Definition flagsf (f : N) : bool :=
  existsb (N.eqb f) [f_C; f_Z; f_I; f_D; f_X; f_M; f_V; f_N; f_RA; f_RAh; f_RAl; f_RX; f_RXl; f_RY; f_RYl].

Lemma SetFlags_native : forall p s, wf s -> get f_E s = 0 -> 0 <= p < 256 ->
  exists s', SetFlags p s = Ok tt s' /\ wf s' /\ abs s' = with_P p (abs s) /\ mem s' = mem s /\
             (forall f, flagsf f = false -> get f s' = get f s).
Proof.
  intros p s W HE Hp. pose_ranges s W.
  cbv beta zeta delta [SetFlags]. jnorm. rewrite HE. lits. rewrite !bitz_and by lia.
  destruct (wf_X s W) as [Hx | Hx]; destruct (wf_M s W) as [Hm | Hm]; rewrite Hx, Hm;
  (destruct (bit p 4) eqn:B4;
   [ assert (Z4 : bitz p 4 = 1) by (unfold bitz; rewrite B4; reflexivity)
   | assert (Z4 : bitz p 4 = 0) by (unfold bitz; rewrite B4; reflexivity) ]);
  (destruct (bit p 5) eqn:B5;
   [ assert (Z5 : bitz p 5 = 1) by (unfold bitz; rewrite B5; reflexivity)
   | assert (Z5 : bitz p 5 = 0) by (unfold bitz; rewrite B5; reflexivity) ]);
  rewrite Z4, Z5; lits;
  cbv beta iota delta [negb];
  cbv beta zeta delta [ChangeRegisterSizes_X ChangeRegisterSizes_M]; jnorm; lits; rewrite ?bind_Ok; cbv beta;
  (eexists; split; [reflexivity | split; [| split; [| split]]];
  [ constructor; unfold flag01; jnorm; rewrite ?(join16 (get f_RAh s) (get f_RAl s)) by assumption; first [ apply W | apply bitz_01 | (left; reflexivity) | (right; reflexivity) | jarith ]
  | unfold abs, with_P, norm_x; jspec_eval; jnorm; rewrite ?B4, ?B5, ?Hx, ?Hm; lits; rewrite ?bitz_eqb1;
    rewrite ?(join16 (get f_RAh s) (get f_RAl s)) by assumption; apply mkArch_eq; first [ reflexivity | jarith ]
  | reflexivity
  | intros f Hf; cbn [flagsf existsb] in Hf;
    repeat (apply orb_false_elim in Hf; let H := fresh in destruct Hf as [H Hf]);
    rewrite ?get_set_other by assumption; reflexivity ]).
Qed.
