(* C01: memory-operand addressing modes, part 2: where cmdRead / cmdWrite access ([go_loc]), the four access lemmas,
   and [loc_agree]: that location is Spec816.oploc of the data-sheet mode.

   snapshot_dep: cmdRead, cmdRead16, cmdWrite, cmdWrite16, nRead, nRead16_wrap, nRead16_cross, EaRead, EaWrite, nWrite,
   nWrite16_wrap, nWrite16_cross *)
From Coq Require Import ZArith NArith List Bool Lia.
From Spec Require Import ISA Spec816.
From Lib Require Import ZOps Machine.
From Snapshot Require Import GenFields GenCpu65.
From Props Require Import C01Base C01Flow C01Imm C01Mem.
Import ListNotations.
Local Open Scope Z_scope.
Arguments Z.modulo : simpl never.
Arguments Z.lor : simpl never.
Arguments Z.land : simpl never.
Arguments Z.shiftl : simpl never.
Arguments Z.shiftr : simpl never.

Definition gm_md (gm : Z) : mode :=
  match gm with
  | 1 => Abs | 2 => AbsX | 3 => AbsY | 9 => Dp | 10 => DpX | 11 => DpY | 12 => DpIndX | 13 => DpInd | 14 => DpIndL
  | 15 => DpIndY | 16 => DpIndLY | 20 => Long | 21 => LongX | 25 => Sr | 26 => SrIndY | _ => Imp
  end.

Definition loc_class (gm : Z) : Z :=   (* 0: bank-0 wrap at Addr; 1: DBR:Addr linear; 2: EA linear *)
  match gm with
  | 9 | 10 | 11 | 25 => 0
  | 1 | 12 | 13 => 1
  | _ => 2
  end.
Definition go_loc (gm : Z) (s1 : st) : loc :=
  match loc_class gm with
  | 0 => LWrap 0 (get f_StepInfo_Addr s1)
  | 1 => LLin (get f_RDBR s1 * 65536 + get f_StepInfo_Addr s1)
  | _ => LLin (get f_StepInfo_EA s1)
  end.

(* the state after an access: every register field as before *)
Definition regs_same (s1 s2 : st) : Prop := forall f, get f s2 = get f s1.

Lemma regs_same_log : forall s e, regs_same s (log e s).
Proof. intros s e f. reflexivity. Qed.

Ltac mode_cases H :=
  unfold memmode in H; cbn [existsb] in H;
  repeat (apply orb_prop in H; destruct H as [H | H]; [ apply Z.eqb_eq in H | ]); [ .. | discriminate H ].

Ltac mode_lits :=
  repeat match goal with |- context [w_eqb ?m ?k] =>
    lazymatch m with Zpos _ => idtac end;
    let b := eval vm_compute in (w_eqb m k) in change (w_eqb m k) with b end;
  cbv beta iota delta [orb].

Lemma rd16_join : forall m l, w_or (shl16 (byte m (loc_byte l 1)) 8) (byte m (loc_byte l 0)) = rd16 m l.
Proof.
  intros m l. unfold rd16. rewrite join16 by (unfold byte; apply Z.mod_pos_bound; lia). lia.
Qed.

Lemma w16_small : forall a, 0 <= a < 65536 -> w16 a = a.
Proof. intros. unfold w16. apply Z.mod_small. assumption. Qed.

Lemma cmdRead_mem : forall gm s1, memmode gm = true -> get f_StepInfo_Mode s1 = gm ->
  0 <= get f_RDBR s1 < 256 -> 0 <= get f_StepInfo_Addr s1 < 65536 -> 0 <= get f_StepInfo_EA s1 < 16777216 ->
  exists s2, cmdRead s1 = Ok (rd8 (mem s1) (go_loc gm s1)) s2 /\ regs_same s1 s2 /\ (forall a, mem s2 a = mem s1 a).
Proof.
  intros gm s1 Hm Hmd Hb Ha He. cbv beta zeta delta [cmdRead]. rewrite Hmd.
  mode_cases Hm; subst gm; mode_lits; unfold go_loc, loc_class, rd8, loc_byte, byte, ba;
    rewrite ?Z.add_0_r, ?w16_small by assumption;
    change (0 * 65536) with 0; rewrite ?Z.add_0_l; unfold w24; rewrite ?(Z.mod_small (get f_RDBR s1 * 65536 + get f_StepInfo_Addr s1) 16777216), ?(Z.mod_small (get f_StepInfo_EA s1) 16777216) by lia;
    first [ rewrite EaRead_ok by lia | rewrite nRead_ok by assumption ]; rewrite bind_Ok; cbv beta;
    eexists; (split; [ reflexivity | split; [ apply regs_same_log | intro; reflexivity ] ]).
Qed.

Ltac loc_norm s1 :=
  unfold go_loc, loc_class, rd8, loc_byte, byte, ba, w24, w16;
  rewrite ?Z.add_0_r;
  rewrite ?(Z.mod_small (get f_StepInfo_Addr s1) 65536),
          ?(Z.mod_small (get f_RDBR s1 * 65536 + get f_StepInfo_Addr s1) 16777216),
          ?(Z.mod_small (get f_StepInfo_EA s1) 16777216) by lia.

Lemma cmdRead16_mem : forall gm s1, memmode gm = true -> get f_StepInfo_Mode s1 = gm ->
  0 <= get f_RDBR s1 < 256 -> 0 <= get f_StepInfo_Addr s1 < 65536 -> 0 <= get f_StepInfo_EA s1 < 16777216 ->
  exists s2, cmdRead16 s1 = Ok (rd16 (mem s1) (go_loc gm s1)) s2 /\ regs_same s1 s2 /\ (forall a, mem s2 a = mem s1 a).
Proof.
  intros gm s1 Hm Hmd Hb Ha He. cbv beta zeta delta [cmdRead16]. rewrite Hmd. rewrite <- rd16_join.
  mode_cases Hm; subst gm; mode_lits; loc_norm s1;
    first [ rewrite nRead16_wrap_ok by lia
          | rewrite nRead16_cross_ok by lia
          | (rewrite EaRead_ok by lia; rewrite bind_Ok; cbv beta; rewrite get_log; rewrite ea_next by lia;
             rewrite EaRead_ok by (apply Z.mod_pos_bound; lia)) ];
    rewrite bind_Ok; cbv beta; rewrite ?mem_log; unfold rb, add16;
    eexists; (split; [ reflexivity | split; [ intro f; reflexivity | intro; reflexivity ] ]).
Qed.

Lemma upd_get : forall f a v s, get f (upd a v s) = get f s.
Proof. reflexivity. Qed.

Lemma cmdWrite_mem : forall gm s1 v, memmode gm = true -> get f_StepInfo_Mode s1 = gm -> 0 <= v < 256 ->
  0 <= get f_RDBR s1 < 256 -> 0 <= get f_StepInfo_Addr s1 < 65536 -> 0 <= get f_StepInfo_EA s1 < 16777216 ->
  exists s2, cmdWrite v s1 = Ok tt s2 /\ regs_same s1 s2 /\
             (forall a, mem s2 a = apply_writes (wrw W8 (go_loc gm s1) v) (mem s1) a).
Proof.
  intros gm s1 v Hm Hmd Hv Hb Ha He. cbv beta zeta delta [cmdWrite]. rewrite Hmd.
  mode_cases Hm; subst gm; mode_lits; unfold wrw; loc_norm s1; rewrite (Z.mod_small v 256) by assumption;
    change (0 * 65536) with 0; rewrite ?Z.add_0_l;
    first [ rewrite EaWrite_ok by lia | rewrite nWrite_ok by assumption ]; rewrite bind_Ok; cbv beta;
    eexists; (split; [ reflexivity | split; [ intro f; reflexivity | intro; reflexivity ] ]).
Qed.

Lemma cmdWrite16_mem : forall gm s1 v, memmode gm = true -> get f_StepInfo_Mode s1 = gm -> 0 <= v < 65536 ->
  0 <= get f_RDBR s1 < 256 -> 0 <= get f_StepInfo_Addr s1 < 65536 -> 0 <= get f_StepInfo_EA s1 < 16777216 ->
  exists s2, cmdWrite16 v s1 = Ok tt s2 /\ regs_same s1 s2 /\
             (forall a, mem s2 a = apply_writes (wrw W16 (go_loc gm s1) v) (mem s1) a).
Proof.
  intros gm s1 v Hm Hmd Hv Hb Ha He. cbv beta zeta delta [cmdWrite16]. rewrite Hmd.
  mode_cases Hm; subst gm; mode_lits; unfold wrw; loc_norm s1;
    first [ rewrite nWrite16_wrap_ok by lia
          | rewrite nWrite16_cross_ok by lia
          | (rewrite EaWrite_ok by lia; rewrite bind_Ok; cbv beta; rewrite get_log, upd_get; rewrite ea_next by lia;
             rewrite EaWrite_ok by (apply Z.mod_pos_bound; lia)) ];
    rewrite bind_Ok; cbv beta; unfold conv8, add16; rewrite shr8;
    eexists; (split; [ reflexivity | split; [ intro f; reflexivity | intro; reflexivity ] ]).
Qed.

(* ---------------------------------------------------------------- go_loc = oploc *)
Lemma fetch_o8 : forall s k, fetch (abs s) (mem s) k = o8 s k.
Proof. reflexivity. Qed.

Lemma raw16_rd16 : forall s b a, 0 <= a < 65536 -> raw16 s b a = rd16 (mem s) (LWrap b a).
Proof.
  intros s b a Ha. unfold raw16. rewrite join16 by apply rb_range.
  unfold rd16, loc_byte, byte, ba, w16, rb, add16. rewrite Z.add_0_r, (Z.mod_small a) by assumption. lia.
Qed.
Lemma raw24_rd24 : forall s b a, 0 <= a < 65536 -> raw24 s b a = rd24 (mem s) (LWrap b a).
Proof.
  intros s b a Ha. unfold raw24, rd24, loc_byte, byte, ba, w16, rb, add16.
  rewrite Z.add_0_r, (Z.mod_small a) by assumption. lia.
Qed.

Lemma w16_add16_l : forall a b c, w16 (add16 a b + c) = w16 (a + (b + c)).
Proof. intros. unfold w16, add16. rewrite Zplus_mod_idemp_l. f_equal. lia. Qed.

Lemma raw16_operand : forall s, 0 <= get f_PC s < 65536 ->
  raw16 s (get f_RK s) (add16 (get f_PC s) 1) = fetch (abs s) (mem s) 1 + 256 * fetch (abs s) (mem s) 2.
Proof.
  intros s Hpc. rewrite raw16_rd16 by apply add16_range. unfold rd16, loc_byte, fetch.
  rewrite !w16_add16_l. reflexivity.
Qed.
Lemma raw24_operand : forall s, 0 <= get f_PC s < 65536 ->
  raw24 s (get f_RK s) (add16 (get f_PC s) 1) =
  fetch (abs s) (mem s) 1 + 256 * fetch (abs s) (mem s) 2 + 65536 * fetch (abs s) (mem s) 3.
Proof.
  intros s Hpc. rewrite raw24_rd24 by apply add16_range. unfold rd24, loc_byte, fetch.
  rewrite !w16_add16_l. reflexivity.
Qed.

Lemma xr_xreg : forall s, wf s -> xr (abs s) = xreg s.
Proof.
  intros s W. unfold xr, xw, xreg, abs, w_eqb. cbn [rX fX].
  destruct (get f_X s =? 1); cbn [wmod]; apply Z.mod_small; apply W.
Qed.
Lemma yr_yreg : forall s, wf s -> yr (abs s) = yreg s.
Proof.
  intros s W. unfold yr, xw, yreg, abs, w_eqb. cbn [rY fX].
  destruct (get f_X s =? 1); cbn [wmod]; apply Z.mod_small; apply W.
Qed.
Lemma xreg_range : forall s, wf s -> 0 <= xreg s < 65536.
Proof. intros s W. unfold xreg. destruct (w_eqb (get f_X s) 1). pose proof (wf_RXl s W). lia. apply W. Qed.
Lemma yreg_range : forall s, wf s -> 0 <= yreg s < 65536.
Proof. intros s W. unfold yreg. destruct (w_eqb (get f_X s) 1). pose proof (wf_RYl s W). lia. apply W. Qed.

Lemma rd16_range : forall m l, 0 <= rd16 m l < 65536.
Proof. intros. unfold rd16, byte. pose proof (Z.mod_pos_bound (m (loc_byte l 0)) 256). pose proof (Z.mod_pos_bound (m (loc_byte l 1)) 256). lia. Qed.
Lemma rd24_range : forall m l, 0 <= rd24 m l < 16777216.
Proof.
  intros. unfold rd24, byte. pose proof (Z.mod_pos_bound (m (loc_byte l 0)) 256).
  pose proof (Z.mod_pos_bound (m (loc_byte l 1)) 256). pose proof (Z.mod_pos_bound (m (loc_byte l 2)) 256). lia.
Qed.

Lemma dbr_ea_eq : forall s a16 idx, 0 <= get f_RDBR s < 256 -> 0 <= a16 < 65536 -> 0 <= idx < 65536 ->
  dbr_ea s a16 idx = w24 (ba (get f_RDBR s) a16 + idx).
Proof.
  intros s a16 idx Hb Ha Hi. unfold dbr_ea, w24, ba. rewrite bank_addr by assumption.
  unfold add32. rewrite Z.mod_small by lia. apply and24. lia.
Qed.
Lemma add24_eq : forall a idx, 0 <= a < 16777216 -> 0 <= idx < 65536 -> w_and (add32 a idx) 16777215 = w24 (a + idx).
Proof. intros a idx Ha Hi. unfold add32, w24. rewrite Z.mod_small by lia. apply and24. lia. Qed.

Lemma add16_w16 : forall a b, add16 a b = w16 (b + a).
Proof. intros. unfold add16, w16. f_equal. lia. Qed.
Lemma add16_add16_w16 : forall a b c, add16 (add16 a b) c = w16 (c + a + b).
Proof. intros. unfold add16, w16. rewrite Zplus_mod_idemp_l. f_equal. lia. Qed.

Lemma loc_agree : forall gm s s1, memmode gm = true -> wf s -> same s s1 ->
  get f_StepInfo_Addr s1 = mi_addr gm s -> get f_StepInfo_EA s1 = mi_ea gm s ->
  go_loc gm s1 = oploc (gm_md gm) (abs s) (mem s) (fetch (abs s) (mem s) 1) (fetch (abs s) (mem s) 2) (fetch (abs s) (mem s) 3).
Proof.
  intros gm s s1 Hm W Hs Ha He. unfold go_loc. rewrite Ha, He. rewrite (same_get s s1 f_RDBR Hs eq_refl).
  pose proof (wf_PC s W) as Hpc. pose proof (wf_RDBR s W) as Hb.
  pose proof (xreg_range s W) as Hx. pose proof (yreg_range s W) as Hy.
  mode_cases Hm; subst gm; cbv beta iota delta [loc_class mi_addr mi_ea gm_md oploc];
    rewrite ?xr_xreg, ?yr_yreg by assumption;
    rewrite ?raw16_operand, ?raw24_operand by assumption;
    rewrite ?fetch_o8;
    rewrite ?raw16_rd16, ?raw24_rd24 by apply add16_range;
    rewrite ?dbr_ea_eq by first [ assumption | apply rd16_range | (pose proof (rb_range s (get f_RK s * 65536 + add16 (get f_PC s) 1)); pose proof (rb_range s (get f_RK s * 65536 + add16 (get f_PC s) 2)); unfold o8; lia) ];
    rewrite ?add24_eq by first [ assumption | apply rd24_range | (pose proof (rb_range s (get f_RK s * 65536 + add16 (get f_PC s) 1)); pose proof (rb_range s (get f_RK s * 65536 + add16 (get f_PC s) 2)); pose proof (rb_range s (get f_RK s * 65536 + add16 (get f_PC s) 3)); unfold o8; lia) ];
    rewrite ?add16_add16_w16, ?add16_w16; cbn [rD rS rDBR];
    reflexivity.
Qed.

Lemma raw16_range : forall s b a, 0 <= raw16 s b a < 65536.
Proof.
  intros. unfold raw16. rewrite join16 by apply rb_range.
  pose proof (rb_range s (b * 65536 + add16 a 1)). pose proof (rb_range s (b * 65536 + a)). lia.
Qed.
Lemma raw24_range : forall s b a, 0 <= raw24 s b a < 16777216.
Proof.
  intros. unfold raw24. pose proof (rb_range s (b * 65536 + add16 a 2)).
  pose proof (rb_range s (b * 65536 + add16 a 1)). pose proof (rb_range s (b * 65536 + a)). lia.
Qed.
Lemma and24_range : forall x, 0 <= x -> 0 <= w_and x 16777215 < 16777216.
Proof. intros x Hx. rewrite and24 by assumption. apply Z.mod_pos_bound. lia. Qed.
Lemma add32_nonneg : forall a b, 0 <= add32 a b.
Proof. intros. unfold add32. apply Z.mod_pos_bound. lia. Qed.

Lemma mi_addr_range : forall gm s, 0 <= mi_addr gm s < 65536.
Proof.
  intros gm s. unfold mi_addr.
  repeat match goal with |- context [match ?x with _ => _ end] => destruct x end;
    first [ apply add16_range | apply raw16_range | lia ].
Qed.
Lemma mi_ea_range : forall gm s, 0 <= mi_ea gm s < 16777216.
Proof.
  intros gm s. unfold mi_ea, dbr_ea.
  repeat match goal with |- context [match ?x with _ => _ end] => destruct x end;
    first [ apply raw24_range | (apply and24_range; apply add32_nonneg) | lia ].
Qed.

Lemma rd8_ext : forall m1 m2 l, (forall a, m1 a = m2 a) -> rd8 m1 l = rd8 m2 l.
Proof. intros m1 m2 l H. unfold rd8, byte. rewrite H. reflexivity. Qed.
Lemma rd16_ext : forall m1 m2 l, (forall a, m1 a = m2 a) -> rd16 m1 l = rd16 m2 l.
Proof. intros m1 m2 l H. unfold rd16, byte. rewrite !H. reflexivity. Qed.
Lemma rd8_range : forall m l, 0 <= rd8 m l < 256.
Proof. intros. unfold rd8, byte. apply Z.mod_pos_bound. lia. Qed.

Lemma go_loc_mem : forall gm s1, go_loc gm s1 <> LAcc.
Proof. intros gm s1. unfold go_loc. destruct (loc_class gm) as [| [p | p |] | p]; discriminate. Qed.

Lemma spec_step_eq : forall s op mn md, wf s -> opcode_at s = op -> decode op = (mn, md) ->
  Spec816.step (abs s) (mem s) =
  exec mn md (abs s) (mem s) (fetch (abs s) (mem s) 1) (fetch (abs s) (mem s) 2) (fetch (abs s) (mem s) 3)
       (ISA.length md (fM (abs s)) (fX (abs s))).
Proof.
  intros s op mn md W Hop Hdec. unfold Spec816.step.
  rewrite (spec_fetch0 s (wf_RK s W) (wf_PC s W)), Hop, Hdec. reflexivity.
Qed.

(* ---------------------------------------------------------------- accesses along a routine: accumulated form *)
Record acc_facts (gm : Z) (s1 : st) (l : loc) : Prop := mkaf {
  af_mm : memmode gm = true;
  af_md : get f_StepInfo_Mode s1 = gm;
  af_b : 0 <= get f_RDBR s1 < 256;
  af_a : 0 <= get f_StepInfo_Addr s1 < 65536;
  af_e : 0 <= get f_StepInfo_EA s1 < 16777216;
  af_loc : go_loc gm s1 = l }.

Definition acc_field (f : N) : bool :=
  negb (existsb (N.eqb f) [f_StepInfo_Mode; f_RDBR; f_StepInfo_Addr; f_StepInfo_EA]).

Lemma acc_facts_regs : forall gm s1 s2 l, acc_facts gm s1 l -> regs_same s1 s2 -> acc_facts gm s2 l.
Proof.
  intros gm s1 s2 l [A B C D E F] R. constructor; unfold go_loc in *; rewrite ?R; assumption.
Qed.
Lemma acc_facts_set : forall gm s1 l f v, acc_field f = true -> acc_facts gm s1 l -> acc_facts gm (set f v s1) l.
Proof.
  intros gm s1 l f v Hf [A B C D E F].
  unfold acc_field in Hf. apply negb_true_iff in Hf. cbn [existsb] in Hf.
  apply orb_false_elim in Hf. destruct Hf as [H1 Hf]. apply orb_false_elim in Hf. destruct Hf as [H2 Hf].
  apply orb_false_elim in Hf. destruct Hf as [H3 Hf]. apply orb_false_elim in Hf. destruct Hf as [H4 _].
  assert (G : forall g, existsb (N.eqb g) [f_StepInfo_Mode; f_RDBR; f_StepInfo_Addr; f_StepInfo_EA] = true ->
                        get g (set f v s1) = get g s1).
  { intros g Hg. cbn [existsb] in Hg. apply get_set_other.
    repeat (apply orb_prop in Hg; destruct Hg as [Hg | Hg]; [ apply N.eqb_eq in Hg; subst g; rewrite N.eqb_sym; assumption | ]).
    discriminate Hg. }
  constructor; unfold go_loc in *; rewrite ?(G f_StepInfo_Mode eq_refl), ?(G f_RDBR eq_refl), ?(G f_StepInfo_Addr eq_refl),
    ?(G f_StepInfo_EA eq_refl); assumption.
Qed.

Lemma apply_writes_app : forall ws1 ws2 m, apply_writes (ws1 ++ ws2) m = apply_writes ws2 (apply_writes ws1 m).
Proof. induction ws1 as [| [a v] r IH]; intros ws2 m; cbn [app apply_writes]; [reflexivity | apply IH]. Qed.
Lemma apply_writes_ext : forall ws m1 m2, (forall a, m1 a = m2 a) -> forall a, apply_writes ws m1 a = apply_writes ws m2 a.
Proof.
  induction ws as [| [b v] r IH]; intros m1 m2 H a; cbn [apply_writes]; [apply H |].
  apply IH. intro c. destruct (c =? b); [reflexivity | apply H].
Qed.

Lemma acc_read8 : forall gm sc l (M : Spec816.mem), acc_facts gm sc l -> (forall a, mem sc a = M a) ->
  exists s2, cmdRead sc = Ok (rd8 M l) s2 /\ regs_same sc s2 /\ (forall a, mem s2 a = M a).
Proof.
  intros gm sc l M [A B C D E F] Hm.
  destruct (cmdRead_mem gm sc A B C D E) as (s2 & Hr & Hregs & Hmem).
  exists s2. rewrite Hr, F, (rd8_ext _ _ l Hm). repeat split; [ exact Hregs | intro a; rewrite Hmem; apply Hm ].
Qed.
Lemma acc_read16 : forall gm sc l (M : Spec816.mem), acc_facts gm sc l -> (forall a, mem sc a = M a) ->
  exists s2, cmdRead16 sc = Ok (rd16 M l) s2 /\ regs_same sc s2 /\ (forall a, mem s2 a = M a).
Proof.
  intros gm sc l M [A B C D E F] Hm.
  destruct (cmdRead16_mem gm sc A B C D E) as (s2 & Hr & Hregs & Hmem).
  exists s2. rewrite Hr, F, (rd16_ext _ _ l Hm). repeat split; [ exact Hregs | intro a; rewrite Hmem; apply Hm ].
Qed.
Lemma acc_write8 : forall gm sc l (M : Spec816.mem) v, acc_facts gm sc l -> (forall a, mem sc a = M a) -> 0 <= v < 256 ->
  exists s2, cmdWrite v sc = Ok tt s2 /\ regs_same sc s2 /\ (forall a, mem s2 a = apply_writes (wrw W8 l v) M a).
Proof.
  intros gm sc l M v [A B C D E F] Hm Hv.
  destruct (cmdWrite_mem gm sc v A B Hv C D E) as (s2 & Hr & Hregs & Hmem).
  exists s2. rewrite Hr. repeat split; [ exact Hregs | intro a; rewrite Hmem, F; apply apply_writes_ext; exact Hm ].
Qed.
Lemma acc_write16 : forall gm sc l (M : Spec816.mem) v, acc_facts gm sc l -> (forall a, mem sc a = M a) -> 0 <= v < 65536 ->
  exists s2, cmdWrite16 v sc = Ok tt s2 /\ regs_same sc s2 /\ (forall a, mem s2 a = apply_writes (wrw W16 l v) M a).
Proof.
  intros gm sc l M v [A B C D E F] Hm Hv.
  destruct (cmdWrite16_mem gm sc v A B Hv C D E) as (s2 & Hr & Hregs & Hmem).
  exists s2. rewrite Hr. repeat split; [ exact Hregs | intro a; rewrite Hmem, F; apply apply_writes_ext; exact Hm ].
Qed.

Lemma rmw_mem : forall w l m f s, l <> LAcc ->
  rmw w l m f s = (let (r, s1) := f (rdw w m l) s in (s1, wrw w l r)).
Proof. intros w l m f s H. destruct l; [ contradiction | reflexivity | reflexivity ]. Qed.

Lemma not_immM : forall gm, memmode gm = true -> forall (A : Type) (a b : A),
  match gm_md gm with ImmM => a | _ => b end = b.
Proof. intros gm H A a b. mode_cases H; subst gm; reflexivity. Qed.
Lemma memmode_not6 : forall gm, memmode gm = true -> w_eqb gm 6 = false.
Proof. intros gm H. mode_cases H; subst gm; reflexivity. Qed.
Lemma memmode_not4 : forall gm, memmode gm = true -> w_eqb gm 4 = false.
Proof. intros gm H. mode_cases H; subst gm; reflexivity. Qed.
