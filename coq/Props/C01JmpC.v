(* C01 refinement lemmas, software interrupts in native mode: BRK, COP (see C01JmpBase.v, C01JmpTac.v).

   snapshot_dep: op_brk, op_cop, push, push16, Flags, nRead16_cross *)
From Coq Require Import ZArith NArith List Bool Lia.
From Spec Require Import ISA Spec816.
From Lib Require Import ZOps Machine.
From Snapshot Require Import GenFields GenCpu65.
From Props Require Import C01Base C01Flow C01Imm C01JmpBase C01JmpTac.
Import ListNotations.
Local Open Scope Z_scope.
Arguments Z.modulo : simpl never.
Arguments Z.lor : simpl never.
Arguments Z.land : simpl never.
Arguments Z.shiftl : simpl never.
Arguments Z.shiftr : simpl never.

Lemma ref_00 : refines_op 0.
Proof.
  start_mode Step_imp8m 0. pose_ranges s W. flag_ranges s W.
  cbv beta zeta delta [op_brk]. rewrite (same_get s s1 f_E Hs1 eq_refl), HE. lits.
  rewrite (same_get s s1 f_RK Hs1 eq_refl).
  rewrite push_ok by jside s W s1 Hs1 HE. rewrite bind_Ok. cbv beta. jnorm.
  rewrite push16_ok by jside s W s1 Hs1 HE. rewrite bind_Ok. cbv beta.
  cbv beta zeta delta [Flags]. rewrite bind_Ok. cbv beta. jnorm. to_initial s s1 Hs1.
  rewrite flags_val by apply W.
  rewrite push_ok by jside s W s1 Hs1 HE. rewrite bind_Ok. cbv beta. jnorm.
  rewrite nRead16_cross_rd by lia. rewrite !bind_Ok. cbv beta.
  jfin s W Hop s1 Hs1 Hm1 BRK Imm8.
Qed.

Lemma ref_02 : refines_op 2.
Proof.
  start_mode Step_imm5 2. pose_ranges s W. flag_ranges s W.
  cbv beta zeta delta [op_cop]. rewrite (same_get s s1 f_E Hs1 eq_refl), HE. lits.
  rewrite (same_get s s1 f_RK Hs1 eq_refl).
  rewrite push_ok by jside s W s1 Hs1 HE. rewrite bind_Ok. cbv beta. jnorm.
  rewrite push16_ok by jside s W s1 Hs1 HE. rewrite bind_Ok. cbv beta.
  cbv beta zeta delta [Flags]. rewrite bind_Ok. cbv beta. jnorm. to_initial s s1 Hs1.
  rewrite flags_val by apply W.
  rewrite push_ok by jside s W s1 Hs1 HE. rewrite bind_Ok. cbv beta. jnorm.
  rewrite nRead16_cross_rd by lia. rewrite !bind_Ok. cbv beta.
  jfin s W Hop s1 Hs1 Hm1 COP Imm8.
Qed.
