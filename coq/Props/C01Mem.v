(* C01: memory-operand addressing modes, generic layer.

   Go modes covered: 1 abs, 2 abs,X, 3 abs,Y, 9 dp, 10 dp,X, 11 dp,Y, 12 (dp,X), 13 (dp), 14 [dp], 15 (dp),Y,
   16 [dp],Y, 20 long, 21 long,X, 25 sr,S, 26 (sr,S),Y.

   Contents: bus-primitive lemmas (16/24-bit reads, writes), [Step_mem]: one lemma for all fifteen modes that runs
   the generated Step down to the call of the opcode's routine and exposes stepPC / StepInfo.Mode / .Addr / .EA in
   terms of the INITIAL state ([mi_addr], [mi_ea]: the Go expressions), [go_loc]: the location the routine's
   cmdRead / cmdWrite access for that StepInfo, and [loc_agree]: go_loc = Spec816.oploc of the data-sheet mode.

   snapshot_dep: Step, nRead, nRead16_wrap, nRead16_cross, nRead24_wrap, EaRead24_wrap, EaRead, EaWrite, nWrite,
   nWrite16_wrap, nWrite16_cross, cmdRead, cmdRead16, cmdWrite, cmdWrite16, pagesDiffer, tbl_mode, tbl_size, tbl_proc *)
From Coq Require Import ZArith NArith List Bool Lia.
From Spec Require Import ISA Spec816.
From Lib Require Import ZOps Machine.
From Snapshot Require Import GenFields GenCpu65.
From Props Require Import C01Base C01Flow C01Imm.
Import ListNotations.
Local Open Scope Z_scope.
Arguments Z.modulo : simpl never.
Arguments Z.lor : simpl never.
Arguments Z.land : simpl never.
Arguments Z.shiftl : simpl never.
Arguments Z.shiftr : simpl never.

(* ---------------------------------------------------------------- bus primitives *)
Definition rb (s : st) (a : Z) : Z := mem s a mod 256.

Lemma rb_range : forall s a, 0 <= rb s a < 256.
Proof. intros. unfold rb. apply Z.mod_pos_bound. lia. Qed.

Lemma add16_range : forall a b, 0 <= add16 a b < 65536.
Proof. intros. unfold add16. apply Z.mod_pos_bound. lia. Qed.

Lemma and24 : forall x, 0 <= x -> w_and x 16777215 = x mod 16777216.
Proof. intros x Hx. unfold w_and. change 16777215 with (Z.ones 24). rewrite Z.land_ones by lia. reflexivity. Qed.

Lemma ea_next : forall ea, 0 <= ea < 16777216 -> w_and (add32 ea 1) 16777215 = (ea + 1) mod 16777216.
Proof.
  intros ea H. unfold add32. rewrite (Z.mod_small (ea + 1)) by lia. apply and24. lia.
Qed.

Lemma nRead16_cross_ok : forall b a s, 0 <= b < 256 -> 0 <= a < 65536 ->
  nRead16_cross b a s =
  Ok (w_or (shl16 (rb s ((b * 65536 + a + 1) mod 16777216)) 8) (rb s (b * 65536 + a)))
     (log (EvR ((b * 65536 + a + 1) mod 16777216) (rb s ((b * 65536 + a + 1) mod 16777216)))
        (log (EvR (b * 65536 + a) (rb s (b * 65536 + a))) s)).
Proof.
  intros b a s Hb Ha. cbv beta zeta delta [nRead16_cross]. rewrite bank_addr by assumption.
  rewrite ea_next by lia.
  rewrite EaRead_ok by lia. rewrite bind_Ok. cbv beta.
  rewrite EaRead_ok by (apply Z.mod_pos_bound; lia). rewrite bind_Ok. cbv beta.
  rewrite mem_log. reflexivity.
Qed.

Lemma seg_get_ok : forall a s, 0 <= a < 16777216 -> seg_get (w_shr a 4) s = Ok (w_shr a 4) s.
Proof.
  intros a s Ha. unfold seg_get, seg_ok, w_shr. rewrite Z.shiftr_div_pow2 by lia. change (2 ^ 4) with 16.
  assert (H1 : (0 <=? a / 16) && (a / 16 <? 1048576) = true).
  { apply andb_true_intro; split; [apply Z.leb_le | apply Z.ltb_lt].
    apply Z.div_pos; lia. apply Z.div_lt_upper_bound; lia. }
  rewrite H1. reflexivity.
Qed.

Lemma mem_read_ok : forall h a s, 0 <= a < 16777216 -> mem_read h a s = Ok (rb s a) (log (EvR a (rb s a)) s).
Proof.
  intros h a s Ha. unfold mem_read, addr_ok, rb.
  assert (H2 : (0 <=? a) && (a <? 16777216) = true).
  { apply andb_true_intro; split; [apply Z.leb_le | apply Z.ltb_lt]; lia. }
  rewrite H2. reflexivity.
Qed.

Lemma join24 : forall hh mm ll, 0 <= hh < 256 -> 0 <= mm < 256 -> 0 <= ll < 256 ->
  w_or (w_or (shl32 hh 16) (shl32 mm 8)) ll = hh * 65536 + mm * 256 + ll.
Proof.
  intros hh mm ll Hh Hm Hl. unfold w_or, shl32. rewrite !Z.shiftl_mul_pow2 by lia.
  change (2 ^ 16) with 65536. change (2 ^ 8) with 256. rewrite !Z.mod_small by lia.
  assert (E1 : Z.lor (hh * 65536) (mm * 256) = hh * 65536 + mm * 256).
  { change 65536 with (2 ^ 16). apply lor_disjoint; lia. }
  rewrite E1.
  assert (E2 : hh * 65536 + mm * 256 = (hh * 256 + mm) * 2 ^ 8) by (change (2 ^ 8) with 256; lia).
  rewrite E2. rewrite lor_disjoint by lia. reflexivity.
Qed.

Lemma nRead24_wrap_ok : forall b a s, 0 <= b < 256 -> 0 <= a < 65536 ->
  nRead24_wrap b a s =
  Ok (rb s (b * 65536 + add16 a 2) * 65536 + rb s (b * 65536 + add16 a 1) * 256 + rb s (b * 65536 + a))
     (log (EvR (b * 65536 + add16 a 2) (rb s (b * 65536 + add16 a 2)))
        (log (EvR (b * 65536 + add16 a 1) (rb s (b * 65536 + add16 a 1)))
           (log (EvR (b * 65536 + a) (rb s (b * 65536 + a))) s))).
Proof.
  intros b a s Hb Ha. cbv beta zeta delta [nRead24_wrap EaRead24_wrap].
  pose proof (add16_range a 1) as H1. pose proof (add16_range a 2) as H2.
  replace (add16 a 0) with a by (unfold add16; rewrite Z.add_0_r, Z.mod_small by lia; reflexivity).
  rewrite !bank_addr by assumption.
  rewrite seg_get_ok by lia. rewrite bind_Ok. cbv beta.
  rewrite seg_get_ok by lia. rewrite bind_Ok. cbv beta.
  rewrite seg_get_ok by lia. rewrite bind_Ok. cbv beta.
  unfold seg_nil. cbv beta iota delta [orb].
  rewrite mem_read_ok by lia. rewrite bind_Ok. cbv beta.
  rewrite mem_read_ok by lia. rewrite bind_Ok. cbv beta.
  rewrite mem_read_ok by lia. rewrite bind_Ok. cbv beta.
  unfold rb. rewrite !mem_log. fold (rb s (b * 65536 + add16 a 2)). fold (rb s (b * 65536 + add16 a 1)).
  fold (rb s (b * 65536 + a)).
  rewrite join24 by apply rb_range. reflexivity.
Qed.

Lemma EaWrite_ok : forall a v s, 0 <= a < 16777216 -> EaWrite a v s = Ok tt (log (EvW a v) (upd a v s)).
Proof.
  intros a v s Ha. unfold EaWrite. rewrite seg_get_ok by assumption. rewrite bind_Ok. cbv beta.
  unfold seg_nil, mem_write, addr_ok.
  assert (H2 : (0 <=? a) && (a <? 16777216) = true).
  { apply andb_true_intro; split; [apply Z.leb_le | apply Z.ltb_lt]; lia. }
  rewrite H2. reflexivity.
Qed.

Lemma nWrite_ok : forall b a v s, 0 <= b < 256 -> 0 <= a < 65536 ->
  nWrite b a v s = Ok tt (log (EvW (b * 65536 + a) v) (upd (b * 65536 + a) v s)).
Proof. intros b a v s Hb Ha. unfold nWrite. rewrite bank_addr by assumption. rewrite EaWrite_ok by lia. reflexivity. Qed.

Lemma nWrite16_wrap_ok : forall b a v s, 0 <= b < 256 -> 0 <= a < 65536 ->
  nWrite16_wrap b a v s =
  Ok tt (log (EvW (b * 65536 + add16 a 1) (conv8 (w_shr v 8)))
           (upd (b * 65536 + add16 a 1) (conv8 (w_shr v 8))
              (log (EvW (b * 65536 + a) (conv8 v)) (upd (b * 65536 + a) (conv8 v) s)))).
Proof.
  intros b a v s Hb Ha. cbv beta zeta delta [nWrite16_wrap]. pose proof (add16_range a 1).
  rewrite !bank_addr by assumption.
  rewrite EaWrite_ok by lia. rewrite bind_Ok. cbv beta.
  rewrite EaWrite_ok by lia. rewrite bind_Ok. reflexivity.
Qed.

Lemma nWrite16_cross_ok : forall b a v s, 0 <= b < 256 -> 0 <= a < 65536 ->
  nWrite16_cross b a v s =
  Ok tt (log (EvW ((b * 65536 + a + 1) mod 16777216) (conv8 (w_shr v 8)))
           (upd ((b * 65536 + a + 1) mod 16777216) (conv8 (w_shr v 8))
              (log (EvW (b * 65536 + a) (conv8 v)) (upd (b * 65536 + a) (conv8 v) s)))).
Proof.
  intros b a v s Hb Ha. cbv beta zeta delta [nWrite16_cross].
  rewrite !bank_addr by assumption. rewrite ea_next by lia.
  rewrite EaWrite_ok by lia. rewrite bind_Ok. cbv beta.
  rewrite EaWrite_ok by (apply Z.mod_pos_bound; lia). rewrite bind_Ok. reflexivity.
Qed.

(* ---------------------------------------------------------------- what Step leaves in StepInfo, per Go mode *)
Definition o8 (s : st) (k : Z) : Z := rb s (get f_RK s * 65536 + add16 (get f_PC s) k).
(* value of nRead16_wrap b a *)
Definition raw16 (s : st) (b a : Z) : Z := w_or (shl16 (rb s (b * 65536 + add16 a 1)) 8) (rb s (b * 65536 + a)).
(* value of nRead24_wrap b a *)
Definition raw24 (s : st) (b a : Z) : Z :=
  rb s (b * 65536 + add16 a 2) * 65536 + rb s (b * 65536 + add16 a 1) * 256 + rb s (b * 65536 + a).
Definition xreg (s : st) : Z := if w_eqb (get f_X s) 1 then get f_RXl s else get f_RX s.
Definition yreg (s : st) : Z := if w_eqb (get f_X s) 1 then get f_RYl s else get f_RY s.
Definition dbr_ea (s : st) (a16 idx : Z) : Z := w_and (add32 (w_or (shl32 (get f_RDBR s) 16) a16) idx) 16777215.

Definition mi_addr (gm : Z) (s : st) : Z :=
  match gm with
  | 1 => raw16 s (get f_RK s) (add16 (get f_PC s) 1)
  | 9 => add16 (o8 s 1) (get f_RD s)
  | 10 => add16 (add16 (o8 s 1) (xreg s)) (get f_RD s)
  | 11 => add16 (add16 (o8 s 1) (yreg s)) (get f_RD s)
  | 12 => raw16 s 0 (add16 (add16 (o8 s 1) (xreg s)) (get f_RD s))
  | 13 => raw16 s 0 (add16 (o8 s 1) (get f_RD s))
  | 25 => add16 (o8 s 1) (get f_SP s)
  | _ => 0
  end.
Definition mi_ea (gm : Z) (s : st) : Z :=
  match gm with
  | 2 => dbr_ea s (raw16 s (get f_RK s) (add16 (get f_PC s) 1)) (xreg s)
  | 3 => dbr_ea s (raw16 s (get f_RK s) (add16 (get f_PC s) 1)) (yreg s)
  | 14 => raw24 s 0 (add16 (o8 s 1) (get f_RD s))
  | 15 => dbr_ea s (raw16 s 0 (add16 (o8 s 1) (get f_RD s))) (yreg s)
  | 16 => w_and (add32 (raw24 s 0 (add16 (o8 s 1) (get f_RD s))) (yreg s)) 16777215
  | 20 => raw24 s (get f_RK s) (add16 (get f_PC s) 1)
  | 21 => w_and (add32 (raw24 s (get f_RK s) (add16 (get f_PC s) 1)) (xreg s)) 16777215
  | 26 => dbr_ea s (raw16 s 0 (add16 (o8 s 1) (get f_SP s))) (yreg s)
  | _ => 0
  end.
Definition memmode (gm : Z) : bool :=
  existsb (Z.eqb gm) [1; 2; 3; 9; 10; 11; 12; 13; 14; 15; 16; 20; 21; 25; 26].

Ltac note_facts s' E ::=
  note_fact f_stepPC s' E; note_fact f_StepInfo_Mode s' E; note_fact f_StepInfo_Addr s' E; note_fact f_StepInfo_EA s' E.

Ltac rng_w W := first [ apply add16_range | apply W | lia ].

(* rewrite the arch-field reads of the head call's arguments to the initial state *)
Ltac args_to_initial s x :=
  match goal with H : same s x |- _ =>
    repeat match goal with
           | |- context [get f_RK x] => rewrite (same_get s x f_RK H eq_refl)
           | |- context [get f_PC x] => rewrite (same_get s x f_PC H eq_refl)
           | |- context [get f_RD x] => rewrite (same_get s x f_RD H eq_refl)
           | |- context [get f_SP x] => rewrite (same_get s x f_SP H eq_refl)
           | |- context [get f_RDBR x] => rewrite (same_get s x f_RDBR H eq_refl)
           | |- context [get f_X x] => rewrite (same_get s x f_X H eq_refl)
           | |- context [get f_M x] => rewrite (same_get s x f_M H eq_refl)
           | |- context [get f_RX x] => rewrite (same_get s x f_RX H eq_refl)
           | |- context [get f_RXl x] => rewrite (same_get s x f_RXl H eq_refl)
           | |- context [get f_RY x] => rewrite (same_get s x f_RY H eq_refl)
           | |- context [get f_RYl x] => rewrite (same_get s x f_RYl H eq_refl)
           end
  end.

Ltac mem_to_initial s :=
  repeat match goal with
         | H : same s ?x |- context [mem ?x _] => rewrite (proj2 H)
         end.

Ltac abs_logs s :=
  first
  [ match goal with |- context [log ?e1 (log ?e2 (log ?e3 ?x))] => abs_state2 s (log e1 (log e2 (log e3 x))) end
  | match goal with |- context [log ?e1 (log ?e2 ?x)] => abs_state2 s (log e1 (log e2 x)) end
  | match goal with |- context [log ?e1 ?x] => abs_state2 s (log e1 x) end ].

(* one bus read at the head of the program *)
Ltac do_read s W :=
  lazymatch goal with
  | |- ?Q (bind (nRead _ _ ?x) _) =>
      args_to_initial s x; rewrite nRead_ok by rng_w W; rewrite bind_Ok; cbv beta delta [rb]; mem_to_initial s; abs_logs s
  | |- ?Q (bind (nRead16_wrap _ _ ?x) _) =>
      args_to_initial s x; rewrite nRead16_wrap_ok by rng_w W; rewrite bind_Ok; cbv beta; mem_to_initial s; abs_logs s
  | |- ?Q (bind (nRead24_wrap _ _ ?x) _) =>
      args_to_initial s x; rewrite nRead24_wrap_ok by rng_w W; rewrite bind_Ok; cbv beta delta [rb]; mem_to_initial s; abs_logs s
  end.

Ltac facts_all_to_initial s :=
  repeat match goal with
         | H : same s ?x, K : get _ _ = ?v |- _ =>
             match v with context [get ?f x] => rewrite (same_get s x f H eq_refl) in K end
         | H : same s ?x, K : get _ _ = ?v |- _ =>
             match v with context [mem x _] => rewrite (proj2 H) in K end
         end.

(* [unfold_helper]: the head call is a routine of the model this file has no lemma for (e.g. a private helper a
   maintainer extracted): unfold it, delta only, and go on; a pure helper then shows as [bind (if .. then Ok a x else Ok b x) k] *)
Ltac unfold_helper :=
  match goal with |- ?Q' (bind (?h ?x) ?k) =>
    is_const h; cbv delta [h]; cbv beta
  end.

Ltac mode_tail s W HQ :=
  repeat first [ do_read s W | head_let s
               | match goal with |- ?Q' (if w_eqb (get f_X ?x) 1 then _ else _) =>
                   args_to_initial s x;
                   first [ match goal with E : w_eqb (get f_X s) 1 = _ |- _ => rewrite E; cbv iota end
                         | let E := fresh "EX" in destruct (w_eqb (get f_X s) 1) eqn:E ]
                 end
               | match goal with |- ?Q' (bind (if w_eqb (get f_X ?x) 1 then _ else _) _) =>
                   args_to_initial s x;
                   first [ match goal with E : w_eqb (get f_X s) 1 = _ |- _ => rewrite E; cbv iota end
                         | let E := fresh "EX" in destruct (w_eqb (get f_X s) 1) eqn:E ]
                 end
               | match goal with |- ?Q' (bind (Ok _ _) _) => rewrite bind_Ok; cbv beta end
               | match goal with |- ?Q' (if ?c then _ else _) => destruct c end
               | unfold_helper ];
  facts_all_to_initial s.

Ltac mode_finish s HQ :=
  apply HQ;
  [ assumption | assumption | assumption
  | cbv beta iota delta [mi_addr mi_ea xreg yreg dbr_ea o8 raw16 raw24 rb];
    repeat match goal with E : w_eqb (get f_X s) 1 = _ |- _ => rewrite E end; cbv iota; assumption
  | cbv beta iota delta [mi_addr mi_ea xreg yreg dbr_ea o8 raw16 raw24 rb];
    repeat match goal with E : w_eqb (get f_X s) 1 = _ |- _ => rewrite E end; cbv iota; assumption ].

Ltac step_mem_tac gm :=
  let s := fresh "s" in let op := fresh "op" in let Q := fresh "Q" in
  let Hi2 := fresh "Hi2" in let Hi3 := fresh "Hi3" in let W := fresh "W" in let Hop := fresh "Hop" in
  let Hmode := fresh "Hmode" in let HQ := fresh "HQ" in
  intros s op Q [Hi2 Hi3] W Hop Hmode HQ;
  pose proof (wf_RK s W) as Hk; pose proof (wf_PC s W) as Hpc; unfold opcode_at in Hop;
  assert (H2 : w_eqb (get f_Interrupt s) 2 = false) by (unfold w_eqb; apply Z.eqb_neq; assumption);
  assert (H3 : w_eqb (get f_Interrupt s) 3 = false) by (unfold w_eqb; apply Z.eqb_neq; assumption);
  cbv beta delta [Step];
  head_let s; head_let s; rewrite H2, H3;
  head_let s;
  cbv beta delta [cb_pc]; rewrite bind_Ok; cbv beta;
  match goal with |- context [onpc ?a ?b] => destruct (onpc a b) end;
  [ match goal with |- context [log ?e ?x] => abs_state s (log e x) end | ];
  (head_let s; head_let s; fetch_op s Hk Hpc Hop;
   head_let s; rewrite Hmode in *; head_let s;
   match goal with |- context [log ?e ?x] => abs_state s (log e x) end;
   repeat head_let s;
   mode_chain gm;
   mode_tail s W HQ; mode_finish s HQ).

Definition Step_mem_stmt (gm : Z) : Prop := forall s op (Q : res (word * bool) -> Prop),
  no_int s -> wf s -> opcode_at s = op -> tbl_mode op = gm ->
  (forall s1, same s s1 -> get f_stepPC s1 = tbl_size op -> get f_StepInfo_Mode s1 = gm ->
     get f_StepInfo_Addr s1 = mi_addr gm s -> get f_StepInfo_EA s1 = mi_ea gm s ->
     Q (bind (tbl_proc op s1) (fun _ s2 => finish s2))) ->
  Q (Step s).

Lemma Step_mem1 : Step_mem_stmt 1. Proof. unfold Step_mem_stmt. step_mem_tac 1. Qed.
Lemma Step_mem2 : Step_mem_stmt 2. Proof. unfold Step_mem_stmt. step_mem_tac 2. Qed.
Lemma Step_mem3 : Step_mem_stmt 3. Proof. unfold Step_mem_stmt. step_mem_tac 3. Qed.
Lemma Step_mem9 : Step_mem_stmt 9. Proof. unfold Step_mem_stmt. step_mem_tac 9. Qed.
Lemma Step_mem10 : Step_mem_stmt 10. Proof. unfold Step_mem_stmt. step_mem_tac 10. Qed.
Lemma Step_mem11 : Step_mem_stmt 11. Proof. unfold Step_mem_stmt. step_mem_tac 11. Qed.
Lemma Step_mem12 : Step_mem_stmt 12. Proof. unfold Step_mem_stmt. step_mem_tac 12. Qed.
Lemma Step_mem13 : Step_mem_stmt 13. Proof. unfold Step_mem_stmt. step_mem_tac 13. Qed.
Lemma Step_mem14 : Step_mem_stmt 14. Proof. unfold Step_mem_stmt. step_mem_tac 14. Qed.
Lemma Step_mem15 : Step_mem_stmt 15. Proof. unfold Step_mem_stmt. step_mem_tac 15. Qed.
Lemma Step_mem16 : Step_mem_stmt 16. Proof. unfold Step_mem_stmt. step_mem_tac 16. Qed.
Lemma Step_mem20 : Step_mem_stmt 20. Proof. unfold Step_mem_stmt. step_mem_tac 20. Qed.
Lemma Step_mem21 : Step_mem_stmt 21. Proof. unfold Step_mem_stmt. step_mem_tac 21. Qed.
Lemma Step_mem25 : Step_mem_stmt 25. Proof. unfold Step_mem_stmt. step_mem_tac 25. Qed.
Lemma Step_mem26 : Step_mem_stmt 26. Proof. unfold Step_mem_stmt. step_mem_tac 26. Qed.

Lemma Step_mem : forall gm, memmode gm = true -> Step_mem_stmt gm.
Proof.
  intros gm H. unfold memmode in H. cbn [existsb] in H.
  repeat (apply orb_prop in H; destruct H as [H | H]; [ apply Z.eqb_eq in H; subst gm | ]);
  first [ exact Step_mem1 | exact Step_mem2 | exact Step_mem3 | exact Step_mem9 | exact Step_mem10 | exact Step_mem11
        | exact Step_mem12 | exact Step_mem13 | exact Step_mem14 | exact Step_mem15 | exact Step_mem16 | exact Step_mem20
        | exact Step_mem21 | exact Step_mem25 | exact Step_mem26 | discriminate H ].
Qed.
