(* C01, ADC / SBC: the 8-bit cores of C01AdcCore.v equal the arithmetic of Spec816.do_adc / do_sbc, binary and
   decimal, by exhaustion over the 2^17 triples (a, b, carry-in) inside Coq.

   snapshot_dep: (none) *)
From Coq Require Import ZArith NArith List Bool Lia.
From Spec Require Import ISA Spec816.
From Lib Require Import ZOps Machine.
From Snapshot Require Import GenFields GenCpu65.
From Props Require Import C01Base C01AdcCore.
Local Open Scope Z_scope.
Arguments Z.modulo : simpl never.
Arguments Z.lor : simpl never.
Arguments Z.land : simpl never.
Arguments Z.shiftl : simpl never.
Arguments Z.shiftr : simpl never.

(* ---------------------------------------------------------------- 8 bits: exhaustion over (a, b, c) *)
Notation chk8 P :=
  (all_below 17 0 (fun v => P (v mod 256) ((v / 256) mod 256) (v / 65536))) (only parsing).
(* (a notation, not a definition: the kernel must never be tempted to unfold [all_below 17]) *)
Lemma chk8_sound : forall P : Z -> Z -> Z -> bool, chk8 P = true ->
  forall a b c, 0 <= a < 256 -> 0 <= b < 256 -> 0 <= c <= 1 -> P a b c = true.
Proof.
  intros P H a b c Ha Hb Hc.
  assert (E1 : (a + 256 * b + 65536 * c) mod 256 = a) by (Z.div_mod_to_equations; lia).
  assert (E2 : ((a + 256 * b + 65536 * c) / 256) mod 256 = b) by (Z.div_mod_to_equations; lia).
  assert (E3 : (a + 256 * b + 65536 * c) / 65536 = c) by (Z.div_mod_to_equations; lia).
  assert (R : 0 <= a + 256 * b + 65536 * c < 0 + 2 ^ Z.of_nat 17) by (change (2 ^ Z.of_nat 17) with 131072; lia).
  generalize (all_below_sound 17 0 (fun v => P (v mod 256) ((v / 256) mod 256) (v / 65536)) H _ R).
  cbv beta. rewrite E1, E2, E3. exact (fun x => x).
Qed.

Definition beq (x y : bool) : bool := Bool.eqb x y.

Definition adc8_bin_chk (a b c : Z) : bool :=
  (adc8_res a b c false =? (a + b + c) mod 256) &&
  beq (adc8_C a b c false) (256 <=? a + b + c) &&
  beq (adc8_V a b c false) (oflow W8 (signed W8 a + signed W8 b + c)).
Definition sbc8_bin_chk (a b c : Z) : bool :=
  (sbc8_res a b c false =? (a - b - (1 - c)) mod 256) &&
  beq (sbc8_C a b c false) (0 <=? a - b - (1 - c)) &&
  beq (sbc8_V a b c false) (oflow W8 (signed W8 a - signed W8 b - (1 - c))).
Definition adc8_dec_chk (a b c : Z) : bool :=
  if bcd_valid W8 a && bcd_valid W8 b then
    ((adc8_res a b c true =? to_bcd ((of_bcd a + of_bcd b + c) mod 100)) &&
     beq (adc8_C a b c true) (100 <=? of_bcd a + of_bcd b + c)) else true.
Definition sbc8_dec_chk (a b c : Z) : bool :=
  if bcd_valid W8 a && bcd_valid W8 b then
    ((sbc8_res a b c true =? to_bcd ((of_bcd a - of_bcd b - (1 - c)) mod 100)) &&
     beq (sbc8_C a b c true) (0 <=? of_bcd a - of_bcd b - (1 - c))) else true.

Lemma adc8_bin_all : chk8 adc8_bin_chk = true. Proof. vm_cast_no_check (eq_refl true). Qed.
Lemma sbc8_bin_all : chk8 sbc8_bin_chk = true. Proof. vm_cast_no_check (eq_refl true). Qed.
Lemma adc8_dec_all : chk8 adc8_dec_chk = true. Proof. vm_cast_no_check (eq_refl true). Qed.
Lemma sbc8_dec_all : chk8 sbc8_dec_chk = true. Proof. vm_cast_no_check (eq_refl true). Qed.

Ltac split_chk K :=
  repeat match type of K with
         | (_ && _) = true => let K1 := fresh "K" in apply andb_prop in K; destruct K as [K K1]; split_chk K1
         end.
Ltac close_chk :=
  first [ (apply Z.eqb_eq; assumption) | (apply Bool.eqb_prop; assumption) ].

Theorem adc8_bin : forall a b c, 0 <= a < 256 -> 0 <= b < 256 -> 0 <= c <= 1 ->
  adc8_res a b c false = (a + b + c) mod 256 /\
  adc8_C a b c false = (256 <=? a + b + c) /\
  adc8_V a b c false = oflow W8 (signed W8 a + signed W8 b + c).
Proof.
  intros a b c Ha Hb Hc. pose proof (chk8_sound _ adc8_bin_all a b c Ha Hb Hc) as K.
  unfold adc8_bin_chk, beq in K. split_chk K. repeat split; close_chk.
Qed.
Theorem sbc8_bin : forall a b c, 0 <= a < 256 -> 0 <= b < 256 -> 0 <= c <= 1 ->
  sbc8_res a b c false = (a - b - (1 - c)) mod 256 /\
  sbc8_C a b c false = (0 <=? a - b - (1 - c)) /\
  sbc8_V a b c false = oflow W8 (signed W8 a - signed W8 b - (1 - c)).
Proof.
  intros a b c Ha Hb Hc. pose proof (chk8_sound _ sbc8_bin_all a b c Ha Hb Hc) as K.
  unfold sbc8_bin_chk, beq in K. split_chk K. repeat split; close_chk.
Qed.
Theorem adc8_dec : forall a b c, 0 <= a < 256 -> 0 <= b < 256 -> 0 <= c <= 1 ->
  bcd_valid W8 a = true -> bcd_valid W8 b = true ->
  adc8_res a b c true = to_bcd ((of_bcd a + of_bcd b + c) mod 100) /\
  adc8_C a b c true = (100 <=? of_bcd a + of_bcd b + c).
Proof.
  intros a b c Ha Hb Hc Va Vb. pose proof (chk8_sound _ adc8_dec_all a b c Ha Hb Hc) as K.
  unfold adc8_dec_chk, beq in K. rewrite Va, Vb in K. cbn [andb] in K. cbv iota in K. split_chk K. repeat split; close_chk.
Qed.
Theorem sbc8_dec : forall a b c, 0 <= a < 256 -> 0 <= b < 256 -> 0 <= c <= 1 ->
  bcd_valid W8 a = true -> bcd_valid W8 b = true ->
  sbc8_res a b c true = to_bcd ((of_bcd a - of_bcd b - (1 - c)) mod 100) /\
  sbc8_C a b c true = (0 <=? of_bcd a - of_bcd b - (1 - c)).
Proof.
  intros a b c Ha Hb Hc Va Vb. pose proof (chk8_sound _ sbc8_dec_all a b c Ha Hb Hc) as K.
  unfold sbc8_dec_chk, beq in K. rewrite Va, Vb in K. cbn [andb] in K. cbv iota in K. split_chk K. repeat split; close_chk.
Qed.

