(* Vocabulary of the per-run correspondence files build/work/Run/Cases_C10_*.v (definitions only).
   A case = a history (list op) + what the Go harness observed when it ran that history on the real
   code: per call the projected result, and the final image as the runs that differ from the initial
   one.  [agrees] runs the model (Model.Rom.run) on the same history and compares; the per-run file
   states  bad = []  and the kernel checks it by vm_compute.
   Data longer than 64 bytes is shipped as (length, rolling digest) -- Coq needs minutes to parse
   10^5 literals -- so for those the comparison is up to a collision of a 63-bit rolling hash. *)
From Coq Require Import ZArith List Bool Uint63.
From Lib Require Import ZList.
From Model Require Import Rom.
Import ListNotations.
Local Open Scope Z_scope.

Definition dmix (h : int) (b : Z) : int := (h * 1000003 + Uint63.of_Z b + 1)%uint63.
Definition digest (l : list Z) : int := fold_left dmix l 0%uint63.

Inductive data := Lit (l : list Z) | Dig (n : Z) (h : int).

Definition data_len (d : data) : Z := match d with Lit l => zlen l | Dig n _ => n end.
Definition data_eqb (got : list Z) (d : data) : bool :=
  match d with
  | Lit l => list_eqb got l
  | Dig n h => (zlen got =? n) && (digest got =? h)%uint63
  end.

(* observed: WOther = a result outside the model's vocabulary (an error that is neither nil, EOF
   nor ErrUnexpectedEOF): agrees with nothing *)
Inductive want := WNew | WPanic | WRead (n : Z) (d : data) (e : err) | WWrite (n : Z) (e : err) | WOther.

Definition obs_agree (o : obs) (w : want) : bool :=
  match o, w with
  | ObsNew, WNew => true
  | ObsPanic, WPanic => true
  | ObsRead bs e, WRead n d f => (zlen bs =? n) && data_eqb bs d && err_eqb e f
  | ObsWrite n e, WWrite m f => (n =? m) && err_eqb e f
  | _, _ => false
  end.

Fixpoint all_agree (os : list obs) (ws : list want) : bool :=
  match os, ws with
  | [], [] => true
  | o :: os', w :: ws' => obs_agree o w && all_agree os' ws'
  | _, _ => false
  end.

(* [runs]: ascending, disjoint; between them (and after the last) the image equals the initial one *)
Fixpoint image_agree (got init : list Z) (from : Z) (runs : list (Z * data)) : bool :=
  match runs with
  | [] => list_eqb (zdrop from got) (zdrop from init)
  | (a, d) :: rs =>
      (from <=? a) && list_eqb (slice got from a) (slice init from a) &&
      data_eqb (slice got a (a + data_len d)) d && image_agree got init (a + data_len d) rs
  end.

Definition case := (list op * list want * list (Z * data))%type.

Definition agrees (img : image) (c : case) : bool :=
  let '(ops, ws, runs) := c in
  let '(st, os) := run (mkState img [] []) ops in
  all_agree os ws && (zlen (st_img st) =? zlen img) && image_agree (st_img st) img 0 runs.

(* numbers of the cases of one image size on which model and implementation differ *)
Definition bad_in (big : image) (size : Z) (cs : list (Z * case)) : list Z :=
  let img := ztake size big in
  map fst (filter (fun c => negb (agrees img (snd c))) cs).

(* what the model answers on a history (used to explain a disagreement and by --replay) *)
Definition summary (o : obs) : Z * Z * Z * list Z :=
  match o with
  | ObsNew => (0, 0, 0, [])
  | ObsPanic => (1, 0, 0, [])
  | ObsRead bs e => (2, zlen bs, match e with ENil => 0 | EEOF => 1 | EUnexpectedEOF => 2 end, ztake 24 bs)
  | ObsWrite n e => (3, n, match e with ENil => 0 | EEOF => 1 | EUnexpectedEOF => 2 end, [])
  end.
Definition model_says (seed size : Z) (ops : list op) : list (Z * Z * Z * list Z) :=
  map summary (snd (run (mkState (mkimg seed 0 size) [] []) ops)).
