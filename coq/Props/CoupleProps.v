(* CoupleProps: property C07 -- code accepted by the assembler is decoded by the CPU at the same
   instruction boundaries.

   Static part.  The CPU is ABSTRACT here: any step function satisfying [len_contract] (one step over a
   straight-line opcode advances PC by the architectural length of Spec/ISA.v under the current M / X,
   keeps the program bank, changes M / X only for REP / SEP by the operand byte, changes memory only
   where it reports a write).  The per-run files prove [len_contract] for both regenerated interpreter
   models (checks/cpucouple.py) and instantiate [C07_couple].  The assembler is Model/Emitter.v; which
   bytes / guard / tracker update a method call amounts to comes from the regenerated descriptors
   (Model/EmitDesc.v) through the boolean check [couple_ok], computed per run. *)
From Coq Require Import ZArith List Bool Lia NArith String.
From Lib Require Import ZList.
From Spec Require Import ISA EmitSpec.
From Model Require Import EmitDesc Emitter.
From Props Require Import CoupleLib EncProps.
Import ListNotations.
Local Open Scope Z_scope.

(* FULL STATEMENT of C07 (DESIGN.md): for every op list accepted by Model.Emitter with no control transfer
   that is TAKEN, no PLP / RTI, truthful Assume* after the first emission, on either CPU in native mode: the
   sequence of PBR:PC values at which Step fetches = the instruction starts the emitter recorded (block moves
   repeating their own start), final (M, X) = (not IsM16bit, not IsX16bit); and an immediate method is refused
   iff its operand size differs from the tracked width.
   PROVED here (C07_couple / C07_couple_patched, instantiated per run as C07_partial_<model>): the same where the
   program may contain, besides the 227 straight-line opcodes, the eight CONDITIONAL BRANCHES ($10 $30 $50 $70 $90 $B0
   $D0 $F0; rel8 and label-taking emitter methods) under the run hypothesis [nottaken]: whenever the CPU reaches a
   conditional branch its condition is false.  With a label-taking method the operand byte is a placeholder until
   Finalize: C07_couple_patched lets memory hold ANY byte there (a branch that is not taken never uses it).
   Still missing (hence _partial): the block moves MVN / MVP (the fetch sequence stutters on the instruction's own
   start), WAI / STP (halt), XCE (may leave native mode), and every instruction that always transfers control (BRA BRL
   JMP JML JSR JSL RTS RTL RTI BRK COP) or restores M / X from the stack (PLP); the refusal half is complete.
   The statement of the previous version (no branch instruction at all) is the instance [brs := fun _ => false]:
   C07_couple_nobranch. *)

(* ------------------------------------------------------------------ straight-line opcodes *)
(* excluded: branches (taken or not is a property of the run, not of the program text), jumps, calls,
   returns, software interrupts, PLP / RTI (M, X restored from the stack), XCE (may enter emulation
   mode), STP / WAI (halt), MVN / MVP (repeat their own address) *)
Definition straight_mn (mn : ISA.mnem) : bool :=
  match mn with
  | BCC | BCS | BEQ | BMI | BNE | BPL | BRA | BRL | BVC | BVS
  | JML | JMP | JSL | JSR | RTI | RTL | RTS | BRK | COP | PLP | XCE | STP | WAI | MVN | MVP => false
  | _ => true
  end.
Definition straight (op : Z) : bool := (0 <=? op) && (op <? 256) && straight_mn (ISA.mnem_of op).

(* M / X after the instruction; o = the byte that follows the opcode *)
Definition new_m (op m o : Z) : Z := if op =? 194 then rep_val m o 5 else if op =? 226 then sep_val m o 5 else m.
Definition new_x (op x o : Z) : Z := if op =? 194 then rep_val x o 4 else if op =? 226 then sep_val x o 4 else x.

Definition addr24 (rk pc : Z) : Z := rk * 65536 + pc.

(* ------------------------------------------------------------------ conditional branches *)
(* BPL BMI BVC BVS BCC BCS BNE BEQ (BRA / BRL are always taken: never sequential) *)
Definition cond_ops : list Z := [16; 48; 80; 112; 144; 176; 208; 240].
Definition cond_branch (op : Z) : bool := existsb (Z.eqb op) cond_ops.
Definition cond_mn (mn : ISA.mnem) : bool :=
  match mn with BPL | BMI | BVC | BVS | BCC | BCS | BNE | BEQ => true | _ => false end.

(* the branch condition, from the status flags N V C Z given as 0 / 1 (WDC: BPL N=0, BMI N=1, BVC V=0, BVS V=1,
   BCC C=0, BCS C=1, BNE Z=0, BEQ Z=1); anything else counts as taken *)
Definition br_taken (op fn fv fc fz : Z) : bool :=
  match op with
  | 16 => fn =? 0 | 48 => negb (fn =? 0)
  | 80 => fv =? 0 | 112 => negb (fv =? 0)
  | 144 => fc =? 0 | 176 => negb (fc =? 0)
  | 208 => fz =? 0 | 240 => negb (fz =? 0)
  | _ => true
  end.

(* cond_ops are exactly the opcodes of Spec/ISA.v's eight conditional-branch mnemonics, none of them is straight-line,
   each is two bytes long whatever M / X, and br_taken tests the flag its mnemonic names *)
Lemma cond_branch_isa : forallb (fun op => Bool.eqb (cond_branch op) (cond_mn (ISA.mnem_of op))) (map Z.of_nat (seq 0 256)) = true.
Proof. vm_compute. reflexivity. Qed.
Lemma cond_branch_in op : cond_branch op = true <-> In op cond_ops.
Proof.
  unfold cond_branch. rewrite existsb_exists. split.
  - intros [y [Hin Hy]]. apply Z.eqb_eq in Hy. subst y. exact Hin.
  - intro Hin. exists op. split; [exact Hin | apply Z.eqb_refl].
Qed.
Ltac cond_cases H :=
  apply cond_branch_in in H; cbv [cond_ops In] in H;
  repeat (destruct H as [H | H]; [symmetry in H; subst | ]); [ .. | contradiction ].
Lemma cond_not_straight op : cond_branch op = true -> straight op = false.
Proof. intro H. cond_cases H; reflexivity. Qed.
Lemma cond_length op m8 x8 : cond_branch op = true -> ISA.op_length op m8 x8 = 2.
Proof. intro H. cond_cases H; destruct m8, x8; reflexivity. Qed.
Lemma cond_new_mx op m x o : cond_branch op = true -> new_m op m o = m /\ new_x op x o = x.
Proof. intro H. cond_cases H; split; reflexivity. Qed.
Lemma br_taken_isa op fn fv fc fz : cond_branch op = true ->
  br_taken op fn fv fc fz =
  match ISA.mnem_of op with
  | BPL => fn =? 0 | BMI => negb (fn =? 0) | BVC => fv =? 0 | BVS => negb (fv =? 0)
  | BCC => fc =? 0 | BCS => negb (fc =? 0) | BNE => fz =? 0 | BEQ => negb (fz =? 0)
  | _ => true
  end.
Proof. intro H. cond_cases H; reflexivity. Qed.

(* ------------------------------------------------------------------ block moves *)
(* MVP $44, MVN $54: one byte per Step; the instruction is re-executed (PC stays) until the count C wraps, then PC
   advances by its length 3 *)
Definition move_op (op : Z) : bool := (op =? 68) || (op =? 84).
Definition move_mn (mn : ISA.mnem) : bool := match mn with MVN | MVP => true | _ => false end.
Lemma move_op_isa : forallb (fun op => Bool.eqb (move_op op) (move_mn (ISA.mnem_of op))) (map Z.of_nat (seq 0 256)) = true.
Proof. vm_compute. reflexivity. Qed.
Lemma move_cases op : move_op op = true -> op = 68 \/ op = 84.
Proof. unfold move_op. intro H. apply orb_true_iff in H. destruct H as [H|H]; apply Z.eqb_eq in H; auto. Qed.
Lemma move_not_straight op : move_op op = true -> straight op = false /\ cond_branch op = false.
Proof. intro H. destruct (move_cases op H) as [->| ->]; split; reflexivity. Qed.
Lemma move_length op m8 x8 : move_op op = true -> ISA.op_length op m8 x8 = 3.
Proof. intro H. destruct (move_cases op H) as [->| ->]; destruct m8, x8; reflexivity. Qed.
Lemma move_new_mx op m x o : move_op op = true -> new_m op m o = m /\ new_x op x o = x.
Proof. intro H. destruct (move_cases op H) as [->| ->]; split; reflexivity. Qed.

(* ------------------------------------------------------------------ the abstract CPU *)
Section Abstract.
  Variable S : Type.
  Variable step : S -> option S.              (* None = the interpreter panicked *)
  Variable ok : S -> Prop.                    (* native mode, no interrupt pending, well-formed *)
  Variables gpc grk gm gx : S -> Z.
  Variable gmem : S -> Z -> Z.
  Variable wrote : S -> S -> Z -> Prop.       (* the step reported a write to this address *)
  Variables gfn gfv gfc gfz : S -> Z.         (* status flags N V C Z as 0 / 1 *)
  Variable brs : Z -> bool.                   (* the conditional-branch (and block-move) opcodes admitted in programs *)

  Definition ok_ranges : Prop := forall s, ok s ->
    0 <= gpc s < 65536 /\ 0 <= grk s < 256 /\ (gm s = 0 \/ gm s = 1) /\ (gx s = 0 \/ gx s = 1).

  Definition operand (s : S) : Z := gmem s (addr24 (grk s) ((gpc s + 1) mod 65536)) mod 256.

  Definition len_contract : Prop := forall s op, ok s -> straight op = true ->
    gmem s (addr24 (grk s) (gpc s)) mod 256 = op ->
    exists s', step s = Some s' /\ ok s' /\ grk s' = grk s /\
      gpc s' = (gpc s + ISA.op_length op (gm s =? 1) (gx s =? 1)) mod 65536 /\
      gm s' = new_m op (gm s) (operand s) /\ gx s' = new_x op (gx s) (operand s) /\
      forall a, gmem s' a = gmem s a \/ wrote s s' a.

  Definition opcode_at (s : S) : Z := gmem s (addr24 (grk s) (gpc s)) mod 256.

  (* the clause for the conditional branches: if the condition is false the instruction is a two-byte no-op *)
  Definition br_contract : Prop := forall s op, ok s -> brs op = true -> cond_branch op = true ->
    opcode_at s = op -> br_taken op (gfn s) (gfv s) (gfc s) (gfz s) = false ->
    exists s', step s = Some s' /\ ok s' /\ grk s' = grk s /\ gpc s' = (gpc s + 2) mod 65536 /\
      gm s' = gm s /\ gx s' = gx s /\ forall a, gmem s' a = gmem s a.

  (* n steps: the addresses at which an opcode was fetched, and the final state *)
  Fixpoint fetches (n : nat) (s : S) : option (list Z * S) :=
    match n with
    | O => Some ([], s)
    | Datatypes.S k =>
        match step s with
        | None => None
        | Some s' =>
            match fetches k s' with
            | None => None
            | Some (l, sf) => Some (addr24 (grk s) (gpc s) :: l, sf)
            end
        end
    end.

  (* none of the first n steps reports a write into [lo, hi) *)
  Fixpoint nowrite (n : nat) (s : S) (lo hi : Z) : Prop :=
    match n with
    | O => True
    | Datatypes.S k =>
        match step s with
        | None => True
        | Some s' => (forall a, lo <= a < hi -> ~ wrote s s' a) /\ nowrite k s' lo hi
        end
    end.

  (* run hypothesis: whenever one of the first n steps starts on an admitted conditional branch, its condition is false *)
  Fixpoint nottaken (n : nat) (s : S) : Prop :=
    match n with
    | O => True
    | Datatypes.S k =>
        (brs (opcode_at s) = true -> cond_branch (opcode_at s) = true ->
         br_taken (opcode_at s) (gfn s) (gfv s) (gfc s) (gfz s) = false) /\
        match step s with
        | None => True
        | Some s' => nottaken k s'
        end
    end.

  Lemma nowrite_mono : forall m s lo hi lo' hi', lo <= lo' -> hi' <= hi -> nowrite m s lo hi -> nowrite m s lo' hi'.
  Proof.
    induction m as [|m IHm]; intros s lo hi lo' hi' Hlo Hhi; cbn [nowrite]; [intros; exact I|].
    destruct (step s) as [s2|]; [|intros; exact I]. intros [H1 H2]. split; [|eapply IHm; eassumption].
    intros a Ha. apply H1. lia.
  Qed.

  (* ---------------------------------------------------------------- straight-line programs *)
  Definition mbit (e : em) : Z := if IsM16bit e then 0 else 1.
  Definition xbit (e : em) : Z := if IsX16bit e then 0 else 1.

  (* what an instruction method call must amount to (shown for the regenerated descriptors by [couple_ok]):
     byte-valued, opcode first and straight-line or an admitted conditional branch / block move, as many bytes as the emit routine
     advances by, a label operand only with a conditional branch,
     tracker update exactly for REP / SEP with the emitted mask, and -- whenever the width guard lets the
     call through -- as long as the architectural length under the TRACKED widths *)
  Definition ins_ok (k : ikind) (d : list Z) (l : lbl) (t : track) (g : Emitter.guard) : Prop :=
    exists opc rest,
      d = opc :: rest /\
      (straight opc = true \/ (cond_branch opc = true /\ brs opc = true) \/ (move_op opc = true /\ brs opc = true)) /\ bytes_ok d /\
      zlen d = ins_len k /\ (is_label_kind k = true -> cond_branch opc = true) /\
      (forall e, guard_ok g e = true -> zlen d = ISA.op_length opc (negb (IsM16bit e)) (negb (IsX16bit e))) /\
      match t with
      | TNone => opc <> 194 /\ opc <> 226
      | TRep c => opc = 194 /\ rest = [c]
      | TSep c => opc = 226 /\ rest = [c]
      end.

  Definition widths_same (e e' : em) : Prop := IsM16bit e' = IsM16bit e /\ IsX16bit e' = IsX16bit e.

  Definition sl_op (o : op) (e : em) : Prop :=
    match o with
    | OIns k d l t g => ins_ok k d l t g
    | OAssumeREP c => widths_same e (AssumeREP c e)       (* truthful: tells nothing new about M / X *)
    | OAssumeSEP c => widths_same e (AssumeSEP c e)
    | OComment _ | OLabel _ => True
    | OSetBase _ | OEmitBytes _ => False
    end.

  (* every call is of the allowed shape and is accepted (not refused) *)
  Fixpoint straightline (ops : list op) (e : em) : Prop :=
    match ops with
    | [] => True
    | o :: r => sl_op o e /\ is_refused (exec o e) = false /\ straightline r (state_of (exec o e))
    end.

  (* Emitter.PC() before each instruction call *)
  Fixpoint starts (ops : list op) (e : em) : list Z :=
    match ops with
    | [] => []
    | o :: r => (match o with OIns _ _ _ _ _ => [address e] | _ => [] end) ++ starts r (state_of (exec o e))
    end.

  (* buffer positions of the label operands (a placeholder byte until Finalize patches it) *)
  Fixpoint hole (ops : list op) (e : em) (i : Z) : bool :=
    match ops with
    | [] => false
    | o :: r =>
        (match o with
         | OIns k d _ _ _ => is_label_kind k && (n e + 1 <=? i) && (i <? n e + zlen d)
         | _ => false
         end) || hole r (state_of (exec o e)) i
    end.

  (* ---------------------------------------------------------------- facts about the emitter model *)
  Lemma apply_track_fields t e :
    buf (apply_track t e) = buf e /\ n (apply_track t e) = n e /\ address (apply_track t e) = address e /\ gen (apply_track t e) = gen e.
  Proof. destruct t; simpl; repeat split. Qed.

  Lemma emitBase_fields e : buf (emitBase e) = buf e /\ n (emitBase e) = n e /\ flags (emitBase e) = flags e.
  Proof. unfold emitBase. destruct (gen e && baseSet e); simpl; repeat split. Qed.

  Lemma emitK_fields k d l e b :
    buf e = Some b -> (zlen b <? n e + zlen d) = false ->
    is_refused (emitK k d l e) = false /\
    buf (state_of (emitK k d l e)) = Some (splice b (n e) d) /\ n (state_of (emitK k d l e)) = n e + zlen d /\
    address (state_of (emitK k d l e)) = w32 (address e + ins_len k) /\ flags (state_of (emitK k d l e)) = flags e.
  Proof.
    intros Hb El. destruct e as [fl gn bf nn ls ba bs ad lb m8 m16]. cbn [buf n] in Hb, El. subst bf.
    unfold emitK, write. cbn [buf n]. rewrite El.
    destruct k; destruct gn; destruct bs; (split; [reflexivity|]); (split; [reflexivity|]);
      (split; [reflexivity|]); (split; reflexivity).
  Qed.

  Lemma exec_ins_spec k d l t g e b :
    buf e = Some b -> is_refused (exec (OIns k d l t g) e) = false ->
    let e' := state_of (exec (OIns k d l t g) e) in
    guard_ok g e = true /\ n e + zlen d <= zlen b /\ buf e' = Some (splice b (n e) d) /\ n e' = n e + zlen d /\
    address e' = w32 (address e + ins_len k) /\ flags e' = flags (apply_track t e).
  Proof.
    intros Hb Hr. cbv zeta. unfold exec in *. destruct (guard_ok g e); [|discriminate].
    destruct (apply_track_fields t e) as [Tb [Tn [Ta Tg]]].
    split; [reflexivity|].
    assert (El : (zlen b <? n e + zlen d) = false).
    { destruct (zlen b <? n e + zlen d) eqn:El; [|reflexivity]. exfalso.
      unfold emitK, write in Hr. rewrite Tb, Hb, Tn, El in Hr. discriminate. }
    split; [apply Z.ltb_ge in El; exact El|].
    destruct (emitK_fields k d l (apply_track t e) b) as [_ [F1 [F2 [F3 F4]]]].
    - rewrite Tb. exact Hb.
    - rewrite Tn. exact El.
    - rewrite F1, F2, F3, F4, Tn, Ta. repeat split.
  Qed.

  Lemma assume_fields_rep c e : buf (AssumeREP c e) = buf e /\ n (AssumeREP c e) = n e /\ address (AssumeREP c e) = address e.
  Proof. repeat split. Qed.
  Lemma assume_fields_sep c e : buf (AssumeSEP c e) = buf e /\ n (AssumeSEP c e) = n e /\ address (AssumeSEP c e) = address e.
  Proof. repeat split. Qed.
  Lemma comment_fields id e : buf (Comment id e) = buf e /\ n (Comment id e) = n e /\ address (Comment id e) = address e /\ flags (Comment id e) = flags e.
  Proof.
    unfold Comment. destruct (gen e); [|repeat split]. cbv zeta. unfold add_lines, set_lines, emitBase.
    destruct (gen e && baseSet e); simpl; repeat split.
  Qed.
  Lemma label_fields l e : let e' := state_of (Label l e) in
    buf e' = buf e /\ n e' = n e /\ address e' = address e /\ flags e' = flags e.
  Proof.
    unfold Label. destruct (lookup l (labels e)); cbn [state_of]; [repeat split|].
    destruct (gen (set_labels (insert l (address e) (labels e)) e)); simpl; repeat split.
  Qed.

  (* a non-emitting allowed op leaves buffer, count, address and tracked widths alone *)
  Lemma quiet_op o e : sl_op o e -> (forall k d l t g, o <> OIns k d l t g) ->
    let e' := state_of (exec o e) in
    buf e' = buf e /\ n e' = n e /\ address e' = address e /\ mbit e' = mbit e /\ xbit e' = xbit e.
  Proof.
    intros Hs Hni. destruct o as [a|c|c|k d l t g|bs|id|l]; cbn [sl_op] in Hs; try contradiction.
    - destruct Hs as [Hm Hx]. cbn [exec state_of]. unfold mbit, xbit. rewrite Hm, Hx. repeat split.
    - destruct Hs as [Hm Hx]. cbn [exec state_of]. unfold mbit, xbit. rewrite Hm, Hx. repeat split.
    - exfalso. exact (Hni k d l t g eq_refl).
    - cbn [exec state_of]. destruct (comment_fields id e) as [A [B [C D]]]. unfold mbit, xbit, IsM16bit, IsX16bit.
      rewrite A, B, C, D. repeat split.
    - cbn [exec]. destruct (label_fields l e) as [A [B [C D]]]. unfold mbit, xbit, IsM16bit, IsX16bit.
      rewrite A, B, C, D. repeat split.
  Qed.

  (* later calls never touch what has been emitted *)
  Lemma code_prefix_stable : forall ops e b, straightline ops e -> buf e = Some b -> 0 <= n e <= zlen b ->
    exists bf, buf (fst (run ops e)) = Some bf /\ zlen bf = zlen b /\ n e <= n (fst (run ops e)) <= zlen b /\
               forall i, 0 <= i < n e -> znth bf i = znth b i.
  Proof.
    induction ops as [|o r IH]; intros e b Hsl Hb Hn.
    - exists b. cbn [run fst]. repeat split; try lia; try assumption.
    - cbn [straightline] in Hsl. destruct Hsl as [Hop [Hacc Hr]].
      cbn [run]. destruct (run r (state_of (exec o e))) as [ef rl] eqn:Er. cbn [fst].
      assert (Hef : ef = fst (run r (state_of (exec o e)))) by (rewrite Er; reflexivity).
      destruct o as [a|c|c|k d l t g|bs|id|l]; try (cbn [sl_op] in Hop; contradiction).
      + destruct (quiet_op (OAssumeREP c) e Hop ltac:(intros; discriminate)) as [A [B _]].
        destruct (IH _ b Hr ltac:(rewrite A; exact Hb) ltac:(rewrite B; exact Hn)) as [bf [F1 [F2 [F3 F4]]]].
        exists bf. rewrite Hef. rewrite B in F3, F4. repeat split; try assumption; lia.
      + destruct (quiet_op (OAssumeSEP c) e Hop ltac:(intros; discriminate)) as [A [B _]].
        destruct (IH _ b Hr ltac:(rewrite A; exact Hb) ltac:(rewrite B; exact Hn)) as [bf [F1 [F2 [F3 F4]]]].
        exists bf. rewrite Hef. rewrite B in F3, F4. repeat split; try assumption; lia.
      + cbn [sl_op] in Hop. destruct Hop as [opc [rest [Hd [_ [_ [Hlen _]]]]]].
        destruct (exec_ins_spec k d l t g e b Hb Hacc) as [_ [Hroom [B1 [N1 _]]]].
        pose proof (zlen_nonneg _ d) as Hd0.
        destruct (IH _ (splice b (n e) d) Hr B1) as [bf [F1 [F2 [F3 F4]]]].
        { rewrite N1, zlen_splice by lia. lia. }
        rewrite zlen_splice in F2, F3 by lia.
        exists bf. rewrite Hef. rewrite N1 in F3, F4. repeat split; try assumption; try lia.
        intros i Hi. rewrite F4 by lia. apply znth_splice_out; lia.
      + destruct (quiet_op (OComment id) e Hop ltac:(intros; discriminate)) as [A [B _]].
        destruct (IH _ b Hr ltac:(rewrite A; exact Hb) ltac:(rewrite B; exact Hn)) as [bf [F1 [F2 [F3 F4]]]].
        exists bf. rewrite Hef. rewrite B in F3, F4. repeat split; try assumption; lia.
      + destruct (quiet_op (OLabel l) e Hop ltac:(intros; discriminate)) as [A [B _]].
        destruct (IH _ b Hr ltac:(rewrite A; exact Hb) ltac:(rewrite B; exact Hn)) as [bf [F1 [F2 [F3 F4]]]].
        exists bf. rewrite Hef. rewrite B in F3, F4. repeat split; try assumption; lia.
  Qed.

  (* label operands lie strictly after the start of the instruction they belong to *)
  Lemma hole_before : forall ops e b i, straightline ops e -> buf e = Some b -> 0 <= n e <= zlen b ->
    i <= n e -> hole ops e i = false.
  Proof.
    induction ops as [|o r IH]; intros e b i Hsl Hb Hn Hi; [reflexivity|].
    cbn [straightline] in Hsl. destruct Hsl as [Hop [Hacc Hr]]. cbn [hole].
    destruct o as [a|c|c|k d l t g|bs|id|l]; try (cbn [sl_op] in Hop; contradiction).
    - destruct (quiet_op (OAssumeREP c) e Hop ltac:(intros; discriminate)) as [A [B _]].
      cbn [orb]. apply (IH _ b); [exact Hr | rewrite A; exact Hb | rewrite B; exact Hn | rewrite B; exact Hi].
    - destruct (quiet_op (OAssumeSEP c) e Hop ltac:(intros; discriminate)) as [A [B _]].
      cbn [orb]. apply (IH _ b); [exact Hr | rewrite A; exact Hb | rewrite B; exact Hn | rewrite B; exact Hi].
    - cbn [sl_op] in Hop. destruct Hop as [opc [rest [Hd [_ [_ [Hlen _]]]]]].
      destruct (exec_ins_spec k d l t g e b Hb Hacc) as [_ [Hroom [B1 [N1 _]]]].
      pose proof (zlen_nonneg _ d) as Hd0.
      replace (n e + 1 <=? i) with false by (symmetry; apply Z.leb_gt; lia).
      rewrite andb_false_r. cbn [andb orb].
      apply (IH _ (splice b (n e) d)); [exact Hr | exact B1 | rewrite N1, zlen_splice by lia; lia | rewrite N1; lia].
    - destruct (quiet_op (OComment id) e Hop ltac:(intros; discriminate)) as [A [B _]].
      cbn [orb]. apply (IH _ b); [exact Hr | rewrite A; exact Hb | rewrite B; exact Hn | rewrite B; exact Hi].
    - destruct (quiet_op (OLabel l) e Hop ltac:(intros; discriminate)) as [A [B _]].
      cbn [orb]. apply (IH _ b); [exact Hr | rewrite A; exact Hb | rewrite B; exact Hn | rewrite B; exact Hi].
  Qed.

  (* tracked widths after REP / SEP = what the CPU does to M / X with the same mask *)
  Lemma testbit_ldiff_5 fl c k : 0 <= k ->
    (Z.land (Z.ldiff fl c) (2 ^ k) =? 0) = negb (Z.testbit fl k && negb (Z.testbit c k)).
  Proof.
    intro Hk. destruct (Z.land (Z.ldiff fl c) (2 ^ k) =? 0) eqn:E.
    - apply Z.eqb_eq in E. assert (T : Z.testbit (Z.land (Z.ldiff fl c) (2 ^ k)) k = false) by (rewrite E; apply Z.bits_0).
      rewrite Z.land_spec, Z.ldiff_spec, Z.pow2_bits_true in T by lia. rewrite andb_true_r in T. rewrite T. reflexivity.
    - apply Z.eqb_neq in E. destruct (Z.testbit fl k && negb (Z.testbit c k)) eqn:T; [reflexivity|].
      exfalso. apply E. apply Z.bits_inj'. intros j Hj. rewrite Z.land_spec, Z.ldiff_spec, Z.bits_0.
      destruct (Z.eq_dec j k) as [->|Hne]; [rewrite T; reflexivity|]. rewrite Z.pow2_bits_false by lia. apply andb_false_r.
  Qed.
  Lemma testbit_lor_5 fl c k : 0 <= k ->
    (Z.land (Z.lor fl c) (2 ^ k) =? 0) = negb (Z.testbit fl k || Z.testbit c k).
  Proof.
    intro Hk. destruct (Z.land (Z.lor fl c) (2 ^ k) =? 0) eqn:E.
    - apply Z.eqb_eq in E. assert (T : Z.testbit (Z.land (Z.lor fl c) (2 ^ k)) k = false) by (rewrite E; apply Z.bits_0).
      rewrite Z.land_spec, Z.lor_spec, Z.pow2_bits_true in T by lia. rewrite andb_true_r in T. rewrite T. reflexivity.
    - apply Z.eqb_neq in E. destruct (Z.testbit fl k || Z.testbit c k) eqn:T; [reflexivity|].
      exfalso. apply E. apply Z.bits_inj'. intros j Hj. rewrite Z.land_spec, Z.lor_spec, Z.bits_0.
      destruct (Z.eq_dec j k) as [->|Hne]; [rewrite T; reflexivity|]. rewrite Z.pow2_bits_false by lia. apply andb_false_r.
  Qed.
  Lemma land_bit fl k : 0 <= k -> (Z.land fl (2 ^ k) =? 0) = negb (Z.testbit fl k).
  Proof.
    intro Hk. destruct (Z.land fl (2 ^ k) =? 0) eqn:E.
    - apply Z.eqb_eq in E. assert (T : Z.testbit (Z.land fl (2 ^ k)) k = false) by (rewrite E; apply Z.bits_0).
      rewrite Z.land_spec, Z.pow2_bits_true in T by lia. rewrite andb_true_r in T. rewrite T. reflexivity.
    - apply Z.eqb_neq in E. destruct (Z.testbit fl k) eqn:T; [reflexivity|].
      exfalso. apply E. apply Z.bits_inj'. intros j Hj. rewrite Z.land_spec, Z.bits_0.
      destruct (Z.eq_dec j k) as [->|Hne]; [rewrite T; reflexivity|]. rewrite Z.pow2_bits_false by lia. apply andb_false_r.
  Qed.

  Lemma track_rep_m c e : mbit (AssumeREP c e) = rep_val (mbit e) c 5 /\ xbit (AssumeREP c e) = rep_val (xbit e) c 4.
  Proof.
    unfold mbit, xbit, IsM16bit, IsX16bit, AssumeREP, rep_val. cbn [flags set_flags].
    change 32 with (2 ^ 5). change 16 with (2 ^ 4). rewrite !testbit_ldiff_5, !land_bit by lia.
    destruct (Z.testbit (flags e) 5), (Z.testbit (flags e) 4), (Z.testbit c 5), (Z.testbit c 4); split; reflexivity.
  Qed.
  Lemma track_sep_m c e : mbit (AssumeSEP c e) = sep_val (mbit e) c 5 /\ xbit (AssumeSEP c e) = sep_val (xbit e) c 4.
  Proof.
    unfold mbit, xbit, IsM16bit, IsX16bit, AssumeSEP, sep_val. cbn [flags set_flags].
    change 32 with (2 ^ 5). change 16 with (2 ^ 4). rewrite !testbit_lor_5, !land_bit by lia.
    destruct (Z.testbit (flags e) 5), (Z.testbit (flags e) 4), (Z.testbit c 5), (Z.testbit c 4); split; reflexivity.
  Qed.

  Lemma mbit_flags e e' : flags e' = flags e -> mbit e' = mbit e /\ xbit e' = xbit e.
  Proof. intro H. unfold mbit, xbit, IsM16bit, IsX16bit. rewrite H. split; reflexivity. Qed.

  Lemma w32_small x : 0 <= x < 4294967296 -> w32 x = x.
  Proof. intro H. unfold w32. apply Z.mod_small. exact H. Qed.

  (* ---------------------------------------------------------------- the simulation *)
  Hypothesis Hrng : ok_ranges.
  Hypothesis Hcon : len_contract.
  Hypothesis Hbr : br_contract.
  (* ---------------------------------------------------------------- with block moves: the stuttering simulation *)
  (* the clause for MVN / MVP: one Step keeps the bank and the widths, and either leaves PC on the instruction or
     advances it by the length 3 *)
  Definition mv_contract : Prop := forall s op, ok s -> brs op = true -> move_op op = true -> opcode_at s = op ->
    exists s', step s = Some s' /\ ok s' /\ grk s' = grk s /\ gm s' = gm s /\ gx s' = gx s /\
      (gpc s' = gpc s \/ gpc s' = (gpc s + 3) mod 65536) /\
      forall a, gmem s' a = gmem s a \/ wrote s s' a.
  Hypothesis Hmv : mv_contract.

  (* each instruction start a, repeated c times *)
  Fixpoint expand (st : list Z) (cs : list nat) : list Z :=
    match st, cs with
    | a :: st', c :: cs' => repeat a c ++ expand st' cs'
    | _, _ => []
    end.
  (* per instruction call: is it a block move? *)
  Fixpoint movs (ops : list op) : list bool :=
    match ops with
    | [] => []
    | OIns _ d _ _ _ :: r => (match d with opc :: _ => move_op opc | [] => false end) :: movs r
    | _ :: r => movs r
    end.

  (* outcome of at most N steps from s: k <= N steps were taken, all of them opcode fetches at instruction starts, in
     order, an instruction being fetched more than once only if it is a block move; and either the program is finished
     (state as in C07_couple) or the N steps are used up *)
  Definition walk (ops : list op) (e ef : em) (bank : Z) (N : nat) (s : S) : Prop :=
    exists k cs l sf, (k <= N)%nat /\ fetches k s = Some (l, sf) /\ l = expand (starts ops e) cs /\
      (List.length cs <= List.length (starts ops e))%nat /\ Forall (fun c => (1 <= c)%nat) cs /\
      Forall2 (fun (mv : bool) c => mv = false -> c = 1%nat) (firstn (List.length cs) (movs ops)) cs /\
      ((List.length cs = List.length (starts ops e) /\ ok sf /\ grk sf = bank /\ gpc sf = address ef mod 65536 /\
        gm sf = mbit ef /\ gx sf = xbit ef) \/ k = N).

  Lemma fetches_length : forall k s l sf, fetches k s = Some (l, sf) -> List.length l = k.
  Proof.
    induction k as [|k IH]; intros s l sf H; cbn [fetches] in H.
    - injection H as <- _. reflexivity.
    - destruct (step s) as [s'|]; [|discriminate]. destruct (fetches k s') as [[l' sf']|] eqn:E; [|discriminate].
      injection H as <- _. cbn [List.length]. f_equal. eapply IH. exact E.
  Qed.

  Lemma nowrite_mono_range : forall m s lo hi lo' hi', lo <= lo' -> hi' <= hi -> nowrite m s lo hi -> nowrite m s lo' hi'.
  Proof. exact nowrite_mono. Qed.

  Lemma starts_len_movs : forall ops e, List.length (movs ops) = List.length (starts ops e).
  Proof.
    induction ops as [|o r IH]; intro e; [reflexivity|].
    destruct o; cbn [movs starts app List.length]; try (f_equal); apply IH.
  Qed.

  Lemma simulation_mv : forall ops e b bank delta,
    straightline ops e -> buf e = Some b -> 0 <= n e <= zlen b ->
    let ef := fst (run ops e) in
    0 <= bank < 256 -> address e = delta + n e ->
    bank * 65536 <= address e -> delta + n ef <= (bank + 1) * 65536 ->
    forall N s,
    (forall i, n e <= i < n ef -> hole ops e i = false -> gmem s (delta + i) = znth (code ef) i) ->
    ok s -> grk s = bank -> gpc s = address e mod 65536 -> gm s = mbit e -> gx s = xbit e ->
    nowrite N s (delta + n e) (delta + n ef) ->
    nottaken N s ->
    walk ops e ef bank N s.
  Proof.
    induction ops as [|o r IH]; intros e b bank delta Hsl Hb Hn ef Hbank Hdelta Hlo Hhi.
    - intros N s Hload Hok Hrk Hpc Hm Hx Hnw Hnt. subst ef. cbn [run fst] in *.
      exists O, [], [], s. cbn [starts fetches expand List.length movs firstn].
      split; [lia|]. split; [reflexivity|]. split; [reflexivity|]. split; [lia|]. split; [constructor|]. split; [constructor|].
      left. repeat split; assumption.
    - cbn [straightline] in Hsl. destruct Hsl as [Hop [Hacc Hr]].
      assert (Hef : ef = fst (run r (state_of (exec o e)))).
      { subst ef. cbn [run]. destruct (run r (state_of (exec o e))); reflexivity. }
      destruct (code_prefix_stable (o :: r) e b ltac:(cbn [straightline]; auto) Hb Hn) as [bf0 [_ [_ [Hnf _]]]].
      fold ef in Hnf.
      assert (Hquiet : (forall k d l t g, o <> OIns k d l t g) ->
                forall N s,
                (forall i, n e <= i < n ef -> hole (o :: r) e i = false -> gmem s (delta + i) = znth (code ef) i) ->
                ok s -> grk s = bank -> gpc s = address e mod 65536 -> gm s = mbit e -> gx s = xbit e ->
                nowrite N s (delta + n e) (delta + n ef) -> nottaken N s -> walk (o :: r) e ef bank N s).
      { intros Hni N s Hload Hok Hrk Hpc Hm Hx Hnw Hnt. destruct (quiet_op o e Hop Hni) as [A [B [C [D E]]]].
        assert (Hst : starts (o :: r) e = starts r (state_of (exec o e))).
        { cbn [starts]. destruct o; try reflexivity. exfalso. eapply Hni. reflexivity. }
        assert (Hmo : movs (o :: r) = movs r).
        { cbn [movs]. destruct o; try reflexivity. exfalso. eapply Hni. reflexivity. }
        assert (Hho : forall i, hole (o :: r) e i = hole r (state_of (exec o e)) i).
        { intro i. cbn [hole]. destruct o; try reflexivity. exfalso. eapply Hni. reflexivity. }
        unfold walk. rewrite Hst, Hmo. rewrite Hef in *.
        eapply (IH _ b bank delta); try assumption; try (rewrite ?A, ?B, ?C, ?D, ?E; assumption).
        intros i Hi Hh. apply Hload; [rewrite <- B; exact Hi | rewrite Hho; exact Hh]. }
      destruct o as [a|c|c|k d l t g|bs|id|l]; try (apply Hquiet; intros; discriminate).
      (* an instruction *)
      clear Hquiet. cbn [sl_op] in Hop.
      destruct Hop as [opc [rest [Hd [Hstr [Hbytes [Hlen [Hk [Hglen Htr]]]]]]]].
      destruct (exec_ins_spec k d l t g e b Hb Hacc) as [Hg [Hroom [B1 [N1 [A1 F1]]]]].
      set (e' := state_of (exec (OIns k d l t g) e)) in *.
      pose proof (zlen_nonneg _ rest) as Hrest0.
      assert (Hdl : zlen d = 1 + zlen rest) by (rewrite Hd; apply zlen_cons).
      assert (Hne' : n e' <= n ef).
      { destruct (code_prefix_stable r e' (splice b (n e) d) Hr B1) as [bf1 [_ [_ [H1 _]]]].
        - rewrite N1, zlen_splice by lia. lia.
        - rewrite <- Hef in H1. lia. }
      assert (Hcode : forall j, 0 <= j < zlen d -> znth (code ef) (n e + j) = znth d j).
      { intros j Hj.
        destruct (code_prefix_stable r e' (splice b (n e) d) Hr B1) as [bf1 [G1 [G2 [G3 G4]]]].
        { rewrite N1, zlen_splice by lia. lia. }
        rewrite <- Hef in G1. unfold code. rewrite G1. rewrite G4 by (rewrite N1; lia).
        rewrite znth_splice_in by lia. f_equal. lia. }
      assert (Hin : address e + zlen d <= (bank + 1) * 65536) by lia.
      assert (Hrest_hole : forall i, i <= n e' -> hole r e' i = false).
      { intros i Hi. apply (hole_before r e' (splice b (n e) d)); [exact Hr | exact B1 | rewrite N1, zlen_splice by lia; lia | exact Hi]. }
      assert (Hh0 : hole (OIns k d l t g :: r) e (n e) = false).
      { cbn [hole]. fold e'. rewrite Hrest_hole by (rewrite N1; lia).
        replace (n e + 1 <=? n e) with false by (symmetry; apply Z.leb_gt; lia). rewrite andb_false_r. reflexivity. }
      assert (Hh1 : opc = 194 \/ opc = 226 -> zlen d = 2 -> hole (OIns k d l t g :: r) e (n e + 1) = false).
      { intros Hrs Hz. cbn [hole]. fold e'. rewrite Hrest_hole by (rewrite N1; lia).
        destruct (is_label_kind k); [|reflexivity].
        specialize (Hk eq_refl). destruct Hrs as [Hrs|Hrs]; rewrite Hrs in Hk; vm_compute in Hk; discriminate Hk. }
      assert (Hil : ins_len k = zlen d) by lia.
      assert (Ha' : address e' = address e + zlen d).
      { rewrite A1, Hil. apply w32_small. lia. }
      assert (Hmov : movs (OIns k d l t g :: r) = move_op opc :: movs r) by (cbn [movs]; rewrite Hd; reflexivity).
      unfold walk. cbn [starts app]. fold e'.
      (* at most N steps from any state at the start of this instruction *)
      induction N as [|N IHN]; intros s Hload Hok Hrk Hpc Hm Hx Hnw Hnt.
      { exists O, [], [], s. cbn [fetches expand List.length firstn].
        split; [lia|]. split; [reflexivity|]. split; [reflexivity|]. split; [lia|]. split; [constructor|]. split; [constructor|].
        right. reflexivity. }
      destruct (Hrng s Hok) as [Rpc [Rrk [Rm Rx]]].
      assert (Hpc0 : gpc s = address e - bank * 65536).
      { rewrite Hpc. symmetry. apply Z.mod_unique with bank; lia. }
      assert (Hfetch : gmem s (addr24 (grk s) (gpc s)) mod 256 = opc).
      { unfold addr24. rewrite Hrk, Hpc0. replace (bank * 65536 + (address e - bank * 65536)) with (delta + n e) by lia.
        rewrite Hload by first [lia | exact Hh0]. replace (n e) with (n e + 0) by lia. rewrite Hcode by lia. rewrite Hd. cbn [znth].
        change (Z.to_nat 0) with O. cbn [nth].
        assert (Hb0 : is_byte opc) by (rewrite Hd in Hbytes; inversion Hbytes; assumption).
        apply Z.mod_small. exact Hb0. }
      assert (Ea : addr24 (grk s) (gpc s) = address e) by (unfold addr24; rewrite Hrk, Hpc0; lia).
      (* one CPU step *)
      assert (Hone : exists s', step s = Some s' /\ ok s' /\ grk s' = grk s /\
                (gpc s' = (gpc s + ISA.op_length opc (gm s =? 1) (gx s =? 1)) mod 65536 \/ (move_op opc = true /\ gpc s' = gpc s)) /\
                gm s' = new_m opc (gm s) (operand s) /\ gx s' = new_x opc (gx s) (operand s) /\
                forall a, gmem s' a = gmem s a \/ wrote s s' a).
      { destruct Hstr as [Hstr | [[Hcb Hbrs] | [Hmo Hbrs]]].
        - destruct (Hcon s opc Hok Hstr Hfetch) as [s' [A2 [A3 [A4 [A5 [A6 [A7 A8]]]]]]].
          exists s'. repeat (split; [assumption|]). split; [left; exact A5|]. repeat (split; [assumption|]). exact A8.
        - cbn [nottaken] in Hnt. destruct Hnt as [Hnt0 _].
          unfold opcode_at in Hnt0. rewrite Hfetch in Hnt0.
          destruct (Hbr s opc Hok Hbrs Hcb Hfetch (Hnt0 Hbrs Hcb)) as [s' [A2 [A3 [A4 [A5 [A6 [A7 A8]]]]]]].
          destruct (cond_new_mx opc (gm s) (gx s) (operand s) Hcb) as [Nm Nx].
          exists s'. rewrite (cond_length opc _ _ Hcb), Nm, Nx.
          split; [exact A2|]. split; [exact A3|]. split; [exact A4|]. split; [left; exact A5|]. split; [exact A6|]. split; [exact A7|].
          intro a. left. apply A8.
        - destruct (Hmv s opc Hok Hbrs Hmo Hfetch) as [s' [A2 [A3 [A4 [A5 [A6 [A7 A8]]]]]]].
          destruct (move_new_mx opc (gm s) (gx s) (operand s) Hmo) as [Nm Nx].
          exists s'. rewrite (move_length opc _ _ Hmo), Nm, Nx.
          split; [exact A2|]. split; [exact A3|]. split; [exact A4|].
          split; [destruct A7 as [A7|A7]; [right; split; assumption | left; exact A7]|].
          split; [exact A5|]. split; [exact A6|]. exact A8. }
      destruct Hone as [s' [Hstep [Hok' [Hrk' [Hpc' [Hm' [Hx' Hmem']]]]]]].
      cbn [nowrite] in Hnw. rewrite Hstep in Hnw. destruct Hnw as [Hnw0 Hnw1].
      cbn [nottaken] in Hnt. rewrite Hstep in Hnt. destruct Hnt as [_ Hnt1].
      (* memory seen by the rest of the run *)
      assert (Hload' : forall i, n e <= i < n ef -> hole (OIns k d l t g :: r) e i = false -> gmem s' (delta + i) = znth (code ef) i).
      { intros i Hi Hh. destruct (Hmem' (delta + i)) as [E|W].
        - rewrite E. apply Hload; assumption.
        - exfalso. apply (Hnw0 (delta + i)); [lia | exact W]. }
      destruct Hpc' as [Hpc' | [Hmo Hpc']].
      + (* the instruction is finished: PC advanced by its length *)
        assert (Hl : ISA.op_length opc (gm s =? 1) (gx s =? 1) = zlen d).
        { rewrite (Hglen e Hg). f_equal.
          - rewrite Hm. unfold mbit. destruct (IsM16bit e); reflexivity.
          - rewrite Hx. unfold xbit. destruct (IsX16bit e); reflexivity. }
        assert (Hmx : gm s' = mbit e' /\ gx s' = xbit e').
        { rewrite Hm', Hx'. unfold new_m, new_x.
          destruct t as [|c|c].
          - destruct Htr as [N1' N2']. apply Z.eqb_neq in N1'. apply Z.eqb_neq in N2'. rewrite N1', N2'.
            cbn [apply_track] in F1. destruct (mbit_flags e e' F1) as [Q1 Q2]. rewrite Q1, Q2, Hm, Hx. split; reflexivity.
          - destruct Htr as [Hopc Hrest]. cbn [apply_track] in F1.
            assert (Hop1 : operand s = c).
            { unfold operand, addr24. rewrite Hrk, Hpc0.
              assert (Hz : zlen d = 2) by (rewrite Hdl, Hrest; reflexivity).
              rewrite (Z.mod_small (address e - bank * 65536 + 1) 65536) by lia.
              replace (bank * 65536 + (address e - bank * 65536 + 1)) with (delta + (n e + 1)) by lia.
              rewrite Hload by first [lia | apply Hh1; [left; exact Hopc | exact Hz]]. rewrite Hcode by lia. rewrite Hd, Hrest. cbn [znth]. change (Z.to_nat 1) with 1%nat. cbn [nth].
              assert (Hb1 : is_byte c) by (rewrite Hd, Hrest in Hbytes; inversion Hbytes as [|? ? _ Hb2]; inversion Hb2; assumption).
              apply Z.mod_small. exact Hb1. }
            rewrite Hop1, Hopc. rewrite Z.eqb_refl.
            destruct (mbit_flags (AssumeREP c e) e' F1) as [Q1 Q2]. destruct (track_rep_m c e) as [T1 T2].
            rewrite Q1, Q2, T1, T2, Hm, Hx. split; reflexivity.
          - destruct Htr as [Hopc Hrest]. cbn [apply_track] in F1.
            assert (Hop1 : operand s = c).
            { unfold operand, addr24. rewrite Hrk, Hpc0.
              assert (Hz : zlen d = 2) by (rewrite Hdl, Hrest; reflexivity).
              rewrite (Z.mod_small (address e - bank * 65536 + 1) 65536) by lia.
              replace (bank * 65536 + (address e - bank * 65536 + 1)) with (delta + (n e + 1)) by lia.
              rewrite Hload by first [lia | apply Hh1; [right; exact Hopc | exact Hz]]. rewrite Hcode by lia. rewrite Hd, Hrest. cbn [znth]. change (Z.to_nat 1) with 1%nat. cbn [nth].
              assert (Hb1 : is_byte c) by (rewrite Hd, Hrest in Hbytes; inversion Hbytes as [|? ? _ Hb2]; inversion Hb2; assumption).
              apply Z.mod_small. exact Hb1. }
            rewrite Hop1, Hopc. change (226 =? 194) with false. rewrite Z.eqb_refl.
            destruct (mbit_flags (AssumeSEP c e) e' F1) as [Q1 Q2]. destruct (track_sep_m c e) as [T1 T2].
            rewrite Q1, Q2, T1, T2, Hm, Hx. split; reflexivity. }
        destruct Hmx as [Hm1 Hx1].
        destruct (IH e' (splice b (n e) d) bank delta Hr B1) with (N := N) (s := s') as [k' [cs' [l' [sf [Hk' [Hf [Hl' [Hlen' [Hge [Hf2 Hfin]]]]]]]]]]; try assumption.
        * rewrite N1, zlen_splice by lia. lia.
        * rewrite Ha', N1. lia.
        * rewrite Ha'. lia.
        * rewrite <- Hef. exact Hhi.
        * rewrite <- Hef. intros i Hi Hh. apply Hload'; [rewrite N1 in Hi; lia|].
          cbn [hole]. fold e'. rewrite Hh. rewrite N1 in Hi.
          replace (i <? n e + zlen d) with false by (symmetry; apply Z.ltb_ge; lia). rewrite andb_false_r. reflexivity.
        * rewrite Hrk'. exact Hrk.
        * rewrite Hpc', Hl, Hpc0, Ha'. replace (address e - bank * 65536 + zlen d) with (address e + zlen d + (- bank) * 65536) by lia.
          apply Z.mod_add. lia.
        * rewrite <- Hef. rewrite N1. eapply nowrite_mono; [| |exact Hnw1]; lia.
        * rewrite <- Hef in Hfin.
          exists (Datatypes.S k'), (1%nat :: cs'), (address e :: l'), sf.
          split; [lia|]. split; [cbn [fetches]; rewrite Hstep, Hf, Ea; reflexivity|].
          split; [cbn [expand repeat app]; rewrite Hl'; reflexivity|].
          split; [cbn [List.length]; lia|]. split; [constructor; [lia | exact Hge]|].
          split; [rewrite Hmov; cbn [List.length firstn]; constructor; [intros; reflexivity | exact Hf2]|].
          destruct Hfin as [[Hc Hfin]|Hfin]; [left; split; [cbn [List.length]; lia | exact Hfin] | right; lia].
      + (* a block move that repeats itself: same instruction, one step fewer *)
        assert (Hms : gm s' = mbit e /\ gx s' = xbit e).
        { destruct (move_new_mx opc (gm s) (gx s) (operand s) Hmo) as [Nm Nx]. rewrite Hm', Hx', Nm, Nx. split; assumption. }
        destruct Hms as [Hm1 Hx1].
        destruct (IHN s') as [k' [cs' [l' [sf [Hk' [Hf [Hl' [Hlen' [Hge [Hf2 Hfin]]]]]]]]]]; try assumption.
        * rewrite Hrk'. exact Hrk.
        * rewrite Hpc'. exact Hpc.
        * destruct cs' as [|c cs''].
          -- (* nothing more was fetched: the steps are used up *)
             cbn [expand] in Hl'. assert (Hl0 : l' = []) by (rewrite Hl'; destruct (address e :: starts r e'); reflexivity).
             pose proof (fetches_length _ _ _ _ Hf) as Hk0. rewrite Hl0 in Hk0. cbn [List.length] in Hk0. subst k'.
             exists 1%nat, [1%nat], [address e], sf.
             split; [lia|]. split; [cbn [fetches]; rewrite Hstep; rewrite Hl0 in Hf; cbn [fetches] in Hf |- *; injection Hf as <-; rewrite Ea; reflexivity|].
             split; [cbn [expand repeat app]; destruct (starts r e'); reflexivity|].
             split; [cbn [List.length]; lia|]. split; [repeat constructor|].
             split; [rewrite Hmov; cbn [List.length firstn]; constructor; [rewrite Hmo; discriminate | constructor]|].
             destruct Hfin as [[Hc _]|Hfin]; [cbn [List.length] in Hc; discriminate Hc | right; lia].
          -- exists (Datatypes.S k'), (Datatypes.S c :: cs''), (address e :: l'), sf.
             split; [lia|]. split; [cbn [fetches]; rewrite Hstep, Hf, Ea; reflexivity|].
             split; [cbn [expand repeat app] in Hl' |- *; rewrite Hl'; reflexivity|].
             split; [exact Hlen'|]. split; [inversion Hge; subst; constructor; [lia | assumption]|].
             split; [rewrite Hmov in Hf2 |- *; cbn [List.length firstn] in Hf2 |- *; inversion Hf2; subst; constructor; [rewrite Hmo; discriminate | assumption]|].
             destruct Hfin as [Hfin|Hfin]; [left; exact Hfin | right; lia].
  Qed.

  (* C07 with block moves, over the abstract CPU: for EVERY number of steps N (the run hypotheses nowrite / nottaken
     being made for these N steps), the first k <= N steps do not panic and fetch opcodes exactly at the instruction
     starts the assembler reported, in order, each once -- a block move as often as it repeats itself (its count c >= 1)
     -- and either the program is finished (state as in C07_couple) or all N steps have been taken inside the program. *)
  Theorem C07_couple_moves : forall ops e0 b s0 N,
    straightline ops e0 -> buf e0 = Some b -> 0 <= n e0 <= zlen b ->
    let ef := fst (run ops e0) in
    let bank := address e0 / 65536 in
    0 <= address e0 < 16777216 ->
    address e0 + (n ef - n e0) <= (bank + 1) * 65536 ->
    (forall i, 0 <= i < n ef - n e0 -> hole ops e0 (n e0 + i) = false -> gmem s0 (address e0 + i) = znth (Bytes ef) (n e0 + i)) ->
    ok s0 -> addr24 (grk s0) (gpc s0) = address e0 -> gm s0 = mbit e0 -> gx s0 = xbit e0 ->
    nowrite N s0 (address e0) (address e0 + (n ef - n e0)) ->
    nottaken N s0 ->
    walk ops e0 ef bank N s0.
  Proof.
    intros ops e0 b s0 N Hsl Hb Hn ef bank Ha Hfit Hload Hok Hstart Hm Hx Hnw Hnt.
    destruct (Hrng s0 Hok) as [Rpc [Rrk _]].
    assert (Hbk : grk s0 = bank /\ gpc s0 = address e0 mod 65536).
    { unfold addr24 in Hstart. unfold bank. rewrite <- Hstart. split.
      - apply Z.div_unique_pos with (gpc s0); lia.
      - apply Z.mod_unique_pos with (grk s0); lia. }
    destruct Hbk as [Hrk Hpc].
    assert (Hbank : 0 <= bank < 256).
    { rewrite <- Hrk. exact Rrk. }
    assert (Hlo : bank * 65536 <= address e0).
    { unfold bank. pose proof (Z.mul_div_le (address e0) 65536 ltac:(lia)). lia. }
    destruct (code_prefix_stable ops e0 b Hsl Hb Hn) as [bf [G1 [G2 [G3 _]]]]. fold ef in G1, G3.
    apply (simulation_mv ops e0 b bank (address e0 - n e0) Hsl Hb Hn); try assumption; try lia.
    - fold ef. lia.
    - fold ef. intros i Hi Hh. replace (address e0 - n e0 + i) with (address e0 + (i - n e0)) by lia.
      rewrite Hload by (try lia; replace (n e0 + (i - n e0)) with i by lia; exact Hh).
      unfold Bytes. rewrite znth_ztake by lia. f_equal. lia.
    - fold ef. replace (address e0 - n e0 + n e0) with (address e0) by lia.
      replace (address e0 - n e0 + n ef) with (address e0 + (n ef - n e0)) by lia. exact Hnw.
  Qed.

  (* reading [expand]: removing consecutive duplicates from the fetch list gives back the instruction starts reached
     (adjacent instruction starts differ: the addresses increase) *)
  Fixpoint dedup (l : list Z) : list Z :=
    match l with
    | [] => []
    | a :: r => match r with b :: _ => if a =? b then dedup r else a :: dedup r | [] => [a] end
    end.
  Fixpoint adjacent_differ (l : list Z) : Prop :=
    match l with a :: ((b :: _) as r) => a <> b /\ adjacent_differ r | _ => True end.
  Lemma dedup_repeat_app : forall a c l, (1 <= c)%nat -> match l with b :: _ => a <> b | [] => True end ->
    dedup (repeat a c ++ l) = a :: dedup l.
  Proof.
    intros a c l Hc Hl. destruct c as [|c]; [lia|]. clear Hc. induction c as [|c IH].
    - cbn [repeat app]. destruct l as [|b l']; [reflexivity|]. cbn [dedup]. apply Z.eqb_neq in Hl. rewrite Hl. reflexivity.
    - change (repeat a (Datatypes.S (Datatypes.S c)) ++ l) with (a :: (a :: repeat a c ++ l)).
      cbn [dedup]. rewrite Z.eqb_refl. exact IH.
  Qed.
  Lemma dedup_expand : forall st cs, adjacent_differ st -> Forall (fun c => (1 <= c)%nat) cs -> (List.length cs <= List.length st)%nat ->
    dedup (expand st cs) = firstn (List.length cs) st.
  Proof.
    induction st as [|a st IH]; intros cs Had Hge Hlen.
    - destruct cs; [reflexivity | cbn [List.length] in Hlen; lia].
    - destruct cs as [|c cs]; [reflexivity|]. cbn [expand List.length firstn]. inversion Hge as [|? ? Hc Hge']; subst.
      cbn [List.length] in Hlen.
      assert (Had' : adjacent_differ st) by (destruct st; [exact I | destruct Had; assumption]).
      rewrite dedup_repeat_app; [rewrite IH by (try assumption; lia); reflexivity | exact Hc |].
      destruct st as [|b st']; [destruct cs; exact I|]. destruct cs as [|c2 cs2]; [exact I|].
      cbn [expand]. inversion Hge' as [|? ? Hc2 _]; subst. destruct c2 as [|c2]; [lia|]. cbn [repeat app]. destruct Had as [Hab _]. exact Hab.
  Qed.

  (* the instruction starts increase strictly (no uint32 wrap within the program), so adjacent ones differ *)
  Lemma starts_ge : forall ops e b, straightline ops e -> buf e = Some b -> 0 <= n e <= zlen b -> 0 <= address e ->
    address e + (n (fst (run ops e)) - n e) < 4294967296 ->
    forall a, In a (starts ops e) -> address e <= a.
  Proof.
    induction ops as [|o r IH]; intros e b Hsl Hb Hn Ha0 Hfit a Hin; [destruct Hin|].
    cbn [straightline] in Hsl. destruct Hsl as [Hop [Hacc Hr]].
    assert (Hef : fst (run (o :: r) e) = fst (run r (state_of (exec o e)))).
    { cbn [run]. destruct (run r (state_of (exec o e))); reflexivity. }
    rewrite Hef in Hfit.
    assert (Hq : (forall k d l t g, o <> OIns k d l t g) -> address e <= a).
    { intro Hni. destruct (quiet_op o e Hop Hni) as [A [B [C _]]].
      assert (Hst : starts (o :: r) e = starts r (state_of (exec o e))).
      { cbn [starts]. destruct o; try reflexivity. exfalso. eapply Hni. reflexivity. }
      rewrite Hst in Hin. rewrite <- C.
      apply (IH _ b); try assumption; rewrite ?A, ?B, ?C; assumption. }
    destruct o as [a1|c|c|k d l t g|bs|id|l]; try (apply Hq; intros; discriminate).
    clear Hq. cbn [sl_op] in Hop. destruct Hop as [opc [rest [Hd [_ [_ [Hlen _]]]]]].
    destruct (exec_ins_spec k d l t g e b Hb Hacc) as [_ [Hroom [B1 [N1 [A1 _]]]]].
    set (e' := state_of (exec (OIns k d l t g) e)) in *.
    pose proof (zlen_nonneg _ rest) as Hrest0.
    assert (Hdl : zlen d = 1 + zlen rest) by (rewrite Hd; apply zlen_cons).
    assert (Hne' : n e' <= n (fst (run r e'))).
    { destruct (code_prefix_stable r e' (splice b (n e) d) Hr B1) as [bf1 [_ [_ [H1 _]]]]; [rewrite N1, zlen_splice by lia; lia | lia]. }
    assert (Ha' : address e' = address e + zlen d) by (rewrite A1, Hlen; apply w32_small; lia).
    cbn [starts app] in Hin. fold e' in Hin. destruct Hin as [<-|Hin]; [lia|].
    assert (address e' <= a); [|lia].
    apply (IH e' (splice b (n e) d)); try assumption; [rewrite N1, zlen_splice by lia; lia | lia | lia].
  Qed.

  Lemma starts_adjacent : forall ops e b, straightline ops e -> buf e = Some b -> 0 <= n e <= zlen b -> 0 <= address e ->
    address e + (n (fst (run ops e)) - n e) < 4294967296 -> adjacent_differ (starts ops e).
  Proof.
    induction ops as [|o r IH]; intros e b Hsl Hb Hn Ha0 Hfit; [exact I|].
    cbn [straightline] in Hsl. destruct Hsl as [Hop [Hacc Hr]].
    assert (Hef : fst (run (o :: r) e) = fst (run r (state_of (exec o e)))).
    { cbn [run]. destruct (run r (state_of (exec o e))); reflexivity. }
    rewrite Hef in Hfit.
    assert (Hq : (forall k d l t g, o <> OIns k d l t g) -> adjacent_differ (starts (o :: r) e)).
    { intro Hni. destruct (quiet_op o e Hop Hni) as [A [B [C _]]].
      assert (Hst : starts (o :: r) e = starts r (state_of (exec o e))).
      { cbn [starts]. destruct o; try reflexivity. exfalso. eapply Hni. reflexivity. }
      rewrite Hst. apply (IH _ b); try assumption; rewrite ?A, ?B, ?C; assumption. }
    destruct o as [a1|c|c|k d l t g|bs|id|l]; try (apply Hq; intros; discriminate).
    clear Hq. cbn [sl_op] in Hop. destruct Hop as [opc [rest [Hd [_ [_ [Hlen _]]]]]].
    destruct (exec_ins_spec k d l t g e b Hb Hacc) as [_ [Hroom [B1 [N1 [A1 _]]]]].
    set (e' := state_of (exec (OIns k d l t g) e)) in *.
    pose proof (zlen_nonneg _ rest) as Hrest0.
    assert (Hdl : zlen d = 1 + zlen rest) by (rewrite Hd; apply zlen_cons).
    assert (Hne' : n e' <= n (fst (run r e'))).
    { destruct (code_prefix_stable r e' (splice b (n e) d) Hr B1) as [bf1 [_ [_ [H1 _]]]]; [rewrite N1, zlen_splice by lia; lia | lia]. }
    assert (Ha' : address e' = address e + zlen d) by (rewrite A1, Hlen; apply w32_small; lia).
    assert (Hn' : 0 <= n e' <= zlen (splice b (n e) d)) by (rewrite N1, zlen_splice by lia; lia).
    pose proof (IH e' (splice b (n e) d) Hr B1 Hn' ltac:(lia) ltac:(lia)) as Hadj.
    pose proof (starts_ge r e' (splice b (n e) d) Hr B1 Hn' ltac:(lia) ltac:(lia)) as Hge.
    cbn [starts app]. fold e'. destruct (starts r e') as [|a2 st2] eqn:Est; [exact I|].
    split; [|exact Hadj]. specialize (Hge a2 (or_introl eq_refl)). lia.
  Qed.

  (* the stuttering theorem in the form "fetch addresses with consecutive duplicates removed = the instruction starts" *)
  Theorem C07_couple_moves_dedup : forall ops e0 b s0 N,
    straightline ops e0 -> buf e0 = Some b -> 0 <= n e0 <= zlen b ->
    let ef := fst (run ops e0) in
    let bank := address e0 / 65536 in
    0 <= address e0 < 16777216 ->
    address e0 + (n ef - n e0) <= (bank + 1) * 65536 ->
    (forall i, 0 <= i < n ef - n e0 -> hole ops e0 (n e0 + i) = false -> gmem s0 (address e0 + i) = znth (Bytes ef) (n e0 + i)) ->
    ok s0 -> addr24 (grk s0) (gpc s0) = address e0 -> gm s0 = mbit e0 -> gx s0 = xbit e0 ->
    nowrite N s0 (address e0) (address e0 + (n ef - n e0)) ->
    nottaken N s0 ->
    exists k j l sf, (k <= N)%nat /\ fetches k s0 = Some (l, sf) /\ dedup l = firstn j (starts ops e0) /\
      ((dedup l = starts ops e0 /\ gm sf = mbit ef /\ gx sf = xbit ef /\ gpc sf = address ef mod 65536 /\ grk sf = bank) \/ k = N).
  Proof.
    intros ops e0 b s0 N Hsl Hb Hn ef bank Ha Hfit Hload Hok Hstart Hm Hx Hnw Hnt.
    destruct (C07_couple_moves ops e0 b s0 N Hsl Hb Hn Ha Hfit Hload Hok Hstart Hm Hx Hnw Hnt)
      as [k [cs [l [sf [Hk [Hf [Hl [Hlen [Hge [_ Hfin]]]]]]]]]].
    assert (Hbk : 0 <= bank < 256).
    { unfold bank. split; [apply Z.div_pos; lia | apply Z.div_lt_upper_bound; lia]. }
    assert (Hadj : adjacent_differ (starts ops e0)).
    { apply (starts_adjacent ops e0 b Hsl Hb Hn); [lia|]. fold ef. nia. }
    assert (Hd : dedup l = firstn (List.length cs) (starts ops e0)) by (rewrite Hl; apply dedup_expand; assumption).
    exists k, (List.length cs), l, sf. split; [exact Hk|]. split; [exact Hf|]. split; [exact Hd|].
    destruct Hfin as [[Hc [_ [Q2 [Q3 [Q4 Q5]]]]]|Hfin]; [left | right; exact Hfin].
    split; [rewrite Hd, Hc; apply firstn_all|]. fold ef in Q3, Q4, Q5. repeat split; assumption.
  Qed.

  (* the exact theorems (fetch addresses = starts) do not admit block moves: those stutter, see C07_couple_moves *)
  Hypothesis Hnomv : forall op, move_op op = true -> brs op = false.

  (* invariant between the assembler state e (before the remaining calls) and the CPU state s:
     delta = address - count is the load offset; everything emitted from here on is in memory, except that
     memory may hold anything in place of a label operand *)
  Lemma simulation : forall ops e b s bank delta,
    straightline ops e -> buf e = Some b -> 0 <= n e <= zlen b ->
    let ef := fst (run ops e) in
    0 <= bank < 256 -> address e = delta + n e ->
    bank * 65536 <= address e -> delta + n ef <= (bank + 1) * 65536 ->
    (forall i, n e <= i < n ef -> hole ops e i = false -> gmem s (delta + i) = znth (code ef) i) ->
    ok s -> grk s = bank -> gpc s = address e mod 65536 -> gm s = mbit e -> gx s = xbit e ->
    nowrite (List.length (starts ops e)) s (delta + n e) (delta + n ef) ->
    nottaken (List.length (starts ops e)) s ->
    exists sf, fetches (List.length (starts ops e)) s = Some (starts ops e, sf) /\
               ok sf /\ grk sf = bank /\ gpc sf = address ef mod 65536 /\ gm sf = mbit ef /\ gx sf = xbit ef.
  Proof.
    induction ops as [|o r IH]; intros e b s bank delta Hsl Hb Hn ef Hbank Hdelta Hlo Hhi Hload Hok Hrk Hpc Hm Hx Hnw Hnt.
    - cbn [starts List.length fetches]. exists s. subst ef. cbn [run fst]. repeat split; assumption.
    - cbn [straightline] in Hsl. destruct Hsl as [Hop [Hacc Hr]].
      assert (Hef : ef = fst (run r (state_of (exec o e)))).
      { subst ef. cbn [run]. destruct (run r (state_of (exec o e))); reflexivity. }
      destruct (code_prefix_stable (o :: r) e b ltac:(cbn [straightline]; auto) Hb Hn) as [bf0 [_ [_ [Hnf _]]]].
      fold ef in Hnf.
      assert (Hquiet : (forall k d l t g, o <> OIns k d l t g) ->
                exists sf, fetches (List.length (starts (o :: r) e)) s = Some (starts (o :: r) e, sf) /\
                  ok sf /\ grk sf = bank /\ gpc sf = address ef mod 65536 /\ gm sf = mbit ef /\ gx sf = xbit ef).
      { intro Hni. destruct (quiet_op o e Hop Hni) as [A [B [C [D E]]]].
        assert (Hst : starts (o :: r) e = starts r (state_of (exec o e))).
        { cbn [starts]. destruct o; try reflexivity. exfalso. eapply Hni. reflexivity. }
        assert (Hho : forall i, hole (o :: r) e i = hole r (state_of (exec o e)) i).
        { intro i. cbn [hole]. destruct o; try reflexivity. exfalso. eapply Hni. reflexivity. }
        rewrite Hst in *. rewrite Hef in *.
        eapply (IH _ b s bank delta); try assumption; try (rewrite ?A, ?B, ?C, ?D, ?E; assumption).
        intros i Hi Hh. apply Hload; [rewrite <- B; exact Hi | rewrite Hho; exact Hh]. }
      destruct o as [a|c|c|k d l t g|bs|id|l]; try (apply Hquiet; intros; discriminate).
      (* an instruction *)
      clear Hquiet. cbn [sl_op] in Hop.
      destruct Hop as [opc [rest [Hd [Hstr [Hbytes [Hlen [Hk [Hglen Htr]]]]]]]].
      destruct (exec_ins_spec k d l t g e b Hb Hacc) as [Hg [Hroom [B1 [N1 [A1 F1]]]]].
      set (e' := state_of (exec (OIns k d l t g) e)) in *.
      pose proof (zlen_nonneg _ rest) as Hrest0.
      assert (Hdl : zlen d = 1 + zlen rest) by (rewrite Hd; apply zlen_cons).
      assert (Hne' : n e' <= n ef).
      { destruct (code_prefix_stable r e' (splice b (n e) d) Hr B1) as [bf1 [_ [_ [H1 _]]]].
        - rewrite N1, zlen_splice by lia. lia.
        - rewrite <- Hef in H1. lia. }
      (* the bytes of this instruction in the final buffer *)
      assert (Hcode : forall j, 0 <= j < zlen d -> znth (code ef) (n e + j) = znth d j).
      { intros j Hj.
        destruct (code_prefix_stable r e' (splice b (n e) d) Hr B1) as [bf1 [G1 [G2 [G3 G4]]]].
        { rewrite N1, zlen_splice by lia. lia. }
        rewrite <- Hef in G1. unfold code. rewrite G1. rewrite G4 by (rewrite N1; lia).
        rewrite znth_splice_in by lia. f_equal. lia. }
      destruct (Hrng s Hok) as [Rpc [Rrk [Rm Rx]]].
      (* no wrap: the instruction lies inside the bank *)
      assert (Hin : address e + zlen d <= (bank + 1) * 65536) by lia.
      assert (Hpc0 : gpc s = address e - bank * 65536).
      { rewrite Hpc. symmetry. apply Z.mod_unique with bank; lia. }
      (* holes of the later instructions lie after this one; this one's is not its opcode *)
      assert (Hrest_hole : forall i, i <= n e' -> hole r e' i = false).
      { intros i Hi. apply (hole_before r e' (splice b (n e) d)); [exact Hr | exact B1 | rewrite N1, zlen_splice by lia; lia | exact Hi]. }
      assert (Hh0 : hole (OIns k d l t g :: r) e (n e) = false).
      { cbn [hole]. fold e'. rewrite Hrest_hole by (rewrite N1; lia).
        replace (n e + 1 <=? n e) with false by (symmetry; apply Z.leb_gt; lia). rewrite andb_false_r. reflexivity. }
      assert (Hfetch : gmem s (addr24 (grk s) (gpc s)) mod 256 = opc).
      { unfold addr24. rewrite Hrk, Hpc0. replace (bank * 65536 + (address e - bank * 65536)) with (delta + n e) by lia.
        rewrite Hload by first [lia | exact Hh0]. replace (n e) with (n e + 0) by lia. rewrite Hcode by lia. rewrite Hd. cbn [znth].
        change (Z.to_nat 0) with O. cbn [nth].
        assert (Hb0 : is_byte opc) by (rewrite Hd in Hbytes; inversion Hbytes; assumption).
        apply Z.mod_small. exact Hb0. }
      (* one CPU step: the straight-line contract, or the not-taken clause of a conditional branch *)
      assert (Hone : exists s', step s = Some s' /\ ok s' /\ grk s' = grk s /\
                gpc s' = (gpc s + ISA.op_length opc (gm s =? 1) (gx s =? 1)) mod 65536 /\
                gm s' = new_m opc (gm s) (operand s) /\ gx s' = new_x opc (gx s) (operand s) /\
                forall a, gmem s' a = gmem s a \/ wrote s s' a).
      { destruct Hstr as [Hstr | [[Hcb Hbrs] | [Hmo Hbrs]]]; [exact (Hcon s opc Hok Hstr Hfetch)| |rewrite (Hnomv opc Hmo) in Hbrs; discriminate Hbrs].
        cbn [starts app List.length nottaken] in Hnt. destruct Hnt as [Hnt0 _].
        unfold opcode_at in Hnt0. rewrite Hfetch in Hnt0.
        destruct (Hbr s opc Hok Hbrs Hcb Hfetch (Hnt0 Hbrs Hcb)) as [s' [A2 [A3 [A4 [A5 [A6 [A7 A8]]]]]]].
        destruct (cond_new_mx opc (gm s) (gx s) (operand s) Hcb) as [Nm Nx].
        exists s'. rewrite (cond_length opc _ _ Hcb), Nm, Nx.
        split; [exact A2|]. split; [exact A3|]. split; [exact A4|]. split; [exact A5|]. split; [exact A6|]. split; [exact A7|].
        intro a. left. apply A8. }
      destruct Hone as [s' [Hstep [Hok' [Hrk' [Hpc' [Hm' [Hx' Hmem']]]]]]].
      (* the CPU's length = the assembler's *)
      assert (Hl : ISA.op_length opc (gm s =? 1) (gx s =? 1) = zlen d).
      { rewrite (Hglen e Hg). f_equal.
        - rewrite Hm. unfold mbit. destruct (IsM16bit e); reflexivity.
        - rewrite Hx. unfold xbit. destruct (IsX16bit e); reflexivity. }
      assert (Hil : ins_len k = zlen d) by lia.
      assert (Ha' : address e' = address e + zlen d).
      { rewrite A1, Hil. apply w32_small. lia. }
      (* M / X after = tracker after *)
      (* REP / SEP are never label forms: their operand byte is not a hole *)
      assert (Hh1 : opc = 194 \/ opc = 226 -> zlen d = 2 -> hole (OIns k d l t g :: r) e (n e + 1) = false).
      { intros Hrs Hz. cbn [hole]. fold e'. rewrite Hrest_hole by (rewrite N1; lia).
        destruct (is_label_kind k); [|reflexivity].
        specialize (Hk eq_refl). destruct Hrs as [Hrs|Hrs]; rewrite Hrs in Hk; vm_compute in Hk; discriminate Hk. }
      assert (Hmx : gm s' = mbit e' /\ gx s' = xbit e').
      { rewrite Hm', Hx'. unfold new_m, new_x.
        destruct t as [|c|c].
        - destruct Htr as [N1' N2']. apply Z.eqb_neq in N1'. apply Z.eqb_neq in N2'. rewrite N1', N2'.
          cbn [apply_track] in F1. destruct (mbit_flags e e' F1) as [Q1 Q2]. rewrite Q1, Q2, Hm, Hx. split; reflexivity.
        - destruct Htr as [-> Hrest]. cbn [apply_track] in F1.
          assert (Hop1 : operand s = c).
          { unfold operand, addr24. rewrite Hrk, Hpc0.
            assert (Hz : zlen d = 2) by (rewrite Hdl, Hrest; reflexivity).
            rewrite (Z.mod_small (address e - bank * 65536 + 1) 65536) by lia.
            replace (bank * 65536 + (address e - bank * 65536 + 1)) with (delta + (n e + 1)) by lia.
            rewrite Hload by first [lia | apply Hh1; [left; reflexivity | exact Hz]]. rewrite Hcode by lia. rewrite Hd, Hrest. cbn [znth]. change (Z.to_nat 1) with 1%nat. cbn [nth].
            assert (Hb1 : is_byte c) by (rewrite Hd, Hrest in Hbytes; inversion Hbytes as [|? ? _ Hb2]; inversion Hb2; assumption).
            apply Z.mod_small. exact Hb1. }
          rewrite Hop1. rewrite Z.eqb_refl.
          destruct (mbit_flags (AssumeREP c e) e' F1) as [Q1 Q2]. destruct (track_rep_m c e) as [T1 T2].
          rewrite Q1, Q2, T1, T2, Hm, Hx. split; reflexivity.
        - destruct Htr as [-> Hrest]. cbn [apply_track] in F1.
          assert (Hop1 : operand s = c).
          { unfold operand, addr24. rewrite Hrk, Hpc0.
            assert (Hz : zlen d = 2) by (rewrite Hdl, Hrest; reflexivity).
            rewrite (Z.mod_small (address e - bank * 65536 + 1) 65536) by lia.
            replace (bank * 65536 + (address e - bank * 65536 + 1)) with (delta + (n e + 1)) by lia.
            rewrite Hload by first [lia | apply Hh1; [right; reflexivity | exact Hz]]. rewrite Hcode by lia. rewrite Hd, Hrest. cbn [znth]. change (Z.to_nat 1) with 1%nat. cbn [nth].
            assert (Hb1 : is_byte c) by (rewrite Hd, Hrest in Hbytes; inversion Hbytes as [|? ? _ Hb2]; inversion Hb2; assumption).
            apply Z.mod_small. exact Hb1. }
          rewrite Hop1. change (226 =? 194) with false. rewrite Z.eqb_refl.
          destruct (mbit_flags (AssumeSEP c e) e' F1) as [Q1 Q2]. destruct (track_sep_m c e) as [T1 T2].
          rewrite Q1, Q2, T1, T2, Hm, Hx. split; reflexivity. }
      destruct Hmx as [Hm1 Hx1].
      cbn [starts app List.length] in Hnw, Hnt |- *. change (state_of (exec (OIns k d l t g) e)) with e' in Hnw, Hnt |- *.
      cbn [nowrite] in Hnw. rewrite Hstep in Hnw. destruct Hnw as [Hnw0 Hnw1].
      cbn [nottaken] in Hnt. rewrite Hstep in Hnt. destruct Hnt as [_ Hnt1].
      destruct (IH e' (splice b (n e) d) s' bank delta Hr B1) as [sf [Hf [Q1 [Q2 [Q3 [Q4 Q5]]]]]]; try assumption.
      + rewrite N1, zlen_splice by lia. lia.
      + rewrite Ha', N1. lia.
      + rewrite Ha'. lia.
      + rewrite <- Hef. exact Hhi.
      + rewrite <- Hef. intros i Hi Hh. destruct (Hmem' (delta + i)) as [E|W].
        * rewrite E. apply Hload; [rewrite N1 in Hi; lia|].
          cbn [hole]. fold e'. rewrite Hh. rewrite N1 in Hi.
          replace (i <? n e + zlen d) with false by (symmetry; apply Z.ltb_ge; lia). rewrite andb_false_r. reflexivity.
        * exfalso. apply (Hnw0 (delta + i)); [rewrite N1 in Hi; lia | exact W].
      + rewrite Hrk'. exact Hrk.
      + rewrite Hpc', Hl, Hpc0, Ha'. replace (address e - bank * 65536 + zlen d) with (address e + zlen d + (- bank) * 65536) by lia.
        apply Z.mod_add. lia.
      + rewrite <- Hef. rewrite N1. eapply nowrite_mono; [| |exact Hnw1]; lia.
      + exists sf. cbn [fetches]. rewrite Hstep, Hf. rewrite <- Hef in *.
        split; [|repeat split; assumption].
        assert (Ea : addr24 (grk s) (gpc s) = address e) by (unfold addr24; rewrite Hrk, Hpc0; lia).
        rewrite Ea. reflexivity.
  Qed.

  (* C07, over the abstract CPU.  e0 = the assembler at its first emission (base set, any Assume* calls
     made): the CPU starts at PC() of e0 with M / X := the tracked widths of e0; the program is loaded where
     the assembler put it and lies within one bank; no executed instruction writes into the program; whenever
     the CPU reaches a conditional branch the condition is false.
     General form: memory may hold ANY byte at the position of a label operand (before Finalize the assembler has
     a placeholder there, after Finalize the displacement: a branch that is not taken never uses it). *)
  Theorem C07_couple_patched : forall ops e0 b s0,
    straightline ops e0 -> buf e0 = Some b -> 0 <= n e0 <= zlen b ->
    let ef := fst (run ops e0) in
    let bank := address e0 / 65536 in
    0 <= address e0 < 16777216 ->
    address e0 + (n ef - n e0) <= (bank + 1) * 65536 ->
    (forall i, 0 <= i < n ef - n e0 -> hole ops e0 (n e0 + i) = false -> gmem s0 (address e0 + i) = znth (Bytes ef) (n e0 + i)) ->
    ok s0 -> addr24 (grk s0) (gpc s0) = address e0 -> gm s0 = mbit e0 -> gx s0 = xbit e0 ->
    nowrite (List.length (starts ops e0)) s0 (address e0) (address e0 + (n ef - n e0)) ->
    nottaken (List.length (starts ops e0)) s0 ->
    exists sf, fetches (List.length (starts ops e0)) s0 = Some (starts ops e0, sf) /\
               gm sf = mbit ef /\ gx sf = xbit ef /\ gpc sf = address ef mod 65536 /\ grk sf = bank.
  Proof.
    intros ops e0 b s0 Hsl Hb Hn ef bank Ha Hfit Hload Hok Hstart Hm Hx Hnw Hnt.
    destruct (Hrng s0 Hok) as [Rpc [Rrk _]].
    assert (Hbk : grk s0 = bank /\ gpc s0 = address e0 mod 65536).
    { unfold addr24 in Hstart. unfold bank. rewrite <- Hstart. split.
      - apply Z.div_unique_pos with (gpc s0); lia.
      - apply Z.mod_unique_pos with (grk s0); lia. }
    destruct Hbk as [Hrk Hpc].
    assert (Hbank : 0 <= bank < 256).
    { rewrite <- Hrk. exact Rrk. }
    assert (Hlo : bank * 65536 <= address e0).
    { unfold bank. pose proof (Z.mul_div_le (address e0) 65536 ltac:(lia)). lia. }
    destruct (code_prefix_stable ops e0 b Hsl Hb Hn) as [bf [G1 [G2 [G3 _]]]]. fold ef in G1, G3.
    destruct (simulation ops e0 b s0 bank (address e0 - n e0) Hsl Hb Hn) as [sf [F [Q1 [Q2 [Q3 [Q4 Q5]]]]]]; try assumption; try lia.
    - fold ef. lia.
    - fold ef. intros i Hi Hh. replace (address e0 - n e0 + i) with (address e0 + (i - n e0)) by lia.
      rewrite Hload by (try lia; replace (n e0 + (i - n e0)) with i by lia; exact Hh).
      unfold Bytes. rewrite znth_ztake by lia. f_equal. lia.
    - fold ef. replace (address e0 - n e0 + n e0) with (address e0) by lia.
      replace (address e0 - n e0 + n ef) with (address e0 + (n ef - n e0)) by lia. exact Hnw.
    - exists sf. fold ef in Q3, Q4, Q5. repeat split; assumption.
  Qed.

  (* ... in particular with the bytes exactly as the assembler holds them (placeholders included) *)
  Theorem C07_couple : forall ops e0 b s0,
    straightline ops e0 -> buf e0 = Some b -> 0 <= n e0 <= zlen b ->
    let ef := fst (run ops e0) in
    let bank := address e0 / 65536 in
    0 <= address e0 < 16777216 ->
    address e0 + (n ef - n e0) <= (bank + 1) * 65536 ->
    (forall i, 0 <= i < n ef - n e0 -> gmem s0 (address e0 + i) = znth (Bytes ef) (n e0 + i)) ->
    ok s0 -> addr24 (grk s0) (gpc s0) = address e0 -> gm s0 = mbit e0 -> gx s0 = xbit e0 ->
    nowrite (List.length (starts ops e0)) s0 (address e0) (address e0 + (n ef - n e0)) ->
    nottaken (List.length (starts ops e0)) s0 ->
    exists sf, fetches (List.length (starts ops e0)) s0 = Some (starts ops e0, sf) /\
               gm sf = mbit ef /\ gx sf = xbit ef /\ gpc sf = address ef mod 65536 /\ grk sf = bank.
  Proof.
    intros ops e0 b s0 Hsl Hb Hn ef bank Ha Hfit Hload Hok Hstart Hm Hx Hnw Hnt.
    apply (C07_couple_patched ops e0 b s0); try assumption.
    intros i Hi _. apply Hload. exact Hi.
  Qed.
End Abstract.

(* the statement of the previous version -- no branch instruction at all in the program -- is the instance
   brs := fun _ => false: the branch clause and the run hypothesis [nottaken] are then vacuous *)
Lemma nottaken_none : forall S step gpc grk gmem gfn gfv gfc gfz k s,
  nottaken S step gpc grk gmem gfn gfv gfc gfz (fun _ => false) k s.
Proof.
  intros S step gpc grk gmem gfn gfv gfc gfz. induction k as [|k IH]; intro s; cbn [nottaken]; [exact I|].
  split; [discriminate|]. destruct (step s); [apply IH | exact I].
Qed.

Theorem C07_couple_nobranch : forall S step ok gpc grk gm gx gmem wrote,
  ok_ranges S ok gpc grk gm gx -> len_contract S step ok gpc grk gm gx gmem wrote ->
  forall ops e0 b s0,
  straightline (fun _ => false) ops e0 -> buf e0 = Some b -> 0 <= n e0 <= zlen b ->
  let ef := fst (run ops e0) in
  let bank := address e0 / 65536 in
  0 <= address e0 < 16777216 ->
  address e0 + (n ef - n e0) <= (bank + 1) * 65536 ->
  (forall i, 0 <= i < n ef - n e0 -> gmem s0 (address e0 + i) = znth (Bytes ef) (n e0 + i)) ->
  ok s0 -> addr24 (grk s0) (gpc s0) = address e0 -> gm s0 = mbit e0 -> gx s0 = xbit e0 ->
  nowrite S step wrote (List.length (starts ops e0)) s0 (address e0) (address e0 + (n ef - n e0)) ->
  exists sf, fetches S step gpc grk (List.length (starts ops e0)) s0 = Some (starts ops e0, sf) /\
             gm sf = mbit ef /\ gx sf = xbit ef /\ gpc sf = address ef mod 65536 /\ grk sf = bank.
Proof.
  intros S step ok gpc grk gm gx gmem wrote Hrng Hcon ops e0 b s0 Hsl Hb Hn ef bank Ha Hfit Hload Hok Hst Hm Hx Hnw.
  apply (C07_couple S step ok gpc grk gm gx gmem wrote (fun _ => 0) (fun _ => 0) (fun _ => 0) (fun _ => 0) (fun _ => false)
           Hrng Hcon ltac:(intros s op _ Hf; discriminate Hf) ltac:(intros; reflexivity) ops e0 b s0); try assumption.
  apply nottaken_none.
Qed.

(* an instruction call of the previous shape (straight-line opcode, no label) is one of the present shape *)
Lemma ins_ok_nobranch : forall brs k d l t g,
  (exists opc rest, d = opc :: rest /\ straight opc = true /\ bytes_ok d /\ zlen d = ins_len k /\ is_label_kind k = false /\
     (forall e, guard_ok g e = true -> zlen d = ISA.op_length opc (negb (IsM16bit e)) (negb (IsX16bit e))) /\
     match t with TNone => opc <> 194 /\ opc <> 226 | TRep c => opc = 194 /\ rest = [c] | TSep c => opc = 226 /\ rest = [c] end) ->
  ins_ok brs k d l t g.
Proof.
  intros brs k d l t g [opc [rest [H1 [H2 [H3 [H4 [H5 [H6 H7]]]]]]]].
  exists opc, rest. split; [exact H1|]. split; [left; exact H2|]. split; [exact H3|]. split; [exact H4|].
  split; [rewrite H5; discriminate|]. split; assumption.
Qed.

(* ------------------------------------------------------------------ from the regenerated descriptors *)
Local Open Scope string_scope.
Definition kind_of (name : string) : option ikind :=
  if String.eqb name "emit1" then Some E1 else if String.eqb name "emit2" then Some E2
  else if String.eqb name "emit3" then Some E3 else if String.eqb name "emit4" then Some E4
  else if String.eqb name "emit2Label" then Some E2L else if String.eqb name "emit3Label" then Some E3L else None.
Local Close Scope string_scope.

Definition guard_of (g : EmitDesc.guard) : Emitter.guard :=
  match g with
  | EmitDesc.GNone => Emitter.GNone
  | GPanicIfM16 => GM8 | GPanicIfM8 => GM16 | GPanicIfX16 => GX8 | GPanicIfX8 => GX16
  end.

Definition track_of (d : desc) (args : list Z) : track :=
  match d_effect d with
  | ENone => TNone
  | ERep i => TRep (eval_b args (BPar i 0))      (* the uint8 argument, as emitted *)
  | ESep i => TSep (eval_b args (BPar i 0))
  end.

(* the call of method d with arguments args (and label l, for a label-taking method), as an operation of
   Model/Emitter.v *)
Definition op_of_call_l (d : desc) (args : list Z) (l : lbl) : option op :=
  match kind_of (d_kind d) with
  | Some k => Some (OIns k (emit_bytes d args) (if is_label_kind k then l else nolbl) (track_of d args) (guard_of (d_guard d)))
  | None => None
  end.
Definition op_of_call (d : desc) (args : list Z) : option op := op_of_call_l d args nolbl.

Definition bexp_byte (b : bexp) : bool := match b with BConst v => (0 <=? v) && (v <? 256) | BPar _ _ => true end.

(* the per-descriptor check (computed per run on the regenerated descriptors) *)
Definition couple_ok (brs : Z -> bool) (d : desc) : bool :=
  match d_bytes d, kind_of (d_kind d) with
  | BConst opc :: rest, Some k =>
      (straight opc || (cond_branch opc || move_op opc) && brs opc) && forallb bexp_byte (d_bytes d) && (negb (is_label_kind k) || cond_branch opc)
      && (1 + EmitSpec.zlength rest =? ins_len k)
      && forallb (fun mx : bool * bool =>
                    panics_b (d_guard d) (fst mx) (snd mx)
                    || (1 + EmitSpec.zlength rest =? ISA.op_length opc (negb (fst mx)) (negb (snd mx)))) bools4
      && match d_effect d, rest with
         | ENone, _ => negb (opc =? 194) && negb (opc =? 226)
         | ERep i, [BPar j 0] => (opc =? 194) && Nat.eqb i j
         | ESep i, [BPar j 0] => (opc =? 226) && Nat.eqb i j
         | _, _ => false
         end
  | _, _ => false
  end.

Lemma eval_b_byte args b : bexp_byte b = true -> is_byte (eval_b args b).
Proof.
  destruct b as [v|i k]; simpl; intro H.
  - apply andb_true_iff in H. destruct H as [H1 H2]. apply Z.leb_le in H1. apply Z.ltb_lt in H2. unfold is_byte. lia.
  - unfold is_byte. apply Z.mod_pos_bound. lia.
Qed.

Lemma guard_of_ok g e : guard_ok (guard_of g) e = negb (panics_b g (IsM16bit e) (IsX16bit e)).
Proof. destruct g; simpl; try reflexivity; rewrite ?negb_involutive; reflexivity. Qed.

Lemma zlen_zlength {A} (l : list A) : zlen l = EmitSpec.zlength l.
Proof. reflexivity. Qed.

Theorem couple_ok_ins : forall brs d args l, couple_ok brs d = true -> args_ok d args ->
  exists k, op_of_call_l d args l = Some (OIns k (emit_bytes d args) (if is_label_kind k then l else nolbl) (track_of d args) (guard_of (d_guard d))) /\
            ins_ok brs k (emit_bytes d args) (if is_label_kind k then l else nolbl) (track_of d args) (guard_of (d_guard d)).
Proof.
  intros brs d args l H Hargs. unfold couple_ok in H. unfold op_of_call_l.
  destruct (d_bytes d) as [|[opc|? ?] rest] eqn:Eb; try discriminate.
  destruct (kind_of (d_kind d)) as [k|] eqn:Ek; [|discriminate].
  remember (straight opc || (cond_branch opc || move_op opc) && brs opc) as st eqn:Hst.
  remember (negb (is_label_kind k) || cond_branch opc) as lk eqn:Hlk.
  repeat (apply andb_true_iff in H; destruct H as [H ?]).
  subst st lk. rename H into Hstr, H0 into Heff, H1 into Hlens, H2 into Hk, H3 into Hnl, H4 into Hby.
  exists k. split; [reflexivity|].
  apply Z.eqb_eq in Hk.
  assert (Hem : emit_bytes d args = opc :: map (eval_b args) rest) by (unfold emit_bytes; rewrite Eb; reflexivity).
  assert (Hzl : zlen (emit_bytes d args) = 1 + EmitSpec.zlength rest).
  { rewrite Hem. unfold zlen, EmitSpec.zlength. cbn [List.length]. rewrite map_length. lia. }
  exists opc, (map (eval_b args) rest). split; [exact Hem|]. split.
  { apply orb_true_iff in Hstr. destruct Hstr as [Hs|Hs]; [left; exact Hs|].
    right. apply andb_true_iff in Hs. destruct Hs as [Hs Hb]. apply orb_true_iff in Hs. destruct Hs as [Hs|Hs]; [left | right]; split; assumption. }
  split.
  { unfold emit_bytes, bytes_ok. rewrite Forall_forall. intros v Hv. apply in_map_iff in Hv. destruct Hv as [bx [<- Hin]].
    apply eval_b_byte. rewrite forallb_forall in Hby. apply Hby. rewrite <- Eb. exact Hin. }
  split; [lia|]. split.
  { intro Hl. rewrite Hl in Hnl. exact Hnl. }
  split.
  - intros e Hg. rewrite guard_of_ok in Hg. apply negb_true_iff in Hg.
    pose proof (bools4_all _ Hlens (IsM16bit e) (IsX16bit e)) as Hl. cbn [fst snd] in Hl. rewrite Hg in Hl. cbn [orb] in Hl.
    apply Z.eqb_eq in Hl. lia.
  - unfold track_of. destruct (d_effect d) as [|i|i].
    + apply andb_true_iff in Heff. destruct Heff as [N1 N2]. apply negb_true_iff in N1. apply negb_true_iff in N2.
      apply Z.eqb_neq in N1. apply Z.eqb_neq in N2. split; assumption.
    + destruct rest as [|[?|j kk] [|? ?]]; try discriminate; destruct kk; try discriminate.
      apply andb_true_iff in Heff. destruct Heff as [N1 N2]. apply Z.eqb_eq in N1. apply Nat.eqb_eq in N2. subst j.
      split; [exact N1|]. reflexivity.
    + destruct rest as [|[?|j kk] [|? ?]]; try discriminate; destruct kk; try discriminate.
      apply andb_true_iff in Heff. destruct Heff as [N1 N2]. apply Z.eqb_eq in N1. apply Nat.eqb_eq in N2. subst j.
      split; [exact N1|]. reflexivity.
Qed.

(* a whole program of method calls *)
Fixpoint ops_of_calls (cs : list (desc * list Z)) : option (list op) :=
  match cs with
  | [] => Some []
  | (d, args) :: r =>
      match op_of_call d args, ops_of_calls r with
      | Some o, Some os => Some (o :: os)
      | _, _ => None
      end
  end.

(* ------------------------------------------------------------------ the refusal half (from C03's emit_canonical) *)
(* an immediate method whose size is fixed by its name: the operand size its layout emits *)
Definition imm_sized (mg : meaning) : bool :=
  match mg_w mg with WAny => false | _ => true end.

(* the name's width requirement is wrong exactly when the operand size differs from the size the mode has
   under the tracked widths (checked per meaning, by computation) *)
Definition width_consistent (mg : meaning) : bool :=
  forallb (fun mx : bool * bool =>
             Bool.eqb (wrong_width_b (mg_w mg) (fst mx) (snd mx))
                      (negb (lay_size (mg_lay mg) =? opsize (mg_mode mg) (fst mx) (snd mx)))) bools4.

Theorem C07_refusal : forall tk ks d mg,
  tracker_ok tk = true -> conv_ok ks d mg = true -> width_consistent mg = true ->
  forall args fl, args_ok d args ->
    (guard_holds tk d fl = true <-> lay_size (mg_lay mg) = opsize (mg_mode mg) (is_m16 fl) (is_x16 fl)).
Proof.
  intros tk ks d mg Htk Hok Hw args fl Hargs.
  destruct (emit_canonical tk ks d mg Htk Hok args fl Hargs) as [Hp _].
  unfold guard_holds. rewrite Hp. unfold wrong_width.
  pose proof (bools4_all _ Hw (is_m16 fl) (is_x16 fl)) as H. cbn [fst snd] in H.
  apply Bool.eqb_prop in H. rewrite H. rewrite negb_involutive. apply Z.eqb_eq.
Qed.

(* ------------------------------------------------------------------ non-vacuity: a program that changes widths *)
Definition ex_e0 : em := SetBase 32768 (new_em (Some (repeat 0 16)) false).
Definition ex_ops : list op :=
  [ OREP 48;                                        (* REP #$30  : M, X := 16 bit *)
    OIns E3 [169; 52; 18] nolbl TNone GM16;         (* LDA #$1234 *)
    OSEP 32;                                        (* SEP #$20  : M := 8 bit *)
    OIns E2 [169; 7] nolbl TNone GM8;               (* LDA #$07 *)
    OIns E3 [162; 1; 2] nolbl TNone GX16 ].         (* LDX #$0201 *)

Ltac ex_ins :=
  eexists; eexists; split; [reflexivity|]; split; [first [left; reflexivity | right; left; split; reflexivity | right; right; split; reflexivity]|]; split;
  [ repeat constructor; unfold is_byte; lia |]; split; [reflexivity|]; split; [first [discriminate | reflexivity]|]; split;
  [ intros e; unfold guard_ok; destruct (IsM16bit e), (IsX16bit e); cbn; intro; try reflexivity; try discriminate
  | cbn; try (split; [reflexivity | reflexivity]); try (split; discriminate) ].

Example ex_straightline : straightline (fun _ => false) ex_ops ex_e0.
Proof.
  unfold ex_ops. cbn [straightline]. repeat split; try reflexivity; try ex_ins.
Qed.

Example ex_starts : starts ex_ops ex_e0 = [32768; 32770; 32773; 32775; 32777].
Proof. reflexivity. Qed.

Example ex_final_widths : mbit (fst (run ex_ops ex_e0)) = 1 /\ xbit (fst (run ex_ops ex_e0)) = 0.
Proof. split; reflexivity. Qed.

(* the wrong-width immediate is refused: LDA #imm8 while the tracker says 16 bit *)
Example ex_refused : is_refused (exec (OIns E2 [169; 7] nolbl TNone GM8) (state_of (exec (OREP 48) ex_e0))) = true.
Proof. reflexivity. Qed.

(* ... and one with conditional branches (not taken after LDA #$80: Z = 0, N = 1), a label form among them *)
Definition ex_ops_br : list op :=
  [ OSEP 32;                                        (* SEP #$20 *)
    OIns E2 [169; 128] nolbl TNone GM8;             (* LDA #$80 *)
    OIns E2L [240; 255] 7%N TNone Emitter.GNone;    (* BEQ label7  (placeholder $FF) *)
    OIns E2 [16; 5] nolbl TNone Emitter.GNone;      (* BPL +5 *)
    OREP 16;                                        (* REP #$10 *)
    OIns E3 [162; 1; 2] nolbl TNone GX16 ].         (* LDX #$0201 *)

Example ex_straightline_br : straightline cond_branch ex_ops_br ex_e0.
Proof.
  unfold ex_ops_br. cbn [straightline]. repeat split; try reflexivity; try ex_ins.
Qed.

Example ex_starts_br : starts ex_ops_br ex_e0 = [32768; 32770; 32772; 32774; 32776; 32778].
Proof. reflexivity. Qed.

(* the only label operand is the sixth byte *)
Example ex_hole_br : map (hole ex_ops_br ex_e0) [0; 1; 2; 3; 4; 5; 6; 7; 8; 9; 10; 11; 12] =
  [false; false; false; false; false; true; false; false; false; false; false; false; false].
Proof. reflexivity. Qed.

(* a branch is not a straight-line program of the previous version *)
Example ex_branch_excluded : ~ straightline (fun _ => false) ex_ops_br ex_e0.
Proof.
  unfold ex_ops_br. cbn [straightline]. intros [_ [_ [_ [_ [[opc [rest [Hd [Hs _]]]] _]]]]].
  injection Hd as <- _. destruct Hs as [Hs|[[_ Hs]|[_ Hs]]]; discriminate Hs.
Qed.

(* ... and one with a block move: MVN #$7E,#$7F; NOP at $8000.  With C = 2 the CPU fetches $8000 three times, then $8003 *)
Definition ex_adm (op : Z) : bool := cond_branch op || move_op op.
Definition ex_ops_mv : list op :=
  [ OIns E3 [84; 126; 127] nolbl TNone Emitter.GNone;    (* MVN *)
    OIns E1 [234] nolbl TNone Emitter.GNone ].           (* NOP *)
Example ex_straightline_mv : straightline ex_adm ex_ops_mv ex_e0.
Proof.
  unfold ex_ops_mv. cbn [straightline]. repeat split; try reflexivity; try ex_ins.
Qed.
Example ex_movs : movs ex_ops_mv = [true; false] /\ starts ex_ops_mv ex_e0 = [32768; 32771].
Proof. split; reflexivity. Qed.
Example ex_expand : expand [32768; 32771] [3%nat; 1%nat] = [32768; 32768; 32768; 32771] /\
                    dedup [32768; 32768; 32768; 32771] = [32768; 32771].
Proof. split; reflexivity. Qed.
(* a block move is not a program of the exact theorem *)
Example ex_move_excluded : ~ straightline cond_branch ex_ops_mv ex_e0.
Proof.
  unfold ex_ops_mv. cbn [straightline]. intros [[opc [rest [Hd [Hs _]]]] _].
  injection Hd as <- _. destruct Hs as [Hs|[[Hs _]|[_ Hs]]]; discriminate Hs.
Qed.
