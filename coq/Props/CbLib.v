(* The callbacks clause of C12 over the regenerated interpreter models:
     "where the interpreter offers callbacks, a registered program-counter callback runs exactly once before each
      instruction fetched at its address and the WDM callback receives exactly the WDM operand."
   Static part.  [cbs t] = the callback events of a trace (newest first).  A routine is QUIET when it only extends the
   trace by events that are not callbacks and keeps the registrations and the frozen fields ([fext]); the per-run
   file build/work/Run/C12_cb_<model>.v (checks/cpucb.py) proves that of every translated routine except Step and
   op_wdm with [cb_run], gives exact effects for the opcode fetch, the WDM operand read and op_wdm, and assembles the
   theorem about Step with [step_cb_intro].  The run theorem (count of EvPC events = number of steps fetched at a
   registered address) is proved here over an abstract step contract. *)
From Coq Require Import ZArith List Bool NArith Lia.
From Lib Require Import ZOps Machine.
From Props Require Import SafeLib.
Import ListNotations.
Local Open Scope Z_scope.

Definition is_cb (e : ev) : bool := match e with EvPC _ | EvWDM _ => true | _ => false end.
Definition cbs (t : list ev) : list ev := filter is_cb t.

Lemma cbs_app t u : cbs (t ++ u) = cbs t ++ cbs u.
Proof. induction t as [|e t IH]; simpl; [reflexivity|]. destruct (is_cb e); simpl; rewrite IH; reflexivity. Qed.

(* partial correctness: a panic satisfies everything (absence of panics is C08's theorem) *)
Definition pres {A} (Q : A -> st -> Prop) (r : res A) : Prop :=
  match r with Ok a s => Q a s | Panic => True end.

Lemma pres_bind {A B} (P : A -> st -> Prop) (Q : B -> st -> Prop) (m : res A) (k : A -> st -> res B) :
  pres P m -> (forall a s, P a s -> pres Q (k a s)) -> pres Q (bind m k).
Proof. destruct m as [a s|]; simpl; auto. Qed.

Lemma pres_weaken {A} (P Q : A -> st -> Prop) (r : res A) :
  pres P r -> (forall a s, P a s -> Q a s) -> pres Q r.
Proof. destruct r; simpl; auto. Qed.

Lemma pres_if_true {A} (Q : A -> st -> Prop) (c : bool) (a b : res A) : c = true -> pres Q a -> pres Q (if c then a else b).
Proof. intros ->. auto. Qed.
Lemma pres_if_false {A} (Q : A -> st -> Prop) (c : bool) (a b : res A) : c = false -> pres Q b -> pres Q (if c then a else b).
Proof. intros ->. auto. Qed.

(* ---- quiet extension: s' was reached from s by recording only bus events, with the same registrations and the
   same value in every field outside W ---- *)
Definition quiet (s s' : st) : Prop := exists t, trace s' = t ++ trace s /\ cbs t = [].
Definition fext (W : N -> bool) (s s' : st) : Prop :=
  quiet s s' /\ onpc s' = onpc s /\ onwdm s' = onwdm s /\ (forall f, W f = false -> get f s' = get f s).

Lemma quiet_refl s : quiet s s.
Proof. exists []. split; reflexivity. Qed.
Lemma quiet_trans s1 s2 s3 : quiet s1 s2 -> quiet s2 s3 -> quiet s1 s3.
Proof.
  intros [t1 [E1 C1]] [t2 [E2 C2]]. exists (t2 ++ t1). split.
  - rewrite E2, E1. apply app_assoc.
  - rewrite cbs_app, C1, C2. reflexivity.
Qed.

Lemma fext_refl W s : fext W s s.
Proof. split; [apply quiet_refl|]. repeat split; reflexivity. Qed.

Lemma fext_trans W s1 s2 s3 : fext W s1 s2 -> fext W s2 s3 -> fext W s1 s3.
Proof.
  intros (Q1 & P1 & D1 & F1) (Q2 & P2 & D2 & F2). split; [eapply quiet_trans; eassumption|].
  split; [congruence|]. split; [congruence|]. intros f Hf. rewrite F2, F1 by exact Hf. reflexivity.
Qed.

Lemma fext_set W s0 s f v : fext W s0 s -> W f = true -> fext W s0 (set f v s).
Proof.
  intros (Q & P & D & F) Hf. split; [exact Q|]. split; [exact P|]. split; [exact D|].
  intros g Hg. unfold get, set; simpl. destruct (N.eqb g f) eqn:E.
  - apply N.eqb_eq in E. subst g. congruence.
  - apply F. exact Hg.
Qed.

Lemma fext_log W s0 s e : fext W s0 s -> is_cb e = false -> fext W s0 (log e s).
Proof.
  intros ([t [E C]] & P & D & F) He. split.
  - exists (e :: t). split; [simpl; rewrite E; reflexivity|]. simpl. rewrite He. exact C.
  - split; [exact P|]. split; [exact D|]. exact F.
Qed.

Lemma fext_upd W s0 s a v : fext W s0 s -> fext W s0 (upd a v s).
Proof. intros (Q & P & D & F). split; [exact Q|]. split; [exact P|]. split; [exact D|]. exact F. Qed.

(* machine primitives *)
Lemma q_seg_get W i s0 s : fext W s0 s -> pres (fun _ s' => fext W s0 s') (seg_get i s).
Proof. intro H. unfold seg_get. destruct (seg_ok i); simpl; auto. Qed.
Lemma q_mem_read W h a s0 s : fext W s0 s -> pres (fun _ s' => fext W s0 s') (mem_read h a s).
Proof. intro H. unfold mem_read. destruct (addr_ok a); simpl; [|exact I]. apply fext_log; [exact H | reflexivity]. Qed.
Lemma q_mem_write W h a v s0 s : fext W s0 s -> pres (fun _ s' => fext W s0 s') (mem_write h a v s).
Proof.
  intro H. unfold mem_write. destruct (addr_ok a); simpl; [|exact I]. apply fext_log; [|reflexivity]. apply fext_upd. exact H.
Qed.
Lemma q_bus_read W i a s0 s : fext W s0 s -> pres (fun _ s' => fext W s0 s') (bus_read i a s).
Proof. intro H. unfold bus_read. destruct (seg_ok i); [apply q_mem_read; exact H | exact I]. Qed.
Lemma q_bus_write W i a v s0 s : fext W s0 s -> pres (fun _ s' => fext W s0 s') (bus_write i a v s).
Proof. intro H. unfold bus_write. destruct (seg_ok i); [apply q_mem_write; exact H | exact I]. Qed.
(* NO lemma for cb_pc / cb_call_OnWDM: a routine that reaches one of them is not quiet and its lemma fails *)

(* ---- symbolic execution (unary version of RelLib.rel_run): the goal is [pres Q prog], the context holds
   [fext W s0 s] for the current state s of prog; Q is used only at [Ok] ---- *)
Ltac cb_head t :=
  lazymatch t with
  | ?f _ _ _ _ _ _ _ => cb_head f
  | ?f _ _ _ _ => cb_head f
  | ?f _ _ => cb_head f
  | ?f _ => cb_head f
  | _ => t
  end.

Ltac cb_prim :=
  first [ eapply q_mem_read | eapply q_mem_write | eapply q_bus_read | eapply q_bus_write | eapply q_seg_get ].

(* specification of a local continuation (join point) x' of the current routine, proved once *)
Ltac cb_cont Q x' e :=
  lazymatch goal with
  | H : fext ?W ?s0 _ |- _ =>
      let Hk := fresh "Hk" in
      lazymatch type of e with
      | st -> res _ =>
          assert (Hk : forall s1, fext W s0 s1 -> pres Q (x' s1));
          [ let s1 := fresh "s" in let Hq := fresh "Hq" in
            intros s1 Hq; cbv beta delta [x']; clear x' | clearbody x' ]
      | _ -> st -> res _ =>
          assert (Hk : forall a1 s1, fext W s0 s1 -> pres Q (x' a1 s1));
          [ let a1 := fresh "a" in let s1 := fresh "s" in let Hq := fresh "Hq" in
            intros a1 s1 Hq; cbv beta delta [x']; clear x' | clearbody x' ]
      | _ -> _ -> st -> res _ =>
          assert (Hk : forall a1 a2 s1, fext W s0 s1 -> pres Q (x' a1 a2 s1));
          [ let s1 := fresh "s" in let Hq := fresh "Hq" in
            intros ? ? s1 Hq; cbv beta delta [x']; clear x' | clearbody x' ]
      | _ -> _ -> _ -> st -> res _ =>
          assert (Hk : forall a1 a2 a3 s1, fext W s0 s1 -> pres Q (x' a1 a2 a3 s1));
          [ let s1 := fresh "s" in let Hq := fresh "Hq" in
            intros ? ? ? s1 Hq; cbv beta delta [x']; clear x' | clearbody x' ]
      | _ -> _ -> _ -> _ -> st -> res _ =>
          assert (Hk : forall a1 a2 a3 a4 s1, fext W s0 s1 -> pres Q (x' a1 a2 a3 a4 s1));
          [ let s1 := fresh "s" in let Hq := fresh "Hq" in
            intros ? ? ? ? s1 Hq; cbv beta delta [x']; clear x' | clearbody x' ]
      | _ -> _ -> _ -> _ -> _ -> st -> res _ =>
          assert (Hk : forall a1 a2 a3 a4 a5 s1, fext W s0 s1 -> pres Q (x' a1 a2 a3 a4 a5 s1));
          [ let s1 := fresh "s" in let Hq := fresh "Hq" in
            intros ? ? ? ? ? s1 Hq; cbv beta delta [x']; clear x' | clearbody x' ]
      | _ -> _ -> _ -> _ -> _ -> _ -> st -> res _ =>
          assert (Hk : forall a1 a2 a3 a4 a5 a6 s1, fext W s0 s1 -> pres Q (x' a1 a2 a3 a4 a5 a6 s1));
          [ let s1 := fresh "s" in let Hq := fresh "Hq" in
            intros ? ? ? ? ? ? s1 Hq; cbv beta delta [x']; clear x' | clearbody x' ]
      | _ => idtac
      end
  end.

Ltac cb_step call :=
  first [ cb_hook |
  lazymatch goal with
  | |- pres _ (bind _ _) =>
      eapply pres_bind;
      [ first [ cb_prim | call tt ]; eassumption
      | let a := fresh "a" in let s1 := fresh "s" in let Hq := fresh "Hq" in intros a s1 Hq; cbv beta in Hq |- * ]
  | |- pres ?Q (let x := set ?f ?v ?s in @?b x) =>
      match goal with
      | H : fext ?W ?s0 s |- _ =>
          let Hn := fresh "Hq" in
          assert (Hn : fext W s0 (set f v s)) by (apply fext_set; [exact H | vm_compute; reflexivity]);
          change (pres Q (b (set f v s))); cbv beta;
          let s1 := fresh "s" in generalize (set f v s) Hn; clear Hn; intros s1 Hn
      end
  | |- pres ?Q (let x := ?e in @?b x) =>
      let x' := fresh "x" in
      pose (x' := e); change (pres Q (b x')); cbv beta; cb_cont Q x' e
  | |- pres _ (if ?c then _ else _) => case c
  | |- pres _ (Ok _ _) => cbv beta iota delta [pres]; eassumption
  | |- pres _ Panic => exact I
  | |- pres _ ?t =>
      let h := cb_head t in
      first [ is_var h; match goal with Hk : context [h] |- _ => eapply Hk; eassumption end
            | call tt; eassumption ]
  end ]
with cb_hook := fail.

Ltac cb_run call := cbv beta iota delta [seg_nil orb]; repeat (cb_step call).

(* ---- exact effects ---- *)
(* a read of address a: a panic, or the value and exactly one more event, nothing else changed *)
Definition exact_read (a : Z) (s : st) (r : res Z) : Prop :=
  match r with Panic => True | Ok v s' => s' = log (EvR a v) s end.

Lemma get_log f e s : get f (log e s) = get f s.
Proof. reflexivity. Qed.
Lemma get_if_log f (c : bool) e s : get f (if c then log e s else s) = get f s.
Proof. destruct c; reflexivity. Qed.

Ltac gs := repeat first [ rewrite get_set_same | rewrite get_set_other by reflexivity | rewrite get_log | rewrite get_if_log ].

Lemma lor_shl16 : forall b a, 0 <= b < 256 -> 0 <= a < 65536 -> w_or (shl32 b 16) a = b * 65536 + a.
Proof.
  intros b a Hb Ha. unfold w_or, shl32. rewrite Z.shiftl_mul_pow2 by lia.
  change (2 ^ 16) with 65536. rewrite Z.mod_small by lia.
  rewrite <- Z.lxor_lor, <- Z.add_nocarry_lxor; try reflexivity.
  - apply Z.bits_inj'. intros n Hn. rewrite Z.land_spec, Z.bits_0.
    destruct (Z.ltb_spec n 16).
    + replace (b * 65536) with (b * 2 ^ 16) by reflexivity. rewrite Z.mul_pow2_bits_low by lia. reflexivity.
    + replace a with (a mod 2 ^ 16) by (apply Z.mod_small; change (2 ^ 16) with 65536; lia).
      rewrite Z.mod_pow2_bits_high by lia. apply andb_false_r.
  - apply Z.bits_inj'. intros n Hn. rewrite Z.land_spec, Z.bits_0.
    destruct (Z.ltb_spec n 16).
    + replace (b * 65536) with (b * 2 ^ 16) by reflexivity. rewrite Z.mul_pow2_bits_low by lia. reflexivity.
    + replace a with (a mod 2 ^ 16) by (apply Z.mod_small; change (2 ^ 16) with 65536; lia).
      rewrite Z.mod_pow2_bits_high by lia. apply andb_false_r.
Qed.

(* ---- the statement about one Step, and how it is assembled ---- *)
Section StepSpec.
  Variables fPPC fPRK fWDM fStopped : N.

  (* the address the opcode / the operand byte of the step that led to s' was fetched from, as the interpreters
     compute it: uint32(RK)<<16 | uint32(PC)  and  RK : PC+1 (wrapping inside the bank) *)
  Definition fetch_addr (s' : st) : Z := w_or (shl32 (get fPRK s') 16) (get fPPC s').
  Definition operand_addr (s' : st) : Z := w_or (shl32 (get fPRK s') 16) (add16 (get fPPC s') 1).

  Definition pc_ev (s s' : st) : list ev := if onpc s (fetch_addr s') then [EvPC (fetch_addr s')] else [].
  Definition wdm_ev (s : st) (opcode v : Z) : list ev := if onwdm s && (opcode =? 66) then [EvWDM v] else [].

  (* s --Step--> s' (what the per-run proof establishes; [callbacks_clause] below is the readable form):
     trace s' = tC ++ pc ++ tA ++ trace s : interrupt entry tA (no callback), then the OnPC callback iff one is
     registered at the address the opcode is then fetched from, then the fetch of the opcode from that address
     (oldest event of tC), then the instruction; the only callback in tC is OnWDM, present iff registered and the
     opcode is $42; for opcode $42 the rest of tC is exactly the read of the operand byte v at PBR:PC+1 and (if
     registered) OnWDM(v), and the WDM field holds v; unless that opcode is $DB the Stopped field keeps its value *)
  Definition step_cb (s s' : st) : Prop :=
    onpc s' = onpc s /\ onwdm s' = onwdm s /\
    exists tA tC' opcode v,
      trace s' = (tC' ++ [EvR (fetch_addr s') opcode]) ++ pc_ev s s' ++ tA ++ trace s /\
      cbs tA = [] /\ cbs tC' = wdm_ev s opcode v /\
      (opcode = 66 -> tC' = wdm_ev s opcode v ++ [EvR (operand_addr s') v] /\ get fWDM s' = v) /\
      (opcode <> 219 -> get fStopped s' = get fStopped s).

  Lemma cbs_pc_ev s s' : cbs (pc_ev s s') = pc_ev s s'.
  Proof. unfold pc_ev. destruct (onpc s (fetch_addr s')); reflexivity. Qed.
  Lemma cbs_wdm_ev s o v : cbs (wdm_ev s o v) = wdm_ev s o v.
  Proof. unfold wdm_ev. destruct (onwdm s && (o =? 66)); reflexivity. Qed.

  (* the callback events of one step *)
  Lemma step_cb_cbs s s' : step_cb s s' ->
    exists opcode v, cbs (trace s') = wdm_ev s opcode v ++ pc_ev s s' ++ cbs (trace s).
  Proof.
    intros (_ & _ & tA & tC' & o & v & E & CA & CC & _ & _). exists o, v.
    rewrite E. rewrite !cbs_app. rewrite CA, CC, cbs_pc_ev. simpl. rewrite app_nil_r. reflexivity.
  Qed.

  (* s6 = the state right after the opcode fetch, seen from the start s of the Step: interrupt entry was quiet,
     then the OnPC lookup at the address the opcode was then read from *)
  Definition fetched (s s6 : st) (op : Z) : Prop :=
    onpc s6 = onpc s /\ onwdm s6 = onwdm s /\
    get fStopped s6 = get fStopped s /\
    exists tA, trace s6 = EvR (fetch_addr s6) op :: (if onpc s (fetch_addr s6) then [EvPC (fetch_addr s6)] else []) ++ tA ++ trace s /\
               cbs tA = [].

  Lemma fetched_intro W s s1 s6 a op :
    fext W s s1 -> W fStopped = false ->
    trace s6 = EvR a op :: (if onpc s1 a then [EvPC a] else []) ++ trace s1 ->
    onpc s6 = onpc s1 -> onwdm s6 = onwdm s1 -> get fStopped s6 = get fStopped s1 -> fetch_addr s6 = a -> fetched s s6 op.
  Proof.
    intros ([tA [E C]] & P & D & F) HWs Et P6 D6 S6 Ea. unfold fetched. rewrite Ea.
    split; [congruence|]. split; [congruence|]. split; [rewrite S6; apply F; exact HWs|]. exists tA. split; [|exact C].
    rewrite Et, E, P. reflexivity.
  Qed.

  (* opcode other than $42: everything after the fetch was quiet and kept PPC / PRK - and Stopped unless the opcode is $DB *)
  Lemma step_cb_quiet W s s6 opcode s' :
    W fPPC = false -> W fPRK = false -> (opcode <> 219 -> W fStopped = false) ->
    fetched s s6 opcode -> opcode <> 66 -> fext W s6 s' -> step_cb s s'.
  Proof.
    intros HW1 HW2 HW3 (P6 & D6 & S6 & tA & E6 & CA) Hne ([t [E C]] & P & D & F).
    assert (Efa : fetch_addr s' = fetch_addr s6).
    { unfold fetch_addr. rewrite (F fPPC HW1), (F fPRK HW2). reflexivity. }
    split; [congruence|]. split; [congruence|].
    exists tA, t, opcode, 0. unfold pc_ev, wdm_ev. rewrite Efa.
    assert (E66 : (opcode =? 66) = false) by (apply Z.eqb_neq; exact Hne). rewrite E66, andb_false_r.
    split; [|split; [exact CA|split; [exact C|split; [intro; contradiction|]]]].
    - rewrite E, E6. rewrite <- app_assoc. reflexivity.
    - intro H219. rewrite (F fStopped (HW3 H219)). exact S6.
  Qed.

  (* opcode $42: nothing but the operand read and the callback happened after the fetch *)
  Lemma step_cb_wdm s s6 s' v :
    fetched s s6 66 ->
    fetch_addr s' = fetch_addr s6 ->
    onpc s' = onpc s6 -> onwdm s' = onwdm s6 ->
    trace s' = (if onwdm s6 then [EvWDM v] else []) ++ EvR (operand_addr s') v :: trace s6 ->
    get fWDM s' = v -> get fStopped s' = get fStopped s6 -> step_cb s s'.
  Proof.
    intros (P6 & D6 & S6 & tA & E6 & CA) Ea P D E Hv HS.
    split; [congruence|]. split; [congruence|].
    exists tA, ((if onwdm s6 then [EvWDM v] else []) ++ [EvR (operand_addr s') v]), 66, v.
    unfold pc_ev, wdm_ev. rewrite Ea. rewrite D6 in *. change (66 =? 66) with true. rewrite andb_true_r.
    split; [|split; [exact CA|split; [|split; [intros _; split; [reflexivity|exact Hv]|]]]].
    - rewrite E, E6. rewrite <- !app_assoc. reflexivity.
    - rewrite cbs_app. destruct (onwdm s); reflexivity.
    - intros _. congruence.
  Qed.

  (* ---- the clause in readable form: addresses as PBR * 65536 + PC ---- *)
  Definition callbacks_clause (s s' : st) : Prop :=
    (* the registrations are not changed by a step *)
    onpc s' = onpc s /\ onwdm s' = onwdm s /\
    (* a: where the opcode of this step was fetched from, a1: where its operand byte lies (in-bank wrap) *)
    let a := get fPRK s' * 65536 + get fPPC s' in
    let a1 := get fPRK s' * 65536 + (get fPPC s' + 1) mod 65536 in
    let pc := if onpc s a then [EvPC a] else [] in
    exists tA tC opcode v,
      let wdm := if onwdm s && (opcode =? 66) then [EvWDM v] else [] in
      (* exactly once, only for the fetched address; OnWDM only for opcode $42 *)
      cbs (trace s') = wdm ++ pc ++ cbs (trace s) /\
      (* ordering: interrupt entry (no callback), the OnPC callback, then the opcode fetch from a, then the instruction *)
      trace s' = tC ++ pc ++ tA ++ trace s /\ cbs tA = [] /\
      (exists tC', tC = tC' ++ [EvR a opcode]) /\ cbs tC = wdm /\
      (* WDM: the operand byte read at a1 is what the callback receives and what the WDM field holds *)
      (opcode = 66 -> tC = wdm ++ [EvR a1 v; EvR a opcode] /\ get fWDM s' = v).

  (* the callbacks clause and, for the SAME fetched opcode, the "never before" half of the stop clause: a step that
     changes the Stopped field fetched opcode $DB (STP) *)
  Definition step_clause (s s' : st) : Prop :=
    onpc s' = onpc s /\ onwdm s' = onwdm s /\
    let a := get fPRK s' * 65536 + get fPPC s' in
    let a1 := get fPRK s' * 65536 + (get fPPC s' + 1) mod 65536 in
    let pc := if onpc s a then [EvPC a] else [] in
    exists tA tC opcode v,
      let wdm := if onwdm s && (opcode =? 66) then [EvWDM v] else [] in
      (cbs (trace s') = wdm ++ pc ++ cbs (trace s) /\
       trace s' = tC ++ pc ++ tA ++ trace s /\ cbs tA = [] /\
       (exists tC', tC = tC' ++ [EvR a opcode]) /\ cbs tC = wdm /\
       (opcode = 66 -> tC = wdm ++ [EvR a1 v; EvR a opcode] /\ get fWDM s' = v)) /\
      (get fStopped s' <> get fStopped s -> opcode = 219).

  Lemma step_clause_intro s s' :
    0 <= get fPRK s' < 256 -> 0 <= get fPPC s' < 65536 -> step_cb s s' -> step_clause s s'.
  Proof.
    intros Hk Hp H. pose proof (step_cb_cbs s s' H) as Hc. destruct H as (P & D & tA & tC' & o & v & E & CA & CC & H4 & H5).
    assert (Ea : fetch_addr s' = get fPRK s' * 65536 + get fPPC s') by (unfold fetch_addr; rewrite lor_shl16 by assumption; reflexivity).
    assert (Ea1 : operand_addr s' = get fPRK s' * 65536 + (get fPPC s' + 1) mod 65536).
    { unfold operand_addr. rewrite lor_shl16; [reflexivity|assumption|]. unfold add16. apply Z.mod_pos_bound. lia. }
    unfold step_clause. split; [exact P|]. split; [exact D|]. cbv zeta.
    unfold pc_ev, wdm_ev in *. rewrite Ea, Ea1 in *.
    exists tA, (tC' ++ [EvR (get fPRK s' * 65536 + get fPPC s') o]), o, v.
    split; [|intro Hs; destruct (Z.eq_dec o 219) as [E9|E9]; [exact E9 | exfalso; apply Hs; exact (H5 E9)]].
    split.
    { rewrite E. rewrite !cbs_app. rewrite CA, CC. simpl. rewrite app_nil_r.
      destruct (onpc s _); reflexivity. }
    split; [exact E|]. split; [exact CA|]. split; [exists tC'; reflexivity|].
    split; [rewrite cbs_app, CC; simpl; apply app_nil_r|].
    intro Ho. destruct (H4 Ho) as [E4 Hv]. split; [|exact Hv]. rewrite E4. rewrite <- app_assoc. reflexivity.
  Qed.

  Lemma step_clause_callbacks s s' : step_clause s s' -> callbacks_clause s s'.
  Proof.
    intros (P & D & tA & tC & o & v & H & _). split; [exact P|]. split; [exact D|]. exists tA, tC, o, v. exact H.
  Qed.

  Lemma callbacks_clause_intro s s' :
    0 <= get fPRK s' < 256 -> 0 <= get fPPC s' < 65536 -> step_cb s s' -> callbacks_clause s s'.
  Proof. intros Hk Hp H. apply step_clause_callbacks. apply step_clause_intro; assumption. Qed.

  (* the stop half alone, tied to the fetch event: the opcode is the byte of the read event at a = PBR:PC that follows
     interrupt entry and the OnPC callback *)
  Definition stop_clause (s s' : st) : Prop :=
    let a := get fPRK s' * 65536 + get fPPC s' in
    let pc := if onpc s a then [EvPC a] else [] in
    exists tA tC opcode,
      trace s' = tC ++ pc ++ tA ++ trace s /\ cbs tA = [] /\ (exists tC', tC = tC' ++ [EvR a opcode]) /\
      (get fStopped s' <> get fStopped s -> opcode = 219).

  Lemma step_clause_stop s s' : step_clause s s' -> stop_clause s s'.
  Proof.
    intros (_ & _ & tA & tC & o & v & (_ & E & CA & EC & _) & H). exists tA, tC, o. auto.
  Qed.

  (* the clause as worded in the property: when the WDM callback ran in this step (it is then the newest event), it
     received the byte just read from PBR:PC+1, which is also what the WDM field holds *)
  Lemma callbacks_clause_wdm s s' : callbacks_clause s s' ->
    forall v0, hd_error (trace s') = Some (EvWDM v0) ->
    exists rest, trace s' = EvWDM v0 :: EvR (get fPRK s' * 65536 + (get fPPC s' + 1) mod 65536) v0 :: rest /\ get fWDM s' = v0.
  Proof.
    intros (_ & _ & tA & tC & o & v & _ & E & _ & [tC' EC] & CC & H4) v0 Hhd.
    destruct (onwdm s && (o =? 66)) eqn:Ew.
    - apply andb_true_iff in Ew. destruct Ew as [_ Eo]. apply Z.eqb_eq in Eo. destruct (H4 Eo) as [E4 Hv].
      rewrite E, E4 in *. simpl in Hhd. inversion Hhd; subst v0.
      eexists. split; [reflexivity | exact Hv].
    - exfalso. rewrite E, EC in Hhd. rewrite EC in CC. destruct tC' as [|e tC'']; simpl in Hhd.
      + discriminate Hhd.
      + inversion Hhd; subst e. simpl in CC. discriminate CC.
  Qed.
End StepSpec.

(* ---- runs: the number of OnPC callbacks for address a along n steps = the number of steps whose opcode was
   fetched at a, if a callback is registered there (else none) ---- *)
Definition is_pc (a : Z) (e : ev) : bool := match e with EvPC b => b =? a | _ => false end.
Definition count_pc (a : Z) (t : list ev) : Z := Z.of_nat (length (filter (is_pc a) t)).

Lemma count_pc_app a t u : count_pc a (t ++ u) = count_pc a t + count_pc a u.
Proof.
  unfold count_pc. rewrite <- Nat2Z.inj_add, <- app_length. f_equal. f_equal.
  induction t as [|e t IH]; simpl; [reflexivity|]. destruct (is_pc a e); simpl; rewrite IH; reflexivity.
Qed.

Lemma count_pc_cbs a t : count_pc a (cbs t) = count_pc a t.
Proof.
  unfold count_pc. f_equal. f_equal. induction t as [|e t IH]; simpl; [reflexivity|].
  destruct e as [x y|x y|x|x]; simpl; try exact IH.
  - destruct (x =? a); simpl; rewrite IH; reflexivity.
Qed.

Lemma last_cons {A} : forall (l : list A) x d, last (x :: l) d = last l x.
Proof.
  induction l as [|y l IH]; intros x d; [reflexivity|].
  change (last (x :: y :: l) d) with (last (y :: l) d). rewrite (IH y d), (IH y x). reflexivity.
Qed.

Section Runs.
  Variable step : st -> res (Z * bool).
  Variable Good : st -> Prop.
  Variables fPPC fPRK fWDM fStopped : N.
  Hypothesis good_step : forall s r s', Good s -> step s = Ok r s' -> Good s'.
  Hypothesis cb_step_ok : forall s r s', Good s -> step s = Ok r s' -> step_cb fPPC fPRK fWDM fStopped s s'.

  (* the states reached after each of n steps (None: a step panicked) *)
  Fixpoint states (n : nat) (s : st) : option (list st) :=
    match n with
    | O => Some []
    | S k => match step s with
             | Panic => None
             | Ok _ s' => match states k s' with Some l => Some (s' :: l) | None => None end
             end
    end.
  Definition final (s : st) (l : list st) : st := last l s.

  (* steps of the run whose opcode was fetched at a *)
  Definition fetched_at (a : Z) (l : list st) : Z :=
    Z.of_nat (length (filter (fun s' => fetch_addr fPPC fPRK s' =? a) l)).

  Lemma step_count a s s' : step_cb fPPC fPRK fWDM fStopped s s' ->
    count_pc a (trace s') = count_pc a (trace s) + (if onpc s a && (fetch_addr fPPC fPRK s' =? a) then 1 else 0).
  Proof.
    intro H. destruct (step_cb_cbs _ _ _ _ _ _ H) as (o & v & E).
    rewrite <- (count_pc_cbs a (trace s')), E, !count_pc_app, count_pc_cbs.
    assert (E1 : count_pc a (wdm_ev s o v) = 0) by (unfold wdm_ev; destruct (onwdm s && (o =? 66)); reflexivity).
    assert (E2 : count_pc a (pc_ev fPPC fPRK s s') = if onpc s a && (fetch_addr fPPC fPRK s' =? a) then 1 else 0).
    { unfold pc_ev. destruct (fetch_addr fPPC fPRK s' =? a) eqn:Ea.
      - apply Z.eqb_eq in Ea. rewrite Ea. rewrite andb_true_r. destruct (onpc s a); [|reflexivity].
        unfold count_pc; simpl. rewrite Z.eqb_refl. reflexivity.
      - rewrite andb_false_r. destruct (onpc s _); [|reflexivity]. unfold count_pc; simpl. rewrite Ea. reflexivity. }
    rewrite E1, E2. lia.
  Qed.

  Theorem run_count : forall n s l, Good s -> states n s = Some l ->
    onpc (final s l) = onpc s /\ onwdm (final s l) = onwdm s /\ Good (final s l) /\
    forall a, count_pc a (trace (final s l)) = count_pc a (trace s) + (if onpc s a then fetched_at a l else 0).
  Proof.
    induction n as [|n IH]; intros s l Hg Hs; simpl in Hs.
    - inversion Hs; subst l. unfold final, fetched_at; simpl. repeat split; auto. intro a. destruct (onpc s a); lia.
    - destruct (step s) as [r s1|] eqn:E1; [|discriminate]. destruct (states n s1) as [l1|] eqn:E2; [|discriminate].
      inversion Hs; subst l. clear Hs.
      pose proof (good_step s r s1 Hg E1) as Hg1. pose proof (cb_step_ok s r s1 Hg E1) as Hc.
      destruct (IH s1 l1 Hg1 E2) as (P & D & G & C).
      assert (Ef : final s (s1 :: l1) = final s1 l1).
      { unfold final. apply last_cons. }
      rewrite Ef. pose proof Hc as (P1 & D1 & _).
      split; [congruence|]. split; [congruence|]. split; [exact G|]. intro a. rewrite C.
      rewrite (step_count a s s1 Hc). rewrite P1.
      unfold fetched_at. simpl. destruct (onpc s a); simpl.
      + destruct (fetch_addr fPPC fPRK s1 =? a); simpl length; lia.
      + lia.
  Qed.
End Runs.
