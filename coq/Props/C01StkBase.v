(* C01, stack family: machine lemmas for bus writes, push / pull, the status byte (Flags / SetFlags with the
   register-width change), and the Step lemmas for the Go addressing modes 5 (m_Immediate: PEA, REP, SEP),
   9 (m_DP: PEI) and 24 (m_PC_Relative_Long: PER).

   snapshot_dep: Step, EaWrite, nWrite, push, push16, pull, pull16, Flags, SetFlags, ChangeRegisterSizes_M,
                 ChangeRegisterSizes_X, cmdRead16, nRead, nRead16_wrap, EaRead, tbl_mode, tbl_size, tbl_proc *)
From Coq Require Import ZArith NArith List Bool Lia.
From Spec Require Import ISA Spec816.
From Lib Require Import ZOps Machine.
From Snapshot Require Import GenFields GenCpu65.
From Props Require Import C01Base C01Flow C01Imm.
Import ListNotations.
Local Open Scope Z_scope.
Arguments Z.modulo : simpl never.
Arguments Z.lor : simpl never.
Arguments Z.land : simpl never.
Arguments Z.shiftl : simpl never.
Arguments Z.shiftr : simpl never.

(* ---------------------------------------------------------------- memory updates *)
Lemma get_upd : forall f a v s, get f (upd a v s) = get f s.
Proof. reflexivity. Qed.
Lemma mem_upd : forall a v s b, mem (upd a v s) b = if b =? a then v else mem s b.
Proof. reflexivity. Qed.

Ltac gs_normw :=
  repeat first [ rewrite get_set_this | rewrite get_set_other by reflexivity | rewrite get_log | rewrite get_upd
               | rewrite mem_set | rewrite mem_log | rewrite mem_upd ].

Lemma EaWrite_ok : forall a v s, 0 <= a < 16777216 ->
  EaWrite a v s = Ok tt (log (EvW a v) (upd a v s)).
Proof.
  intros a v s Ha. unfold EaWrite, seg_get, seg_nil, mem_write, seg_ok, addr_ok, w_shr.
  rewrite Z.shiftr_div_pow2 by lia. change (2 ^ 4) with 16.
  assert (H1 : (0 <=? a / 16) && (a / 16 <? 1048576) = true).
  { apply andb_true_intro; split; [apply Z.leb_le | apply Z.ltb_lt].
    apply Z.div_pos; lia. apply Z.div_lt_upper_bound; lia. }
  rewrite H1. cbn [bind].
  assert (H2 : (0 <=? a) && (a <? 16777216) = true).
  { apply andb_true_intro; split; [apply Z.leb_le | apply Z.ltb_lt]; lia. }
  rewrite H2. cbn [bind]. reflexivity.
Qed.

Lemma nWrite_ok : forall b a v s, 0 <= b < 256 -> 0 <= a < 65536 ->
  nWrite b a v s = Ok tt (log (EvW (b * 65536 + a) v) (upd (b * 65536 + a) v s)).
Proof.
  intros b a v s Hb Ha. unfold nWrite. rewrite bank_addr by assumption. rewrite EaWrite_ok by lia. reflexivity.
Qed.

(* ---------------------------------------------------------------- push / pull (native mode: E = 0) *)
Definition pushed (v : Z) (s : st) : st :=
  set f_SP (sub16 (get f_SP s) 1) (log (EvW (get f_SP s) v) (upd (get f_SP s) v s)).

Lemma push_ok : forall v s, get f_E s = 0 -> 0 <= get f_SP s < 65536 ->
  push v s = Ok tt (pushed v s).
Proof.
  intros v s HE Hsp. unfold push. rewrite nWrite_ok by (assumption || lia).
  change (0 * 65536 + get f_SP s) with (get f_SP s).
  rewrite bind_Ok. cbv beta zeta. gs_normw. rewrite HE. reflexivity.
Qed.

Lemma pushed_E : forall v s, get f_E (pushed v s) = get f_E s.
Proof. intros. unfold pushed. gs_normw. reflexivity. Qed.
Lemma pushed_SP : forall v s, get f_SP (pushed v s) = sub16 (get f_SP s) 1.
Proof. intros. unfold pushed. gs_normw. reflexivity. Qed.

Lemma push16_ok : forall v s, get f_E s = 0 -> 0 <= get f_SP s < 65536 ->
  push16 v s = Ok tt (pushed (conv8 (w_and v 255)) (pushed (conv8 (w_shr v 8)) s)).
Proof.
  intros v s HE Hsp. unfold push16. cbv zeta.
  rewrite push_ok by assumption. rewrite bind_Ok.
  rewrite push_ok; [reflexivity | rewrite pushed_E; assumption |].
  rewrite pushed_SP. unfold sub16. apply Z.mod_pos_bound. lia.
Qed.

Definition pulled (s : st) : st :=
  log (EvR (add16 (get f_SP s) 1) (mem s (add16 (get f_SP s) 1) mod 256)) (set f_SP (add16 (get f_SP s) 1) s).

Lemma pull_ok : forall s, get f_E s = 0 ->
  pull s = Ok (mem s (add16 (get f_SP s) 1) mod 256) (pulled s).
Proof.
  intros s HE. unfold pull. cbv zeta. gs_normw. rewrite HE. change (w_eqb 0 1) with false. cbv iota beta.
  gs_normw. rewrite nRead_ok by (try lia; unfold add16; apply Z.mod_pos_bound; lia).
  change (0 * 65536 + add16 (get f_SP s) 1) with (add16 (get f_SP s) 1).
  rewrite bind_Ok. gs_normw. reflexivity.
Qed.

Lemma pulled_E : forall s, get f_E (pulled s) = get f_E s.
Proof. intros. unfold pulled. gs_normw. reflexivity. Qed.
Lemma pulled_SP : forall s, get f_SP (pulled s) = add16 (get f_SP s) 1.
Proof. intros. unfold pulled. gs_normw. reflexivity. Qed.
Lemma pulled_mem : forall s a, mem (pulled s) a = mem s a.
Proof. intros. unfold pulled. gs_normw. reflexivity. Qed.

Lemma pull16_ok : forall s, get f_E s = 0 ->
  pull16 s = Ok (w_or (shl16 (mem s (add16 (add16 (get f_SP s) 1) 1) mod 256) 8) (mem s (add16 (get f_SP s) 1) mod 256))
                (pulled (pulled s)).
Proof.
  intros s HE. unfold pull16. rewrite pull_ok by assumption. rewrite bind_Ok. cbv zeta beta.
  rewrite pull_ok by (rewrite pulled_E; assumption). rewrite bind_Ok. cbv zeta beta.
  rewrite pulled_SP, pulled_mem. reflexivity.
Qed.

(* ---------------------------------------------------------------- operand reads of the routines *)
Lemma cmdRead16_m5_ok : forall s1, get f_StepInfo_Mode s1 = 5 ->
  0 <= get f_RK s1 < 256 -> 0 <= get f_StepInfo_Addr s1 < 65536 ->
  cmdRead16 s1 =
  Ok (w_or (shl16 (mem s1 (get f_RK s1 * 65536 + add16 (get f_StepInfo_Addr s1) 1) mod 256) 8)
           (mem s1 (get f_RK s1 * 65536 + get f_StepInfo_Addr s1) mod 256))
     (log (EvR (get f_RK s1 * 65536 + add16 (get f_StepInfo_Addr s1) 1)
               (mem s1 (get f_RK s1 * 65536 + add16 (get f_StepInfo_Addr s1) 1) mod 256))
        (log (EvR (get f_RK s1 * 65536 + get f_StepInfo_Addr s1)
                  (mem s1 (get f_RK s1 * 65536 + get f_StepInfo_Addr s1) mod 256)) s1)).
Proof.
  intros s1 Hm Hk Ha. cbv beta zeta delta [cmdRead16]. rewrite Hm.
  repeat match goal with |- context [w_eqb ?m ?k] =>
    let b := eval vm_compute in (w_eqb m k) in change (w_eqb m k) with b end;
  cbv beta iota delta [orb]; rewrite nRead16_wrap_ok by assumption; rewrite bind_Ok; reflexivity.
Qed.

Lemma cmdRead16_dp9_ok : forall s1, get f_StepInfo_Mode s1 = 9 -> 0 <= get f_StepInfo_Addr s1 < 65536 ->
  cmdRead16 s1 =
  Ok (w_or (shl16 (mem s1 (add16 (get f_StepInfo_Addr s1) 1) mod 256) 8) (mem s1 (get f_StepInfo_Addr s1) mod 256))
     (log (EvR (add16 (get f_StepInfo_Addr s1) 1) (mem s1 (add16 (get f_StepInfo_Addr s1) 1) mod 256))
        (log (EvR (get f_StepInfo_Addr s1) (mem s1 (get f_StepInfo_Addr s1) mod 256)) s1)).
Proof.
  intros s1 Hm Ha. cbv beta zeta delta [cmdRead16]. rewrite Hm.
  repeat match goal with |- context [w_eqb ?m ?k] =>
    let b := eval vm_compute in (w_eqb m k) in change (w_eqb m k) with b end;
  cbv beta iota delta [orb]; rewrite nRead16_wrap_ok by (assumption || lia); rewrite bind_Ok.
  change (0 * 65536 + add16 (get f_StepInfo_Addr s1) 1) with (add16 (get f_StepInfo_Addr s1) 1).
  change (0 * 65536 + get f_StepInfo_Addr s1) with (get f_StepInfo_Addr s1).
  reflexivity.
Qed.

(* ---------------------------------------------------------------- Step, Go modes 5, 9, 24 *)
Ltac note_factsS s' E :=
  note_fact f_stepPC s' E; note_fact f_StepInfo_Mode s' E; note_fact f_StepInfo_Addr s' E; note_fact f_StepInfo_EA s' E.

Ltac head_letS s :=
  lazymatch goal with
  | |- ?Q (let x := ?E in @?B x) =>
      lazymatch type of E with
      | st => let s' := fresh "sp" in let H := fresh "Hs" in
              pose (s' := E); assert (H : same s s') by (subst s'; same_solver);
              note_factsS s' E;
              change (Q (B s')); cbv beta; clearbody s'
      | _ => change (Q (B E)); cbv beta
      end
  end.

Ltac abs_stateS s E :=
  let s' := fresh "sp" in let H := fresh "Hs" in
  pose (s' := E); assert (H : same s s') by (subst s'; same_solver);
  note_factsS s' E;
  change E with s'; clearbody s'.

(* the 16-bit operand at PBR:PC+1, PC+2 as the generated code assembles it *)
Definition operand2 (s : st) : Z := mem s (get f_RK s * 65536 + add16 (add16 (get f_PC s) 1) 1) mod 256.
Definition operand16 (s : st) : Z := w_or (shl16 (operand2 s) 8) (operand1 s).

Ltac fetch_o16 s :=
  match goal with |- context [nRead16_wrap (get f_RK ?x) (add16 (get f_PC ?x) 1) ?x] =>
    match goal with H : same s x |- _ =>
      rewrite (same_get s x f_RK H eq_refl), (same_get s x f_PC H eq_refl);
      rewrite nRead16_wrap_ok by (assumption || (unfold add16; apply Z.mod_pos_bound; lia));
      rewrite bind_Ok; cbv beta; rewrite !(proj2 H)
    end end.

Ltac step_prelude s Hk Hpc Hop Hmode :=
  head_letS s; head_letS s; fetch_op s Hk Hpc Hop;
  head_letS s; rewrite Hmode; head_letS s;
  match goal with |- context [log ?e ?x] => abs_state s (log e x) end;
  repeat head_letS s.

Ltac step_tail s HQ :=
  repeat first [ head_letS s | match goal with |- ?Q' (if ?c then _ else _) => destruct c end ];
  facts_to_initial2 s; apply HQ; assumption.

Lemma Step_m5 : forall s op (Q : res (word * bool) -> Prop),
  no_int s -> 0 <= get f_RK s < 256 -> 0 <= get f_PC s < 65536 ->
  mem s (get f_RK s * 65536 + get f_PC s) mod 256 = op ->
  tbl_mode op = 5 ->
  (forall s1, same s s1 -> get f_stepPC s1 = tbl_size op ->
     get f_StepInfo_Mode s1 = 5 -> get f_StepInfo_Addr s1 = add16 (get f_PC s) 1 ->
     get f_StepInfo_EA s1 = get f_RK s * 65536 + add16 (get f_PC s) 1 ->
     Q (bind (tbl_proc op s1) (fun _ s2 => finish s2))) ->
  Q (Step s).
Proof.
  intros s op Q [Hi2 Hi3] Hk Hpc Hop Hmode HQ.
  assert (H2 : w_eqb (get f_Interrupt s) 2 = false) by (unfold w_eqb; apply Z.eqb_neq; assumption).
  assert (H3 : w_eqb (get f_Interrupt s) 3 = false) by (unfold w_eqb; apply Z.eqb_neq; assumption).
  assert (Hba : w_or (shl32 (get f_RK s) 16) (add16 (get f_PC s) 1) = get f_RK s * 65536 + add16 (get f_PC s) 1)
    by (apply bank_addr; [assumption | unfold add16; apply Z.mod_pos_bound; lia]).
  cbv beta delta [Step].
  head_let s. head_let s. rewrite H2, H3.
  head_let s.
  cbv beta delta [cb_pc]. rewrite bind_Ok. cbv beta.
  match goal with |- context [onpc ?a ?b] => destruct (onpc a b) end.
  - match goal with |- context [log ?e ?x] => abs_state s (log e x) end.
    step_prelude s Hk Hpc Hop Hmode.
    mode_chain 5.
    repeat first [ head_letS s | match goal with |- ?Q' (if ?c then _ else _) => destruct c end ];
    facts_to_initial2 s; rewrite Hba in *; apply HQ; assumption.
  - step_prelude s Hk Hpc Hop Hmode.
    mode_chain 5.
    repeat first [ head_letS s | match goal with |- ?Q' (if ?c then _ else _) => destruct c end ];
    facts_to_initial2 s; rewrite Hba in *; apply HQ; assumption.
Qed.

Lemma Step_dp9 : forall s op (Q : res (word * bool) -> Prop),
  no_int s -> 0 <= get f_RK s < 256 -> 0 <= get f_PC s < 65536 ->
  mem s (get f_RK s * 65536 + get f_PC s) mod 256 = op ->
  tbl_mode op = 9 ->
  (forall s1, same s s1 -> get f_stepPC s1 = tbl_size op ->
     get f_StepInfo_Mode s1 = 9 -> get f_StepInfo_Addr s1 = add16 (operand1 s) (get f_RD s) ->
     Q (bind (tbl_proc op s1) (fun _ s2 => finish s2))) ->
  Q (Step s).
Proof.
  intros s op Q [Hi2 Hi3] Hk Hpc Hop Hmode HQ.
  assert (H2 : w_eqb (get f_Interrupt s) 2 = false) by (unfold w_eqb; apply Z.eqb_neq; assumption).
  assert (H3 : w_eqb (get f_Interrupt s) 3 = false) by (unfold w_eqb; apply Z.eqb_neq; assumption).
  cbv beta delta [Step].
  head_let s. head_let s. rewrite H2, H3.
  head_let s.
  cbv beta delta [cb_pc]. rewrite bind_Ok. cbv beta.
  match goal with |- context [onpc ?a ?b] => destruct (onpc a b) end.
  - match goal with |- context [log ?e ?x] => abs_state s (log e x) end.
    step_prelude s Hk Hpc Hop Hmode.
    mode_chain 9.
    fetch_o1 s. fold (operand1 s).
    match goal with |- context [log ?e ?x] => abs_stateS s (log e x) end.
    step_tail s HQ.
  - step_prelude s Hk Hpc Hop Hmode.
    mode_chain 9.
    fetch_o1 s. fold (operand1 s).
    match goal with |- context [log ?e ?x] => abs_stateS s (log e x) end.
    step_tail s HQ.
Qed.

Lemma Step_rel24 : forall s op (Q : res (word * bool) -> Prop),
  no_int s -> 0 <= get f_RK s < 256 -> 0 <= get f_PC s < 65536 ->
  mem s (get f_RK s * 65536 + get f_PC s) mod 256 = op ->
  tbl_mode op = 24 ->
  (forall s1, same s s1 -> get f_stepPC s1 = tbl_size op ->
     get f_StepInfo_Mode s1 = 24 -> get f_StepInfo_Addr s1 = add16 (add16 (get f_PC s) 3) (operand16 s) ->
     Q (bind (tbl_proc op s1) (fun _ s2 => finish s2))) ->
  Q (Step s).
Proof.
  intros s op Q [Hi2 Hi3] Hk Hpc Hop Hmode HQ.
  assert (H2 : w_eqb (get f_Interrupt s) 2 = false) by (unfold w_eqb; apply Z.eqb_neq; assumption).
  assert (H3 : w_eqb (get f_Interrupt s) 3 = false) by (unfold w_eqb; apply Z.eqb_neq; assumption).
  cbv beta delta [Step].
  head_let s. head_let s. rewrite H2, H3.
  head_let s.
  cbv beta delta [cb_pc]. rewrite bind_Ok. cbv beta.
  match goal with |- context [onpc ?a ?b] => destruct (onpc a b) end.
  - match goal with |- context [log ?e ?x] => abs_state s (log e x) end.
    step_prelude s Hk Hpc Hop Hmode.
    mode_chain 24.
    fetch_o16 s. fold (operand1 s) (operand2 s). fold (operand16 s).
    match goal with |- context [log ?e (log ?e' ?x)] => abs_stateS s (log e (log e' x)) end.
    step_tail s HQ.
  - step_prelude s Hk Hpc Hop Hmode.
    mode_chain 24.
    fetch_o16 s. fold (operand1 s) (operand2 s). fold (operand16 s).
    match goal with |- context [log ?e (log ?e' ?x)] => abs_stateS s (log e (log e' x)) end.
    step_tail s HQ.
Qed.

(* ---------------------------------------------------------------- fast normalisation of get / mem over set chains *)
Ltac simp_get f t :=
  lazymatch t with
  | set ?g ?v ?s' => let b := eval vm_compute in (N.eqb f g) in
                     lazymatch b with true => v | false => simp_get f s' end
  | log _ ?s' => simp_get f s'
  | upd _ _ ?s' => simp_get f s'
  | _ => constr:(get f t)
  end.
Ltac gs_fast :=
  repeat match goal with |- context [get ?f ?t] =>
    lazymatch t with set _ _ _ => idtac | log _ _ => idtac | upd _ _ _ => idtac end;
    let r := simp_get f t in change (get f t) with r end.

Ltac arch_eval :=
  lazy beta iota zeta delta [with_A with_X with_Y with_S with_D with_DBR with_PBR with_PC
         with_N with_V with_M with_Xf with_Df with_I with_Z with_C with_E with_Stp abs norm_x
         rA rX rY rS rD rDBR rPBR rPC fN fV fM fX fD fI fZ fC rE rStp].


(* ---------------------------------------------------------------- the status byte *)
Lemma Flags_ok : forall s, wf s -> Flags s = Ok (P_of (abs s)) s.
Proof.
  intros s W. unfold Flags, P_of, abs. arch_proj. cbv zeta.
  destruct (wf_C s W) as [HC | HC]; rewrite HC;
  destruct (wf_Z s W) as [HZ | HZ]; rewrite HZ;
  destruct (wf_I s W) as [HI | HI]; rewrite HI;
  destruct (wf_D s W) as [HD | HD]; rewrite HD;
  destruct (wf_X s W) as [HX | HX]; rewrite HX;
  destruct (wf_M s W) as [HM | HM]; rewrite HM;
  destruct (wf_V s W) as [HV | HV]; rewrite HV;
  destruct (wf_N s W) as [HN | HN]; rewrite HN; reflexivity.
Qed.

Lemma P_of_range : forall a, 0 <= P_of a < 256.
Proof.
  intros a. unfold P_of.
  assert (B : forall b, 0 <= Spec816.b2z b <= 1) by (intros []; cbn; lia).
  pose proof (B (fC a)); pose proof (B (fZ a)); pose proof (B (fI a)); pose proof (B (fD a));
  pose proof (B (fX a)); pose proof (B (fM a)); pose proof (B (fV a)); pose proof (B (fN a)). lia.
Qed.

Lemma bit_and : forall v k, 0 <= v -> 0 <= k -> w_and (w_shr v k) 1 = if bit v k then 1 else 0.
Proof.
  intros v k Hv Hk. unfold w_and, w_shr, bit. rewrite Z.shiftr_div_pow2 by assumption.
  change 1 with (Z.ones 1) at 1. rewrite Z.land_ones by lia. change (2 ^ 1) with 2.
  apply Zmod_odd.
Qed.


Lemma SetFlags_ok : forall v s, wf s -> get f_E s = 0 -> 0 <= v < 256 ->
  exists sR, SetFlags v s = Ok tt sR /\ abs sR = with_P v (abs s) /\ wf sR /\ (forall a, mem sR a = mem s a) /\
             get f_stepPC sR = get f_stepPC s.
Proof.
  intros v s W HE Hv. pose_ranges s W.
  cbv beta zeta delta [SetFlags]. gs_fast. rewrite HE. change (w_eqb 0 1) with false. cbv iota.
  rewrite !bit_and by lia.
  unfold with_P.
  destruct (wf_X s W) as [HX | HX]; destruct (wf_M s W) as [HM | HM];
  destruct (bit v 4) eqn:B4; destruct (bit v 5) eqn:B5.
  all: gs_fast; rewrite ?HX, ?HM; lits; cbv beta iota delta [negb].
  all: cbv beta iota zeta delta [ChangeRegisterSizes_X ChangeRegisterSizes_M]; gs_fast; lits; rewrite ?bind_Ok; cbv beta; gs_fast; lits; rewrite ?bind_Ok; cbv beta.
  all: eexists; (split; [reflexivity |]);
       (split; [| split; [| split; [intro a; reflexivity | gs_fast; reflexivity]]]);
       [ unfold abs at 1; gs_fast; rewrite ?HX, ?HM; lits; arch_eval; rewrite ?HX, ?HM; lits; rewrite ?ite_eqb1;
          f_equal; zarith
        | constructor; unfold flag01; gs_fast;
          first [ apply W | rng8 | rng16 | (left; reflexivity) | (right; reflexivity)
                | match goal with |- (if ?c then 1 else 0) = 0 \/ _ => destruct c; [right | left]; reflexivity end
                | zarith ] ].
Qed.

(* ---------------------------------------------------------------- transfer along [same], end of Step *)
Lemma same_wf : forall s s1, same s s1 -> wf s -> wf s1.
Proof. intros s s1 [H _] W. exact (wf_ext s1 s H W). Qed.
Lemma same_abs : forall s s1, same s s1 -> abs s1 = abs s.
Proof. intros s s1 [H _]. exact (abs_ext s1 s H). Qed.

Lemma abs_advance : forall sR, abs (advance sR) = with_PC (add16 (get f_PC sR) (get f_stepPC sR)) (abs sR).
Proof. intros sR. unfold advance, abs, with_PC. gs_fast. reflexivity. Qed.
Lemma wf_advance : forall sR, wf sR -> wf (advance sR).
Proof.
  intros sR W. unfold advance. constructor; unfold flag01; gs_fast; try apply W.
  unfold add16. apply Z.mod_pos_bound. lia.
Qed.

Lemma refines_finish2 : forall s sR,
  with_PC (add16 (get f_PC sR) (get f_stepPC sR)) (abs sR) = Spec816.step_state (abs s) (mem s) ->
  (forall a, mem sR a = Spec816.step_mem (abs s) (mem s) a) ->
  wf sR ->
  refines_step s (finish sR).
Proof.
  intros s sR Ha Hm Hw. apply refines_finish.
  - rewrite abs_advance. exact Ha.
  - exact Hm.
  - apply wf_advance. exact Hw.
Qed.

Lemma with_PC_with_P : forall p v a, with_PC p (with_P v a) = with_P v (with_PC p a).
Proof. intros p v a. unfold with_P, norm_x. arch_eval. destruct (bit v 4); reflexivity. Qed.

Lemma abs_pulled : forall s, abs (pulled s) = with_S (add16 (get f_SP s) 1) (abs s).
Proof. intros s. unfold pulled, abs, with_S. gs_fast. reflexivity. Qed.
Lemma wf_pulled : forall s, wf s -> wf (pulled s).
Proof.
  intros s W. unfold pulled. constructor; unfold flag01; gs_fast; try apply W.
  unfold add16. apply Z.mod_pos_bound. lia.
Qed.

(* ---------------------------------------------------------------- tactics of the stack family *)
Ltac spec_evalS :=
  lazy beta iota zeta delta [exec oploc set_nz with_A with_X with_Y with_S with_D with_DBR with_PBR with_PC
         with_N with_V with_M with_Xf with_Df with_I with_Z with_C with_E with_Stp xr yr xw mw acc with_acc abs Spec816.b2z
         rA rX rY rS rD rDBR rPBR rPC fN fV fM fX fD fI fZ fC rE rStp fst snd wmod wsgn ISA.length negb
         rdw rd8 rd16 loc_byte byte ba w16
         Spec816.push8 Spec816.push16 pushw Spec816.pull8 Spec816.pull16 pullw app apply_writes
         Spec816.step_state Spec816.step_mem].

Lemma ite_cong : forall (a x y v w r r' : Z), x = y -> v = w -> r = r' ->
  (if a =? x then v else r) = (if a =? y then w else r').
Proof. intros; subst; reflexivity. Qed.

Ltac nonneg := first [ lia | (apply Z.mod_pos_bound; lia) | (unfold add16, sub16, conv16; apply Z.mod_pos_bound; lia) ].

Ltac zarithS :=
  rewrite ?shr8;
  repeat match goal with
         | |- context [w_or (shl16 ?h 8) ?l] => rewrite (join16 h l) by first [ assumption | (apply Z.mod_pos_bound; lia) | lia ]
         | |- context [w_and ?x 255] => rewrite (land255 x) by nonneg
         end;
  unfold add8, sub8, conv8, add16, sub16, conv16, w16, w8, wtrunc;
  rewrite ?Z.add_0_r; rewrite ?Zmod_mod;
  Z.div_mod_to_equations; lia.

Ltac mem_chain := repeat (apply ite_cong; [ first [reflexivity | zarithS] | first [reflexivity | zarithS] | ]); reflexivity.

Ltac push_side s s1 Hs1 HE :=
  first [ (rewrite (same_get s s1 f_E Hs1 eq_refl); exact HE)
        | (rewrite (same_get s s1 f_SP Hs1 eq_refl); assumption) ].

Ltac push_fin s W Hop s1 Hs1 Hsz mn md :=
  apply refines_finish; unfold advance, pushed;
  [ unfold abs at 1; gs_fast; try rewrite Hsz; to_initial s s1 Hs1;
    spec_side s W Hop mn md; spec_evalS; rw_hyps; lits; spec_evalS; rewrite ?ite_eqb1;
    try reflexivity; f_equal; field_goal
  | intro a; gs_fast; gs_normw; to_initial s s1 Hs1; spec_side s W Hop mn md; spec_evalS; rw_hyps; lits; spec_evalS;
    mem_chain
  | constructor; unfold flag01; gs_fast; try rewrite Hsz; to_initial s s1 Hs1; rw_hyps;
    first [ apply W | rng8 | rng16 | (left; reflexivity) | (right; reflexivity) ] ].

Ltac push_op op routine mn :=
  start_imp op; cbv beta zeta delta [routine b2z];
  match goal with W : wf ?s, HE : get f_E ?s = 0, Hop : opcode_at ?s = _, Hs1 : same ?s ?s1, Hsz : get f_stepPC ?s1 = _ |- _ =>
    by_flags s W s1 Hs1 HE; pose_ranges s W;
    first [ rewrite push16_ok by push_side s s1 Hs1 HE | rewrite push_ok by push_side s s1 Hs1 HE ];
    rewrite bind_Ok; cbv beta;
    push_fin s W Hop s1 Hs1 Hsz mn Imp
  end.

Ltac start_m5 op :=
  let s := fresh "s" in let W := fresh "W" in let HE := fresh "HE" in let Hni := fresh "Hni" in let Hop := fresh "Hop" in
  intros s W HE Hni Hop;
  apply (Step_m5 s op); [ exact Hni | apply W | apply W | exact Hop | reflexivity | ];
  let s1 := fresh "s1" in let Hs1 := fresh "Hs1" in let Hsz := fresh "Hsz" in let Hmd := fresh "Hmd" in
  let Haddr := fresh "Haddr" in let Hea := fresh "Hea" in
  intros s1 Hs1 Hsz Hmd Haddr Hea;
  let p := eval cbv beta iota delta [tbl_proc] in (tbl_proc op) in change (tbl_proc op) with p;
  let z := eval cbv beta iota delta [tbl_size] in (tbl_size op) in change (tbl_size op) with z in Hsz.

Ltac start_md lem op :=
  let s := fresh "s" in let W := fresh "W" in let HE := fresh "HE" in let Hni := fresh "Hni" in let Hop := fresh "Hop" in
  intros s W HE Hni Hop;
  apply (lem s op); [ exact Hni | apply W | apply W | exact Hop | reflexivity | ];
  let s1 := fresh "s1" in let Hs1 := fresh "Hs1" in let Hsz := fresh "Hsz" in let Hmd := fresh "Hmd" in
  let Haddr := fresh "Haddr" in
  intros s1 Hs1 Hsz Hmd Haddr;
  let p := eval cbv beta iota delta [tbl_proc] in (tbl_proc op) in change (tbl_proc op) with p;
  let z := eval cbv beta iota delta [tbl_size] in (tbl_size op) in change (tbl_size op) with z in Hsz.

Lemma fetch1_eq : forall s, fetch (abs s) (mem s) 1 = operand1 s.
Proof. reflexivity. Qed.

Lemma fetch2_eq : forall s, fetch (abs s) (mem s) 2 = operand2 s.
Proof.
  intros s. unfold fetch, operand2, byte, ba, abs, w16, add16. arch_proj.
  replace (((get f_PC s + 1) mod 65536 + 1) mod 65536) with ((get f_PC s + 2) mod 65536); [reflexivity |].
  Z.div_mod_to_equations; lia.
Qed.

Lemma operand1_range : forall s, 0 <= operand1 s < 256.
Proof. intros s. unfold operand1. apply Z.mod_pos_bound. lia. Qed.

Lemma operand2_range : forall s, 0 <= operand2 s < 256.
Proof. intros s. unfold operand2. apply Z.mod_pos_bound. lia. Qed.

Ltac operands s :=
  rewrite ?fetch1_eq, ?fetch2_eq;
  change (mem s (get f_RK s * 65536 + add16 (add16 (get f_PC s) 1) 1) mod 256) with (operand2 s);
  change (mem s (get f_RK s * 65536 + add16 (get f_PC s) 1) mod 256) with (operand1 s);
  try unfold operand16;
  let o1 := fresh "o1" in let o2 := fresh "o2" in
  pose proof (operand1_range s); pose proof (operand2_range s);
  generalize dependent (operand1 s); intros o1; intros; generalize dependent (operand2 s); intros o2; intros.

Ltac push_fin2 s W Hop s1 Hs1 Hsz mn md :=
  apply refines_finish; unfold advance, pushed;
  [ unfold abs at 1; gs_fast; try rewrite Hsz; to_initial s s1 Hs1;
    spec_side s W Hop mn md; operands s; spec_evalS; rw_hyps; lits; spec_evalS; rewrite ?ite_eqb1;
    try reflexivity; f_equal; field_goal
  | intro a; gs_fast; gs_normw; to_initial s s1 Hs1; spec_side s W Hop mn md; operands s; spec_evalS; rw_hyps; lits; spec_evalS;
    mem_chain
  | constructor; unfold flag01; gs_fast; try rewrite Hsz; to_initial s s1 Hs1; rw_hyps;
    first [ apply W | rng8 | rng16 | (left; reflexivity) | (right; reflexivity) ] ].

Lemma bank0 : forall x, 0 * 65536 + x = x.
Proof. reflexivity. Qed.

Ltac unify_mem_addrs s :=
  repeat match goal with |- context [mem s ?A] =>
    match goal with |- context [mem s ?B] =>
      tryif constr_eq A B then fail else
        (let H := fresh in assert (H : A = B) by zarithS; rewrite H; clear H)
    end end.

Ltac gen_bytes s :=
  repeat match goal with |- context [mem s ?A mod 256] =>
    let b := fresh "b" in
    pose proof (Z.mod_pos_bound (mem s A) 256 eq_refl);
    generalize dependent (mem s A mod 256); intros b; intros end.