(* C01 refinement lemmas, family C (see C01Base.v) *)
From Coq Require Import ZArith NArith List Bool Lia.
From Spec Require Import ISA Spec816.
From Lib Require Import ZOps Machine.
From Snapshot Require Import GenFields GenCpu65.
From Props Require Import C01Base.
Local Open Scope Z_scope.
Arguments Z.modulo : simpl never.
Arguments Z.lor : simpl never.
Arguments Z.land : simpl never.
Arguments Z.shiftl : simpl never.
Arguments Z.shiftr : simpl never.

Lemma ref_AA : refines_op 170. Proof. reg_only 170 op_tax TAX Imp. Qed.
Lemma ref_A8 : refines_op 168. Proof. reg_only 168 op_tay TAY Imp. Qed.
Lemma ref_8A : refines_op 138. Proof. reg_only 138 op_txa TXA Imp. Qed.
Lemma ref_98 : refines_op 152. Proof. reg_only 152 op_tya TYA Imp. Qed.
