(* C01 refinement lemmas, family J (immediate operands; see C01Imm.v) *)
From Coq Require Import ZArith NArith List Bool Lia.
From Spec Require Import ISA Spec816.
From Lib Require Import ZOps Machine.
From Snapshot Require Import GenFields GenCpu65.
From Props Require Import C01Base C01Flow C01Imm.
Local Open Scope Z_scope.
Arguments Z.modulo : simpl never.
Arguments Z.lor : simpl never.
Arguments Z.land : simpl never.
Arguments Z.shiftl : simpl never.
Arguments Z.shiftr : simpl never.

Lemma ref_29 : refines_op 41. Proof. imm_op Step_imm6 ImmM 41 op_and AND. Qed.
Lemma ref_09 : refines_op 9. Proof. imm_op Step_imm6 ImmM 9 op_ora ORA. Qed.
Lemma ref_49 : refines_op 73. Proof. imm_op Step_imm6 ImmM 73 op_eor EOR. Qed.
