(* C01 refinement lemmas, stack family, pushes: PHA PHX PHY PHP PHB PHK PHD PEA PER PEI (see C01StkBase.v)

   snapshot_dep: op_pha, op_phx, op_phy, op_php, op_phb, op_phk, op_phd, op_pea, op_per, op_pei, push, push16,
                 Flags, cmdRead16, tbl_proc, tbl_size, tbl_mode *)
From Coq Require Import ZArith NArith List Bool Lia.
From Spec Require Import ISA Spec816.
From Lib Require Import ZOps Machine.
From Snapshot Require Import GenFields GenCpu65.
From Props Require Import C01Base C01Flow C01Imm C01StkBase.
Import ListNotations.
Local Open Scope Z_scope.
Arguments Z.modulo : simpl never.
Arguments Z.lor : simpl never.
Arguments Z.land : simpl never.
Arguments Z.shiftl : simpl never.
Arguments Z.shiftr : simpl never.

Lemma ref_48 : refines_op 72. Proof. push_op 72 op_pha PHA. Qed.
Lemma ref_DA : refines_op 218. Proof. push_op 218 op_phx PHX. Qed.
Lemma ref_5A : refines_op 90. Proof. push_op 90 op_phy PHY. Qed.
Lemma ref_8B : refines_op 139. Proof. push_op 139 op_phb PHB. Qed.
Lemma ref_4B : refines_op 75. Proof. push_op 75 op_phk PHK. Qed.
Lemma ref_0B : refines_op 11. Proof. push_op 11 op_phd PHD. Qed.

Lemma ref_08 : refines_op 8.
Proof.
  start_imp 8. cbv beta zeta delta [op_php b2z]. pose_ranges s W.
  rewrite Flags_ok by (apply (same_wf s s1 Hs1 W)). rewrite bind_Ok. cbv beta.
  rewrite push_ok by push_side s s1 Hs1 HE. rewrite bind_Ok. cbv beta.
  rewrite (same_abs s s1 Hs1).
  pose proof (P_of_range (abs s)) as HP. remember (P_of (abs s)) as P eqn:EP.
  apply refines_finish; unfold advance, pushed.
  - unfold abs at 1; gs_fast; try rewrite Hsz; to_initial s s1 Hs1;
    spec_side s W Hop PHP Imp; spec_evalS; rw_hyps; lits; spec_evalS; rewrite ?ite_eqb1;
    try reflexivity; f_equal; field_goal.
  - intro a; gs_fast; gs_normw; to_initial s s1 Hs1; spec_side s W Hop PHP Imp; spec_evalS.
    match goal with |- context [P_of ?r] => change (P_of r) with (P_of (abs s)) end. rewrite <- EP.
    mem_chain.
  - constructor; unfold flag01; gs_fast; try rewrite Hsz; to_initial s s1 Hs1; rw_hyps;
    first [ apply W | rng8 | rng16 | (left; reflexivity) | (right; reflexivity) ].
Qed.

Lemma ref_F4 : refines_op 244.
Proof.
  start_m5 244. cbv beta zeta delta [op_pea b2z]. pose_ranges s W.
  rewrite cmdRead16_m5_ok by
    first [ exact Hmd | (rewrite (same_get s s1 f_RK Hs1 eq_refl); assumption)
          | (rewrite Haddr; unfold add16; apply Z.mod_pos_bound; lia) ].
  rewrite bind_Ok. cbv beta. rewrite Haddr. to_initial s s1 Hs1.
  rewrite push16_ok by (gs_fast; push_side s s1 Hs1 HE). rewrite !bind_Ok. cbv beta.
  push_fin2 s W Hop s1 Hs1 Hsz PEA Imm16.
Qed.

Lemma ref_62 : refines_op 98.
Proof.
  start_md Step_rel24 98. cbv beta zeta delta [op_per b2z]. pose_ranges s W.
  rewrite Haddr.
  rewrite push16_ok by (gs_fast; push_side s s1 Hs1 HE). rewrite !bind_Ok. cbv beta.
  push_fin2 s W Hop s1 Hs1 Hsz PER Rel16.
Qed.

Lemma ref_D4 : refines_op 212.
Proof.
  start_md Step_dp9 212. cbv beta zeta delta [op_pei b2z]. pose_ranges s W.
  rewrite cmdRead16_dp9_ok by
    first [ exact Hmd | (rewrite Haddr; unfold add16; apply Z.mod_pos_bound; lia) ].
  rewrite bind_Ok. cbv beta. rewrite Haddr. to_initial s s1 Hs1.
  rewrite push16_ok by (gs_fast; push_side s s1 Hs1 HE). rewrite !bind_Ok. cbv beta.
  apply refines_finish; unfold advance, pushed.
  - unfold abs at 1; gs_fast; try rewrite Hsz; to_initial s s1 Hs1;
    spec_side s W Hop PEI DpInd; operands s; spec_evalS; rw_hyps; lits; spec_evalS; rewrite ?ite_eqb1;
    try reflexivity; f_equal; field_goal.
  - intro a; gs_fast; gs_normw; to_initial s s1 Hs1; spec_side s W Hop PEI DpInd; operands s; spec_evalS.
    rewrite !bank0. unify_mem_addrs s. gen_bytes s. mem_chain.
  - constructor; unfold flag01; gs_fast; try rewrite Hsz; to_initial s s1 Hs1; rw_hyps;
    first [ apply W | rng8 | rng16 | (left; reflexivity) | (right; reflexivity) ].
Qed.
