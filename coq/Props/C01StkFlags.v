(* C01 refinement lemmas, stack family, status byte and width switches: PLP REP SEP XCE (see C01StkBase.v)

   snapshot_dep: op_plp, op_rep, op_sep, op_xce, pull, Flags, SetFlags, EaRead, tbl_proc, tbl_size, tbl_mode *)
From Coq Require Import ZArith NArith List Bool Lia.
From Spec Require Import ISA Spec816.
From Lib Require Import ZOps Machine.
From Snapshot Require Import GenFields GenCpu65.
From Props Require Import C01Base C01Flow C01Imm C01StkBase.
Import ListNotations.
Local Open Scope Z_scope.
Arguments Z.modulo : simpl never.
Arguments Z.lor : simpl never.
Arguments Z.land : simpl never.
Arguments Z.shiftl : simpl never.
Arguments Z.shiftr : simpl never.

Lemma rPC_with_P : forall v a, rPC (with_P v a) = rPC a.
Proof. intros v a. unfold with_P, norm_x. arch_eval. destruct (bit v 4); reflexivity. Qed.

Lemma SetFlags_PC : forall v s sR, abs sR = with_P v (abs s) -> get f_PC sR = get f_PC s.
Proof.
  intros v s sR H. change (get f_PC sR) with (rPC (abs sR)). rewrite H, rPC_with_P. reflexivity.
Qed.

Lemma ref_28 : refines_op 40.
Proof.
  start_imp 40. cbv beta zeta delta [op_plp b2z]. pose_ranges s W.
  assert (HE1 : get f_E s1 = 0) by (rewrite (same_get s s1 f_E Hs1 eq_refl); exact HE).
  rewrite pull_ok by exact HE1. rewrite bind_Ok. cbv beta.
  match goal with |- context [SetFlags ?v ?t] =>
    destruct (SetFlags_ok v t) as (sR & Heq & Habs & Hwf & Hmem & Hspc);
      [ apply wf_pulled, (same_wf s s1 Hs1 W) | rewrite pulled_E; exact HE1 | apply Z.mod_pos_bound; lia | ]
  end.
  rewrite Heq, !bind_Ok. cbv beta.
  apply refines_finish2.
  - rewrite (SetFlags_PC _ _ _ Habs), Hspc, Habs, abs_pulled, (same_abs s s1 Hs1), with_PC_with_P.
    unfold pulled. gs_fast. rewrite Hsz. to_initial s s1 Hs1.
    spec_side s W Hop PLP Imp. spec_evalS. reflexivity.
  - intro a. rewrite Hmem, pulled_mem, (proj2 Hs1). spec_side s W Hop PLP Imp. spec_evalS. reflexivity.
  - exact Hwf.
Qed.


Lemma not8_sub : forall v, 0 <= v < 256 -> not8 v = 255 - v.
Proof.
  intros v Hv.
  assert (H : all_below 8 0 (fun v => not8 v =? 255 - v) = true) by (vm_compute; reflexivity).
  apply Z.eqb_eq. apply (all_below_sound 8 0 _ H). cbn. lia.
Qed.


Ltac log_state s s1 Hs1 Hsz k :=
  match goal with |- context [log ?e s1] =>
    let s2 := fresh "s2" in let Hs2 := fresh "Hs2" in let Hsz2 := fresh "Hsz2" in
    set (s2 := log e s1);
    assert (Hs2 : same s s2) by (subst s2; apply same_log; exact Hs1);
    assert (Hsz2 : get f_stepPC s2 = k) by (subst s2; rewrite get_log; exact Hsz);
    clearbody s2
  end.

Ltac setflags_fin s W Hop HE s2 Hs2 Hsz2 mn md :=
  match goal with |- context [SetFlags ?v ?t] =>
    let sR := fresh "sR" in let Heq := fresh "Heq" in let Habs := fresh "Habs" in let Hwf := fresh "Hwf" in
    let Hmem := fresh "Hmem" in let Hspc := fresh "Hspc" in
    destruct (SetFlags_ok v t) as (sR & Heq & Habs & Hwf & Hmem & Hspc);
      [ apply (same_wf s s2 Hs2 W) | rewrite (same_get s s2 f_E Hs2 eq_refl); exact HE | rng_bits | ];
    rewrite Heq, !bind_Ok; cbv beta;
    apply refines_finish2;
    [ rewrite (SetFlags_PC _ _ _ Habs), Hspc, Habs, (same_abs s s2 Hs2), with_PC_with_P;
      rewrite Hsz2; to_initial s s2 Hs2;
      spec_side s W Hop mn md; rewrite ?fetch1_eq; spec_evalS; reflexivity
    | intro a; rewrite Hmem, (proj2 Hs2); spec_side s W Hop mn md; spec_evalS; reflexivity
    | exact Hwf ]
  end.

Lemma ref_C2 : refines_op 194.
Proof.
  start_m5 194. cbv beta zeta delta [op_rep b2z]. pose_ranges s W.
  rewrite Hea. rewrite EaRead_ok by (unfold add16; Z.div_mod_to_equations; lia). rewrite bind_Ok. cbv beta.
  rewrite (proj2 Hs1). fold (operand1 s).
  log_state s s1 Hs1 Hsz 2.
  rewrite Flags_ok by (apply (same_wf s s2 Hs2 W)). rewrite bind_Ok. cbv beta.
  rewrite (same_abs s s2 Hs2).
  pose proof (P_of_range (abs s)) as HP. pose proof (operand1_range s) as Ho.
  rewrite not8_sub by exact Ho.
  setflags_fin s W Hop HE s2 Hs2 Hsz2 REP Imm8.
Qed.

Lemma ref_E2 : refines_op 226.
Proof.
  start_m5 226. cbv beta zeta delta [op_sep b2z]. pose_ranges s W.
  rewrite Flags_ok by (apply (same_wf s s1 Hs1 W)). rewrite bind_Ok. cbv beta.
  rewrite (same_abs s s1 Hs1).
  rewrite Hea. rewrite EaRead_ok by (unfold add16; Z.div_mod_to_equations; lia). rewrite bind_Ok. cbv beta.
  rewrite (proj2 Hs1). fold (operand1 s).
  log_state s s1 Hs1 Hsz 2.
  pose proof (P_of_range (abs s)) as HP. pose proof (operand1_range s) as Ho.
  setflags_fin s W Hop HE s2 Hs2 Hsz2 SEP Imm8.
Qed.

Lemma with_P_or48 : forall a, with_P (w_or (P_of a) 48) a = norm_x (with_Xf true (with_M true a)).
Proof.
  intros [A X Y S D B K PC n v m x d i z c e stp].
  destruct n, v, m, x, d, i, z, c; reflexivity.
Qed.

Lemma or256 : forall x, 0 <= x < 65536 -> w_or 256 (w_and x 255) = 256 + x mod 256.
Proof.
  intros x Hx. rewrite land255 by lia. unfold w_or. change 256 with (1 * 2 ^ 8) at 1.
  rewrite lor_disjoint; [reflexivity | lia | | lia]. change (2 ^ 8) with 256. apply Z.mod_pos_bound. lia.
Qed.

Lemma abs_set_C : forall c s, abs (set f_C c s) = with_C (c =? 1) (abs s).
Proof. intros. unfold abs, with_C. gs_fast. reflexivity. Qed.
Lemma wf_set_C0 : forall s, wf s -> wf (set f_C 0 s).
Proof. intros s W. constructor; unfold flag01; gs_fast; try apply W. left; reflexivity. Qed.

Lemma abs_xce_tail : forall x y p sR, (get f_X sR =? 1) = true ->
  abs (set f_RY y (set f_RX x (set f_SP p (set f_E 1 sR)))) = with_S p (with_E true (abs sR)).
Proof. intros x y p sR H. unfold abs, with_S, with_E. gs_fast. rewrite H. reflexivity. Qed.

Lemma wf_xce_tail : forall sR, wf sR ->
  wf (set f_RY (w_and (get f_RY sR) 255) (set f_RX (w_and (get f_RX sR) 255)
       (set f_SP (w_or 256 (w_and (get f_SP sR) 255)) (set f_E 1 sR)))).
Proof.
  intros sR W. pose_ranges sR W. constructor; unfold flag01; gs_fast; try apply W.
  - rewrite land255 by lia. Z.div_mod_to_equations; lia.
  - rewrite land255 by lia. Z.div_mod_to_equations; lia.
  - rewrite or256 by lia. Z.div_mod_to_equations; lia.
  - right; reflexivity.
Qed.

Lemma ref_FB : refines_op 251.
Proof.
  start_imp 251. cbv beta zeta delta [op_xce b2z]. pose_ranges s W.
  assert (HE1 : get f_E s1 = 0) by (rewrite (same_get s s1 f_E Hs1 eq_refl); exact HE).
  rewrite HE1. rewrite (same_get s s1 f_C Hs1 eq_refl).
  destruct (wf_C s W) as [HC | HC]; rewrite HC; lits.
  - (* carry clear: stay native *)
    rewrite bind_Ok. cbv beta.
    apply refines_finish; unfold advance.
    + unfold abs at 1; gs_fast; try rewrite Hsz; to_initial s s1 Hs1;
      spec_side s W Hop XCE Imp; spec_evalS; rw_hyps; lits; spec_evalS; rewrite ?ite_eqb1;
      try reflexivity; f_equal; field_goal.
    + intro a; gs_fast; gs_normw; to_initial s s1 Hs1; spec_side s W Hop XCE Imp; spec_evalS; rw_hyps; lits; spec_evalS;
      reflexivity.
    + constructor; unfold flag01; gs_fast; try rewrite Hsz; to_initial s s1 Hs1; rw_hyps;
      first [ apply W | rng8 | rng16 | (left; reflexivity) | (right; reflexivity) ].
  - (* carry set: to emulation mode *)
    assert (W1 : wf s1) by (apply (same_wf s s1 Hs1 W)).
    assert (W2 : wf (set f_C 0 s1)) by (apply wf_set_C0; exact W1).
    rewrite Flags_ok by exact W2. rewrite bind_Ok. cbv beta.
    rewrite abs_set_C, (same_abs s s1 Hs1). change (0 =? 1) with false.
    pose proof (P_of_range (with_C false (abs s))) as HP.
    match goal with |- context [SetFlags ?v ?t] =>
      destruct (SetFlags_ok v t) as (sR & Heq & Habs & Hwf & Hmem & Hspc);
        [ exact W2 | gs_fast; exact HE1 | rng_bits | ]
    end.
    rewrite Heq, !bind_Ok. cbv beta zeta. gs_fast.
    rewrite abs_set_C, (same_abs s s1 Hs1) in Habs. change (0 =? 1) with false in Habs.
    rewrite with_P_or48 in Habs.
    assert (HX : (get f_X sR =? 1) = true) by (change (get f_X sR =? 1) with (fX (abs sR)); rewrite Habs; reflexivity).
    assert (HPC : get f_PC sR = get f_PC s) by (change (get f_PC sR) with (rPC (abs sR)); rewrite Habs; reflexivity).
    assert (HSP : get f_SP sR = get f_SP s) by (change (get f_SP sR) with (rS (abs sR)); rewrite Habs; reflexivity).
    apply refines_finish2.
    + gs_fast. rewrite abs_xce_tail by exact HX. rewrite Habs, HPC, Hspc, HSP. gs_fast. rewrite Hsz.
      rewrite or256 by assumption.
      spec_side s W Hop XCE Imp. spec_evalS. rw_hyps; lits.
      lazy beta iota zeta delta [norm_x with_A with_X with_Y with_S with_D with_DBR with_PBR with_PC
         with_N with_V with_M with_Xf with_Df with_I with_Z with_C with_E with_Stp
         rA rX rY rS rD rDBR rPBR rPC fN fV fM fX fD fI fZ fC rE rStp].
      try reflexivity; f_equal; field_goal.
    + intro a. gs_fast; gs_normw. rewrite Hmem. gs_normw. rewrite (proj2 Hs1).
      spec_side s W Hop XCE Imp; spec_evalS; rw_hyps; lits; spec_evalS. reflexivity.
    + apply wf_xce_tail. exact Hwf.
Qed.
