(* C01 refinement lemmas, family B (see C01Base.v) *)
From Coq Require Import ZArith NArith List Bool Lia.
From Spec Require Import ISA Spec816.
From Lib Require Import ZOps Machine.
From Snapshot Require Import GenFields GenCpu65.
From Props Require Import C01Base.
Local Open Scope Z_scope.
Arguments Z.modulo : simpl never.
Arguments Z.lor : simpl never.
Arguments Z.land : simpl never.
Arguments Z.shiftl : simpl never.
Arguments Z.shiftr : simpl never.

Lemma ref_E8 : refines_op 232. Proof. reg_only 232 op_inx INX Imp. Qed.
Lemma ref_C8 : refines_op 200. Proof. reg_only 200 op_iny INY Imp. Qed.
Lemma ref_CA : refines_op 202. Proof. reg_only 202 op_dex DEX Imp. Qed.
Lemma ref_88 : refines_op 136. Proof. reg_only 136 op_dey DEY Imp. Qed.
