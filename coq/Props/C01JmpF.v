(* C01 refinement lemma, block move MVP (one byte per Step; see C01JmpBase.v, C01JmpTac.v).

   snapshot_dep: op_mvp, nRead, nWrite *)
From Coq Require Import ZArith NArith List Bool Lia.
From Spec Require Import ISA Spec816.
From Lib Require Import ZOps Machine.
From Snapshot Require Import GenFields GenCpu65.
From Props Require Import C01Base C01Flow C01Imm C01JmpBase C01JmpTac.
Import ListNotations.
Local Open Scope Z_scope.
Arguments Z.modulo : simpl never.
Arguments Z.lor : simpl never.
Arguments Z.land : simpl never.
Arguments Z.shiftl : simpl never.
Arguments Z.shiftr : simpl never.

Lemma ref_44 : refines_op 68. Proof. block_move 68 op_mvp MVP. Qed.
