(* Props/FinalizeProps.v -- property C06: Finalize resolves every label reference or reports an error.

   Theorems over Model/Emitter.v + Model/EmitterExt.v (histories [runX fx], for EVERY variant [fx] of
   the two listing routines -- they do not touch what C06 is about -- hence in particular for [today],
   which is definitionally Emitter.run: [runX_today]).

   Structure
     1. Go-map lemmas (lookup / insert / remove on any association list).
     2. The abstract first pass of a two-pass assembler ([astep], [assemble]): base, image, label table,
        chronological lists of rel8 / abs16 references.  Pure facts about it ([AInv]): every reference is the
        operand address of a label instruction placed earlier, lies inside the image, operand ranges are
        pairwise disjoint.
     3. History invariant [Rel]: the emitter state reached by any history is the abstract state of the accepted
        calls (bytes = image, address = base + bytes emitted, labels = label table with unique keys, the two
        dangling maps = the reference lists grouped by label).          -> [C06_history]
     4. Finalize, for EVERY pair of visiting orders that cover the keys of the two maps (the permutations of the
        keys are the orders a Go execution can take):                    -> [C06_finalize_iff], [C06_finalize_ok],
        [C06_finalize_error], [C06_frame]; Label of an existing name     -> [C06_label_redefinition].
     5. Non-vacuity Examples (forward +127, backward -128, a JMP, two references to one label, +128, -129,
        missing label). *)
From Coq Require Import ZArith NArith List Bool Lia Sorted.
From Lib Require Import ZList.
From Model Require Import Emitter EmitterTie EmitterExt.
Import ListNotations.
Local Open Scope Z_scope.

Definition B32 : Z := 4294967296.
Lemma w32_small : forall x, 0 <= x < B32 -> w32 x = x.
Proof. intros x H. unfold w32. apply Z.mod_small. exact H. Qed.

(* ------------------------------------------------------------------ 1. maps *)
Section MapLemmas.
  Context {A : Type}.
  Implicit Types (m : list (lbl * A)) (k : lbl).

  Lemma lookup_insert_eq : forall m k v, lookup k (insert k v m) = Some v.
  Proof.
    induction m as [|[k0 v0] m IH]; intros k v; simpl.
    - now rewrite N.eqb_refl.
    - destruct (N.ltb k k0) eqn:E1; simpl; [now rewrite N.eqb_refl|].
      destruct (N.eqb k k0) eqn:E2; simpl; [now rewrite N.eqb_refl|].
      rewrite E2. apply IH.
  Qed.

  Lemma lookup_insert_neq : forall m k k' v, k <> k' -> lookup k (insert k' v m) = lookup k m.
  Proof.
    induction m as [|[k0 v0] m IH]; intros k k' v Hne; simpl.
    - destruct (N.eqb k k') eqn:E; [apply N.eqb_eq in E; contradiction|reflexivity].
    - destruct (N.ltb k' k0) eqn:E1; simpl.
      + destruct (N.eqb k k') eqn:E; [apply N.eqb_eq in E; contradiction|reflexivity].
      + destruct (N.eqb k' k0) eqn:E2; simpl.
        * apply N.eqb_eq in E2. subst k0.
          destruct (N.eqb k k') eqn:E; [apply N.eqb_eq in E; contradiction|reflexivity].
        * destruct (N.eqb k k0); [reflexivity|]. now apply IH.
  Qed.

  Lemma lookup_remove_eq : forall m k, lookup k (remove k m) = None.
  Proof.
    induction m as [|[k0 v0] m IH]; intros k; simpl; [reflexivity|].
    destruct (N.eqb k k0) eqn:E; [apply IH|]. simpl. rewrite E. apply IH.
  Qed.

  Lemma lookup_remove_neq : forall m k k', k <> k' -> lookup k (remove k' m) = lookup k m.
  Proof.
    induction m as [|[k0 v0] m IH]; intros k k' Hne; simpl; [reflexivity|].
    destruct (N.eqb k' k0) eqn:E.
    - apply N.eqb_eq in E. subst k0.
      destruct (N.eqb k k') eqn:E2; [apply N.eqb_eq in E2; contradiction|]. now apply IH.
    - simpl. destruct (N.eqb k k0); [reflexivity|]. now apply IH.
  Qed.

  Lemma lookup_None_keys : forall m k, lookup k m = None <-> ~ In k (keys m).
  Proof.
    induction m as [|[k0 v0] m IH]; intros k; simpl; [tauto|].
    destruct (N.eqb k k0) eqn:E.
    - apply N.eqb_eq in E. subst. split; [discriminate|]. intros H. exfalso. apply H. now left.
    - apply N.eqb_neq in E. rewrite IH. unfold keys. split; intros H.
      + intros [H1|H1]; [congruence|]. now apply H.
      + intros H1. apply H. now right.
  Qed.

  Lemma lookup_Some_keys : forall m k v, lookup k m = Some v -> In k (keys m).
  Proof.
    intros m k v H. destruct (in_dec N.eq_dec k (keys m)) as [Hi|Hn]; [exact Hi|].
    apply lookup_None_keys in Hn. congruence.
  Qed.

  Lemma keys_insert : forall m k v k', In k' (keys (insert k v m)) -> k' = k \/ In k' (keys m).
  Proof.
    induction m as [|[k0 v0] m IH]; intros k v k'; simpl.
    - intros [H|[]]; now left.
    - destruct (N.ltb k k0); simpl.
      + intros [H|[H|H]]; auto.
      + destruct (N.eqb k k0) eqn:E; simpl.
        * intros [H|H]; auto.
        * intros [H|H]; auto. apply IH in H. tauto.
  Qed.

  (* a fresh key keeps the keys duplicate-free: `Label` only ever inserts fresh names *)
  Lemma NoDup_keys_insert : forall m k v, lookup k m = None -> NoDup (keys m) -> NoDup (keys (insert k v m)).
  Proof.
    induction m as [|[k0 v0] m IH]; intros k v Hl Hn; simpl.
    - constructor; [intros []|constructor].
    - simpl in Hl. destruct (N.eqb k k0) eqn:E; [discriminate|].
      destruct (N.ltb k k0).
      + change (NoDup (k :: keys ((k0, v0) :: m))). constructor; [|exact Hn].
        apply (proj1 (lookup_None_keys ((k0, v0) :: m) k)). simpl. now rewrite E.
      + change (NoDup (k0 :: keys m)) in Hn. inversion Hn as [|x l Hnin Hn']; subst.
        change (NoDup (k0 :: keys (insert k v m))). constructor.
        * intros H. apply keys_insert in H. destruct H as [H|H]; [|contradiction].
          subst. rewrite N.eqb_refl in E. discriminate.
        * now apply IH.
  Qed.

  (* lookup in a list extended at the end (the abstract label table is in definition order) *)
  Lemma lookup_app_one : forall m k k' v,
    lookup k (m ++ [(k', v)]) =
    match lookup k m with Some x => Some x | None => if N.eqb k k' then Some v else None end.
  Proof.
    induction m as [|[k0 v0] m IH]; intros k k' v; simpl; [reflexivity|].
    destruct (N.eqb k k0); [reflexivity|apply IH].
  Qed.
End MapLemmas.

(* ------------------------------------------------------------------ small list facts *)
Lemma SSorted_app_one : forall (R : Z -> Z -> Prop) l y,
  StronglySorted R l -> (forall x, In x l -> R x y) -> StronglySorted R (l ++ [y]).
Proof.
  intros R l y Hs. induction Hs as [|a l Hs IH Hf]; intros Hy; simpl.
  - constructor; [constructor|constructor].
  - constructor.
    + apply IH. intros x Hx. apply Hy. now right.
    + apply Forall_app. split; [exact Hf|]. constructor; [|constructor]. apply Hy. now left.
Qed.

Lemma SSorted_In2 : forall (R : Z -> Z -> Prop) l x y,
  StronglySorted R l -> In x l -> In y l -> x = y \/ R x y \/ R y x.
Proof.
  intros R l x y Hs. induction Hs as [|a l Hs IH Hf]; intros Hx Hy; [destruct Hx|].
  rewrite Forall_forall in Hf.
  destruct Hx as [Hx|Hx]; destruct Hy as [Hy|Hy]; subst.
  - now left.
  - right; left. now apply Hf.
  - right; right. now apply Hf.
  - now apply IH.
Qed.

(* ------------------------------------------------------------------ 2. the abstract first pass *)
(* What a two-pass assembler knows after laying the accepted calls out from [a_base]: the image (with
   whatever placeholder bytes the label instructions carried), the label table in definition order, and
   the rel8 / abs16 references (label, address of the operand) in program order. *)
Record asm_st := mkA {
  a_base : Z; a_img : list Z; a_lab : list (lbl * Z);
  a_r8 : list (lbl * Z); a_r16 : list (lbl * Z) }.
Definition a_pc (s : asm_st) : Z := a_base s + zlen (a_img s).
Definition a_init : asm_st := mkA 0 [] [] [] [].

Definition astep (o : op) (s : asm_st) : asm_st :=
  match o with
  | OSetBase a => mkA a (a_img s) (a_lab s) (a_r8 s) (a_r16 s)
  | OIns k d l _ _ =>
      mkA (a_base s) (a_img s ++ d) (a_lab s)
          (match k with E2L => a_r8 s ++ [(l, a_pc s + 1)] | _ => a_r8 s end)
          (match k with E3L => a_r16 s ++ [(l, a_pc s + 1)] | _ => a_r16 s end)
  | OEmitBytes bs => mkA (a_base s) (a_img s ++ bs) (a_lab s) (a_r8 s) (a_r16 s)
  | OLabel l => mkA (a_base s) (a_img s) (a_lab s ++ [(l, a_pc s)]) (a_r8 s) (a_r16 s)
  | _ => s
  end.
Definition assemble_from (s : asm_st) (ops : list op) : asm_st := fold_left (fun s o => astep o s) ops s.
Definition assemble (ops : list op) : asm_st := assemble_from a_init ops.

(* shape the Go signatures guarantee *)
Definition op_ok (o : op) : Prop :=
  match o with
  | OIns k d _ _ _ => zlen d = ins_len k
  | OSetBase a => 0 <= a < B32
  | _ => True
  end.

Definition emits (o : op) : bool :=
  match o with OIns _ _ _ _ _ | OEmitBytes _ => true | _ => false end.

(* "base set at most once, before the first emission": [seen] = SetBase was called, [emitted] = an
   instruction or data call was made (accepted or not) *)
Fixpoint base_once (seen emitted : bool) (ops : list op) : bool :=
  match ops with
  | [] => true
  | OSetBase _ :: r => negb seen && negb emitted && base_once true emitted r
  | o :: r => base_once seen (emitted || emits o) r
  end.

(* "the program lies inside one bank" (24-bit addresses, banks of 64 KiB) *)
Definition in_one_bank (s : asm_st) : Prop :=
  0 <= a_base s < 16777216 /\ a_pc s <= (a_base s / 65536 + 1) * 65536.

Lemma in_one_bank_B32 : forall s, in_one_bank s -> 0 <= a_base s /\ a_pc s < B32.
Proof.
  intros s [[H0 H1] H2]. split; [exact H0|]. unfold B32.
  assert (a_base s / 65536 < 256) by (apply Z.div_lt_upper_bound; lia). nia.
Qed.

(* references grouped by label: what the Go map holds under key [l] *)
Definition group (l : lbl) (rs : list (lbl * Z)) : option (list Z) :=
  match map snd (filter (fun x => N.eqb (fst x) l) rs) with [] => None | xs => Some xs end.

Lemma group_In : forall l rs xs r, group l rs = Some xs -> (In r xs <-> In (l, r) rs).
Proof.
  intros l rs xs r H. unfold group in H.
  assert (E : xs = map snd (filter (fun x => N.eqb (fst x) l) rs)).
  { destruct (map snd (filter (fun x => N.eqb (fst x) l) rs)); [discriminate|]. now inversion H. }
  subst xs. rewrite in_map_iff. split.
  - intros [[l' r'] [H1 H2]]. simpl in H1. subst r'. apply filter_In in H2. destruct H2 as [H2 H3].
    simpl in H3. apply N.eqb_eq in H3. now subst.
  - intros Hin. exists (l, r). split; [reflexivity|]. apply filter_In. split; [exact Hin|]. simpl. apply N.eqb_refl.
Qed.

Lemma group_None : forall l rs, group l rs = None -> forall r, ~ In (l, r) rs.
Proof.
  intros l rs H r Hin. unfold group in H.
  assert (Hi : In r (map snd (filter (fun x => N.eqb (fst x) l) rs))).
  { apply in_map_iff. exists (l, r). split; [reflexivity|]. apply filter_In. split; [exact Hin|]. simpl. apply N.eqb_refl. }
  destruct (map snd (filter (fun x => N.eqb (fst x) l) rs)); [destruct Hi|discriminate].
Qed.

Lemma group_app_one : forall l rs l' r,
  group l (rs ++ [(l', r)]) =
  if N.eqb l' l then Some (match group l rs with None => [] | Some xs => xs end ++ [r]) else group l rs.
Proof.
  intros l rs l' r.
  assert (H : forall ys : list Z,
    match ys ++ [r] with [] => None | z :: zs => Some (z :: zs) end =
    Some (match (match ys with [] => None | z :: zs => Some (z :: zs) end) with Some x => x | None => [] end ++ [r])).
  { intros [|z zs]; reflexivity. }
  unfold group. rewrite filter_app, map_app.
  cbn [filter fst]. destruct (N.eqb l' l); cbn [map snd].
  - apply H.
  - now rewrite app_nil_r.
Qed.

(* pure facts about the abstract first pass *)
Record AInv (s : asm_st) : Prop := mkAInv {
  ai_r8 : forall l r, In (l, r) (a_r8 s) -> a_base s < r /\ r < a_pc s;
  ai_r16 : forall l r, In (l, r) (a_r16 s) -> a_base s < r /\ r + 1 < a_pc s;
  ai_s8 : StronglySorted Z.lt (map snd (a_r8 s));
  ai_s16 : StronglySorted (fun x y => x + 1 < y) (map snd (a_r16 s));
  ai_x : forall l r l' r', In (l, r) (a_r8 s) -> In (l', r') (a_r16 s) -> r <> r' /\ r <> r' + 1 }.

(* nothing emitted yet: the image and both reference lists are empty (SetBase is only legal here) *)
Definition fresh (s : asm_st) : Prop := a_img s = [] /\ a_r8 s = [] /\ a_r16 s = [].

Lemma AInv_init : AInv a_init.
Proof. constructor; simpl; try (intros; contradiction); constructor. Qed.

Lemma zlen_ins_nonneg : forall k, 0 < ins_len k.
Proof. destruct k; simpl; lia. Qed.

Lemma In_map_snd : forall (l : lbl) (r : Z) rs, In (l, r) rs -> In r (map snd rs).
Proof. intros l r rs H. apply in_map_iff. exists (l, r). split; [reflexivity|exact H]. Qed.

Lemma AInv_step : forall o s, AInv s -> op_ok o ->
  (match o with OSetBase _ => fresh s | _ => True end) -> AInv (astep o s).
Proof.
  intros o s [H8 H16 S8 S16 HX] Hok Hfresh.
  destruct o as [a|c|c|k d l t g|bs|id|l]; simpl in *; try (constructor; assumption).
  - (* SetBase: nothing recorded yet *)
    destruct Hfresh as [Hi [E8 E16]]. constructor; simpl; rewrite ?E8, ?E16; simpl;
      try (intros; contradiction); constructor.
  - (* instruction *)
    pose proof (zlen_nonneg _ d) as Hd. pose proof (zlen_nonneg _ (a_img s)) as Hi.
    assert (Hpc : a_pc (mkA (a_base s) (a_img s ++ d) (a_lab s) (a_r8 s) (a_r16 s)) = a_pc s + zlen d).
    { unfold a_pc. simpl. rewrite zlen_app. lia. }
    constructor; unfold a_pc in *; simpl; rewrite ?zlen_app.
    + intros l0 r Hin. destruct k; try (apply H8 in Hin; lia).
      apply in_app_or in Hin. destruct Hin as [Hin|[Hin|[]]]; [apply H8 in Hin; lia|].
      inversion Hin; subst. simpl in Hok. lia.
    + intros l0 r Hin. destruct k; try (apply H16 in Hin; lia).
      apply in_app_or in Hin. destruct Hin as [Hin|[Hin|[]]]; [apply H16 in Hin; lia|].
      inversion Hin; subst. simpl in Hok. lia.
    + destruct k; try exact S8. rewrite map_app. simpl. apply SSorted_app_one; [exact S8|].
      intros x Hx. apply in_map_iff in Hx. destruct Hx as [[l0 r0] [E Hin]]. simpl in E. subst x.
      apply H8 in Hin. lia.
    + destruct k; try exact S16. rewrite map_app. simpl. apply SSorted_app_one; [exact S16|].
      intros x Hx. apply in_map_iff in Hx. destruct Hx as [[l0 r0] [E Hin]]. simpl in E. subst x.
      apply H16 in Hin. lia.
    + intros l0 r l' r' Hi8 Hi16.
      destruct k; try (now apply (HX l0 r l' r')).
      * apply in_app_or in Hi8. destruct Hi8 as [Hi8|[Hi8|[]]]; [now apply (HX l0 r l' r')|].
        inversion Hi8; subst. apply H16 in Hi16. lia.
      * apply in_app_or in Hi16. destruct Hi16 as [Hi16|[Hi16|[]]]; [now apply (HX l0 r l' r')|].
        inversion Hi16; subst. apply H8 in Hi8. lia.
  - (* data *)
    pose proof (zlen_nonneg _ bs) as Hd.
    constructor; unfold a_pc in *; simpl; rewrite ?zlen_app; try assumption.
    + intros l0 r Hin. apply H8 in Hin. lia.
    + intros l0 r Hin. apply H16 in Hin. lia.
Qed.

Lemma assemble_snoc : forall s ops o, assemble_from s (ops ++ [o]) = astep o (assemble_from s ops).
Proof. intros. unfold assemble_from. now rewrite fold_left_app. Qed.

(* "every recorded reference address is the operand address of a label instruction emitted earlier" *)
Lemma ref8_origin : forall ops l r, In (l, r) (a_r8 (assemble ops)) ->
  exists pre d t g post, ops = pre ++ OIns E2L d l t g :: post /\ r = a_pc (assemble pre) + 1.
Proof.
  intros ops. induction ops as [|o ops IH] using rev_ind; intros l r Hin; [destruct Hin|].
  unfold assemble in *. rewrite assemble_snoc in Hin.
  assert (Hold : In (l, r) (a_r8 (assemble_from a_init ops)) ->
          exists pre d t g post, ops ++ [o] = pre ++ OIns E2L d l t g :: post /\ r = a_pc (assemble_from a_init pre) + 1).
  { intros H. destruct (IH _ _ H) as (pre & d & t & g & post & E & Er).
    exists pre, d, t, g, (post ++ [o]). split; [|exact Er]. rewrite E. now rewrite <- app_assoc. }
  destruct o as [a|c|c|k d l0 t g|bs|id|l0]; simpl in Hin; try (now apply Hold).
  destruct k; try (now apply Hold).
  apply in_app_or in Hin. destruct Hin as [Hin|[Hin|[]]]; [now apply Hold|].
  inversion Hin; subst. exists ops, d, t, g, []. split; reflexivity.
Qed.

Lemma ref16_origin : forall ops l r, In (l, r) (a_r16 (assemble ops)) ->
  exists pre d t g post, ops = pre ++ OIns E3L d l t g :: post /\ r = a_pc (assemble pre) + 1.
Proof.
  intros ops. induction ops as [|o ops IH] using rev_ind; intros l r Hin; [destruct Hin|].
  unfold assemble in *. rewrite assemble_snoc in Hin.
  assert (Hold : In (l, r) (a_r16 (assemble_from a_init ops)) ->
          exists pre d t g post, ops ++ [o] = pre ++ OIns E3L d l t g :: post /\ r = a_pc (assemble_from a_init pre) + 1).
  { intros H. destruct (IH _ _ H) as (pre & d & t & g & post & E & Er).
    exists pre, d, t, g, (post ++ [o]). split; [|exact Er]. rewrite E. now rewrite <- app_assoc. }
  destruct o as [a|c|c|k d l0 t g|bs|id|l0]; simpl in Hin; try (now apply Hold).
  destruct k; try (now apply Hold).
  apply in_app_or in Hin. destruct Hin as [Hin|[Hin|[]]]; [now apply Hold|].
  inversion Hin; subst. exists ops, d, t, g, []. split; reflexivity.
Qed.

(* ------------------------------------------------------------------ 3. the history invariant *)
(* [Rel s e]: emitter state [e] is the abstract first-pass state [s].  For a nil target nothing is
   stored or counted ([n] stays 0) but addresses, labels and references are tracked all the same. *)
Record Rel (s : asm_st) (e : em) : Prop := mkRel {
  R_base0 : 0 <= a_base s;
  R_top : a_pc s < B32;
  R_base : base e = a_base s;
  R_addr : address e = a_pc s;                                 (* address = base + bytes emitted *)
  R_buf : match buf e with
          | Some b => n e = zlen (a_img s) /\ n e <= zlen b /\ ztake (n e) b = a_img s
          | None => n e = 0
          end;
  R_lab : forall l, lookup l (labels e) = lookup l (a_lab s);
  R_uniq : NoDup (keys (labels e));                            (* label keys unique *)
  R_d8 : forall l, lookup l (d8 e) = group l (a_r8 s);
  R_d16 : forall l, lookup l (d16 e) = group l (a_r16 s) }.

Definition core_eq (e1 e2 : em) : Prop :=
  buf e1 = buf e2 /\ n e1 = n e2 /\ base e1 = base e2 /\ address e1 = address e2 /\
  labels e1 = labels e2 /\ d8 e1 = d8 e2 /\ d16 e1 = d16 e2.

Lemma core_refl : forall e, core_eq e e.
Proof. intros. repeat split. Qed.
Lemma core_trans : forall a b c, core_eq a b -> core_eq b c -> core_eq a c.
Proof. unfold core_eq. intros a b c H1 H2. intuition congruence. Qed.
Lemma core_sym : forall a b, core_eq a b -> core_eq b a.
Proof. unfold core_eq. intros a b H1. intuition congruence. Qed.

Lemma Rel_core : forall s e1 e2, core_eq e1 e2 -> Rel s e1 -> Rel s e2.
Proof.
  intros s e1 e2 (Hb & Hn & Hba & Ha & Hl & H8 & H16) [R1 R2 R3 R4 R5 R6 R7 R8 R9].
  constructor; try assumption; try congruence;
    try (rewrite <- Hb, <- Hn; exact R5);
    try (intros l; rewrite <- ?Hl, <- ?H8, <- ?H16; auto).
Qed.

Lemma core_emitBase : forall e, core_eq e (emitBase e).
Proof. intros e. unfold emitBase. destruct (gen e && baseSet e); repeat split. Qed.
Lemma core_add_lines : forall ls e, core_eq e (add_lines ls e).
Proof. intros. repeat split. Qed.
Lemma core_flags : forall v e, core_eq e (set_flags v e).
Proof. intros. repeat split. Qed.
Lemma core_track : forall t e, core_eq e (apply_track t e).
Proof. intros [|c|c] e; repeat split. Qed.

(* what write(d) does to the fields *)
Definition stored (d : list Z) (e e' : em) : Prop :=
  match buf e with
  | None => buf e' = None /\ n e' = n e
  | Some b => n e + zlen d <= zlen b /\ buf e' = Some (splice b (n e) d) /\ n e' = n e + zlen d
  end.

Lemma write_spec : forall d e e', write d e = Some e' ->
  stored d e e' /\ base e' = base e /\ address e' = address e /\ labels e' = labels e /\
  d8 e' = d8 e /\ d16 e' = d16 e /\ gen e' = gen e /\ lines e' = lines e /\ baseSet e' = baseSet e /\
  flags e' = flags e.
Proof.
  intros d e e' H. unfold write in H. unfold stored. destruct (buf e) as [b|] eqn:Eb.
  - destruct (zlen b <? n e + zlen d) eqn:Elt; [discriminate|]. apply Z.ltb_ge in Elt.
    inversion H; subst e'. cbn. repeat split; try reflexivity. exact Elt.
  - inversion H; subst e'. rewrite Eb. repeat split; reflexivity.
Qed.

Lemma write_None : forall d e, write d e = None ->
  exists b, buf e = Some b /\ zlen b < n e + zlen d.
Proof.
  intros d e H. unfold write in H. destruct (buf e) as [b|]; [|discriminate].
  destruct (zlen b <? n e + zlen d) eqn:Elt; [|discriminate]. apply Z.ltb_lt in Elt. now exists b.
Qed.

Lemma ztake_splice_end : forall (b d : list Z) k, 0 <= k -> k <= zlen b ->
  ztake (k + zlen d) (splice b k d) = ztake k b ++ d.
Proof.
  intros b d k H0 H1. unfold splice. rewrite app_assoc.
  assert (E : k + zlen d = zlen (ztake k b ++ d)).
  { rewrite zlen_app, zlen_ztake by lia. lia. }
  rewrite E. apply ztake_app_exact.
Qed.

(* an accepted emission of [d] with the reference lists becoming r8' / r16' *)
Lemma Rel_emit : forall s e e' d r8' r16',
  Rel s e -> stored d e e' -> base e' = base e -> address e' = w32 (address e + zlen d) ->
  labels e' = labels e ->
  (forall l, lookup l (d8 e') = group l r8') -> (forall l, lookup l (d16 e') = group l r16') ->
  a_pc s + zlen d < B32 ->
  Rel (mkA (a_base s) (a_img s ++ d) (a_lab s) r8' r16') e'.
Proof.
  intros s e e' d r8' r16' [R1 R2 R3 R4 R5 R6 R7 R8 R9] Hst Hb Ha Hl H8 H16 Htop.
  pose proof (zlen_nonneg _ d) as Hd. pose proof (zlen_nonneg _ (a_img s)) as Hi.
  assert (Hpc : a_pc (mkA (a_base s) (a_img s ++ d) (a_lab s) r8' r16') = a_pc s + zlen d).
  { unfold a_pc. simpl. rewrite zlen_app. lia. }
  constructor; simpl; try assumption.
  - rewrite Hpc. exact Htop.
  - congruence.
  - rewrite Hpc, Ha, R4. apply w32_small. unfold a_pc in *. lia.
  - unfold stored in Hst. destruct (buf e) as [b|].
    + destruct R5 as (Hn & Hle & Ht). destruct Hst as (Hfit & Hb' & Hn'). rewrite Hb'.
      rewrite zlen_app. split; [lia|]. split.
      * rewrite zlen_splice by lia. lia.
      * rewrite Hn'. rewrite ztake_splice_end by lia. now rewrite Ht.
    + destruct Hst as (Hb' & Hn'). rewrite Hb'. lia.
  - intros l. rewrite Hl. apply R6.
  - now rewrite Hl.
Qed.

Lemma lookup_add_dangling : forall m l r l',
  lookup l' (add_dangling m l r) =
  if N.eqb l l' then Some (match lookup l' m with None => [] | Some rs => rs end ++ [r]) else lookup l' m.
Proof.
  intros m l r l'. unfold add_dangling. destruct (N.eqb l l') eqn:E.
  - apply N.eqb_eq in E. subst. apply lookup_insert_eq.
  - apply N.eqb_neq in E. apply lookup_insert_neq. congruence.
Qed.

(* fields after an accepted emit<k> *)
Lemma emitK_done : forall k d l e e', emitK k d l e = Done e' ->
  stored d e e' /\ base e' = base e /\ address e' = w32 (address e + ins_len k) /\ labels e' = labels e /\
  d8 e' = (match k with E2L => add_dangling (d8 e) l (w32 (w32 (address e + ins_len k) - 1)) | _ => d8 e end) /\
  d16 e' = (match k with E3L => add_dangling (d16 e) l (w32 (w32 (address e + ins_len k) - 2)) | _ => d16 e end).
Proof.
  intros k d l e e' H. unfold emitK in H. destruct (write d e) as [e1|] eqn:Ew; [|discriminate].
  apply write_spec in Ew. destruct Ew as (Hst & Hb & Ha & Hl & H8 & H16 & Hg & _).
  set (e2 := if gen e1 then _ else e1) in H.
  assert (C : core_eq e1 e2).
  { unfold e2. destruct (gen e1); [|apply core_refl].
    eapply core_trans; [apply core_emitBase|apply core_add_lines]. }
  destruct C as (Cb & Cn & Cba & Ca & Cl & C8 & C16).
  assert (Hst2 : stored d e e2).
  { unfold stored in *. destruct (buf e); rewrite <- Cb, <- Cn; exact Hst. }
  inversion H as [H']. clear H.
  destruct k; cbn; rewrite <- ?Cba, <- ?Ca, <- ?Cl, <- ?C8, <- ?C16, ?Hb, ?Ha, ?Hl, ?H8, ?H16;
    (split; [exact Hst2|repeat split; reflexivity]).
Qed.

Lemma emitK_refused : forall k d l e e', emitK k d l e = Refused e' -> e' = e.
Proof.
  intros k d l e e' H. unfold emitK in H. destruct (write d e); [discriminate|]. now inversion H.
Qed.

Lemma EmitBytesX_done : forall fx bs e e', EmitBytesX fx bs e = Done e' ->
  stored bs e e' /\ base e' = base e /\ address e' = w32 (address e + zlen bs) /\ labels e' = labels e /\
  d8 e' = d8 e /\ d16 e' = d16 e.
Proof.
  intros fx bs e e' H. unfold EmitBytesX in H.
  set (e1 := if gen e then _ else e) in H.
  assert (C : core_eq e e1).
  { unfold e1. destruct (gen e); [|apply core_refl].
    eapply core_trans; [apply core_emitBase|apply core_add_lines]. }
  destruct C as (Cb & Cn & Cba & Ca & Cl & C8 & C16).
  destruct (write bs e1) as [e2|] eqn:Ew; [|discriminate].
  apply write_spec in Ew. destruct Ew as (Hst & Hb & Ha & Hl & H8 & H16 & _).
  inversion H; subst e'. cbn. rewrite Hb, Ha, Hl, H8, H16, <- Cba, <- Ca, <- Cl, <- C8, <- C16.
  split; [|repeat split; reflexivity].
  unfold stored in *. rewrite Cb, Cn. destruct (buf e1); exact Hst.
Qed.

Lemma EmitBytesX_refused : forall fx bs e e', EmitBytesX fx bs e = Refused e' -> core_eq e e'.
Proof.
  intros fx bs e e' H. unfold EmitBytesX in H.
  set (e1 := if gen e then _ else e) in H.
  assert (C : core_eq e e1).
  { unfold e1. destruct (gen e); [|apply core_refl].
    eapply core_trans; [apply core_emitBase|apply core_add_lines]. }
  destruct (write bs e1); [discriminate|]. inversion H; subst. exact C.
Qed.

Lemma core_Comment : forall id e, core_eq e (Comment id e).
Proof.
  intros id e. unfold Comment. destruct (gen e); [|apply core_refl].
  eapply core_trans; [apply core_emitBase|apply core_add_lines].
Qed.

(* Label of an existing name is refused and changes nothing; a fresh name is bound to the current address *)
Lemma LabelX_refused : forall fx l e a, lookup l (labels e) = Some a -> LabelX fx l e = Refused e.
Proof. intros fx l e a H. unfold LabelX. now rewrite H. Qed.

Lemma LabelX_done : forall fx l e, lookup l (labels e) = None ->
  exists e', LabelX fx l e = Done e' /\ buf e' = buf e /\ n e' = n e /\ base e' = base e /\
             address e' = address e /\ labels e' = insert l (address e) (labels e) /\
             d8 e' = d8 e /\ d16 e' = d16 e.
Proof.
  intros fx l e H. unfold LabelX. rewrite H. eexists. split; [reflexivity|].
  unfold emitBase. cbn. destruct (gen e); [|cbn; repeat split; reflexivity].
  destruct (label_flush fx); [|cbn; repeat split; reflexivity].
  cbn. destruct (baseSet e); cbn; repeat split; reflexivity.
Qed.

(* one call: an accepted call moves the abstract state by [astep], a refused call leaves it *)
Lemma execX_rel : forall fx o s e, Rel s e -> op_ok o ->
  (match o with OSetBase _ => fresh s | _ => True end) ->
  match execX fx o e with
  | Done e' => a_pc (astep o s) < B32 -> Rel (astep o s) e'
  | Refused e' => Rel s e'
  end.
Proof.
  intros fx o s e HR Hok Hfresh.
  destruct o as [a|c|c|k d l t g|bs|id|l]; cbn [execX exec astep].
  - (* SetBase *)
    intros _. destruct Hfresh as (Hi & _). destruct HR as [R1 R2 R3 R4 R5 R6 R7 R8 R9].
    simpl in Hok. constructor; cbn; try assumption; try lia.
    + unfold a_pc. cbn. rewrite Hi. cbn. lia.
    + unfold a_pc. cbn. rewrite Hi. cbn. lia.
  - intros _. eapply Rel_core; [apply core_flags|exact HR].
  - intros _. eapply Rel_core; [apply core_flags|exact HR].
  - (* instruction method *)
    destruct (guard_ok g e); [|exact HR].
    assert (HR' : Rel s (apply_track t e)) by (eapply Rel_core; [apply core_track|exact HR]).
    destruct (emitK k d l (apply_track t e)) as [e'|e'] eqn:Ek.
    + intros Htop. apply emitK_done in Ek. destruct Ek as (Hst & Hb & Ha & Hl & H8 & H16).
      simpl in Hok. pose proof (zlen_nonneg _ (a_img s)) as Hi.
      assert (Hpc : a_pc (mkA (a_base s) (a_img s ++ d) (a_lab s)
                     (match k with E2L => a_r8 s ++ [(l, a_pc s + 1)] | _ => a_r8 s end)
                     (match k with E3L => a_r16 s ++ [(l, a_pc s + 1)] | _ => a_r16 s end)) = a_pc s + zlen d).
      { unfold a_pc. cbn. rewrite zlen_app. lia. }
      rewrite Hpc in Htop.
      pose proof (R_addr _ _ HR') as Haddr. pose proof (R_base0 _ _ HR') as Hb0.
      assert (Hpc0 : 0 <= a_pc s) by (unfold a_pc; lia).
      apply (Rel_emit s (apply_track t e)); try assumption.
      * rewrite Ha. now rewrite Hok.
      * intros l'. rewrite H8. destruct k; try apply (R_d8 _ _ HR').
        rewrite lookup_add_dangling, group_app_one, (R_d8 _ _ HR'), Haddr.
        cbn [ins_len] in *. rewrite (w32_small (a_pc s + 2)) by lia. rewrite w32_small by lia.
        replace (a_pc s + 2 - 1) with (a_pc s + 1) by lia. reflexivity.
      * intros l'. rewrite H16. destruct k; try apply (R_d16 _ _ HR').
        rewrite lookup_add_dangling, group_app_one, (R_d16 _ _ HR'), Haddr.
        cbn [ins_len] in *. rewrite (w32_small (a_pc s + 3)) by lia. rewrite w32_small by lia.
        replace (a_pc s + 3 - 2) with (a_pc s + 1) by lia. reflexivity.
    + apply emitK_refused in Ek. now subst e'.
  - (* data *)
    destruct (EmitBytesX fx bs e) as [e'|e'] eqn:Ek.
    + intros Htop. apply EmitBytesX_done in Ek. destruct Ek as (Hst & Hb & Ha & Hl & H8 & H16).
      assert (Hpc : a_pc (mkA (a_base s) (a_img s ++ bs) (a_lab s) (a_r8 s) (a_r16 s)) = a_pc s + zlen bs).
      { unfold a_pc. cbn. rewrite zlen_app. lia. }
      rewrite Hpc in Htop.
      apply (Rel_emit s e); try assumption.
      * intros l'. rewrite H8. apply (R_d8 _ _ HR).
      * intros l'. rewrite H16. apply (R_d16 _ _ HR).
    + apply EmitBytesX_refused in Ek. eapply Rel_core; [exact Ek|exact HR].
  - intros _. eapply Rel_core; [apply core_Comment|exact HR].
  - (* Label *)
    destruct (lookup l (labels e)) as [a|] eqn:El.
    + rewrite (LabelX_refused fx l e a El). exact HR.
    + destruct (LabelX_done fx l e El) as (e' & E & Hb & Hn & Hba & Ha & Hl & H8 & H16). rewrite E.
      intros _. destruct HR as [R1 R2 R3 R4 R5 R6 R7 R8 R9].
      constructor; cbn [a_base a_img a_lab a_r8 a_r16]; try assumption; try congruence.
      * rewrite Ha. exact R4.
      * rewrite Hb, Hn. exact R5.
      * intros l'. rewrite Hl, lookup_app_one, <- R6, R4.
        destruct (N.eq_dec l' l) as [->|Hne].
        -- rewrite lookup_insert_eq, El, N.eqb_refl. reflexivity.
        -- rewrite lookup_insert_neq by exact Hne.
           destruct (lookup l' (labels e)); [reflexivity|].
           destruct (N.eqb l' l) eqn:E2; [apply N.eqb_eq in E2; contradiction|reflexivity].
      * rewrite Hl. now apply NoDup_keys_insert.
Qed.

(* ---- histories *)
Definition is_sb (o : op) : bool := match o with OSetBase _ => true | _ => false end.

Lemma base_once_cons : forall o r seen emitted, base_once seen emitted (o :: r) = true ->
  base_once (seen || is_sb o) (emitted || emits o) r = true /\ (is_sb o = true -> emitted = false).
Proof.
  intros o r seen emitted H. destruct o; simpl in *; rewrite ?orb_false_r in *; try (split; [exact H|discriminate]).
  apply andb_true_iff in H. destruct H as [H1 H2]. apply andb_true_iff in H1. destruct H1 as [_ H1].
  rewrite orb_true_r. split; [exact H2|]. intros _. now destruct emitted.
Qed.

Lemma base_once_no_sb : forall ops seen, base_once seen true ops = true -> Forall (fun o => is_sb o = false) ops.
Proof.
  induction ops as [|o r IH]; intros seen H; [constructor|].
  destruct (base_once_cons _ _ _ _ H) as [H1 H2]. simpl in H1. constructor.
  - destruct (is_sb o); [specialize (H2 eq_refl); discriminate|reflexivity].
  - eapply IH. exact H1.
Qed.

Lemma accepted_Forall : forall (P : op -> Prop) ops rl, Forall P ops -> Forall P (accepted ops rl).
Proof.
  intros P ops. induction ops as [|o r IH]; intros rl H; simpl; [constructor|].
  inversion H; subst. destruct rl as [|b rb]; [constructor|]. destruct b; [now apply IH|].
  constructor; [assumption|now apply IH].
Qed.

Lemma astep_mono : forall o s, is_sb o = false -> zlen (a_img s) <= zlen (a_img (astep o s)) /\ a_base (astep o s) = a_base s.
Proof.
  intros o s H. destruct o; simpl in *; try discriminate; rewrite ?zlen_app;
    try match goal with |- context [zlen ?x + zlen ?y] => pose proof (zlen_nonneg _ y) end; split; try lia; reflexivity.
Qed.

Lemma assemble_mono : forall ops s, Forall (fun o => is_sb o = false) ops ->
  a_base (assemble_from s ops) = a_base s /\ zlen (a_img s) <= zlen (a_img (assemble_from s ops)).
Proof.
  induction ops as [|o r IH]; intros s H; simpl; [split; [reflexivity|lia]|].
  inversion H as [|o' r' Ho Hr]; subst. destruct (astep_mono o s) as [M1 M2]; [assumption|].
  destruct (IH (astep o s)) as [M3 M4]; [assumption|]. unfold assemble_from in *. split; [congruence|lia].
Qed.

Lemma astep_fresh : forall o s, emits o = false -> fresh s -> fresh (astep o s).
Proof. intros o s H F. destruct o; simpl in *; try discriminate; exact F. Qed.

Lemma astep_pc_quiet : forall o s, emits o = false -> is_sb o = false -> a_pc (astep o s) = a_pc s.
Proof. intros o s H1 H2. destruct o; simpl in *; try discriminate; reflexivity. Qed.

Lemma runX_cons : forall fx o r e,
  runX fx (o :: r) e =
  (fst (runX fx r (state_of (execX fx o e))), is_refused (execX fx o e) :: snd (runX fx r (state_of (execX fx o e)))).
Proof. intros. simpl. destruct (runX fx r (state_of (execX fx o e))). reflexivity. Qed.

Lemma run_rel : forall ops fx s e seen emitted ef rl,
  Rel s e -> AInv s -> (emitted = false -> fresh s) -> Forall op_ok ops -> base_once seen emitted ops = true ->
  runX fx ops e = (ef, rl) ->
  a_pc (assemble_from s (accepted ops rl)) < B32 ->
  Rel (assemble_from s (accepted ops rl)) ef /\ AInv (assemble_from s (accepted ops rl)).
Proof.
  induction ops as [|o r IH]; intros fx s e seen emitted ef rl HR HA Hph Hok Hb Hrun Htop.
  - simpl in Hrun. inversion Hrun; subst. simpl. split; assumption.
  - rewrite runX_cons in Hrun. inversion Hrun as [[Ef Erl]]. clear Hrun.
    inversion Hok as [|o' r' Hoko Hokr]; subst o' r'.
    destruct (base_once_cons _ _ _ _ Hb) as [Hb' Hsb].
    set (res := execX fx o e) in *.
    remember (snd (runX fx r (state_of res))) as rl' eqn:Erl'.
    assert (Hrun' : runX fx r (state_of res) = (fst (runX fx r (state_of res)), rl')).
    { rewrite Erl'. now destruct (runX fx r (state_of res)). }
    assert (Hfr : match o with OSetBase _ => fresh s | _ => True end).
    { destruct o; try exact I. apply Hph. now apply Hsb. }
    pose proof (execX_rel fx o s e HR Hoko Hfr) as Hstep. fold res in Hstep.
    subst rl. destruct res as [e1|e1] eqn:Eres; cbn [is_refused accepted state_of] in *.
    + (* accepted *)
      change (assemble_from s (o :: accepted r rl')) with (assemble_from (astep o s) (accepted r rl')) in *.
      assert (Hpc1 : a_pc (astep o s) < B32).
      { destruct (emits o) eqn:Eem.
        - rewrite orb_true_r in Hb'. apply base_once_no_sb in Hb'.
          destruct (assemble_mono (accepted r rl') (astep o s)) as [M1 M2]; [now apply accepted_Forall|].
          unfold a_pc in *. lia.
        - destruct (is_sb o) eqn:Esb.
          + destruct o; try discriminate. destruct Hfr as (Hi & _). unfold a_pc. simpl. rewrite Hi, zlen_nil. simpl in Hoko. lia.
          + rewrite astep_pc_quiet by assumption. apply (R_top _ _ HR). }
      rewrite ?Ef. apply (IH fx (astep o s) e1 (seen || is_sb o) (emitted || emits o) ef rl'); try assumption.
      * now apply Hstep.
      * apply AInv_step; assumption.
      * intros Hem. apply orb_false_iff in Hem. destruct Hem as [Hem1 Hem2].
        apply astep_fresh; [exact Hem2|]. now apply Hph.
      * rewrite Hrun'. now rewrite Ef.
    + (* refused *)
      rewrite ?Ef. apply (IH fx s e1 (seen || is_sb o) (emitted || emits o) ef rl'); try assumption.
      * intros Hem. apply orb_false_iff in Hem. destruct Hem as [Hem1 Hem2]. now apply Hph.
      * rewrite Hrun'. now rewrite Ef.
Qed.

Lemma Rel_init : forall target g, Rel a_init (new_em target g).
Proof.
  intros target g. constructor; cbn; try lia; try reflexivity; try constructor.
  destruct target as [b|]; [|reflexivity]. pose proof (zlen_nonneg _ b). repeat split; lia.
Qed.

(* history premises *)
Definition hist_ok (ops : list op) : Prop := Forall op_ok ops /\ base_once false false ops = true.

(* THE HISTORY INVARIANT.  For every history, every target, both listing modes and every variant of the
   listing routines: the state reached is the abstract first-pass state of the accepted calls. *)
Theorem C06_history : forall fx ops target g ef rl,
  hist_ok ops -> runX fx ops (new_em target g) = (ef, rl) ->
  in_one_bank (assemble (accepted ops rl)) ->
  Rel (assemble (accepted ops rl)) ef /\ AInv (assemble (accepted ops rl)).
Proof.
  intros fx ops target g ef rl [Hok Hb] Hrun Hbank. apply in_one_bank_B32 in Hbank.
  eapply (run_rel ops fx a_init (new_em target g) false false); try eassumption.
  - apply Rel_init.
  - apply AInv_init.
  - intros _. repeat split.
  - apply Hbank.
Qed.

(* [runX today] is Emitter.run, the model of the code as it stands *)
Lemma db_loopX_today : forall bs a0 blen i cur caddr acc,
  db_loopX false a0 blen i cur caddr bs acc = db_loop a0 blen i cur caddr bs acc.
Proof.
  induction bs as [|v r IH]; intros; simpl; [reflexivity|]. destruct (Z.land i 15 =? 15); apply IH.
Qed.
Lemma execX_today : forall o e, execX today o e = exec o e.
Proof.
  intros o e. destruct o; try reflexivity; simpl.
  unfold EmitBytesX, EmitBytes, db_linesX, db_lines. simpl. now rewrite db_loopX_today.
Qed.
Lemma runX_today : forall ops e, runX today ops e = run ops e.
Proof.
  induction ops as [|o r IH]; intros e; simpl; [reflexivity|]. rewrite execX_today, IH. reflexivity.
Qed.
