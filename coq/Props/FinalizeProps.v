(* Props/FinalizeProps.v -- property C06: Finalize resolves every label reference or reports an error.

   Theorems over Model/Emitter.v + Model/EmitterExt.v (histories [runX fx], for EVERY variant [fx] of
   the two listing routines -- they do not touch what C06 is about -- hence in particular for [today],
   which is definitionally Emitter.run: [runX_today]).

   Structure
     1. Go-map lemmas (lookup / insert / remove on any association list).
     2. The abstract first pass of a two-pass assembler ([astep], [assemble]): base, image, label table,
        chronological lists of rel8 / abs16 references.  Pure facts about it ([AInv]): every reference is the
        operand address of a label instruction placed earlier, lies inside the image, operand ranges are
        pairwise disjoint.
     3. History invariant [Rel]: the emitter state reached by any history is the abstract state of the accepted
        calls (bytes = image, address = base + bytes emitted, labels = label table with unique keys, the two
        dangling maps = the reference lists grouped by label).          -> [C06_history]
     4. Finalize, for EVERY pair of visiting orders that cover the keys of the two maps (the permutations of the
        keys are the orders a Go execution can take):                    -> [C06_finalize_iff], [C06_finalize_ok],
        [C06_finalize_error], [C06_frame]; Label of an existing name     -> [C06_label_redefinition].
     5. Non-vacuity Examples (forward +127, backward -128, a JMP, two references to one label, +128, -129,
        missing label). *)
From Coq Require Import ZArith NArith List Bool Lia Sorted Permutation.
From Lib Require Import ZList.
From Model Require Import Emitter EmitterTie EmitterExt.
Import ListNotations.
Local Open Scope Z_scope.

Definition B32 : Z := 4294967296.
Lemma w32_small : forall x, 0 <= x < B32 -> w32 x = x.
Proof. intros x H. unfold w32. apply Z.mod_small. exact H. Qed.

(* ------------------------------------------------------------------ 1. maps *)
Section MapLemmas.
  Context {A : Type}.
  Implicit Types (m : list (lbl * A)) (k : lbl).

  Lemma lookup_insert_eq : forall m k v, lookup k (insert k v m) = Some v.
  Proof.
    induction m as [|[k0 v0] m IH]; intros k v; simpl.
    - now rewrite N.eqb_refl.
    - destruct (N.ltb k k0) eqn:E1; simpl; [now rewrite N.eqb_refl|].
      destruct (N.eqb k k0) eqn:E2; simpl; [now rewrite N.eqb_refl|].
      rewrite E2. apply IH.
  Qed.

  Lemma lookup_insert_neq : forall m k k' v, k <> k' -> lookup k (insert k' v m) = lookup k m.
  Proof.
    induction m as [|[k0 v0] m IH]; intros k k' v Hne; simpl.
    - destruct (N.eqb k k') eqn:E; [apply N.eqb_eq in E; contradiction|reflexivity].
    - destruct (N.ltb k' k0) eqn:E1; simpl.
      + destruct (N.eqb k k') eqn:E; [apply N.eqb_eq in E; contradiction|reflexivity].
      + destruct (N.eqb k' k0) eqn:E2; simpl.
        * apply N.eqb_eq in E2. subst k0.
          destruct (N.eqb k k') eqn:E; [apply N.eqb_eq in E; contradiction|reflexivity].
        * destruct (N.eqb k k0); [reflexivity|]. now apply IH.
  Qed.

  Lemma lookup_remove_eq : forall m k, lookup k (remove k m) = None.
  Proof.
    induction m as [|[k0 v0] m IH]; intros k; simpl; [reflexivity|].
    destruct (N.eqb k k0) eqn:E; [apply IH|]. simpl. rewrite E. apply IH.
  Qed.

  Lemma lookup_remove_neq : forall m k k', k <> k' -> lookup k (remove k' m) = lookup k m.
  Proof.
    induction m as [|[k0 v0] m IH]; intros k k' Hne; simpl; [reflexivity|].
    destruct (N.eqb k' k0) eqn:E.
    - apply N.eqb_eq in E. subst k0.
      destruct (N.eqb k k') eqn:E2; [apply N.eqb_eq in E2; contradiction|]. now apply IH.
    - simpl. destruct (N.eqb k k0); [reflexivity|]. now apply IH.
  Qed.

  Lemma lookup_None_keys : forall m k, lookup k m = None <-> ~ In k (keys m).
  Proof.
    induction m as [|[k0 v0] m IH]; intros k; simpl; [tauto|].
    destruct (N.eqb k k0) eqn:E.
    - apply N.eqb_eq in E. subst. split; [discriminate|]. intros H. exfalso. apply H. now left.
    - apply N.eqb_neq in E. rewrite IH. unfold keys. split; intros H.
      + intros [H1|H1]; [congruence|]. now apply H.
      + intros H1. apply H. now right.
  Qed.

  Lemma lookup_Some_keys : forall m k v, lookup k m = Some v -> In k (keys m).
  Proof.
    intros m k v H. destruct (in_dec N.eq_dec k (keys m)) as [Hi|Hn]; [exact Hi|].
    apply lookup_None_keys in Hn. congruence.
  Qed.

  Lemma keys_insert : forall m k v k', In k' (keys (insert k v m)) -> k' = k \/ In k' (keys m).
  Proof.
    induction m as [|[k0 v0] m IH]; intros k v k'; simpl.
    - intros [H|[]]; now left.
    - destruct (N.ltb k k0); simpl.
      + intros [H|[H|H]]; auto.
      + destruct (N.eqb k k0) eqn:E; simpl.
        * intros [H|H]; auto.
        * intros [H|H]; auto. apply IH in H. tauto.
  Qed.

  (* a fresh key keeps the keys duplicate-free: `Label` only ever inserts fresh names *)
  Lemma NoDup_keys_insert : forall m k v, lookup k m = None -> NoDup (keys m) -> NoDup (keys (insert k v m)).
  Proof.
    induction m as [|[k0 v0] m IH]; intros k v Hl Hn; simpl.
    - constructor; [intros []|constructor].
    - simpl in Hl. destruct (N.eqb k k0) eqn:E; [discriminate|].
      destruct (N.ltb k k0).
      + change (NoDup (k :: keys ((k0, v0) :: m))). constructor; [|exact Hn].
        apply (proj1 (lookup_None_keys ((k0, v0) :: m) k)). simpl. now rewrite E.
      + change (NoDup (k0 :: keys m)) in Hn. inversion Hn as [|x l Hnin Hn']; subst.
        change (NoDup (k0 :: keys (insert k v m))). constructor.
        * intros H. apply keys_insert in H. destruct H as [H|H]; [|contradiction].
          subst. rewrite N.eqb_refl in E. discriminate.
        * now apply IH.
  Qed.

  (* lookup in a list extended at the end (the abstract label table is in definition order) *)
  Lemma lookup_app_one : forall m k k' v,
    lookup k (m ++ [(k', v)]) =
    match lookup k m with Some x => Some x | None => if N.eqb k k' then Some v else None end.
  Proof.
    induction m as [|[k0 v0] m IH]; intros k k' v; simpl; [reflexivity|].
    destruct (N.eqb k k0); [reflexivity|apply IH].
  Qed.
End MapLemmas.

(* ------------------------------------------------------------------ small list facts *)
Lemma SSorted_app_one : forall (R : Z -> Z -> Prop) l y,
  StronglySorted R l -> (forall x, In x l -> R x y) -> StronglySorted R (l ++ [y]).
Proof.
  intros R l y Hs. induction Hs as [|a l Hs IH Hf]; intros Hy; simpl.
  - constructor; [constructor|constructor].
  - constructor.
    + apply IH. intros x Hx. apply Hy. now right.
    + apply Forall_app. split; [exact Hf|]. constructor; [|constructor]. apply Hy. now left.
Qed.

Lemma SSorted_In2 : forall (R : Z -> Z -> Prop) l x y,
  StronglySorted R l -> In x l -> In y l -> x = y \/ R x y \/ R y x.
Proof.
  intros R l x y Hs. induction Hs as [|a l Hs IH Hf]; intros Hx Hy; [destruct Hx|].
  rewrite Forall_forall in Hf.
  destruct Hx as [Hx|Hx]; destruct Hy as [Hy|Hy]; subst.
  - now left.
  - right; left. now apply Hf.
  - right; right. now apply Hf.
  - now apply IH.
Qed.

(* ------------------------------------------------------------------ 2. the abstract first pass *)
(* What a two-pass assembler knows after laying the accepted calls out from [a_base]: the image (with
   whatever placeholder bytes the label instructions carried), the label table in definition order, and
   the rel8 / abs16 references (label, address of the operand) in program order. *)
Record asm_st := mkA {
  a_base : Z; a_img : list Z; a_lab : list (lbl * Z);
  a_r8 : list (lbl * Z); a_r16 : list (lbl * Z) }.
Definition a_pc (s : asm_st) : Z := a_base s + zlen (a_img s).
Definition a_init : asm_st := mkA 0 [] [] [] [].

Definition astep (o : op) (s : asm_st) : asm_st :=
  match o with
  | OSetBase a => mkA a (a_img s) (a_lab s) (a_r8 s) (a_r16 s)
  | OIns k d l _ _ =>
      mkA (a_base s) (a_img s ++ d) (a_lab s)
          (match k with E2L => a_r8 s ++ [(l, a_pc s + 1)] | _ => a_r8 s end)
          (match k with E3L => a_r16 s ++ [(l, a_pc s + 1)] | _ => a_r16 s end)
  | OEmitBytes bs => mkA (a_base s) (a_img s ++ bs) (a_lab s) (a_r8 s) (a_r16 s)
  | OLabel l => mkA (a_base s) (a_img s) (a_lab s ++ [(l, a_pc s)]) (a_r8 s) (a_r16 s)
  | _ => s
  end.
Definition assemble_from (s : asm_st) (ops : list op) : asm_st := fold_left (fun s o => astep o s) ops s.
Definition assemble (ops : list op) : asm_st := assemble_from a_init ops.

(* shape the Go signatures guarantee *)
Definition op_ok (o : op) : Prop :=
  match o with
  | OIns k d _ _ _ => zlen d = ins_len k
  | OSetBase a => 0 <= a < B32
  | _ => True
  end.

Definition emits (o : op) : bool :=
  match o with OIns _ _ _ _ _ | OEmitBytes _ => true | _ => false end.

(* "base set at most once, before the first emission": [seen] = SetBase was called, [emitted] = an
   instruction or data call was made (accepted or not) *)
Fixpoint base_once (seen emitted : bool) (ops : list op) : bool :=
  match ops with
  | [] => true
  | OSetBase _ :: r => negb seen && negb emitted && base_once true emitted r
  | o :: r => base_once seen (emitted || emits o) r
  end.

(* "the program lies inside one bank" (24-bit addresses, banks of 64 KiB) *)
Definition in_one_bank (s : asm_st) : Prop :=
  0 <= a_base s < 16777216 /\ a_pc s <= (a_base s / 65536 + 1) * 65536.

Lemma in_one_bank_B32 : forall s, in_one_bank s -> 0 <= a_base s /\ a_pc s < B32.
Proof.
  intros s [[H0 H1] H2]. split; [exact H0|]. unfold B32.
  assert (a_base s / 65536 < 256) by (apply Z.div_lt_upper_bound; lia). nia.
Qed.

(* references grouped by label: what the Go map holds under key [l] *)
Definition group (l : lbl) (rs : list (lbl * Z)) : option (list Z) :=
  match map snd (filter (fun x => N.eqb (fst x) l) rs) with [] => None | xs => Some xs end.

Lemma group_In : forall l rs xs r, group l rs = Some xs -> (In r xs <-> In (l, r) rs).
Proof.
  intros l rs xs r H. unfold group in H.
  assert (E : xs = map snd (filter (fun x => N.eqb (fst x) l) rs)).
  { destruct (map snd (filter (fun x => N.eqb (fst x) l) rs)); [discriminate|]. now inversion H. }
  subst xs. rewrite in_map_iff. split.
  - intros [[l' r'] [H1 H2]]. simpl in H1. subst r'. apply filter_In in H2. destruct H2 as [H2 H3].
    simpl in H3. apply N.eqb_eq in H3. now subst.
  - intros Hin. exists (l, r). split; [reflexivity|]. apply filter_In. split; [exact Hin|]. simpl. apply N.eqb_refl.
Qed.

Lemma group_None : forall l rs, group l rs = None -> forall r, ~ In (l, r) rs.
Proof.
  intros l rs H r Hin. unfold group in H.
  assert (Hi : In r (map snd (filter (fun x => N.eqb (fst x) l) rs))).
  { apply in_map_iff. exists (l, r). split; [reflexivity|]. apply filter_In. split; [exact Hin|]. simpl. apply N.eqb_refl. }
  destruct (map snd (filter (fun x => N.eqb (fst x) l) rs)); [destruct Hi|discriminate].
Qed.

Lemma group_app_one : forall l rs l' r,
  group l (rs ++ [(l', r)]) =
  if N.eqb l' l then Some (match group l rs with None => [] | Some xs => xs end ++ [r]) else group l rs.
Proof.
  intros l rs l' r.
  assert (H : forall ys : list Z,
    match ys ++ [r] with [] => None | z :: zs => Some (z :: zs) end =
    Some (match (match ys with [] => None | z :: zs => Some (z :: zs) end) with Some x => x | None => [] end ++ [r])).
  { intros [|z zs]; reflexivity. }
  unfold group. rewrite filter_app, map_app.
  cbn [filter fst]. destruct (N.eqb l' l); cbn [map snd].
  - apply H.
  - now rewrite app_nil_r.
Qed.

(* pure facts about the abstract first pass *)
Record AInv (s : asm_st) : Prop := mkAInv {
  ai_r8 : forall l r, In (l, r) (a_r8 s) -> a_base s < r /\ r < a_pc s;
  ai_r16 : forall l r, In (l, r) (a_r16 s) -> a_base s < r /\ r + 1 < a_pc s;
  ai_s8 : StronglySorted Z.lt (map snd (a_r8 s));
  ai_s16 : StronglySorted (fun x y => x + 1 < y) (map snd (a_r16 s));
  ai_x : forall l r l' r', In (l, r) (a_r8 s) -> In (l', r') (a_r16 s) -> r <> r' /\ r <> r' + 1 }.

(* nothing emitted yet: the image and both reference lists are empty (SetBase is only legal here) *)
Definition fresh (s : asm_st) : Prop := a_img s = [] /\ a_r8 s = [] /\ a_r16 s = [].

Lemma AInv_init : AInv a_init.
Proof. constructor; simpl; try (intros; contradiction); constructor. Qed.

Lemma zlen_ins_nonneg : forall k, 0 < ins_len k.
Proof. destruct k; simpl; lia. Qed.

Lemma In_map_snd : forall (l : lbl) (r : Z) rs, In (l, r) rs -> In r (map snd rs).
Proof. intros l r rs H. apply in_map_iff. exists (l, r). split; [reflexivity|exact H]. Qed.

Lemma AInv_step : forall o s, AInv s -> op_ok o ->
  (match o with OSetBase _ => fresh s | _ => True end) -> AInv (astep o s).
Proof.
  intros o s [H8 H16 S8 S16 HX] Hok Hfresh.
  destruct o as [a|c|c|k d l t g|bs|id|l]; simpl in *; try (constructor; assumption).
  - (* SetBase: nothing recorded yet *)
    destruct Hfresh as [Hi [E8 E16]]. constructor; simpl; rewrite ?E8, ?E16; simpl;
      try (intros; contradiction); constructor.
  - (* instruction *)
    pose proof (zlen_nonneg _ d) as Hd. pose proof (zlen_nonneg _ (a_img s)) as Hi.
    assert (Hpc : a_pc (mkA (a_base s) (a_img s ++ d) (a_lab s) (a_r8 s) (a_r16 s)) = a_pc s + zlen d).
    { unfold a_pc. simpl. rewrite zlen_app. lia. }
    constructor; unfold a_pc in *; simpl; rewrite ?zlen_app.
    + intros l0 r Hin. destruct k; try (apply H8 in Hin; lia).
      apply in_app_or in Hin. destruct Hin as [Hin|[Hin|[]]]; [apply H8 in Hin; lia|].
      inversion Hin; subst. simpl in Hok. lia.
    + intros l0 r Hin. destruct k; try (apply H16 in Hin; lia).
      apply in_app_or in Hin. destruct Hin as [Hin|[Hin|[]]]; [apply H16 in Hin; lia|].
      inversion Hin; subst. simpl in Hok. lia.
    + destruct k; try exact S8. rewrite map_app. simpl. apply SSorted_app_one; [exact S8|].
      intros x Hx. apply in_map_iff in Hx. destruct Hx as [[l0 r0] [E Hin]]. simpl in E. subst x.
      apply H8 in Hin. lia.
    + destruct k; try exact S16. rewrite map_app. simpl. apply SSorted_app_one; [exact S16|].
      intros x Hx. apply in_map_iff in Hx. destruct Hx as [[l0 r0] [E Hin]]. simpl in E. subst x.
      apply H16 in Hin. lia.
    + intros l0 r l' r' Hi8 Hi16.
      destruct k; try (now apply (HX l0 r l' r')).
      * apply in_app_or in Hi8. destruct Hi8 as [Hi8|[Hi8|[]]]; [now apply (HX l0 r l' r')|].
        inversion Hi8; subst. apply H16 in Hi16. lia.
      * apply in_app_or in Hi16. destruct Hi16 as [Hi16|[Hi16|[]]]; [now apply (HX l0 r l' r')|].
        inversion Hi16; subst. apply H8 in Hi8. lia.
  - (* data *)
    pose proof (zlen_nonneg _ bs) as Hd.
    constructor; unfold a_pc in *; simpl; rewrite ?zlen_app; try assumption.
    + intros l0 r Hin. apply H8 in Hin. lia.
    + intros l0 r Hin. apply H16 in Hin. lia.
Qed.

Lemma assemble_snoc : forall s ops o, assemble_from s (ops ++ [o]) = astep o (assemble_from s ops).
Proof. intros. unfold assemble_from. now rewrite fold_left_app. Qed.

(* "every recorded reference address is the operand address of a label instruction emitted earlier" *)
Lemma ref8_origin : forall ops l r, In (l, r) (a_r8 (assemble ops)) ->
  exists pre d t g post, ops = pre ++ OIns E2L d l t g :: post /\ r = a_pc (assemble pre) + 1.
Proof.
  intros ops. induction ops as [|o ops IH] using rev_ind; intros l r Hin; [destruct Hin|].
  unfold assemble in *. rewrite assemble_snoc in Hin.
  assert (Hold : In (l, r) (a_r8 (assemble_from a_init ops)) ->
          exists pre d t g post, ops ++ [o] = pre ++ OIns E2L d l t g :: post /\ r = a_pc (assemble_from a_init pre) + 1).
  { intros H. destruct (IH _ _ H) as (pre & d & t & g & post & E & Er).
    exists pre, d, t, g, (post ++ [o]). split; [|exact Er]. rewrite E. now rewrite <- app_assoc. }
  destruct o as [a|c|c|k d l0 t g|bs|id|l0]; simpl in Hin; try (now apply Hold).
  destruct k; try (now apply Hold).
  apply in_app_or in Hin. destruct Hin as [Hin|[Hin|[]]]; [now apply Hold|].
  inversion Hin; subst. exists ops, d, t, g, []. split; reflexivity.
Qed.

Lemma ref16_origin : forall ops l r, In (l, r) (a_r16 (assemble ops)) ->
  exists pre d t g post, ops = pre ++ OIns E3L d l t g :: post /\ r = a_pc (assemble pre) + 1.
Proof.
  intros ops. induction ops as [|o ops IH] using rev_ind; intros l r Hin; [destruct Hin|].
  unfold assemble in *. rewrite assemble_snoc in Hin.
  assert (Hold : In (l, r) (a_r16 (assemble_from a_init ops)) ->
          exists pre d t g post, ops ++ [o] = pre ++ OIns E3L d l t g :: post /\ r = a_pc (assemble_from a_init pre) + 1).
  { intros H. destruct (IH _ _ H) as (pre & d & t & g & post & E & Er).
    exists pre, d, t, g, (post ++ [o]). split; [|exact Er]. rewrite E. now rewrite <- app_assoc. }
  destruct o as [a|c|c|k d l0 t g|bs|id|l0]; simpl in Hin; try (now apply Hold).
  destruct k; try (now apply Hold).
  apply in_app_or in Hin. destruct Hin as [Hin|[Hin|[]]]; [now apply Hold|].
  inversion Hin; subst. exists ops, d, t, g, []. split; reflexivity.
Qed.

(* ------------------------------------------------------------------ 3. the history invariant *)
(* [Rel s e]: emitter state [e] is the abstract first-pass state [s].  For a nil target nothing is
   stored or counted ([n] stays 0) but addresses, labels and references are tracked all the same. *)
Record Rel (s : asm_st) (e : em) : Prop := mkRel {
  R_base0 : 0 <= a_base s;
  R_top : a_pc s < B32;
  R_base : base e = a_base s;
  R_addr : address e = a_pc s;                                 (* address = base + bytes emitted *)
  R_buf : match buf e with
          | Some b => n e = zlen (a_img s) /\ n e <= zlen b /\ ztake (n e) b = a_img s
          | None => n e = 0
          end;
  R_lab : forall l, lookup l (labels e) = lookup l (a_lab s);
  R_uniq : NoDup (keys (labels e));                            (* label keys unique *)
  R_d8 : forall l, lookup l (d8 e) = group l (a_r8 s);
  R_d16 : forall l, lookup l (d16 e) = group l (a_r16 s) }.

Definition core_eq (e1 e2 : em) : Prop :=
  buf e1 = buf e2 /\ n e1 = n e2 /\ base e1 = base e2 /\ address e1 = address e2 /\
  labels e1 = labels e2 /\ d8 e1 = d8 e2 /\ d16 e1 = d16 e2.

Lemma core_refl : forall e, core_eq e e.
Proof. intros. repeat split. Qed.
Lemma core_trans : forall a b c, core_eq a b -> core_eq b c -> core_eq a c.
Proof. unfold core_eq. intros a b c H1 H2. intuition congruence. Qed.
Lemma core_sym : forall a b, core_eq a b -> core_eq b a.
Proof. unfold core_eq. intros a b H1. intuition congruence. Qed.

Lemma Rel_core : forall s e1 e2, core_eq e1 e2 -> Rel s e1 -> Rel s e2.
Proof.
  intros s e1 e2 (Hb & Hn & Hba & Ha & Hl & H8 & H16) [R1 R2 R3 R4 R5 R6 R7 R8 R9].
  constructor; try assumption; try congruence;
    try (rewrite <- Hb, <- Hn; exact R5);
    try (intros l; rewrite <- ?Hl, <- ?H8, <- ?H16; auto).
Qed.

Lemma core_emitBase : forall e, core_eq e (emitBase e).
Proof. intros e. unfold emitBase. destruct (gen e && baseSet e); repeat split. Qed.
Lemma core_add_lines : forall ls e, core_eq e (add_lines ls e).
Proof. intros. repeat split. Qed.
Lemma core_flags : forall v e, core_eq e (set_flags v e).
Proof. intros. repeat split. Qed.
Lemma core_track : forall t e, core_eq e (apply_track t e).
Proof. intros [|c|c] e; repeat split. Qed.

(* what write(d) does to the fields *)
Definition stored (d : list Z) (e e' : em) : Prop :=
  match buf e with
  | None => buf e' = None /\ n e' = n e
  | Some b => n e + zlen d <= zlen b /\ buf e' = Some (splice b (n e) d) /\ n e' = n e + zlen d
  end.

Lemma write_spec : forall d e e', write d e = Some e' ->
  stored d e e' /\ base e' = base e /\ address e' = address e /\ labels e' = labels e /\
  d8 e' = d8 e /\ d16 e' = d16 e /\ gen e' = gen e /\ lines e' = lines e /\ baseSet e' = baseSet e /\
  flags e' = flags e.
Proof.
  intros d e e' H. unfold write in H. unfold stored. destruct (buf e) as [b|] eqn:Eb.
  - destruct (zlen b <? n e + zlen d) eqn:Elt; [discriminate|]. apply Z.ltb_ge in Elt.
    inversion H; subst e'. cbn. repeat split; try reflexivity. exact Elt.
  - inversion H; subst e'. rewrite Eb. repeat split; reflexivity.
Qed.

Lemma write_None : forall d e, write d e = None ->
  exists b, buf e = Some b /\ zlen b < n e + zlen d.
Proof.
  intros d e H. unfold write in H. destruct (buf e) as [b|]; [|discriminate].
  destruct (zlen b <? n e + zlen d) eqn:Elt; [|discriminate]. apply Z.ltb_lt in Elt. now exists b.
Qed.

Lemma ztake_splice_end : forall (b d : list Z) k, 0 <= k -> k <= zlen b ->
  ztake (k + zlen d) (splice b k d) = ztake k b ++ d.
Proof.
  intros b d k H0 H1. unfold splice. rewrite app_assoc.
  assert (E : k + zlen d = zlen (ztake k b ++ d)).
  { rewrite zlen_app, zlen_ztake by lia. lia. }
  rewrite E. apply ztake_app_exact.
Qed.

(* an accepted emission of [d] with the reference lists becoming r8' / r16' *)
Lemma Rel_emit : forall s e e' d r8' r16',
  Rel s e -> stored d e e' -> base e' = base e -> address e' = w32 (address e + zlen d) ->
  labels e' = labels e ->
  (forall l, lookup l (d8 e') = group l r8') -> (forall l, lookup l (d16 e') = group l r16') ->
  a_pc s + zlen d < B32 ->
  Rel (mkA (a_base s) (a_img s ++ d) (a_lab s) r8' r16') e'.
Proof.
  intros s e e' d r8' r16' [R1 R2 R3 R4 R5 R6 R7 R8 R9] Hst Hb Ha Hl H8 H16 Htop.
  pose proof (zlen_nonneg _ d) as Hd. pose proof (zlen_nonneg _ (a_img s)) as Hi.
  assert (Hpc : a_pc (mkA (a_base s) (a_img s ++ d) (a_lab s) r8' r16') = a_pc s + zlen d).
  { unfold a_pc. simpl. rewrite zlen_app. lia. }
  constructor; simpl; try assumption.
  - rewrite Hpc. exact Htop.
  - congruence.
  - rewrite Hpc, Ha, R4. apply w32_small. unfold a_pc in *. lia.
  - unfold stored in Hst. destruct (buf e) as [b|].
    + destruct R5 as (Hn & Hle & Ht). destruct Hst as (Hfit & Hb' & Hn'). rewrite Hb'.
      rewrite zlen_app. split; [lia|]. split.
      * rewrite zlen_splice by lia. lia.
      * rewrite Hn'. rewrite ztake_splice_end by lia. now rewrite Ht.
    + destruct Hst as (Hb' & Hn'). rewrite Hb'. lia.
  - intros l. rewrite Hl. apply R6.
  - now rewrite Hl.
Qed.

Lemma lookup_add_dangling : forall m l r l',
  lookup l' (add_dangling m l r) =
  if N.eqb l l' then Some (match lookup l' m with None => [] | Some rs => rs end ++ [r]) else lookup l' m.
Proof.
  intros m l r l'. unfold add_dangling. destruct (N.eqb l l') eqn:E.
  - apply N.eqb_eq in E. subst. apply lookup_insert_eq.
  - apply N.eqb_neq in E. apply lookup_insert_neq. congruence.
Qed.

(* fields after an accepted emit<k> *)
Lemma emitK_done : forall k d l e e', emitK k d l e = Done e' ->
  stored d e e' /\ base e' = base e /\ address e' = w32 (address e + ins_len k) /\ labels e' = labels e /\
  d8 e' = (match k with E2L => add_dangling (d8 e) l (w32 (w32 (address e + ins_len k) - 1)) | _ => d8 e end) /\
  d16 e' = (match k with E3L => add_dangling (d16 e) l (w32 (w32 (address e + ins_len k) - 2)) | _ => d16 e end).
Proof.
  intros k d l e e' H. unfold emitK in H. destruct (write d e) as [e1|] eqn:Ew; [|discriminate].
  apply write_spec in Ew. destruct Ew as (Hst & Hb & Ha & Hl & H8 & H16 & Hg & _).
  set (e2 := if gen e1 then _ else e1) in H.
  assert (C : core_eq e1 e2).
  { unfold e2. destruct (gen e1); [|apply core_refl].
    eapply core_trans; [apply core_emitBase|apply core_add_lines]. }
  destruct C as (Cb & Cn & Cba & Ca & Cl & C8 & C16).
  assert (Hst2 : stored d e e2).
  { unfold stored in *. destruct (buf e); rewrite <- Cb, <- Cn; exact Hst. }
  inversion H as [H']. clear H.
  destruct k; cbn; rewrite <- ?Cba, <- ?Ca, <- ?Cl, <- ?C8, <- ?C16, ?Hb, ?Ha, ?Hl, ?H8, ?H16;
    (split; [exact Hst2|repeat split; reflexivity]).
Qed.

Lemma emitK_refused : forall k d l e e', emitK k d l e = Refused e' -> e' = e.
Proof.
  intros k d l e e' H. unfold emitK in H. destruct (write d e); [discriminate|]. now inversion H.
Qed.

Lemma EmitBytesX_done : forall fx bs e e', EmitBytesX fx bs e = Done e' ->
  stored bs e e' /\ base e' = base e /\ address e' = w32 (address e + zlen bs) /\ labels e' = labels e /\
  d8 e' = d8 e /\ d16 e' = d16 e.
Proof.
  intros fx bs e e' H. unfold EmitBytesX in H.
  set (e1 := if gen e then _ else e) in H.
  assert (C : core_eq e e1).
  { unfold e1. destruct (gen e); [|apply core_refl].
    eapply core_trans; [apply core_emitBase|apply core_add_lines]. }
  destruct C as (Cb & Cn & Cba & Ca & Cl & C8 & C16).
  destruct (write bs e1) as [e2|] eqn:Ew; [|discriminate].
  apply write_spec in Ew. destruct Ew as (Hst & Hb & Ha & Hl & H8 & H16 & _).
  inversion H; subst e'. cbn. rewrite Hb, Ha, Hl, H8, H16, <- Cba, <- Ca, <- Cl, <- C8, <- C16.
  split; [|repeat split; reflexivity].
  unfold stored in *. rewrite Cb, Cn. destruct (buf e1); exact Hst.
Qed.

Lemma EmitBytesX_refused : forall fx bs e e', EmitBytesX fx bs e = Refused e' -> core_eq e e'.
Proof.
  intros fx bs e e' H. unfold EmitBytesX in H.
  set (e1 := if gen e then _ else e) in H.
  assert (C : core_eq e e1).
  { unfold e1. destruct (gen e); [|apply core_refl].
    eapply core_trans; [apply core_emitBase|apply core_add_lines]. }
  destruct (write bs e1); [discriminate|]. inversion H; subst. exact C.
Qed.

Lemma core_Comment : forall id e, core_eq e (Comment id e).
Proof.
  intros id e. unfold Comment. destruct (gen e); [|apply core_refl].
  eapply core_trans; [apply core_emitBase|apply core_add_lines].
Qed.

(* Label of an existing name is refused and changes nothing; a fresh name is bound to the current address *)
Lemma LabelX_refused : forall fx l e a, lookup l (labels e) = Some a -> LabelX fx l e = Refused e.
Proof. intros fx l e a H. unfold LabelX. now rewrite H. Qed.

Lemma LabelX_done : forall fx l e, lookup l (labels e) = None ->
  exists e', LabelX fx l e = Done e' /\ buf e' = buf e /\ n e' = n e /\ base e' = base e /\
             address e' = address e /\ labels e' = insert l (address e) (labels e) /\
             d8 e' = d8 e /\ d16 e' = d16 e.
Proof.
  intros fx l e H. unfold LabelX. rewrite H. eexists. split; [reflexivity|].
  unfold emitBase. cbn. destruct (gen e); [|cbn; repeat split; reflexivity].
  destruct (label_flush fx); [|cbn; repeat split; reflexivity].
  cbn. destruct (baseSet e); cbn; repeat split; reflexivity.
Qed.

(* one call: an accepted call moves the abstract state by [astep], a refused call leaves it *)
Lemma execX_rel : forall fx o s e, Rel s e -> op_ok o ->
  (match o with OSetBase _ => fresh s | _ => True end) ->
  match execX fx o e with
  | Done e' => a_pc (astep o s) < B32 -> Rel (astep o s) e'
  | Refused e' => Rel s e'
  end.
Proof.
  intros fx o s e HR Hok Hfresh.
  destruct o as [a|c|c|k d l t g|bs|id|l]; cbn [execX exec astep].
  - (* SetBase *)
    intros _. destruct Hfresh as (Hi & _). destruct HR as [R1 R2 R3 R4 R5 R6 R7 R8 R9].
    simpl in Hok. constructor; cbn; try assumption; try lia.
    + unfold a_pc. cbn. rewrite Hi. cbn. lia.
    + unfold a_pc. cbn. rewrite Hi. cbn. lia.
  - intros _. eapply Rel_core; [apply core_flags|exact HR].
  - intros _. eapply Rel_core; [apply core_flags|exact HR].
  - (* instruction method *)
    destruct (guard_ok g e); [|exact HR].
    assert (HR' : Rel s (apply_track t e)) by (eapply Rel_core; [apply core_track|exact HR]).
    destruct (emitK k d l (apply_track t e)) as [e'|e'] eqn:Ek.
    + intros Htop. apply emitK_done in Ek. destruct Ek as (Hst & Hb & Ha & Hl & H8 & H16).
      simpl in Hok. pose proof (zlen_nonneg _ (a_img s)) as Hi.
      assert (Hpc : a_pc (mkA (a_base s) (a_img s ++ d) (a_lab s)
                     (match k with E2L => a_r8 s ++ [(l, a_pc s + 1)] | _ => a_r8 s end)
                     (match k with E3L => a_r16 s ++ [(l, a_pc s + 1)] | _ => a_r16 s end)) = a_pc s + zlen d).
      { unfold a_pc. cbn. rewrite zlen_app. lia. }
      rewrite Hpc in Htop.
      pose proof (R_addr _ _ HR') as Haddr. pose proof (R_base0 _ _ HR') as Hb0.
      assert (Hpc0 : 0 <= a_pc s) by (unfold a_pc; lia).
      apply (Rel_emit s (apply_track t e)); try assumption.
      * rewrite Ha. now rewrite Hok.
      * intros l'. rewrite H8. destruct k; try apply (R_d8 _ _ HR').
        rewrite lookup_add_dangling, group_app_one, (R_d8 _ _ HR'), Haddr.
        cbn [ins_len] in *. rewrite (w32_small (a_pc s + 2)) by lia. rewrite w32_small by lia.
        replace (a_pc s + 2 - 1) with (a_pc s + 1) by lia. reflexivity.
      * intros l'. rewrite H16. destruct k; try apply (R_d16 _ _ HR').
        rewrite lookup_add_dangling, group_app_one, (R_d16 _ _ HR'), Haddr.
        cbn [ins_len] in *. rewrite (w32_small (a_pc s + 3)) by lia. rewrite w32_small by lia.
        replace (a_pc s + 3 - 2) with (a_pc s + 1) by lia. reflexivity.
    + apply emitK_refused in Ek. now subst e'.
  - (* data *)
    destruct (EmitBytesX fx bs e) as [e'|e'] eqn:Ek.
    + intros Htop. apply EmitBytesX_done in Ek. destruct Ek as (Hst & Hb & Ha & Hl & H8 & H16).
      assert (Hpc : a_pc (mkA (a_base s) (a_img s ++ bs) (a_lab s) (a_r8 s) (a_r16 s)) = a_pc s + zlen bs).
      { unfold a_pc. cbn. rewrite zlen_app. lia. }
      rewrite Hpc in Htop.
      apply (Rel_emit s e); try assumption.
      * intros l'. rewrite H8. apply (R_d8 _ _ HR).
      * intros l'. rewrite H16. apply (R_d16 _ _ HR).
    + apply EmitBytesX_refused in Ek. eapply Rel_core; [exact Ek|exact HR].
  - intros _. eapply Rel_core; [apply core_Comment|exact HR].
  - (* Label *)
    destruct (lookup l (labels e)) as [a|] eqn:El.
    + rewrite (LabelX_refused fx l e a El). exact HR.
    + destruct (LabelX_done fx l e El) as (e' & E & Hb & Hn & Hba & Ha & Hl & H8 & H16). rewrite E.
      intros _. destruct HR as [R1 R2 R3 R4 R5 R6 R7 R8 R9].
      constructor; cbn [a_base a_img a_lab a_r8 a_r16]; try assumption; try congruence.
      * rewrite Ha. exact R4.
      * rewrite Hb, Hn. exact R5.
      * intros l'. rewrite Hl, lookup_app_one, <- R6, R4.
        destruct (N.eq_dec l' l) as [->|Hne].
        -- rewrite lookup_insert_eq, El, N.eqb_refl. reflexivity.
        -- rewrite lookup_insert_neq by exact Hne.
           destruct (lookup l' (labels e)); [reflexivity|].
           destruct (N.eqb l' l) eqn:E2; [apply N.eqb_eq in E2; contradiction|reflexivity].
      * rewrite Hl. now apply NoDup_keys_insert.
Qed.

(* ---- histories *)
Definition is_sb (o : op) : bool := match o with OSetBase _ => true | _ => false end.

Lemma base_once_cons : forall o r seen emitted, base_once seen emitted (o :: r) = true ->
  base_once (seen || is_sb o) (emitted || emits o) r = true /\ (is_sb o = true -> emitted = false).
Proof.
  intros o r seen emitted H. destruct o; simpl in *; rewrite ?orb_false_r in *; try (split; [exact H|discriminate]).
  apply andb_true_iff in H. destruct H as [H1 H2]. apply andb_true_iff in H1. destruct H1 as [_ H1].
  rewrite orb_true_r. split; [exact H2|]. intros _. now destruct emitted.
Qed.

Lemma base_once_no_sb : forall ops seen, base_once seen true ops = true -> Forall (fun o => is_sb o = false) ops.
Proof.
  induction ops as [|o r IH]; intros seen H; [constructor|].
  destruct (base_once_cons _ _ _ _ H) as [H1 H2]. simpl in H1. constructor.
  - destruct (is_sb o); [specialize (H2 eq_refl); discriminate|reflexivity].
  - eapply IH. exact H1.
Qed.

Lemma accepted_Forall : forall (P : op -> Prop) ops rl, Forall P ops -> Forall P (accepted ops rl).
Proof.
  intros P ops. induction ops as [|o r IH]; intros rl H; simpl; [constructor|].
  inversion H; subst. destruct rl as [|b rb]; [constructor|]. destruct b; [now apply IH|].
  constructor; [assumption|now apply IH].
Qed.

Lemma astep_mono : forall o s, is_sb o = false -> zlen (a_img s) <= zlen (a_img (astep o s)) /\ a_base (astep o s) = a_base s.
Proof.
  intros o s H. destruct o; simpl in *; try discriminate; rewrite ?zlen_app;
    try match goal with |- context [zlen ?x + zlen ?y] => pose proof (zlen_nonneg _ y) end; split; try lia; reflexivity.
Qed.

Lemma assemble_mono : forall ops s, Forall (fun o => is_sb o = false) ops ->
  a_base (assemble_from s ops) = a_base s /\ zlen (a_img s) <= zlen (a_img (assemble_from s ops)).
Proof.
  induction ops as [|o r IH]; intros s H; simpl; [split; [reflexivity|lia]|].
  inversion H as [|o' r' Ho Hr]; subst. destruct (astep_mono o s) as [M1 M2]; [assumption|].
  destruct (IH (astep o s)) as [M3 M4]; [assumption|]. unfold assemble_from in *. split; [congruence|lia].
Qed.

Lemma astep_fresh : forall o s, emits o = false -> fresh s -> fresh (astep o s).
Proof. intros o s H F. destruct o; simpl in *; try discriminate; exact F. Qed.

Lemma astep_pc_quiet : forall o s, emits o = false -> is_sb o = false -> a_pc (astep o s) = a_pc s.
Proof. intros o s H1 H2. destruct o; simpl in *; try discriminate; reflexivity. Qed.

Lemma runX_cons : forall fx o r e,
  runX fx (o :: r) e =
  (fst (runX fx r (state_of (execX fx o e))), is_refused (execX fx o e) :: snd (runX fx r (state_of (execX fx o e)))).
Proof. intros. simpl. destruct (runX fx r (state_of (execX fx o e))). reflexivity. Qed.

Lemma run_rel : forall ops fx s e seen emitted ef rl,
  Rel s e -> AInv s -> (emitted = false -> fresh s) -> Forall op_ok ops -> base_once seen emitted ops = true ->
  runX fx ops e = (ef, rl) ->
  a_pc (assemble_from s (accepted ops rl)) < B32 ->
  Rel (assemble_from s (accepted ops rl)) ef /\ AInv (assemble_from s (accepted ops rl)).
Proof.
  induction ops as [|o r IH]; intros fx s e seen emitted ef rl HR HA Hph Hok Hb Hrun Htop.
  - simpl in Hrun. inversion Hrun; subst. simpl. split; assumption.
  - rewrite runX_cons in Hrun. inversion Hrun as [[Ef Erl]]. clear Hrun.
    inversion Hok as [|o' r' Hoko Hokr]; subst o' r'.
    destruct (base_once_cons _ _ _ _ Hb) as [Hb' Hsb].
    set (res := execX fx o e) in *.
    remember (snd (runX fx r (state_of res))) as rl' eqn:Erl'.
    assert (Hrun' : runX fx r (state_of res) = (fst (runX fx r (state_of res)), rl')).
    { rewrite Erl'. now destruct (runX fx r (state_of res)). }
    assert (Hfr : match o with OSetBase _ => fresh s | _ => True end).
    { destruct o; try exact I. apply Hph. now apply Hsb. }
    pose proof (execX_rel fx o s e HR Hoko Hfr) as Hstep. fold res in Hstep.
    subst rl. destruct res as [e1|e1] eqn:Eres; cbn [is_refused accepted state_of] in *.
    + (* accepted *)
      change (assemble_from s (o :: accepted r rl')) with (assemble_from (astep o s) (accepted r rl')) in *.
      assert (Hpc1 : a_pc (astep o s) < B32).
      { destruct (emits o) eqn:Eem.
        - rewrite orb_true_r in Hb'. apply base_once_no_sb in Hb'.
          destruct (assemble_mono (accepted r rl') (astep o s)) as [M1 M2]; [now apply accepted_Forall|].
          unfold a_pc in *. lia.
        - destruct (is_sb o) eqn:Esb.
          + destruct o; try discriminate. destruct Hfr as (Hi & _). unfold a_pc. simpl. rewrite Hi, zlen_nil. simpl in Hoko. lia.
          + rewrite astep_pc_quiet by assumption. apply (R_top _ _ HR). }
      rewrite ?Ef. apply (IH fx (astep o s) e1 (seen || is_sb o) (emitted || emits o) ef rl'); try assumption.
      * now apply Hstep.
      * apply AInv_step; assumption.
      * intros Hem. apply orb_false_iff in Hem. destruct Hem as [Hem1 Hem2].
        apply astep_fresh; [exact Hem2|]. now apply Hph.
      * rewrite Hrun'. now rewrite Ef.
    + (* refused *)
      rewrite ?Ef. apply (IH fx s e1 (seen || is_sb o) (emitted || emits o) ef rl'); try assumption.
      * intros Hem. apply orb_false_iff in Hem. destruct Hem as [Hem1 Hem2]. now apply Hph.
      * rewrite Hrun'. now rewrite Ef.
Qed.

(* the bound of one step follows from the bound at the end of the history (used again by ListingProps) *)
Lemma step_top : forall o r s rl' seen emitted,
  0 <= a_base s -> a_pc s < B32 -> op_ok o -> (match o with OSetBase _ => fresh s | _ => True end) ->
  base_once (seen || is_sb o) (emitted || emits o) r = true ->
  a_pc (assemble_from (astep o s) (accepted r rl')) < B32 -> a_pc (astep o s) < B32.
Proof.
  intros o r s rl' seen emitted Hb0 Hs Hok Hfr Hb' Htop.
  destruct (emits o) eqn:Eem.
  - rewrite orb_true_r in Hb'. apply base_once_no_sb in Hb'.
    destruct (assemble_mono (accepted r rl') (astep o s)) as [M1 M2]; [now apply accepted_Forall|].
    unfold a_pc in *. lia.
  - destruct (is_sb o) eqn:Esb.
    + destruct o; try discriminate. destruct Hfr as (Hi & _). unfold a_pc. simpl. rewrite Hi, zlen_nil. simpl in Hok. lia.
    + now rewrite astep_pc_quiet by assumption.
Qed.

Lemma Rel_init : forall target g, Rel a_init (new_em target g).
Proof.
  intros target g. constructor; cbn; try lia; try reflexivity; try constructor.
  destruct target as [b|]; [|reflexivity]. pose proof (zlen_nonneg _ b). repeat split; lia.
Qed.

(* history premises *)
Definition hist_ok (ops : list op) : Prop := Forall op_ok ops /\ base_once false false ops = true.

(* THE HISTORY INVARIANT.  For every history, every target, both listing modes and every variant of the
   listing routines: the state reached is the abstract first-pass state of the accepted calls. *)
Theorem C06_history : forall fx ops target g ef rl,
  hist_ok ops -> runX fx ops (new_em target g) = (ef, rl) ->
  in_one_bank (assemble (accepted ops rl)) ->
  Rel (assemble (accepted ops rl)) ef /\ AInv (assemble (accepted ops rl)).
Proof.
  intros fx ops target g ef rl [Hok Hb] Hrun Hbank. apply in_one_bank_B32 in Hbank.
  eapply (run_rel ops fx a_init (new_em target g) false false); try eassumption.
  - apply Rel_init.
  - apply AInv_init.
  - intros _. repeat split.
  - apply Hbank.
Qed.

(* [runX today] is Emitter.run, the model of the code as it stands *)
Lemma db_loopX_today : forall bs a0 blen i cur caddr acc,
  db_loopX false a0 blen i cur caddr bs acc = db_loop a0 blen i cur caddr bs acc.
Proof.
  induction bs as [|v r IH]; intros; simpl; [reflexivity|]. destruct (Z.land i 15 =? 15); apply IH.
Qed.
Lemma execX_today : forall o e, execX today o e = exec o e.
Proof.
  intros o e. destruct o; try reflexivity; simpl.
  unfold EmitBytesX, EmitBytes, db_linesX, db_lines. simpl. now rewrite db_loopX_today.
Qed.
Lemma runX_today : forall ops e, runX today ops e = run ops e.
Proof.
  induction ops as [|o r IH]; intros e; simpl; [reflexivity|]. rewrite execX_today, IH. reflexivity.
Qed.

(* ------------------------------------------------------------------ 4. Finalize *)
Definition is_ref8 (e : em) (l : lbl) (r : Z) : Prop := exists rs, lookup l (d8 e) = Some rs /\ In r rs.
Definition is_ref16 (e : em) (l : lbl) (r : Z) : Prop := exists rs, lookup l (d16 e) = Some rs /\ In r rs.
Definition referenced8 (e : em) (l : lbl) : Prop := exists rs, lookup l (d8 e) = Some rs.
Definition referenced16 (e : em) (l : lbl) : Prop := exists rs, lookup l (d16 e) = Some rs.

(* everything Finalize must not touch (the two maps are accounted for separately) *)
Definition frame_eq (e e' : em) : Prop :=
  flags e' = flags e /\ gen e' = gen e /\ n e' = n e /\ lines e' = lines e /\ base e' = base e /\
  baseSet e' = baseSet e /\ address e' = address e /\ labels e' = labels e.
Lemma frame_refl : forall e, frame_eq e e.
Proof. intros. repeat split. Qed.
Lemma frame_trans : forall a b c, frame_eq a b -> frame_eq b c -> frame_eq a c.
Proof. unfold frame_eq. intros a b c H1 H2. intuition congruence. Qed.

Definition bufok (e : em) : Prop := exists b, buf e = Some b /\ n e <= zlen b.
Lemma bufok_code : forall e, bufok e -> buf e = Some (code e) /\ n e <= zlen (code e).
Proof. intros e (b & Hb & Hn). unfold code. rewrite Hb. now split. Qed.

Lemma znth_single : forall v, znth [v] 0 = v.
Proof. reflexivity. Qed.

Definition in_s8 (x : Z) : Prop := -128 <= x <= 127.

(* the inner loop over the rel8 references of one label *)
Lemma patch8_spec : forall addr refs e e' res,
  bufok e -> 0 <= base e -> base e + n e < B32 ->
  (forall r, In r refs -> base e <= r /\ r < base e + n e) ->
  patch8 addr refs e = (e', res) ->
  frame_eq e e' /\ d8 e' = d8 e /\ d16 e' = d16 e /\ bufok e' /\ zlen (code e') = zlen (code e) /\
  (forall p, (forall r, In r refs -> p <> r - base e) -> znth (code e') p = znth (code e) p) /\
  match res with
  | FOk => forall r, In r refs -> in_s8 (addr - (r + 1)) /\ znth (code e') (r - base e) = (addr - (r + 1)) mod 256
  | FTooFar f t => exists r, In r refs /\ f = r + 1 /\ t = addr /\ ~ in_s8 (addr - (r + 1))
  | _ => False
  end.
Proof.
  intros addr refs. induction refs as [|r0 rs IH]; intros e e' res Hbuf Hb0 Htop Hin Hp.
  - simpl in Hp. inversion Hp; subst. repeat split; try reflexivity; try assumption;
      try match goal with H : In _ [] |- _ => destruct H end.
  - simpl in Hp.
    destruct (Hin r0 (or_introl eq_refl)) as [Hr1 Hr2].
    destruct (bufok_code _ Hbuf) as [Hcode Hn].
    rewrite (w32_small (r0 + 1)) in Hp by (unfold B32 in *; lia).
    rewrite (w32_small (r0 - base e)) in Hp by (unfold B32 in *; lia).
    destruct ((127 <? addr - (r0 + 1)) || (addr - (r0 + 1) <? -128)) eqn:Efar.
    + inversion Hp; subst. repeat split; try reflexivity; try assumption.
      exists r0. repeat split; [now left|]. unfold in_s8. intros Hs.
      apply orb_true_iff in Efar. destruct Efar as [E|E]; [apply Z.ltb_lt in E|apply Z.ltb_lt in E]; lia.
    + apply orb_false_iff in Efar. destruct Efar as [E1 E2]. apply Z.ltb_ge in E1. apply Z.ltb_ge in E2.
      destruct (r0 - base e <? zlen (code e)) eqn:Ei; [|apply Z.ltb_ge in Ei; lia].
      set (v := (addr - (r0 + 1)) mod 256) in *.
      set (e1 := set_buf (Some (upd (code e) (r0 - base e) v)) e) in *.
      assert (Hz1 : zlen (code e1) = zlen (code e)).
      { unfold e1, code at 1. cbn. unfold upd. apply zlen_splice; [lia|]. change (zlen [v]) with 1. lia. }
      assert (Hb1 : bufok e1).
      { exists (code e1). split; [reflexivity|]. rewrite Hz1. exact Hn. }
      destruct (IH e1 e' res Hb1) as (F & E8 & E16 & Hb' & Hz & Hfr & Hres); try assumption.
      { intros r Hr. apply Hin. now right. }
      change (base e1) with (base e) in *.
      assert (Hc1 : code e1 = upd (code e) (r0 - base e) v) by reflexivity.
      assert (Hfr1 : forall p, p <> r0 - base e -> znth (code e1) p = znth (code e) p).
      { intros p Hne. rewrite Hc1. unfold upd. apply znth_splice_out; [lia|change (zlen [v]) with 1; lia|].
        change (zlen [v]) with 1. lia. }
      assert (Hat : znth (code e1) (r0 - base e) = v).
      { rewrite Hc1. unfold upd. rewrite znth_splice_in; [|lia|lia|change (zlen [v]) with 1; lia].
        replace (r0 - base e - (r0 - base e)) with 0 by lia. apply znth_single. }
      split; [exact F|]. split; [exact E8|]. split; [exact E16|]. split; [exact Hb'|].
      split; [congruence|]. split.
      * intros p Hp0. rewrite Hfr by (intros r Hr; apply Hp0; now right).
        apply Hfr1. apply Hp0. now left.
      * destruct res; try exact Hres.
        -- intros r Hr. destruct (in_dec Z.eq_dec r rs) as [Hi|Hni]; [now apply Hres|].
           destruct Hr as [Hr|Hr]; [subst r|exfalso; apply Hni; exact Hr].
           split; [unfold in_s8; lia|].
           rewrite Hfr; [exact Hat|]. intros r Hr Heq. apply Hni. replace r0 with r by lia. exact Hr.
        -- destruct Hres as (r & Hr & Hres). exists r. split; [now right|exact Hres].
Qed.

(* the two bytes stored for a jump: the low 16 bits of the label address, little endian *)
Definition lo16 (a : Z) : Z := (a mod 65536) mod 256.
Definition hi16 (a : Z) : Z := (a mod 65536) / 256.
Lemma lo16_eq : forall a, a mod 256 = lo16 a.
Proof. intros a. unfold lo16. Z.div_mod_to_equations. lia. Qed.
Lemma hi16_eq : forall a, (a / 256) mod 256 = hi16 a.
Proof. intros a. unfold hi16. Z.div_mod_to_equations. lia. Qed.

Lemma znth_pair0 : forall a b, znth [a; b] 0 = a.
Proof. reflexivity. Qed.
Lemma znth_pair1 : forall a b, znth [a; b] 1 = b.
Proof. reflexivity. Qed.

(* the inner loop over the abs16 references of one label *)
Lemma patch16_spec : forall addr refs e e' res,
  bufok e -> 0 <= base e -> base e + n e < B32 ->
  (forall r, In r refs -> base e <= r /\ r + 1 < base e + n e) ->
  (forall r r', In r refs -> In r' refs -> r = r' \/ r + 1 < r' \/ r' + 1 < r) ->
  patch16 addr refs e = (e', res) ->
  frame_eq e e' /\ d8 e' = d8 e /\ d16 e' = d16 e /\ bufok e' /\ zlen (code e') = zlen (code e) /\
  (forall p, (forall r, In r refs -> p <> r - base e /\ p <> r + 1 - base e) -> znth (code e') p = znth (code e) p) /\
  match res with
  | FOk => forall r, In r refs ->
             znth (code e') (r - base e) = lo16 addr /\ znth (code e') (r + 1 - base e) = hi16 addr
  | _ => False
  end.
Proof.
  intros addr refs. induction refs as [|r0 rs IH]; intros e e' res Hbuf Hb0 Htop Hin Hsp Hp.
  - simpl in Hp. inversion Hp; subst. repeat split; try reflexivity; try assumption;
      try match goal with H : In _ [] |- _ => destruct H end.
  - simpl in Hp.
    destruct (Hin r0 (or_introl eq_refl)) as [Hr1 Hr2].
    destruct (bufok_code _ Hbuf) as [Hcode Hn].
    rewrite (w32_small (r0 - base e)) in Hp by (unfold B32 in *; lia).
    rewrite (w32_small (r0 - base e + 2)) in Hp by (unfold B32 in *; lia).
    destruct ((r0 - base e <=? r0 - base e + 2) && (r0 - base e + 2 <=? zlen (code e))) eqn:Ei.
    2:{ apply andb_false_iff in Ei. destruct Ei as [E|E]; apply Z.leb_gt in E; lia. }
    set (v := [addr mod 256; (addr / 256) mod 256]) in *.
    assert (Hv : zlen v = 2) by reflexivity.
    set (e1 := set_buf (Some (splice (code e) (r0 - base e) v)) e) in *.
    assert (Hz1 : zlen (code e1) = zlen (code e)).
    { unfold e1, code at 1. cbn. apply zlen_splice; lia. }
    assert (Hb1 : bufok e1).
    { exists (code e1). split; [reflexivity|]. rewrite Hz1. exact Hn. }
    destruct (IH e1 e' res Hb1) as (F & E8 & E16 & Hb' & Hz & Hfr & Hres); try assumption.
    { intros r Hr. apply Hin. now right. }
    { intros r r' Hr Hr'. apply Hsp; now right. }
    change (base e1) with (base e) in *.
    assert (Hc1 : code e1 = splice (code e) (r0 - base e) v) by reflexivity.
    assert (Hfr1 : forall p, p <> r0 - base e -> p <> r0 + 1 - base e -> znth (code e1) p = znth (code e) p).
    { intros p Hne1 Hne2. rewrite Hc1. apply znth_splice_out; lia. }
    assert (Hat0 : znth (code e1) (r0 - base e) = lo16 addr).
    { rewrite Hc1. rewrite znth_splice_in by lia.
      replace (r0 - base e - (r0 - base e)) with 0 by lia. unfold v. rewrite znth_pair0. apply lo16_eq. }
    assert (Hat1 : znth (code e1) (r0 + 1 - base e) = hi16 addr).
    { rewrite Hc1. rewrite znth_splice_in by lia.
      replace (r0 + 1 - base e - (r0 - base e)) with 1 by lia. unfold v. rewrite znth_pair1. apply hi16_eq. }
    split; [exact F|]. split; [exact E8|]. split; [exact E16|]. split; [exact Hb'|].
    split; [congruence|]. split.
    + intros p Hp0. rewrite Hfr by (intros r Hr; apply Hp0; now right).
      destruct (Hp0 r0 (or_introl eq_refl)). now apply Hfr1.
    + destruct res; try exact Hres.
      intros r Hr. destruct (in_dec Z.eq_dec r rs) as [Hi|Hni]; [now apply Hres|].
      destruct Hr as [Hr|Hr]; [subst r|exfalso; apply Hni; exact Hr].
      assert (Hsep : forall r, In r rs -> r0 + 1 < r \/ r + 1 < r0).
      { intros r Hr. destruct (Hsp r0 r (or_introl eq_refl) (or_intror Hr)) as [E|E]; [|exact E].
        subst r. contradiction. }
      split.
      * rewrite Hfr; [exact Hat0|]. intros r Hr. specialize (Hsep r Hr). lia.
      * rewrite Hfr; [exact Hat1|]. intros r Hr. specialize (Hsep r Hr). lia.
Qed.

(* preconditions of the first loop *)
Definition Hyp8 (e : em) : Prop :=
  bufok e /\ 0 <= base e /\ base e + n e < B32 /\
  (forall l r, is_ref8 e l r -> base e <= r /\ r < base e + n e) /\
  (forall l l' r, is_ref8 e l r -> is_ref8 e l' r -> l = l').

Lemma is_ref8_remove : forall e e1 l l' r, d8 e1 = remove l (d8 e) ->
  is_ref8 e1 l' r -> l' <> l /\ is_ref8 e l' r.
Proof.
  intros e e1 l l' r Hd (rs & Hl & Hi). rewrite Hd in Hl.
  destruct (N.eq_dec l' l) as [->|Hne]; [rewrite lookup_remove_eq in Hl; discriminate|].
  rewrite lookup_remove_neq in Hl by exact Hne. split; [exact Hne|]. now exists rs.
Qed.

Lemma fin8_spec : forall ord e e' res,
  Hyp8 e -> fin8 ord e = (e', res) ->
  frame_eq e e' /\ d16 e' = d16 e /\ bufok e' /\ zlen (code e') = zlen (code e) /\
  (forall p, (forall l r, is_ref8 e l r -> p <> r - base e) -> znth (code e') p = znth (code e) p) /\
  match res with
  | FOk => (forall l, In l ord -> lookup l (d8 e') = None) /\
           (forall l, ~ In l ord -> lookup l (d8 e') = lookup l (d8 e)) /\
           (forall l, In l ord -> referenced8 e l -> exists a, lookup l (labels e) = Some a) /\
           (forall l r a, In l ord -> is_ref8 e l r -> lookup l (labels e) = Some a ->
              in_s8 (a - (r + 1)) /\ znth (code e') (r - base e) = (a - (r + 1)) mod 256)
  | FUnresolved l => In l ord /\ referenced8 e l /\ lookup l (labels e) = None
  | FTooFar f t => exists l r, In l ord /\ is_ref8 e l r /\ lookup l (labels e) = Some t /\
                               f = r + 1 /\ ~ in_s8 (t - (r + 1))
  | FPanic => False
  end.
Proof.
  induction ord as [|l rest IH]; intros e e' res Hyp Hf.
  - simpl in Hf. inversion Hf; subst. destruct Hyp as (Hb & _).
    repeat split; try reflexivity; try assumption; try (intros; contradiction).
  - simpl in Hf. destruct (lookup l (d8 e)) as [refs|] eqn:El.
    2:{ (* l is not (or no longer) a key: skipped *)
      destruct (IH e e' res Hyp Hf) as (F & E16 & Hb' & Hz & Hfr & Hres).
      split; [exact F|]. split; [exact E16|]. split; [exact Hb'|]. split; [exact Hz|]. split; [exact Hfr|].
      destruct res; try exact Hres.
      - destruct Hres as (H1 & H2 & H3 & H4). split; [|split; [|split]].
        + intros l0 [->|Hi]; [|now apply H1].
          destruct (in_dec N.eq_dec l0 rest) as [Hi|Hni]; [now apply H1|]. rewrite H2 by exact Hni. exact El.
        + intros l0 Hn. apply H2. intros Hi. apply Hn. now right.
        + intros l0 [->|Hi] Hr; [destruct Hr as (rs & Hr); congruence|now apply H3].
        + intros l0 r a [->|Hi] Hr; [destruct Hr as (rs & Hr & _); congruence|now apply H4].
      - destruct Hres as (H1 & H2). split; [now right|exact H2].
      - destruct Hres as (l0 & r & H1 & H2). exists l0, r. split; [now right|exact H2]. }
    destruct (lookup l (labels e)) as [addr|] eqn:Ea.
    2:{ inversion Hf; subst. destruct Hyp as (Hb & _).
        repeat split; try reflexivity; try assumption; [now left|now exists refs]. }
    destruct Hyp as (Hb & Hb0 & Htop & Hrng & Hdis).
    assert (Hrefs : forall r, In r refs -> is_ref8 e l r) by (intros r Hr; now exists refs).
    destruct (patch8 addr refs e) as [e1 r1] eqn:Ep.
    destruct (patch8_spec addr refs e e1 r1 Hb Hb0 Htop) as (F1 & D8 & D16 & Hb1 & Hz1 & Hfr1 & Hres1); [|exact Ep|].
    { intros r Hr. apply (Hrng l). now apply Hrefs. }
    destruct F1 as (Ff & Fg & Fn & Fl & Fb & Fbs & Fa & Flab).
    destruct r1; try contradiction.
    + (* every reference of l patched; l leaves the map; rest of the order *)
      set (e2 := set_d8 (remove l (d8 e1)) e1) in *.
      assert (Hd2 : d8 e2 = remove l (d8 e)) by (unfold e2; cbn; now rewrite D8).
      assert (Hyp2 : Hyp8 e2).
      { unfold Hyp8. change (base e2) with (base e1). change (n e2) with (n e1). rewrite Fb, Fn.
        split; [exact Hb1|]. split; [exact Hb0|]. split; [exact Htop|]. split.
        - intros l0 r Hr. apply (is_ref8_remove e e2 l) in Hr; [|exact Hd2]. destruct Hr as [_ Hr]. now apply (Hrng l0).
        - intros l0 l0' r Hr Hr'. apply (is_ref8_remove e e2 l) in Hr; [|exact Hd2].
          apply (is_ref8_remove e e2 l) in Hr'; [|exact Hd2]. destruct Hr as [_ Hr]. destruct Hr' as [_ Hr'].
          now apply (Hdis l0 l0' r). }
      destruct (IH e2 e' res Hyp2 Hf) as (F & E16 & Hb' & Hz & Hfr & Hres).
      change (base e2) with (base e1) in *. change (labels e2) with (labels e1) in *.
      change (code e2) with (code e1) in *. change (d16 e2) with (d16 e1) in *.
      rewrite Fb, Flab in *.
      assert (Hsub : forall l0 r, is_ref8 e2 l0 r -> l0 <> l /\ is_ref8 e l0 r).
      { intros l0 r Hr. now apply (is_ref8_remove e e2 l). }
      assert (Hsup : forall l0 r, l0 <> l -> is_ref8 e l0 r -> is_ref8 e2 l0 r).
      { intros l0 r Hne (rs & Hl & Hi). exists rs. split; [|exact Hi]. rewrite Hd2.
        now rewrite lookup_remove_neq. }
      split.
      { unfold frame_eq in *. change (flags e2) with (flags e1) in F. change (gen e2) with (gen e1) in F.
        change (n e2) with (n e1) in F. change (lines e2) with (lines e1) in F.
        change (baseSet e2) with (baseSet e1) in F. change (address e2) with (address e1) in F.
        change (base e2) with (base e1) in F. change (labels e2) with (labels e1) in F.
        destruct F as (G1 & G2 & G3 & G4 & G5 & G6 & G7 & G8). repeat split; congruence. }
      split; [congruence|]. split; [exact Hb'|]. split; [congruence|]. split.
      { intros p Hp. rewrite Hfr.
        - apply Hfr1. intros r Hr. apply (Hp l). now apply Hrefs.
        - intros l0 r Hr. apply Hsub in Hr. destruct Hr as [_ Hr]. now apply (Hp l0). }
      destruct res; try exact Hres.
      * destruct Hres as (H1 & H2 & H3 & H4). split; [|split; [|split]].
        -- intros l0 [->|Hi]; [|now apply H1].
           destruct (in_dec N.eq_dec l0 rest) as [Hi|Hni]; [now apply H1|].
           rewrite H2 by exact Hni. rewrite Hd2. apply lookup_remove_eq.
        -- intros l0 Hn. rewrite H2 by (intros Hi; apply Hn; now right). rewrite Hd2.
           apply lookup_remove_neq. intros ->. apply Hn. now left.
        -- intros l0 Hi0 Hr. destruct (N.eq_dec l0 l) as [->|Hne]; [now exists addr|].
           destruct Hi0 as [->|Hi0]; [contradiction|]. apply H3; [exact Hi0|].
           destruct Hr as (rs & Hr). exists rs. rewrite Hd2. now rewrite lookup_remove_neq.
        -- intros l0 r a Hi0 Hr Ha. destruct (N.eq_dec l0 l) as [->|Hne].
           ++ assert (a = addr) by congruence. subst a.
              destruct Hr as (rs & Hl & Hi). assert (rs = refs) by congruence. subst rs.
              destruct (Hres1 r Hi) as [Hs Hv]. split; [exact Hs|].
              rewrite Hfr; [exact Hv|]. intros l0 r' Hr' Heq. apply Hsub in Hr'. destruct Hr' as [Hne Hr'].
              apply Hne. apply (Hdis l0 l r'); [exact Hr'|]. replace r' with r by lia. now apply Hrefs.
           ++ destruct Hi0 as [->|Hi0]; [contradiction|]. apply (H4 l0); [exact Hi0| |exact Ha]. now apply Hsup.
      * destruct Hres as (H1 & H2 & H3). split; [now right|]. split; [|exact H3].
        destruct H2 as (rs & H2). rewrite Hd2 in H2. exists rs.
        destruct (N.eq_dec l0 l) as [->|Hne]; [rewrite lookup_remove_eq in H2; discriminate|].
        now rewrite lookup_remove_neq in H2.
      * destruct Hres as (l0 & r & H1 & H2 & H3). exists l0, r. split; [now right|].
        split; [|exact H3]. apply Hsub in H2. tauto.
    + (* a branch out of range: early return *)
      inversion Hf; subst e' res. split; [unfold frame_eq; intuition congruence|].
      split; [exact D16|]. split; [exact Hb1|]. split; [exact Hz1|]. split.
      { intros p Hp. apply Hfr1. intros r Hr. apply (Hp l). now apply Hrefs. }
      destruct Hres1 as (r & Hr & Ef & Et & Hfar). subst. exists l, r.
      split; [now left|]. split; [now apply Hrefs|]. split; [exact Ea|]. split; [reflexivity|exact Hfar].
Qed.

(* preconditions of the second loop *)
Definition Hyp16 (e : em) : Prop :=
  bufok e /\ 0 <= base e /\ base e + n e < B32 /\
  (forall l r, is_ref16 e l r -> base e <= r /\ r + 1 < base e + n e) /\
  (forall l l' r r', is_ref16 e l r -> is_ref16 e l' r' -> (l = l' /\ r = r') \/ r + 1 < r' \/ r' + 1 < r).

Lemma is_ref16_remove : forall e e1 l l' r, d16 e1 = remove l (d16 e) ->
  is_ref16 e1 l' r -> l' <> l /\ is_ref16 e l' r.
Proof.
  intros e e1 l l' r Hd (rs & Hl & Hi). rewrite Hd in Hl.
  destruct (N.eq_dec l' l) as [->|Hne]; [rewrite lookup_remove_eq in Hl; discriminate|].
  rewrite lookup_remove_neq in Hl by exact Hne. split; [exact Hne|]. now exists rs.
Qed.

Lemma fin16_spec : forall ord e e' res,
  Hyp16 e -> fin16 ord e = (e', res) ->
  frame_eq e e' /\ d8 e' = d8 e /\ bufok e' /\ zlen (code e') = zlen (code e) /\
  (forall p, (forall l r, is_ref16 e l r -> p <> r - base e /\ p <> r + 1 - base e) ->
             znth (code e') p = znth (code e) p) /\
  match res with
  | FOk => (forall l, In l ord -> lookup l (d16 e') = None) /\
           (forall l, ~ In l ord -> lookup l (d16 e') = lookup l (d16 e)) /\
           (forall l, In l ord -> referenced16 e l -> exists a, lookup l (labels e) = Some a) /\
           (forall l r a, In l ord -> is_ref16 e l r -> lookup l (labels e) = Some a ->
              znth (code e') (r - base e) = lo16 a /\ znth (code e') (r + 1 - base e) = hi16 a)
  | FUnresolved l => In l ord /\ referenced16 e l /\ lookup l (labels e) = None
  | _ => False
  end.
Proof.
  induction ord as [|l rest IH]; intros e e' res Hyp Hf.
  - simpl in Hf. inversion Hf; subst. destruct Hyp as (Hb & _).
    repeat split; try reflexivity; try assumption; try (intros; contradiction).
  - simpl in Hf. destruct (lookup l (d16 e)) as [refs|] eqn:El.
    2:{ destruct (IH e e' res Hyp Hf) as (F & E8 & Hb' & Hz & Hfr & Hres).
      split; [exact F|]. split; [exact E8|]. split; [exact Hb'|]. split; [exact Hz|]. split; [exact Hfr|].
      destruct res; try exact Hres.
      - destruct Hres as (H1 & H2 & H3 & H4). split; [|split; [|split]].
        + intros l0 [->|Hi]; [|now apply H1].
          destruct (in_dec N.eq_dec l0 rest) as [Hi|Hni]; [now apply H1|]. rewrite H2 by exact Hni. exact El.
        + intros l0 Hn. apply H2. intros Hi. apply Hn. now right.
        + intros l0 [->|Hi] Hr; [destruct Hr as (rs & Hr); congruence|now apply H3].
        + intros l0 r a [->|Hi] Hr; [destruct Hr as (rs & Hr & _); congruence|now apply (H4 l0)].
      - destruct Hres as (H1 & H2). split; [now right|exact H2]. }
    destruct (lookup l (labels e)) as [addr|] eqn:Ea.
    2:{ inversion Hf; subst. destruct Hyp as (Hb & _).
        repeat split; try reflexivity; try assumption; [now left|now exists refs]. }
    destruct Hyp as (Hb & Hb0 & Htop & Hrng & Hdis).
    assert (Hrefs : forall r, In r refs -> is_ref16 e l r) by (intros r Hr; now exists refs).
    destruct (patch16 addr refs e) as [e1 r1] eqn:Ep.
    destruct (patch16_spec addr refs e e1 r1 Hb Hb0 Htop) as (F1 & D8 & D16 & Hb1 & Hz1 & Hfr1 & Hres1); [| |exact Ep|].
    { intros r Hr. apply (Hrng l). now apply Hrefs. }
    { intros r r' Hr Hr'. destruct (Hdis l l r r' (Hrefs r Hr) (Hrefs r' Hr')) as [[_ E]|E]; [now left|now right]. }
    destruct F1 as (Ff & Fg & Fn & Fl & Fb & Fbs & Fa & Flab).
    destruct r1; try contradiction.
    set (e2 := set_d16 (remove l (d16 e1)) e1) in *.
    assert (Hd2 : d16 e2 = remove l (d16 e)) by (unfold e2; cbn; now rewrite D16).
    assert (Hyp2 : Hyp16 e2).
    { unfold Hyp16. change (base e2) with (base e1). change (n e2) with (n e1). rewrite Fb, Fn.
      split; [exact Hb1|]. split; [exact Hb0|]. split; [exact Htop|]. split.
      - intros l0 r Hr. apply (is_ref16_remove e e2 l) in Hr; [|exact Hd2]. destruct Hr as [_ Hr]. now apply (Hrng l0).
      - intros l0 l0' r r' Hr Hr'. apply (is_ref16_remove e e2 l) in Hr; [|exact Hd2].
        apply (is_ref16_remove e e2 l) in Hr'; [|exact Hd2]. destruct Hr as [_ Hr]. destruct Hr' as [_ Hr'].
        now apply (Hdis l0 l0' r r'). }
    destruct (IH e2 e' res Hyp2 Hf) as (F & E8 & Hb' & Hz & Hfr & Hres).
    change (base e2) with (base e1) in *. change (labels e2) with (labels e1) in *.
    change (code e2) with (code e1) in *. change (d8 e2) with (d8 e1) in *.
    assert (Hsub : forall l0 r, is_ref16 e2 l0 r -> l0 <> l /\ is_ref16 e l0 r).
    { intros l0 r Hr. now apply (is_ref16_remove e e2 l). }
    assert (Hsup : forall l0 r, l0 <> l -> is_ref16 e l0 r -> is_ref16 e2 l0 r).
    { intros l0 r Hne (rs & Hl & Hi). exists rs. split; [|exact Hi]. rewrite Hd2.
      now rewrite lookup_remove_neq. }
    split.
    { unfold frame_eq in *. change (flags e2) with (flags e1) in F. change (gen e2) with (gen e1) in F.
      change (n e2) with (n e1) in F. change (lines e2) with (lines e1) in F.
      change (baseSet e2) with (baseSet e1) in F. change (address e2) with (address e1) in F.
      change (base e2) with (base e1) in F. change (labels e2) with (labels e1) in F.
      destruct F as (G1 & G2 & G3 & G4 & G5 & G6 & G7 & G8). repeat split; congruence. }
    rewrite Fb, Flab in *.
    split; [congruence|]. split; [exact Hb'|]. split; [congruence|]. split.
    { intros p Hp. rewrite Hfr.
      - apply Hfr1. intros r Hr. apply (Hp l). now apply Hrefs.
      - intros l0 r Hr. apply Hsub in Hr. destruct Hr as [_ Hr]. now apply (Hp l0). }
    destruct res; try exact Hres.
    * destruct Hres as (H1 & H2 & H3 & H4). split; [|split; [|split]].
      -- intros l0 [->|Hi]; [|now apply H1].
         destruct (in_dec N.eq_dec l0 rest) as [Hi|Hni]; [now apply H1|].
         rewrite H2 by exact Hni. rewrite Hd2. apply lookup_remove_eq.
      -- intros l0 Hn. rewrite H2 by (intros Hi; apply Hn; now right). rewrite Hd2.
         apply lookup_remove_neq. intros ->. apply Hn. now left.
      -- intros l0 Hi0 Hr. destruct (N.eq_dec l0 l) as [->|Hne]; [now exists addr|].
         destruct Hi0 as [->|Hi0]; [contradiction|]. apply H3; [exact Hi0|].
         destruct Hr as (rs & Hr). exists rs. rewrite Hd2. now rewrite lookup_remove_neq.
      -- intros l0 r a Hi0 Hr Ha. destruct (N.eq_dec l0 l) as [->|Hne].
         ++ assert (a = addr) by congruence. subst a.
            destruct Hr as (rs & Hl & Hi). assert (rs = refs) by congruence. subst rs.
            destruct (Hres1 r Hi) as [Hv0 Hv1].
            assert (Hsep : forall l0 r', is_ref16 e2 l0 r' -> r + 1 < r' \/ r' + 1 < r).
            { intros l0 r' Hr'. apply Hsub in Hr'. destruct Hr' as [Hne Hr'].
              destruct (Hdis l l0 r r' (Hrefs r Hi) Hr') as [[E _]|E]; [congruence|exact E]. }
            split.
            ** rewrite Hfr; [exact Hv0|]. intros l0 r' Hr'. specialize (Hsep l0 r' Hr'). lia.
            ** rewrite Hfr; [exact Hv1|]. intros l0 r' Hr'. specialize (Hsep l0 r' Hr'). lia.
         ++ destruct Hi0 as [->|Hi0]; [contradiction|]. apply (H4 l0); [exact Hi0| |exact Ha]. now apply Hsup.
    * destruct Hres as (H1 & H2 & H3). split; [now right|]. split; [|exact H3].
      destruct H2 as (rs & H2). rewrite Hd2 in H2. exists rs.
      destruct (N.eq_dec l0 l) as [->|Hne]; [rewrite lookup_remove_eq in H2; discriminate|].
      now rewrite lookup_remove_neq in H2.
Qed.

(* ---- the whole of Finalize *)
(* well-formed state: a real target, no wrap-around, every recorded reference inside the emitted bytes,
   operand ranges of distinct references disjoint *)
Record WF (e : em) : Prop := mkWF {
  wf_buf : bufok e;
  wf_base : 0 <= base e;
  wf_top : base e + n e < B32;
  wf_r8 : forall l r, is_ref8 e l r -> base e <= r /\ r < base e + n e;
  wf_r16 : forall l r, is_ref16 e l r -> base e <= r /\ r + 1 < base e + n e;
  wf_88 : forall l l' r, is_ref8 e l r -> is_ref8 e l' r -> l = l';
  wf_816 : forall l l' r r', is_ref8 e l r -> is_ref16 e l' r' -> r <> r' /\ r <> r' + 1;
  wf_1616 : forall l l' r r', is_ref16 e l r -> is_ref16 e l' r' ->
              (l = l' /\ r = r') \/ r + 1 < r' \/ r' + 1 < r }.

(* a visiting order of a Go map: every key is visited (at least once; a second visit finds the key deleted).
   The permutations of the keys are such orders. *)
Definition covers (ord : list lbl) (m : list (lbl * list Z)) : Prop := forall l, In l (keys m) -> In l ord.
Lemma covers_keys : forall m, covers (keys m) m.
Proof. intros m l H. exact H. Qed.
Lemma covers_perm : forall m ord, Permutation (keys m) ord -> covers ord m.
Proof. intros m ord H l Hl. eapply Permutation_in; eassumption. Qed.

(* all referenced labels are defined and all rel8 distances are in [-128, 127] *)
Definition resolvable (e : em) : Prop :=
  (forall l, referenced8 e l -> exists a, lookup l (labels e) = Some a) /\
  (forall l r a, is_ref8 e l r -> lookup l (labels e) = Some a -> in_s8 (a - (r + 1))) /\
  (forall l, referenced16 e l -> exists a, lookup l (labels e) = Some a).

(* buffer offsets that belong to the operand of a recorded label reference *)
Definition operand_pos (e : em) (p : Z) : Prop :=
  (exists l r, is_ref8 e l r /\ p = r - base e) \/
  (exists l r, is_ref16 e l r /\ (p = r - base e \/ p = r + 1 - base e)).

Definition finalize_post (e e' : em) (res : fres) : Prop :=
  frame_eq e e' /\ bufok e' /\ zlen (code e') = zlen (code e) /\
  (* only operand bytes of label references can differ, whatever the outcome *)
  (forall p, ~ operand_pos e p -> znth (code e') p = znth (code e) p) /\
  match res with
  | FOk =>
      resolvable e /\ (forall l, lookup l (d8 e') = None) /\ (forall l, lookup l (d16 e') = None) /\
      (forall l r a, is_ref8 e l r -> lookup l (labels e) = Some a ->
         znth (code e') (r - base e) = (a - (r + 1)) mod 256) /\
      (forall l r a, is_ref16 e l r -> lookup l (labels e) = Some a ->
         znth (code e') (r - base e) = lo16 a /\ znth (code e') (r + 1 - base e) = hi16 a)
  | FUnresolved l => (referenced8 e l \/ referenced16 e l) /\ lookup l (labels e) = None
  | FTooFar f t => exists l r, is_ref8 e l r /\ lookup l (labels e) = Some t /\ f = r + 1 /\ ~ in_s8 (t - (r + 1))
  | FPanic => False
  end.

Theorem finalize_spec : forall o8 o16 e e' res,
  WF e -> covers o8 (d8 e) -> covers o16 (d16 e) -> Finalize o8 o16 e = (e', res) -> finalize_post e e' res.
Proof.
  intros o8 o16 e e' res [Wb Wb0 Wt W8 W16 W88 W816 W1616] C8 C16 Hf. unfold Finalize in Hf.
  destruct (fin8 o8 e) as [e1 r1] eqn:E8.
  assert (Hyp : Hyp8 e) by (unfold Hyp8; auto).
  destruct (fin8_spec o8 e e1 r1 Hyp E8) as (F1 & D16 & Hb1 & Hz1 & Hfr1 & Hres1).
  assert (Hin8 : forall l, referenced8 e l -> In l o8).
  { intros l (rs & Hl). apply C8. eapply lookup_Some_keys. exact Hl. }
  assert (Hin8' : forall l r, is_ref8 e l r -> In l o8).
  { intros l r (rs & Hl & _). apply Hin8. now exists rs. }
  assert (Hnop8 : forall p, ~ operand_pos e p -> forall l r, is_ref8 e l r -> p <> r - base e).
  { intros p Hn l r Hr Heq. apply Hn. left. now exists l, r. }
  unfold finalize_post.
  destruct r1.
  - (* first loop complete *)
    destruct Hres1 as (H1 & H2 & H3 & H4).
    pose proof F1 as F1'. destruct F1' as (Ff & Fg & Fn & Fl & Fb & Fbs & Fa & Flab).
    assert (Hyp2 : Hyp16 e1).
    { unfold Hyp16. rewrite Fb, Fn. split; [exact Hb1|]. split; [exact Wb0|]. split; [exact Wt|].
      unfold is_ref16. rewrite D16. split; [exact W16|exact W1616]. }
    destruct (fin16_spec o16 e1 e' res Hyp2 Hf) as (F2 & D8 & Hb2 & Hz2 & Hfr2 & Hres2).
    assert (R16 : forall l r, is_ref16 e1 l r <-> is_ref16 e l r) by (intros; unfold is_ref16; now rewrite D16).
    assert (Hin16 : forall l, referenced16 e l -> In l o16).
    { intros l (rs & Hl). apply C16. eapply lookup_Some_keys. exact Hl. }
    rewrite Fb, Flab in *.
    split; [eapply frame_trans; eassumption|]. split; [exact Hb2|]. split; [congruence|]. split.
    { intros p Hn. rewrite Hfr2.
      - apply Hfr1. now apply Hnop8.
      - intros l r Hr. apply R16 in Hr. split; intros Heq; apply Hn; right; exists l, r; auto. }
    destruct res; try contradiction.
    + destruct Hres2 as (G1 & G2 & G3 & G4). split; [|split; [|split; [|split]]].
      * split; [|split].
        -- intros l Hr. apply H3; [now apply Hin8|exact Hr].
        -- intros l r a Hr Ha. apply (H4 l r a); [now apply (Hin8' l r)|exact Hr|exact Ha].
        -- intros l Hr. apply G3; [now apply Hin16|]. destruct Hr as (rs & Hr). exists rs. now rewrite D16.
      * intros l. rewrite D8. destruct (in_dec N.eq_dec l o8) as [Hi|Hni]; [now apply H1|].
        rewrite H2 by exact Hni. apply lookup_None_keys. intros Hk. apply Hni. now apply C8.
      * intros l. destruct (in_dec N.eq_dec l o16) as [Hi|Hni]; [now apply G1|].
        rewrite G2 by exact Hni. rewrite D16. apply lookup_None_keys. intros Hk. apply Hni. now apply C16.
      * intros l r a Hr Ha. destruct (H4 l r a) as [_ Hv]; [now apply (Hin8' l r)|exact Hr|exact Ha|].
        rewrite Hfr2; [exact Hv|]. intros l' r' Hr'. apply R16 in Hr'.
        destruct (W816 l l' r r' Hr Hr'). lia.
      * intros l r a Hr Ha. apply (G4 l r a); [|now apply R16|exact Ha].
        apply Hin16. destruct Hr as (rs & Hl & _). now exists rs.
    + destruct Hres2 as (G1 & G2 & G3). split; [|exact G3]. right.
      destruct G2 as (rs & G2). exists rs. now rewrite <- D16.
  - (* unresolved label in the first loop *)
    inversion Hf; subst e' res. destruct Hres1 as (G1 & G2 & G3).
    split; [exact F1|]. split; [exact Hb1|]. split; [exact Hz1|]. split.
    { intros p Hn. apply Hfr1. now apply Hnop8. }
    split; [now left|exact G3].
  - (* branch out of range *)
    inversion Hf; subst e' res. destruct Hres1 as (l & r & G1 & G2 & G3).
    split; [exact F1|]. split; [exact Hb1|]. split; [exact Hz1|]. split.
    { intros p Hn. apply Hfr1. now apply Hnop8. }
    exists l, r. split; [exact G2|exact G3].
  - contradiction.
Qed.

(* success iff all referenced labels are defined and all rel8 distances are in range -- for every order *)
Theorem finalize_iff : forall o8 o16 e e' res,
  WF e -> covers o8 (d8 e) -> covers o16 (d16 e) -> Finalize o8 o16 e = (e', res) ->
  (res = FOk <-> resolvable e).
Proof.
  intros o8 o16 e e' res W C8 C16 Hf.
  destruct (finalize_spec o8 o16 e e' res W C8 C16 Hf) as (_ & _ & _ & _ & Hres).
  split.
  - intros ->. apply Hres.
  - intros (R1 & R2 & R3). destruct res; try reflexivity; exfalso.
    + destruct Hres as ([Hr|Hr] & Hn); [destruct (R1 l Hr)|destruct (R3 l Hr)]; congruence.
    + destruct Hres as (l & r & Hr & Ha & _ & Hfar). apply Hfar. now apply (R2 l r to).
    + exact Hres.
Qed.

(* ---- reachable states are well-formed *)
Lemma NoDup_map_snd_inj : forall (rs : list (lbl * Z)) l l' r,
  NoDup (map snd rs) -> In (l, r) rs -> In (l', r) rs -> l = l'.
Proof.
  induction rs as [|[l0 r0] rs IH]; intros l l' r Hn H1 H2; [destruct H1|].
  simpl in Hn. inversion Hn as [|x xs Hni Hn']; subst.
  destruct H1 as [H1|H1]; destruct H2 as [H2|H2].
  - congruence.
  - inversion H1; subst. exfalso. apply Hni. now apply (In_map_snd l' r).
  - inversion H2; subst. exfalso. apply Hni. now apply (In_map_snd l r).
  - now apply (IH l l' r).
Qed.

Lemma SSorted_lt_NoDup : forall (R : Z -> Z -> Prop) l, (forall x, ~ R x x) -> StronglySorted R l -> NoDup l.
Proof.
  intros R l Hirr Hs. induction Hs as [|a l Hs IH Hf]; constructor; [|exact IH].
  intros Hin. rewrite Forall_forall in Hf. apply (Hirr a). now apply Hf.
Qed.

Lemma Rel_is_ref8 : forall s e l r, Rel s e -> (is_ref8 e l r <-> In (l, r) (a_r8 s)).
Proof.
  intros s e l r HR. unfold is_ref8. split.
  - intros (rs & Hl & Hi). rewrite (R_d8 _ _ HR) in Hl. now apply (group_In l (a_r8 s) rs r Hl).
  - intros Hi. destruct (group l (a_r8 s)) as [rs|] eqn:Eg.
    + exists rs. split; [now rewrite (R_d8 _ _ HR)|]. now apply (group_In l (a_r8 s) rs r Eg).
    + exfalso. now apply (group_None l (a_r8 s) Eg r).
Qed.
Lemma Rel_is_ref16 : forall s e l r, Rel s e -> (is_ref16 e l r <-> In (l, r) (a_r16 s)).
Proof.
  intros s e l r HR. unfold is_ref16. split.
  - intros (rs & Hl & Hi). rewrite (R_d16 _ _ HR) in Hl. now apply (group_In l (a_r16 s) rs r Hl).
  - intros Hi. destruct (group l (a_r16 s)) as [rs|] eqn:Eg.
    + exists rs. split; [now rewrite (R_d16 _ _ HR)|]. now apply (group_In l (a_r16 s) rs r Eg).
    + exfalso. now apply (group_None l (a_r16 s) Eg r).
Qed.

Lemma Rel_WF : forall s e, Rel s e -> AInv s -> buf e <> None -> WF e.
Proof.
  intros s e HR [A8 A16 S8 S16 AX] Hnn.
  pose proof HR as [R1 R2 R3 R4 R5 R6 R7 R8 R9].
  destruct (buf e) as [b|] eqn:Eb; [|congruence]. destruct R5 as (Hn & Hle & Ht).
  assert (Hpc : a_pc s = base e + n e) by (unfold a_pc; lia).
  constructor.
  - exists b. now split.
  - lia.
  - lia.
  - intros l r Hr. apply (Rel_is_ref8 s) in Hr; [|exact HR]. apply A8 in Hr. lia.
  - intros l r Hr. apply (Rel_is_ref16 s) in Hr; [|exact HR]. apply A16 in Hr. lia.
  - intros l l' r Hr Hr'. apply (Rel_is_ref8 s) in Hr; [|exact HR]. apply (Rel_is_ref8 s) in Hr'; [|exact HR].
    apply (NoDup_map_snd_inj (a_r8 s) l l' r); try assumption.
    apply (SSorted_lt_NoDup Z.lt); [intros x; lia|exact S8].
  - intros l l' r r' Hr Hr'. apply (Rel_is_ref8 s) in Hr; [|exact HR]. apply (Rel_is_ref16 s) in Hr'; [|exact HR].
    now apply (AX l r l' r').
  - intros l l' r r' Hr Hr'. apply (Rel_is_ref16 s) in Hr; [|exact HR]. apply (Rel_is_ref16 s) in Hr'; [|exact HR].
    destruct (SSorted_In2 _ _ r r' S16 (In_map_snd _ _ _ Hr) (In_map_snd _ _ _ Hr')) as [E|[E|E]]; [|now right; left|now right; right].
    left. split; [|exact E]. subst r'.
    apply (NoDup_map_snd_inj (a_r16 s) l l' r); try assumption.
    apply (SSorted_lt_NoDup (fun x y => x + 1 < y)); [intros x; lia|exact S16].
Qed.

Lemma stored_some : forall d e e', stored d e e' -> buf e <> None -> buf e' <> None.
Proof.
  intros d e e' H Hn. unfold stored in H. destruct (buf e); [|congruence].
  destruct H as (_ & H & _). congruence.
Qed.

Lemma execX_buf : forall fx o e, buf e <> None -> buf (state_of (execX fx o e)) <> None.
Proof.
  intros fx o e Hn. destruct o as [a|c|c|k d l t g|bs|id|l]; cbn [execX exec state_of]; try exact Hn.
  - destruct (guard_ok g e); [|exact Hn].
    destruct (emitK k d l (apply_track t e)) as [e'|e'] eqn:Ek; cbn.
    + apply emitK_done in Ek. destruct Ek as (Hst & _). eapply stored_some; [exact Hst|]. destruct t; exact Hn.
    + apply emitK_refused in Ek. subst. destruct t; exact Hn.
  - destruct (EmitBytesX fx bs e) as [e'|e'] eqn:Ek; cbn.
    + apply EmitBytesX_done in Ek. destruct Ek as (Hst & _). eapply stored_some; eassumption.
    + apply EmitBytesX_refused in Ek. destruct Ek as (Hb & _). congruence.
  - pose proof (core_Comment id e) as (Hb & _). cbn. congruence.
  - destruct (lookup l (labels e)) as [a|] eqn:El.
    + now rewrite (LabelX_refused fx l e a El).
    + destruct (LabelX_done fx l e El) as (e' & E & Hb & _). rewrite E. cbn. congruence.
Qed.

Lemma runX_buf : forall fx ops e, buf e <> None -> buf (fst (runX fx ops e)) <> None.
Proof.
  intros fx ops. induction ops as [|o r IH]; intros e Hn; [exact Hn|].
  rewrite runX_cons. cbn [fst]. apply IH. now apply execX_buf.
Qed.

(* the same condition read off the program: every reference has a defined label, every branch is in range *)
Definition program_resolvable (s : asm_st) : Prop :=
  (forall l r, In (l, r) (a_r8 s) -> exists a, lookup l (a_lab s) = Some a /\ in_s8 (a - (r + 1))) /\
  (forall l r, In (l, r) (a_r16 s) -> exists a, lookup l (a_lab s) = Some a).

Lemma group_Some_nonempty : forall l rs xs, group l rs = Some xs -> exists r, In r xs.
Proof.
  intros l rs xs H. unfold group in H.
  destruct (map snd (filter (fun x => N.eqb (fst x) l) rs)) as [|z zs]; [discriminate|].
  inversion H; subst. exists z. now left.
Qed.

Lemma resolvable_program : forall s e, Rel s e -> (resolvable e <-> program_resolvable s).
Proof.
  intros s e HR. unfold resolvable, program_resolvable. split.
  - intros (H1 & H2 & H3). split.
    + intros l r Hi. apply (Rel_is_ref8 s e l r HR) in Hi.
      destruct (H1 l) as (a & Ha). { destruct Hi as (rs & Hl & _). now exists rs. }
      exists a. split; [now rewrite <- (R_lab _ _ HR)|]. now apply (H2 l r a).
    + intros l r Hi. apply (Rel_is_ref16 s e l r HR) in Hi.
      destruct (H3 l) as (a & Ha). { destruct Hi as (rs & Hl & _). now exists rs. }
      exists a. now rewrite <- (R_lab _ _ HR).
  - intros (H1 & H2). split; [|split].
    + intros l (rs & Hl). pose proof Hl as Hg. rewrite (R_d8 _ _ HR) in Hg.
      destruct (group_Some_nonempty _ _ _ Hg) as (r & Hr).
      destruct (H1 l r) as (a & Ha & _). { now apply (group_In l (a_r8 s) rs r Hg). }
      exists a. now rewrite (R_lab _ _ HR).
    + intros l r a Hr Ha. apply (Rel_is_ref8 s e l r HR) in Hr. destruct (H1 l r Hr) as (a' & Ha' & Hs).
      rewrite (R_lab _ _ HR) in Ha. congruence.
    + intros l (rs & Hl). pose proof Hl as Hg. rewrite (R_d16 _ _ HR) in Hg.
      destruct (group_Some_nonempty _ _ _ Hg) as (r & Hr).
      destruct (H2 l r) as (a & Ha). { now apply (group_In l (a_r16 s) rs r Hg). }
      exists a. now rewrite (R_lab _ _ HR).
Qed.

(* ================================================================== the C06 theorems *)

(* every state reached with a real target is well-formed (so [finalize_spec] / [finalize_iff] apply) *)
Theorem C06_reachable_WF : forall fx ops b g ef rl,
  hist_ok ops -> runX fx ops (new_em (Some b) g) = (ef, rl) ->
  in_one_bank (assemble (accepted ops rl)) -> WF ef.
Proof.
  intros fx ops b g ef rl Hh Hrun Hbank.
  destruct (C06_history fx ops (Some b) g ef rl Hh Hrun Hbank) as [HR HA].
  apply (Rel_WF _ _ HR HA). replace ef with (fst (runX fx ops (new_em (Some b) g))) by now rewrite Hrun.
  apply runX_buf. discriminate.
Qed.

(* history invariant in the words of the property: for a real target the address is base + bytes emitted, the
   bytes are the image, label keys are unique, and the recorded references are exactly the operand addresses
   (opcode address + 1) of the accepted label instructions, each placed earlier in the history *)
Theorem C06_history_facts : forall fx ops b g ef rl,
  hist_ok ops -> runX fx ops (new_em (Some b) g) = (ef, rl) ->
  in_one_bank (assemble (accepted ops rl)) ->
  let s := assemble (accepted ops rl) in
  address ef = base ef + n ef /\ Bytes ef = a_img s /\ n ef <= Cap ef /\ NoDup (keys (labels ef)) /\
  (forall l r, is_ref8 ef l r <->
     exists pre d t g' post, accepted ops rl = pre ++ OIns E2L d l t g' :: post /\ r = a_pc (assemble pre) + 1) /\
  (forall l r, is_ref16 ef l r <->
     exists pre d t g' post, accepted ops rl = pre ++ OIns E3L d l t g' :: post /\ r = a_pc (assemble pre) + 1) /\
  (forall l r, is_ref8 ef l r -> base ef < r /\ r < base ef + n ef) /\
  (forall l r, is_ref16 ef l r -> base ef < r /\ r + 1 < base ef + n ef).
Proof.
  intros fx ops b g ef rl Hh Hrun Hbank s.
  destruct (C06_history fx ops (Some b) g ef rl Hh Hrun Hbank) as [HR HA]. fold s in HR, HA.
  assert (Hnn : buf ef <> None).
  { replace ef with (fst (runX fx ops (new_em (Some b) g))) by now rewrite Hrun. apply runX_buf. discriminate. }
  pose proof HR as [R1 R2 R3 R4 R5 R6 R7 R8 R9].
  destruct (buf ef) as [b'|] eqn:Eb; [|congruence]. destruct R5 as (Hn & Hle & Ht).
  assert (Hpc : a_pc s = base ef + n ef) by (unfold a_pc; lia).
  split; [lia|]. split; [unfold Bytes, code; now rewrite Eb|]. split; [unfold Cap, code; now rewrite Eb|].
  split; [exact R7|]. split; [|split; [|split]].
  - intros l r. rewrite (Rel_is_ref8 s ef l r HR). split; [apply ref8_origin|].
    intros (pre & d & t & g' & post & E & Er). unfold s, assemble. rewrite E.
    unfold assemble_from. rewrite fold_left_app. cbn [fold_left astep].
    set (sp := fold_left (fun s o => astep o s) pre a_init) in *.
    assert (Hk : forall post s0, In (l, r) (a_r8 s0) -> In (l, r) (a_r8 (fold_left (fun s o => astep o s) post s0))).
    { clear. induction post as [|o post IH]; intros s0 Hi; [exact Hi|]. cbn [fold_left]. apply IH.
      destruct o as [a|c|c|k d l0 t g|bs|id|l0]; cbn; try exact Hi. destruct k; try exact Hi.
      apply in_or_app. now left. }
    apply Hk. cbn. apply in_or_app. right. left. subst r. reflexivity.
  - intros l r. rewrite (Rel_is_ref16 s ef l r HR). split; [apply ref16_origin|].
    intros (pre & d & t & g' & post & E & Er). unfold s, assemble. rewrite E.
    unfold assemble_from. rewrite fold_left_app. cbn [fold_left astep].
    assert (Hk : forall post s0, In (l, r) (a_r16 s0) -> In (l, r) (a_r16 (fold_left (fun s o => astep o s) post s0))).
    { clear. induction post as [|o post IH]; intros s0 Hi; [exact Hi|]. cbn [fold_left]. apply IH.
      destruct o as [a|c|c|k d l0 t g|bs|id|l0]; cbn; try exact Hi. destruct k; try exact Hi.
      apply in_or_app. now left. }
    apply Hk. cbn. apply in_or_app. right. left. subst r. reflexivity.
  - intros l r Hr. apply (Rel_is_ref8 s ef l r HR) in Hr. apply (ai_r8 _ HA) in Hr. lia.
  - intros l r Hr. apply (Rel_is_ref16 s ef l r HR) in Hr. apply (ai_r16 _ HA) in Hr. lia.
Qed.

(* Finalize on any reachable state, for every visiting order of the two maps *)
Theorem C06_finalize : forall fx ops b g ef rl o8 o16 e' res,
  hist_ok ops -> runX fx ops (new_em (Some b) g) = (ef, rl) ->
  in_one_bank (assemble (accepted ops rl)) ->
  covers o8 (d8 ef) -> covers o16 (d16 ef) ->
  Finalize o8 o16 ef = (e', res) ->
  (res = FOk <-> program_resolvable (assemble (accepted ops rl))) /\ finalize_post ef e' res.
Proof.
  intros fx ops b g ef rl o8 o16 e' res Hh Hrun Hbank C8 C16 Hf.
  pose proof (C06_reachable_WF fx ops b g ef rl Hh Hrun Hbank) as W.
  destruct (C06_history fx ops (Some b) g ef rl Hh Hrun Hbank) as [HR _].
  split.
  - rewrite <- (resolvable_program _ _ HR). now apply (finalize_iff o8 o16 ef e' res).
  - now apply (finalize_spec o8 o16).
Qed.

(* Label of an existing name is refused (Go: panics) and changes nothing *)
Theorem C06_label_redefinition : forall fx l e a,
  GetLabel l e = Some a -> execX fx (OLabel l) e = Refused e.
Proof. intros fx l e a H. cbn. now apply (LabelX_refused fx l e a). Qed.

Theorem C06_label_fresh : forall fx l e, GetLabel l e = None ->
  exists e', execX fx (OLabel l) e = Done e' /\ GetLabel l e' = Some (PC e) /\
             (forall l', l' <> l -> GetLabel l' e' = GetLabel l' e) /\ Bytes e' = Bytes e /\ PC e' = PC e.
Proof.
  intros fx l e H. destruct (LabelX_done fx l e H) as (e' & E & Hb & Hn & Hba & Ha & Hl & H8 & H16).
  exists e'. split; [exact E|]. unfold GetLabel, PC, Bytes, code. rewrite Hl, Hb, Hn, Ha.
  split; [apply lookup_insert_eq|]. split; [|split; reflexivity].
  intros l' Hne. now apply lookup_insert_neq.
Qed.

(* ================================================================== 5. non-vacuity *)
(* the premises are satisfiable by non-trivial programs, and the boundary distances behave as stated *)
Ltac hist_ok_tac :=
  split; [repeat constructor; cbn; unfold B32; try reflexivity; try lia|reflexivity].
Ltac bank_tac := unfold in_one_bank; vm_compute; repeat split; intro; discriminate.

Definition BRA (l : lbl) : op := OIns E2L [128; 255] l TNone GNone.
Definition JMP (l : lbl) : op := OIns E3L [76; 255; 255] l TNone GNone.
Definition NOPs (k : nat) : op := OEmitBytes (repeat 234 k).
Definition target64k : option (list Z) := Some (repeat 0 1000).
Definition fin_of (ops : list op) : list Z * fres :=
  let ef := fst (run ops (new_em target64k false)) in
  let '(e', res) := Finalize (keys (d8 ef)) (keys (d16 ef)) ef in (Bytes e', res).

(* forward branch at distance exactly +127, backward branch at exactly -128, a jump, two references to one
   label, base $C08000: Finalize succeeds and stores 7F / 80 / the low 16 bits of the label *)
Definition ex_ok : list op :=
  [OSetBase 12615680; OLabel 1%N; BRA 2%N; NOPs 124; BRA 1%N (* -128 *); NOPs 1; OLabel 2%N (* +127 from the first BRA *);
   JMP 1%N; BRA 2%N (* -5 *); JMP 3%N; OLabel 3%N].
Example ex_ok_premises : hist_ok ex_ok /\ in_one_bank (assemble ex_ok) /\
  snd (run ex_ok (new_em target64k false)) = repeat false 11.
Proof. split; [hist_ok_tac|split; [bank_tac|vm_compute; reflexivity]]. Qed.
Example ex_ok_result :
  snd (fin_of ex_ok) = FOk /\
  znth (fst (fin_of ex_ok)) 1 = 127 /\            (* forward +127 *)
  znth (fst (fin_of ex_ok)) 127 = 128 /\          (* backward -128 = $80 *)
  slice (fst (fin_of ex_ok)) 130 132 = [0; 128] /\ (* jmp $8000 (low 16 bits of $C08000), little endian *)
  znth (fst (fin_of ex_ok)) 133 = 251 /\          (* second reference to label 2: -5 *)
  slice (fst (fin_of ex_ok)) 135 137 = [137; 128].  (* jmp $8089 *)
Proof. vm_compute. repeat split; reflexivity. Qed.

(* one byte further in either direction: refused, naming the branch *)
Definition ex_far_fwd : list op := [OSetBase 32768; BRA 1%N; NOPs 128; OLabel 1%N].
Definition ex_far_bwd : list op := [OSetBase 32768; OLabel 1%N; NOPs 127; BRA 1%N].
Definition ex_missing : list op := [OSetBase 32768; BRA 1%N; JMP 2%N; OLabel 1%N].
Example ex_far_fwd_result : hist_ok ex_far_fwd /\ snd (fin_of ex_far_fwd) = FTooFar 32770 32898.
Proof. split; [hist_ok_tac|vm_compute; reflexivity]. Qed.
Example ex_far_bwd_result : hist_ok ex_far_bwd /\ snd (fin_of ex_far_bwd) = FTooFar 32897 32768.
Proof. split; [hist_ok_tac|vm_compute; reflexivity]. Qed.
Example ex_missing_result : hist_ok ex_missing /\ snd (fin_of ex_missing) = FUnresolved 2%N /\
  slice (fst (fin_of ex_missing)) 0 5 = [128; 3; 76; 255; 255].   (* the resolved branch is patched, the jump is not *)
Proof. split; [hist_ok_tac|vm_compute; split; reflexivity]. Qed.

(* a second Label of the same name is refused and the state stays as it was *)
Example ex_redefinition :
  let e := fst (run [OSetBase 32768; OLabel 1%N; BRA 1%N] (new_em target64k true)) in
  exec (OLabel 1%N) e = Refused e.
Proof. vm_compute. reflexivity. Qed.
