(* C01 refinement lemmas, family K (immediate operands; see C01Imm.v) *)
From Coq Require Import ZArith NArith List Bool Lia.
From Spec Require Import ISA Spec816.
From Lib Require Import ZOps Machine.
From Snapshot Require Import GenFields GenCpu65.
From Props Require Import C01Base C01Flow C01Imm.
Local Open Scope Z_scope.
Arguments Z.modulo : simpl never.
Arguments Z.lor : simpl never.
Arguments Z.land : simpl never.
Arguments Z.shiftl : simpl never.
Arguments Z.shiftr : simpl never.

Lemma ref_C9 : refines_op 201. Proof. imm_op Step_imm6 ImmM 201 op_cmp CMP. Qed.
Lemma ref_E0 : refines_op 224. Proof. imm_op Step_imm7 ImmX 224 op_cpx CPX. Qed.
Lemma ref_C0 : refines_op 192. Proof. imm_op Step_imm7 ImmX 192 op_cpy CPY. Qed.
