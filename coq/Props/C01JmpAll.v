(* C01, control-flow and block-move family assembled: every opcode of [jmp_opcodes] refines the
   specification (for the integration into C01Props.v: [proved_opcodes ++ jmp_opcodes]).

   snapshot_dep: (none: only the lemmas of C01JmpA..F are used) *)
From Coq Require Import ZArith NArith List Bool Lia.
From Spec Require Import ISA Spec816.
From Lib Require Import ZOps Machine.
From Snapshot Require Import GenFields GenCpu65.
From Props Require Import C01Base C01JmpA C01JmpB C01JmpC C01JmpD C01JmpE C01JmpF.
Import ListNotations.
Local Open Scope Z_scope.
Arguments Z.modulo : simpl never.
Arguments Z.lor : simpl never.
Arguments Z.land : simpl never.
Arguments Z.shiftl : simpl never.
Arguments Z.shiftr : simpl never.

(* JMP abs, (abs), (abs,X); JML long, [abs]; BRL; WDM; JSR abs, (abs,X); JSL; RTS; RTL; RTI; BRK; COP; MVN; MVP *)
Definition jmp_opcodes : list Z := [76; 108; 124; 92; 220; 130; 66; 32; 252; 34; 96; 107; 64; 0; 2; 84; 68].

Theorem C01_step_jmp : forall op, In op jmp_opcodes -> refines_op op.
Proof.
  intros op Hin. cbv [jmp_opcodes In] in Hin.
  repeat (destruct Hin as [<- | Hin];
          [ first [ exact ref_4C | exact ref_6C | exact ref_7C | exact ref_5C | exact ref_DC | exact ref_82 | exact ref_42
                  | exact ref_20 | exact ref_FC | exact ref_22 | exact ref_60 | exact ref_6B
                  | exact ref_40 | exact ref_00 | exact ref_02 | exact ref_54 | exact ref_44 ] |]).
  contradiction.
Qed.
