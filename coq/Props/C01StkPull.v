(* C01 refinement lemmas, stack family, pulls: PLA PLX PLY PLB PLD (see C01StkBase.v)

   snapshot_dep: op_pla, op_plx, op_ply, op_plb, op_pld, pull, pull16, setZN8, setZN16, tbl_proc, tbl_size, tbl_mode *)
From Coq Require Import ZArith NArith List Bool Lia.
From Spec Require Import ISA Spec816.
From Lib Require Import ZOps Machine.
From Snapshot Require Import GenFields GenCpu65.
From Props Require Import C01Base C01Flow C01Imm C01StkBase.
Import ListNotations.
Local Open Scope Z_scope.
Arguments Z.modulo : simpl never.
Arguments Z.lor : simpl never.
Arguments Z.land : simpl never.
Arguments Z.shiftl : simpl never.
Arguments Z.shiftr : simpl never.

Ltac pull_side s s1 Hs1 HE := rewrite (same_get s s1 f_E Hs1 eq_refl); exact HE.


Ltac pull_run s s1 Hs1 :=
  repeat first [ progress gs_fast
               | progress to_initial s s1 Hs1
               | match goal with |- context [w_or (shl16 ?h 8) ?l] =>
                   rewrite (join16 h l) by first [ assumption | (apply Z.mod_pos_bound; lia) | lia ] end
               | rewrite setZN8_ok by rng8
               | rewrite setZN16_ok by rng16
               | rewrite bind_Ok; cbv beta zeta ].

Ltac pull_fin s W Hop s1 Hs1 Hsz mn md :=
  apply refines_finish; unfold advance, pulled;
  [ unfold abs at 1; gs_fast; try rewrite Hsz; to_initial s s1 Hs1;
    spec_side s W Hop mn md; spec_evalS; rw_hyps; lits; spec_evalS; rewrite ?ite_eqb1;
    unify_mem_addrs s; gen_bytes s;
    try reflexivity; f_equal; field_goal
  | intro a; gs_fast; gs_normw; to_initial s s1 Hs1; spec_side s W Hop mn md; spec_evalS; rw_hyps; lits; spec_evalS;
    reflexivity
  | constructor; unfold flag01; gs_fast; try rewrite Hsz; to_initial s s1 Hs1; rw_hyps;
    first [ apply W | rng8 | rng16 | (left; reflexivity) | (right; reflexivity)
          | match goal with |- (if ?c then 1 else 0) = 0 \/ _ => destruct c; [right | left]; reflexivity end ] ].

Ltac pull_op op routine mn :=
  start_imp op; cbv beta zeta delta [routine b2z];
  match goal with W : wf ?s, HE : get f_E ?s = 0, Hop : opcode_at ?s = _, Hs1 : same ?s ?s1, Hsz : get f_stepPC ?s1 = _ |- _ =>
    by_flags s W s1 Hs1 HE; pose_ranges s W;
    first [ rewrite pull16_ok by pull_side s s1 Hs1 HE | rewrite pull_ok by pull_side s s1 Hs1 HE ];
    pull_run s s1 Hs1;
    pull_fin s W Hop s1 Hs1 Hsz mn Imp
  end.

Lemma ref_68 : refines_op 104. Proof. pull_op 104 op_pla PLA. Qed.
Lemma ref_FA : refines_op 250. Proof. pull_op 250 op_plx PLX. Qed.
Lemma ref_7A : refines_op 122. Proof. pull_op 122 op_ply PLY. Qed.
Lemma ref_AB : refines_op 171. Proof. pull_op 171 op_plb PLB. Qed.
Lemma ref_2B : refines_op 43. Proof. pull_op 43 op_pld PLD. Qed.

