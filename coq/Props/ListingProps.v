(* Props/ListingProps.v -- property C15: listings reproduce exactly the emitted bytes.

   Theorems over histories [runX fx] of Model/EmitterExt.v with listing generation on and every data block
   fitting, for the REPAIRED listing routines ([chunk_own fx = true]: every 16-byte chunk record carries its
   own length; [label_flush fx = true]: Label flushes the base latch) -- and refutations, by computation on
   the model of the code as it stands ([today]), of the same statements: [C15_refuted_chunks],
   [C15_refuted_label_base].  Which variant describes the tree under test is decided by the tie on every run.

   Structure
     1. the abstract listing [spec_lines]: one record per accepted line-producing call, in call order; a data
        block is listed in 16-byte records ([chunks]).
     2. [C15_lines]: the line records of any reachable state, plus the base record still latched, ARE the
        abstract listing (labels / comments / base lines at their issue positions; addresses; lengths).
     3. state invariant [LInv]: code records tile [base, base+n) in order, every record lies inside the emitted
        bytes, data records spell the bytes that sit in the buffer, no operand of a label reference lies
        inside a data record.
     4. [RenderOK]: both listings are total, every instruction / data record shows its address and exactly
        its bytes of Bytes(), the byte slices of the hex listing concatenate to Bytes()
        -> [C15_listing] (before Finalize), [C15_after_finalize] (after Finalize, any orders, any outcome). *)
From Coq Require Import ZArith NArith List Bool Lia Sorted.
From Lib Require Import ZList.
From Model Require Import Emitter EmitterTie EmitterExt.
From Props Require Import FinalizeProps.
Import ListNotations.
Local Open Scope Z_scope.

(* ------------------------------------------------------------------ 1. the abstract listing *)
Definition is_code (k : kind) : bool :=
  match k with KBase | KComment | KLabel => false | _ => true end.

(* a data block starting at address [a], listed 16 bytes per record; [fuel] >= number of bytes *)
Fixpoint chunks (fuel : nat) (a : Z) (bs : list Z) : list line :=
  match fuel with
  | O => []
  | S f =>
      match bs with
      | [] => []
      | _ => mkLine KDB a (zlen (ztake 16 bs)) nolbl (ztake 16 bs) :: chunks f (a + 16) (zdrop 16 bs)
      end
  end.
Definition data_lines (a : Z) (bs : list Z) : list line := chunks (length bs) a bs.

(* records of one accepted call issued at address [pc] *)
Definition lstep (o : op) (pc : Z) : list line :=
  match o with
  | OSetBase a => [mkLine KBase a 0 nolbl []]
  | OIns k d l _ _ => [mkLine (ins_kind k) pc (ins_len k) (if is_label_kind k then l else nolbl) []]
  | OEmitBytes bs => data_lines pc bs
  | OComment id => [mkLine KComment pc 0 id []]
  | OLabel l => [mkLine KLabel pc 0 l []]
  | _ => []
  end.
Definition pc_after (o : op) (pc : Z) : Z :=
  match o with
  | OSetBase a => a
  | OIns _ d _ _ _ => pc + zlen d
  | OEmitBytes bs => pc + zlen bs
  | _ => pc
  end.
Fixpoint spec_lines (pc : Z) (ops : list op) : list line :=
  match ops with
  | [] => []
  | o :: r => lstep o pc ++ spec_lines (pc_after o pc) r
  end.

(* the base record the emitter still holds back (emitted with the next line) *)
Definition pending (e : em) : list line :=
  if baseSet e then [mkLine KBase (address e) 0 nolbl []] else [].

(* ---- the chunk loop of EmitBytes is the 16-byte chunking *)
Lemma land15 : forall i, 0 <= i -> Z.land i 15 = i mod 16.
Proof. intros i H. change 15 with (Z.ones 4). rewrite Z.land_ones by lia. reflexivity. Qed.

Lemma chunks_nil : forall fuel a, chunks fuel a [] = [].
Proof. destruct fuel; reflexivity. Qed.

Lemma db_loopX_chunks : forall bs a0 blen i cur caddr acc fuel,
  0 <= a0 -> 0 <= i -> zlen cur = i mod 16 -> caddr = a0 + i - zlen cur ->
  a0 + i + zlen bs < B32 -> (length (cur ++ bs) <= fuel)%nat ->
  db_loopX true a0 blen i cur caddr bs acc = acc ++ chunks fuel caddr (cur ++ bs).
Proof.
  induction bs as [|v r IH]; intros a0 blen i cur caddr acc fuel Ha Hi Hc Hca Htop Hf.
  - cbn [db_loopX]. rewrite app_nil_r in *. destruct cur as [|c cs].
    + now rewrite chunks_nil, app_nil_r.
    + destruct fuel as [|f]; [simpl in Hf; lia|]. cbn [chunks].
      assert (Hlt : zlen (c :: cs) < 16) by (rewrite Hc; apply Z.mod_pos_bound; lia).
      rewrite ztake_all by lia. rewrite zdrop_all by lia. now rewrite chunks_nil.
  - cbn [db_loopX]. rewrite land15 by exact Hi. rewrite zlen_cons in Htop. pose proof (zlen_nonneg _ r) as Hr.
    pose proof (Z.mod_pos_bound i 16 ltac:(lia)) as Hm.
    destruct (i mod 16 =? 15) eqn:E.
    + apply Z.eqb_eq in E.
      assert (H16 : zlen (cur ++ [v]) = 16) by (rewrite zlen_app, Hc, E; reflexivity).
      replace (cur ++ v :: r) with ((cur ++ [v]) ++ r) in * by (rewrite <- app_assoc; reflexivity).
      destruct fuel as [|f]. { rewrite app_length in Hf. unfold zlen in H16. lia. }
      assert (Hf' : (length r <= f)%nat) by (rewrite app_length in Hf; unfold zlen in H16; lia).
      cbn [chunks]. destruct ((cur ++ [v]) ++ r) as [|x xs] eqn:Ex.
      { destruct cur; discriminate. }
      rewrite <- Ex. rewrite <- H16 at 1 2. rewrite ztake_app_exact. rewrite <- H16. rewrite zdrop_app_exact.
      rewrite w32_small by (unfold B32 in *; lia).
      rewrite (IH a0 blen (i + 1) [] (a0 + i + 1) _ f); try lia.
      * rewrite <- app_assoc. cbn [app]. rewrite H16. do 3 f_equal. lia.
      * rewrite zlen_nil. symmetry. rewrite <- Z.add_mod_idemp_l by lia. rewrite E. reflexivity.
      * rewrite zlen_nil. lia.
      * exact Hf'.
    + apply Z.eqb_neq in E.
      rewrite (IH a0 blen (i + 1) (cur ++ [v]) caddr acc fuel); try lia.
      * now rewrite <- app_assoc.
      * rewrite zlen_app. change (zlen [v]) with 1. rewrite Hc.
        rewrite <- (Z.add_mod_idemp_l i 1 16) by lia. rewrite (Z.mod_small (i mod 16 + 1)) by lia. reflexivity.
      * rewrite zlen_app. change (zlen [v]) with 1. lia.
      * now rewrite <- app_assoc.
Qed.

Lemma db_linesX_data_lines : forall a bs, 0 <= a -> a + zlen bs < B32 ->
  db_linesX true a bs = data_lines a bs.
Proof.
  intros a bs Ha Htop. unfold db_linesX, data_lines.
  rewrite (db_loopX_chunks bs a (zlen bs) 0 [] a [] (length bs)); try lia; try reflexivity.
  rewrite zlen_nil. lia.
Qed.

(* ------------------------------------------------------------------ tiling and per-record facts *)
(* code records laid end to end from [pc]: the address of each is where the previous one ended *)
Fixpoint code_tile (pc : Z) (ls : list line) : option Z :=
  match ls with
  | [] => Some pc
  | ln :: r => if laddr ln =? pc then code_tile (pc + lcount ln) r else None
  end.
Definition codelines (e : em) : list line := filter (fun ln => is_code (lk ln)) (lines e).

Lemma code_tile_app : forall l1 l2 pc,
  code_tile pc (l1 ++ l2) = match code_tile pc l1 with Some p => code_tile p l2 | None => None end.
Proof.
  induction l1 as [|ln r IH]; intros l2 pc; simpl; [reflexivity|]. destruct (laddr ln =? pc); [apply IH|reflexivity].
Qed.

Definition kind_len (k : kind) : Z :=
  match k with KIns1 => 1 | KIns2 | KIns2L => 2 | KIns3 | KIns3L => 3 | KIns4 => 4 | _ => 0 end.

(* what is known of every record of a data block *)
Definition chunk_ok (a : Z) (bs : list Z) (ln : line) : Prop :=
  lk ln = KDB /\ llabel ln = nolbl /\ 0 < lcount ln /\ lcount ln <= 16 /\ lcount ln = zlen (ldata ln) /\
  a <= laddr ln /\ laddr ln + lcount ln <= a + zlen bs /\
  ldata ln = slice bs (laddr ln - a) (laddr ln - a + lcount ln).

Lemma zlen_ztake16 : forall bs : list Z, bs <> [] -> 0 < zlen (ztake 16 bs) <= 16 /\ zlen (ztake 16 bs) <= zlen bs.
Proof.
  intros bs Hne. rewrite zlen_ztake by lia. pose proof (zlen_nonneg _ bs).
  assert (zlen bs <> 0) by (intros E; apply zlen_0_nil in E; contradiction). lia.
Qed.

Lemma chunks_ok : forall fuel a bs, (length bs <= fuel)%nat -> Forall (chunk_ok a bs) (chunks fuel a bs).
Proof.
  induction fuel as [|f IH]; intros a bs Hf; [constructor|].
  cbn [chunks]. destruct bs as [|b0 bt] eqn:Eb; [constructor|]. rewrite <- Eb in *.
  assert (Hne : bs <> []) by (rewrite Eb; discriminate).
  destruct (zlen_ztake16 bs Hne) as [[H1 H2] H3]. pose proof (zlen_nonneg _ bs) as Hn.
  constructor.
  - unfold chunk_ok. cbn [lk llabel lcount ldata laddr]. repeat split; try lia.
    replace (a - a) with 0 by lia. unfold slice. rewrite zdrop_nonpos by lia. rewrite zlen_ztake by lia.
    destruct (Z_le_gt_dec (zlen bs) 16); [rewrite !ztake_all by lia; reflexivity|f_equal; lia].
  - destruct (Z_le_gt_dec (zlen bs) 16) as [Hle|Hgt].
    + rewrite zdrop_all by lia. rewrite chunks_nil. constructor.
    + assert (Hz : zlen (zdrop 16 bs) = zlen bs - 16) by (rewrite zlen_zdrop by lia; lia).
      assert (Hf' : (length (zdrop 16 bs) <= f)%nat).
      { unfold zlen in Hz. unfold zlen in Hgt. lia. }
      specialize (IH (a + 16) (zdrop 16 bs) Hf'). rewrite Forall_forall in IH |- *.
      intros ln Hin. destruct (IH ln Hin) as (K1 & K2 & K3 & K4 & K5 & K6 & K7 & K8).
      unfold chunk_ok. repeat split; try assumption; try lia.
      rewrite K8. rewrite slice_zdrop by lia. f_equal; lia.
Qed.

Lemma chunks_tile : forall fuel a bs, (length bs <= fuel)%nat -> code_tile a (chunks fuel a bs) = Some (a + zlen bs).
Proof.
  induction fuel as [|f IH]; intros a bs Hf.
  - destruct bs; [simpl; rewrite zlen_nil; f_equal; lia|simpl in Hf; lia].
  - cbn [chunks]. destruct bs as [|b0 bt] eqn:Eb; [simpl; rewrite zlen_nil; f_equal; lia|]. rewrite <- Eb in *.
    assert (Hne : bs <> []) by (rewrite Eb; discriminate).
    destruct (zlen_ztake16 bs Hne) as [[H1 H2] H3]. pose proof (zlen_nonneg _ bs) as Hn.
    cbn [code_tile laddr lcount]. rewrite Z.eqb_refl.
    destruct (Z_le_gt_dec (zlen bs) 16) as [Hle|Hgt].
    + rewrite zdrop_all by lia. rewrite chunks_nil. simpl. rewrite ztake_all by lia. reflexivity.
    + assert (Hz : zlen (zdrop 16 bs) = zlen bs - 16) by (rewrite zlen_zdrop by lia; lia).
      assert (Hf' : (length (zdrop 16 bs) <= f)%nat).
      { unfold zlen in Hz. unfold zlen in Hgt. lia. }
      rewrite zlen_ztake by lia. rewrite Z.min_l by lia. rewrite (IH (a + 16) (zdrop 16 bs) Hf'). f_equal. lia.
Qed.

Lemma chunks_all_code : forall fuel a bs,
  filter (fun ln => is_code (lk ln)) (chunks fuel a bs) = chunks fuel a bs.
Proof.
  induction fuel as [|f IH]; intros a bs; [reflexivity|]. cbn [chunks]. destruct bs; [reflexivity|].
  cbn [filter lk is_code]. now rewrite IH.
Qed.

(* ------------------------------------------------------------------ what each call does to the records *)
Lemma emitBase_gen : forall e, gen e = true ->
  lines (emitBase e) = lines e ++ pending e /\ baseSet (emitBase e) = false /\ gen (emitBase e) = true /\
  address (emitBase e) = address e.
Proof.
  intros e Hg. unfold emitBase, pending. rewrite Hg. destruct (baseSet e) eqn:Eb; cbn.
  - repeat split; assumption.
  - rewrite app_nil_r. repeat split; assumption.
Qed.

(* the records an accepted call appends (after the latched base record, if any) *)
Definition new_lines (fx : fixes) (o : op) (pc : Z) : list line :=
  match o with
  | OIns k d l _ _ => [mkLine (ins_kind k) pc (ins_len k) (if is_label_kind k then l else nolbl) []]
  | OEmitBytes bs => db_linesX (chunk_own fx) pc bs
  | OComment id => [mkLine KComment pc 0 id []]
  | OLabel l => [mkLine KLabel pc 0 l []]
  | _ => []
  end.
Definition produces (o : op) : bool :=
  match o with OIns _ _ _ _ _ | OEmitBytes _ | OComment _ | OLabel _ => true | _ => false end.

Lemma execX_lines : forall fx o e, gen e = true -> label_flush fx = true ->
  match execX fx o e with
  | Done e' =>
      gen e' = true /\
      (if produces o
       then lines e' = lines e ++ pending e ++ new_lines fx o (address e) /\ baseSet e' = false
       else lines e' = lines e /\
            match o with
            | OSetBase a => baseSet e' = true /\ address e' = a
            | _ => baseSet e' = baseSet e /\ address e' = address e
            end)
  | Refused e' =>
      gen e' = true /\
      ((forall bs, o <> OEmitBytes bs) -> lines e' = lines e /\ baseSet e' = baseSet e /\ address e' = address e)
  end.
Proof.
  intros fx o e Hg Hfl. destruct o as [a|c|c|k d l t g|bs|id|l]; cbn [execX exec produces new_lines].
  - cbn. repeat split; assumption.
  - cbn. repeat split; assumption.
  - cbn. repeat split; assumption.
  - destruct (guard_ok g e); [|split; [exact Hg|intros _; repeat split]].
    assert (Hg0 : gen (apply_track t e) = true) by (destruct t; exact Hg).
    assert (Hl0 : lines (apply_track t e) = lines e) by (destruct t; reflexivity).
    assert (Hb0 : baseSet (apply_track t e) = baseSet e) by (destruct t; reflexivity).
    assert (Ha0 : address (apply_track t e) = address e) by (destruct t; reflexivity).
    unfold emitK. destruct (write d (apply_track t e)) as [e1|] eqn:Ew.
    + apply write_spec in Ew. destruct Ew as (_ & _ & Ha & _ & _ & _ & Hg1 & Hl1 & Hb1 & _).
      rewrite Hg1, Hg0. destruct (emitBase_gen e1) as (L & B & G & A); [congruence|].
      assert (Hp : pending e1 = pending e) by (unfold pending; now rewrite Hb1, Ha, Hb0, Ha0).
      destruct k; cbn; rewrite ?L, ?B, ?G, ?A, ?Hl1, ?Hl0, ?Ha, ?Ha0, ?Hp, <- ?app_assoc; repeat split; reflexivity.
    + split; [exact Hg0|]. intros _. repeat split; assumption.
  - unfold EmitBytesX. rewrite Hg. destruct (emitBase_gen e Hg) as (L & B & G & A).
    set (e1 := add_lines _ (emitBase e)).
    assert (G1 : gen e1 = true) by exact G.
    destruct (write bs e1) as [e2|] eqn:Ew.
    + apply write_spec in Ew. destruct Ew as (_ & _ & Ha & _ & _ & _ & Hg2 & Hl2 & Hb2 & _).
      cbn. rewrite Hg2, Hl2, Hb2. unfold e1. cbn. rewrite L, B, A, <- app_assoc. repeat split; assumption.
    + split; [exact G1|]. intros Hne. exfalso. now apply (Hne bs).
  - unfold Comment. rewrite Hg. destruct (emitBase_gen e Hg) as (L & B & G & A).
    cbn. rewrite L, B, A, G, <- app_assoc. repeat split.
  - unfold LabelX. destruct (lookup l (labels e)); [split; [exact Hg|intros _; repeat split]|].
    cbn [gen set_labels]. rewrite Hg, Hfl.
    set (e1 := set_labels _ e).
    destruct (emitBase_gen e1 Hg) as (L & B & G & A).
    cbn. rewrite L, B, A, G. unfold e1, pending. cbn. rewrite <- app_assoc. repeat split.
Qed.

(* ------------------------------------------------------------------ 3. the listing invariant *)
Definition B24 : Z := 16777216.

(* what a record promises about the state it is rendered from *)
Definition line_ok (e : em) (ln : line) : Prop :=
  match lk ln with
  | KBase => 0 <= laddr ln < B24
  | KComment | KLabel => True
  | KDB => base e <= laddr ln /\ 0 < lcount ln /\ laddr ln + lcount ln <= base e + n e /\
           lcount ln = zlen (ldata ln) /\
           slice (code e) (laddr ln - base e) (laddr ln - base e + lcount ln) = ldata ln
  | k => base e <= laddr ln /\ laddr ln + lcount ln <= base e + n e /\ lcount ln = kind_len k
  end.

Record LInv (e : em) : Prop := mkLInv {
  li_gen : gen e = true;
  li_latch : baseSet e = true -> n e = 0;           (* a latched base line: nothing emitted yet *)
  li_ok : Forall (line_ok e) (lines e);
  li_tile : code_tile (base e) (codelines e) = Some (base e + n e) }.

(* no operand of a label reference lies inside a data record *)
Definition DBC (e : em) : Prop :=
  forall ln, In ln (lines e) -> lk ln = KDB ->
  forall p, operand_pos e p -> p < laddr ln - base e \/ laddr ln - base e + lcount ln <= p.

Lemma line_ok_ext : forall e e' ln, base e' = base e -> n e <= n e' ->
  (forall x y, 0 <= x -> y <= n e -> slice (code e') x y = slice (code e) x y) ->
  line_ok e ln -> line_ok e' ln.
Proof.
  intros e e' ln Hb Hn Hs H. unfold line_ok in *. rewrite Hb.
  destruct (lk ln); try exact H; try (destruct H as (H1 & H2 & H3); repeat split; lia).
  destruct H as (H1 & H2 & H3 & H4 & H5). repeat split; try lia. rewrite Hs by lia. exact H5.
Qed.

Lemma slice_splice_below : forall (b d : list Z) k x y, 0 <= k -> 0 <= x -> y <= k -> k <= zlen b ->
  slice (splice b k d) x y = slice b x y.
Proof.
  intros b d k x y Hk0 Hx Hy Hk. unfold splice.
  rewrite slice_app_l by (try lia; rewrite zlen_ztake by lia; lia). apply slice_ztake; lia.
Qed.

Lemma slice_splice_inside : forall (b d : list Z) k u v, 0 <= k -> k <= zlen b -> 0 <= u -> v <= zlen d ->
  slice (splice b k d) (k + u) (k + v) = slice d u v.
Proof.
  intros b d k u v Hk Hkb Hu Hv. unfold splice.
  assert (Ht : zlen (ztake k b) = k) by (rewrite zlen_ztake by lia; lia).
  rewrite slice_app_r by lia. rewrite Ht.
  replace (k + u - k) with u by lia. replace (k + v - k) with v by lia.
  apply slice_app_l; lia.
Qed.

Lemma kind_len_ins : forall k, kind_len (ins_kind k) = ins_len k.
Proof. destruct k; reflexivity. Qed.
Lemma is_code_ins : forall k, is_code (ins_kind k) = true.
Proof. destruct k; reflexivity. Qed.

(* without emitted bytes there is no code record *)
Lemma no_code_when_empty : forall e ln, n e = 0 -> line_ok e ln -> is_code (lk ln) = false.
Proof.
  intros e ln Hn H. unfold line_ok in H. destruct (lk ln) eqn:Ek; try reflexivity; exfalso;
    try (destruct H as (H1 & H2 & H3); rewrite H3 in H2; cbn in H2; lia).
  destruct H as (H1 & H2 & H3 & _). lia.
Qed.

Lemma filter_none : forall (f : line -> bool) ls, (forall ln, In ln ls -> f ln = false) -> filter f ls = [].
Proof.
  intros f ls. induction ls as [|x r IH]; intros H; [reflexivity|]. simpl. rewrite (H x (or_introl eq_refl)).
  apply IH. intros ln Hi. apply H. now right.
Qed.

Lemma pending_not_code : forall e, filter (fun ln => is_code (lk ln)) (pending e) = [].
Proof. intros e. unfold pending. destruct (baseSet e); reflexivity. Qed.

(* positions of operands lie inside the emitted bytes *)
Lemma operand_pos_bound : forall e p, WF e -> operand_pos e p -> 0 <= p < n e.
Proof.
  intros e p W [(l & r & Hr & ->)|(l & r & Hr & [->| ->])].
  - apply (wf_r8 _ W) in Hr. lia.
  - apply (wf_r16 _ W) in Hr. lia.
  - apply (wf_r16 _ W) in Hr. lia.
Qed.

Lemma LInv_flags : forall v e, LInv e -> LInv (set_flags v e).
Proof. intros v e [H1 H2 H3 H4]. constructor; assumption. Qed.
Lemma DBC_flags : forall v e, DBC e -> DBC (set_flags v e).
Proof. intros v e H. exact H. Qed.
Lemma LInv_track : forall t e, LInv e -> LInv (apply_track t e).
Proof. intros [|c|c] e H; [exact H|now apply LInv_flags|now apply LInv_flags]. Qed.
Lemma DBC_track : forall t e, DBC e -> DBC (apply_track t e).
Proof. intros [|c|c] e H; exact H. Qed.

(* appending records after the buffer grew (or stayed): the invariant is kept *)
Lemma LInv_append : forall e e' newl,
  LInv e -> base e' = base e -> n e <= n e' ->
  (forall x y, 0 <= x -> y <= n e -> slice (code e') x y = slice (code e) x y) ->
  gen e' = true -> baseSet e' = false -> lines e' = lines e ++ pending e ++ newl ->
  (baseSet e = true -> 0 <= address e < B24) ->
  Forall (line_ok e') newl ->
  code_tile (base e + n e) (filter (fun ln => is_code (lk ln)) newl) = Some (base e + n e') ->
  LInv e'.
Proof.
  intros e e' newl [G La Ok Ti] Hb Hn Hs Hg Hbs Hl Hpa Hnew Htile.
  constructor.
  - exact Hg.
  - rewrite Hbs. discriminate.
  - rewrite Hl. apply Forall_app. split; [|apply Forall_app; split; [|exact Hnew]].
    + rewrite Forall_forall in Ok |- *. intros ln Hi. apply (line_ok_ext e e'); auto.
    + unfold pending. destruct (baseSet e); [|constructor]. constructor; [|constructor].
      unfold line_ok. cbn. now apply Hpa.
  - unfold codelines in *. rewrite Hl, !filter_app, pending_not_code. cbn [app].
    rewrite code_tile_app, Hb, Ti. exact Htile.
Qed.

Lemma DBC_append : forall e e' newl,
  DBC e -> LInv e -> base e' = base e -> lines e' = lines e ++ pending e ++ newl ->
  (forall p, operand_pos e' p ->
     (operand_pos e p /\ p < n e) \/ (n e <= p /\ forall ln, In ln newl -> lk ln <> KDB)) ->
  (forall ln, In ln newl -> lk ln = KDB -> base e + n e <= laddr ln) ->
  DBC e'.
Proof.
  intros e e' newl D [G La Ok Ti] Hb Hl Hpos Hnew ln Hin Hk p Hp. rewrite Hb.
  rewrite Hl in Hin. apply in_app_or in Hin. destruct Hin as [Hin|Hin].
  - destruct (Hpos p Hp) as [[Hold _]|[Hge _]]; [now apply (D ln Hin Hk p)|].
    rewrite Forall_forall in Ok. specialize (Ok ln Hin). unfold line_ok in Ok. rewrite Hk in Ok.
    destruct Ok as (O1 & O2 & O3 & _). right. lia.
  - apply in_app_or in Hin. destruct Hin as [Hin|Hin].
    + unfold pending in Hin. destruct (baseSet e); [|destruct Hin].
      destruct Hin as [<-|[]]. discriminate.
    + destruct (Hpos p Hp) as [[_ Hlt]|[_ Hno]]; [|exfalso; now apply (Hno ln Hin)].
      specialize (Hnew ln Hin Hk). left. lia.
Qed.

(* operand positions after one accepted call *)
Lemma operand_pos_step : forall o s e e',
  Rel s e -> AInv s -> buf e <> None -> Rel (astep o s) e' -> base e' = base e ->
  (forall a, o <> OSetBase a) ->
  forall p, operand_pos e' p ->
    (operand_pos e p /\ p < n e) \/ (n e <= p /\ exists k d l t g, o = OIns k d l t g /\ is_label_kind k = true).
Proof.
  intros o s e e' HR HA Hnn HR' Hb Hnsb p Hp.
  pose proof (Rel_WF s e HR HA Hnn) as W.
  assert (Hn : a_pc s = base e + n e).
  { pose proof (R_base _ _ HR) as B. pose proof (R_buf _ _ HR) as Bu. destruct (buf e); [|congruence].
    unfold a_pc. lia. }
  assert (Hold : forall q, operand_pos e q -> operand_pos e q /\ q < n e).
  { intros q Hq. split; [exact Hq|]. now apply (operand_pos_bound e q W). }
  destruct Hp as [(l & r & Hr & ->)|(l & r & Hr & Hpr)].
  - apply (Rel_is_ref8 _ _ l r HR') in Hr. rewrite Hb.
    assert (Hcase : In (l, r) (a_r8 s) \/ (r = a_pc s + 1 /\ exists k d l t g, o = OIns k d l t g /\ is_label_kind k = true)).
    { destruct o as [a|c|c|k d l0 t g|bs|id|l0]; cbn in Hr; try (now left).
      destruct k; try (now left). apply in_app_or in Hr. destruct Hr as [Hr|[Hr|[]]]; [now left|].
      inversion Hr; subst. right. split; [reflexivity|]. now exists E2L, d, l, t, g. }
    destruct Hcase as [Hc|[-> Hc]].
    + left. apply Hold. left. exists l, r. split; [|reflexivity]. now apply (Rel_is_ref8 s e l r HR).
    + right. split; [lia|exact Hc].
  - apply (Rel_is_ref16 _ _ l r HR') in Hr. rewrite Hb in Hpr.
    assert (Hcase : In (l, r) (a_r16 s) \/ (r = a_pc s + 1 /\ exists k d l t g, o = OIns k d l t g /\ is_label_kind k = true)).
    { destruct o as [a|c|c|k d l0 t g|bs|id|l0]; cbn in Hr; try (now left).
      destruct k; try (now left). apply in_app_or in Hr. destruct Hr as [Hr|[Hr|[]]]; [now left|].
      inversion Hr; subst. right. split; [reflexivity|]. now exists E3L, d, l, t, g. }
    destruct Hcase as [Hc|[-> Hc]].
    + left. apply Hold. right. exists l, r. split; [|exact Hpr]. now apply (Rel_is_ref16 s e l r HR).
    + right. split; [lia|exact Hc].
Qed.

Definition op_ok24 (o : op) : Prop := match o with OSetBase a => 0 <= a < B24 | _ => True end.

Lemma pending_addr_ok : forall s e, Rel s e -> LInv e -> buf e <> None -> a_base s < B24 ->
  baseSet e = true -> 0 <= address e < B24.
Proof.
  intros s e HR LI Hnn Hb24 Hbs. pose proof (li_latch _ LI Hbs) as Hn0.
  pose proof (R_addr _ _ HR) as A. pose proof (R_base0 _ _ HR) as B0. pose proof (R_buf _ _ HR) as Bu.
  destruct (buf e); [|congruence]. unfold a_pc in A. lia.
Qed.

Lemma Rel_n : forall s e, Rel s e -> buf e <> None ->
  a_pc s = base e + n e /\ 0 <= n e /\ n e <= zlen (code e) /\ buf e = Some (code e) /\ address e = base e + n e.
Proof.
  intros s e HR Hnn. pose proof (R_base _ _ HR) as B. pose proof (R_buf _ _ HR) as Bu.
  pose proof (R_addr _ _ HR) as A. unfold code. destruct (buf e) as [b|]; [|congruence].
  pose proof (zlen_nonneg _ (a_img s)). unfold a_pc in *. repeat split; try lia. 
Qed.

(* one call: the invariant is kept and the records (with the latched base record) grow by the abstract
   records of the call *)
Lemma execX_listing : forall fx o s e,
  chunk_own fx = true -> label_flush fx = true ->
  Rel s e -> AInv s -> buf e <> None -> a_base s < B24 -> op_ok o -> op_ok24 o ->
  (match o with OSetBase _ => fresh s /\ baseSet e = false | _ => True end) ->
  LInv e -> DBC e ->
  match execX fx o e with
  | Done e' => Rel (astep o s) e' ->
      LInv e' /\ DBC e' /\ lines e' ++ pending e' = (lines e ++ pending e) ++ lstep o (a_pc s)
  | Refused e' => (forall bs, o <> OEmitBytes bs) ->
      LInv e' /\ DBC e' /\ lines e' ++ pending e' = lines e ++ pending e
  end.
Proof.
  intros fx o s e Hown Hfl HR HA Hnn Hb24 Hok Hok24 Hfr LI D.
  pose proof (execX_lines fx o e (li_gen _ LI) Hfl) as HL.
  destruct (Rel_n s e HR Hnn) as (Hpc & Hn0 & Hncap & Hbuf & Haddr).
  pose proof (pending_addr_ok s e HR LI Hnn Hb24) as Hpa.
  destruct (execX fx o e) as [e'|e'] eqn:Eex.
  2:{ (* refused: only the tracked flags can have changed *)
    intros Hnd. destruct HL as (Hg' & HL). destruct (HL Hnd) as (Hl & Hbs & Ha).
    assert (Hsame : (LInv e' /\ DBC e')).
    { destruct o as [a|c|c|k d l t g|bs|id|l]; cbn [execX exec] in Eex; try discriminate.
      - destruct (guard_ok g e); [|inversion Eex; subst; now split].
        destruct (emitK k d l (apply_track t e)) eqn:Ek; [discriminate|]. inversion Eex; subst.
        apply emitK_refused in Ek. subst. split; [now apply LInv_track|now apply DBC_track].
      - exfalso. now apply (Hnd bs).
      - unfold LabelX in Eex. destruct (lookup l (labels e)); [|discriminate]. inversion Eex; subst. now split. }
    destruct Hsame as [L' D']. split; [exact L'|]. split; [exact D'|].
    unfold pending. now rewrite Hl, Hbs, Ha. }
  intros HR'. destruct HL as (Hg' & HL).
  destruct o as [a|c|c|k d l t g|bs|id|l]; cbn [produces new_lines lstep] in HL |- *.
  - (* SetBase: nothing emitted, no reference recorded, no base record latched *)
    destruct HL as (Hl & Hbs & Ha). destruct Hfr as ((Hi & H8 & H16) & Hbs0).
    cbn [execX exec] in Eex. inversion Eex; subst e'. clear Eex.
    assert (Hnz : n e = 0).
    { pose proof (R_buf _ _ HR) as Bu. destruct (buf e); [|congruence]. rewrite Hi, zlen_nil in Bu. lia. }
    assert (Hnc : forall ln, In ln (lines e) -> is_code (lk ln) = false).
    { intros ln Hi0. apply (no_code_when_empty e ln Hnz). pose proof (li_ok _ LI) as Ok.
      rewrite Forall_forall in Ok. now apply Ok. }
    split; [|split].
    + constructor; cbn.
      * apply (li_gen _ LI).
      * intros _. exact Hnz.
      * pose proof (li_ok _ LI) as Ok. rewrite Forall_forall in Ok |- *. intros ln Hi0.
        specialize (Ok ln Hi0). specialize (Hnc ln Hi0). unfold line_ok in *.
        destruct (lk ln); try exact Ok; discriminate.
      * unfold codelines. cbn. rewrite (filter_none _ _ Hnc). cbn. rewrite Hnz. f_equal. lia.
    + intros ln Hi0 Hk. specialize (Hnc ln Hi0). rewrite Hk in Hnc. discriminate.
    + unfold pending. cbn. rewrite Hbs0. now rewrite app_nil_r.
  - destruct HL as (Hl & Hbs & Ha). cbn [execX exec] in Eex. inversion Eex; subst e'.
    split; [now apply LInv_flags|]. split; [exact D|]. now rewrite app_nil_r.
  - destruct HL as (Hl & Hbs & Ha). cbn [execX exec] in Eex. inversion Eex; subst e'.
    split; [now apply LInv_flags|]. split; [exact D|]. now rewrite app_nil_r.
  - (* an instruction *)
    destruct HL as (Hl & Hbs). cbn [execX exec] in Eex.
    destruct (guard_ok g e); [|discriminate].
    pose proof (emitK_done k d l (apply_track t e) e' Eex) as (Hst & Hb & _).
    assert (Hb' : base e' = base e) by (rewrite Hb; now destruct t).
    assert (Hst' : stored d e e').
    { unfold stored in *. now destruct t. }
    unfold stored in Hst'. rewrite Hbuf in Hst'. destruct Hst' as (Hfit & Hbuf' & Hn').
    assert (Hcode' : code e' = splice (code e) (n e) d) by (unfold code at 1; now rewrite Hbuf').
    simpl in Hok. pose proof (zlen_nonneg _ d) as Hd.
    split; [|split].
    + eapply (LInv_append e e'); [exact LI|exact Hb'|lia| |exact Hg'|exact Hbs|exact Hl|exact Hpa| | ].
      * intros x y Hx Hy. rewrite Hcode'. apply slice_splice_below; lia.
      * constructor; [|constructor]. unfold line_ok. cbn [lk laddr lcount].
        assert (K : base e' <= address e /\ address e + ins_len k <= base e' + n e' /\ ins_len k = kind_len (ins_kind k)).
        { rewrite kind_len_ins. lia. }
        destruct k; exact K.
      * cbn [filter lk]. rewrite is_code_ins. cbn [code_tile laddr lcount].
        rewrite Haddr, Z.eqb_refl. f_equal. lia.
    + apply (DBC_append e e' _ D LI Hb' Hl).
      * intros p Hp. destruct (operand_pos_step _ s e e' HR HA Hnn HR' Hb') with (p := p) as [Hc|[Hge _]];
          [discriminate|exact Hp|now left|].
        right. split; [exact Hge|]. intros ln [<-|[]]. destruct k; discriminate.
      * intros ln [<-|[]] Hk. destruct k; discriminate.
    + unfold pending at 1. rewrite Hbs, Hl, app_nil_r, Haddr, Hpc. now rewrite app_assoc.
  - (* a data block *)
    destruct HL as (Hl & Hbs). cbn [execX] in Eex.
    pose proof (EmitBytesX_done fx bs e e' Eex) as (Hst & Hb' & _).
    unfold stored in Hst. rewrite Hbuf in Hst. destruct Hst as (Hfit & Hbuf' & Hn').
    assert (Hcode' : code e' = splice (code e) (n e) bs) by (unfold code at 1; now rewrite Hbuf').
    pose proof (zlen_nonneg _ bs) as Hd.
    assert (Htop' : address e + zlen bs < B32).
    { pose proof (R_top _ _ HR') as T. unfold a_pc in T. cbn in T. rewrite zlen_app in T.
      unfold a_pc in Hpc. lia. }
    pose proof (R_base0 _ _ HR) as B0. pose proof (R_base _ _ HR) as Bb.
    rewrite Hown in Hl. rewrite db_linesX_data_lines in Hl by lia.
    pose proof (chunks_ok (length bs) (address e) bs (le_n _)) as Hck. fold (data_lines (address e) bs) in Hck.
    rewrite Forall_forall in Hck.
    split; [|split].
    + eapply (LInv_append e e'); [exact LI|exact Hb'|lia| |exact Hg'|exact Hbs|exact Hl|exact Hpa| | ].
      * intros x y Hx Hy. rewrite Hcode'. apply slice_splice_below; lia.
      * rewrite Forall_forall. intros ln Hi. destruct (Hck ln Hi) as (K1 & K2 & K3 & K4 & K5 & K6 & K7 & K8).
        unfold line_ok. rewrite K1, Hb'. repeat split; try lia.
        rewrite Hcode', K8.
        replace (laddr ln - base e) with (n e + (laddr ln - address e)) by lia.
        replace (n e + (laddr ln - address e) + lcount ln) with (n e + (laddr ln - address e + lcount ln)) by lia.
        apply slice_splice_inside; lia.
      * unfold data_lines. rewrite chunks_all_code. rewrite <- Haddr. rewrite chunks_tile by apply le_n.
        f_equal. lia.
    + apply (DBC_append e e' _ D LI Hb' Hl).
      * intros p Hp. destruct (operand_pos_step _ s e e' HR HA Hnn HR' Hb') with (p := p) as [Hc|[_ Hc]];
          [discriminate|exact Hp|now left|].
        destruct Hc as (k & d & l & t & g & Hc & _). discriminate.
      * intros ln Hi Hk. destruct (Hck ln Hi) as (_ & _ & _ & _ & _ & K6 & _). lia.
    + unfold pending at 1. rewrite Hbs, Hl, app_nil_r, Haddr, Hpc. now rewrite app_assoc.
  - (* a comment *)
    destruct HL as (Hl & Hbs). cbn [execX exec] in Eex. inversion Eex; subst e'. clear Eex.
    destruct (core_Comment id e) as (Cb & Cn & Cba & Ca & Cl & C8 & C16).
    set (e' := Comment id e) in *.
    assert (Hcode' : code e' = code e) by (unfold code; now rewrite <- Cb).
    split; [|split].
    + eapply (LInv_append e e'); [exact LI|congruence|lia| |exact Hg'|exact Hbs|exact Hl|exact Hpa| | ].
      * intros x y _ _. now rewrite Hcode'.
      * constructor; [exact I|constructor].
      * cbn. f_equal. lia.
    + apply (DBC_append e e' _ D LI (eq_sym Cba) Hl).
      * intros p Hp. left. split.
        -- unfold operand_pos, is_ref8, is_ref16 in *. now rewrite <- C8, <- C16, <- Cba in Hp.
        -- pose proof (Rel_WF s e HR HA Hnn) as W. apply (operand_pos_bound e p W).
           unfold operand_pos, is_ref8, is_ref16 in *. now rewrite <- C8, <- C16, <- Cba in Hp.
      * intros ln [<-|[]] Hk. discriminate.
    + unfold pending at 1. rewrite Hbs, Hl, app_nil_r, Haddr, Hpc. now rewrite app_assoc.
  - (* a label *)
    destruct HL as (Hl & Hbs). cbn [execX] in Eex.
    destruct (lookup l (labels e)) as [a|] eqn:El.
    { rewrite (LabelX_refused fx l e a El) in Eex. discriminate. }
    destruct (LabelX_done fx l e El) as (e2 & E2 & Cb & Cn & Cba & Ca & Cl & C8 & C16).
    rewrite E2 in Eex. inversion Eex; subst e2. clear Eex.
    assert (Hcode' : code e' = code e) by (unfold code; now rewrite Cb).
    split; [|split].
    + eapply (LInv_append e e'); [exact LI|congruence|lia| |exact Hg'|exact Hbs|exact Hl|exact Hpa| | ].
      * intros x y _ _. now rewrite Hcode'.
      * constructor; [exact I|constructor].
      * cbn. f_equal. lia.
    + apply (DBC_append e e' _ D LI Cba Hl).
      * intros p Hp. left. split.
        -- unfold operand_pos, is_ref8, is_ref16 in *. now rewrite C8, C16, Cba in Hp.
        -- pose proof (Rel_WF s e HR HA Hnn) as W. apply (operand_pos_bound e p W).
           unfold operand_pos, is_ref8, is_ref16 in *. now rewrite C8, C16, Cba in Hp.
      * intros ln [<-|[]] Hk. discriminate.
    + unfold pending at 1. rewrite Hbs, Hl, app_nil_r, Haddr, Hpc. now rewrite app_assoc.
Qed.

(* ------------------------------------------------------------------ histories *)
Definition is_data (o : op) : bool := match o with OEmitBytes _ => true | _ => false end.
(* "everything fitting": no data block was refused for lack of space (a refused EmitBytes has already
   appended its records: that is property C19's subject, not this one's) *)
Fixpoint data_fit (ops : list op) (rl : list bool) : bool :=
  match ops, rl with
  | o :: r, b :: rb => negb (b && is_data o) && data_fit r rb
  | _, _ => true
  end.

Lemma pc_after_astep : forall o s, (match o with OSetBase _ => fresh s | _ => True end) ->
  pc_after o (a_pc s) = a_pc (astep o s).
Proof.
  intros o s Hf. destruct o as [a|c|c|k d l t g|bs|id|l]; unfold a_pc; cbn; rewrite ?zlen_app; try lia.
  destruct Hf as (Hi & _). rewrite Hi, zlen_nil. lia.
Qed.

Lemma run_listing : forall ops fx s e seen emitted ef rl,
  chunk_own fx = true -> label_flush fx = true ->
  Rel s e -> AInv s -> buf e <> None -> a_base s < B24 ->
  (emitted = false -> fresh s) -> (seen = false -> baseSet e = false) ->
  Forall op_ok ops -> Forall op_ok24 ops -> base_once seen emitted ops = true ->
  LInv e -> DBC e ->
  runX fx ops e = (ef, rl) -> data_fit ops rl = true ->
  a_pc (assemble_from s (accepted ops rl)) < B32 ->
  LInv ef /\ DBC ef /\
  lines ef ++ pending ef = (lines e ++ pending e) ++ spec_lines (a_pc s) (accepted ops rl).
Proof.
  induction ops as [|o r IH];
    intros fx s e seen emitted ef rl Hown Hfl HR HA Hnn Hb24 Hph Hsn Hok Hok24 Hb LI D Hrun Hfit Htop.
  - simpl in Hrun. inversion Hrun; subst. simpl. rewrite app_nil_r. auto.
  - rewrite runX_cons in Hrun. inversion Hrun as [[Ef Erl]]. clear Hrun.
    inversion Hok as [|o' r' Hoko Hokr]; subst o' r'.
    inversion Hok24 as [|o' r' Hoko24 Hokr24]; subst o' r'.
    destruct (base_once_cons _ _ _ _ Hb) as [Hb' Hsb].
    set (res := execX fx o e) in *.
    remember (snd (runX fx r (state_of res))) as rl' eqn:Erl'.
    assert (Hrun' : runX fx r (state_of res) = (fst (runX fx r (state_of res)), rl')).
    { rewrite Erl'. now destruct (runX fx r (state_of res)). }
    assert (Hfr : match o with OSetBase _ => fresh s | _ => True end).
    { destruct o; try exact I. apply Hph. now apply Hsb. }
    assert (Hfr2 : match o with OSetBase _ => fresh s /\ baseSet e = false | _ => True end).
    { destruct o; try exact I. split; [exact Hfr|]. apply Hsn.
      simpl in Hb. apply andb_true_iff in Hb. destruct Hb as [Hb1 _]. apply andb_true_iff in Hb1.
      destruct Hb1 as [Hb1 _]. now destruct seen. }
    pose proof (execX_rel fx o s e HR Hoko Hfr) as Hstep. fold res in Hstep.
    pose proof (execX_listing fx o s e Hown Hfl HR HA Hnn Hb24 Hoko Hoko24 Hfr2 LI D) as Hlst. fold res in Hlst.
    pose proof (execX_lines fx o e (li_gen _ LI) Hfl) as HL. fold res in HL.
    pose proof (execX_buf fx o e Hnn) as Hnn'. fold res in Hnn'.
    subst rl. cbn [data_fit] in Hfit. apply andb_true_iff in Hfit. destruct Hfit as [Hfit0 Hfit].
    destruct res as [e1|e1] eqn:Eres; cbn [is_refused accepted state_of] in *.
    + (* accepted *)
      change (assemble_from s (o :: accepted r rl')) with (assemble_from (astep o s) (accepted r rl')) in *.
      pose proof (step_top o r s rl' seen emitted (R_base0 _ _ HR) (R_top _ _ HR) Hoko Hfr Hb' Htop) as Hpc1.
      specialize (Hstep Hpc1). destruct (Hlst Hstep) as (LI1 & D1 & Hl1). destruct HL as (Hg1 & HL).
      assert (Hb24' : a_base (astep o s) < B24).
      { destruct o; cbn; try exact Hb24. cbn in Hoko24. lia. }
      assert (Hsn' : seen || is_sb o = false -> baseSet e1 = false).
      { intros Hs. apply orb_false_iff in Hs. destruct Hs as [Hs1 Hs2]. specialize (Hsn Hs1).
        destruct (produces o) eqn:Ep; [now destruct HL|]. destruct HL as (_ & HL).
        destruct o; try discriminate; destruct HL; congruence. }
      rewrite ?Ef.
      destruct (IH fx (astep o s) e1 (seen || is_sb o) (emitted || emits o) ef rl') as (LIf & Df & Hlf);
        try assumption.
      * apply AInv_step; assumption.
      * intros Hem. apply orb_false_iff in Hem. destruct Hem as [Hem1 Hem2].
        apply astep_fresh; [exact Hem2|]. now apply Hph.
      * rewrite Hrun'. now rewrite Ef.
      * split; [exact LIf|]. split; [exact Df|]. rewrite Hlf, Hl1. cbn [spec_lines].
        rewrite (pc_after_astep o s Hfr). now rewrite <- !app_assoc.
    + (* refused *)
      assert (Hnd : forall bs, o <> OEmitBytes bs).
      { intros bs ->. cbn in Hfit0. discriminate. }
      destruct (Hlst Hnd) as (LI1 & D1 & Hl1). destruct HL as (Hg1 & HL). destruct (HL Hnd) as (_ & Hbs1 & _).
      rewrite ?Ef.
      destruct (IH fx s e1 (seen || is_sb o) (emitted || emits o) ef rl') as (LIf & Df & Hlf); try assumption.
      * intros Hem. apply orb_false_iff in Hem. destruct Hem as [Hem1 Hem2]. now apply Hph.
      * intros Hs. apply orb_false_iff in Hs. destruct Hs as [Hs1 Hs2]. rewrite Hbs1. now apply Hsn.
      * rewrite Hrun'. now rewrite Ef.
      * split; [exact LIf|]. split; [exact Df|]. now rewrite Hlf, Hl1.
Qed.

(* ------------------------------------------------------------------ 4. rendering *)
(* the bytes of Bytes() a code record covers *)
Definition line_bytes (e : em) (ln : line) : list Z :=
  slice (Bytes e) (laddr ln - base e) (laddr ln - base e + lcount ln).
Definition shown_label (ln : line) : lbl :=
  match lk ln with KComment | KLabel | KIns2L | KIns3L => llabel ln | _ => nolbl end.
(* what WriteHexTo shows for a record: instruction and data records show exactly their bytes *)
Definition hex_expected (e : em) (ln : line) : rline :=
  mkR (lk ln) (match lk ln with KBase => laddr ln | _ => 0 end)
      (if is_code (lk ln) then line_bytes e ln else []) (shown_label ln) false.
(* what WriteTextTo shows: the address of the first byte and exactly the bytes (the "undefined label"
   marker is whatever the maps say: not constrained by this property) *)
Definition text_expected (e : em) (ln : line) : rline :=
  mkR (lk ln) (match lk ln with KComment | KLabel => 0 | _ => laddr ln end)
      (if is_code (lk ln) then line_bytes e ln else []) (shown_label ln)
      (match lk ln with KIns2L => has (llabel ln) (d8 e) | KIns3L => has (llabel ln) (d16 e) | _ => false end).

Definition RenderOK (e : em) : Prop :=
  WriteHexTo e = (map (hex_expected e) (lines e), false) /\        (* total; record by record *)
  WriteTextTo e = (map (text_expected e) (lines e), false) /\
  concat (map (line_bytes e) (codelines e)) = Bytes e /\           (* the hex bytes, in order, are Bytes() *)
  code_tile (base e) (codelines e) = Some (base e + n e).          (* each record starts where the last ended *)

Lemma render_loop_map : forall (f : line -> option rline) (g : line -> rline) ls,
  (forall ln, In ln ls -> f ln = Some (g ln)) -> render_loop f ls = (map g ls, false).
Proof.
  intros f g ls. induction ls as [|ln r IH]; intros H; [reflexivity|]. cbn [render_loop map].
  rewrite (H ln (or_introl eq_refl)). rewrite IH by (intros x Hx; apply H; now right). reflexivity.
Qed.

Lemma x06_small : forall a, 0 <= a < B24 -> x06 a = a.
Proof. intros a H. unfold x06. apply Z.mod_small. exact H. Qed.

Lemma code_slice_ok : forall e la cnt, bufok e -> 0 <= base e -> base e + n e <= B24 ->
  base e <= la -> 0 <= cnt -> la + cnt <= base e + n e ->
  code_slice e la cnt = Some (slice (Bytes e) (la - base e) (la - base e + cnt)).
Proof.
  intros e la cnt Hb Hb0 Htop Hla Hc Hend. destruct (bufok_code _ Hb) as [Hbuf Hn].
  pose proof (zlen_nonneg _ (code e)). unfold code_slice.
  rewrite (w32_small (la - base e)) by (unfold B32, B24 in *; lia).
  rewrite (w32_small (la - base e + cnt)) by (unfold B32, B24 in *; lia).
  destruct ((la - base e <=? la - base e + cnt) && (la - base e + cnt <=? zlen (code e))) eqn:E.
  - f_equal. unfold Bytes. symmetry. apply slice_ztake; lia.
  - apply andb_false_iff in E. destruct E as [E|E]; apply Z.leb_gt in E; lia.
Qed.

Lemma render_line_ok : forall e ln, bufok e -> 0 <= base e -> base e + n e <= B24 -> line_ok e ln ->
  hex_line e ln = Some (hex_expected e ln) /\ text_line e ln = Some (text_expected e ln).
Proof.
  intros e ln Hb Hb0 Htop Hok. destruct (bufok_code _ Hb) as [Hbuf Hn].
  unfold hex_line, text_line, hex_expected, text_expected, shown_label, line_bytes, line_ok in *.
  destruct (lk ln) eqn:Ek; cbn [is_code];
    try (destruct Hok as (H1 & H2 & H3); cbn [kind_len] in H3;
         rewrite (code_slice_ok e (laddr ln) _ Hb Hb0 Htop H1) by lia; cbn [option_map];
         rewrite x06_small by (unfold B24 in *; lia); rewrite H3; split; reflexivity).
  - rewrite x06_small by exact Hok. split; reflexivity.
  - destruct Hok as (H1 & H2 & H3 & H4 & H5).
    rewrite (w32_small (lcount ln)) by (unfold B32, B24 in *; lia).
    rewrite (code_slice_ok e (laddr ln) (lcount ln) Hb Hb0 Htop H1) by lia. cbn [option_map].
    rewrite x06_small by (unfold B24 in *; lia). split; [reflexivity|].
    do 2 f_equal. rewrite <- H5. unfold Bytes. symmetry. apply slice_ztake; lia.
  - split; reflexivity.
  - split; reflexivity.
Qed.

Lemma tile_concat : forall ls pc pend (img : list Z) b,
  code_tile pc ls = Some pend -> b <= pc -> (forall ln, In ln ls -> 0 <= lcount ln) ->
  concat (map (fun ln => slice img (laddr ln - b) (laddr ln - b + lcount ln)) ls) = slice img (pc - b) (pend - b) /\
  pc <= pend.
Proof.
  induction ls as [|ln r IH]; intros pc pend img b Ht Hb Hc.
  - simpl in Ht. inversion Ht; subst. simpl. split; [|lia]. symmetry. apply slice_empty. lia.
  - simpl in Ht. destruct (laddr ln =? pc) eqn:E; [|discriminate]. apply Z.eqb_eq in E.
    pose proof (Hc ln (or_introl eq_refl)) as Hc0.
    destruct (IH (pc + lcount ln) pend img b Ht) as [IH1 IH2]; [lia|intros x Hx; apply Hc; now right|].
    cbn [map concat]. rewrite IH1, E. split; [|lia].
    replace (pc + lcount ln - b) with (pc - b + lcount ln) by lia. apply slice_adj; lia.
Qed.

Lemma codelines_count : forall e ln, Forall (line_ok e) (lines e) -> In ln (codelines e) -> 0 <= lcount ln.
Proof.
  intros e ln Ok Hi. unfold codelines in Hi. apply filter_In in Hi. destruct Hi as [Hi Hc].
  rewrite Forall_forall in Ok. specialize (Ok ln Hi). unfold line_ok in Ok.
  destruct (lk ln); try discriminate; try (destruct Ok as (_ & _ & Ok); rewrite Ok; cbn; lia).
  destruct Ok as (_ & Ok & _). lia.
Qed.

Lemma LInv_render : forall e, LInv e -> bufok e -> 0 <= base e -> base e + n e <= B24 -> RenderOK e.
Proof.
  intros e [G La Ok Ti] Hb Hb0 Htop. destruct (bufok_code _ Hb) as [Hbuf Hn].
  assert (Hr : forall ln, In ln (lines e) ->
     hex_line e ln = Some (hex_expected e ln) /\ text_line e ln = Some (text_expected e ln)).
  { intros ln Hi. apply render_line_ok; try assumption. rewrite Forall_forall in Ok. now apply Ok. }
  unfold RenderOK, WriteHexTo, WriteTextTo. split; [|split; [|split]].
  - apply render_loop_map. intros ln Hi. apply (Hr ln Hi).
  - apply render_loop_map. intros ln Hi. apply (Hr ln Hi).
  - destruct (tile_concat (codelines e) (base e) (base e + n e) (Bytes e) (base e) Ti) as [Hc _]; [lia| |].
    { intros ln Hi. now apply (codelines_count e). }
    unfold line_bytes. rewrite Hc. replace (base e - base e) with 0 by lia.
    replace (base e + n e - base e) with (n e) by lia.
    assert (Hz : zlen (Bytes e) = n e).
    { unfold Bytes. pose proof (zlen_nonneg _ (code e)).
      assert (0 <= n e). { destruct (tile_concat (codelines e) (base e) (base e + n e) [] (base e) Ti); try lia.
                           intros ln Hi. now apply (codelines_count e). }
      rewrite zlen_ztake by lia. lia. }
    rewrite <- Hz. apply slice_full.
  - exact Ti.
Qed.

(* ---- Finalize keeps the listing invariant: it only rewrites operand bytes, none inside a data record *)
Lemma slice_ext_znth : forall (l1 l2 : list Z) x y, zlen l1 = zlen l2 -> 0 <= x -> y <= zlen l1 ->
  (forall p, x <= p < y -> znth l1 p = znth l2 p) -> slice l1 x y = slice l2 x y.
Proof.
  intros l1 l2 x y Hz Hx Hy Hp. destruct (Z_le_gt_dec y x) as [Hle|Hgt].
  { now rewrite !slice_empty by lia. }
  apply (nth_ext _ _ 0 0).
  - assert (E1 : zlen (slice l1 x y) = y - x) by (apply zlen_slice; lia).
    assert (E2 : zlen (slice l2 x y) = y - x) by (apply zlen_slice; lia).
    unfold zlen in E1, E2. lia.
  - intros k Hk.
    assert (E1 : zlen (slice l1 x y) = y - x) by (apply zlen_slice; lia).
    assert (Hk' : Z.of_nat k < y - x) by (unfold zlen in E1; lia).
    assert (Hn : forall l : list Z, nth k l 0 = znth l (Z.of_nat k)).
    { intros l. unfold znth. destruct (Z.of_nat k <? 0) eqn:E; [apply Z.ltb_lt in E; lia|]. now rewrite Nat2Z.id. }
    rewrite !Hn. rewrite !znth_slice by lia. apply Hp. lia.
Qed.

Lemma LInv_finalize : forall e e' res, LInv e -> DBC e -> bufok e -> 0 <= base e ->
  finalize_post e e' res -> LInv e' /\ lines e' = lines e /\ pending e' = pending e.
Proof.
  intros e e' res [G La Ok Ti] D Hb Hb0 (F & Hb' & Hz & Hfr & _).
  destruct F as (Ff & Fg & Fn & Fl & Fb & Fbs & Fa & Flab).
  destruct (bufok_code _ Hb) as [Hbuf Hn].
  split; [|split; [exact Fl|unfold pending; now rewrite Fbs, Fa]].
  constructor.
  - congruence.
  - rewrite Fbs, Fn. exact La.
  - rewrite Fl. rewrite Forall_forall in Ok |- *. intros ln Hi. specialize (Ok ln Hi).
    unfold line_ok in *. rewrite Fb, Fn. destruct (lk ln) eqn:Ek; try exact Ok.
    destruct Ok as (H1 & H2 & H3 & H4 & H5). repeat split; try assumption.
    rewrite <- H5. apply slice_ext_znth; try lia.
    intros p Hp. apply Hfr. intros Hop. destruct (D ln Hi Ek p Hop); lia.
  - unfold codelines in *. rewrite Fl, Fb, Fn. exact Ti.
Qed.

(* ================================================================== the C15 theorems *)
Lemma LInv_init : forall b, LInv (new_em (Some b) true) /\ DBC (new_em (Some b) true).
Proof.
  intros b. split.
  - constructor; cbn; try reflexivity; try discriminate; constructor.
  - intros ln [].
Qed.

Lemma in_one_bank_B24 : forall s, in_one_bank s -> a_pc s <= B24.
Proof.
  intros s [[H0 H1] H2]. unfold B24.
  assert (a_base s / 65536 < 256) by (apply Z.div_lt_upper_bound; lia). nia.
Qed.

Definition listing_premises (fx : fixes) (ops : list op) (b : list Z) (ef : em) (rl : list bool) : Prop :=
  hist_ok ops /\ Forall op_ok24 ops /\                      (* base: 24-bit, at most once, before the first emission *)
  runX fx ops (new_em (Some b) true) = (ef, rl) /\          (* listing generation on, a real target *)
  data_fit ops rl = true /\                                 (* every data block fitted *)
  in_one_bank (assemble (accepted ops rl)).                 (* the program lies inside one bank *)

(* BEFORE Finalize.  The records (plus a base record still latched) are the abstract listing of the accepted
   calls -- labels, comments and base directives at their issue positions, every instruction / data record at
   base + offset with its own length -- and both renderings are total and show exactly the bytes of Bytes(). *)
Theorem C15_listing : forall fx ops b ef rl,
  chunk_own fx = true -> label_flush fx = true -> listing_premises fx ops b ef rl ->
  lines ef ++ pending ef = spec_lines 0 (accepted ops rl) /\ RenderOK ef /\ LInv ef /\ DBC ef.
Proof.
  intros fx ops b ef rl Hown Hfl ((Hok & Hbo) & Hok24 & Hrun & Hfit & Hbank).
  destruct (LInv_init b) as [LI0 D0].
  pose proof (in_one_bank_B32 _ Hbank) as [_ Htop].
  destruct (run_listing ops fx a_init (new_em (Some b) true) false false ef rl) as (LI & D & Hl); try assumption.
  - apply Rel_init.
  - apply AInv_init.
  - discriminate.
  - unfold B24. cbn. lia.
  - intros _. repeat split.
  - intros _. reflexivity.
  - destruct (C06_history fx ops (Some b) true ef rl (conj Hok Hbo) Hrun Hbank) as [HR HA].
    assert (Hnn : buf ef <> None).
    { replace ef with (fst (runX fx ops (new_em (Some b) true))) by now rewrite Hrun. apply runX_buf. discriminate. }
    pose proof (Rel_WF _ _ HR HA Hnn) as W.
    split; [exact Hl|]. split; [|split; [exact LI|exact D]].
    apply LInv_render; [exact LI|apply (wf_buf _ W)|apply (wf_base _ W)|].
    destruct (Rel_n _ _ HR Hnn) as (Hpc & _). rewrite <- Hpc. now apply in_one_bank_B24.
Qed.

(* AFTER Finalize, for every pair of visiting orders and whatever the outcome: same records, and both renderings
   are total and show exactly the bytes Bytes() holds now *)
Theorem C15_after_finalize : forall fx ops b ef rl o8 o16 e' res,
  chunk_own fx = true -> label_flush fx = true -> listing_premises fx ops b ef rl ->
  covers o8 (d8 ef) -> covers o16 (d16 ef) -> Finalize o8 o16 ef = (e', res) ->
  lines e' ++ pending e' = spec_lines 0 (accepted ops rl) /\ RenderOK e'.
Proof.
  intros fx ops b ef rl o8 o16 e' res Hown Hfl Hp C8 C16 Hf.
  destruct (C15_listing fx ops b ef rl Hown Hfl Hp) as (Hl & _ & LI & D).
  destruct Hp as (Hh & Hok24 & Hrun & Hfit & Hbank).
  pose proof (C06_reachable_WF fx ops b true ef rl Hh Hrun Hbank) as W.
  pose proof (finalize_spec o8 o16 ef e' res W C8 C16 Hf) as Hpost.
  destruct (LInv_finalize ef e' res LI D (wf_buf _ W) (wf_base _ W) Hpost) as (LI' & El & Ep).
  split; [now rewrite El, Ep|].
  destruct Hpost as (F & Hb' & _). destruct F as (_ & _ & Fn & _ & Fb & _).
  apply LInv_render; [exact LI'|exact Hb'|rewrite Fb; apply (wf_base _ W)|].
  rewrite Fb, Fn.
  destruct (C06_history fx ops (Some b) true ef rl Hh Hrun Hbank) as [HR _].
  destruct (Rel_n _ _ HR) as (Hpc & _).
  { destruct (wf_buf _ W) as (b0 & E & _). congruence. }
  rewrite <- Hpc. now apply in_one_bank_B24.
Qed.

(* the abstract listing tiles: what "carries base + offset of its first byte" means for the records themselves *)
Theorem C15_addresses : forall fx ops b ef rl,
  chunk_own fx = true -> label_flush fx = true -> listing_premises fx ops b ef rl ->
  code_tile (base ef) (filter (fun ln => is_code (lk ln)) (spec_lines 0 (accepted ops rl))) = Some (base ef + Len ef).
Proof.
  intros fx ops b ef rl Hown Hfl Hp. destruct (C15_listing fx ops b ef rl Hown Hfl Hp) as (Hl & (_ & _ & _ & Ti) & _).
  rewrite <- Hl, filter_app, pending_not_code, app_nil_r. exact Ti.
Qed.

(* ================================================================== refutations for the code as it stands *)
(* [today] = the model of the pinned tree (Emitter.run).  The same premises, the conclusions fail. *)
Ltac ok24_tac := repeat constructor; cbn; unfold B24; try lia.
Ltac premises_tac :=
  split; [hist_ok_tac|split; [ok24_tac|split; [vm_compute; reflexivity|split; [vm_compute; reflexivity|bank_tac]]]].

Definition w_data20 : list op := [OSetBase 32768; OEmitBytes (ziota 1 20)].
Definition w_data20_nop : list op := [OSetBase 32768; OEmitBytes (ziota 1 20); OIns E1 [234] nolbl TNone GNone].
Definition w_label : list op := [OSetBase 32768; OLabel 0%N; OIns E1 [234] nolbl TNone GNone].
Definition zeros (k : nat) : list Z := repeat 0 k.

(* (1) a data block of more than 16 bytes: every chunk record carries the length of the whole block, so the
   hex listing over-reads: it panics when the over-read leaves the buffer ... *)
Theorem C15_refuted_chunks :
  exists ef rl, listing_premises today w_data20 (zeros 20) ef rl /\ snd (WriteHexTo ef) = true.
Proof.
  exists (fst (runX today w_data20 (new_em (Some (zeros 20)) true))), [false; false].
  split; [premises_tac|vm_compute; reflexivity].
Qed.
(* ... and otherwise lists 20 + 20 bytes for the 21 that were emitted (the second record shows 4 data bytes, the
   following instruction and 15 bytes of untouched target) *)
Theorem C15_refuted_chunks_repeat :
  exists ef rl, listing_premises today w_data20_nop (zeros 64) ef rl /\
    snd (WriteHexTo ef) = false /\
    concat (map rbytes (filter (fun r => is_code (rk r)) (fst (WriteHexTo ef)))) <> Bytes ef /\
    zlen (concat (map rbytes (filter (fun r => is_code (rk r)) (fst (WriteHexTo ef))))) = 41 /\ Len ef = 21.
Proof.
  exists (fst (runX today w_data20_nop (new_em (Some (zeros 64)) true))), [false; false; false].
  split; [premises_tac|]. vm_compute. repeat split; try reflexivity. intros H. discriminate.
Qed.
(* (2) a Label right after SetBase is listed BEFORE the base line *)
Theorem C15_refuted_label_base :
  exists ef rl, listing_premises today w_label (zeros 8) ef rl /\
    lines ef ++ pending ef <> spec_lines 0 (accepted w_label rl) /\
    map lk (lines ef) = [KLabel; KBase; KIns1] /\ map lk (spec_lines 0 (accepted w_label rl)) = [KBase; KLabel; KIns1].
Proof.
  exists (fst (runX today w_label (new_em (Some (zeros 8)) true))), [false; false; false].
  split; [premises_tac|]. vm_compute. repeat split; try reflexivity. intros H. discriminate.
Qed.

(* ================================================================== non-vacuity for the repaired routines *)
(* the premises are satisfiable by a program with every kind of record: a comment before the base, a label and a
   comment right after SetBase, data blocks of 40, 16, 1 and 0 bytes, forward / backward references, a jump *)
Definition ex_listing : list op :=
  [OComment 7%N; OSetBase 12615680; OLabel 0%N; OComment 8%N; OEmitBytes (ziota 1 40);
   OIns E2L [128; 255] 1%N TNone GNone; OEmitBytes (ziota 100 16); OIns E3L [76; 255; 255] 0%N TNone GNone;
   OEmitBytes [9]; OEmitBytes []; OLabel 1%N; OIns E2L [208; 255] 0%N TNone GNone; OLabel 0%N (* refused *);
   OIns E4 [34; 1; 2; 3] nolbl TNone GNone].
Definition ex_ef : em := fst (runX repaired ex_listing (new_em (Some (zeros 80)) true)).
Definition ex_rl : list bool := [false; false; false; false; false; false; false; false; false; false; false; false; true; false].
Example ex_listing_premises : listing_premises repaired ex_listing (zeros 80) ex_ef ex_rl.
Proof. unfold ex_ef, ex_rl. premises_tac. Qed.
Example ex_listing_shape :
  map lk (lines ex_ef) =
    [KComment; KBase; KLabel; KComment; KDB; KDB; KDB; KIns2L; KDB; KIns3L; KDB; KLabel; KIns2L; KIns4] /\
  map lcount (codelines ex_ef) = [16; 16; 8; 2; 16; 3; 1; 2; 4] /\ Len ex_ef = 68 /\
  snd (WriteHexTo ex_ef) = false /\ snd (WriteTextTo ex_ef) = false /\
  (let e' := fst (Finalize (keys (d8 ex_ef)) (keys (d16 ex_ef)) ex_ef) in
   snd (Finalize (keys (d8 ex_ef)) (keys (d16 ex_ef)) ex_ef) = FOk /\
   concat (map rbytes (filter (fun r => is_code (rk r)) (fst (WriteHexTo e')))) = Bytes e' /\
   Bytes e' <> Bytes ex_ef).
Proof. vm_compute. repeat split; try reflexivity. intros H. discriminate. Qed.
(* the witnesses of the two defects, on the repaired routines *)
Example ex_repaired_witnesses :
  snd (WriteHexTo (fst (runX repaired w_data20 (new_em (Some (zeros 20)) true)))) = false /\
  map lk (lines (fst (runX repaired w_label (new_em (Some (zeros 8)) true)))) = [KBase; KLabel; KIns1].
Proof. vm_compute. split; reflexivity. Qed.
