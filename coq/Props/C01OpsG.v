(* C01 refinement lemmas, family G (accumulator-mode shifts and rotates) (see C01Base.v) *)
From Coq Require Import ZArith NArith List Bool Lia.
From Spec Require Import ISA Spec816.
From Lib Require Import ZOps Machine.
From Snapshot Require Import GenFields GenCpu65.
From Props Require Import C01Base C01Shift.
Local Open Scope Z_scope.
Arguments Z.modulo : simpl never.
Arguments Z.lor : simpl never.
Arguments Z.land : simpl never.
Arguments Z.shiftl : simpl never.
Arguments Z.shiftr : simpl never.

Lemma ref_4A : refines_op 74. Proof. reg_only_acc 74 op_lsr LSR. Qed.
Lemma ref_2A : refines_op 42. Proof. reg_only_acc 42 op_rol ROL. Qed.
