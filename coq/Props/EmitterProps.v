(* Props/EmitterProps.v -- theorems about Model/Emitter.v for
     C19 (all-or-nothing at capacity; dry-run emitters track addresses) and
     C16 (Clone + Append is equivalent to emitting directly).
   Everything is over ALL histories (induction over the op list), all capacities, all targets. *)
From Coq Require Import ZArith NArith List Bool Lia.
From Lib Require Import ZList.
From Model Require Import Emitter EmitterTie EmitterExt.
Import ListNotations.
Local Open Scope Z_scope.

(* ================================================================== maps *)
Section MapFacts.
  Context {A : Type}.
  Implicit Types (m a c : list (lbl * A)) (k j : lbl).

  Lemma lookup_insert_same : forall m k (v : A), lookup k (insert k v m) = Some v.
  Proof.
    induction m as [|[k' v'] r IH]; intros k v; cbn [insert lookup].
    - rewrite N.eqb_refl. reflexivity.
    - destruct (N.ltb k k') eqn:Hlt; cbn [lookup].
      + rewrite N.eqb_refl. reflexivity.
      + destruct (N.eqb k k') eqn:He; cbn [lookup].
        * rewrite N.eqb_refl. reflexivity.
        * rewrite He. apply IH.
  Qed.

  Lemma lookup_insert_other : forall m k j (v : A), j <> k -> lookup j (insert k v m) = lookup j m.
  Proof.
    induction m as [|[k' v'] r IH]; intros k j v Hne; cbn [insert lookup].
    - destruct (N.eqb j k) eqn:E; [apply N.eqb_eq in E; contradiction|reflexivity].
    - destruct (N.ltb k k') eqn:Hlt; cbn [lookup].
      + destruct (N.eqb j k) eqn:E; [apply N.eqb_eq in E; contradiction|reflexivity].
      + destruct (N.eqb k k') eqn:He; cbn [lookup].
        * apply N.eqb_eq in He. subst k'.
          destruct (N.eqb j k) eqn:E; [apply N.eqb_eq in E; contradiction|reflexivity].
        * destruct (N.eqb j k'); [reflexivity|]. apply IH. exact Hne.
  Qed.

  Lemma lookup_remove_same : forall m k, lookup k (remove k m) = None.
  Proof.
    induction m as [|[k' v'] r IH]; intros k; cbn [remove lookup]; [reflexivity|].
    destruct (N.eqb k k') eqn:E; [apply IH|]. cbn [lookup]. rewrite E. apply IH.
  Qed.

  Lemma lookup_remove_other : forall m k j, j <> k -> lookup j (remove k m) = lookup j m.
  Proof.
    induction m as [|[k' v'] r IH]; intros k j Hne; cbn [remove lookup]; [reflexivity|].
    destruct (N.eqb k k') eqn:E.
    - apply N.eqb_eq in E. subst k'.
      destruct (N.eqb j k) eqn:E2; [apply N.eqb_eq in E2; contradiction|]. apply IH. exact Hne.
    - cbn [lookup]. destruct (N.eqb j k'); [reflexivity|]. apply IH. exact Hne.
  Qed.

  Lemma lookup_none_notin : forall m k, lookup k m = None <-> ~ In k (keys m).
  Proof.
    induction m as [|[k' v'] r IH]; intros k; cbn [lookup keys map fst In].
    - split; [intros _ []|reflexivity].
    - destruct (N.eqb k k') eqn:E.
      + apply N.eqb_eq in E. subst k'. split; [discriminate|]. intros H. exfalso. apply H. left. reflexivity.
      + apply N.eqb_neq in E. rewrite IH. unfold keys. split.
        * intros H [H1|H1]; [congruence|contradiction].
        * intros H H1. apply H. right. exact H1.
  Qed.

  Lemma insert_keys : forall m k j (v : A), In j (keys (insert k v m)) <-> j = k \/ In j (keys m).
  Proof.
    induction m as [|[k' v'] r IH]; intros k j v; cbn [insert].
    - cbn. intuition congruence.
    - destruct (N.ltb k k') eqn:Hlt.
      + cbn. intuition congruence.
      + destruct (N.eqb k k') eqn:He.
        * apply N.eqb_eq in He. subst k'. cbn. intuition congruence.
        * cbn [keys map fst In]. fold (keys (insert k v r)). fold (keys r). rewrite IH. intuition congruence.
  Qed.

  (* canonical representation: keys strictly increasing *)
  Fixpoint sorted m : Prop :=
    match m with
    | [] => True
    | (k, _) :: r => (forall j, In j (keys r) -> (k < j)%N) /\ sorted r
    end.

  Lemma insert_sorted : forall m k (v : A), sorted m -> sorted (insert k v m).
  Proof.
    induction m as [|[k' v'] r IH]; intros k v Hs; cbn [insert].
    - cbn. split; [intros j []|exact I].
    - destruct Hs as [Hlt Hs]. destruct (N.ltb k k') eqn:E.
      + apply N.ltb_lt in E. cbn [sorted]. split.
        * intros j Hj. cbn [keys map fst In] in Hj. destruct Hj as [Hj|Hj]; [subst; exact E|].
          specialize (Hlt j Hj). lia.
        * split; assumption.
      + apply N.ltb_ge in E. destruct (N.eqb k k') eqn:He.
        * apply N.eqb_eq in He. subst k'. cbn [sorted]. split; assumption.
        * apply N.eqb_neq in He. cbn [sorted]. split.
          -- intros j Hj. apply insert_keys in Hj. destruct Hj as [Hj|Hj]; [subst j; lia|apply Hlt; exact Hj].
          -- apply IH. exact Hs.
  Qed.

  Lemma sorted_ext : forall m1 m2, sorted m1 -> sorted m2 ->
    (forall k, lookup k m1 = lookup k m2) -> m1 = m2.
  Proof.
    induction m1 as [|[k1 v1] r1 IH]; intros m2 Hs1 Hs2 Hext.
    - destruct m2 as [|[k2 v2] r2]; [reflexivity|].
      specialize (Hext k2). cbn [lookup] in Hext. rewrite N.eqb_refl in Hext. discriminate.
    - destruct m2 as [|[k2 v2] r2].
      + specialize (Hext k1). cbn [lookup] in Hext. rewrite N.eqb_refl in Hext. discriminate.
      + destruct Hs1 as [Hlt1 Hs1]. destruct Hs2 as [Hlt2 Hs2].
        assert (Hn1 : lookup k1 r1 = None).
        { apply lookup_none_notin. intros Hin. specialize (Hlt1 _ Hin). lia. }
        assert (Hn2 : lookup k2 r2 = None).
        { apply lookup_none_notin. intros Hin. specialize (Hlt2 _ Hin). lia. }
        assert (Hk : k1 = k2).
        { destruct (N.lt_trichotomy k1 k2) as [Hc|[Hc|Hc]]; [|exact Hc|].
          - pose proof (Hext k1) as H. cbn [lookup] in H. rewrite N.eqb_refl in H.
            destruct (N.eqb k1 k2) eqn:E; [apply N.eqb_eq in E; exact E|].
            exfalso. assert (Hnot : ~ In k1 (keys r2)). { intros Hin. specialize (Hlt2 _ Hin). lia. }
            apply lookup_none_notin in Hnot. congruence.
          - pose proof (Hext k2) as H. cbn [lookup] in H. rewrite N.eqb_refl in H.
            destruct (N.eqb k2 k1) eqn:E; [apply N.eqb_eq in E; symmetry; exact E|].
            exfalso. assert (Hnot : ~ In k2 (keys r1)). { intros Hin. specialize (Hlt1 _ Hin). lia. }
            apply lookup_none_notin in Hnot. congruence. }
        subst k2.
        pose proof (Hext k1) as Hv. cbn [lookup] in Hv. rewrite N.eqb_refl in Hv. inversion Hv; subst v2.
        f_equal. apply IH; try assumption.
        intros k. pose proof (Hext k) as H. cbn [lookup] in H.
        destruct (N.eqb k k1) eqn:E; [|exact H].
        apply N.eqb_eq in E. subst k. congruence.
  Qed.

  Lemma merge_sorted : forall c a, sorted a -> sorted (merge a c).
  Proof.
    unfold merge. induction c as [|[k v] r IH]; intros a Hs; cbn [fold_left]; [exact Hs|].
    apply IH. apply insert_sorted. exact Hs.
  Qed.

  Lemma lookup_merge : forall c a k, sorted c ->
    lookup k (merge a c) = match lookup k c with Some v => Some v | None => lookup k a end.
  Proof.
    unfold merge. induction c as [|[k1 v1] r IH]; intros a k Hs; cbn [fold_left lookup]; [reflexivity|].
    destruct Hs as [Hlt Hs]. rewrite IH by exact Hs. cbn [fst snd].
    destruct (N.eqb k k1) eqn:E.
    - apply N.eqb_eq in E. subst k1.
      assert (Hn : lookup k r = None). { apply lookup_none_notin. intros Hin. specialize (Hlt _ Hin). lia. }
      rewrite Hn. apply lookup_insert_same.
    - apply N.eqb_neq in E. rewrite lookup_insert_other by exact E. reflexivity.
  Qed.

  (* a map that already contains every key of [a] absorbs it *)
  Lemma merge_absorb : forall a c, sorted a -> sorted c ->
    (forall k, In k (keys a) -> In k (keys c)) -> merge a c = c.
  Proof.
    intros a c Ha Hc Hincl. apply sorted_ext; [apply merge_sorted; exact Ha|exact Hc|].
    intros k. rewrite lookup_merge by exact Hc.
    destruct (lookup k c) eqn:E; [reflexivity|].
    apply lookup_none_notin. intros Hin. apply Hincl in Hin.
    apply lookup_none_notin in E. contradiction.
  Qed.
End MapFacts.

(* ================================================================== generic facts about the routines *)
(* Everything below is proved for ALL FOUR variants [fx] of the two listing routines (Model/EmitterExt.v:
   EmitBytes chunk records with their own length or the block's; Label flushing the base latch or not):
   [execX today] is [exec] of Model/Emitter.v, [execX repaired] the code with fixes/emit2-1, emit2-2. *)
Section WithFixes.
Context (fx : fixes).

Ltac em_destruct e :=
  let f := fresh "f" in let g := fresh "g" in let b := fresh "b" in let n0 := fresh "n0" in
  let ls := fresh "ls" in let ba := fresh "ba" in let bs := fresh "bs" in let ad := fresh "ad" in
  let lb := fresh "lb" in let m8 := fresh "m8" in let m16 := fresh "m16" in
  destruct e as [f g b n0 ls ba bs ad lb m8 m16].

Lemma w32_bound : forall x, 0 <= w32 x < 4294967296.
Proof. intros. unfold w32. apply Z.mod_pos_bound. lia. Qed.
Lemma w32_nonneg : forall x, 0 <= w32 x.
Proof. intros. apply w32_bound. Qed.
(* offs + c in uint32 did not wrap when the slice expression code[offs:offs+c] was accepted *)
Lemma w32_nowrap : forall x c, 0 <= c < 4294967296 -> w32 x <= w32 (w32 x + c) -> w32 (w32 x + c) = w32 x + c.
Proof.
  intros x c Hc Hle. pose proof (w32_bound x) as Hb. remember (w32 x) as y eqn:Hy. clear Hy x.
  unfold w32 in *. Z.div_mod_to_equations. lia.
Qed.

(* the emit routines and EmitBytes, cut at their call of write() *)
Definition emit_post (k : ikind) (l : lbl) (e1 : em) : em :=
  let e2 := if gen e1
            then (let eb := emitBase e1 in
                  add_lines [mkLine (ins_kind k) (address eb) (ins_len k)
                                    (if is_label_kind k then l else nolbl) []] eb)
            else e1 in
  let e3 := set_address (w32 (address e2 + ins_len k)) e2 in
  match k with
  | E2L => set_d8 (add_dangling (d8 e3) l (w32 (address e3 - 1))) e3
  | E3L => set_d16 (add_dangling (d16 e3) l (w32 (address e3 - 2))) e3
  | _ => e3
  end.
Lemma emitK_eq : forall k d l e,
  emitK k d l e = match write d e with None => Refused e | Some e1 => Done (emit_post k l e1) end.
Proof. intros. unfold emitK. destruct (write d e); reflexivity. Qed.

Definition emitBytes_lines (bs : list Z) (e : em) : em :=
  if gen e then (let eb := emitBase e in add_lines (db_linesX (chunk_own fx) (address eb) bs) eb) else e.
Lemma EmitBytes_eq : forall bs e,
  EmitBytesX fx bs e = match write bs (emitBytes_lines bs e) with
                       | None => Refused (emitBytes_lines bs e)
                       | Some e2 => Done (set_address (w32 (address e2 + zlen bs)) e2)
                       end.
Proof. intros. reflexivity. Qed.

(* write() fails exactly when the target is not nil and the data does not fit *)
Definition write_fails (d : list Z) (e : em) : bool :=
  match buf e with None => false | Some b => zlen b <? n e + zlen d end.

Lemma write_spec : forall d e,
  write d e =
  if write_fails d e then None
  else Some (match buf e with
             | None => e
             | Some b => set_n (n e + zlen d) (set_buf (Some (splice b (n e) d)) e)
             end).
Proof.
  intros d e. unfold write, write_fails. destruct (buf e) as [b|]; [|reflexivity].
  destruct (zlen b <? n e + zlen d); reflexivity.
Qed.

(* fields a routine leaves alone *)
Definition same_store (e e' : em) : Prop := buf e' = buf e /\ n e' = n e.
Definition same_gen (e e' : em) : Prop := gen e' = gen e.

Lemma emit_post_store : forall k l e, same_store e (emit_post k l e).
Proof.
  intros k l e. em_destruct e. unfold same_store, emit_post, emitBase, add_lines.
  destruct g, bs, k; cbn; split; reflexivity.
Qed.
Lemma emitBytes_lines_store : forall d e, same_store e (emitBytes_lines d e).
Proof.
  intros d e. em_destruct e. unfold same_store, emitBytes_lines, emitBase, add_lines.
  destruct g, bs; cbn; split; reflexivity.
Qed.
Lemma apply_track_store : forall t e, same_store e (apply_track t e).
Proof. intros t e. em_destruct e. destruct t; cbn; split; reflexivity. Qed.

(* ================================================================== C19 (a): Len <= Cap *)
Definition inv (e : em) : Prop := 0 <= n e <= zlen (code e).

Lemma inv_store : forall e e', same_store e e' -> inv e -> inv e'.
Proof. intros e e' [Hb Hn] H. unfold inv, code in *. rewrite Hb, Hn. exact H. Qed.

Lemma write_inv : forall d e e', inv e -> write d e = Some e' -> inv e'.
Proof.
  intros d e e' Hi Hw. rewrite write_spec in Hw. unfold write_fails in Hw.
  em_destruct e. unfold inv, code in *. cbn in *.
  destruct b as [b|]; [|inversion Hw; subst; cbn; exact Hi].
  destruct (zlen b <? n0 + zlen d) eqn:E; [discriminate|]. apply Z.ltb_ge in E.
  inversion Hw; subst; cbn. pose proof (zlen_nonneg _ d).
  rewrite zlen_splice by lia. lia.
Qed.

Lemma exec_inv : forall o e, inv e -> inv (state_of (execX fx o e)).
Proof.
  intros o e Hi. destruct o as [a|c|c|k d l t g|d|id|l]; cbn [execX exec].
  - em_destruct e. exact Hi.
  - em_destruct e. exact Hi.
  - em_destruct e. exact Hi.
  - destruct (guard_ok g e); [|exact Hi]. rewrite !emitK_eq.
    pose proof (inv_store _ _ (apply_track_store t e) Hi) as Hi1.
    destruct (write d (apply_track t e)) as [e1|] eqn:Hw; cbn [state_of]; [|exact Hi1].
    apply (inv_store _ _ (emit_post_store k l e1)). eapply write_inv; eassumption.
  - rewrite !EmitBytes_eq. pose proof (inv_store _ _ (emitBytes_lines_store d e) Hi) as Hi1.
    destruct (write d (emitBytes_lines d e)) as [e2|] eqn:Hw; cbn [state_of]; [|exact Hi1].
    pose proof (write_inv _ _ _ Hi1 Hw) as Hi2. em_destruct e2. exact Hi2.
  - em_destruct e. unfold Comment, emitBase, add_lines. destruct g, bs; exact Hi.
  - unfold LabelX. destruct (lookup l (labels e)); cbn [state_of]; [exact Hi|].
    em_destruct e. destruct (label_flush fx), g, bs; exact Hi.
Qed.

Lemma clone_inv : forall target a, inv (Clone target a).
Proof.
  intros target a. unfold inv, Clone, code. cbn. destruct target as [t|]; [pose proof (zlen_nonneg _ t)|cbn]; lia.
Qed.

Lemma append_inv : forall cb a e, inv a -> inv e -> inv (state_of (Append cb a e)).
Proof.
  intros cb a e Ha He. unfold Append. destruct (zlen (code a) <? n a + n e) eqn:E; cbn [state_of]; [exact Ha|].
  apply Z.ltb_ge in E. unfold inv, code in *. cbn. destruct (buf a) as [b|].
  - assert (Hl : zlen (ztake (n e) match buf e with Some b0 => b0 | None => [] end) = n e).
    { rewrite zlen_ztake by lia. lia. }
    rewrite zlen_splice by lia. lia.
  - cbn in *. lia.
Qed.

Lemma patch8_inv : forall refs addr e, inv e -> inv (fst (patch8 addr refs e)).
Proof.
  induction refs as [|r rs IH]; intros addr e Hi; cbn [patch8]; [exact Hi|].
  destruct ((127 <? addr - w32 (r + 1)) || (addr - w32 (r + 1) <? -128)); [exact Hi|].
  destruct (w32 (r - base e) <? zlen (code e)) eqn:E; [|exact Hi].
  apply Z.ltb_lt in E. apply IH. pose proof (w32_nonneg (r - base e)).
  unfold inv in *. em_destruct e. cbn in *. unfold upd. rewrite zlen_splice; [exact Hi|lia|].
  rewrite zlen_cons, zlen_nil. lia.
Qed.

Lemma patch16_inv : forall refs addr e, inv e -> inv (fst (patch16 addr refs e)).
Proof.
  induction refs as [|r rs IH]; intros addr e Hi; cbn [patch16]; [exact Hi|].
  destruct ((w32 (r - base e) <=? w32 (w32 (r - base e) + 2)) && (w32 (w32 (r - base e) + 2) <=? zlen (code e))) eqn:E;
    [|exact Hi].
  apply andb_true_iff in E. destruct E as [E1 E2]. apply Z.leb_le in E1, E2.
  apply IH. pose proof (w32_nonneg (r - base e)) as Hnn.
  rewrite (w32_nowrap (r - base e) 2) in E2 by (try lia; exact E1).
  remember (w32 (r - base e)) as x eqn:Hx. clear Hx E1.
  unfold inv in *. em_destruct e. cbn in *. rewrite zlen_splice; [exact Hi|lia|].
  rewrite !zlen_cons, zlen_nil. lia.
Qed.

Lemma fin8_inv : forall ord e, inv e -> inv (fst (fin8 ord e)).
Proof.
  induction ord as [|l rest IH]; intros e Hi; cbn [fin8]; [exact Hi|].
  destruct (lookup l (d8 e)) as [refs|]; [|apply IH; exact Hi].
  destruct (lookup l (labels e)) as [addr|]; [|exact Hi].
  pose proof (patch8_inv refs addr e Hi) as Hp.
  destruct (patch8 addr refs e) as [e1 res]. cbn [fst] in Hp.
  destruct res; try exact Hp. apply IH. em_destruct e1. exact Hp.
Qed.

Lemma fin16_inv : forall ord e, inv e -> inv (fst (fin16 ord e)).
Proof.
  induction ord as [|l rest IH]; intros e Hi; cbn [fin16]; [exact Hi|].
  destruct (lookup l (d16 e)) as [refs|]; [|apply IH; exact Hi].
  destruct (lookup l (labels e)) as [addr|]; [|exact Hi].
  pose proof (patch16_inv refs addr e Hi) as Hp.
  destruct (patch16 addr refs e) as [e1 res]. cbn [fst] in Hp.
  destruct res; try exact Hp. apply IH. em_destruct e1. exact Hp.
Qed.

Lemma finalize_inv : forall o8 o16 e, inv e -> inv (fst (Finalize o8 o16 e)).
Proof.
  intros o8 o16 e Hi. unfold Finalize. pose proof (fin8_inv o8 e Hi) as H8.
  destruct (fin8 o8 e) as [e1 res]. cbn [fst] in H8.
  destruct res; try exact H8. apply fin16_inv. exact H8.
Qed.

(* every state an emitter can get into through the API *)
Inductive reachable : em -> Prop :=
  | R_new : forall target g, reachable (new_em target g)
  | R_exec : forall o e, reachable e -> reachable (state_of (execX fx o e))          (* accepted or refused call *)
  | R_clone : forall target a, reachable a -> reachable (Clone target a)
  | R_append : forall cb a e, reachable a -> reachable e -> reachable (state_of (Append cb a e))
  | R_finalize : forall o8 o16 e, reachable e -> reachable (fst (Finalize o8 o16 e)).

Lemma run_reachable : forall ops e, reachable e -> reachable (fst (runX fx ops e)).
Proof.
  induction ops as [|o r IH]; intros e Hr; cbn [runX]; [exact Hr|].
  specialize (IH (state_of (execX fx o e)) (R_exec o e Hr)).
  destruct (runX fx r (state_of (execX fx o e))) as [ef rl]. exact IH.
Qed.

Theorem len_le_cap : forall e, reachable e -> 0 <= Len e <= Cap e.
Proof.
  intros e Hr. change (inv e). induction Hr as [target g|o e Hr IH|target a Hr IH|cb a e Ha IHa He IHe|o8 o16 e Hr IH].
  - unfold inv, new_em, code. cbn. destruct target as [t|]; [pose proof (zlen_nonneg _ t)|cbn]; lia.
  - apply exec_inv. exact IH.
  - apply clone_inv.
  - apply append_inv; assumption.
  - apply finalize_inv. exact IH.
Qed.

(* ================================================================== C19 (b): what a refused call leaves behind *)
(* everything except the tracked flags, the listing records and the base-directive latch *)
Definition frame (e e' : em) : Prop :=
  buf e' = buf e /\ n e' = n e /\ address e' = address e /\ labels e' = labels e /\
  base e' = base e /\ d8 e' = d8 e /\ d16 e' = d16 e /\ gen e' = gen e.

Lemma frame_refl : forall e, frame e e.
Proof. intros. unfold frame. repeat split. Qed.

Lemma apply_track_frame : forall t e, frame e (apply_track t e).
Proof. intros t e. em_destruct e. destruct t; cbn; unfold frame; cbn; repeat split. Qed.
Lemma emitBytes_lines_frame : forall d e, frame e (emitBytes_lines d e).
Proof.
  intros d e. em_destruct e. unfold emitBytes_lines, emitBase, add_lines, frame.
  destruct g, bs; cbn; repeat split.
Qed.

Lemma refused_frame : forall o e e', execX fx o e = Refused e' -> frame e e'.
Proof.
  intros o e e' H. destruct o as [a|c|c|k d l t g|d|id|l]; cbn [execX exec] in H; try discriminate.
  - destruct (guard_ok g e); [|inversion H; apply frame_refl].
    rewrite emitK_eq in H. destruct (write d (apply_track t e)); [discriminate|].
    inversion H. apply apply_track_frame.
  - rewrite EmitBytes_eq in H. destruct (write d (emitBytes_lines d e)); [discriminate|].
    inversion H. apply emitBytes_lines_frame.
  - unfold LabelX in H. destruct (lookup l (labels e)); [|discriminate]. inversion H. apply frame_refl.
Qed.

Theorem refused_leaves : forall o e e', execX fx o e = Refused e' ->
  Bytes e' = Bytes e /\ Len e' = Len e /\ Cap e' = Cap e /\ PC e' = PC e /\
  (forall l, GetLabel l e' = GetLabel l e) /\ GetBase e' = GetBase e.
Proof.
  intros o e e' H. apply refused_frame in H.
  destruct H as (Hb & Hn & Ha & Hl & Hba & _).
  unfold Bytes, Len, Cap, PC, GetLabel, GetBase, code. rewrite Hb, Hn, Ha, Hl, Hba. repeat split.
Qed.

Theorem append_refused_leaves : forall cb a e a', Append cb a e = Refused a' -> a' = a.
Proof.
  intros cb a e a' H. unfold Append in H. destruct (zlen (code a) <? n a + n e); inversion H. reflexivity.
Qed.

(* the two things a refused call does change (why they are outside the property's list) *)
Example refused_rep_updates_tracker :
  let e := set_flags 48 (new_em (Some [0]) true) in
  exists e', execX fx (OREP 32) e = Refused e' /\ Flags e = 48 /\ Flags e' = 16.
Proof. eexists. repeat split. Qed.

(* exactly which calls are refused: by a precondition (width guard, duplicate label) or for capacity *)
Definition pre_refused (o : op) (e : em) : bool :=
  match o with
  | OIns _ _ _ _ g => negb (guard_ok g e)
  | OLabel l => has l (labels e)
  | _ => false
  end.
Definition cap_refused (o : op) (e : em) : bool :=
  match o with
  | OIns _ d _ t g => guard_ok g e && write_fails d (apply_track t e)
  | OEmitBytes bs => write_fails bs (emitBytes_lines bs e)
  | _ => false
  end.

Lemma refused_iff : forall o e, is_refused (execX fx o e) = pre_refused o e || cap_refused o e.
Proof.
  intros o e. destruct o as [a|c|c|k d l t g|d|id|l]; cbn [execX exec pre_refused cap_refused is_refused]; try reflexivity.
  - destruct (guard_ok g e); cbn [negb orb andb]; [|reflexivity].
    rewrite !emitK_eq. rewrite write_spec. destruct (write_fails d (apply_track t e)); reflexivity.
  - rewrite !EmitBytes_eq. rewrite write_spec. destruct (write_fails d (emitBytes_lines d e)); reflexivity.
  - unfold LabelX, has. destruct (lookup l (labels e)); reflexivity.
Qed.

(* ================================================================== C19 (c): dry-runX fx emitters *)
(* the same emitter over a nil target *)
Definition strip (e : em) : em := set_n 0 (set_buf None e).

Definition map_outcome (f : em -> em) (r : outcome) : outcome :=
  match r with Done e => Done (f e) | Refused e => Refused (f e) end.

Lemma strip_store : forall e e', same_store e e' ->
  strip e' = mkEm (flags e') (gen e') None 0 (lines e') (base e') (baseSet e') (address e') (labels e') (d8 e') (d16 e').
Proof. intros. em_destruct e'. reflexivity. Qed.

Lemma guard_ok_strip : forall g e, guard_ok g (strip e) = guard_ok g e.
Proof. intros g e. em_destruct e. destruct g; reflexivity. Qed.
Lemma apply_track_strip : forall t e, apply_track t (strip e) = strip (apply_track t e).
Proof. intros t e. em_destruct e. destruct t; reflexivity. Qed.
Lemma emit_post_strip : forall k l e, emit_post k l (strip e) = strip (emit_post k l e).
Proof.
  intros k l e. em_destruct e. unfold emit_post, strip, emitBase, add_lines.
  destruct g, bs, k; reflexivity.
Qed.
Lemma emitBytes_lines_strip : forall d e, emitBytes_lines d (strip e) = strip (emitBytes_lines d e).
Proof.
  intros d e. em_destruct e. unfold emitBytes_lines, strip, emitBase, add_lines.
  destruct g, bs; reflexivity.
Qed.
Lemma write_strip : forall d e, write d (strip e) = Some (strip e).
Proof. intros. em_destruct e. reflexivity. Qed.
Lemma write_strip_result : forall d e e1, write d e = Some e1 -> strip e1 = strip e.
Proof.
  intros d e e1 H. unfold write in H. em_destruct e. cbn in H. destruct b as [b|].
  - destruct (zlen b <? n0 + zlen d); [discriminate|]. inversion H. reflexivity.
  - inversion H. reflexivity.
Qed.

Lemma exec_strip : forall o e, cap_refused o e = false ->
  execX fx o (strip e) = map_outcome strip (execX fx o e).
Proof.
  intros o e Hc. destruct o as [a|c|c|k d l t g|d|id|l]; cbn [execX exec map_outcome cap_refused] in *.
  - em_destruct e. reflexivity.
  - em_destruct e. reflexivity.
  - em_destruct e. reflexivity.
  - rewrite guard_ok_strip. destruct (guard_ok g e); [|reflexivity]. cbn [andb] in Hc.
    rewrite !emitK_eq. rewrite apply_track_strip, write_strip.
    destruct (write d (apply_track t e)) as [x1|] eqn:Hw; [|rewrite write_spec, Hc in Hw; discriminate].
    cbn [map_outcome]. f_equal. rewrite <- emit_post_strip, (write_strip_result _ _ _ Hw). reflexivity.
  - rewrite !EmitBytes_eq. rewrite emitBytes_lines_strip, write_strip.
    destruct (write d (emitBytes_lines d e)) as [x2|] eqn:Hw; [|rewrite write_spec, Hc in Hw; discriminate].
    cbn [map_outcome]. f_equal. rewrite <- (write_strip_result _ _ _ Hw).
    em_destruct x2. reflexivity.
  - em_destruct e. unfold Comment, emitBase, add_lines, strip. destruct g, bs; reflexivity.
  - unfold LabelX. replace (labels (strip e)) with (labels e) by (em_destruct e; reflexivity).
    destruct (lookup l (labels e)); cbn [map_outcome]; [reflexivity|].
    f_equal. em_destruct e. unfold strip, emitBase, add_lines. destruct (label_flush fx), g, bs; reflexivity.
Qed.

(* "big enough": no call of the history is refused for capacity *)
Fixpoint no_cap_refusal (ops : list op) (e : em) : bool :=
  match ops with
  | [] => true
  | o :: r => negb (cap_refused o e) && no_cap_refusal r (state_of (execX fx o e))
  end.

Lemma state_of_map : forall f r, state_of (map_outcome f r) = f (state_of r).
Proof. intros f [e|e]; reflexivity. Qed.
Lemma is_refused_map : forall f r, is_refused (map_outcome f r) = is_refused r.
Proof. intros f [e|e]; reflexivity. Qed.

Theorem dry_run_simulation : forall ops e, no_cap_refusal ops e = true ->
  runX fx ops (strip e) = (strip (fst (runX fx ops e)), snd (runX fx ops e)).
Proof.
  induction ops as [|o r IH]; intros e H; cbn [runX no_cap_refusal] in *; [reflexivity|].
  apply andb_true_iff in H. destruct H as [Hc Hr]. apply negb_true_iff in Hc.
  rewrite (exec_strip o e Hc), state_of_map, is_refused_map.
  rewrite (IH _ Hr). destruct (runX fx r (state_of (execX fx o e))) as [ef rl]. reflexivity.
Qed.

Lemma no_cap_refusal_firstn : forall k ops e, no_cap_refusal ops e = true -> no_cap_refusal (firstn k ops) e = true.
Proof.
  induction k as [|k IH]; intros ops e H; [reflexivity|].
  destruct ops as [|o r]; [reflexivity|]. cbn [firstn no_cap_refusal] in *.
  apply andb_true_iff in H. destruct H as [Hc Hr]. rewrite Hc. cbn [andb]. apply IH. exact Hr.
Qed.

(* a sufficient, purely static condition: the target has room for everything the history may emit *)
Definition demand (o : op) : Z :=
  match o with OIns _ d _ _ _ => zlen d | OEmitBytes bs => zlen bs | _ => 0 end.
Fixpoint total_demand (ops : list op) : Z :=
  match ops with [] => 0 | o :: r => demand o + total_demand r end.

Lemma demand_nonneg : forall o, 0 <= demand o.
Proof. intros [ | | |k d l t g|d| | ]; cbn; try lia; apply zlen_nonneg. Qed.

Lemma exec_growth : forall o e, inv e ->
  buf e <> None -> n e + demand o <= zlen (code e) ->
  cap_refused o e = false /\
  n (state_of (execX fx o e)) <= n e + demand o /\ zlen (code (state_of (execX fx o e))) = zlen (code e) /\
  buf (state_of (execX fx o e)) <> None.
Proof.
  intros o e Hi Hb Hd. pose proof (demand_nonneg o) as Hdn.
  assert (Hw : forall d x, same_store e x -> zlen d <= demand o -> write_fails d x = false).
  { intros d x [Hxb Hxn] Hle. unfold write_fails. rewrite Hxb, Hxn. unfold code in Hd.
    destruct (buf e) as [b|]; [|reflexivity]. apply Z.ltb_ge. lia. }
  assert (Hw2 : forall d x x', same_store e x -> zlen d <= demand o -> write d x = Some x' ->
            n x' <= n e + demand o /\ zlen (code x') = zlen (code e) /\ buf x' <> None).
  { intros d x x' [Hxb Hxn] Hle Hwr. rewrite write_spec, (Hw d x (conj Hxb Hxn) Hle) in Hwr.
    rewrite Hxb in Hwr. unfold code, inv in *. destruct (buf e) as [b|] eqn:Hbe; [|contradiction].
    inversion Hwr. em_destruct x. cbn in *. subst. pose proof (zlen_nonneg _ d).
    rewrite zlen_splice by lia. repeat split; try lia. discriminate. }
  destruct o as [a|c|c|k d l t g|d|id|l]; cbn [execX exec cap_refused demand] in *.
  - em_destruct e. cbn in *. repeat split; try lia; assumption.
  - em_destruct e. cbn in *. repeat split; try lia; assumption.
  - em_destruct e. cbn in *. repeat split; try lia; assumption.
  - pose proof (apply_track_store t e) as Hs.
    rewrite (Hw d _ Hs (Z.le_refl _)). rewrite andb_false_r. split; [reflexivity|].
    destruct (guard_ok g e); cbn [state_of]; [|repeat split; try lia; assumption].
    rewrite !emitK_eq. rewrite write_spec, (Hw d _ Hs (Z.le_refl _)). cbn [state_of].
    match goal with |- context [emit_post k l ?x] => pose proof (emit_post_store k l x) as [Hpb Hpn]; set (y := x) in * end.
    assert (Hy : write d (apply_track t e) = Some y).
    { rewrite write_spec, (Hw d _ Hs (Z.le_refl _)). reflexivity. }
    destruct (Hw2 d _ y Hs (Z.le_refl _) Hy) as (H1 & H2 & H3).
    unfold code in *. rewrite Hpb, Hpn. repeat split; assumption.
  - pose proof (emitBytes_lines_store d e) as Hs.
    rewrite (Hw d _ Hs (Z.le_refl _)). split; [reflexivity|].
    rewrite !EmitBytes_eq. destruct (write d (emitBytes_lines d e)) as [y|] eqn:Hy.
    + destruct (Hw2 d _ y Hs (Z.le_refl _) Hy) as (H1 & H2 & H3). cbn [state_of].
      em_destruct y. cbn in *. repeat split; assumption.
    + rewrite write_spec, (Hw d _ Hs (Z.le_refl _)) in Hy. discriminate.
  - em_destruct e. unfold Comment, emitBase, add_lines. destruct g, bs; cbn in *; repeat split; try lia; assumption.
  - split; [reflexivity|]. unfold LabelX. destruct (lookup l (labels e)); cbn [state_of].
    + repeat split; try lia; assumption.
    + em_destruct e. unfold emitBase, add_lines. destruct (label_flush fx), g, bs; cbn in *; repeat split; try lia; assumption.
Qed.

Theorem room_suffices : forall ops e, inv e -> buf e <> None ->
  n e + total_demand ops <= zlen (code e) -> no_cap_refusal ops e = true.
Proof.
  induction ops as [|o r IH]; intros e Hi Hb Hd; cbn [no_cap_refusal total_demand] in *; [reflexivity|].
  assert (Ht : 0 <= total_demand r).
  { clear. induction r as [|o r IHr]; cbn [total_demand]; [lia|]. pose proof (demand_nonneg o). lia. }
  destruct (exec_growth o e Hi Hb ltac:(lia)) as (Hc & Hn & Hl & Hb').
  rewrite Hc. cbn [negb andb]. apply IH; [apply exec_inv; exact Hi|exact Hb'|]. rewrite Hl. lia.
Qed.

(* C19, third clause: a nil-target emitter and one whose target has room report the same PC, labels and
   tracked flags (and refuse the same calls) after EVERY prefix of ANY history *)
Theorem dry_run_agrees : forall ops b g k,
  no_cap_refusal ops (new_em (Some b) g) = true ->
  let dry := runX fx (firstn k ops) (new_em None g) in
  let real := runX fx (firstn k ops) (new_em (Some b) g) in
  PC (fst dry) = PC (fst real) /\ (forall l, GetLabel l (fst dry) = GetLabel l (fst real)) /\
  Flags (fst dry) = Flags (fst real) /\ IsM16bit (fst dry) = IsM16bit (fst real) /\
  IsX16bit (fst dry) = IsX16bit (fst real) /\ snd dry = snd real /\ Len (fst dry) = 0.
Proof.
  intros ops b g k H. cbn zeta.
  pose proof (dry_run_simulation (firstn k ops) (new_em (Some b) g) (no_cap_refusal_firstn k _ _ H)) as Hs.
  change (strip (new_em (Some b) g)) with (new_em None g) in Hs. rewrite Hs. cbn [fst snd].
  set (e := fst (runX fx (firstn k ops) (new_em (Some b) g))). em_destruct e.
  unfold PC, GetLabel, Flags, IsM16bit, IsX16bit, Len. cbn. repeat split.
Qed.


(* ================================================================== what no call changes *)
Lemma write_fields : forall d e e', write d e = Some e' ->
  flags e' = flags e /\ gen e' = gen e /\ lines e' = lines e /\ base e' = base e /\ baseSet e' = baseSet e /\
  address e' = address e /\ labels e' = labels e /\ d8 e' = d8 e /\ d16 e' = d16 e /\
  (buf e' = None <-> buf e = None).
Proof.
  intros d e e' H. unfold write in H. em_destruct e. cbn in H. destruct b as [b|].
  - destruct (zlen b <? n0 + zlen d); [discriminate|]. inversion H. cbn. repeat split; discriminate.
  - inversion H. cbn. repeat split.
Qed.

Lemma write_cap : forall d e e', inv e -> write d e = Some e' -> zlen (code e') = zlen (code e).
Proof.
  intros d e e' Hi H. unfold write in H. unfold inv, code in *. em_destruct e. cbn in *. destruct b as [b|].
  - destruct (zlen b <? n0 + zlen d) eqn:E; [discriminate|]. apply Z.ltb_ge in E. inversion H. cbn.
    pose proof (zlen_nonneg _ d). rewrite zlen_splice by lia. reflexivity.
  - inversion H. reflexivity.
Qed.

(* generateText never changes; a nil target stays nil; the capacity never changes *)
Lemma exec_static : forall o e,
  gen (state_of (execX fx o e)) = gen e /\ (buf (state_of (execX fx o e)) = None <-> buf e = None) /\
  (inv e -> zlen (code (state_of (execX fx o e))) = zlen (code e)).
Proof.
  intros o e. destruct o as [a|c|c|k d l t g|d|id|l]; cbn [execX exec].
  - em_destruct e. cbn. repeat split; auto.
  - em_destruct e. cbn. repeat split; auto.
  - em_destruct e. cbn. repeat split; auto.
  - destruct (guard_ok g e); cbn [state_of]; [|repeat split; auto].
    rewrite !emitK_eq. pose proof (apply_track_store t e) as [Hb Hn].
    assert (Hg : gen (apply_track t e) = gen e) by (em_destruct e; destruct t; reflexivity).
    destruct (write d (apply_track t e)) as [e1|] eqn:Hw; cbn [state_of].
    + destruct (write_fields _ _ _ Hw) as (_ & Hg1 & _ & _ & _ & _ & _ & _ & _ & Hnil).
      pose proof (emit_post_store k l e1) as [Hpb Hpn].
      assert (Hpg : gen (emit_post k l e1) = gen e1).
      { clear. em_destruct e1. unfold emit_post, emitBase, add_lines. destruct g, bs, k; reflexivity. }
      split; [congruence|]. split; [rewrite Hpb, Hnil, Hb; reflexivity|].
      intros Hi. unfold code. rewrite Hpb. fold (code e1).
      rewrite (write_cap _ _ _ (inv_store _ _ (apply_track_store t e) Hi) Hw). unfold code. rewrite Hb. reflexivity.
    + split; [exact Hg|]. split; [rewrite Hb; reflexivity|]. intros _. unfold code. rewrite Hb. reflexivity.
  - rewrite !EmitBytes_eq. pose proof (emitBytes_lines_store d e) as [Hb Hn].
    assert (Hg : gen (emitBytes_lines d e) = gen e).
    { clear. em_destruct e. unfold emitBytes_lines, emitBase, add_lines. destruct g, bs; reflexivity. }
    destruct (write d (emitBytes_lines d e)) as [e2|] eqn:Hw; cbn [state_of].
    + destruct (write_fields _ _ _ Hw) as (_ & Hg1 & _ & _ & _ & _ & _ & _ & _ & Hnil).
      split; [em_destruct e2; cbn in *; congruence|].
      split; [em_destruct e2; cbn in *; rewrite Hnil, Hb; reflexivity|].
      intros Hi. pose proof (write_cap _ _ _ (inv_store _ _ (emitBytes_lines_store d e) Hi) Hw) as Hc.
      em_destruct e2. unfold code in *. cbn in *. rewrite Hc, Hb. reflexivity.
    + split; [exact Hg|]. split; [rewrite Hb; reflexivity|]. intros _. unfold code. rewrite Hb. reflexivity.
  - em_destruct e. unfold Comment, emitBase, add_lines. destruct g, bs; cbn; repeat split; auto.
  - unfold LabelX. destruct (lookup l (labels e)); cbn [state_of]; [repeat split; auto|].
    em_destruct e. unfold emitBase, add_lines. destruct (label_flush fx), g, bs; cbn; repeat split; auto.
Qed.

(* the three maps stay canonical and only ever gain keys under [execX fx] *)
Definition maps_sorted (e : em) : Prop := sorted (labels e) /\ sorted (d8 e) /\ sorted (d16 e).
Definition keys_incl (e e' : em) : Prop :=
  (forall k, In k (keys (labels e)) -> In k (keys (labels e'))) /\
  (forall k, In k (keys (d8 e)) -> In k (keys (d8 e'))) /\
  (forall k, In k (keys (d16 e)) -> In k (keys (d16 e'))).
Definition same_maps (e e' : em) : Prop := labels e' = labels e /\ d8 e' = d8 e /\ d16 e' = d16 e.

Lemma keys_incl_refl : forall e, keys_incl e e.
Proof. intros. unfold keys_incl. auto. Qed.
Lemma keys_incl_trans : forall a b c, keys_incl a b -> keys_incl b c -> keys_incl a c.
Proof. intros a b c (H1 & H2 & H3) (G1 & G2 & G3). unfold keys_incl. repeat split; auto. Qed.
Lemma same_maps_ok : forall e e', same_maps e e' -> maps_sorted e -> maps_sorted e' /\ keys_incl e e'.
Proof.
  intros e e' (H1 & H2 & H3) Hs. unfold maps_sorted, keys_incl. rewrite H1, H2, H3. split; [exact Hs|auto].
Qed.

Lemma emit_post_maps : forall k l e, maps_sorted e -> maps_sorted (emit_post k l e) /\ keys_incl e (emit_post k l e).
Proof.
  intros k l e (S1 & S2 & S3). em_destruct e. unfold emit_post, emitBase, add_lines, maps_sorted, keys_incl, add_dangling.
  cbn in S1, S2, S3.
  destruct g, bs, k; cbn; repeat split; auto; try (apply insert_sorted; assumption);
    intros k0 Hk; apply insert_keys; right; exact Hk.
Qed.

Lemma exec_maps : forall o e, maps_sorted e ->
  maps_sorted (state_of (execX fx o e)) /\ keys_incl e (state_of (execX fx o e)).
Proof.
  intros o e Hs. destruct o as [a|c|c|k d l t g|d|id|l]; cbn [execX exec].
  - apply same_maps_ok; [|exact Hs]. em_destruct e. repeat split.
  - apply same_maps_ok; [|exact Hs]. em_destruct e. repeat split.
  - apply same_maps_ok; [|exact Hs]. em_destruct e. repeat split.
  - destruct (guard_ok g e); cbn [state_of]; [|split; [exact Hs|apply keys_incl_refl]].
    assert (Ht : same_maps e (apply_track t e)) by (em_destruct e; destruct t; repeat split).
    rewrite !emitK_eq. destruct (write d (apply_track t e)) as [e1|] eqn:Hw; cbn [state_of].
    + destruct (write_fields _ _ _ Hw) as (_ & _ & _ & _ & _ & _ & L1 & L2 & L3 & _).
      destruct Ht as (T1 & T2 & T3).
      assert (H1 : same_maps e e1) by (unfold same_maps; rewrite L1, L2, L3; auto).
      destruct (same_maps_ok _ _ H1 Hs) as [Hs1 Hk1].
      destruct (emit_post_maps k l e1 Hs1) as [Hs2 Hk2].
      split; [exact Hs2|eapply keys_incl_trans; eassumption].
    + apply same_maps_ok; assumption.
  - rewrite !EmitBytes_eq.
    assert (Ht : same_maps e (emitBytes_lines d e)).
    { em_destruct e. unfold emitBytes_lines, emitBase, add_lines. destruct g, bs; repeat split. }
    destruct (write d (emitBytes_lines d e)) as [e2|] eqn:Hw; cbn [state_of].
    + destruct (write_fields _ _ _ Hw) as (_ & _ & _ & _ & _ & _ & L1 & L2 & L3 & _).
      destruct Ht as (T1 & T2 & T3). apply same_maps_ok; [|exact Hs].
      em_destruct e2. unfold same_maps. cbn in *. rewrite L1, L2, L3. auto.
    + apply same_maps_ok; assumption.
  - apply same_maps_ok; [|exact Hs]. em_destruct e. unfold Comment, emitBase, add_lines. destruct g, bs; repeat split.
  - unfold LabelX. destruct (lookup l (labels e)) eqn:E; cbn [state_of]; [split; [exact Hs|apply keys_incl_refl]|].
    destruct Hs as (S1 & S2 & S3). em_destruct e. unfold maps_sorted, keys_incl, emitBase, add_lines. cbn in *.
    destruct (label_flush fx), g, bs; cbn; repeat split; auto; try (apply insert_sorted; assumption);
      intros k0 Hk; apply insert_keys; right; exact Hk.
Qed.

(* ================================================================== C16: Clone + Append *)
(* the emitter that results from appending clone [c] to original [a] when [c]'s maps already contain
   [a]'s (which is what a clone's maps do); [Append true] produces it up to [merge] *)
Definition glue (a c : em) : em :=
  mkEm (flags c) (gen a)
       (match buf a with None => None | Some b => Some (splice b (n a) (ztake (n c) (code c))) end)
       (n a + n c) (lines a ++ lines c) (base c) (baseSet c) (address c) (labels c) (d8 c) (d16 c).

(* coupling between the original and its clone *)
Definition coupled (a c : em) : Prop :=
  gen c = gen a /\ (buf a = None <-> buf c = None) /\ inv a /\ inv c /\ n a + n c <= zlen (code a).

Lemma glue_clone : forall target a, glue a (Clone target a) = a.
Proof.
  intros target a. em_destruct a. unfold glue, Clone. cbn.
  rewrite Z.add_0_r, app_nil_r. destruct b as [b|]; [|reflexivity].
  unfold ztake. cbn. rewrite splice_nil. reflexivity.
Qed.

Lemma glue_cap : forall a c, coupled a c -> zlen (code (glue a c)) = zlen (code a).
Proof.
  intros a c (Hg & Hnil & Ha & Hc & Hf). unfold inv in *. unfold glue, code in *. cbn.
  destruct (buf a) as [ba|]; [|reflexivity].
  assert (Hl : zlen (ztake (n c) match buf c with Some b => b | None => [] end) = n c).
  { rewrite zlen_ztake by lia. lia. }
  rewrite zlen_splice by lia. reflexivity.
Qed.

Lemma glue_inv : forall a c, coupled a c -> inv (glue a c).
Proof.
  intros a c H. pose proof (glue_cap a c H) as Hc. destruct H as (Hg & Hnil & Ha & Hcc & Hf).
  unfold inv in *. rewrite Hc. unfold glue. cbn. lia.
Qed.

Lemma guard_ok_glue : forall g a c, guard_ok g (glue a c) = guard_ok g c.
Proof. intros g a c. em_destruct c. destruct g; reflexivity. Qed.
Lemma apply_track_glue : forall t a c, apply_track t (glue a c) = glue a (apply_track t c).
Proof. intros t a c. em_destruct c. destruct t; reflexivity. Qed.
Lemma emit_post_glue : forall k l a c, gen c = gen a -> emit_post k l (glue a c) = glue a (emit_post k l c).
Proof.
  intros k l a c Hg. em_destruct a. em_destruct c. cbn in Hg. subst g0.
  unfold emit_post, glue, emitBase, add_lines, code.
  destruct g, bs0, k; cbn; rewrite <- ?app_assoc; reflexivity.
Qed.
Lemma emitBytes_lines_glue : forall d a c, gen c = gen a -> emitBytes_lines d (glue a c) = glue a (emitBytes_lines d c).
Proof.
  intros d a c Hg. em_destruct a. em_destruct c. cbn in Hg. subst g0.
  unfold emitBytes_lines, glue, emitBase, add_lines, code.
  destruct g, bs0; cbn; rewrite <- ?app_assoc; reflexivity.
Qed.

Lemma ztake_splice_end : forall (l d : list Z) a, 0 <= a -> a + zlen d <= zlen l ->
  ztake (a + zlen d) (splice l a d) = ztake a l ++ d.
Proof.
  intros l d a Ha Hl. unfold splice. pose proof (zlen_nonneg _ d).
  assert (Hz : zlen (ztake a l) = a) by (rewrite zlen_ztake by lia; lia).
  rewrite ztake_app. rewrite Hz. rewrite (ztake_all _ (ztake a l)) by lia.
  replace (a + zlen d - a) with (zlen d) by lia. rewrite ztake_app_exact. reflexivity.
Qed.

(* write() on the glued emitter = glue of write() on the clone *)
Lemma write_glue : forall d a c c1, coupled a c ->
  write_fails d (glue a c) = false -> write d c = Some c1 ->
  write d (glue a c) = Some (glue a c1).
Proof.
  intros d a c c1 Hcp Hf Hw. pose proof (glue_cap a c Hcp) as Hcap.
  destruct Hcp as (Hg & Hnil & Ha & Hc & Hfit).
  rewrite write_spec, Hf. f_equal.
  unfold write in Hw. unfold write_fails in Hf. unfold inv, code in *.
  em_destruct a. em_destruct c. cbn in *. subst g0.
  destruct b as [bufa|]; destruct b0 as [bufc|]; cbn in *.
  - destruct (zlen bufc <? n1 + zlen d) eqn:E; [discriminate|]. apply Z.ltb_ge in E.
    apply Z.ltb_ge in Hf. inversion Hw. subst c1. unfold glue. cbn.
    pose proof (zlen_nonneg _ d) as Hd.
    assert (Hz : zlen (ztake n1 bufc) = n1) by (rewrite zlen_ztake by lia; lia).
    rewrite Z.add_assoc. f_equal. f_equal.
    rewrite ztake_splice_end by lia.
    rewrite <- (splice_adj _ bufa (ztake n1 bufc) d n0) by lia. rewrite Hz. reflexivity.
  - destruct Hnil as [_ Hn]. specialize (Hn eq_refl). discriminate.
  - destruct Hnil as [Hn _]. specialize (Hn eq_refl). discriminate.
  - inversion Hw. subst c1. reflexivity.
Qed.

Lemma exec_glue : forall o a c, coupled a c ->
  cap_refused o c = false -> cap_refused o (glue a c) = false ->
  execX fx o (glue a c) = map_outcome (glue a) (execX fx o c).
Proof.
  intros o a c Hcp Hc Hgc. pose proof Hcp as (Hg & Hnil & Ha & Hci & Hfit).
  destruct o as [x|x|x|k d l t g|d|id|l]; cbn [execX exec map_outcome cap_refused] in *.
  - em_destruct c. reflexivity.
  - em_destruct c. reflexivity.
  - em_destruct c. reflexivity.
  - rewrite guard_ok_glue in *. destruct (guard_ok g c); [|reflexivity]. cbn [andb] in *.
    rewrite !emitK_eq. rewrite apply_track_glue in *.
    destruct (write d (apply_track t c)) as [c1|] eqn:Hw; [|rewrite write_spec, Hc in Hw; discriminate].
    assert (Hcp1 : coupled a (apply_track t c)).
    { pose proof (apply_track_store t c) as [Hb Hn].
      assert (Hg' : gen (apply_track t c) = gen c) by (em_destruct c; destruct t; reflexivity).
      unfold coupled, inv, code in *. rewrite Hb, Hn, Hg'. repeat split; tauto || lia. }
    rewrite (write_glue d a _ c1 Hcp1 Hgc Hw). cbn [map_outcome]. f_equal.
    apply emit_post_glue. destruct (write_fields _ _ _ Hw) as (_ & Hg1 & _).
    rewrite Hg1. destruct Hcp1 as (Hg2 & _). exact Hg2.
  - rewrite !EmitBytes_eq. rewrite emitBytes_lines_glue in * by exact Hg.
    destruct (write d (emitBytes_lines d c)) as [c2|] eqn:Hw; [|rewrite write_spec, Hc in Hw; discriminate].
    assert (Hcp1 : coupled a (emitBytes_lines d c)).
    { pose proof (emitBytes_lines_store d c) as [Hb Hn].
      assert (Hg' : gen (emitBytes_lines d c) = gen c).
      { clear. em_destruct c. unfold emitBytes_lines, emitBase, add_lines. destruct g, bs; reflexivity. }
      unfold coupled, inv, code in *. rewrite Hb, Hn, Hg'. repeat split; tauto || lia. }
    rewrite (write_glue d a _ c2 Hcp1 Hgc Hw). cbn [map_outcome]. f_equal; try (em_destruct c2; reflexivity).
  - f_equal. em_destruct a. em_destruct c. cbn in Hg. subst g0.
    unfold Comment, glue, emitBase, add_lines, code. destruct g, bs0; cbn; rewrite <- ?app_assoc; reflexivity.
  - unfold LabelX. change (labels (glue a c)) with (labels c).
    destruct (lookup l (labels c)); cbn [map_outcome]; [reflexivity|].
    f_equal. em_destruct a. em_destruct c. cbn in Hg. subst g0.
    unfold glue, emitBase, add_lines, code. destruct (label_flush fx), g, bs0; cbn; rewrite <- ?app_assoc; reflexivity.
Qed.

Lemma exec_coupled : forall o a c, coupled a c ->
  cap_refused o c = false -> cap_refused o (glue a c) = false ->
  coupled a (state_of (execX fx o c)).
Proof.
  intros o a c Hcp Hc Hgc. pose proof (exec_glue o a c Hcp Hc Hgc) as He.
  pose proof (glue_inv a c Hcp) as Hgi. pose proof (glue_cap a c Hcp) as Hgcap.
  destruct Hcp as (Hg & Hnil & Ha & Hci & Hfit).
  destruct (exec_static o c) as (Sg & Snil & Scap).
  destruct (exec_static o (glue a c)) as (_ & _ & Gcap). specialize (Gcap Hgi).
  pose proof (exec_inv o (glue a c) Hgi) as Gi.
  rewrite He, state_of_map in Gcap, Gi.
  unfold coupled. split; [congruence|]. split; [tauto|]. split; [exact Ha|].
  split; [apply exec_inv; exact Hci|].
  unfold inv in Gi. rewrite Gcap, Hgcap in Gi. unfold glue in Gi. cbn in Gi. lia.
Qed.

Theorem run_glue : forall t a c, coupled a c ->
  no_cap_refusal t c = true -> no_cap_refusal t (glue a c) = true ->
  runX fx t (glue a c) = (glue a (fst (runX fx t c)), snd (runX fx t c)) /\ coupled a (fst (runX fx t c)).
Proof.
  induction t as [|o r IH]; intros a c Hcp Hc Hg; cbn [runX no_cap_refusal] in *; [split; [reflexivity|exact Hcp]|].
  apply andb_true_iff in Hc. destruct Hc as [Hc Hcr]. apply negb_true_iff in Hc.
  apply andb_true_iff in Hg. destruct Hg as [Hg Hgr]. apply negb_true_iff in Hg.
  pose proof (exec_glue o a c Hcp Hc Hg) as He. pose proof (exec_coupled o a c Hcp Hc Hg) as Hcp'.
  rewrite He, state_of_map, is_refused_map in *.
  destruct (IH a _ Hcp' Hcr Hgr) as [Hrun Hcpf]. rewrite Hrun.
  destruct (runX fx r (state_of (execX fx o c))) as [cf rl]. cbn [fst snd] in *. split; [reflexivity|exact Hcpf].
Qed.

Lemma run_maps : forall t e, maps_sorted e -> maps_sorted (fst (runX fx t e)) /\ keys_incl e (fst (runX fx t e)).
Proof.
  induction t as [|o r IH]; intros e Hs; cbn [runX]; [split; [exact Hs|apply keys_incl_refl]|].
  destruct (exec_maps o e Hs) as [Hs1 Hk1]. destruct (IH _ Hs1) as [Hs2 Hk2].
  destruct (runX fx r (state_of (execX fx o e))) as [ef rl]. cbn [fst] in *.
  split; [exact Hs2|eapply keys_incl_trans; eassumption].
Qed.

Lemma run_inv : forall t e, inv e -> inv (fst (runX fx t e)).
Proof.
  induction t as [|o r IH]; intros e Hi; cbn [runX]; [exact Hi|].
  specialize (IH _ (exec_inv o e Hi)). destruct (runX fx r (state_of (execX fx o e))). exact IH.
Qed.

Lemma run_nil : forall t e, buf (fst (runX fx t e)) = None <-> buf e = None.
Proof.
  induction t as [|o r IH]; intros e; cbn [runX]; [reflexivity|].
  destruct (exec_static o e) as (_ & Hn & _). specialize (IH (state_of (execX fx o e))).
  destruct (runX fx r (state_of (execX fx o e))). cbn [fst] in *. rewrite IH. exact Hn.
Qed.

Lemma run_app : forall h t e,
  runX fx (h ++ t) e = (fst (runX fx t (fst (runX fx h e))), snd (runX fx h e) ++ snd (runX fx t (fst (runX fx h e)))).
Proof.
  induction h as [|o r IH]; intros t e; cbn [app runX].
  - cbn [fst snd app]. destruct (runX fx t e); reflexivity.
  - rewrite IH. destruct (runX fx r (state_of (execX fx o e))) as [ef rl]. reflexivity.
Qed.

(* Append with base copied = glue, once the clone's maps contain the original's *)
Lemma append_glue : forall a c, coupled a c -> maps_sorted a -> maps_sorted c -> keys_incl a c ->
  Append true a c = Done (glue a c).
Proof.
  intros a c (Hg & Hnil & Ha & Hc & Hfit) (A1 & A2 & A3) (C1 & C2 & C3) (K1 & K2 & K3).
  unfold Append. destruct (zlen (code a) <? n a + n c) eqn:E; [apply Z.ltb_lt in E; lia|].
  unfold glue. rewrite !merge_absorb by assumption. reflexivity.
Qed.

(* the state-level theorem: from ANY well-formed emitter [a], running a history on a clone and appending
   yields exactly the emitter obtained by running the history on [a] itself *)
Theorem clone_append_state : forall t a target,
  inv a -> maps_sorted a -> (buf a = None <-> target = None) ->
  no_cap_refusal t a = true -> no_cap_refusal t (Clone target a) = true ->
  Append true a (fst (runX fx t (Clone target a))) = Done (fst (runX fx t a)) /\
  snd (runX fx t (Clone target a)) = snd (runX fx t a).
Proof.
  intros t a target Hi Hs Hnil Hda Hdc.
  assert (Hcp : coupled a (Clone target a)).
  { unfold coupled. split; [reflexivity|]. split; [exact Hnil|]. split; [exact Hi|].
    split; [apply clone_inv|]. unfold Clone. cbn. unfold inv in Hi. lia. }
  pose proof (run_glue t a (Clone target a) Hcp Hdc) as Hrg. rewrite glue_clone in Hrg.
  destruct (Hrg Hda) as [Hrun Hcpf].
  assert (Hsc : maps_sorted (Clone target a)) by exact Hs.
  destruct (run_maps t _ Hsc) as [Hsf Hkf].
  rewrite append_glue; try assumption.
  - rewrite Hrun. cbn [fst snd]. split; reflexivity.
Qed.

(* everything a client can observe of an emitter (C16's list): bytes, Len, PC, tracked flags, every
   label, both listings, and for EVERY pair of visiting orders the Finalize outcome, the finalized bytes
   and the listings after Finalize *)
Record observation := mkObservation {
  ob_bytes : list Z; ob_len : Z; ob_cap : Z; ob_pc : Z; ob_flags : Z; ob_base : Z;
  ob_label : lbl -> option Z;
  ob_text : list rline * bool; ob_hex : list rline * bool;
  ob_finalize : list lbl -> list lbl -> fres * list Z * (list rline * bool) * (list rline * bool) }.
Definition observe (e : em) : observation :=
  mkObservation (Bytes e) (Len e) (Cap e) (PC e) (Flags e) (GetBase e) (fun l => GetLabel l e)
    (WriteTextTo e) (WriteHexTo e)
    (fun o8 o16 => let '(e1, r) := Finalize o8 o16 e in (r, Bytes e1, WriteTextTo e1, WriteHexTo e1)).

Lemma new_em_ok : forall target g, inv (new_em target g) /\ maps_sorted (new_em target g).
Proof.
  intros target g. split.
  - unfold inv, new_em, code. cbn. destruct target as [t|]; [pose proof (zlen_nonneg _ t)|cbn]; lia.
  - unfold maps_sorted, new_em. cbn. auto.
Qed.

(* C16 for the emitter whose Append copies base (the repaired code), over every history, every split
   point, listing on or off, any base or none, labels on either side of the split *)
Theorem clone_append_equiv : forall ops k target0 g target,
  let e0 := new_em target0 g in
  let a := fst (runX fx (firstn k ops) e0) in
  let c := runX fx (skipn k ops) (Clone target a) in
  (target0 = None <-> target = None) ->
  no_cap_refusal (skipn k ops) a = true ->                   (* the tail fits the original's target *)
  no_cap_refusal (skipn k ops) (Clone target a) = true ->    (* and the clone's *)
  Append true a (fst c) = Done (fst (runX fx ops e0)) /\
  snd (runX fx ops e0) = snd (runX fx (firstn k ops) e0) ++ snd c.
Proof.
  intros ops k target0 g target e0 a c Hnil Hda Hdc.
  destruct (new_em_ok target0 g) as [Hi0 Hs0].
  assert (Hia : inv a) by (apply run_inv; exact Hi0).
  assert (Hsa : maps_sorted a) by (apply run_maps; exact Hs0).
  assert (Hna : buf a = None <-> target = None).
  { unfold a. rewrite run_nil. exact Hnil. }
  destruct (clone_append_state (skipn k ops) a target Hia Hsa Hna Hda Hdc) as [Happ Hrl].
  assert (Hr : runX fx ops e0 = (fst (runX fx (skipn k ops) a), snd (runX fx (firstn k ops) e0) ++ snd (runX fx (skipn k ops) a))).
  { rewrite <- (firstn_skipn k ops) at 1. rewrite run_app. reflexivity. }
  rewrite Hr. cbn [fst snd]. unfold c. rewrite Happ, Hrl. split; reflexivity.
Qed.

Theorem clone_append_observe : forall ops k target0 g target,
  let e0 := new_em target0 g in
  let a := fst (runX fx (firstn k ops) e0) in
  let c := fst (runX fx (skipn k ops) (Clone target a)) in
  (target0 = None <-> target = None) ->
  no_cap_refusal (skipn k ops) a = true ->
  no_cap_refusal (skipn k ops) (Clone target a) = true ->
  is_refused (Append true a c) = false /\
  observe (state_of (Append true a c)) = observe (fst (runX fx ops e0)).
Proof.
  intros ops k target0 g target e0 a c Hnil Hda Hdc.
  destruct (clone_append_equiv ops k target0 g target Hnil Hda Hdc) as [H _].
  fold e0 a in H. fold c in H. rewrite H. split; reflexivity.
Qed.

(* the same with a static size premise instead of "nothing refused for capacity" *)
Corollary clone_append_room : forall ops k b g bc,
  let e0 := new_em (Some b) g in
  let a := fst (runX fx (firstn k ops) e0) in
  let c := fst (runX fx (skipn k ops) (Clone (Some bc) a)) in
  total_demand ops <= zlen b -> total_demand (skipn k ops) <= zlen bc ->
  observe (state_of (Append true a c)) = observe (fst (runX fx ops e0)).
Proof.
  intros ops k b g bc e0 a c Hb Hbc.
  assert (Hd : forall l, 0 <= total_demand l).
  { induction l as [|o r IHr]; cbn [total_demand]; [lia|]. pose proof (demand_nonneg o). lia. }
  assert (Hsplit : total_demand ops = total_demand (firstn k ops) + total_demand (skipn k ops)).
  { rewrite <- (firstn_skipn k ops) at 1. generalize (firstn k ops) as h. intros h.
    induction h as [|o r IHr]; cbn [app total_demand]; lia. }
  destruct (new_em_ok (Some b) g) as [Hi0 Hs0].
  (* bytes emitted by the head are bounded by its demand *)
  assert (Hgrow : forall l e, inv e -> buf e <> None -> n e + total_demand l <= zlen (code e) ->
            n (fst (runX fx l e)) <= n e + total_demand l /\ zlen (code (fst (runX fx l e))) = zlen (code e)).
  { induction l as [|o r IHr]; intros e Hi Hne Hle; cbn [runX total_demand] in *; [cbn; lia|].
    pose proof (Hd r). pose proof (demand_nonneg o).
    destruct (exec_growth o e Hi Hne ltac:(lia)) as (_ & Hn & Hl & Hb').
    specialize (IHr (state_of (execX fx o e)) (exec_inv o e Hi) Hb' ltac:(rewrite Hl; lia)).
    destruct (runX fx r (state_of (execX fx o e))) as [ef rl]. cbn [fst] in *. rewrite Hl in IHr. lia. }
  assert (Hne0 : buf e0 <> None) by (unfold e0, new_em; cbn; discriminate).
  pose proof (Hd (skipn k ops)) as Hds.
  destruct (Hgrow (firstn k ops) e0 Hi0 Hne0) as [Hna Hca].
  { unfold e0, new_em, code. cbn. lia. }
  assert (Hia : inv a) by (apply run_inv; exact Hi0).
  assert (Hnea : buf a <> None).
  { unfold a. intros H. apply run_nil in H. exact (Hne0 H). }
  apply clone_append_observe.
  - split; discriminate.
  - fold e0. fold a. apply room_suffices; try assumption.
    fold a in Hna, Hca. rewrite Hca. unfold e0, new_em, code in *. cbn in *. lia.
  - fold e0. fold a. apply room_suffices; [apply clone_inv|unfold Clone; cbn; discriminate|].
    unfold Clone, code. cbn. lia.
Qed.

(* frame lemmas.  In the functional model an emitter is a value: nothing done to the clone can change
   the original, by construction -- the absence of aliasing between the Go objects is established by
   the tie and the falsifier (the original is observed after every call on the clone), not here.
   (What the model does say: [Clone] reads its argument and builds a new value; [runX fx ops (Clone target a)]
   does not mention [a] again; [Append] returns the unchanged [a] when refused.) *)
(* a refused Append leaves the original exactly as it was: [append_refused_leaves] above; it is refused
   exactly when the clone's bytes do not fit *)
Theorem append_refused_iff : forall cb a e, is_refused (Append cb a e) = (zlen (code a) <? n a + n e).
Proof. intros. unfold Append. destruct (zlen (code a) <? n a + n e); reflexivity. Qed.



End WithFixes.

(* ---- examples and witnesses, for each of the four variants *)
Example refused_emitbytes_appends_listing : forall fx,
  let e := new_em (Some [0]) true in
  exists e', execX fx (OEmitBytes [1; 2]) e = Refused e' /\ lines e = [] /\ lines e' = [mkLine KDB 0 2 nolbl [1; 2]].
Proof. intros fx; destruct fx as [[|] [|]]; eexists; repeat split. Qed.

Example dry_run_nonvacuous : forall fx,
  let ops := [OSetBase 32768; OSEP 48; OIns E2 [169; 1] nolbl TNone GM8; OIns E2L [208; 255] 1%N TNone GNone;
              OEmitBytes [1; 2; 3]; OLabel 1%N; OIns E3 [169; 0; 0] nolbl TNone GM16; OLabel 1%N] in
  no_cap_refusal fx ops (new_em (Some (repeat 0 9)) true) = true /\
  snd (runX fx ops (new_em None true)) = [false; false; false; false; false; false; true; true] /\
  PC (fst (runX fx ops (new_em None true))) = 32777.
Proof. intros fx; destruct fx as [[|] [|]]; cbv zeta; repeat split; vm_compute; reflexivity. Qed.

(* non-vacuity: a forward reference made before the split and resolved after it, SetBase in the tail *)
Example clone_append_nonvacuous : forall fx,
  let ops := [OIns E2L [208; 255] 2%N TNone GNone; OSetBase 32768; OEmitBytes [1; 2; 3]; OLabel 2%N;
              OSEP 32; OIns E3L [76; 255; 255] 2%N TNone GNone] in
  let e0 := new_em (Some (repeat 0 16)) true in
  let a := fst (runX fx (firstn 1 ops) e0) in
  no_cap_refusal fx (skipn 1 ops) a = true /\ no_cap_refusal fx (skipn 1 ops) (Clone (Some (repeat 7 9)) a) = true /\
  Bytes (fst (runX fx ops e0)) = [208; 255; 1; 2; 3; 226; 32; 76; 255; 255].
Proof. intros fx; destruct fx as [[|] [|]]; cbv zeta; repeat split; vm_compute; reflexivity. Qed.

(* today's Append (base not copied): C16 is refuted.  SetBase in the tail, split before it: the direct
   emitter finalizes, the appended one indexes code[$8001 - 0] and panics; its listings panic as well *)
Definition c16_witness_ops : list op := [OSetBase 32768; OIns E2L [128; 255] 0%N TNone GNone; OLabel 0%N].
Theorem C16_refuted_without_base_copy : forall fx,
  let e0 := new_em (Some (repeat 0 16)) true in
  let a := fst (runX fx (firstn 0 c16_witness_ops) e0) in
  let c := fst (runX fx (skipn 0 c16_witness_ops) (Clone (Some (repeat 0 8)) a)) in
  no_cap_refusal fx c16_witness_ops a = true /\ no_cap_refusal fx c16_witness_ops (Clone (Some (repeat 0 8)) a) = true /\
  is_refused (Append false a c) = false /\
  GetBase (state_of (Append false a c)) = 0 /\ GetBase (fst (runX fx c16_witness_ops e0)) = 32768 /\
  snd (Finalize [0%N] [] (fst (runX fx c16_witness_ops e0))) = FOk /\
  snd (Finalize [0%N] [] (state_of (Append false a c))) = FPanic /\
  snd (WriteTextTo (fst (runX fx c16_witness_ops e0))) = false /\
  snd (WriteTextTo (state_of (Append false a c))) = true /\
  observe (state_of (Append false a c)) <> observe (fst (runX fx c16_witness_ops e0)).
Proof.
  intros fx; destruct fx as [[|] [|]]; cbv zeta; do 9 (split; [vm_compute; reflexivity|]);
  intros H; apply (f_equal ob_base) in H; vm_compute in H; discriminate.
Qed.


(* ================================================================== summary for the per-run property files *)
(* [execX today = exec], [runX today = run]: the variant [today] is the model of Model/Emitter.v itself *)
Lemma db_loopX_false : forall bs a0 blen i cur caddr acc,
  db_loopX false a0 blen i cur caddr bs acc = db_loop a0 blen i cur caddr bs acc.
Proof.
  induction bs as [|v r IH]; intros; cbn [db_loopX db_loop]; [reflexivity|].
  destruct (Z.land i 15 =? 15); apply IH.
Qed.
Lemma execX_today_exec : forall o e, execX today o e = exec o e.
Proof.
  intros o e. destruct o; cbn [execX exec]; try reflexivity.
  unfold EmitBytesX, EmitBytes, db_linesX, db_lines. cbn [chunk_own today].
  destruct (gen e); [|reflexivity]. rewrite db_loopX_false. reflexivity.
Qed.
Lemma runX_today_run : forall ops e, runX today ops e = run ops e.
Proof.
  induction ops as [|o r IH]; intros e; cbn [runX run]; [reflexivity|].
  rewrite execX_today_exec, IH. reflexivity.
Qed.

Definition C19_len_le_cap_stmt (fx : fixes) : Prop := forall e, reachable fx e -> 0 <= Len e <= Cap e.
Definition C19_refused_stmt (fx : fixes) : Prop := forall o e e', execX fx o e = Refused e' ->
  Bytes e' = Bytes e /\ Len e' = Len e /\ Cap e' = Cap e /\ PC e' = PC e /\
  (forall l, GetLabel l e' = GetLabel l e) /\ GetBase e' = GetBase e.
Definition C19_dry_run_stmt (fx : fixes) : Prop := forall ops b g k,
  no_cap_refusal fx ops (new_em (Some b) g) = true ->
  let dry := runX fx (firstn k ops) (new_em None g) in
  let real := runX fx (firstn k ops) (new_em (Some b) g) in
  PC (fst dry) = PC (fst real) /\ (forall l, GetLabel l (fst dry) = GetLabel l (fst real)) /\
  Flags (fst dry) = Flags (fst real) /\ IsM16bit (fst dry) = IsM16bit (fst real) /\
  IsX16bit (fst dry) = IsX16bit (fst real) /\ snd dry = snd real /\ Len (fst dry) = 0.
Definition C16_stmt (fx : fixes) (copies_base : bool) : Prop := forall ops k target0 g target,
  let e0 := new_em target0 g in
  let a := fst (runX fx (firstn k ops) e0) in
  let c := fst (runX fx (skipn k ops) (Clone target a)) in
  (target0 = None <-> target = None) ->
  no_cap_refusal fx (skipn k ops) a = true ->
  no_cap_refusal fx (skipn k ops) (Clone target a) = true ->
  is_refused (Append copies_base a c) = false /\
  observe (state_of (Append copies_base a c)) = observe (fst (runX fx ops e0)).

Theorem C19_holds : forall fx, C19_len_le_cap_stmt fx /\ C19_refused_stmt fx /\ C19_dry_run_stmt fx.
Proof. intros fx. split; [exact (len_le_cap fx)|]. split; [exact (refused_leaves fx)|exact (dry_run_agrees fx)]. Qed.
Theorem C16_holds_with_base_copy : forall fx, C16_stmt fx true.
Proof. intros fx. exact (clone_append_observe fx). Qed.
Theorem C16_fails_without_base_copy : forall fx, ~ C16_stmt fx false.
Proof.
  intros fx H.
  specialize (H c16_witness_ops 0%nat (Some (repeat 0 16)) true (Some (repeat 0 8))).
  cbv zeta in H. destruct H as [_ H].
  - split; discriminate.
  - destruct fx as [[|] [|]]; vm_compute; reflexivity.
  - destruct fx as [[|] [|]]; vm_compute; reflexivity.
  - apply (f_equal ob_base) in H. destruct fx as [[|] [|]]; vm_compute in H; discriminate.
Qed.
Print Assumptions C19_holds.
Print Assumptions refused_iff.
Print Assumptions room_suffices.
Print Assumptions C16_holds_with_base_copy.
Print Assumptions C16_fails_without_base_copy.
Print Assumptions clone_append_state.
Print Assumptions clone_append_room.
