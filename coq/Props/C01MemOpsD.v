(* C01: stores with a memory operand, once per mnemonic for all memory addressing modes.
   snapshot_dep: op_sta, op_stx, op_sty, op_stz *)
From Coq Require Import ZArith NArith List Bool Lia.
From Spec Require Import ISA Spec816.
From Lib Require Import ZOps Machine.
From Snapshot Require Import GenFields GenCpu65.
From Props Require Import C01Base C01Flow C01Imm C01Mem C01MemLoc C01MemOps.
Import ListNotations.
Local Open Scope Z_scope.
Arguments Z.modulo : simpl never.
Arguments Z.lor : simpl never.
Arguments Z.land : simpl never.
Arguments Z.shiftl : simpl never.
Arguments Z.shiftr : simpl never.

Lemma acc_low : forall h l, 0 <= l < 256 -> (h * 256 + l) mod 256 = l.
Proof. intros h l Hl. Z.div_mod_to_equations. lia. Qed.

Ltac mem_writes :=
  cbn [snd]; spec_eval_m; rw_hyps; lits; spec_eval_m; unfold wrw; cbn [apply_writes]; extra_rw;
  repeat match goal with |- (if ?c then _ else _) = _ => destruct c end; try reflexivity;
  unfold w_or, w_and, w_xor; arith; rewrite ?acc_low by lia; try reflexivity; field_goal.

Lemma sta_mem : forall op, memop op STA op_sta -> refines_op op.
Proof. intro op. open_mem op_sta. - write16. close_op mem_writes. - write8. close_op mem_writes. Qed.
Lemma stx_mem : forall op, memop op STX op_stx -> refines_op op.
Proof. intro op. open_mem op_stx. - write16. close_op mem_writes. - write8. close_op mem_writes. Qed.
Lemma sty_mem : forall op, memop op STY op_sty -> refines_op op.
Proof. intro op. open_mem op_sty. - write16. close_op mem_writes. - write8. close_op mem_writes. Qed.
Lemma stz_mem : forall op, memop op STZ op_stz -> refines_op op.
Proof. intro op. open_mem op_stz. - write16. close_op mem_writes. - write8. close_op mem_writes. Qed.
