(* C01 refinement lemmas, family D (see C01Base.v) *)
From Coq Require Import ZArith NArith List Bool Lia.
From Spec Require Import ISA Spec816.
From Lib Require Import ZOps Machine.
From Snapshot Require Import GenFields GenCpu65.
From Props Require Import C01Base.
Local Open Scope Z_scope.
Arguments Z.modulo : simpl never.
Arguments Z.lor : simpl never.
Arguments Z.land : simpl never.
Arguments Z.shiftl : simpl never.
Arguments Z.shiftr : simpl never.

Lemma ref_1B : refines_op 27. Proof. reg_only 27 op_tcs TCS Imp. Qed.
Lemma ref_3B : refines_op 59. Proof. reg_only 59 op_tsc TSC Imp. Qed.
Lemma ref_5B : refines_op 91. Proof. reg_only 91 op_tcd TCD Imp. Qed.
Lemma ref_7B : refines_op 123. Proof. reg_only 123 op_tdc TDC Imp. Qed.
Lemma ref_EB : refines_op 235. Proof. reg_only 235 op_xba XBA Imp. Qed.
