(* Tie of the RunUntil loop model (Model.Disasm.run_until) to the compiled System.RunUntil: the harness records, per
   case, the trajectory (PBR:PC, cycles) of the real CPU and the observed (result, number of executed steps); the model
   loop is run over a synthetic step function that replays that trajectory and must give the same answer. *)
From Coq Require Import ZArith NArith List Bool.
From Lib Require Import ZOps Machine.
From Model Require Import Disasm.
Import ListNotations.
Local Open Scope Z_scope.

Definition tfl : fields := mkfields 1%N 2%N 3%N 4%N 5%N 6%N 7%N 8%N 9%N 10%N 11%N 12%N 13%N 14%N 15%N 16%N.
Definition tidx : N := 100%N.

Definition set_pc (pc : Z) (s : st) : st := set (fPC tfl) (pc mod 65536) (set (fRK tfl) (pc / 65536) s).

Definition traj_step (tr : list (Z * Z)) (s : st) : res (Z * bool) :=
  let i := get tidx s in
  let cy := snd (nth (Z.to_nat i) tr (0, 1)) in
  let pcn := fst (nth (Z.to_nat (i + 1)) tr (0, 1)) in
  Ok (cy, false) (set tidx (i + 1) (set_pc pcn s)).

Definition st0 (tr : list (Z * Z)) : st :=
  set tidx 0 (set_pc (fst (nth 0 tr (0, 1))) (mkst (fun _ => 0) (fun _ => 0) [] (fun _ => false) false)).

(* case = (target, maxc, observed result, observed number of executed steps, trajectory) *)
Definition run_case (c : Z * Z * bool * Z * list (Z * Z)) : bool :=
  let '(target, maxc, ret, steps, tr) := c in
  match run_until tfl (traj_step tr) None (S (S (length tr))) target maxc 0 (st0 tr) [] with
  | Done b _ s' _ => Bool.eqb b ret && (get tidx s' =? steps)
  | _ => false
  end.

Definition bad_cases (cs : list (Z * Z * bool * Z * list (Z * Z))) := filter (fun c => negb (run_case c)) cs.
