(* C01, ADC / SBC: the pure arithmetic cores.

   This file isolates, as Gallina functions of the accumulator [a], the operand [b], the carry-in [c] and the
   D flag [dec], exactly what the generated op_adc / op_sbc compute (C01AdcOps.v proves that the routines
   compute them), and proves them equal to the arithmetic of Spec816.do_adc / do_sbc:

     adcW_sum a d c dec      the Go variable `sum` at the end of the (binary or nibble-wise decimal) addition
     sbcW_sum a d c dec      the same for op_sbc, d being the COMPLEMENTED operand (not8 b / not16 b)
     adcW_res / _C / _V      result value (conv8 / conv16 of the sum), carry-out, overflow   (W = 8, 16)
     sbcW_res / _C / _V      the same for SBC, as functions of the uncomplemented operand b
     N and Z are functions of the result only (nz_N8 ... below).

   Definitions only.  C01Adc8.v: 8-bit, binary and decimal, by exhaustion over the 2^17 triples (a, b, c).
   C01Adc16.v: 16-bit binary, algebraically.  C01AdcDec.v: 16-bit decimal, digit by digit.

   snapshot_dep: (none: no generated function is unfolded in this file) *)
From Coq Require Import ZArith NArith List Bool Lia.
From Spec Require Import ISA Spec816.
From Lib Require Import ZOps Machine.
From Snapshot Require Import GenFields GenCpu65.
From Props Require Import C01Base.
Local Open Scope Z_scope.
Arguments Z.modulo : simpl never.
Arguments Z.lor : simpl never.
Arguments Z.land : simpl never.
Arguments Z.shiftl : simpl never.
Arguments Z.shiftr : simpl never.

(* ---------------------------------------------------------------- the cores *)
Definition adc8_sum (a d c : Z) (dec : bool) : Z :=
  if dec then
    let s := add16 (add16 (w_and a 15) (w_and d 15)) c in
    let s := if w_ltb 9 s then add16 s 6 else s in
    let s := if w_ltb 15 s then add16 (w_and s 15) 16 else s in
    let s := add16 s (add16 (w_and a 240) (w_and d 240)) in
    if w_ltb 159 s then add16 s 96 else s
  else add16 (add16 a d) c.

Definition sbc8_sum (a d c : Z) (dec : bool) : Z :=
  if dec then
    let s := add16 (add16 (w_and a 15) (w_and d 15)) c in
    let s := if w_leb s 15 then w_and (add16 s 10) 15 else s in
    let s := add16 s (add16 (w_and a 240) (w_and d 240)) in
    if w_leb s 255 then w_and (add16 s 160) 255 else s
  else add16 (add16 a d) c.

(* 16 bits: the decimal path is a chain of four digit stages (the carry into digit i sits in bit 4i of the sum) *)
Definition adc_d0 (a d c : Z) : Z :=
  let s := add32 (add32 (w_and a 15) (w_and d 15)) c in
  let s := if w_ltb 9 s then add32 s 6 else s in
  if w_ltb 15 s then add32 (w_and s 15) 16 else s.
Definition adc_d1 (a d s : Z) : Z :=
  let s := add32 s (add32 (w_and a 240) (w_and d 240)) in
  let s := if w_ltb 159 s then add32 s 96 else s in
  if w_ltb 255 s then add32 (w_and s 255) 256 else s.
Definition adc_d2 (a d s : Z) : Z :=
  let s := add32 s (add32 (w_and a 3840) (w_and d 3840)) in
  let s := if w_ltb 2559 s then add32 s 1536 else s in
  if w_ltb 4095 s then add32 (w_and s 4095) 4096 else s.
Definition adc_d3 (a d s : Z) : Z :=
  let s := add32 s (add32 (w_and a 61440) (w_and d 61440)) in
  if w_ltb 40959 s then add32 s 24576 else s.

Definition adc16_sum (a d c : Z) (dec : bool) : Z :=
  if dec then adc_d3 a d (adc_d2 a d (adc_d1 a d (adc_d0 a d c)))
  else add32 (add32 a d) c.

Definition sbc_d0 (a d c : Z) : Z :=
  let s := add32 (add32 (w_and a 15) (w_and d 15)) c in
  if w_leb s 15 then w_and (add32 s 10) 15 else s.
Definition sbc_d1 (a d s : Z) : Z :=
  let s := add32 s (add32 (w_and a 240) (w_and d 240)) in
  if w_leb s 255 then w_and (add32 s 160) 255 else s.
Definition sbc_d2 (a d s : Z) : Z :=
  let s := add32 s (add32 (w_and a 3840) (w_and d 3840)) in
  if w_leb s 4095 then w_and (add32 s 2560) 4095 else s.
Definition sbc_d3 (a d s : Z) : Z :=
  let s := add32 s (add32 (w_and a 61440) (w_and d 61440)) in
  if w_leb s 65535 then w_and (add32 s 40960) 65535 else s.

Definition sbc16_sum (a d c : Z) (dec : bool) : Z :=
  if dec then sbc_d3 a d (sbc_d2 a d (sbc_d1 a d (sbc_d0 a d c)))
  else add32 (add32 a d) c.

(* the flag computations shared by op_adc and op_sbc (d = the second addend as the routine sees it) *)
Definition flagC8 (sum : Z) : bool := w_ltb 255 sum.
Definition flagC16 (sum : Z) : bool := w_ltb 65535 sum.
Definition flagV8 (a d sum : Z) : bool :=
  andb (w_eqb (w_and (w_xor a d) 128) 0) (negb (w_eqb (w_and (w_xor a sum) 128) 0)).
Definition flagV16 (a d sum : Z) : bool :=
  andb (w_eqb (w_and (w_xor a d) 32768) 0) (negb (w_eqb (w_and (w_xor a sum) 32768) 0)).

Definition adc8_res a b c dec := conv8 (adc8_sum a b c dec).
Definition adc8_C a b c dec := flagC8 (adc8_sum a b c dec).
Definition adc8_V a b c dec := flagV8 a b (adc8_sum a b c dec).
Definition sbc8_res a b c dec := conv8 (sbc8_sum a (not8 b) c dec).
Definition sbc8_C a b c dec := flagC8 (sbc8_sum a (not8 b) c dec).
Definition sbc8_V a b c dec := flagV8 a (not8 b) (sbc8_sum a (not8 b) c dec).
Definition adc16_res a b c dec := conv16 (adc16_sum a b c dec).
Definition adc16_C a b c dec := flagC16 (adc16_sum a b c dec).
Definition adc16_V a b c dec := flagV16 a b (adc16_sum a b c dec).
Definition sbc16_res a b c dec := conv16 (sbc16_sum a (not16 b) c dec).
Definition sbc16_C a b c dec := flagC16 (sbc16_sum a (not16 b) c dec).
Definition sbc16_V a b c dec := flagV16 a (not16 b) (sbc16_sum a (not16 b) c dec).

(* N and Z as setZN8 / setZN16 derive them from the stored result *)
Definition nz_N8 (r : Z) : bool := 128 <=? r.
Definition nz_N16 (r : Z) : bool := 32768 <=? r.
Definition nz_Z (r : Z) : bool := r =? 0.

